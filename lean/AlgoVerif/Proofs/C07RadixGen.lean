import AlgoVerif.Generated.C07RadixGen
import AlgoVerif.Proofs.C07QuickGen
import AlgoVerif.Model.C07Radix
/-!
# The GENERATED model of `radixsort/{radixsort,lsd,msd,quick}.go` and the hand-written Model

`Generated/C07RadixGen.lean` is rewritten from /repo's source by `/verif/extract/go2lean` on every check run
(`bin/pre-C07`; every function of the four files).  As in `Proofs/C07Gen.lean` the hand Model (`Model/C07Radix.lean`)
is related to the generated definitions by `x ≼ y`: the hand Model's outcome is `diverge` (its own fuel ran out —
excluded by the `C07_*` theorems), or the generated definition, given at least the stated fuel, computes exactly the
same outcome.

* The hand Model has ONE counting pass (`freqLoop`, `cumLoop`, `addLoop`, `distLoop`, `copyBack`, `bucketLoop`)
  parameterised by the digit function; the Go code — and so the generated file — repeats these loops in every
  function.  Each generated loop is related to the hand Model's loop instantiated with its digit (`LSDString_loop2`
  … `msdInt_loop7`): induction on the hand Model's fuel, the step by `outcome_auto`.
* Words.  `uint` is `UInt64` on both sides (`digitU`).  The hand Model keeps an `int` as its 64-bit pattern too; the
  generated code has the unbounded `Int`, an arithmetic `>>` and the 64-bit `&` (`Go.andInt`): the `[]int` of the
  generated functions is the image under `toI` (two's-complement value) of the hand Model's words, and
  `digitI` proves that `(v >> shift) & 255` is the same byte for `0 ≤ shift ≤ 56` (the logical shift of the hand
  Model and the arithmetic shift of Go agree on the low 8 bits as long as 8 bits are left).  The statements for
  `msdInt` / `msdUint` are for digits `d ≥ 0` (what `MSDInt` / `MSDUint` and the recursion produce).
* Strings are `List UInt8` on both sides; `<` of `insertion[T constraints.Ordered]` is the class `Go.Ordered`, whose
  instances are the hand Model's `bytesLt`, `uLt`, `iLt` (`lt_str`, `lt_u64`, `lt_toI`).
* Recursion inside a loop (`for r := 0; r < R; r++ { msdString(…) }`): the generated loop receives the function as a
  parameter; `*_loop5/7` relate it to `bucketLoop` for any pair of related recursions that preserve the length.
* `shuffle` draws from math/rand's package-level generator, which the generated code threads through as `grand_`.
-/
set_option linter.unusedSectionVars false
set_option linter.unusedSimpArgs false
namespace AlgoVerif.C07.RGen
open AlgoVerif AlgoVerif.Outcome AlgoVerif.C07 AlgoVerif.C07.Gen AlgoVerif.Generated AlgoVerif.Generated.Radix

/-! ## primitives -/

theorem bind_map_left {α β γ : Type} (x : Outcome α) (f : α → β) (g : β → Outcome γ) :
    (x.map f >>= g) = (x >>= fun a => g (f a)) := by cases x <;> rfl

theorem byteAt_eq (d : Int) (s : List UInt8) : byteAt d s = (Go.strIdx s d).map (fun b => (b.toNat : Int)) := by
  unfold byteAt Go.strIdx
  split
  · cases s[d.toNat]? <;> rfl
  · rfl

@[simp] theorem strIdx_ne_diverge (s : Go.Str) (i : Int) : (Go.strIdx s i = .diverge) = False := by
  unfold Go.strIdx; split
  · cases s[i.toNat]? <;> simp
  · simp

theorem charAt_eq (s : List UInt8) (d : Int) : C07.charAt s d = Radix.charAt s d := by
  unfold C07.charAt Radix.charAt Go.strIdx
  by_cases h1 : d < (s.length : Int)
  · by_cases h2 : 0 ≤ d
    · cases s[d.toNat]? <;> simp [h1, h2]
    · simp [h1, h2]
  · simp [h1]

@[simp] theorem charAt_ne_diverge (s : Go.Str) (d : Int) : (Radix.charAt s d = .diverge) = False := by
  unfold Radix.charAt
  split
  · cases h : Go.strIdx s d <;> simp_all
  · simp

theorem strLt_eq : ∀ (a b : List UInt8), Go.strLt a b = bytesLt a b
  | _, [] => by cases ‹List UInt8› <;> rfl
  | [], _ :: _ => rfl
  | x :: xs, y :: ys => by
    simp only [Go.strLt, bytesLt, strLt_eq xs ys]

/-! ## digits of machine words -/

/-- a signed `int` of the hand Model (a 64-bit pattern) as the generated code's `Int` -/
def toI (w : UInt64) : Int := w.toInt64.toInt

theorem and255_le (t : UInt64) : (t &&& 255).toNat ≤ 255 := by
  rw [UInt64.toNat_and]; exact Nat.and_le_right

theorem succ_and255 (t : UInt64) : (((t &&& 255) + 1).toNat : Int) = ((t &&& 255).toNat : Int) + 1 := by
  have h := and255_le t
  rw [UInt64.toNat_add]
  have : (1 : UInt64).toNat = 1 := rfl
  rw [this, Nat.mod_eq_of_lt (by omega)]
  omega

/-- the digit of a `uint`: `(v >> shift) & MASK` for `0 ≤ shift < 64`; a negative count panics on both sides -/
theorem digitU (v : UInt64) (shift : Int) (hs : shift < 64) :
    digitAt v shift = (Go.shrU64 v shift).map (fun t => ((t &&& 255).toNat : Int)) := by
  unfold digitAt Go.shrU64
  by_cases h0 : 0 ≤ shift
  · have : ¬ shift < 0 := by omega
    simp [h0, hs, this]
  · have : shift < 0 := by omega
    simp [h0, this]

theorem toI_eq (w : UInt64) : toI w = w.toBitVec.toInt := rfl

theorem getLsbD_255 (i : Nat) : (255#64).getLsbD i = decide (i < 8) := by
  rw [BitVec.getLsbD_ofNat]
  have : (255 : Nat) = 2 ^ 8 - 1 := rfl
  rw [this, Nat.testBit_two_pow_sub_one]
  by_cases h : i < 8
  · have : i < 64 := by omega
    simp [h, this]
  · simp [h]

/-- the low byte of an arithmetic and of a logical shift agree while the shift leaves 8 bits -/
theorem sshift_and255 (x : BitVec 64) (s : Nat) (hs : s ≤ 56) :
    x.sshiftRight s &&& 255#64 = (x >>> s) &&& 255#64 := by
  apply BitVec.eq_of_getLsbD_eq
  intro i hi
  simp only [BitVec.getLsbD_and, getLsbD_255, BitVec.getLsbD_sshiftRight, BitVec.getLsbD_ushiftRight]
  by_cases h8 : i < 8
  · have h1 : s + i < 64 := by omega
    have h2 : ¬ 64 ≤ i := by omega
    simp [h8, h1, h2]
  · simp [h8]

theorem and255_toInt (y : BitVec 64) : (y &&& 255#64).toInt = ((y &&& 255#64).toNat : Int) := by
  apply BitVec.toInt_eq_toNat_of_lt
  have : (y &&& 255#64).toNat ≤ 255 := by
    rw [BitVec.toNat_and]; exact Nat.and_le_right
  omega

/-- the digit of an `int`: `(v >> shift) & MASK` with the arithmetic shift of the unbounded `Int` and the 64-bit `&`,
for `0 ≤ shift ≤ 56`; a negative count panics on both sides -/
theorem digitI (w : UInt64) (shift : Int) (hs : shift ≤ 56) :
    digitAt w shift = (Go.shrInt (toI w) shift).map (fun t => Go.andInt t 255) := by
  unfold digitAt Go.shrInt
  by_cases h0 : 0 ≤ shift
  · have h1 : ¬ shift < 0 := by omega
    have h2 : shift < 64 := by omega
    obtain ⟨s, rfl⟩ : ∃ s : Nat, shift = (s : Int) := ⟨shift.toNat, by omega⟩
    have hs' : s ≤ 56 := by omega
    simp only [h0, h2, and_self, if_true, h1, if_false, Outcome.map_ok, Outcome.ok.injEq, Int.toNat_natCast]
    rw [toI_eq, ← BitVec.toInt_sshiftRight, Go.andInt, BitVec.ofInt_toInt]
    have e255 : BitVec.ofInt 64 255 = 255#64 := by decide
    rw [e255, sshift_and255 _ _ hs', and255_toInt]
    congr 1
    rw [← UInt64.toNat_toBitVec, UInt64.toBitVec_and, UInt64.toBitVec_shiftRight]
    have hb : (s.toUInt64.toBitVec % 64) = BitVec.ofNat 64 s := by
      apply BitVec.eq_of_toNat_eq
      simp [Nat.toUInt64, UInt64.ofNat]
      omega
    rw [hb]
    congr 2
    · simp [BitVec.ushiftRight_eq', Nat.mod_eq_of_lt (show s < 2 ^ 64 by omega)]
  · have h1 : shift < 0 := by omega
    simp [h0, h1]

/-! ## radixsort.go: insertion -/
section insertionSize
variable {α : Type} [Inhabited α]

theorem rInsInner_size (lt : α → α → Bool) (lo : Int) : ∀ (f : Nat) (j : Int) (a a' : Array α),
    rInsInner lt lo f j a = .ok a' → a'.size = a.size := by
  intro f
  induction f with
  | zero => intro j a a' h; cases h
  | succ f ih =>
    intro j a a' h
    simp only [rInsInner] at h
    split at h
    · obtain ⟨x, -, h⟩ := bind_eq_ok'.1 h
      obtain ⟨y, -, h⟩ := bind_eq_ok'.1 h
      split at h
      · obtain ⟨a1, h1, h2⟩ := bind_eq_ok'.1 h
        rw [ih _ _ _ h2, swap_size h1]
      · cases h; rfl
    · cases h; rfl

theorem rInsLoop_size (lt : α → α → Bool) (lo hi : Int) : ∀ (f : Nat) (i : Int) (a a' : Array α),
    rInsLoop lt lo hi f i a = .ok a' → a'.size = a.size := by
  intro f
  induction f with
  | zero => intro i a a' h; cases h
  | succ f ih =>
    intro i a a' h
    simp only [rInsLoop] at h
    split at h
    · obtain ⟨a1, h1, h2⟩ := bind_eq_ok'.1 h
      rw [ih _ _ _ h2, rInsInner_size lt lo _ _ _ _ h1]
    · cases h; rfl

theorem rInsertion_size (lt : α → α → Bool) {a a' : Array α} {lo hi : Int} (h : rInsertion lt a lo hi = .ok a') :
    a'.size = a.size := rInsLoop_size lt lo hi _ _ _ _ h

end insertionSize

section insertion
variable {α : Type} [Inhabited α] [Go.Ordered α]

/-- `for j := i; j > lo && a[j] < a[j-1]; j-- { swap }` -/
theorem insertion_loop2 (lo : Int) (F : Nat) : ∀ (f d : Nat) (j : Int) (a : Array α),
    rInsInner Go.Ordered.lt lo f j a ≼ insertion.loop2 F lo (f + d) j a := by
  intro f
  induction f with
  | zero => intro d j a; simp [rInsInner]
  | succ f ih =>
    intro d j a
    rw [show f + 1 + d = (f + d) + 1 by omega]
    simp only [rInsInner, insertion.loop2, get_eq, swap_eq]
    outcome_auto

/-- `for i := lo; i <= hi; i++ { … }` (counted) -/
theorem insertion_loop1 (lo hi : Int) (F : Nat) : ∀ (f : Nat) (i : Int) (a : Array α), a.size + 1 ≤ F →
    rInsLoop Go.Ordered.lt lo hi f i a ≼ insertion.loop1 F lo (hi + 1 - i).toNat i a := by
  intro f
  induction f with
  | zero => intro i a _; simp [rInsLoop]
  | succ f ih =>
    intro i a hF
    simp only [rInsLoop]
    split
    · rw [show (hi + 1 - i).toNat = (hi + 1 - (i + 1)).toNat + 1 by omega]
      simp only [insertion.loop1, Outcome.bind_assoc, Outcome.pure_eq, Outcome.ok_bind]
      obtain ⟨e, rfl⟩ : ∃ e, F = a.size + 1 + e := ⟨F - (a.size + 1), by omega⟩
      refine bind_le' (insertion_loop2 lo _ (a.size + 1) e i a) fun a1 h1 => ?_
      exact ih (i + 1) a1 (by rw [rInsInner_size _ lo _ _ _ _ h1]; omega)
    · rw [show (hi + 1 - i).toNat = 0 by omega]
      simp [insertion.loop1]

/-- `insertion` with any fuel `≥ len(a) + 1` -/
theorem insertion_le (a : Array α) (lo hi : Int) (F : Nat) (hF : a.size + 1 ≤ F) :
    rInsertion Go.Ordered.lt a lo hi ≼ Radix.insertion F a lo hi := by
  have := insertion_loop1 lo hi F (a.size + 1) lo a hF
  simp only [rInsertion, Radix.insertion, Outcome.bind_assoc, Outcome.pure_eq]
  revert this
  cases insertion.loop1 F lo (hi + 1 - lo).toNat lo a <;> simp
end insertion

theorem lt_str : (Go.Ordered.lt : Go.Str → Go.Str → Bool) = bytesLt := by
  funext a b; exact strLt_eq a b
theorem lt_u64 : (Go.Ordered.lt : UInt64 → UInt64 → Bool) = uLt := by
  funext a b; simp [Go.Ordered.lt, uLt]

/-! ## lsd.go: LSDString -/

theorem make_lit {α : Type} (zero : α) (n : Nat) (k : Int) (h : k = (n : Int)) :
    Go.make zero k = .ok (Array.replicate n zero) := by subst h; exact Go.make_nat zero n

theorem LSDString_loop2 (a : Array Go.Str) (d : Int) : ∀ (f : Nat) (i : Int) (count : Array Int),
    freqLoop (byteAt d) a ((a.size : Int) - 1) f i count ≼ LSDString.loop2 a d ((a.size : Int) - i).toNat i count := by
  intro f
  induction f with
  | zero => intro i count; simp [freqLoop]
  | succ f ih =>
    intro i count
    simp only [freqLoop]
    split
    · rw [show ((a.size : Int) - i).toNat = ((a.size : Int) - (i + 1)).toNat + 1 by omega]
      simp only [LSDString.loop2, get_eq, set_eq, byteAt_eq, bind_map_left]
      outcome_auto
    · rw [show ((a.size : Int) - i).toNat = 0 by omega]
      simp [LSDString.loop2]

theorem LSDString_loop3 (R : Int) : ∀ (f : Nat) (r : Int) (count : Array Int),
    cumLoop R f r count ≼ LSDString.loop3 (R - r).toNat r count := by
  intro f
  induction f with
  | zero => intro r count; simp [cumLoop]
  | succ f ih =>
    intro r count
    simp only [cumLoop]
    split
    · rw [show (R - r).toNat = (R - (r + 1)).toNat + 1 by omega]
      simp only [LSDString.loop3, get_eq, set_eq]
      outcome_auto
    · rw [show (R - r).toNat = 0 by omega]
      simp [LSDString.loop3]

theorem LSDString_loop4 (a : Array Go.Str) (d : Int) : ∀ (f : Nat) (i : Int) (count : Array Int) (aux : Array Go.Str),
    distLoop (byteAt d) a ((a.size : Int) - 1) f i count aux ≼
      (LSDString.loop4 a d ((a.size : Int) - i).toNat i aux count).map (fun r => (r.2, r.1)) := by
  intro f
  induction f with
  | zero => intro i count aux; simp [distLoop]
  | succ f ih =>
    intro i count aux
    simp only [distLoop]
    split
    · rw [show ((a.size : Int) - i).toNat = ((a.size : Int) - (i + 1)).toNat + 1 by omega]
      simp only [LSDString.loop4, get_eq, set_eq, byteAt_eq, bind_map_left]
      outcome_auto
    · rw [show ((a.size : Int) - i).toNat = 0 by omega]
      simp [LSDString.loop4]

theorem LSDString_loop5 (aux : Array Go.Str) (n : Int) : ∀ (f : Nat) (i : Int) (a : Array Go.Str),
    copyBack aux 0 (n - 1) f i a ≼ LSDString.loop5 aux (n - i).toNat i a := by
  intro f
  induction f with
  | zero => intro i a; simp [copyBack]
  | succ f ih =>
    intro i a
    simp only [copyBack]
    split
    · rw [show (n - i).toNat = (n - (i + 1)).toNat + 1 by omega]
      simp only [LSDString.loop5, get_eq, set_eq, Int.sub_zero]
      outcome_auto
    · rw [show (n - i).toNat = 0 by omega]
      simp [LSDString.loop5]

/-! length preservation of the counting pass (hand Model) -/

theorem copyBack_size {α : Type} (aux : Array α) (lo hi : Int) : ∀ (f : Nat) (i : Int) (a a' : Array α),
    copyBack aux lo hi f i a = .ok a' → a'.size = a.size := by
  intro f
  induction f with
  | zero => intro i a a' h; cases h
  | succ f ih =>
    intro i a a' h
    simp only [copyBack] at h
    split at h
    · obtain ⟨x, -, h⟩ := bind_eq_ok'.1 h
      obtain ⟨a1, h1, h2⟩ := bind_eq_ok'.1 h
      rw [ih _ _ _ h2]
      unfold C07.set at h1
      split at h1
      · cases h1; simp
      · cases h1
    · cases h; rfl

theorem distLoop_size {α : Type} (key : α → Outcome Int) (a : Array α) (hi : Int) :
    ∀ (f : Nat) (i : Int) (count : Array Int) (aux : Array α) (count' : Array Int) (aux' : Array α),
    distLoop key a hi f i count aux = .ok (count', aux') → aux'.size = aux.size := by
  intro f
  induction f with
  | zero => intro i count aux count' aux' h; cases h
  | succ f ih =>
    intro i count aux count' aux' h
    simp only [distLoop] at h
    split at h
    · obtain ⟨x, -, h⟩ := bind_eq_ok'.1 h
      obtain ⟨c, -, h⟩ := bind_eq_ok'.1 h
      obtain ⟨p, -, h⟩ := bind_eq_ok'.1 h
      obtain ⟨aux1, h1, h⟩ := bind_eq_ok'.1 h
      obtain ⟨count1, -, h2⟩ := bind_eq_ok'.1 h
      rw [ih _ _ _ _ _ h2]
      unfold C07.set at h1
      split at h1
      · cases h1; simp
      · cases h1
    · cases h; rfl

theorem countingPass_size {α : Type} (key : α → Outcome Int) (R : Int) (rot : Option Bool) {a aux a' aux' : Array α}
    {lo hi : Int} {count : Array Int} (h : countingPass key R rot a aux lo hi = .ok (a', aux', count)) :
    a'.size = a.size ∧ aux'.size = aux.size := by
  simp only [countingPass] at h
  obtain ⟨c1, -, h⟩ := bind_eq_ok'.1 h
  obtain ⟨c2, -, h⟩ := bind_eq_ok'.1 h
  obtain ⟨c3, -, h⟩ := bind_eq_ok'.1 h
  obtain ⟨⟨c4, aux1⟩, h4, h⟩ := bind_eq_ok'.1 h
  obtain ⟨a1, h5, h⟩ := bind_eq_ok'.1 h
  cases h
  exact ⟨copyBack_size _ _ _ _ _ _ _ h5, distLoop_size _ _ _ _ _ _ _ _ _ h4⟩

/-- `for d := w - 1; d >= 0; d-- { … }` (counted: no fuel on the generated side) -/
theorem LSDString_loop1 (n : Int) : ∀ (f : Nat) (d : Int) (a aux : Array Go.Str), (a.size : Int) = n →
    lsdStringLoop f d a aux ≼ (LSDString.loop1 n (d + 1).toNat d a aux).map Prod.fst := by
  intro f
  induction f with
  | zero => intro d a aux _; simp [lsdStringLoop]
  | succ f ih =>
    intro d a aux hn
    simp only [lsdStringLoop]
    split
    · rw [show (d + 1).toNat = (d - 1 + 1).toNat + 1 by omega]
      have hm : Go.make (0 : Int) (256 + 1) = .ok (Array.replicate 257 0) := make_lit 0 257 _ rfl
      have hR : radixsort_LSDString_R = 256 := rfl
      simp only [LSDString.loop1, countingPass, hm, hR, Outcome.bind_assoc, Outcome.pure_eq, Outcome.ok_bind,
        Outcome.map_bind, show (256 : Int).toNat + 1 = 257 from rfl]
      have h2 := LSDString_loop2 a d (a.size + 1) 0 (Array.replicate 257 0)
      simp only [Int.sub_zero, Int.toNat_natCast] at h2
      refine bind_le' h2 fun c1 _ => ?_
      have h3 := LSDString_loop3 256 257 0 c1
      refine bind_le' h3 fun c2 _ => ?_
      have h4 := LSDString_loop4 a d (a.size + 1) 0 c2 aux
      simp only [Int.sub_zero, Int.toNat_natCast] at h4
      refine le_bind_of_map h4 fun r hd _ => ?_
      have h5 := LSDString_loop5 r.1 n (a.size + 1) 0 a
      rw [hn]
      refine bind_le' h5 fun a1 hc => ?_
      have hs : a1.size = a.size := copyBack_size _ _ _ _ _ _ _ hc
      exact ih (d - 1) a1 r.1 (by rw [hs]; exact hn)
    · rw [show (d + 1).toNat = 0 by omega]
      simp [LSDString.loop1]

/-- `LSDString` (no fuel on the generated side) -/
theorem LSDString_le (a : Array Go.Str) (w : Int) : lsdString a w ≼ Radix.LSDString a w := by
  have := LSDString_loop1 (a.size : Int) (w.toNat + 1) (w - 1) a (Array.replicate a.size []) rfl
  simp only [lsdString, Radix.LSDString, Go.make_nat, Outcome.bind_assoc, Outcome.pure_eq, Outcome.ok_bind]
  rw [show (w - 1 + 1 - 0).toNat = (w - 1 + 1).toNat by omega]
  exact le_map_of_bind this


/-! ## combinators for results that are related up to a map -/

theorem idx_map {α β : Type} (a : Array α) (f : α → β) (i : Int) : Go.idx (a.map f) i = (Go.idx a i).map f := by
  unfold Go.idx
  by_cases h : 0 ≤ i ∧ i < a.size
  · have h' : 0 ≤ i ∧ i < (a.map f).size := by simpa using h
    simp [h, h']
  · have h' : ¬ (0 ≤ i ∧ i < (a.map f).size) := by simpa using h
    simp [h, h']

theorem setIdx_map {α β : Type} (a : Array α) (f : α → β) (i : Int) (v : α) :
    Go.setIdx (a.map f) i (f v) = (Go.setIdx a i v).map (fun b => b.map f) := by
  unfold Go.setIdx
  by_cases h : 0 ≤ i ∧ i < a.size
  · have h' : 0 ≤ i ∧ i < (a.map f).size := by simpa using h
    simp [h, h']
  · have h' : ¬ (0 ≤ i ∧ i < (a.map f).size) := by simpa using h
    simp [h, h']

theorem bind_le_map2 {α β γ γ' δ : Type} {x : Outcome α} {y : Outcome β} {m : α → δ} {p : β → δ} {g : α → Outcome γ}
    {g' : β → Outcome γ'} {M : γ → γ'} (h : x.map m ≼ y.map p)
    (hg : ∀ a c, x = .ok a → y = .ok c → m a = p c → (g a).map M ≼ g' c) : (x >>= g).map M ≼ (y >>= g') := by
  cases x with
  | ok a =>
    cases y with
    | ok c => simp at h; simpa using hg a c rfl rfl h.symm
    | panic => simp at h
    | diverge => simp at h
  | panic => cases y <;> simp at h ⊢
  | diverge => simp

theorem bind_le_map1 {α β γ γ' : Type} {x : Outcome α} {y : Outcome β} {m : α → β} {g : α → Outcome γ}
    {g' : β → Outcome γ'} {M : γ → γ'} (h : x.map m ≼ y)
    (hg : ∀ a, x = .ok a → (g a).map M ≼ g' (m a)) : (x >>= g).map M ≼ (y >>= g') := by
  cases x with
  | ok a =>
    have : y = .ok (m a) := by simpa using h
    subst this
    simpa using hg a rfl
  | panic =>
    have : y = .panic := by simpa using h
    subst this; simp
  | diverge => simp

/-- an unmapped step followed by mapped continuations -/
theorem bind_le_mapK {α γ γ' : Type} {x y : Outcome α} {g : α → Outcome γ} {g' : α → Outcome γ'} {M : γ → γ'}
    (h : x ≼ y) (hg : ∀ a, x = .ok a → (g a).map M ≼ g' a) : (x >>= g).map M ≼ (y >>= g') := by
  rcases h with rfl | rfl
  · simp
  · cases x <;> simp_all
/-! ## lsd.go: LSDUint -/

theorem LSDUint_loop2 (a : Array UInt64) (shift : Int) (key : UInt64 → Outcome Int) (hkey : ∀ v, key v = (Go.shrU64 v shift).map (fun t => ((t &&& 255).toNat : Int))) : ∀ (f : Nat) (i : Int) (count : Array Int),
    (freqLoop key a ((a.size : Int) - 1) f i count) ≼
      LSDUint.loop2 a shift ((a.size : Int) - i).toNat i count := by
  intro f
  induction f with
  | zero => intro i count; simp [freqLoop]
  | succ f ih =>
    intro i count
    simp only [freqLoop]
    split
    · rw [show ((a.size : Int) - i).toNat = ((a.size : Int) - (i + 1)).toNat + 1 by omega]
      simp only [LSDUint.loop2, get_eq, set_eq, bind_map_left, Outcome.map_bind, Outcome.map_ok, hkey, succ_and255]
      outcome_auto
    · rw [show ((a.size : Int) - i).toNat = 0 by omega]
      simp [LSDUint.loop2]

theorem LSDUint_loop3 (R : Int) : ∀ (f : Nat) (r : Int) (count : Array Int),
    (cumLoop R f r count) ≼
      LSDUint.loop3 (R - r).toNat r count := by
  intro f
  induction f with
  | zero => intro r count; simp [cumLoop]
  | succ f ih =>
    intro r count
    simp only [cumLoop]
    split
    · rw [show (R - r).toNat = (R - (r + 1)).toNat + 1 by omega]
      simp only [LSDUint.loop3, get_eq, set_eq, bind_map_left, Outcome.map_bind, Outcome.map_ok]
      outcome_auto
    · rw [show (R - r).toNat = 0 by omega]
      simp [LSDUint.loop3]

theorem LSDUint_loop4 (a : Array UInt64) (shift : Int) (key : UInt64 → Outcome Int) (hkey : ∀ v, key v = (Go.shrU64 v shift).map (fun t => ((t &&& 255).toNat : Int))) : ∀ (f : Nat) (i : Int) (count : Array Int) (aux : Array UInt64),
    (distLoop key a ((a.size : Int) - 1) f i count aux) ≼
      (LSDUint.loop4 a shift ((a.size : Int) - i).toNat i aux count).map (fun r => (r.2, r.1)) := by
  intro f
  induction f with
  | zero => intro i count aux; simp [distLoop]
  | succ f ih =>
    intro i count aux
    simp only [distLoop]
    split
    · rw [show ((a.size : Int) - i).toNat = ((a.size : Int) - (i + 1)).toNat + 1 by omega]
      simp only [LSDUint.loop4, get_eq, set_eq, bind_map_left, Outcome.map_bind, Outcome.map_ok, hkey]
      outcome_auto
    · rw [show ((a.size : Int) - i).toNat = 0 by omega]
      simp [LSDUint.loop4]

theorem LSDUint_loop5 (aux : Array UInt64) (n : Int) : ∀ (f : Nat) (i : Int) (a : Array UInt64),
    (copyBack aux 0 (n - 1) f i a) ≼
      LSDUint.loop5 aux (n - i).toNat i a := by
  intro f
  induction f with
  | zero => intro i a; simp [copyBack]
  | succ f ih =>
    intro i a
    simp only [copyBack]
    split
    · rw [show (n - i).toNat = (n - (i + 1)).toNat + 1 by omega]
      simp only [LSDUint.loop5, get_eq, set_eq, bind_map_left, Outcome.map_bind, Outcome.map_ok, Int.sub_zero]
      outcome_auto
    · rw [show (n - i).toNat = 0 by omega]
      simp [LSDUint.loop5]

theorem LSDUint_loop1 (n : Int) : ∀ (f : Nat) (d : Int) (a aux : Array UInt64), (a.size : Int) = n → 0 ≤ d →
    lsdWordLoop false 8 256 8 f d a aux ≼ (LSDUint.loop1 n (8 - d).toNat d a aux).map Prod.fst := by
  intro f
  induction f with
  | zero => intro d a aux _ _; simp [lsdWordLoop]
  | succ f ih =>
    intro d a aux hn hd
    simp only [lsdWordLoop]
    split
    · rename_i hlt
      rw [show (8 - d).toNat = (8 - (d + 1)).toNat + 1 by omega]
      have hm : Go.make (0 : Int) (256 + 1) = .ok (Array.replicate 257 0) := make_lit 0 257 _ rfl
      have hs : 8 * d < 64 := by omega
      simp only [LSDUint.loop1, countingPass, hm, Outcome.bind_assoc, Outcome.pure_eq, Outcome.ok_bind,
        Outcome.map_bind, show (256 : Int).toNat + 1 = 257 from rfl, Bool.false_and, Bool.false_eq_true, if_false]
      have h2 := LSDUint_loop2 a (8 * d) _ (fun v => digitU v (8 * d) hs) (a.size + 1) 0 (Array.replicate 257 0)
      simp only [Int.sub_zero, Int.toNat_natCast] at h2
      refine bind_le' h2 fun c1 _ => ?_
      refine bind_le' (LSDUint_loop3 256 257 0 c1) fun c2 _ => ?_
      have h4 := LSDUint_loop4 a (8 * d) _ (fun v => digitU v (8 * d) hs) (a.size + 1) 0 c2 aux
      simp only [Int.sub_zero, Int.toNat_natCast] at h4
      refine le_bind_of_map h4 fun r _ _ => ?_
      have h5 := LSDUint_loop5 r.1 n (a.size + 1) 0 a
      rw [hn]
      refine bind_le' h5 fun a1 hc => ?_
      have hsz : a1.size = a.size := copyBack_size _ _ _ _ _ _ _ hc
      exact ih (d + 1) a1 r.1 (by rw [hsz]; exact hn) (by omega)
    · rw [show (8 - d).toNat = 0 by omega]
      simp [LSDUint.loop1]

/-- `LSDUint` (no fuel on the generated side) -/
theorem LSDUint_le (a : Array UInt64) : lsdUint a ≼ Radix.LSDUint a := by
  have := LSDUint_loop1 (a.size : Int) (8 + 1) 0 a (Array.replicate a.size 0) rfl (Int.le_refl 0)
  have e1 : radixsort_LSDUint_W = 8 := rfl
  have e2 : radixsort_LSDUint_R = 256 := rfl
  have e3 : radixsort_LSDUint_BYTE_SIZE = 8 := rfl
  simp only [lsdUint, Radix.LSDUint, Go.make_nat, Outcome.bind_assoc, Outcome.pure_eq, Outcome.ok_bind, e1, e2, e3]
  exact le_map_of_bind this


/-! ## lsd.go: LSDInt (the `[]int` of the generated code is the image under `toI` of the hand Model's words) -/

theorem LSDInt_loop2 (a : Array UInt64) (shift : Int) (key : UInt64 → Outcome Int) (hkey : ∀ v, key v = (Go.shrInt (toI v) shift).map (fun t => Go.andInt t 255)) : ∀ (f : Nat) (i : Int) (count : Array Int),
    (freqLoop key a ((a.size : Int) - 1) f i count) ≼
      LSDInt.loop2 (a.map toI) shift ((a.size : Int) - i).toNat i count := by
  intro f
  induction f with
  | zero => intro i count; simp [freqLoop]
  | succ f ih =>
    intro i count
    simp only [freqLoop]
    split
    · rw [show ((a.size : Int) - i).toNat = ((a.size : Int) - (i + 1)).toNat + 1 by omega]
      simp only [LSDInt.loop2, get_eq, set_eq, bind_map_left, Outcome.map_bind, Outcome.map_ok, idx_map, hkey]
      outcome_auto
    · rw [show ((a.size : Int) - i).toNat = 0 by omega]
      simp [LSDInt.loop2]

theorem LSDInt_loop3 (R : Int) : ∀ (f : Nat) (r : Int) (count : Array Int),
    (cumLoop R f r count) ≼
      LSDInt.loop3 (R - r).toNat r count := by
  intro f
  induction f with
  | zero => intro r count; simp [cumLoop]
  | succ f ih =>
    intro r count
    simp only [cumLoop]
    split
    · rw [show (R - r).toNat = (R - (r + 1)).toNat + 1 by omega]
      simp only [LSDInt.loop3, get_eq, set_eq, bind_map_left, Outcome.map_bind, Outcome.map_ok]
      outcome_auto
    · rw [show (R - r).toNat = 0 by omega]
      simp [LSDInt.loop3]

theorem LSDInt_loop4 (to delta : Int) : ∀ (f : Nat) (r : Int) (count : Array Int),
    (addLoop to delta f r count) ≼
      LSDInt.loop4 delta (to - r).toNat r count := by
  intro f
  induction f with
  | zero => intro r count; simp [addLoop]
  | succ f ih =>
    intro r count
    simp only [addLoop]
    split
    · rw [show (to - r).toNat = (to - (r + 1)).toNat + 1 by omega]
      simp only [LSDInt.loop4, get_eq, set_eq, bind_map_left, Outcome.map_bind, Outcome.map_ok]
      outcome_auto
    · rw [show (to - r).toNat = 0 by omega]
      simp [LSDInt.loop4]

theorem LSDInt_loop5 (to s2 : Int) : ∀ (f : Nat) (r : Int) (count : Array Int),
    (addLoop to (-s2) f r count) ≼
      LSDInt.loop5 s2 (to - r).toNat r count := by
  intro f
  induction f with
  | zero => intro r count; simp [addLoop]
  | succ f ih =>
    intro r count
    simp only [addLoop]
    split
    · rw [show (to - r).toNat = (to - (r + 1)).toNat + 1 by omega]
      simp only [LSDInt.loop5, get_eq, set_eq, bind_map_left, Outcome.map_bind, Outcome.map_ok, ← Int.sub_eq_add_neg]
      outcome_auto
    · rw [show (to - r).toNat = 0 by omega]
      simp [LSDInt.loop5]

theorem LSDInt_loop6 (a : Array UInt64) (shift : Int) (key : UInt64 → Outcome Int) (hkey : ∀ v, key v = (Go.shrInt (toI v) shift).map (fun t => Go.andInt t 255)) : ∀ (f : Nat) (i : Int) (count : Array Int) (aux : Array UInt64),
    ((distLoop key a ((a.size : Int) - 1) f i count aux)).map (fun r => (r.1, r.2.map toI)) ≼
      (LSDInt.loop6 (a.map toI) shift ((a.size : Int) - i).toNat i (aux.map toI) count).map (fun r => (r.2, r.1)) := by
  intro f
  induction f with
  | zero => intro i count aux; simp [distLoop]
  | succ f ih =>
    intro i count aux
    simp only [distLoop]
    split
    · rw [show ((a.size : Int) - i).toNat = ((a.size : Int) - (i + 1)).toNat + 1 by omega]
      simp only [LSDInt.loop6, get_eq, set_eq, bind_map_left, Outcome.map_bind, Outcome.map_ok, idx_map, setIdx_map, hkey]
      outcome_auto
    · rw [show ((a.size : Int) - i).toNat = 0 by omega]
      simp [LSDInt.loop6]

theorem LSDInt_loop7 (aux : Array UInt64) (n : Int) : ∀ (f : Nat) (i : Int) (a : Array UInt64),
    ((copyBack aux 0 (n - 1) f i a)).map (fun b => b.map toI) ≼
      LSDInt.loop7 (aux.map toI) (n - i).toNat i (a.map toI) := by
  intro f
  induction f with
  | zero => intro i a; simp [copyBack]
  | succ f ih =>
    intro i a
    simp only [copyBack]
    split
    · rw [show (n - i).toNat = (n - (i + 1)).toNat + 1 by omega]
      simp only [LSDInt.loop7, get_eq, set_eq, bind_map_left, Outcome.map_bind, Outcome.map_ok, idx_map, setIdx_map, Int.sub_zero]
      outcome_auto
    · rw [show (n - i).toNat = 0 by omega]
      simp [LSDInt.loop7]


theorem bind_le_map2' {α β γ δ : Type} {x : Outcome α} {y : Outcome β} {m : α → δ} {p : β → δ} {g : α → Outcome γ}
    {g' : β → Outcome γ} (h : x.map m ≼ y.map p)
    (hg : ∀ a c, x = .ok a → y = .ok c → m a = p c → g a ≼ g' c) : (x >>= g) ≼ (y >>= g') := by
  cases x with
  | ok a =>
    cases y with
    | ok c => simp at h; simpa using hg a c rfl rfl h.symm
    | panic => simp at h
    | diverge => simp at h
  | panic => cases y <;> simp at h ⊢
  | diverge => simp

theorem bind_le_map1' {α β γ : Type} {x : Outcome α} {y : Outcome β} {m : α → β} {g : α → Outcome γ}
    {g' : β → Outcome γ} (h : x.map m ≼ y) (hg : ∀ a, x = .ok a → g a ≼ g' (m a)) : (x >>= g) ≼ (y >>= g') := by
  cases x with
  | ok a =>
    have : y = .ok (m a) := by simpa using h
    subst this
    simpa using hg a rfl
  | panic =>
    have : y = .panic := by simpa using h
    subst this; simp
  | diverge => simp

/-- the sign-byte rotation of `LSDInt` (`d == W-1`), followed by related continuations -/
theorem LSDInt_rot {γ : Type} (count : Array Int) (K K' : Array Int → Outcome γ)
    (hK : ∀ c, signRotate 256 false count = .ok c → K c ≼ K' c) :
    (signRotate 256 false count >>= K) ≼ (do
      let t9_ ← Go.idx count 256
      let t10_ ← Go.idx count (Int.tdiv 256 2)
      let t11_ ← Go.idx count (Int.tdiv 256 2)
      let c ← LSDInt.loop4 (t9_ - t10_) ((Int.tdiv 256 2) - 0).toNat 0 count
      let c ← LSDInt.loop5 t11_ (256 - (Int.tdiv 256 2)).toNat (Int.tdiv 256 2) c
      K' c) := by
  have h128 : Int.tdiv 256 2 = 128 := rfl
  have h128' : (256 : Int) / 2 = 128 := rfl
  have hx : signRotate 256 false count ≼ (do
      let t9_ ← Go.idx count 256
      let t10_ ← Go.idx count (Int.tdiv 256 2)
      let t11_ ← Go.idx count (Int.tdiv 256 2)
      let c ← LSDInt.loop4 (t9_ - t10_) ((Int.tdiv 256 2) - 0).toNat 0 count
      LSDInt.loop5 t11_ (256 - (Int.tdiv 256 2)).toNat (Int.tdiv 256 2) c) := by
    simp only [signRotate, h128, h128', get_eq, Bool.false_eq_true, if_false, Outcome.bind_assoc, Outcome.ok_bind,
      show (256 : Int).toNat + 1 = 257 from rfl]
    refine bind_le' (le_refl _) fun cR _ => bind_le' (le_refl _) fun cH h1 => ?_
    simp only [h1, Outcome.ok_bind]
    refine bind_le' (LSDInt_loop4 128 (cR - cH) 257 0 count) fun c1 _ => ?_
    exact LSDInt_loop5 256 cH 257 128 c1
  have := bind_le' hx hK
  simpa only [Outcome.bind_assoc] using this

theorem LSDInt_loop1 (n : Int) : ∀ (f : Nat) (d : Int) (a aux : Array UInt64), (a.size : Int) = n → 0 ≤ d →
    (lsdWordLoop true 8 256 8 f d a aux).map (fun b => b.map toI) ≼
      (LSDInt.loop1 n (8 - d).toNat d (a.map toI) (aux.map toI)).map Prod.fst := by
  intro f
  induction f with
  | zero => intro d a aux _ _; simp [lsdWordLoop]
  | succ f ih =>
    intro d a aux hn hd
    simp only [lsdWordLoop]
    split
    · rename_i hlt
      rw [show (8 - d).toNat = (8 - (d + 1)).toNat + 1 by omega]
      have hm : Go.make (0 : Int) (256 + 1) = .ok (Array.replicate 257 0) := make_lit 0 257 _ rfl
      have hs : 8 * d ≤ 56 := by omega
      have h2 := LSDInt_loop2 a (8 * d) _ (fun v => digitI v (8 * d) hs) (a.size + 1) 0 (Array.replicate 257 0)
      simp only [Int.sub_zero, Int.toNat_natCast] at h2
      -- what follows the (optional) rotation
      have tail : ∀ c3 : Array Int,
          (distLoop (fun v => digitAt v (8 * d)) a ((a.size : Int) - 1) (a.size + 1) 0 c3 aux >>= fun r =>
            copyBack r.2 0 ((a.size : Int) - 1) (a.size + 1) 0 a >>= fun a1 =>
              (lsdWordLoop true 8 256 8 f (d + 1) a1 r.2).map (fun b => b.map toI)) ≼
          (LSDInt.loop6 (a.map toI) (8 * d) a.size 0 (aux.map toI) c3 >>= fun x =>
            LSDInt.loop7 x.1 (n - 0).toNat 0 (a.map toI) >>= fun a1 =>
              (LSDInt.loop1 n (8 - (d + 1)).toNat (d + 1) a1 x.1).map Prod.fst) := by
        intro c3
        have h6 := LSDInt_loop6 a (8 * d) _ (fun v => digitI v (8 * d) hs) (a.size + 1) 0 c3 aux
        simp only [Int.sub_zero, Int.toNat_natCast] at h6
        refine bind_le_map2' h6 fun r x _ _ hrx => ?_
        obtain ⟨e1, e2⟩ := Prod.mk.inj hrx
        rw [← e2]
        have h7 := LSDInt_loop7 r.2 n (a.size + 1) 0 a
        rw [hn]
        simp only [Int.sub_zero] at h7 ⊢
        refine bind_le_map1' h7 fun a1 hc => ?_
        have hsz : a1.size = a.size := copyBack_size _ _ _ _ _ _ _ hc
        exact ih (d + 1) a1 r.2 (by rw [hsz]; exact hn) (by omega)
      by_cases h7 : d = 7
      · subst h7
        simp only [LSDInt.loop1, countingPass, hm, Outcome.bind_assoc, Outcome.pure_eq, Outcome.ok_bind,
          Outcome.map_bind, show (256 : Int).toNat + 1 = 257 from rfl, Bool.true_and, Array.size_map,
          show ((7 : Int) == 8 - 1) = true from rfl, if_true]
        refine bind_le' h2 fun c1 _ => ?_
        refine bind_le' (LSDInt_loop3 256 257 0 c1) fun c2 _ => ?_
        exact LSDInt_rot c2 _ _ fun c3 _ => tail c3
      · have hne : (d == 8 - 1) = false := by
          rw [beq_eq_false_iff_ne]; omega
        simp only [LSDInt.loop1, countingPass, hm, Outcome.bind_assoc, Outcome.pure_eq, Outcome.ok_bind,
          Outcome.map_bind, show (256 : Int).toNat + 1 = 257 from rfl, Bool.true_and, Array.size_map, hne,
          Bool.false_eq_true, if_false]
        refine bind_le' h2 fun c1 _ => ?_
        refine bind_le' (LSDInt_loop3 256 257 0 c1) fun c2 _ => ?_
        exact tail c2
    · rw [show (8 - d).toNat = 0 by omega]
      simp [LSDInt.loop1]

/-- `LSDInt` (no fuel on the generated side) -/
theorem LSDInt_le (a : Array UInt64) : (lsdInt a).map (fun b => b.map toI) ≼ Radix.LSDInt (a.map toI) := by
  have := LSDInt_loop1 (a.size : Int) (8 + 1) 0 a (Array.replicate a.size 0) rfl (Int.le_refl 0)
  have e1 : radixsort_LSDInt_W = 8 := rfl
  have e2 : radixsort_LSDInt_R = 256 := rfl
  have e3 : radixsort_LSDInt_BYTE_SIZE = 8 := rfl
  have ez : (Array.replicate a.size (0 : UInt64)).map toI = Array.replicate a.size (0 : Int) := by
    simp [toI]
  rw [ez] at this
  simp only [lsdInt, Radix.LSDInt, Go.make_nat, Outcome.bind_assoc, Outcome.pure_eq, Outcome.ok_bind, e1, e2, e3,
    Array.size_map]
  exact le_map_of_bind this


/-! ## msd.go -/

theorem add_one_one (a : Int) : a + 1 + 1 = a + 2 := by omega

theorem bucketLoop_size {α : Type} (guard : Bool) (rec : Array α → Array α → Int → Int → Outcome (Array α × Array α))
    (hrec : ∀ a aux l h a' aux', rec a aux l h = .ok (a', aux') → a'.size = a.size) (count : Array Int) (lo R : Int) :
    ∀ (f : Nat) (r : Int) (a aux a' aux' : Array α),
      bucketLoop guard rec count lo R f r a aux = .ok (a', aux') → a'.size = a.size := by
  intro f
  induction f with
  | zero => intro r a aux a' aux' h; cases h
  | succ f ih =>
    intro r a aux a' aux' h
    simp only [bucketLoop] at h
    split at h
    · obtain ⟨c1, -, h⟩ := bind_eq_ok'.1 h
      obtain ⟨c0, -, h⟩ := bind_eq_ok'.1 h
      split at h
      · exact ih _ _ _ _ _ h
      · obtain ⟨⟨a1, aux1⟩, h1, h2⟩ := bind_eq_ok'.1 h
        rw [ih _ _ _ _ _ h2, hrec _ _ _ _ _ _ h1]
    · cases h; rfl

theorem msdStringAux_size : ∀ (f : Nat) (a aux : Array (List UInt8)) (lo hi d : Int) (a' aux' : Array (List UInt8)),
    msdStringAux f a aux lo hi d = .ok (a', aux') → a'.size = a.size := by
  intro f
  induction f with
  | zero => intro a aux lo hi d a' aux' h; cases h
  | succ f ih =>
    intro a aux lo hi d a' aux' h
    simp only [msdStringAux] at h
    split at h
    · obtain ⟨a1, h1, h⟩ := bind_eq_ok'.1 h
      cases h
      exact rInsertion_size _ h1
    · obtain ⟨⟨a1, aux1, count⟩, h1, h2⟩ := bind_eq_ok'.1 h
      rw [bucketLoop_size false _ (fun a aux l h a' aux' e => ih a aux l h (d + 1) a' aux' e) _ _ _ _ _ _ _ _ _ h2]
      exact (countingPass_size _ _ _ h1).1

theorem msdString_loop1 (F : Nat) (a : Array Go.Str) (d hi : Int) (key : Go.Str → Outcome Int) (hkey : ∀ s, key s = (Radix.charAt s d).map (· + 1)) : ∀ (f : Nat) (i : Int) (count : Array Int),
    (freqLoop key a hi f i count) ≼
      msdString.loop1 F a d (hi + 1 - i).toNat i count := by
  intro f
  induction f with
  | zero => intro i count; simp [freqLoop]
  | succ f ih =>
    intro i count
    simp only [freqLoop]
    split
    · rw [show (hi + 1 - i).toNat = (hi + 1 - (i + 1)).toNat + 1 by omega]
      simp only [msdString.loop1, get_eq, set_eq, bind_map_left, Outcome.map_bind, Outcome.map_ok, hkey, add_one_one]
      outcome_auto
    · rw [show (hi + 1 - i).toNat = 0 by omega]
      simp [msdString.loop1]

theorem msdString_loop2 (F : Nat) (R : Int) : ∀ (f : Nat) (r : Int) (count : Array Int),
    (cumLoop R f r count) ≼
      msdString.loop2 F (R - r).toNat r count := by
  intro f
  induction f with
  | zero => intro r count; simp [cumLoop]
  | succ f ih =>
    intro r count
    simp only [cumLoop]
    split
    · rw [show (R - r).toNat = (R - (r + 1)).toNat + 1 by omega]
      simp only [msdString.loop2, get_eq, set_eq, bind_map_left, Outcome.map_bind, Outcome.map_ok]
      outcome_auto
    · rw [show (R - r).toNat = 0 by omega]
      simp [msdString.loop2]

theorem msdString_loop3 (F : Nat) (a : Array Go.Str) (d hi : Int) (key : Go.Str → Outcome Int) (hkey : ∀ s, key s = (Radix.charAt s d).map (· + 1)) : ∀ (f : Nat) (i : Int) (count : Array Int) (aux : Array Go.Str),
    (distLoop key a hi f i count aux) ≼
      (msdString.loop3 F a d (hi + 1 - i).toNat i aux count).map (fun r => (r.2, r.1)) := by
  intro f
  induction f with
  | zero => intro i count aux; simp [distLoop]
  | succ f ih =>
    intro i count aux
    simp only [distLoop]
    split
    · rw [show (hi + 1 - i).toNat = (hi + 1 - (i + 1)).toNat + 1 by omega]
      simp only [msdString.loop3, get_eq, set_eq, bind_map_left, Outcome.map_bind, Outcome.map_ok, hkey]
      outcome_auto
    · rw [show (hi + 1 - i).toNat = 0 by omega]
      simp [msdString.loop3]

theorem msdString_loop4 (F : Nat) (aux : Array Go.Str) (lo hi : Int) : ∀ (f : Nat) (i : Int) (a : Array Go.Str),
    (copyBack aux lo hi f i a) ≼
      msdString.loop4 F aux lo (hi + 1 - i).toNat i a := by
  intro f
  induction f with
  | zero => intro i a; simp [copyBack]
  | succ f ih =>
    intro i a
    simp only [copyBack]
    split
    · rw [show (hi + 1 - i).toNat = (hi + 1 - (i + 1)).toNat + 1 by omega]
      simp only [msdString.loop4, get_eq, set_eq, bind_map_left, Outcome.map_bind, Outcome.map_ok]
      outcome_auto
    · rw [show (hi + 1 - i).toNat = 0 by omega]
      simp [msdString.loop4]


/-- `for r := 0; r < R; r++ { msdString(a, aux, lo+count[r], lo+count[r+1]-1, d+1) }`: the hand Model's recursion
`recH` against the function `recG` the generated loop receives; `n` is the (preserved) length of `a` -/
theorem msdString_loop5 (F : Nat) (recH : Array Go.Str → Array Go.Str → Int → Int → Outcome (Array Go.Str × Array Go.Str))
    (recG : Array Go.Str → Array Go.Str → Int → Int → Int → Outcome (Array Go.Str × Array Go.Str)) (n : Nat)
    (lo d R : Int) (count : Array Int)
    (hrec : ∀ a aux l h, a.size = n → recH a aux l h ≼ recG a aux l h (d + 1))
    (hsz : ∀ a aux l h a' aux', recH a aux l h = .ok (a', aux') → a'.size = a.size) :
    ∀ (f : Nat) (r : Int) (a aux : Array Go.Str), a.size = n →
      bucketLoop false recH count lo R f r a aux ≼ msdString.loop5 F recG lo d count (R - r).toNat r a aux := by
  intro f
  induction f with
  | zero => intro r a aux _; simp [bucketLoop]
  | succ f ih =>
    intro r a aux ha
    simp only [bucketLoop]
    split
    · rw [show (R - r).toNat = (R - (r + 1)).toNat + 1 by omega]
      simp only [msdString.loop5, get_eq, Bool.false_and, Bool.false_eq_true, if_false, Outcome.bind_assoc,
        Outcome.pure_eq, Outcome.ok_bind]
      cases h1 : Go.idx count (r + 1) with
      | ok c1 =>
        cases h0 : Go.idx count r with
        | ok c0 =>
          simp only [Outcome.ok_bind]
          refine bind_le' (hrec a aux _ _ ha) fun p hp => ?_
          obtain ⟨a1, aux1⟩ := p
          exact ih (r + 1) a1 aux1 (by rw [hsz _ _ _ _ _ _ hp]; exact ha)
        | panic => simp
        | diverge => simp at h0
      | panic => cases h0 : Go.idx count r <;> simp_all
      | diverge => simp at h1
    · rw [show (R - r).toNat = 0 by omega]
      simp [msdString.loop5]

/-- `msdString` (recursion depth `f` on the hand side): `f + len(a) + 1` units suffice -/
theorem msdString_le : ∀ (f e : Nat) (a aux : Array Go.Str) (lo hi d : Int),
    msdStringAux f a aux lo hi d ≼ Radix.msdString (f + (a.size + 1) + e) a aux lo hi d := by
  intro f
  induction f with
  | zero => intro e a aux lo hi d; simp [msdStringAux]
  | succ f ih =>
    intro e a aux lo hi d
    rw [show f + 1 + (a.size + 1) + e = (f + (a.size + 1) + e) + 1 by omega]
    have hC : radixsort_msdString_CUTOFF = 15 := rfl
    have hR : radixsort_msdString_R = 256 := rfl
    simp only [msdStringAux, Radix.msdString, hC, hR]
    split
    · rename_i h
      have hd : decide (hi ≤ lo + 15) = true := by simpa using h
      simp only [hd, if_true, Outcome.bind_assoc, Outcome.pure_eq, Outcome.ok_bind, ← lt_str]
      refine bind_le' (insertion_le a lo hi _ (by omega)) fun a1 _ => ?_
      simp
    · rename_i h
      have hd : decide (hi ≤ lo + 15) = false := by simpa using h
      have hm : Go.make (0 : Int) (256 + 2) = .ok (Array.replicate 258 0) := make_lit 0 258 _ rfl
      simp only [hd, Bool.false_eq_true, if_false, countingPass, hm, Outcome.bind_assoc, Outcome.pure_eq, Outcome.ok_bind,
        show ((256 : Int) + 1).toNat + 1 = 258 from rfl, show (256 : Int).toNat + 1 = 257 from rfl]
      generalize hF : f + (a.size + 1) + e = F
      have hk : ∀ s, (fun s => (C07.charAt s d).map (· + 1)) s = (Radix.charAt s d).map (· + 1) := by
        intro s; simp only [charAt_eq]
      refine bind_le' (msdString_loop1 F a d hi _ hk (a.size + 1) lo (Array.replicate 258 0)) fun c1 _ => ?_
      have h2 := msdString_loop2 F (256 + 1) 258 0 c1
      refine bind_le' h2 fun c2 _ => ?_
      refine le_bind_of_map (msdString_loop3 F a d hi _ hk (a.size + 1) lo c2 aux) fun r hd1 _ => ?_
      refine bind_le' (msdString_loop4 F r.1 lo hi (a.size + 1) lo a) fun a1 hc => ?_
      have hs1 : a1.size = a.size := copyBack_size _ _ _ _ _ _ _ hc
      have := msdString_loop5 F (fun a aux lo hi => msdStringAux f a aux lo hi (d + 1)) (Radix.msdString F) a.size lo d 256 r.2
        (fun a' aux' l h ha' => by
          have := ih e a' aux' l h (d + 1)
          rwa [ha', hF] at this)
        (fun a' aux' l h a'' aux'' hh => msdStringAux_size f a' aux' l h (d + 1) a'' aux'' hh)
        257 0 a1 r.1 hs1
      refine this.trans_eq ?_
      simp only [Int.sub_zero, show (256 : Int).toNat = 256 from rfl]
      generalize msdString.loop5 F (Radix.msdString F) lo d r.2 256 0 a1 r.1 = X
      cases X <;> rfl

/-- `MSDString` with any fuel `≥ maxLen(a) + len(a) + 3` -/
theorem MSDString_le (a : Array Go.Str) (e : Nat) :
    C07.msdString a ≼ Radix.MSDString (maxLen a + 2 + (a.size + 1) + e) a := by
  have := msdString_le (maxLen a + 2) e a (Array.replicate a.size []) 0 ((a.size : Int) - 1) 0
  simp only [C07.msdString, msdStringAt, Radix.MSDString, Go.make_nat, Outcome.bind_assoc, Outcome.pure_eq, Outcome.ok_bind]
  refine bind_le' this fun p _ => ?_
  simp


theorem msdWordAux_size (signed : Bool) (CUTOFF W R BS IS : Int) :
    ∀ (f : Nat) (a aux : Array UInt64) (lo hi d : Int) (a' aux' : Array UInt64),
    msdWordAux signed CUTOFF W R BS IS f a aux lo hi d = .ok (a', aux') → a'.size = a.size := by
  intro f
  induction f with
  | zero => intro a aux lo hi d a' aux' h; cases h
  | succ f ih =>
    intro a aux lo hi d a' aux' h
    simp only [msdWordAux] at h
    split at h
    · obtain ⟨a1, h1, h⟩ := bind_eq_ok'.1 h
      cases h
      exact rInsertion_size _ h1
    · obtain ⟨⟨a1, aux1, count⟩, h1, h⟩ := bind_eq_ok'.1 h
      have s1 := (countingPass_size _ _ _ h1).1
      have hrec : ∀ a aux l h a' aux', msdWordAux signed CUTOFF W R BS IS f a aux l h (d + 1) = .ok (a', aux') →
          a'.size = a.size := fun a aux l h a' aux' e => ih a aux l h (d + 1) a' aux' e
      simp only at h
      split at h
      · cases h; exact s1
      · obtain ⟨⟨a2, aux2⟩, h2, h3⟩ := bind_eq_ok'.1 h
        rw [bucketLoop_size true _ hrec _ _ _ _ _ _ _ _ _ h3, ← s1]
        -- the special cases before the bucket loop
        cases signed with
        | false =>
          simp only [Bool.false_eq_true, if_false] at h2
          obtain ⟨c0, -, h2⟩ := bind_eq_ok'.1 h2
          split at h2
          · exact hrec _ _ _ _ _ _ h2
          · cases h2; rfl
        | true =>
          simp only [if_true] at h2
          obtain ⟨cH, -, h2⟩ := bind_eq_ok'.1 h2
          obtain ⟨⟨a3, aux3⟩, h4, h2⟩ := bind_eq_ok'.1 h2
          obtain ⟨c0, -, h2⟩ := bind_eq_ok'.1 h2
          have s3 : a3.size = a1.size := by
            split at h4
            · exact hrec _ _ _ _ _ _ h4
            · cases h4; rfl
          simp only at h2
          split at h2
          · rw [hrec _ _ _ _ _ _ h2, s3]
          · cases h2; exact s3

/-! ### msdUint -/

theorem msdUint_loop1 (F : Nat) (a : Array UInt64) (shift hi : Int) (key : UInt64 → Outcome Int) (hkey : ∀ v, key v = (Go.shrU64 v shift).map (fun t => ((t &&& 255).toNat : Int))) : ∀ (f : Nat) (i : Int) (count : Array Int),
    (freqLoop key a hi f i count) ≼
      msdUint.loop1 F a shift (hi + 1 - i).toNat i count := by
  intro f
  induction f with
  | zero => intro i count; simp [freqLoop]
  | succ f ih =>
    intro i count
    simp only [freqLoop]
    split
    · rw [show (hi + 1 - i).toNat = (hi + 1 - (i + 1)).toNat + 1 by omega]
      simp only [msdUint.loop1, get_eq, set_eq, bind_map_left, Outcome.map_bind, Outcome.map_ok, hkey, succ_and255]
      outcome_auto
    · rw [show (hi + 1 - i).toNat = 0 by omega]
      simp [msdUint.loop1]

theorem msdUint_loop2 (F : Nat) (R : Int) : ∀ (f : Nat) (r : Int) (count : Array Int),
    (cumLoop R f r count) ≼
      msdUint.loop2 F (R - r).toNat r count := by
  intro f
  induction f with
  | zero => intro r count; simp [cumLoop]
  | succ f ih =>
    intro r count
    simp only [cumLoop]
    split
    · rw [show (R - r).toNat = (R - (r + 1)).toNat + 1 by omega]
      simp only [msdUint.loop2, get_eq, set_eq, bind_map_left, Outcome.map_bind, Outcome.map_ok]
      outcome_auto
    · rw [show (R - r).toNat = 0 by omega]
      simp [msdUint.loop2]

theorem msdUint_loop3 (F : Nat) (a : Array UInt64) (shift hi : Int) (key : UInt64 → Outcome Int) (hkey : ∀ v, key v = (Go.shrU64 v shift).map (fun t => ((t &&& 255).toNat : Int))) : ∀ (f : Nat) (i : Int) (count : Array Int) (aux : Array UInt64),
    (distLoop key a hi f i count aux) ≼
      (msdUint.loop3 F a shift (hi + 1 - i).toNat i aux count).map (fun r => (r.2, r.1)) := by
  intro f
  induction f with
  | zero => intro i count aux; simp [distLoop]
  | succ f ih =>
    intro i count aux
    simp only [distLoop]
    split
    · rw [show (hi + 1 - i).toNat = (hi + 1 - (i + 1)).toNat + 1 by omega]
      simp only [msdUint.loop3, get_eq, set_eq, bind_map_left, Outcome.map_bind, Outcome.map_ok, hkey]
      outcome_auto
    · rw [show (hi + 1 - i).toNat = 0 by omega]
      simp [msdUint.loop3]

theorem msdUint_loop4 (F : Nat) (aux : Array UInt64) (lo hi : Int) : ∀ (f : Nat) (i : Int) (a : Array UInt64),
    (copyBack aux lo hi f i a) ≼
      msdUint.loop4 F aux lo (hi + 1 - i).toNat i a := by
  intro f
  induction f with
  | zero => intro i a; simp [copyBack]
  | succ f ih =>
    intro i a
    simp only [copyBack]
    split
    · rw [show (hi + 1 - i).toNat = (hi + 1 - (i + 1)).toNat + 1 by omega]
      simp only [msdUint.loop4, get_eq, set_eq, bind_map_left, Outcome.map_bind, Outcome.map_ok]
      outcome_auto
    · rw [show (hi + 1 - i).toNat = 0 by omega]
      simp [msdUint.loop4]

/-- `for r := 0; r < R; r++ { if count[r+1] > count[r] { msdUint(a, aux, lo+count[r], lo+count[r+1]-1, d+1) } }` -/
theorem msdUint_loop5 (F : Nat) (recH : Array UInt64 → Array UInt64 → Int → Int → Outcome (Array UInt64 × Array UInt64))
    (recG : Array UInt64 → Array UInt64 → Int → Int → Int → Outcome (Array UInt64 × Array UInt64)) (n : Nat)
    (lo d R : Int) (count : Array Int)
    (hrec : ∀ a aux l h, a.size = n → recH a aux l h ≼ recG a aux l h (d + 1))
    (hsz : ∀ a aux l h a' aux', recH a aux l h = .ok (a', aux') → a'.size = a.size) :
    ∀ (f : Nat) (r : Int) (a aux : Array UInt64), a.size = n →
      bucketLoop true recH count lo R f r a aux ≼ msdUint.loop5 F recG lo d count (R - r).toNat r a aux := by
  intro f
  induction f with
  | zero => intro r a aux _; simp [bucketLoop]
  | succ f ih =>
    intro r a aux ha
    simp only [bucketLoop]
    split
    · rw [show (R - r).toNat = (R - (r + 1)).toNat + 1 by omega]
      simp only [msdUint.loop5, get_eq, Bool.true_and, Outcome.bind_assoc, Outcome.pure_eq, Outcome.ok_bind]
      cases h1 : Go.idx count (r + 1) with
      | ok c1 =>
        cases h0 : Go.idx count r with
        | ok c0 =>
          simp only [Outcome.ok_bind]
          by_cases hg : c1 > c0
          · simp only [hg, decide_true, Bool.not_true, Bool.false_eq_true, if_false, if_true, Outcome.ok_bind,
              Outcome.bind_assoc]
            refine bind_le' (hrec a aux _ _ ha) fun p hp => ?_
            obtain ⟨a1, aux1⟩ := p
            exact ih (r + 1) a1 aux1 (by rw [hsz _ _ _ _ _ _ hp]; exact ha)
          · simp only [hg, decide_false, Bool.not_false, if_true, Bool.false_eq_true, if_false, Outcome.ok_bind]
            exact ih (r + 1) a aux ha
        | panic => simp
        | diverge => simp at h0
      | panic => cases h0 : Go.idx count r <;> simp_all
      | diverge => simp at h1
    · rw [show (R - r).toNat = 0 by omega]
      simp [msdUint.loop5]

/-- `msdUint` for a digit `d ≥ 0` (recursion depth `f` on the hand side): `f + len(a) + 1` units suffice -/
theorem msdUint_le : ∀ (f e : Nat) (a aux : Array UInt64) (lo hi d : Int), 0 ≤ d →
    msdWordAux false 15 8 256 8 64 f a aux lo hi d ≼ Radix.msdUint (f + (a.size + 1) + e) a aux lo hi d := by
  intro f
  induction f with
  | zero => intro e a aux lo hi d _; simp [msdWordAux]
  | succ f ih =>
    intro e a aux lo hi d hd0
    rw [show f + 1 + (a.size + 1) + e = (f + (a.size + 1) + e) + 1 by omega]
    simp only [msdWordAux, Radix.msdUint]
    split
    · rename_i h
      have hd : decide (hi ≤ lo + 15) = true := by simpa using h
      simp only [hd, if_true, Outcome.bind_assoc, Outcome.pure_eq, Outcome.ok_bind, Bool.false_eq_true, if_false, ← lt_u64]
      refine bind_le' (insertion_le a lo hi _ (by omega)) fun a1 _ => ?_
      simp
    · rename_i h
      have hd : decide (hi ≤ lo + 15) = false := by simpa using h
      have hm : Go.make (0 : Int) (256 + 1) = .ok (Array.replicate 257 0) := make_lit 0 257 _ rfl
      have hs : 64 - 8 - 8 * d < 64 := by omega
      simp only [hd, Bool.false_eq_true, if_false, countingPass, hm, Outcome.bind_assoc, Outcome.pure_eq, Outcome.ok_bind,
        show (256 : Int).toNat + 1 = 257 from rfl, Bool.false_and]
      generalize hF : f + (a.size + 1) + e = F
      have hk := fun v => digitU v (64 - 8 - 8 * d) hs
      refine bind_le' (msdUint_loop1 F a _ hi _ hk (a.size + 1) lo (Array.replicate 257 0)) fun c1 _ => ?_
      refine bind_le' (msdUint_loop2 F 256 257 0 c1) fun c2 _ => ?_
      refine le_bind_of_map (msdUint_loop3 F a _ hi _ hk (a.size + 1) lo c2 aux) fun r _ _ => ?_
      refine bind_le' (msdUint_loop4 F r.1 lo hi (a.size + 1) lo a) fun a1 hc => ?_
      have hs1 : a1.size = a.size := copyBack_size _ _ _ _ _ _ _ hc
      have hrec : ∀ a' aux' l h, a'.size = a.size →
          msdWordAux false 15 8 256 8 64 f a' aux' l h (d + 1) ≼ Radix.msdUint F a' aux' l h (d + 1) := by
        intro a' aux' l h ha'
        have := ih e a' aux' l h (d + 1) (by omega)
        rwa [ha', hF] at this
      have hsz := fun a' aux' l h a'' aux'' hh => msdWordAux_size false 15 8 256 8 64 f a' aux' l h (d + 1) a'' aux'' hh
      by_cases h7 : d = 7
      · subst h7
        simp [show ((7 : Int) == 8 - 1) = true from rfl]
      · have hne : (d == 8 - 1) = false := by rw [beq_eq_false_iff_ne]; omega
        simp only [hne, Bool.false_eq_true, if_false, get_eq, Outcome.bind_assoc, Outcome.ok_bind]
        refine bind_le' (le_refl _) fun c0 h0 => ?_
        have bucket : ∀ a2 aux2, a2.size = a.size →
            bucketLoop true (fun a aux lo hi => msdWordAux false 15 8 256 8 64 f a aux lo hi (d + 1)) r.2 lo 256 257 0 a2 aux2 ≼
              (msdUint.loop5 F (Radix.msdUint F) lo d r.2 (256 - 0 : Int).toNat 0 a2 aux2 >>= fun x => .ok (x.1, x.2)) := by
          intro a2 aux2 h2
          have := msdUint_loop5 F _ (Radix.msdUint F) a.size lo d 256 r.2 hrec hsz 257 0 a2 aux2 h2
          refine this.trans_eq ?_
          generalize msdUint.loop5 F (Radix.msdUint F) lo d r.2 (256 - 0 : Int).toNat 0 a2 aux2 = X
          cases X <;> rfl
        by_cases hp : c0 > 0
        · simp only [hp, decide_true, if_true, h0, Outcome.ok_bind, Outcome.bind_assoc]
          refine bind_le' (hrec a1 r.1 _ _ hs1) fun p hp2 => ?_
          obtain ⟨a2, aux2⟩ := p
          exact bucket a2 aux2 (by rw [hsz _ _ _ _ _ _ hp2]; exact hs1)
        · simp only [hp, decide_false, Bool.false_eq_true, if_false, Outcome.ok_bind]
          exact bucket a1 r.1 hs1

/-- `MSDUint` with any fuel `≥ len(a) + 10` -/
theorem MSDUint_le (a : Array UInt64) (e : Nat) : C07.msdUint a ≼ Radix.MSDUint (8 + 1 + (a.size + 1) + e) a := by
  have := msdUint_le (8 + 1) e a (Array.replicate a.size 0) 0 ((a.size : Int) - 1) 0 (Int.le_refl 0)
  have e1 : radixsort_msdUint_CUTOFF = 15 := rfl
  have e2 : radixsort_msdUint_W = 8 := rfl
  have e3 : radixsort_msdUint_R = 256 := rfl
  have e4 : radixsort_msdUint_BYTE_SIZE = 8 := rfl
  have e5 : radixsort_msdUint_INT_SIZE = 64 := rfl
  simp only [C07.msdUint, msdUintAt, Radix.MSDUint, Go.make_nat, Outcome.bind_assoc, Outcome.pure_eq, Outcome.ok_bind,
    e1, e2, e3, e4, e5]
  refine bind_le' this fun p _ => ?_
  simp


/-! ### msdInt (the `[]int` of the generated code is the image under `toI` of the hand Model's words) -/

theorem lt_toI (x y : UInt64) : Go.Ordered.lt (toI x) (toI y) = iLt x y := by
  simp only [Go.Ordered.lt, iLt, toI, Int64.lt_iff_toInt_lt]
  exact decide_eq_decide.2 Iff.rfl

section insertionM
variable {α β : Type} [Inhabited α] [Inhabited β] [Go.Ordered α] (m : β → α) (lt : β → β → Bool)
  (hlt : ∀ x y, Go.Ordered.lt (m x) (m y) = lt x y)
include hlt

theorem insertionM_loop2 (lo : Int) (F : Nat) : ∀ (f d : Nat) (j : Int) (a : Array β),
    (rInsInner lt lo f j a).map (fun b => b.map m) ≼ insertion.loop2 F lo (f + d) j (a.map m) := by
  intro f
  induction f with
  | zero => intro d j a; simp [rInsInner]
  | succ f ih =>
    intro d j a
    rw [show f + 1 + d = (f + d) + 1 by omega]
    simp only [rInsInner, insertion.loop2, get_eq, swap_eq, idx_map, setIdx_map, bind_map_left, Outcome.map_bind,
      Outcome.map_ok, hlt]
    outcome_auto [setIdx_map, bind_map_left]

theorem insertionM_loop1 (lo hi : Int) (F : Nat) : ∀ (f : Nat) (i : Int) (a : Array β), a.size + 1 ≤ F →
    (rInsLoop lt lo hi f i a).map (fun b => b.map m) ≼ insertion.loop1 F lo (hi + 1 - i).toNat i (a.map m) := by
  intro f
  induction f with
  | zero => intro i a _; simp [rInsLoop]
  | succ f ih =>
    intro i a hF
    simp only [rInsLoop]
    split
    · rw [show (hi + 1 - i).toNat = (hi + 1 - (i + 1)).toNat + 1 by omega]
      simp only [insertion.loop1, Outcome.bind_assoc, Outcome.pure_eq, Outcome.ok_bind, Outcome.map_bind]
      obtain ⟨e, rfl⟩ : ∃ e, F = a.size + 1 + e := ⟨F - (a.size + 1), by omega⟩
      refine bind_le_map1' (insertionM_loop2 m lt hlt lo _ (a.size + 1) e i a) fun a1 h1 => ?_
      exact ih (i + 1) a1 (by rw [rInsInner_size _ lo _ _ _ _ h1]; omega)
    · rw [show (hi + 1 - i).toNat = 0 by omega]
      simp [insertion.loop1]

theorem insertionM_le (a : Array β) (lo hi : Int) (F : Nat) (hF : a.size + 1 ≤ F) :
    (rInsertion lt a lo hi).map (fun b => b.map m) ≼ Radix.insertion F (a.map m) lo hi := by
  have := insertionM_loop1 m lt hlt lo hi F (a.size + 1) lo a hF
  simp only [rInsertion, Radix.insertion, Outcome.bind_assoc, Outcome.pure_eq]
  revert this
  cases insertion.loop1 F lo (hi + 1 - lo).toNat lo (a.map m) <;> simp
end insertionM


/-! length of `count` through the counting pass (hand Model): `count[R/2]` and `count[0]` are in range afterwards -/

theorem set_size' {α : Type} {a a' : Array α} {i : Int} {v : α} (h : C07.set a i v = .ok a') : a'.size = a.size := by
  unfold C07.set at h
  split at h
  · cases h; simp
  · cases h

theorem freqLoop_csize {α : Type} (key : α → Outcome Int) (a : Array α) (hi : Int) :
    ∀ (f : Nat) (i : Int) (count count' : Array Int), freqLoop key a hi f i count = .ok count' → count'.size = count.size := by
  intro f
  induction f with
  | zero => intro i count count' h; cases h
  | succ f ih =>
    intro i count count' h
    simp only [freqLoop] at h
    split at h
    · obtain ⟨x, -, h⟩ := bind_eq_ok'.1 h
      obtain ⟨c, -, h⟩ := bind_eq_ok'.1 h
      obtain ⟨v, -, h⟩ := bind_eq_ok'.1 h
      obtain ⟨c1, h1, h2⟩ := bind_eq_ok'.1 h
      rw [ih _ _ _ h2, set_size' h1]
    · cases h; rfl

theorem cumLoop_csize (R : Int) : ∀ (f : Nat) (r : Int) (count count' : Array Int),
    cumLoop R f r count = .ok count' → count'.size = count.size := by
  intro f
  induction f with
  | zero => intro r count count' h; cases h
  | succ f ih =>
    intro r count count' h
    simp only [cumLoop] at h
    split at h
    · obtain ⟨x, -, h⟩ := bind_eq_ok'.1 h
      obtain ⟨y, -, h⟩ := bind_eq_ok'.1 h
      obtain ⟨c1, h1, h2⟩ := bind_eq_ok'.1 h
      rw [ih _ _ _ h2, set_size' h1]
    · cases h; rfl

theorem addLoop_csize (to delta : Int) : ∀ (f : Nat) (r : Int) (count count' : Array Int),
    addLoop to delta f r count = .ok count' → count'.size = count.size := by
  intro f
  induction f with
  | zero => intro r count count' h; cases h
  | succ f ih =>
    intro r count count' h
    simp only [addLoop] at h
    split at h
    · obtain ⟨x, -, h⟩ := bind_eq_ok'.1 h
      obtain ⟨c1, h1, h2⟩ := bind_eq_ok'.1 h
      rw [ih _ _ _ h2, set_size' h1]
    · cases h; rfl

theorem signRotate_csize (R : Int) (setTop : Bool) {count count' : Array Int}
    (h : signRotate R setTop count = .ok count') : count'.size = count.size := by
  simp only [signRotate] at h
  obtain ⟨cR, -, h⟩ := bind_eq_ok'.1 h
  obtain ⟨cH, -, h⟩ := bind_eq_ok'.1 h
  obtain ⟨c1, h1, h⟩ := bind_eq_ok'.1 h
  obtain ⟨c2, h2, h3⟩ := bind_eq_ok'.1 h
  rw [addLoop_csize _ _ _ _ _ _ h3, addLoop_csize _ _ _ _ _ _ h2]
  cases setTop with
  | false => simp at h1; rw [h1]
  | true =>
    simp only [if_true] at h1
    obtain ⟨x, -, h1⟩ := bind_eq_ok'.1 h1
    exact set_size' h1

theorem distLoop_csize {α : Type} (key : α → Outcome Int) (a : Array α) (hi : Int) :
    ∀ (f : Nat) (i : Int) (count : Array Int) (aux : Array α) (count' : Array Int) (aux' : Array α),
    distLoop key a hi f i count aux = .ok (count', aux') → count'.size = count.size := by
  intro f
  induction f with
  | zero => intro i count aux count' aux' h; cases h
  | succ f ih =>
    intro i count aux count' aux' h
    simp only [distLoop] at h
    split at h
    · obtain ⟨x, -, h⟩ := bind_eq_ok'.1 h
      obtain ⟨c, -, h⟩ := bind_eq_ok'.1 h
      obtain ⟨p, -, h⟩ := bind_eq_ok'.1 h
      obtain ⟨aux1, -, h⟩ := bind_eq_ok'.1 h
      obtain ⟨count1, h1, h2⟩ := bind_eq_ok'.1 h
      rw [ih _ _ _ _ _ h2, set_size' h1]
    · cases h; rfl

theorem idx_ok_of_lt {α : Type} (a : Array α) (k : Nat) (h : k < a.size) : ∃ v, Go.idx a (k : Int) = .ok v :=
  ⟨a[k], Go.idx_nat h⟩

theorem msdInt_loop1 (F : Nat) (a : Array UInt64) (shift hi : Int) (key : UInt64 → Outcome Int) (hkey : ∀ v, key v = (Go.shrInt (toI v) shift).map (fun t => Go.andInt t 255)) : ∀ (f : Nat) (i : Int) (count : Array Int),
    (freqLoop key a hi f i count) ≼
      msdInt.loop1 F (a.map toI) shift (hi + 1 - i).toNat i count := by
  intro f
  induction f with
  | zero => intro i count; simp [freqLoop]
  | succ f ih =>
    intro i count
    simp only [freqLoop]
    split
    · rw [show (hi + 1 - i).toNat = (hi + 1 - (i + 1)).toNat + 1 by omega]
      simp only [msdInt.loop1, get_eq, set_eq, bind_map_left, Outcome.map_bind, Outcome.map_ok, idx_map, hkey]
      outcome_auto
    · rw [show (hi + 1 - i).toNat = 0 by omega]
      simp [msdInt.loop1]

theorem msdInt_loop2 (F : Nat) (R : Int) : ∀ (f : Nat) (r : Int) (count : Array Int),
    (cumLoop R f r count) ≼
      msdInt.loop2 F (R - r).toNat r count := by
  intro f
  induction f with
  | zero => intro r count; simp [cumLoop]
  | succ f ih =>
    intro r count
    simp only [cumLoop]
    split
    · rw [show (R - r).toNat = (R - (r + 1)).toNat + 1 by omega]
      simp only [msdInt.loop2, get_eq, set_eq, bind_map_left, Outcome.map_bind, Outcome.map_ok]
      outcome_auto
    · rw [show (R - r).toNat = 0 by omega]
      simp [msdInt.loop2]

theorem msdInt_loop3 (F : Nat) (to delta : Int) : ∀ (f : Nat) (r : Int) (count : Array Int),
    (addLoop to delta f r count) ≼
      msdInt.loop3 F delta (to - r).toNat r count := by
  intro f
  induction f with
  | zero => intro r count; simp [addLoop]
  | succ f ih =>
    intro r count
    simp only [addLoop]
    split
    · rw [show (to - r).toNat = (to - (r + 1)).toNat + 1 by omega]
      simp only [msdInt.loop3, get_eq, set_eq, bind_map_left, Outcome.map_bind, Outcome.map_ok]
      outcome_auto
    · rw [show (to - r).toNat = 0 by omega]
      simp [msdInt.loop3]

theorem msdInt_loop4 (F : Nat) (to s2 : Int) : ∀ (f : Nat) (r : Int) (count : Array Int),
    (addLoop to (-s2) f r count) ≼
      msdInt.loop4 F s2 (to - r).toNat r count := by
  intro f
  induction f with
  | zero => intro r count; simp [addLoop]
  | succ f ih =>
    intro r count
    simp only [addLoop]
    split
    · rw [show (to - r).toNat = (to - (r + 1)).toNat + 1 by omega]
      simp only [msdInt.loop4, get_eq, set_eq, bind_map_left, Outcome.map_bind, Outcome.map_ok, ← Int.sub_eq_add_neg]
      outcome_auto
    · rw [show (to - r).toNat = 0 by omega]
      simp [msdInt.loop4]

theorem msdInt_loop5 (F : Nat) (a : Array UInt64) (shift hi : Int) (key : UInt64 → Outcome Int) (hkey : ∀ v, key v = (Go.shrInt (toI v) shift).map (fun t => Go.andInt t 255)) : ∀ (f : Nat) (i : Int) (count : Array Int) (aux : Array UInt64),
    ((distLoop key a hi f i count aux)).map (fun r => (r.1, r.2.map toI)) ≼
      (msdInt.loop5 F (a.map toI) shift (hi + 1 - i).toNat i (aux.map toI) count).map (fun r => (r.2, r.1)) := by
  intro f
  induction f with
  | zero => intro i count aux; simp [distLoop]
  | succ f ih =>
    intro i count aux
    simp only [distLoop]
    split
    · rw [show (hi + 1 - i).toNat = (hi + 1 - (i + 1)).toNat + 1 by omega]
      simp only [msdInt.loop5, get_eq, set_eq, bind_map_left, Outcome.map_bind, Outcome.map_ok, idx_map, setIdx_map, hkey]
      outcome_auto
    · rw [show (hi + 1 - i).toNat = 0 by omega]
      simp [msdInt.loop5]

theorem msdInt_loop6 (F : Nat) (aux : Array UInt64) (lo hi : Int) : ∀ (f : Nat) (i : Int) (a : Array UInt64),
    ((copyBack aux lo hi f i a)).map (fun b => b.map toI) ≼
      msdInt.loop6 F (aux.map toI) lo (hi + 1 - i).toNat i (a.map toI) := by
  intro f
  induction f with
  | zero => intro i a; simp [copyBack]
  | succ f ih =>
    intro i a
    simp only [copyBack]
    split
    · rw [show (hi + 1 - i).toNat = (hi + 1 - (i + 1)).toNat + 1 by omega]
      simp only [msdInt.loop6, get_eq, set_eq, bind_map_left, Outcome.map_bind, Outcome.map_ok, idx_map, setIdx_map]
      outcome_auto
    · rw [show (hi + 1 - i).toNat = 0 by omega]
      simp [msdInt.loop6]

/-- results of the hand Model's `msdInt` as the generated code's -/
def pairI (p : Array UInt64 × Array UInt64) : Array Int × Array Int := (p.1.map toI, p.2.map toI)

theorem msdInt_loop7 (F : Nat) (recH : Array UInt64 → Array UInt64 → Int → Int → Outcome (Array UInt64 × Array UInt64))
    (recG : Array Int → Array Int → Int → Int → Int → Outcome (Array Int × Array Int)) (n : Nat)
    (lo d R : Int) (count : Array Int)
    (hrec : ∀ a aux l h, a.size = n → (recH a aux l h).map pairI ≼ recG (a.map toI) (aux.map toI) l h (d + 1))
    (hsz : ∀ a aux l h a' aux', recH a aux l h = .ok (a', aux') → a'.size = a.size) :
    ∀ (f : Nat) (r : Int) (a aux : Array UInt64), a.size = n →
      (bucketLoop true recH count lo R f r a aux).map pairI ≼
        msdInt.loop7 F recG lo d count (R - r).toNat r (a.map toI) (aux.map toI) := by
  intro f
  induction f with
  | zero => intro r a aux _; simp [bucketLoop]
  | succ f ih =>
    intro r a aux ha
    simp only [bucketLoop]
    split
    · rw [show (R - r).toNat = (R - (r + 1)).toNat + 1 by omega]
      simp only [msdInt.loop7, get_eq, Bool.true_and, Outcome.bind_assoc, Outcome.pure_eq, Outcome.ok_bind, Outcome.map_bind]
      cases h1 : Go.idx count (r + 1) with
      | ok c1 =>
        cases h0 : Go.idx count r with
        | ok c0 =>
          simp only [Outcome.ok_bind]
          by_cases hg : c1 > c0
          · simp only [hg, decide_true, Bool.not_true, Bool.false_eq_true, if_false, if_true, Outcome.ok_bind,
              Outcome.bind_assoc, Outcome.map_bind]
            refine bind_le_map1' (hrec a aux _ _ ha) fun p hp => ?_
            obtain ⟨a1, aux1⟩ := p
            exact ih (r + 1) a1 aux1 (by rw [hsz _ _ _ _ _ _ hp]; exact ha)
          · simp only [hg, decide_false, Bool.not_false, if_true, Bool.false_eq_true, if_false, Outcome.ok_bind]
            exact ih (r + 1) a aux ha
        | panic => simp
        | diverge => simp at h0
      | panic => cases h0 : Go.idx count r <;> simp_all
      | diverge => simp at h1
    · rw [show (R - r).toNat = 0 by omega]
      simp [msdInt.loop7, pairI]


/-- the sign-byte rotation of `msdInt` (`d == 0`; also sets `count[R]`), followed by related continuations -/
theorem msdInt_rot {γ : Type} (F : Nat) (count : Array Int) (K K' : Array Int → Outcome γ)
    (hK : ∀ c, signRotate 256 true count = .ok c → K c ≼ K' c) :
    (signRotate 256 true count >>= K) ≼ (do
      let t10_ ← Go.idx count 256
      let t11_ ← Go.idx count (Int.tdiv 256 2)
      let t12_ ← Go.idx count (Int.tdiv 256 2)
      let t13_ ← Go.idx count 1
      let t14_ ← Go.setIdx count 256 ((t10_ - t11_) + t13_)
      let c ← msdInt.loop3 F (t10_ - t11_) ((Int.tdiv 256 2) - 0).toNat 0 t14_
      let c ← msdInt.loop4 F t12_ (256 - (Int.tdiv 256 2)).toNat (Int.tdiv 256 2) c
      K' c) := by
  have h128 : Int.tdiv 256 2 = 128 := rfl
  have h128' : (256 : Int) / 2 = 128 := rfl
  have hx : signRotate 256 true count ≼ (do
      let t10_ ← Go.idx count 256
      let t11_ ← Go.idx count (Int.tdiv 256 2)
      let t12_ ← Go.idx count (Int.tdiv 256 2)
      let t13_ ← Go.idx count 1
      let t14_ ← Go.setIdx count 256 ((t10_ - t11_) + t13_)
      let c ← msdInt.loop3 F (t10_ - t11_) ((Int.tdiv 256 2) - 0).toNat 0 t14_
      msdInt.loop4 F t12_ (256 - (Int.tdiv 256 2)).toNat (Int.tdiv 256 2) c) := by
    simp only [signRotate, h128, h128', get_eq, set_eq, if_true, Outcome.bind_assoc, Outcome.ok_bind,
      show (256 : Int).toNat + 1 = 257 from rfl]
    refine bind_le' (le_refl _) fun cR _ => bind_le' (le_refl _) fun cH h1 => ?_
    simp only [h1, Outcome.ok_bind]
    refine bind_le' (le_refl _) fun c1 _ => bind_le' (le_refl _) fun cnt _ => ?_
    refine bind_le' (msdInt_loop3 F 128 (cR - cH) 257 0 cnt) fun c2 _ => ?_
    exact msdInt_loop4 F 256 cH 257 128 c2
  have := bind_le' hx hK
  simpa only [Outcome.bind_assoc] using this

set_option maxHeartbeats 1000000 in
/-- `msdInt` for a digit `d ≥ 0` (recursion depth `f` on the hand side): `f + len(a) + 1` units suffice -/
theorem msdInt_le : ∀ (f e : Nat) (a aux : Array UInt64) (lo hi d : Int), 0 ≤ d →
    (msdWordAux true 15 8 256 8 64 f a aux lo hi d).map pairI ≼
      Radix.msdInt (f + (a.size + 1) + e) (a.map toI) (aux.map toI) lo hi d := by
  intro f
  induction f with
  | zero => intro e a aux lo hi d _; simp [msdWordAux]
  | succ f ih =>
    intro e a aux lo hi d hd0
    rw [show f + 1 + (a.size + 1) + e = (f + (a.size + 1) + e) + 1 by omega]
    rw [msdWordAux, Radix.msdInt]
    split
    · rename_i h
      have hd : decide (hi ≤ lo + 15) = true := by simpa using h
      simp only [hd, if_true, Outcome.bind_assoc, Outcome.pure_eq, Outcome.ok_bind, Outcome.map_bind]
      refine bind_le_map1' (insertionM_le toI iLt lt_toI a lo hi _ (by omega)) fun a1 _ => ?_
      simp [pairI]
    · rename_i h
      have hd : decide (hi ≤ lo + 15) = false := by simpa using h
      have hm : Go.make (0 : Int) (256 + 1) = .ok (Array.replicate 257 0) := make_lit 0 257 _ rfl
      have hs : 64 - 8 - 8 * d ≤ 56 := by omega
      generalize hF : f + (a.size + 1) + e = F
      have hk := fun v => digitI v (64 - 8 - 8 * d) hs
      have hrec : ∀ a' aux' l h, a'.size = a.size →
          (msdWordAux true 15 8 256 8 64 f a' aux' l h (d + 1)).map pairI ≼
            Radix.msdInt F (a'.map toI) (aux'.map toI) l h (d + 1) := by
        intro a' aux' l h ha'
        have := ih e a' aux' l h (d + 1) (by omega)
        rwa [ha', hF] at this
      have hsz := fun a' aux' l h a'' aux'' hh => msdWordAux_size true 15 8 256 8 64 f a' aux' l h (d + 1) a'' aux'' hh
      -- what follows the (optional) rotation, for a `count` of length 257
      have bucket : ∀ (cnt : Array Int) (a2 aux2 : Array UInt64), a2.size = a.size →
          (bucketLoop true (fun a aux lo hi => msdWordAux true 15 8 256 8 64 f a aux lo hi (d + 1)) cnt lo 256 257 0 a2 aux2).map pairI ≼
            (msdInt.loop7 F (Radix.msdInt F) lo d cnt (256 - 0 : Int).toNat 0 (a2.map toI) (aux2.map toI) >>= fun x => .ok (x.1, x.2)) := by
        intro cnt a2 aux2 h2
        have := msdInt_loop7 F _ (Radix.msdInt F) a.size lo d 256 cnt hrec hsz 257 0 a2 aux2 h2
        refine this.trans_eq ?_
        generalize msdInt.loop7 F (Radix.msdInt F) lo d cnt (256 - 0 : Int).toNat 0 (a2.map toI) (aux2.map toI) = X
        cases X <;> rfl
      have h128 : Int.tdiv 256 2 = 128 := rfl
      have h128' : (256 : Int) / 2 = 128 := rfl
      have hsz0 : (Array.replicate 257 (0 : Int)).size = 257 := by simp
      have l1 := msdInt_loop1 F a _ hi _ hk (a.size + 1) lo (Array.replicate 257 0)
      by_cases hd00 : d = 0
      · -- the most significant byte: rotation, then the negative half first
        subst hd00
        simp only [hd, Bool.false_eq_true, if_false, countingPass, hm, Outcome.bind_assoc, Outcome.pure_eq,
          Outcome.ok_bind, Outcome.map_bind, show (256 : Int).toNat + 1 = 257 from rfl, Bool.true_and, Bool.false_and,
          show ((0 : Int) == 0) = true from rfl, show ((0 : Int) != 0) = false from rfl,
          show ((0 : Int) == 8 - 1) = false from rfl, if_true, get_eq, h128, h128']
        refine bind_le' l1 fun c1 h1 => ?_
        refine bind_le' (msdInt_loop2 F 256 257 0 c1) fun c2 h2 => ?_
        have hc2 : c2.size = 257 := by rw [cumLoop_csize _ _ _ _ _ h2, freqLoop_csize _ _ _ _ _ _ _ h1, hsz0]
        refine msdInt_rot F c2 _ _ fun c3 h3 => ?_
        have hc3 : c3.size = 257 := by rw [signRotate_csize _ _ h3, hc2]
        refine bind_le_map2' (msdInt_loop5 F a _ hi _ hk (a.size + 1) lo c3 aux) fun r x hr _ hrx => ?_
        obtain ⟨e1, e2⟩ := Prod.mk.inj hrx
        have hcs : r.1.size = 257 := by rw [distLoop_csize _ _ _ _ _ _ _ _ _ hr, hc3]
        rw [← e2, ← e1]
        refine bind_le_map1' (msdInt_loop6 F r.2 lo hi (a.size + 1) lo a) fun a1 hc => ?_
        have hs1 : a1.size = a.size := copyBack_size _ _ _ _ _ _ _ hc
        obtain ⟨cH, hcH⟩ := idx_ok_of_lt r.1 128 (by omega)
        obtain ⟨c0, hc0⟩ := idx_ok_of_lt r.1 0 (by omega)
        have g128 : Go.idx r.1 128 = .ok cH := hcH
        have g0 : Go.idx r.1 0 = .ok c0 := hc0
        simp only [g128, g0, Outcome.ok_bind, Outcome.map_bind]
        by_cases hp : cH > 0
        · simp only [hp, decide_true, if_true, Outcome.ok_bind, g128, Outcome.bind_assoc]
          refine bind_le_map1' (hrec a1 r.2 _ _ hs1) fun p hp2 => ?_
          obtain ⟨a2, aux2⟩ := p
          exact bucket r.1 a2 aux2 (by rw [hsz _ _ _ _ _ _ hp2]; exact hs1)
        · simp only [hp, decide_false, Bool.false_eq_true, if_false, Outcome.ok_bind]
          exact bucket r.1 a1 r.2 hs1
      · have hn0 : (d == 0) = false := by rw [beq_eq_false_iff_ne]; exact hd00
        have hn0' : (d != 0) = true := by simp [bne, hn0]
        by_cases h7 : d = 7
        · -- the least significant byte: no recursion
          subst h7
          simp only [hd, Bool.false_eq_true, if_false, countingPass, hm, Outcome.bind_assoc, Outcome.pure_eq,
            Outcome.ok_bind, Outcome.map_bind, show (256 : Int).toNat + 1 = 257 from rfl, Bool.true_and,
            show ((7 : Int) == 0) = false from rfl, show ((7 : Int) == 8 - 1) = true from rfl, if_true]
          refine bind_le' l1 fun c1 h1 => ?_
          refine bind_le' (msdInt_loop2 F 256 257 0 c1) fun c2 h2 => ?_
          refine bind_le_map2' (msdInt_loop5 F a _ hi _ hk (a.size + 1) lo c2 aux) fun r x hr _ hrx => ?_
          obtain ⟨e1, e2⟩ := Prod.mk.inj hrx
          rw [← e2]
          refine bind_le_map1' (msdInt_loop6 F r.2 lo hi (a.size + 1) lo a) fun a1 hc => ?_
          simp [pairI]
        · have hne : (d == 8 - 1) = false := by rw [beq_eq_false_iff_ne]; omega
          simp only [hd, Bool.false_eq_true, if_false, countingPass, hm, Outcome.bind_assoc, Outcome.pure_eq,
            Outcome.ok_bind, Outcome.map_bind, show (256 : Int).toNat + 1 = 257 from rfl, Bool.true_and, Bool.false_and,
            hn0, hn0', hne, if_true, get_eq, h128, h128']
          refine bind_le' l1 fun c1 h1 => ?_
          refine bind_le' (msdInt_loop2 F 256 257 0 c1) fun c2 h2 => ?_
          have hc2 : c2.size = 257 := by rw [cumLoop_csize _ _ _ _ _ h2, freqLoop_csize _ _ _ _ _ _ _ h1, hsz0]
          refine bind_le_map2' (msdInt_loop5 F a _ hi _ hk (a.size + 1) lo c2 aux) fun r x hr _ hrx => ?_
          obtain ⟨e1, e2⟩ := Prod.mk.inj hrx
          have hcs : r.1.size = 257 := by rw [distLoop_csize _ _ _ _ _ _ _ _ _ hr, hc2]
          rw [← e2, ← e1]
          refine bind_le_map1' (msdInt_loop6 F r.2 lo hi (a.size + 1) lo a) fun a1 hc => ?_
          have hs1 : a1.size = a.size := copyBack_size _ _ _ _ _ _ _ hc
          obtain ⟨cH, hcH⟩ := idx_ok_of_lt r.1 128 (by omega)
          obtain ⟨c0, hc0⟩ := idx_ok_of_lt r.1 0 (by omega)
          have g128 : Go.idx r.1 128 = .ok cH := hcH
          have g0 : Go.idx r.1 0 = .ok c0 := hc0
          simp only [g128, g0, Outcome.ok_bind, Outcome.map_bind]
          by_cases hp : c0 > 0
          · simp only [hp, decide_true, if_true, Outcome.ok_bind, g0, Outcome.bind_assoc]
            refine bind_le_map1' (hrec a1 r.2 _ _ hs1) fun p hp2 => ?_
            obtain ⟨a2, aux2⟩ := p
            exact bucket r.1 a2 aux2 (by rw [hsz _ _ _ _ _ _ hp2]; exact hs1)
          · simp only [hp, decide_false, Bool.false_eq_true, if_false, Outcome.ok_bind]
            exact bucket r.1 a1 r.2 hs1


/-- `MSDInt` with any fuel `≥ len(a) + 10` -/
theorem MSDInt_le (a : Array UInt64) (e : Nat) :
    (C07.msdInt a).map (fun b => b.map toI) ≼ Radix.MSDInt (8 + 1 + (a.size + 1) + e) (a.map toI) := by
  have := msdInt_le (8 + 1) e a (Array.replicate a.size 0) 0 ((a.size : Int) - 1) 0 (Int.le_refl 0)
  have e1 : radixsort_msdInt_CUTOFF = 15 := rfl
  have e2 : radixsort_msdInt_W = 8 := rfl
  have e3 : radixsort_msdInt_R = 256 := rfl
  have e4 : radixsort_msdInt_BYTE_SIZE = 8 := rfl
  have e5 : radixsort_msdInt_INT_SIZE = 64 := rfl
  have ez : (Array.replicate a.size (0 : UInt64)).map toI = Array.replicate a.size (0 : Int) := by simp [toI]
  rw [ez] at this
  simp only [C07.msdInt, msdIntAt, Radix.MSDInt, Go.make_nat, Outcome.bind_assoc, Outcome.pure_eq, Outcome.ok_bind,
    e1, e2, e3, e4, e5, Array.size_map, Outcome.map_bind]
  refine bind_le_map1' this fun p _ => ?_
  simp [pairI]

/-! ## quick.go (radixsort) -/

theorem q3sLoop_size (v d : Int) : ∀ (f : Nat) (lt i gt : Int) (a a' : Array (List UInt8)) (lt' gt' : Int),
    q3sLoop v d f lt i gt a = .ok (a', lt', gt') → a'.size = a.size := by
  intro f
  induction f with
  | zero => intro lt i gt a a' lt' gt' h; cases h
  | succ f ih =>
    intro lt i gt a a' lt' gt' h
    simp only [q3sLoop] at h
    split at h
    · obtain ⟨x, -, h⟩ := bind_eq_ok'.1 h
      obtain ⟨c, -, h⟩ := bind_eq_ok'.1 h
      split at h
      · obtain ⟨a1, h1, h2⟩ := bind_eq_ok'.1 h
        rw [ih _ _ _ _ _ _ _ h2, swap_size h1]
      · split at h
        · obtain ⟨a1, h1, h2⟩ := bind_eq_ok'.1 h
          rw [ih _ _ _ _ _ _ _ h2, swap_size h1]
        · exact ih _ _ _ _ _ _ _ h
    · cases h; rfl

theorem q3StringAux_size : ∀ (f : Nat) (a a' : Array (List UInt8)) (lo hi d : Int),
    q3StringAux f a lo hi d = .ok a' → a'.size = a.size := by
  intro f
  induction f with
  | zero => intro a a' lo hi d h; cases h
  | succ f ih =>
    intro a a' lo hi d h
    simp only [q3StringAux] at h
    split at h
    · exact rInsertion_size _ h
    · obtain ⟨x, -, h⟩ := bind_eq_ok'.1 h
      obtain ⟨v, -, h⟩ := bind_eq_ok'.1 h
      obtain ⟨⟨a1, lt, gt⟩, h1, h⟩ := bind_eq_ok'.1 h
      obtain ⟨a2, h2, h⟩ := bind_eq_ok'.1 h
      obtain ⟨a3, h3, h4⟩ := bind_eq_ok'.1 h
      rw [ih _ _ _ _ _ h4]
      have s3 : a3.size = a2.size := by
        split at h3
        · exact ih _ _ _ _ _ h3
        · cases h3; rfl
      rw [s3, ih _ _ _ _ _ h2, q3sLoop_size _ _ _ _ _ _ _ _ _ _ h1]

/-- the `for i <= gt { c := charAt(a[i], d); switch … }` loop -/
theorem quick3WayString_loop1 (v d : Int) (F : Nat) : ∀ (f e : Nat) (lt i gt : Int) (a : Array Go.Str),
    q3sLoop v d f lt i gt a ≼
      (quick3WayString.loop1 F d v (f + e) a lt i gt).map (fun r => (r.1, r.2.1, r.2.2.2)) := by
  intro f
  induction f with
  | zero => intro e lt i gt a; simp [q3sLoop]
  | succ f ih =>
    intro e lt i gt a
    rw [show f + 1 + e = (f + e) + 1 by omega]
    simp only [q3sLoop, quick3WayString.loop1, get_eq, swap_eq, charAt_eq]
    outcome_auto

/-- `quick3WayString` (recursion depth `f` on the hand side): `f + len(a) + 1` units suffice -/
theorem quick3WayString_le : ∀ (f e : Nat) (a : Array Go.Str) (lo hi d : Int),
    q3StringAux f a lo hi d ≼ Radix.quick3WayString (f + (a.size + 1) + e) a lo hi d := by
  intro f
  induction f with
  | zero => intro e a lo hi d; simp [q3StringAux]
  | succ f ih =>
    intro e a lo hi d
    rw [show f + 1 + (a.size + 1) + e = (f + (a.size + 1) + e) + 1 by omega]
    have hC : radixsort_quick3WayString_CUTOFF = 15 := rfl
    rw [q3StringAux, Radix.quick3WayString]
    simp only [hC]
    split
    · rename_i h
      have hd : decide (hi ≤ lo + 15) = true := by simpa using h
      simp only [hd, if_true, Outcome.bind_assoc, Outcome.pure_eq, Outcome.ok_bind, ← lt_str]
      refine (insertion_le a lo hi (f + (a.size + 1) + e) (by omega)).trans_eq ?_
      generalize Radix.insertion (f + (a.size + 1) + e) a lo hi = X
      cases X <;> rfl
    · rename_i h
      have hd : decide (hi ≤ lo + 15) = false := by simpa using h
      simp only [hd, Bool.false_eq_true, if_false, Outcome.bind_assoc, Outcome.pure_eq, Outcome.ok_bind, get_eq, charAt_eq]
      generalize hF : f + (a.size + 1) + e = F
      refine bind_le' (le_refl _) fun x _ => bind_le' (le_refl _) fun v _ => ?_
      have hl := quick3WayString_loop1 v d F (a.size + 1) (f + e) lo (lo + 1) hi a
      rw [show a.size + 1 + (f + e) = F by omega] at hl
      refine le_bind_of_map hl fun r h1 _ => ?_
      obtain ⟨a1, lt, i, gt⟩ := r
      have s1 : a1.size = a.size := q3sLoop_size _ _ _ _ _ _ _ _ _ _ h1
      have rec1 : ∀ (a' : Array Go.Str) l h d', a'.size = a.size →
          q3StringAux f a' l h d' ≼ Radix.quick3WayString F a' l h d' := by
        intro a' l h d' ha'
        have := ih e a' l h d'
        rwa [ha', hF] at this
      simp only
      refine bind_le' (rec1 a1 lo (lt - 1) d s1) fun a2 h2 => ?_
      have s2 : a2.size = a.size := by rw [q3StringAux_size _ _ _ _ _ _ h2, s1]
      by_cases hv : v ≥ 0
      · simp only [hv, decide_true, if_true, Outcome.bind_assoc, Outcome.ok_bind]
        refine bind_le' (rec1 a2 lt gt (d + 1) s2) fun a3 h3 => ?_
        have s3 : a3.size = a.size := by rw [q3StringAux_size _ _ _ _ _ _ h3, s2]
        refine (rec1 a3 (gt + 1) hi d s3).trans_eq ?_
        generalize Radix.quick3WayString F a3 (gt + 1) hi d = X
        cases X <;> rfl
      · simp only [hv, decide_false, Bool.false_eq_true, if_false, Outcome.ok_bind]
        refine (rec1 a2 (gt + 1) hi d s2).trans_eq ?_
        generalize Radix.quick3WayString F a2 (gt + 1) hi d = X
        cases X <;> rfl

/-! ### `shuffle` with math/rand's package-level generator (the generated code threads it as `grand_`) -/

theorem gshuffle_loop1 {α : Type} [Inhabited α] (r : Go.Rand) (n : Int) : ∀ (f : Nat) (i : Nat) (a : Array α),
    shuffleLoop (choiceOf r n) n f (i : Int) a ≼
      (Radix.shuffle.loop1 n (n - (i : Int)).toNat (i : Int) a { r with pos := r.pos + i }).map Prod.fst := by
  intro f
  induction f with
  | zero => intro i a; simp [shuffleLoop]
  | succ f ih =>
    intro i a
    simp only [shuffleLoop]
    split
    · rename_i hlt
      have hn : ¬ (n - (i : Int) ≤ 0) := by omega
      rw [show (n - (i : Int)).toNat = (n - ((i : Int) + 1)).toNat + 1 by omega]
      simp only [Radix.shuffle.loop1, Go.Rand.intn, hn, if_false, Outcome.bind_assoc, Outcome.pure_eq, Outcome.ok_bind,
        Outcome.map_bind, swap_bind, Int.toNat_natCast, choiceOf]
      refine bind_le' (le_refl _) fun a1 _ => ?_
      have := ih (i + 1) a1
      simpa [Nat.add_assoc, choiceOf] using this
    · rw [show (n - (i : Int)).toNat = 0 by omega]
      simp [Radix.shuffle.loop1]

theorem gshuffle_le {α : Type} [Inhabited α] (r : Go.Rand) (a : Array α) :
    C07.shuffle (choiceOf r a.size) a ≼ (Radix.shuffle a r).map Prod.fst := by
  obtain ⟨s, p⟩ := r
  have := gshuffle_loop1 ⟨s, p⟩ (a.size : Int) (a.size + 1) 0 a
  simp only [Int.natCast_zero, Nat.add_zero] at this
  simp only [C07.shuffle, Radix.shuffle, Outcome.pure_eq, Outcome.bind_assoc, Outcome.ok_bind, Outcome.map_bind, Outcome.map_ok]
  exact le_map_of_bind this

/-- `Quick3WayString` for every state `g` of the package-level generator, with any fuel that covers
`len + maxLen + 2` (recursion) `+ len + 1` (loops) of the shuffled slice -/
theorem Quick3WayString_le (g : Go.Rand) (a : Array Go.Str) (F : Nat)
    (hF : ∀ a1, C07.shuffle (choiceOf g a.size) a = .ok a1 → a1.size + maxLen a1 + 2 + (a1.size + 1) ≤ F) :
    q3String (choiceOf g a.size) a ≼ (Radix.Quick3WayString F a g).map Prod.fst := by
  simp only [q3String, Radix.Quick3WayString, Outcome.bind_assoc, Outcome.pure_eq, Outcome.ok_bind, Outcome.map_bind]
  refine le_bind_of_map (gshuffle_le g a) fun c hx _ => ?_
  obtain ⟨a1, g1⟩ := c
  have hF1 := hF a1 hx
  have := quick3WayString_le (a1.size + maxLen a1 + 2) (F - (a1.size + maxLen a1 + 2 + (a1.size + 1))) a1 0
    ((a1.size : Int) - 1) 0
  rw [show a1.size + maxLen a1 + 2 + (a1.size + 1) + (F - (a1.size + maxLen a1 + 2 + (a1.size + 1))) = F by omega] at this
  simp only [q3StringAt]
  refine this.trans_eq ?_
  generalize Radix.quick3WayString F a1 0 ((a1.size : Int) - 1) 0 = X
  cases X <;> rfl

/-! ## `maxLen` is invariant under permutation (the recursion fuel of `Quick3WayString` after its shuffle) -/

theorem foldl_max_le (l : List (List UInt8)) (m M : Nat) (hm : m ≤ M) (h : ∀ s ∈ l, s.length ≤ M) :
    l.foldl (fun m s => max m s.length) m ≤ M := by
  induction l generalizing m with
  | nil => simpa using hm
  | cons x xs ih =>
    simp only [List.foldl_cons]
    exact ih _ (Nat.max_le.2 ⟨hm, h x (by simp)⟩) (fun s hs => h s (by simp [hs]))

theorem maxLen_le_of_forall (a : Array (List UInt8)) (M : Nat) (h : ∀ s ∈ a.toList, s.length ≤ M) : maxLen a ≤ M := by
  unfold maxLen
  rw [← Array.foldl_toList]
  exact foldl_max_le a.toList 0 M (Nat.zero_le _) h

theorem foldl_max_ge' (l : List (List UInt8)) (m : Nat) :
    m ≤ l.foldl (fun m s => max m s.length) m ∧ ∀ s ∈ l, s.length ≤ l.foldl (fun m s => max m s.length) m := by
  induction l generalizing m with
  | nil => simp
  | cons x xs ih =>
    simp only [List.foldl_cons]
    obtain ⟨h1, h2⟩ := ih (max m x.length)
    refine ⟨Nat.le_trans (Nat.le_max_left _ _) h1, fun s hs => ?_⟩
    rcases List.mem_cons.1 hs with rfl | hs
    · exact Nat.le_trans (Nat.le_max_right _ _) h1
    · exact h2 s hs

theorem maxLen_perm {a1 a : Array (List UInt8)} (h : a1.toList.Perm a.toList) : maxLen a1 ≤ maxLen a := by
  apply maxLen_le_of_forall
  intro s hs
  have hs' : s ∈ a.toList := h.mem_iff.1 hs
  unfold maxLen
  rw [← Array.foldl_toList]
  exact (foldl_max_ge' a.toList 0).2 s hs'

end AlgoVerif.C07.RGen
