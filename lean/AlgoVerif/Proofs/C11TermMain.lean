import AlgoVerif.Proofs.C11TermValid
import AlgoVerif.Proofs.C11TermSeq
/-!
# C11 — termination of the driver, part 3: no infinite run on a complete, conflict-free table

`TermHyp`: what the argument uses about a table and its item sets — the completeness and soundness conditions of the two
validators (`CompleteTable`, `SoundTable`), the top-down structure of the item sets (`TD`: every item is a kernel item or
was added by the CLOSURE rule for an item of the same state — neither validator asks for that, the built tables have
it), items are dotted productions of the grammar with productive bodies, and finitely many states carry items.

`terminates`: under `TermHyp` the driver halts on every input.  An infinite run would, from some point on, consist of
reductions only; `stack_seq` finds two times with (A) the same stack below the top and the same non-terminal on top, or
(B) a stack that has grown by frames with empty yields over a state that is on top again.  The stack of an actual run
carries a witnessed valid item (`wv_cover`), so `no_two_trees` resp. `no_eps_growth` apply.
-/
namespace AlgoVerif.C11.Term
open AlgoVerif AlgoVerif.Gram AlgoVerif.C11 AlgoVerif.C11.Spec AlgoVerif.C11.Complete AlgoVerif.C11.Sound

/-- every item of state `s` is a kernel item or comes from one by the CLOSURE rule -/
inductive TD (items : Int → List Item) (start' : String) (s : Int) : Item → Prop where
  | kernel {it : Item} : it ∈ items s → (0 < it.dot ∨ it.prod.head = start') → TD items start' s it
  | clo {it' it : Item} : TD items start' s it' → it'.dotSym = some (Sym.nonterm it.prod.head) → it ∈ items s →
      it.dot = 0 → TD items start' s it

theorem TD.kernel_exists {items : Int → List Item} {start' : String} {s : Int} {it : Item} (h : TD items start' s it) :
    ∃ k, k ∈ items s ∧ (0 < k.dot ∨ k.prod.head = start') := by
  induction h with
  | kernel h1 h2 => exact ⟨_, h1, h2⟩
  | clo _ _ _ _ ih => exact ih

theorem TD.mem {items : Int → List Item} {start' : String} {s : Int} {it : Item} (h : TD items start' s it) :
    it ∈ items s := by
  cases h with
  | kernel h _ => exact h
  | clo _ _ h _ => exact h

structure TermHyp (g : SGrammar) (start' : String) (nl : List String) (fe : Env) (items : Int → List Item)
    (T : Tbl) : Prop where
  complete : CompleteTable g start' nl fe items T
  sound : SoundTable g start' items T
  topDown : ∀ s it, it ∈ items s → TD items start' s it
  prods : ∀ s it, it ∈ items s → it.prod ∈ g.prods ∨ it.prod = { head := start', body := [Sym.nonterm g.start] }
  forest : ∀ s it, it ∈ items s → ∀ n, ∃ ks, derivesL g ks (it.prod.body.drop n)
  bound : ∃ N : Nat, ∀ s, items s ≠ [] → ∃ n : Nat, s = (n : Int) ∧ n < N

/-! ## frames of an actual run -/

/-- the frames are table transitions and carry derivation trees -/
def FrOK (g : SGrammar) (T : Tbl) : List TFrame → Prop
  | [] => True
  | f :: rest => Target T (topF rest) f.sym f.state ∧ derivesT g f.tree f.sym ∧ FrOK g T rest

theorem frOK_drop {g : SGrammar} {T : Tbl} : ∀ (fr : List TFrame) (n : Nat), FrOK g T fr → FrOK g T (fr.drop n)
  | [], n, _ => by simp [FrOK]
  | _ :: _, 0, h => by simpa using h
  | _ :: rest, n + 1, h => by simpa using frOK_drop rest n h.2.2

theorem frOK_trees {g : SGrammar} {T : Tbl} : ∀ (fr : List TFrame), FrOK g T fr → ∀ f ∈ fr, derivesT g f.tree f.sym
  | [], _, f, hf => by simp at hf
  | f0 :: rest, h, f, hf => by
    rcases List.mem_cons.mp hf with rfl | h'
    · exact h.2.1
    · exact frOK_trees rest h.2.2 f h'

def framesOf (fr : List TFrame) : List Frame := fr.map fun f => (f.state, f.sym)

theorem topOf_framesOf (fr : List TFrame) : topOf (framesOf fr) = topF fr := by
  cases fr <;> simp [framesOf, topOf, topF]

/-- the forest of the frames derives their symbols -/
theorem derivesL_frames {g : SGrammar} : ∀ (fr : List TFrame), (∀ f ∈ fr, derivesT g f.tree f.sym) →
    derivesL g (treesF fr).reverse (symsOf (framesOf fr))
  | [], _ => by simp [treesF, symsOf, framesOf, derivesL]
  | f :: rest, h => by
    have ih := derivesL_frames rest (fun f' hf' => h f' (List.mem_cons_of_mem _ hf'))
    simp only [treesF, List.map_cons, List.reverse_cons, symsOf, framesOf, List.map_append, List.map_nil]
    apply derivesL_append
    · simpa [treesF, symsOf, framesOf] using ih
    · simp only [derivesL]
      exact ⟨f.sym, [], rfl, h f (by simp), rfl⟩

section
variable {g : SGrammar} {start' : String} {nl : List String} {fe : Env} {items : Int → List Item} {T : Tbl}
  (H : TermHyp g start' nl fe items T)
include H

theorem target_justified {s : Int} {X : Sy} {s' : Int} (h : Target T s X s') :
    s' ≠ 0 ∧ ∀ it ∈ items s', Justified (items s) X it := by
  cases X with
  | term a =>
    have := H.sound.shiftOK s a s' h
    exact ⟨this.2.1, this.2.2⟩
  | nonterm A => exact H.sound.gotoOK s A s' h

theorem chain_of_frOK : ∀ (fr : List TFrame), FrOK g T fr → Chain items (framesOf fr)
  | [], _ => by simp [framesOf, Chain]
  | f :: rest, h => by
    obtain ⟨h1, h2⟩ := target_justified H h.1
    simp only [framesOf, List.map_cons, Chain]
    refine ⟨h1, ?_, chain_of_frOK rest h.2.2⟩
    have := topOf_framesOf rest
    simp only [framesOf] at this
    rw [this]
    exact h2

theorem topF_eq_zero {fr : List TFrame} (hfr : FrOK g T fr) (h0 : topF fr = 0) : fr = [] := by
  cases fr with
  | nil => rfl
  | cons f rest =>
    exfalso
    exact (target_justified H hfr.1).1 h0

/-- every item of the state on top of the frames of a run is, up to its lookahead, witnessed valid -/
theorem wv_cover : ∀ (fr : List TFrame), FrOK g T fr → ∀ it, TD items start' (topF fr) it →
    ∃ l z, WV g start' T fr { it with la := some l } z := by
  intro fr
  induction fr with
  | nil =>
    intro _ it htd
    induction htd with
    | @kernel it hit hk =>
      have hd0 : it.dot = 0 := H.sound.init0 it (by simpa [topF] using hit)
      have hhead : it.prod.head = start' := by
        rcases hk with h | h
        · omega
        · exact h
      have hprod : it.prod = { head := start', body := [Sym.nonterm g.start] } := by
        rcases H.prods _ it hit with h | h
        · exact absurd hhead (H.complete.fresh _ h)
        · exact h
      refine ⟨endmarker, [], ?_⟩
      have : ({ it with la := some endmarker } : Item) =
          { prod := { head := start', body := [Sym.nonterm g.start] }, dot := 0, la := some endmarker } := by
        cases it; simp_all
      rw [this]
      exact WV.init
    | @clo it' it _ hd hit hdot ih =>
      obtain ⟨l', z', hwv⟩ := ih
      rcases H.prods _ it hit with hp | hp
      · obtain ⟨kβ, hkβ⟩ := H.forest _ it' (TD.mem ‹_›) (it'.dot + 1)
        have := WV.clo (g := g) (start' := start') (T := T) (B := it.prod.head) (p := it.prod) (kβ := kβ) hwv
          (by simpa [Item.dotSym] using hd) hp rfl (by simpa [restOf, Item.next] using hkβ)
        refine ⟨look (Tree.yieldL kβ ++ z'), Tree.yieldL kβ ++ z', ?_⟩
        have e : ({ it with la := some (look (Tree.yieldL kβ ++ z')) } : Item) =
            { prod := it.prod, dot := 0, la := some (look (Tree.yieldL kβ ++ z')) } := by
          cases it; simp_all
        rw [e]
        exact this
      · -- the item of S′ with the dot at the left end: the initial item
        refine ⟨endmarker, [], ?_⟩
        have : ({ it with la := some endmarker } : Item) =
            { prod := { head := start', body := [Sym.nonterm g.start] }, dot := 0, la := some endmarker } := by
          cases it; simp_all
        rw [this]
        exact WV.init
  | cons f rest ihfr =>
    intro hfr it htd
    induction htd with
    | @kernel it hit hk =>
      have hjust := (target_justified H hfr.1).2 it (by simpa [topF] using hit)
      have hdpos : 0 < it.dot := by
        rcases hk with h | h
        · exact h
        · apply Nat.pos_of_ne_zero
          intro h0
          have := H.sound.initOnly _ it hit h h0
          exact (target_justified H hfr.1).1 (by simpa [topF] using this)
      rcases hjust with h0 | ⟨hX, j, hj, hjp, hjd⟩
      · omega
      · obtain ⟨l, z, hwv⟩ := ihfr hfr.2.2 j (H.topDown _ j hj)
        have hjdot : ({ j with la := some l } : Item).dotSym = some f.sym := by
          unfold Item.dotSym
          simp only
          rw [hjp, show j.dot = it.dot - 1 by omega]
          exact hX
        have := WV.adv (g := g) (start' := start') (T := T) (f := f) hwv hjdot hfr.2.1 hfr.1
        refine ⟨l, z, ?_⟩
        have e : ({ it with la := some l } : Item) = ({ j with la := some l } : Item).next := by
          cases it; cases j; simp_all [Item.next]
        rw [e]; exact this
    | @clo it' it htd' hd hit hdot ih =>
      obtain ⟨l', z', hwv⟩ := ih
      rcases H.prods _ it hit with hp | hp
      · obtain ⟨kβ, hkβ⟩ := H.forest _ it' (TD.mem htd') (it'.dot + 1)
        have := WV.clo (g := g) (start' := start') (T := T) (B := it.prod.head) (p := it.prod) (kβ := kβ) hwv
          (by simpa [Item.dotSym] using hd) hp rfl (by simpa [restOf, Item.next] using hkβ)
        refine ⟨look (Tree.yieldL kβ ++ z'), Tree.yieldL kβ ++ z', ?_⟩
        have e : ({ it with la := some (look (Tree.yieldL kβ ++ z')) } : Item) =
            { prod := it.prod, dot := 0, la := some (look (Tree.yieldL kβ ++ z')) } := by
          cases it; simp_all
        rw [e]
        exact this
      · exfalso
        have hhead : it.prod.head = start' := by rw [hp]
        have := H.sound.initOnly _ it hit hhead hdot
        exact (target_justified H hfr.1).1 (by simpa [topF] using this)

/-! ## the ghost frames of a run -/

/-- the frames after one more turn of the loop -/
def gnext (T : Tbl) (st : PState) (fr : List TFrame) : List TFrame :=
  match T.cell (peekState st.stack) st.tok with
  | [Action.shift t] => ⟨t, Sym.term st.tok, Tree.leaf st.tok⟩ :: fr
  | [Action.reduce p] =>
    ⟨(T.goto (peekState (st.stack.drop p.body.length)) p.head).getD (-1), Sym.nonterm p.head,
      Tree.node p (popKids p.body.length st.nodes)⟩ :: fr.drop p.body.length
  | _ => fr

/-- the invariant that ties the frames to the configuration -/
structure Inv2 (g : SGrammar) (T : Tbl) (w : List String) (st : PState) (fr : List TFrame) : Prop where
  stack : st.stack = statesF fr ++ [0]
  nodes : st.nodes = treesF fr
  ok : FrOK g T fr
  yield : yieldF fr ++ st.input = w
  noEnd : endmarker ∉ st.input

theorem peek_inv {w : List String} {st : PState} {fr : List TFrame} (hI : Inv2 g T w st fr) :
    peekState st.stack = topF fr := by
  rw [hI.stack]
  cases fr <;> simp [statesF, peekState, topF]

omit H in
theorem treeSizeL_append : ∀ (a b : List Tree), treeSizeL (a ++ b) = treeSizeL a + treeSizeL b
  | [], b => by simp [treeSizeL]
  | t :: a, b => by simp [treeSizeL, treeSizeL_append a b]; omega

omit H in
theorem treeSizeL_reverse : ∀ (a : List Tree), treeSizeL a.reverse = treeSizeL a
  | [] => rfl
  | t :: a => by simp [treeSizeL_append, treeSizeL, treeSizeL_reverse a]; omega

/-- one turn of the loop: the invariant, the shape of the new frames, and the size of the trees -/
theorem step_inv2 {w : List String} {st st' : PState} {fr : List TFrame} (hI : Inv2 g T w st fr)
    (hs : pstep T st = .inl st') :
    Inv2 g T w st' (gnext T st fr) ∧
    treeSizeL (treesF (gnext T st fr)) = treeSizeL (treesF fr) + 1 ∧
    ((st'.input.length < st.input.length) ∨
     (st'.input = st.input ∧ ∃ (f : TFrame) (m : Nat) (p : Pr), gnext T st fr = f :: fr.drop m ∧
        f.sym = Sym.nonterm p.head ∧ p ∈ g.prods ∧ items (topF fr) ≠ [])) := by
  have hpeek := peek_inv H hI
  rcases pstep_inl hs with ⟨t, hc, rfl⟩ | ⟨p, hc, rfl⟩
  · -- shift
    have hsh : Action.shift t ∈ T.cell (topF fr) st.tok := by rw [← hpeek, hc]; simp
    have hne := (H.sound.shiftOK _ _ _ hsh).1
    obtain ⟨a, rest, hin⟩ : ∃ a rest, st.input = a :: rest := by
      cases hinp : st.input with
      | nil => exfalso; apply hne; simp [PState.tok, hinp]
      | cons a rest => exact ⟨a, rest, rfl⟩
    have htok : st.tok = a := by simp [PState.tok, hin]
    have hg : gnext T st fr = ⟨t, Sym.term st.tok, Tree.leaf st.tok⟩ :: fr := by
      unfold gnext; rw [hc]
    rw [hg]
    refine ⟨⟨?_, ?_, ?_, ?_, ?_⟩, ?_, Or.inl ?_⟩
    · simp [statesF, hI.stack]
    · simp [treesF, hI.nodes]
    · exact ⟨hsh, by simp [derivesT], hI.ok⟩
    · rw [yieldF_cons, ← hI.yield, hin, htok]; simp [Tree.yield]
    · have := hI.noEnd
      rw [hin] at this ⊢
      simp only [List.tail_cons]
      intro hmem; exact this (List.mem_cons_of_mem _ hmem)
    · simp [treesF, treeSizeL, treeSize]; omega
    · simp [hin]
  · -- reduce
    have hrd : Action.reduce p ∈ T.cell (topF fr) st.tok := by rw [← hpeek, hc]; simp
    obtain ⟨hp, j, hj, hjp, hjd⟩ := H.sound.reduceOK _ _ _ hrd
    have hch := chain_of_frOK H fr hI.ok
    obtain ⟨hle, hsy, j0, hj0, hj0p, hj0d⟩ :=
      lr_stack_invariant H.sound p.body.length (framesOf fr) j hch (by rw [topOf_framesOf]; exact hj) hjd
    have hlen : p.body.length ≤ fr.length := by simpa [framesOf] using hle
    -- the popped trees derive the body
    have hkids : popKids p.body.length st.nodes = (treesF (fr.take p.body.length)).reverse := by
      unfold popKids
      rw [hI.nodes]
      have : p.body.length - (treesF fr).length = 0 := by simp [treesF]; omega
      rw [this]
      simp [treesF, List.map_take]
    have hsyms : symsOf (framesOf (fr.take p.body.length)) = p.body := by
      have := hsy
      rw [hjp, List.take_length] at this
      simpa [framesOf, List.map_take] using this
    have hdl : derivesL g (popKids p.body.length st.nodes) p.body := by
      have := derivesL_frames (g := g) (fr.take p.body.length) (fun f hf =>
        frOK_trees fr hI.ok f (List.mem_of_mem_take hf))
      rw [hsyms] at this
      rw [hkids]; exact this
    -- the exposed state and the goto entry
    have hdropstk : st.stack.drop p.body.length = statesF (fr.drop p.body.length) ++ [0] := by
      rw [hI.stack, List.drop_append_of_le_length (by simp [statesF]; exact hlen)]
      simp [statesF, List.map_drop]
    have hexp : peekState (st.stack.drop p.body.length) = topF (fr.drop p.body.length) := by
      rw [hdropstk]
      cases fr.drop p.body.length <;> simp [statesF, peekState, topF]
    have hj0' : j0 ∈ items (topF (fr.drop p.body.length)) := by
      have := hj0
      rw [show List.drop p.body.length (framesOf fr) = framesOf (fr.drop p.body.length) by
        simp [framesOf, List.map_drop], topOf_framesOf] at this
      exact this
    have hj0p' : j0.prod = p := hj0p.trans hjp
    have hgoto : ∃ s', T.goto (topF (fr.drop p.body.length)) p.head = some s' := by
      have htd := H.topDown _ j0 hj0'
      cases htd with
      | kernel _ hk =>
        rcases hk with h | h
        · omega
        · rw [hj0p'] at h; exact absurd h (H.complete.fresh p hp)
      | @clo it' _ htd' hd' _ _ =>
        rw [hj0p'] at hd'
        obtain ⟨s', hgo, _⟩ := H.complete.advN _ it' p.head (TD.mem htd') hd'
        exact ⟨s', hgo⟩
    obtain ⟨s', hgo⟩ := hgoto
    have hg : gnext T st fr = ⟨s', Sym.nonterm p.head, Tree.node p (popKids p.body.length st.nodes)⟩ ::
        fr.drop p.body.length := by
      unfold gnext; rw [hc]; simp only [hexp, hgo, Option.getD_some]
    rw [hg]
    refine ⟨⟨?_, ?_, ?_, ?_, hI.noEnd⟩, ?_, Or.inr ⟨rfl, _, _, p, rfl, rfl, hp, ?_⟩⟩
    · show ((T.goto (peekState (st.stack.drop p.body.length)) p.head).getD (-1)) :: st.stack.drop p.body.length = _
      rw [hexp, hgo, hdropstk]
      simp [statesF]
    · show Tree.node p (popKids p.body.length st.nodes) :: st.nodes.drop p.body.length = _
      rw [hI.nodes]
      simp [treesF, List.map_drop]
    · refine ⟨hgo, ?_, frOK_drop fr _ hI.ok⟩
      simp only [derivesT]
      exact ⟨trivial, hp, hdl⟩
    · rw [yieldF_cons, ← hI.yield]
      simp only [Tree.yield, hkids]
      have : yieldF fr = yieldF (fr.drop p.body.length) ++ yieldF (fr.take p.body.length) := by
        conv => lhs; rw [← List.take_append_drop p.body.length fr]
        exact yieldF_append _ _
      rw [this]
      simp [yieldF]
    · have e1 : treeSizeL (treesF fr) =
          treeSizeL (treesF (fr.take p.body.length)) + treeSizeL (treesF (fr.drop p.body.length)) := by
        conv => lhs; rw [← List.take_append_drop p.body.length fr]
        simp only [treesF, List.map_append, treeSizeL_append]
      show treeSizeL (Tree.node p (popKids p.body.length st.nodes) :: treesF (fr.drop p.body.length)) = _
      rw [hkids]
      simp only [treeSizeL, treeSize, treeSizeL_reverse]
      omega
    · intro he; rw [he] at hj; simp at hj

/-- the run with its ghost frames -/
def G (T : Tbl) (w : List String) : Nat → PState × List TFrame
  | 0 => (pinit w, [])
  | n + 1 =>
    match pstep T (G T w n).1 with
    | .inl st' => (st', gnext T (G T w n).1 (G T w n).2)
    | .inr _ => G T w n

omit H in
theorem iter_succ_inv {T : Tbl} : ∀ (n : Nat) (a c : PState), iter T (n + 1) a = some c →
    ∃ b, iter T n a = some b ∧ pstep T b = .inl c
  | 0, a, c, h => by
    unfold iter at h
    cases hs : pstep T a with
    | inl a' => rw [hs] at h; simp [iter] at h; subst h; exact ⟨a, rfl, hs⟩
    | inr r => rw [hs] at h; simp at h
  | n + 1, a, c, h => by
    unfold iter at h
    cases hs : pstep T a with
    | inl a' =>
      rw [hs] at h
      simp only at h
      obtain ⟨b, hb, hbc⟩ := iter_succ_inv n a' c h
      refine ⟨b, ?_, hbc⟩
      unfold iter; rw [hs]; exact hb
    | inr r => rw [hs] at h; simp at h

omit H in
theorem G_iter {w : List String} (hinf : ∀ n, ∃ st, iter T n (pinit w) = some st) :
    ∀ n, iter T n (pinit w) = some (G T w n).1 ∧ pstep T (G T w n).1 = .inl (G T w (n + 1)).1 := by
  have h1 : ∀ n, iter T n (pinit w) = some (G T w n).1 := by
    intro n
    induction n with
    | zero => simp [iter, G]
    | succ n ih =>
      obtain ⟨c, hc⟩ := hinf (n + 1)
      obtain ⟨b, hb, hbc⟩ := iter_succ_inv n _ c hc
      rw [ih] at hb
      have hb' : (G T w n).1 = b := Option.some.inj hb
      rw [hc]
      simp only [G, hb', hbc]
  intro n
  refine ⟨h1 n, ?_⟩
  have := h1 (n + 1)
  obtain ⟨b, hb, hbc⟩ := iter_succ_inv n _ _ this
  rw [h1 n] at hb
  rw [Option.some.inj hb]; exact hbc

theorem G_inv {w : List String} (hw : endmarker ∉ w) (hinf : ∀ n, ∃ st, iter T n (pinit w) = some st) :
    ∀ n, Inv2 g T w (G T w n).1 (G T w n).2 ∧ treeSizeL (treesF (G T w n).2) = n := by
  intro n
  induction n with
  | zero =>
    refine ⟨⟨by simp [G, pinit, statesF], by simp [G, pinit, treesF], by simp [G, FrOK],
      by simp [G, pinit, yieldF, treesF, Tree.yieldL], by simpa [G, pinit] using hw⟩, by simp [G, treesF, treeSizeL]⟩
  | succ n ih =>
    have hs := (G_iter hinf n).2
    have hG : G T w (n + 1) = ((G T w (n + 1)).1, gnext T (G T w n).1 (G T w n).2) := by
      have : pstep T (G T w n).1 = .inl (G T w (n + 1)).1 := hs
      conv => lhs; unfold G
      generalize hq : pstep T (G T w n).1 = q at this ⊢
      cases q with
      | inl st' =>
        simp only [Sum.inl.injEq] at this
        simp only [this]
      | inr r => cases this
    obtain ⟨h1, h2, _⟩ := step_inv2 H ih.1 hs
    rw [hG]
    exact ⟨h1, by rw [h2, ih.2]⟩

/-- no infinite run -/
theorem no_infinite_run {w : List String} (hw : endmarker ∉ w) :
    ¬ ∀ n, ∃ st, iter T n (pinit w) = some st := by
  intro hinf
  have hiter := G_iter hinf
  have hinv := G_inv H hw hinf
  -- from some time on the input is constant
  have hmono : ∀ n, (G T w (n + 1)).1.input.length ≤ (G T w n).1.input.length := by
    intro n
    rcases pstep_inl (hiter n).2 with ⟨t, _, he⟩ | ⟨p, _, he⟩ <;> rw [he] <;> simp
  obtain ⟨t0, _, hmin⟩ := low_exists (fun n => (G T w n).1.input.length) _ 0 (Nat.le_refl _)
  have hconst : ∀ n, t0 ≤ n → (G T w n).1.input.length = (G T w t0).1.input.length := by
    intro n hn
    induction n with
    | zero => have : t0 = 0 := by omega
              subst this; rfl
    | succ n ih =>
      rcases Nat.lt_or_ge n t0 with h | h
      · have : t0 = n + 1 := by omega
        subst this; rfl
      · have h1 := ih h
        have h2 := hmono n
        have h3 := hmin (n + 1) (by omega)
        omega
  -- the frames after t0 + 1: every step pops and pushes
  let F : Nat → List TFrame := fun n => (G T w (t0 + 1 + n)).2
  have hstepAll : ∀ n, t0 ≤ n → (G T w (n + 1)).1.input = (G T w n).1.input ∧
      ∃ (f : TFrame) (m : Nat) (p : Pr), (G T w (n + 1)).2 = f :: (G T w n).2.drop m ∧
        f.sym = Sym.nonterm p.head ∧ p ∈ g.prods ∧ items (topF (G T w n).2) ≠ [] := by
    intro n hn
    have hs := (hiter n).2
    have hG : (G T w (n + 1)).2 = gnext T (G T w n).1 (G T w n).2 := by
      conv => lhs; unfold G
      generalize hq : pstep T (G T w n).1 = q at hs ⊢
      cases q with
      | inl st' => rfl
      | inr r => cases hs
    obtain ⟨_, _, h3⟩ := step_inv2 H (hinv n).1 hs
    rcases h3 with hlt | ⟨hin, f, m, p, hg, hf, hp, hne⟩
    · have h1 := hconst n hn
      have h2 := hconst (n + 1) (by omega)
      omega
    · exact ⟨hin, f, m, p, by rw [hG]; exact hg, hf, hp, hne⟩
  have hstepF : ∀ n, ∃ x m, F (n + 1) = x :: (F n).drop m := by
    intro n
    obtain ⟨_, f, m, _, hg, _⟩ := hstepAll (t0 + 1 + n) (by omega)
    exact ⟨f, m, by simpa [F, Nat.add_assoc] using hg⟩
  have hinputF : ∀ n, (G T w (t0 + 1 + n)).1.input = (G T w (t0 + 1)).1.input := by
    intro n
    induction n with
    | zero => rfl
    | succ n ih =>
      rw [← ih, ← Nat.add_assoc]
      exact (hstepAll (t0 + 1 + n) (by omega)).1
  -- keys
  obtain ⟨N, hN⟩ := H.bound
  have hheadF : ∀ n x r, F n = x :: r → (∃ p ∈ g.prods, x.sym = Sym.nonterm p.head) ∧ items x.state ≠ [] := by
    intro n x r hF
    -- the head was pushed by the reduction at time t0 + n; at time t0 + 1 + n the loop goes on with a reduction
    obtain ⟨_, f, m, p, hg, hf, hp, _⟩ := hstepAll (t0 + n) (by omega)
    obtain ⟨_, _, _, _, _, _, _, hne⟩ := hstepAll (t0 + 1 + n) (by omega)
    have hFe : F n = (G T w (t0 + n + 1)).2 := by simp [F]; congr 2; omega
    rw [hFe, hg] at hF
    simp only [List.cons.injEq] at hF
    refine ⟨⟨p, hp, by rw [← hF.1]; exact hf⟩, ?_⟩
    have : topF (G T w (t0 + 1 + n)).2 = x.state := by
      have : (G T w (t0 + 1 + n)).2 = f :: List.drop m (G T w (t0 + n)).2 := by
        rw [← hg]; congr 2
      rw [this, hF.1]; rfl
    rw [← this]; exact hne
  have hK : ∀ n x r, F n = x :: r → x.state ∈ (List.range N).map Int.ofNat := by
    intro n x r hF
    obtain ⟨k, hk, hlt⟩ := hN _ (hheadF n x r hF).2
    rw [hk]
    exact List.mem_map.mpr ⟨k, List.mem_range.mpr hlt, rfl⟩
  have hK2 : ∀ n x r, F n = x :: r → x.sym ∈ g.prods.map (fun p => Sym.nonterm p.head) := by
    intro n x r hF
    obtain ⟨⟨p, hp, hx⟩, _⟩ := hheadF n x r hF
    rw [hx]
    exact List.mem_map.mpr ⟨p, hp, rfl⟩
  -- yields and sizes at two times
  have hyieldF : ∀ n, yieldF (F n) ++ (G T w (t0 + 1)).1.input = w := by
    intro n
    have := (hinv (t0 + 1 + n)).1.yield
    rw [hinputF n] at this
    exact this
  have hsizeF : ∀ n, treeSizeL (treesF (F n)) = t0 + 1 + n := fun n => (hinv (t0 + 1 + n)).2
  have hokF : ∀ n, FrOK g T (F n) := fun n => (hinv (t0 + 1 + n)).1.ok
  rcases stack_seq F hstepF (fun f => f.state) _ (fun f => f.sym) _ hK hK2 with
    ⟨p, q, hpq, x, y, rest, hFp, hFq, hxy⟩ | ⟨p, q, hpq, x, y, π, r, hFp, hFq, hxy⟩
  · -- (A) the same stack below, the same non-terminal on top: two trees
    obtain ⟨⟨pr, hpr, hxsym⟩, hxne⟩ := hheadF p x rest hFp
    have hokp := hokF p
    rw [hFp] at hokp
    have hokq := hokF q
    rw [hFq] at hokq
    -- a kernel item of the state of x, and its predecessor below
    obtain ⟨it0, hit0⟩ := List.exists_mem_of_ne_nil _ hxne
    obtain ⟨k, hk, hkk⟩ := (H.topDown _ it0 hit0).kernel_exists
    have hjust := (target_justified H hokp.1).2 k hk
    have hdpos : 0 < k.dot := by
      rcases hkk with h | h
      · exact h
      · apply Nat.pos_of_ne_zero
        intro h0
        exact (target_justified H hokp.1).1 (H.sound.initOnly _ k hk h h0)
    rcases hjust with h0 | ⟨hX, j, hj, hjp, hjd⟩
    · omega
    · obtain ⟨l, z, hwv⟩ := wv_cover H rest hokp.2.2 j (H.topDown _ j hj)
      have hjdot : ({ j with la := some l } : Item).dotSym = some (Sym.nonterm pr.head) := by
        unfold Item.dotSym
        simp only
        rw [hjp, show j.dot = k.dot - 1 by omega, hX, hxsym]
      obtain ⟨ks, hks⟩ := H.forest _ j hj (j.dot + 1)
      have hy : x.tree.yield = y.tree.yield := by
        have h1 := hyieldF p
        have h2 := hyieldF q
        rw [hFp, yieldF_cons] at h1
        rw [hFq, yieldF_cons] at h2
        have e := h1.trans h2.symm
        rw [List.append_assoc, List.append_assoc] at e
        exact List.append_cancel_right (List.append_cancel_left e)
      have hne : x.tree ≠ y.tree := by
        intro he
        have h1 := hsizeF p
        have h2 := hsizeF q
        rw [hFp] at h1
        rw [hFq] at h2
        simp only [treesF, List.map_cons, treeSizeL] at h1 h2
        rw [he] at h1
        omega
      exact no_two_trees H.complete hwv hjdot (by rw [← hxsym]; exact hokp.2.1)
        (by rw [← hxsym, hxy]; exact hokq.2.1) hy hne ⟨ks, by simpa [restOf, Item.next] using hks⟩
  · -- (B) the stack has grown over F p by frames with empty yields, the same state on top
    obtain ⟨_, hyne⟩ := hheadF q y (π ++ F p) (by rw [hFq]; rfl)
    obtain ⟨it0, hit0⟩ := List.exists_mem_of_ne_nil _ hyne
    have hokq := hokF q
    obtain ⟨l, z, hwv⟩ := wv_cover H (F q) hokq it0 (by rw [hFq]; exact H.topDown _ it0 hit0)
    rw [hFq] at hwv
    have htop : topF ((y :: π) ++ F p) = topF (F p) := by
      rw [hFp]; simp [topF, hxy]
    have hyπ : yieldF (y :: π) = [] := by
      have h1 := hyieldF p
      have h2 := hyieldF q
      rw [hFq, yieldF_append] at h2
      have e := h2.trans h1.symm
      have e' : yieldF (F p) ++ (yieldF (y :: π) ++ (G T w (t0 + 1)).1.input) =
          yieldF (F p) ++ ([] ++ (G T w (t0 + 1)).1.input) := by simpa [List.append_assoc] using e
      exact List.append_cancel_right (List.append_cancel_left e')
    have heps : ∀ f ∈ (y :: π), f.tree.yield = [] := by
      suffices aux : ∀ l : List TFrame, yieldF l = [] → ∀ f ∈ l, f.tree.yield = [] from aux _ hyπ
      intro l
      induction l with
      | nil => intro _ f hf; simp at hf
      | cons f0 l ih =>
        intro hl f hf
        rw [yieldF_cons] at hl
        simp only [List.append_eq_nil_iff] at hl
        rcases List.mem_cons.mp hf with rfl | h'
        · exact hl.2
        · exact ih hl.1 f h'
    obtain ⟨ks, hks⟩ := H.forest _ it0 hit0 it0.dot
    exact no_eps_growth H.complete hwv (by simp) htop heps ⟨ks, by simpa [restOf] using hks⟩

omit H in
theorem halts_of_iter_none {T : Tbl} : ∀ (n : Nat) (a : PState), iter T n a = none → Halts T a
  | 0, a, h => by simp [iter] at h
  | n + 1, a, h => by
    unfold iter at h
    cases hs : pstep T a with
    | inl a' =>
      rw [hs] at h
      simp only at h
      obtain ⟨k, r, hk⟩ := halts_of_iter_none n a' h
      exact ⟨k + 1, r, by unfold prun; rw [hs]; exact hk⟩
    | inr r => exact ⟨1, r, by unfold prun; rw [hs]⟩

/-- the driver halts on every input -/
theorem terminates (w : List String) (hw : endmarker ∉ w) : ∃ fuel r, parse T fuel w = Outcome.ok r := by
  have := no_infinite_run H hw
  have hex : ∃ n, iter T n (pinit w) = none := by
    apply Classical.byContradiction
    intro hne
    apply this
    intro n
    cases hi : iter T n (pinit w) with
    | none => exact absurd ⟨n, hi⟩ hne
    | some st => exact ⟨st, rfl⟩
  obtain ⟨n, hn⟩ := hex
  exact halts_of_iter_none n _ hn

end

end AlgoVerif.C11.Term
