import AlgoVerif.Proofs.C13DFA
/-! C13: the state manager (`GetOrCreateState`) and the transition-copying loop of Star/Union/CombineDFA. -/
namespace AlgoVerif.C13
open AlgoVerif AlgoVerif.C13.Spec

/-- bindings are kept, `last` only grows -/
structure SM.Le (m m' : SM) : Prop where
  keep : ∀ id s v, m.find id s = some v → m'.find id s = some v
  last : m.last ≤ m'.last
  /-- a binding of `m'` is a binding of `m` or has a value above `m.last` -/
  fresh : ∀ id s v, m'.find id s = some v → m.find id s = some v ∨ m.last < v

/-- all values are in `(lo, last]` and strictly increasing in insertion order -/
structure SM.Inv (m : SM) (lo : Int) : Prop where
  lo_le : lo ≤ m.last
  range : ∀ e ∈ m.tbl, lo < e.2 ∧ e.2 ≤ m.last
  incr : (m.tbl.map (·.2)).Pairwise (· < ·)

theorem SM.Le.refl (m : SM) : m.Le m := ⟨fun _ _ _ h => h, Int.le_refl _, fun _ _ _ h => Or.inl h⟩
theorem SM.Le.trans {a b c : SM} (h1 : a.Le b) (h2 : b.Le c) : a.Le c :=
  ⟨fun id s v h => h2.keep id s v (h1.keep id s v h), Int.le_trans h1.last h2.last,
   fun id s v h => by
     rcases h2.fresh id s v h with h' | h'
     · exact h1.fresh id s v h'
     · right; have := h1.last; omega⟩

theorem SM.Inv_new (lo : Int) : (SM.new lo).Inv lo := ⟨Int.le_refl _, by simp [SM.new], by simp [SM.new]⟩

theorem SM.find_mem {m : SM} {id : Nat} {s v : Int} (h : m.find id s = some v) : ((id, s), v) ∈ m.tbl := by
  simp only [SM.find, Option.map_eq_some_iff] at h
  obtain ⟨e, he, rfl⟩ := h
  have h1 := List.mem_of_find?_eq_some he
  have h2 := List.find?_some he
  simp at h2
  obtain ⟨⟨i, t⟩, v⟩ := e
  simp at h2; obtain ⟨rfl, rfl⟩ := h2
  exact h1

theorem pairwise_lt_inj {α : Type} (f : α → Int) (l : List α) (h : (l.map f).Pairwise (· < ·))
    {a b : α} (ha : a ∈ l) (hb : b ∈ l) (hab : f a = f b) : a = b := by
  induction l with
  | nil => simp at ha
  | cons x l ih =>
    simp only [List.map_cons, List.pairwise_cons] at h
    simp at ha hb
    rcases ha with rfl | ha <;> rcases hb with rfl | hb
    · rfl
    · have := h.1 (f b) (by simp; exact ⟨b, hb, rfl⟩); omega
    · have := h.1 (f a) (by simp; exact ⟨a, ha, rfl⟩); omega
    · exact ih h.2 ha hb

theorem SM.inj {m : SM} {lo : Int} (h : m.Inv lo) {id id' : Nat} {s s' v : Int}
    (h1 : m.find id s = some v) (h2 : m.find id' s' = some v) : id = id' ∧ s = s' := by
  have := pairwise_lt_inj (·.2) m.tbl h.incr (SM.find_mem h1) (SM.find_mem h2) rfl
  simp at this; exact this

theorem SM.find_range {m : SM} {lo : Int} (h : m.Inv lo) {id : Nat} {s v : Int}
    (h1 : m.find id s = some v) : lo < v ∧ v ≤ m.last := h.range _ (SM.find_mem h1)

theorem SM.get_of_find {m : SM} {id : Nat} {s v : Int} (h : m.find id s = some v) : m.get id s = (m, v) := by
  simp [SM.get, h]

theorem SM.get_spec (m : SM) (lo : Int) (hm : m.Inv lo) (id : Nat) (s : Int) :
    m.Le (m.get id s).1 ∧ (m.get id s).1.Inv lo ∧ (m.get id s).1.find id s = some (m.get id s).2 := by
  cases hf : m.find id s with
  | some v => rw [SM.get_of_find hf]; exact ⟨SM.Le.refl m, hm, hf⟩
  | none =>
    have hnone : List.find? (fun e => e.1 == (id, s)) m.tbl = none := by
      simpa [SM.find] using hf
    have hget : m.get id s = (⟨m.last + 1, m.tbl ++ [((id, s), m.last + 1)]⟩, m.last + 1) := by
      simp [SM.get, hf]
    rw [hget]
    refine ⟨⟨?_, ?_, ?_⟩, ⟨?_, ?_, ?_⟩, ?_⟩
    · intro id' s' v h
      simp only [SM.find, List.find?_append] at h ⊢
      cases hf' : List.find? (fun e => e.1 == (id', s')) m.tbl with
      | some e => simp [hf'] at h ⊢; exact h
      | none => simp [hf'] at h
    · show m.last ≤ m.last + 1; omega
    · intro id' s' v h
      simp only [SM.find, List.find?_append] at h ⊢
      cases hf' : List.find? (fun e => e.1 == (id', s')) m.tbl with
      | some e => left; simp [hf'] at h ⊢; exact h
      | none =>
        right
        simp only [hf', Option.none_or] at h
        by_cases hk : ((id, s) == (id', s')) = true
        · simp [List.find?, hk] at h; omega
        · simp [List.find?, hk] at h
    · show lo ≤ m.last + 1; have := hm.lo_le; omega
    · intro e he
      show lo < e.2 ∧ e.2 ≤ m.last + 1
      have he' : e ∈ m.tbl ∨ e = ((id, s), m.last + 1) := by simpa using he
      rcases he' with he' | rfl
      · have := hm.range e he'; omega
      · have := hm.lo_le; simp; omega
    · show ((m.tbl ++ [((id, s), m.last + 1)]).map (·.2)).Pairwise (· < ·)
      simp only [List.map_append, List.map_cons, List.map_nil]
      rw [List.pairwise_append]
      refine ⟨hm.incr, by simp, ?_⟩
      intro a ha b hb
      simp at hb; subst hb
      simp at ha
      obtain ⟨k1, k2, hk⟩ := ha
      have := (hm.range _ hk).2
      simp at this; omega
    · show SM.find ⟨m.last + 1, m.tbl ++ [((id, s), m.last + 1)]⟩ id s = some (m.last + 1)
      simp [SM.find, List.find?_append, hnone]

theorem SM.find_fun {m : SM} {id : Nat} {s v v' : Int} (h1 : m.find id s = some v) (h2 : m.find id s = some v') : v = v' := by
  rw [h1] at h2; injection h2

/-- `mapList` binds every listed state and returns the bound values in order -/
theorem SM.mapList_spec (m : SM) (lo : Int) (hm : m.Inv lo) (id : Nat) (ts : List Int) :
    m.Le (m.mapList id ts).1 ∧ (m.mapList id ts).1.Inv lo ∧
    (∀ t ∈ ts, ∃ y, (m.mapList id ts).1.find id t = some y) ∧
    (∀ y, y ∈ (m.mapList id ts).2 ↔ ∃ t ∈ ts, (m.mapList id ts).1.find id t = some y) := by
  simp only [SM.mapList]
  -- generalize the accumulator
  suffices h : ∀ (m0 : SM) (acc : List Int), m0.Inv lo →
      let r := ts.foldl (fun (acc : SM × List State) t => ((acc.1.get id t).1, acc.2 ++ [(acc.1.get id t).2])) (m0, acc)
      m0.Le r.1 ∧ r.1.Inv lo ∧ (∀ t ∈ ts, ∃ y, r.1.find id t = some y) ∧
      (∀ y, y ∈ r.2 ↔ y ∈ acc ∨ ∃ t ∈ ts, r.1.find id t = some y) by
    have := h m [] hm
    simpa using this
  induction ts with
  | nil => intro m0 acc h0; simp; exact ⟨SM.Le.refl _, h0⟩
  | cons t ts ih =>
    intro m0 acc h0
    simp only [List.foldl_cons]
    obtain ⟨g1, g2, g3⟩ := SM.get_spec m0 lo h0 id t
    have := ih (m0.get id t).1 (acc ++ [(m0.get id t).2]) g2
    simp only at this
    obtain ⟨k1, k2, k3, k4⟩ := this
    refine ⟨SM.Le.trans g1 k1, k2, ?_, ?_⟩
    · intro t' ht'
      simp at ht'; rcases ht' with rfl | ht'
      · exact ⟨_, k1.keep _ _ _ g3⟩
      · exact k3 t' ht'
    · intro y
      rw [k4]
      simp only [List.mem_append, List.mem_cons, List.not_mem_nil, or_false]
      constructor
      · rintro ((h | h) | ⟨t', h1, h2⟩)
        · left; exact h
        · right; exact ⟨t, Or.inl rfl, by rw [h]; exact k1.keep _ _ _ g3⟩
        · right; exact ⟨t', Or.inr h1, h2⟩
      · rintro (h | ⟨t', h1 | h1, h2⟩)
        · left; left; exact h
        · subst h1; left; right; exact SM.find_fun h2 (k1.keep _ _ _ g3)
        · right; exact ⟨t', h1, h2⟩

/-- the relation denoted by a raw two-level table (all entries, shadowed or not) -/
def tblΔ (tr : List (Int × List (Int × List Int))) (s a t : Int) : Prop :=
  ∃ st, (s, st) ∈ tr ∧ ∃ nx, (a, nx) ∈ st ∧ t ∈ nx

theorem tblΔ_iff {n : NFA} (h : n.WF) (s a t : Int) : tblΔ n.trans s a t ↔ n.Δ s a t := by
  simp only [tblΔ, NFA.Δ, NFA.next]
  constructor
  · rintro ⟨st, h1, nx, h2, h3⟩
    have e1 := (mem_iff_aget h.1 s st).1 h1
    have e2 := (mem_iff_aget (h.2 _ h1) a nx).1 h2
    exact ⟨nx, by rw [e1]; exact e2, h3⟩
  · rintro ⟨nx, h1, h3⟩
    split at h1
    · rename_i st hst; exact ⟨st, aget_mem hst, nx, aget_mem h1, h3⟩
    · simp at h1

/-- the inner loop of `copyTrans` for one source state, already mapped to `ss` -/
def copyInner (id : Nat) (ss : Int) (es : List (Int × List Int)) (m : SM) (dst : NFA) : SM × NFA :=
  es.foldl (fun (acc : SM × NFA) e =>
    ((acc.1.mapList id e.2).1, acc.2.add ss e.1 (acc.1.mapList id e.2).2)) (m, dst)

theorem copyInner_spec (id : Nat) (ss : Int) (es : List (Int × List Int)) (m : SM) (dst : NFA) (lo : Int)
    (hm : m.Inv lo) :
    m.Le (copyInner id ss es m dst).1 ∧ (copyInner id ss es m dst).1.Inv lo ∧
    (copyInner id ss es m dst).2.start = dst.start ∧ (copyInner id ss es m dst).2.final = dst.final ∧
    (∀ e ∈ es, ∀ t ∈ e.2, ∃ y, (copyInner id ss es m dst).1.find id t = some y) ∧
    (∀ x a y, (copyInner id ss es m dst).2.Δ x a y ↔ dst.Δ x a y ∨
      (x = ss ∧ ∃ nx, (a, nx) ∈ es ∧ ∃ t ∈ nx, (copyInner id ss es m dst).1.find id t = some y)) := by
  induction es generalizing m dst with
  | nil => simp [copyInner]; exact ⟨SM.Le.refl _, hm⟩
  | cons e es ih =>
    simp only [copyInner, List.foldl_cons]
    obtain ⟨g1, g2, g3, g4⟩ := SM.mapList_spec m lo hm id e.2
    have := ih (m.mapList id e.2).1 (dst.add ss e.1 (m.mapList id e.2).2) g2
    simp only [copyInner] at this
    obtain ⟨k1, k2, k3, k4, k5, k6⟩ := this
    refine ⟨SM.Le.trans g1 k1, k2, by rw [k3]; rfl, by rw [k4]; rfl, ?_, ?_⟩
    · intro e' he' t ht
      simp at he'; rcases he' with rfl | he'
      · obtain ⟨y, hy⟩ := g3 t ht; exact ⟨y, k1.keep _ _ _ hy⟩
      · exact k5 e' he' t ht
    · intro x a y
      rw [k6, NFA.Δ_add, g4]
      obtain ⟨a1, nx1⟩ := e
      simp only [List.mem_cons]
      constructor
      · rintro ((h | ⟨h1, h2, t, h3, h4⟩) | ⟨h1, nx, h2, h3⟩)
        · left; exact h
        · right; exact ⟨h1, nx1, Or.inl (by rw [h2]), t, h3, k1.keep _ _ _ h4⟩
        · right; exact ⟨h1, nx, Or.inr h2, h3⟩
      · rintro (h | ⟨h1, nx, h2 | h2, t, h3, h4⟩)
        · left; left; exact h
        · injection h2 with e1 e2; subst e1; subst e2
          left; right
          obtain ⟨y', hy'⟩ := g3 t h3
          have := SM.find_fun h4 (k1.keep _ _ _ hy'); subst this
          exact ⟨h1, rfl, t, h3, hy'⟩
        · right; exact ⟨h1, nx, h2, t, h3, h4⟩

/-- `copyTrans` on a raw table -/
def copyTransL (id : Nat) (tr : List (Int × List (Int × List Int))) (m : SM) (dst : NFA) : SM × NFA :=
  tr.foldl (fun (acc : SM × NFA) st =>
    copyInner id (acc.1.get id st.1).2 st.2 (acc.1.get id st.1).1 acc.2) (m, dst)

theorem copyTrans_eq (id : Nat) (n : NFA) (m : SM) (dst : NFA) : copyTrans id n m dst = copyTransL id n.trans m dst := rfl

theorem copyTransL_spec (id : Nat) (tr : List (Int × List (Int × List Int))) (m : SM) (dst : NFA) (lo : Int)
    (hm : m.Inv lo) :
    m.Le (copyTransL id tr m dst).1 ∧ (copyTransL id tr m dst).1.Inv lo ∧
    (copyTransL id tr m dst).2.start = dst.start ∧ (copyTransL id tr m dst).2.final = dst.final ∧
    (∀ s a t, tblΔ tr s a t → ∃ x y, (copyTransL id tr m dst).1.find id s = some x ∧ (copyTransL id tr m dst).1.find id t = some y) ∧
    (∀ x a y, (copyTransL id tr m dst).2.Δ x a y ↔ dst.Δ x a y ∨
      ∃ s t, tblΔ tr s a t ∧ (copyTransL id tr m dst).1.find id s = some x ∧ (copyTransL id tr m dst).1.find id t = some y) := by
  induction tr generalizing m dst with
  | nil => simp [copyTransL, tblΔ]; exact ⟨SM.Le.refl _, hm⟩
  | cons st tr ih =>
    obtain ⟨s1, es1⟩ := st
    simp only [copyTransL, List.foldl_cons]
    obtain ⟨g1, g2, g3⟩ := SM.get_spec m lo hm id s1
    obtain ⟨c1, c2, c3, c4, c5, c6⟩ := copyInner_spec id (m.get id s1).2 es1 (m.get id s1).1 dst lo g2
    have := ih (copyInner id (m.get id s1).2 es1 (m.get id s1).1 dst).1
      (copyInner id (m.get id s1).2 es1 (m.get id s1).1 dst).2 c2
    simp only [copyTransL] at this
    obtain ⟨k1, k2, k3, k4, k5, k6⟩ := this
    refine ⟨SM.Le.trans g1 (SM.Le.trans c1 k1), k2, by rw [k3, c3], by rw [k4, c4], ?_, ?_⟩
    · intro s a t hd
      obtain ⟨st', h1, nx, h2, h3⟩ := hd
      simp at h1; rcases h1 with h1 | h1
      · obtain ⟨rfl, rfl⟩ := h1
        obtain ⟨y, hy⟩ := c5 (a, nx) h2 t h3
        exact ⟨_, y, k1.keep _ _ _ (c1.keep _ _ _ g3), k1.keep _ _ _ hy⟩
      · exact k5 s a t ⟨st', h1, nx, h2, h3⟩
    · intro x a y
      rw [k6, c6]
      constructor
      · rintro ((h | ⟨h1, nx, h2, t, h3, h4⟩) | ⟨s, t, h1, h2, h3⟩)
        · left; exact h
        · right
          refine ⟨s1, t, ⟨es1, by simp, nx, h2, h3⟩, ?_, k1.keep _ _ _ h4⟩
          rw [h1]; exact k1.keep _ _ _ (c1.keep _ _ _ g3)
        · right
          obtain ⟨st', g1', g2'⟩ := h1
          exact ⟨s, t, ⟨st', by simp [g1'], g2'⟩, h2, h3⟩
      · rintro (h | ⟨s, t, ⟨st', h1, nx, h2, h3⟩, h4, h5⟩)
        · left; left; exact h
        · simp at h1; rcases h1 with h1 | h1
          · obtain ⟨rfl, rfl⟩ := h1
            left; right
            have e1 := SM.find_fun h4 (k1.keep _ _ _ (c1.keep _ _ _ g3))
            obtain ⟨y', hy'⟩ := c5 (a, nx) h2 t h3
            have e2 := SM.find_fun h5 (k1.keep _ _ _ hy')
            subst e1; subst e2
            exact ⟨rfl, nx, h2, t, h3, hy'⟩
          · right; exact ⟨s, t, ⟨st', h1, nx, h2, h3⟩, h4, h5⟩

end AlgoVerif.C13
