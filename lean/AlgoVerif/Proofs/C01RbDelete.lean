import AlgoVerif.Proofs.C01Rb
/-!
# C01 / C15: LLRB `_delete`
-/
namespace AlgoVerif.C01
open Tree

variable {K V : Type} {cmp : K → K → Int}

theorem balance_right_kv (n r' : Tree K V) (m : K × V) (hn : n.isNil = false)
    (h1 : RB n.lt) (h2 : RB r') (h3 : bh n.lt = bh r')
    (h4 : n.isRed = true → n.lt.isRed = false ∧ r'.isRed = false) :
    ∃ out, (∀ {β : Type} (f : Tree K V → Outcome β),
        (setRight n r' >>= fun x => setKV x m >>= fun y => rbBalance y >>= f) = f out) ∧
      out.toList = n.lt.toList ++ m :: r'.toList ∧
      (SizeOK n.lt → SizeOK r' → SizeOK out) ∧
      RB out ∧ bh out = bh n.lt + (if n.isRed then 0 else 1) ∧ out.isRed = (n.isRed || (n.lt.isRed && r'.isRed)) := by
  obtain ⟨k, v, s, hh, e⟩ := node_eta hn
  rw [e]
  simp only [setRight, setKV, Outcome.ok_bind', rbBalance]
  rw [rbFixUp_eq false rfl]
  have := fixP_balance n.lt m.1 m.2 s hh n.isRed r' h1 h2 h3 h4
  exact ⟨_, fun f => rfl, by rw [toList_fixP]; rfl, fun a b => sizeOK_fixP false ⟨a, b⟩, this.1, this.2.1, this.2.2⟩

theorem RB_rt_black {t : Tree K V} (h : RB t) : t.rt.isRed = false := by
  cases t <;> simp_all

/-- the statement proved by induction on the fuel -/
def DelSpec (cmp : K → K → Int) (key : K) (fuel : Nat) : Prop :=
  ∀ n : Tree K V, n.nodes ≤ fuel → PreR n → Spec.Sorted cmp n.toList →
    (∃ x ∈ n.toList, cmp key x.1 = 0) →
    (∀ k v, kvOf n = .ok (k, v) → n.rt.isRed = true → ¬ cmp key k < 0) →
    ∃ out, rbDelete cmp fuel n key = .ok (out, Spec.get cmp key n.toList) ∧
      out.toList = Spec.remove cmp key n.toList ∧ (SizeOKc n → SizeOK out) ∧
      RB out ∧ bh out = bh n ∧ (n.isRed = false → out.isRed = false)

/-- going left -/
theorem del_left (h : LawfulCmp cmp) (key : K) (fuel : Nat) (IH : DelSpec (V := V) cmp key fuel)
    (n1 : Tree K V) (k1 : K) (v1 : V) (hkv : kvOf n1 = .ok (k1, v1)) (hf : n1.nodes ≤ fuel + 1)
    (hs : Spec.Sorted cmp n1.toList) (hmem : ∃ x ∈ n1.toList, cmp key x.1 = 0) (hlt : cmp key k1 < 0)
    (hL : RB n1.lt) (hred : n1.lt.isRed = true ∨ n1.lt.lt.isRed = true) (hR : RB n1.rt)
    (hb : bh n1.lt = bh n1.rt) (hc : n1.isRed = true → n1.lt.isRed = false ∧ n1.rt.isRed = false) :
    ∃ l' out, rbDelete cmp fuel n1.lt key = .ok (l', Spec.get cmp key n1.toList) ∧
      (∀ {β : Type} (f : Tree K V → Outcome β), (setLeft n1 l' >>= fun x => rbBalance x >>= f) = f out) ∧
      out.toList = Spec.remove cmp key n1.toList ∧ (SizeOKc n1 → SizeOK out) ∧
      RB out ∧ bh out = bh n1 ∧ (n1.isRed = false → n1.rt.isRed = false → out.isRed = false) := by
  rcases n1 with _ | ⟨l, k, v, s, hh, c, r⟩
  · simp [kvOf] at hkv
  · simp only [kvOf_node, Outcome.ok.injEq, Prod.mk.injEq] at hkv
    obtain ⟨rfl, rfl⟩ := hkv
    simp only [lt_node, rt_node, isRed_node, nodes_node] at *
    obtain ⟨hsl, hsr, hl, hr, -⟩ := sorted_node.1 hs
    have hR' := le_right h hr (by omega : ¬ 0 < cmp key k)
    have hne : ∀ x ∈ (k, v) :: r.toList, cmp key x.1 ≠ 0 := by
      intro x hx
      rcases List.mem_cons.1 hx with rfl | hx
      · simp only; omega
      · have := hR' x hx; omega
    have hmemL : ∃ x ∈ l.toList, cmp key x.1 = 0 := by
      obtain ⟨x, hx, hx0⟩ := hmem
      rw [toList_node] at hx
      rcases List.mem_append.1 hx with hx | hx
      · exact ⟨x, hx, hx0⟩
      · exact absurd hx0 (hne x hx)
    have hpl : PreR l := preR_of_RB hL hred
    obtain ⟨l', e1, e2, e3, e4, e5, e6⟩ := IH l (by omega) hpl hsl hmemL
      (fun _ _ _ hrr => by rw [RB_rt_black hL] at hrr; exact absurd hrr (by simp))
    obtain ⟨out, f1, f2, f3, f4, f5, f6⟩ := balance_left (.node l k v s hh c r) l' rfl e4 hR
      (by show bh l' = bh r; omega)
      (by
        intro hcc
        exact ⟨e6 (hc hcc).1, (hc hcc).2⟩)
    refine ⟨l', out, ?_, f1, ?_, ?_, f4, ?_, ?_⟩
    · rw [e1, toList_node, get_append_of_none_right key _ _ hne]
    · rw [f2, toList_node, remove_node_lt h hr hlt, ← e2]; rfl
    · intro hz
      exact f3 (e3 (sizeOKc_of_sizeOK hz.1)) hz.2
    · rw [f5, e5]; rfl
    · intro h1 h2
      rw [f6]; simp only [isRed_node, rt_node, h1, h2, Bool.and_false, Bool.or_false]

/-- at the key: replace the pair by the minimum of the right subtree -/
theorem del_right_min (h : LawfulCmp cmp) (key : K) (fuel : Nat)
    (n2 : Tree K V) (k2 : K) (v2 : V) (hkv : kvOf n2 = .ok (k2, v2)) (hf : n2.nodes ≤ fuel + 1)
    (hs : Spec.Sorted cmp n2.toList) (heq : cmp key k2 = 0)
    (hL : RB n2.lt) (hR : RB n2.rt) (hred : n2.rt.isRed = true ∨ n2.rt.lt.isRed = true)
    (hb : bh n2.lt = bh n2.rt) (hc : n2.isRed = true → n2.lt.isRed = false ∧ n2.rt.isRed = false) :
    ∃ r' m out, rbDeleteMin fuel n2.rt = .ok (r', m) ∧
      (∀ {β : Type} (f : Tree K V → Outcome β),
        (setRight n2 r' >>= fun x => setKV x m >>= fun y => rbBalance y >>= f) = f out) ∧
      Spec.get cmp key n2.toList = some v2 ∧
      out.toList = Spec.remove cmp key n2.toList ∧ (SizeOKc n2 → SizeOK out) ∧
      RB out ∧ bh out = bh n2 ∧ (n2.isRed = false → n2.lt.isRed = false → out.isRed = false) := by
  rcases n2 with _ | ⟨l, k, v, s, hh, c, r⟩
  · simp [kvOf] at hkv
  · simp only [kvOf_node, Outcome.ok.injEq, Prod.mk.injEq] at hkv
    obtain ⟨rfl, rfl⟩ := hkv
    simp only [lt_node, rt_node, isRed_node, nodes_node] at *
    obtain ⟨hsl, hsr, hl, hr, -⟩ := sorted_node.1 hs
    have hL' := ge_left h hl (by omega : ¬ cmp key k < 0)
    obtain ⟨r', m, e1, e2, e3, e4, e5, e6⟩ := rbDeleteMin_ok fuel r (by omega) hR hred
    obtain ⟨out, f1, f2, f3, f4, f5, f6⟩ := balance_right_kv (.node l k v s hh c r) r' m rfl hL e4
      (by show bh l = bh r'; omega)
      (by
        intro hcc
        exact ⟨(hc hcc).1, e6 (hc hcc).2⟩)
    refine ⟨r', m, out, e1, f1, ?_, ?_, ?_, f4, ?_, ?_⟩
    · rw [toList_node, get_append_of_none key _ _ (fun x hx => by have := hL' x hx; omega), get_cons]
      simp [heq]
    · rw [f2, toList_node, remove_node_eq h hl hr (by omega) (by omega), e2]; rfl
    · intro hz
      exact f3 hz.1 (e3 (sizeOKc_of_sizeOK hz.2))
    · rw [f5]; rfl
    · intro h1 h2
      rw [f6]; simp only [isRed_node, lt_node, h1, h2, Bool.false_and, Bool.or_false]

/-- going right -/
theorem del_right_rec (h : LawfulCmp cmp) (key : K) (fuel : Nat) (IH : DelSpec (V := V) cmp key fuel)
    (n2 : Tree K V) (k2 : K) (v2 : V) (hkv : kvOf n2 = .ok (k2, v2)) (hf : n2.nodes ≤ fuel + 1)
    (hs : Spec.Sorted cmp n2.toList) (hmem : ∃ x ∈ n2.toList, cmp key x.1 = 0) (hgt : cmp key k2 > 0)
    (hL : RB n2.lt) (hR : PreR n2.rt)
    (hkey : ∀ k v, kvOf n2.rt = .ok (k, v) → n2.rt.rt.isRed = true → ¬ cmp key k < 0)
    (hb : bh n2.lt = bh n2.rt) (hc : n2.isRed = true → n2.lt.isRed = false ∧ n2.rt.isRed = false) :
    ∃ r' out, rbDelete cmp fuel n2.rt key = .ok (r', Spec.get cmp key n2.toList) ∧
      (∀ {β : Type} (f : Tree K V → Outcome β), (setRight n2 r' >>= fun x => rbBalance x >>= f) = f out) ∧
      out.toList = Spec.remove cmp key n2.toList ∧ (SizeOKc n2 → SizeOK out) ∧
      RB out ∧ bh out = bh n2 ∧ (n2.isRed = false → n2.lt.isRed = false → out.isRed = false) := by
  rcases n2 with _ | ⟨l, k, v, s, hh, c, r⟩
  · simp [kvOf] at hkv
  · simp only [kvOf_node, Outcome.ok.injEq, Prod.mk.injEq] at hkv
    obtain ⟨rfl, rfl⟩ := hkv
    simp only [lt_node, rt_node, isRed_node, nodes_node] at *
    obtain ⟨hsl, hsr, hl, hr, -⟩ := sorted_node.1 hs
    have hL' := ge_left h hl (by omega : ¬ cmp key k < 0)
    have hne : ∀ x ∈ l.toList ++ [(k, v)], cmp key x.1 ≠ 0 := by
      intro x hx
      rcases List.mem_append.1 hx with hx | hx
      · have := hL' x hx; omega
      · simp only [List.mem_singleton] at hx; subst hx; simp only; omega
    have hmemR : ∃ x ∈ r.toList, cmp key x.1 = 0 := by
      obtain ⟨x, hx, hx0⟩ := hmem
      rw [toList_node] at hx
      rcases List.mem_append.1 hx with hx | hx
      · exact absurd hx0 (hne x (List.mem_append_left _ hx))
      · rcases List.mem_cons.1 hx with rfl | hx
        · exact absurd hx0 (hne _ (List.mem_append_right _ (List.mem_singleton.2 rfl)))
        · exact ⟨x, hx, hx0⟩
    obtain ⟨r', e1, e2, e3, e4, e5, e6⟩ := IH r (by omega) hR hsr hmemR hkey
    obtain ⟨out, f1, f2, f3, f4, f5, f6⟩ := balance_right (.node l k v s hh c r) r' rfl hL e4
      (by show bh l = bh r'; omega)
      (by
        intro hcc
        exact ⟨(hc hcc).1, e6 (hc hcc).2⟩)
    have hsplit : l.toList ++ (k, v) :: r.toList = (l.toList ++ [(k, v)]) ++ r.toList := by simp
    refine ⟨r', out, ?_, f1, ?_, ?_, f4, ?_, ?_⟩
    · rw [e1, toList_node, hsplit, get_append_of_none key _ _ hne]
    · rw [f2, toList_node, remove_node_gt h hl hgt, ← e2]; rfl
    · intro hz
      exact f3 hz.1 (e3 (sizeOKc_of_sizeOK hz.2))
    · rw [f5]; rfl
    · intro h1 h2
      rw [f6]; simp only [isRed_node, lt_node, h1, h2, Bool.false_and, Bool.or_false]

theorem rotRP_key {n : Tree K V} (h : n.lt.isNil = false) :
    ∃ k1 v1, kvOf (rotRP n) = .ok (k1, v1) ∧ (k1, v1) ∈ n.lt.toList := by
  rcases n with _ | ⟨_ | ⟨a, lk, lv, ls, lh, lc, b⟩, k, v, s, hh, c, d⟩
  · simp at h
  · simp at h
  · exact ⟨lk, lv, rfl, by simp⟩

theorem kvOf_mem {n : Tree K V} {k : K} {v : V} (h : kvOf n = .ok (k, v)) : (k, v) ∈ n.toList := by
  cases n with
  | nil => simp [kvOf] at h
  | node l k' v' s hh c r =>
    simp only [kvOf_node, Outcome.ok.injEq, Prod.mk.injEq] at h
    obtain ⟨rfl, rfl⟩ := h
    simp

theorem isNil_of_mem {t : Tree K V} {x : K × V} (h : x ∈ t.toList) : t.isNil = false := by
  cases t <;> simp_all

theorem rbDelete_step (h : LawfulCmp cmp) (key : K) (fuel : Nat) (IH : DelSpec (V := V) cmp key fuel) :
    DelSpec (V := V) cmp key (fuel + 1) := by
  intro n hf hp hs hmem hkey
  -- the part of the else-branch after the optional rotateRight
  let rest : Tree K V → Outcome (Tree K V × Option V) := fun n => do
    let (k, v) ← kvOf n
    let r ← rightOf n
    if cmp key k = 0 ∧ r.isNil then
      pure (.nil, some v)
    else
      let mv ← needMoveRight n
      let n ← if mv then rbMoveRedRight n else pure n
      let (k, v) ← kvOf n
      if cmp key k = 0 then
        let r ← rightOf n
        let (r', m) ← rbDeleteMin fuel r
        let n ← setRight n r'
        let n ← setKV n m
        let n ← rbBalance n
        pure (n, some v)
      else
        let r ← rightOf n
        let (r', res) ← rbDelete cmp fuel r key
        let n ← setRight n r'
        let n ← rbBalance n
        pure (n, res)
  have hdef : rbDelete cmp (fuel + 1) n key =
      (do let (k, _) ← kvOf n
          if cmp key k < 0 then
            let mv ← needMoveLeft n
            let n ← if mv then rbMoveRedLeft n else pure n
            let l ← leftOf n
            let (l', res) ← rbDelete cmp fuel l key
            let n ← setLeft n l'
            let n ← rbBalance n
            pure (n, res)
          else
            let l ← leftOf n
            let n ← if l.isRed then rbRotateRight n else pure n
            rest n) := by
    rw [rbDelete]
  have hrest : ∀ n1 : Tree K V, n1.nodes ≤ fuel + 1 → PreR n1 → n1.lt.isRed = false →
      Spec.Sorted cmp n1.toList → (∃ x ∈ n1.toList, cmp key x.1 = 0) →
      (∀ k1 v1, kvOf n1 = .ok (k1, v1) → ¬ cmp key k1 < 0) →
      ∃ out, rest n1 = .ok (out, Spec.get cmp key n1.toList) ∧
        out.toList = Spec.remove cmp key n1.toList ∧ (SizeOKc n1 → SizeOK out) ∧
        RB out ∧ bh out = bh n1 ∧ (n1.isRed = false → out.isRed = false) := by
    intro n1 hf1 hp1 hl1 hs1 hmem1 hge1
    rcases n1 with _ | ⟨l, k, v, s, hh, c, r⟩
    · simp at hp1
    · have hge : ¬ cmp key k < 0 := hge1 k v rfl
      simp only [PreR_node] at hp1
      obtain ⟨hL, hR, hb, hcl, hsome, hrr⟩ := hp1
      simp only [lt_node] at hl1
      obtain ⟨hsl, hsr, hl, hr, -⟩ := sorted_node.1 hs1
      have hL' := ge_left h hl hge
      simp only [rest, kvOf_node, rightOf_node, Outcome.ok_bind']
      by_cases hfirst : cmp key k = 0 ∧ r.isNil = true
      · -- the key is at a red leaf
        rw [if_pos hfirst]
        obtain ⟨heq, hnil⟩ := hfirst
        cases r with
        | node => simp at hnil
        | nil =>
          have hc : c = true := by
            rcases hsome with hc | hc | hc
            · exact hc
            · rw [hl1] at hc; exact absurd hc (by simp)
            · simp at hc
          subst hc
          have hlnil : l = .nil := RB_bh_zero hL (by simpa using hb) hl1
          subst hlnil
          refine ⟨.nil, ?_, ?_, fun _ => trivial, trivial, by simp, by simp⟩
          · simp [get_cons, heq]
          · simp [Spec.remove, heq]
      · rw [if_neg hfirst]
        have hrn : r.isNil = false := by
          by_cases heq : cmp key k = 0
          · cases hn : r.isNil
            · rfl
            · exact absurd ⟨heq, hn⟩ hfirst
          · obtain ⟨x, hx, hx0⟩ := hmem1
            rw [toList_node] at hx
            rcases List.mem_append.1 hx with hx | hx
            · have := hL' x hx; omega
            · rcases List.mem_cons.1 hx with rfl | hx
              · exact absurd hx0 heq
              · exact isNil_of_mem hx
        rw [needMoveRight_eq l k v s hh c r hrn]
        simp only [Outcome.ok_bind']
        cases hmv : (!r.isRed && !r.lt.isRed)
        · -- no moveRedRight
          simp only [Bool.false_eq_true, if_false, Outcome.pure_eq', Outcome.ok_bind', kvOf_node, rightOf_node]
          have hred : r.isRed = true ∨ r.lt.isRed = true := by
            cases h1 : r.isRed <;> cases h2 : r.lt.isRed <;> simp_all
          have hcc : c = true → l.isRed = false ∧ r.isRed = false := by
            intro hc
            refine ⟨hl1, ?_⟩
            cases hrc : r.isRed
            · rfl
            · exact absurd hc (by simp [(hrr hrc).2])
          by_cases heq : cmp key k = 0
          · rw [if_pos heq]
            obtain ⟨r', m, out, e1, f1, g1, g2, g3, g4, g5, g6⟩ :=
              del_right_min h key fuel (.node l k v s hh c r) k v rfl hf1 hs1 heq hL hR hred hb hcc
            simp only [rt_node] at e1
            simp only [e1, Outcome.ok_bind']
            refine ⟨out, ?_, g2, g3, g4, g5, fun hc => g6 hc hl1⟩
            rw [f1, g1]
          · rw [if_neg heq]
            obtain ⟨r', out, e1, f1, g2, g3, g4, g5, g6⟩ :=
              del_right_rec h key fuel IH (.node l k v s hh c r) k v rfl hf1 hs1 hmem1 (by omega) hL
                (preR_of_RB hR hred)
                (fun _ _ _ hrr' => by
                  simp only [rt_node] at hrr'
                  rw [RB_rt_black hR] at hrr'; exact absurd hrr' (by simp))
                hb hcc
            simp only [rt_node] at e1
            simp only [e1, Outcome.ok_bind']
            refine ⟨out, ?_, g2, g3, g4, g5, fun hc => g6 hc hl1⟩
            rw [f1]
        · -- moveRedRight
          simp only [if_true]
          simp only [Bool.and_eq_true, Bool.not_eq_true'] at hmv
          have hc : c = true := by
            rcases hsome with hc | hc | hc
            · exact hc
            · rw [hl1] at hc; exact absurd hc (by simp)
            · rw [hmv.1] at hc; exact absurd hc (by simp)
          subst hc
          obtain ⟨q0, q1, q2, q3, q4, q5, q6⟩ := mrrP_spec l k v s hh r hL hR hb hrn hl1 hmv.1 hmv.2
          have qk := mrrP_key l k v s hh r hR q0 hrn hmv.1 hmv.2
          rw [rbMoveRedRight_eq (by simpa using q0) (by simpa using hrn)]
          simp only [Outcome.ok_bind']
          obtain ⟨k2, v2, hk2, hlist⟩ := toList_eq_lt_rt q1
          have hs2 : Spec.Sorted cmp (mrrP (.node l k v s hh true r)).toList := by
            rw [toList_mrrP]; exact hs1
          have hmem2 : ∃ x ∈ (mrrP (.node l k v s hh true r)).toList, cmp key x.1 = 0 := by
            rw [toList_mrrP]; exact hmem1
          have hf2 : (mrrP (.node l k v s hh true r)).nodes ≤ fuel + 1 := by
            rw [nodes_mrrP]; exact hf1
          -- the new root key is ≤ the old one
          have hge2 : ¬ cmp key k2 < 0 ∧ (kvOf (mrrP (.node l k v s hh true r)).rt = .ok (k, v) → cmp key k2 ≠ 0) := by
            rcases qk with ⟨-, -, -, hkk⟩ | hkk
            · rw [hk2] at hkk
              simp only [Outcome.ok.injEq, Prod.mk.injEq] at hkk
              obtain ⟨rfl, rfl⟩ := hkk
              refine ⟨hge, ?_⟩
              intro hkk2
              -- then (k, v) is also in the right subtree: impossible in a sorted listing
              have hin := kvOf_mem hkk2
              rw [hlist] at hs2
              have := (sorted_append_cons.1 hs2).2.2.2.1 _ hin
              exact absurd this (h.lt_irrefl _)
            · have hin := kvOf_mem hkk
              have hs2' := hs2
              rw [hlist] at hs2'
              have hlt2 : cmp k2 k < 0 := (sorted_append_cons.1 hs2').2.2.2.1 _ hin
              have : cmp k2 key < 0 := h.lt_of_lt_of_not_lt hlt2 hge
              have hpos := (h.flip k2 key).1 this
              exact ⟨by omega, fun _ => by omega⟩
          rw [hk2]
          simp only [Outcome.ok_bind']
          by_cases heq2 : cmp key k2 = 0
          · rw [if_pos heq2]
            have hqa : RB (mrrP (.node l k v s hh true r)).rt ∧ (mrrP (.node l k v s hh true r)).rt.isRed = true := by
              rcases qk with ⟨a1, a2, -, -⟩ | hkk
              · exact ⟨a1, a2⟩
              · exact absurd heq2 (hge2.2 hkk)
            obtain ⟨r', m, out, e1, f1, g1, g2, g3, g4, g5, g6⟩ :=
              del_right_min h key fuel (mrrP (.node l k v s hh true r)) k2 v2 hk2 hf2 hs2 heq2 q3 hqa.1
                (Or.inl hqa.2) q4 q5
            rw [rightOf_eq q1]
            simp only [e1, Outcome.ok_bind']
            refine ⟨out, ?_, ?_, fun hz => g3 (sizeOKc_mrrP hz), g4, ?_, by simp⟩
            · rw [f1, ← toList_mrrP (.node l k v s hh true r), g1]; rfl
            · rw [g2, toList_mrrP]
            · rw [g5, q6]; simp
          · rw [if_neg heq2]
            obtain ⟨r', out, e1, f1, g2, g3, g4, g5, g6⟩ :=
              del_right_rec h key fuel IH (mrrP (.node l k v s hh true r)) k2 v2 hk2 hf2 hs2 hmem2
                (by omega) q3 q2
                (by
                  intro k' v' hk' hrr'
                  rcases qk with ⟨-, -, a3, -⟩ | hkk
                  · rw [a3] at hrr'; exact absurd hrr' (by simp)
                  · rw [hkk] at hk'
                    simp only [Outcome.ok.injEq, Prod.mk.injEq] at hk'
                    obtain ⟨rfl, rfl⟩ := hk'
                    exact hge)
                q4 q5
            rw [rightOf_eq q1]
            simp only [e1, Outcome.ok_bind']
            refine ⟨out, ?_, ?_, fun hz => g3 (sizeOKc_mrrP hz), g4, ?_, by simp⟩
            · rw [f1, ← toList_mrrP (.node l k v s hh true r)]; rfl
            · rw [g2, toList_mrrP]
            · rw [g5, q6]; simp
  -- the function itself
  rw [hdef]
  rcases n with _ | ⟨l, k, v, s, hh, c, r⟩
  · simp at hp
  · simp only [kvOf_node, Outcome.ok_bind']
    have hp' := hp
    simp only [PreR_node] at hp'
    obtain ⟨hL, hR, hb, hcl, hsome, hrr⟩ := hp'
    obtain ⟨hsl, hsr, hl, hr, -⟩ := sorted_node.1 hs
    simp only [nodes_node] at hf
    by_cases hlt : cmp key k < 0
    · -- go left
      rw [if_pos hlt]
      have hrb : r.isRed = false := by
        cases hrc : r.isRed
        · rfl
        · exact absurd hlt (hkey k v rfl hrc)
      have hR' := le_right h hr (by omega : ¬ 0 < cmp key k)
      have hln : l.isNil = false := by
        obtain ⟨x, hx, hx0⟩ := hmem
        rw [toList_node] at hx
        rcases List.mem_append.1 hx with hx | hx
        · exact isNil_of_mem hx
        · rcases List.mem_cons.1 hx with rfl | hx
          · simp only at hx0; omega
          · have := hR' x hx; omega
      rw [needMoveLeft_eq l k v s hh c r hln]
      simp only [Outcome.ok_bind']
      cases hmv : (!l.isRed && !l.lt.isRed)
      · simp only [Bool.false_eq_true, if_false, Outcome.pure_eq', Outcome.ok_bind', leftOf_node]
        have hred : l.isRed = true ∨ l.lt.isRed = true := by
          cases h1 : l.isRed <;> cases h2 : l.lt.isRed <;> simp_all
        obtain ⟨l', out, e1, f1, g2, g3, g4, g5, g6⟩ :=
          del_left h key fuel IH (.node l k v s hh c r) k v rfl (by simpa using hf) hs hmem hlt hL hred hR hb
            (fun hc => ⟨hcl hc, hrb⟩)
        simp only [lt_node] at e1
        simp only [e1, Outcome.ok_bind']
        refine ⟨out, ?_, g2, g3, g4, g5, fun hc => g6 hc hrb⟩
        rw [f1]
      · simp only [if_true]
        simp only [Bool.and_eq_true, Bool.not_eq_true'] at hmv
        have hc : c = true := by
          rcases hsome with hc | hc | hc
          · exact hc
          · rw [hmv.1] at hc; exact absurd hc (by simp)
          · rw [hrb] at hc; exact absurd hc (by simp)
        subst hc
        obtain ⟨g0, g1, g2, g3, g4, g5, g6, g7⟩ := mrlP_spec l k v s hh r hL hR hb hln hmv.1 hmv.2 hrb
        rw [rbMoveRedLeft_eq (by simpa using hln) (by simpa using g0)]
        simp only [Outcome.ok_bind']
        obtain ⟨k1, v1, hk1, hlist⟩ := toList_eq_lt_rt g1
        have hs1 : Spec.Sorted cmp (mrlP (.node l k v s hh true r)).toList := by
          rw [toList_mrlP]; exact hs
        have hlt1 : cmp key k1 < 0 := by
          rcases mrlP_key l k v s hh true r with hkk | ⟨k', v', hkk, hin⟩
          · rw [hk1] at hkk
            simp only [Outcome.ok.injEq, Prod.mk.injEq] at hkk
            obtain ⟨rfl, rfl⟩ := hkk
            exact hlt
          · rw [hk1] at hkk
            simp only [Outcome.ok.injEq, Prod.mk.injEq] at hkk
            obtain ⟨rfl, rfl⟩ := hkk
            exact h.trans _ _ _ hlt (hr _ hin)
        obtain ⟨l', out, e1, f1, e2, e3, e4, e5, e6⟩ :=
          del_left h key fuel IH (mrlP (.node l k v s hh true r)) k1 v1 hk1
            (by rw [nodes_mrlP]; simpa using hf) hs1 (by rw [toList_mrlP]; exact hmem) hlt1 g2 g3 g4 g5 g6
        rw [leftOf_eq g1]
        simp only [e1, Outcome.ok_bind']
        refine ⟨out, ?_, ?_, fun hz => e3 (sizeOKc_mrlP hz), e4, ?_, by simp⟩
        · rw [f1, ← toList_mrlP (.node l k v s hh true r)]; rfl
        · rw [e2, toList_mrlP]
        · rw [e5, g7]; simp
    · -- go right (or stop here)
      rw [if_neg hlt]
      simp only [leftOf_node, Outcome.ok_bind']
      cases hlr : l.isRed
      · simp only [Bool.false_eq_true, if_false, Outcome.pure_eq', Outcome.ok_bind']
        exact hrest (.node l k v s hh c r) (by simpa using hf) hp hlr hs hmem
          (fun k1 v1 hk1 => by
            simp only [kvOf_node, Outcome.ok.injEq, Prod.mk.injEq] at hk1
            obtain ⟨rfl, rfl⟩ := hk1
            exact hlt)
      · simp only [if_true]
        rw [rbRotateRight_eq (n := .node l k v s hh c r) hlr]
        simp only [Outcome.ok_bind']
        obtain ⟨q1, q2, q3, q4, q5, q6⟩ := preR_rotRP hp hlr
        obtain ⟨k1, v1, hk1, hin1⟩ := rotRP_key (n := .node l k v s hh c r) (isNil_of_isRed hlr)
        obtain ⟨out, e1, e2, e3, e4, e5, e6⟩ := hrest (rotRP (.node l k v s hh c r))
          (by rw [nodes_rotRP]; simpa using hf) q1 q2 (by rw [toList_rotRP]; exact hs)
          (by rw [toList_rotRP]; exact hmem)
          (fun k1' v1' hk1' => by
            rw [hk1] at hk1'
            simp only [Outcome.ok.injEq, Prod.mk.injEq] at hk1'
            obtain ⟨rfl, rfl⟩ := hk1'
            have hlk : cmp k1 k < 0 := hl _ hin1
            have : cmp k1 key < 0 := h.lt_of_lt_of_not_lt hlk hlt
            exact h.lt_asymm this)
        refine ⟨out, ?_, ?_, fun hz => e3 (sizeOKc_rotRP hz), e4, by rw [e5, q3], fun _ => e6 q5⟩
        · rw [e1, toList_rotRP]
        · rw [e2, toList_rotRP]

theorem rbDelete_ok (h : LawfulCmp cmp) (key : K) : ∀ fuel : Nat, DelSpec (V := V) cmp key fuel
  | 0 => by
    intro n hf hp
    cases n with
    | nil => simp at hp
    | node l k v s hh c r => simp at hf
  | fuel + 1 => rbDelete_step h key fuel (rbDelete_ok h key fuel)

end AlgoVerif.C01
