import AlgoVerif.Proofs.C11Fill
/-!
# C11 — the SLR(1) and canonical LR(1) builders of the Model always produce a table that passes `soundOK`

(for every well-formed grammar and every amount of fuel with which the builder returns at all).
-/
namespace AlgoVerif.C11.Built
open AlgoVerif AlgoVerif.Gram AlgoVerif.C11 AlgoVerif.C11.Spec

theorem itemsAt_nat (S : StateMap) (i : Nat) : itemsAt S (i : Int) = S.getD i [] := by
  unfold itemsAt
  have : ¬ ((i : Int) < 0) := by omega
  simp [this]

theorem itemsAt_of_get {S : StateMap} {i : Nat} {I : List Item} (hI : S[i]? = some I) :
    itemsAt S (i : Int) = I := by
  rw [itemsAt_nat]; simp [List.getD, hI]

theorem findItemSet_spec (S : StateMap) (J : List Item) :
    findItemSet S J = -1 ∨ ∃ (n : Nat) (K : List Item), findItemSet S J = (n : Int) ∧ S[n]? = some K ∧
      ∀ x, x ∈ K ↔ x ∈ J := by
  unfold findItemSet
  cases hf : S.findIdx? (fun K => sameSet K J) with
  | none => exact Or.inl rfl
  | some n =>
    obtain ⟨K, hK, hs⟩ := findIdx?_some _ S n hf
    exact Or.inr ⟨n, K, rfl, hK, sameSet_iff.mp hs⟩

section
variable {g g' : SGrammar} (h : AugOK g g') {A : Auto} (hAg : A.g = g') (hAk : A.kernel = false)
include h hAg hAk

/-- a transition `i --X--> FindItemSet(GOTO(Iᵢ,X))` passes the validator's check -/
theorem trans_ok {S : StateMap} (hS : StatesOK g' S) {i : Nat} {I J : List Item} {X : Sy}
    (hI : S[i]? = some I) (hg : A.goto I X = Outcome.ok J) :
    (findItemSet S J != 0) = true ∧
      (itemsAt S (findItemSet S J)).all (itemJustified (itemsAt S (i : Int)) X) = true := by
  obtain ⟨h1, h2, _, h4⟩ := goto_spec h hAg hAk hg (statesOK_good hS i I hI)
  rw [itemsAt_of_get hI]
  rcases findItemSet_spec S J with hneg | ⟨n, K, hn, hK, hsame⟩
  · rw [hneg]; simp [itemsAt]
  · rw [hn, itemsAt_of_get hK]
    constructor
    · -- n ≠ 0: state 0 is non-empty and all its dots are at the left end
      simp only [bne_iff_ne, ne_eq]
      intro h0
      have h0' : n = 0 := by omega
      subst h0'
      have hK0 : S.getD 0 [] = K := by simp [List.getD, hK]
      by_cases hadv : advance I X = []
      · have := h4 hadv
        subst this
        have : K = [] := by
          cases K with
          | nil => rfl
          | cons k ks => exact absurd ((hsame k).mp (by simp)) (by simp)
        exact hS.zeroNe (hK0 ▸ this)
      · obtain ⟨it, hit⟩ := List.exists_mem_of_ne_nil _ hadv
        obtain ⟨i0, hi0, hd, rfl⟩ := mem_advance.mp hit
        have hin : i0.next ∈ K := (hsame _).mpr (h2 i0 hi0 hd)
        have := (hS.zero _ (hK0 ▸ hin)).2
        simp [Item.next] at this
    · rw [List.all_eq_true]
      intro it hit
      have hitJ := (hsame it).mp hit
      unfold itemJustified
      rcases h1 it hitJ with ⟨i0, hi0, hd, rfl⟩ | ⟨_, hf⟩
      · simp only [Bool.or_eq_true, Bool.and_eq_true, beq_iff_eq, List.any_eq_true]
        right
        refine ⟨?_, i0, hi0, rfl, rfl⟩
        simpa [Item.next, Item.dotSym] using hd
      · simp [hf.1]

theorem soundOK_of_fill {C : List (List Item)} (hc : A.canonical = Outcome.ok C)
    (reduceOn : Item → List String) {T : Table}
    (hT : fillFull A (buildStateMap g'.start C) reduceOn = Outcome.ok T) :
    soundOK g { start := g'.start, states := buildStateMap g'.start C, table := T } = true := by
  have hinitEq := initialItem_eq h hAg
  have hinit : A.initialItem.isInitial g'.start = true := by
    rw [hinitEq]
    by_cases hl : A.lr1 = true <;> simp [Item.isInitial, startProd, laIsEnd, hl]
  have hS := stateMap_spec hinit (canonical_spec h hAg hAk hc)
  have hprov := fillFull_prov A _ reduceOn T hT
  have hstart : A.g.start = g'.start := by rw [hAg]
  unfold soundOK soundChecks
  simp only [List.all_cons, List.all_nil, Bool.and_true, Bool.and_eq_true]
  refine ⟨?_, ?_, ?_, ?_, ?_, ?_⟩
  · -- transitions
    unfold chkTransitions
    rw [List.all_eq_true]
    intro tr htr
    unfold transitions at htr
    rcases List.mem_append.mp htr with h1 | h1
    · rw [List.mem_flatMap] at h1
      obtain ⟨e, he, h2⟩ := h1
      rw [List.mem_filterMap] at h2
      obtain ⟨act, hact, h3⟩ := h2
      cases act with
      | shift t =>
        simp only [Option.some.injEq] at h3
        subst h3
        obtain ⟨i, I, hs, hI, item, _, _, J, hJ, ht⟩ := hprov.1 e he _ hact
        simp only [Bool.and_eq_true]
        rw [hs, ht]
        exact trans_ok h hAg hAk hS hI hJ
      | reduce p => simp at h3
      | accept => simp at h3
    · rw [List.mem_map] at h1
      obtain ⟨e, he, rfl⟩ := h1
      obtain ⟨i, I, hs, hI, J, hJ, ht⟩ := hprov.2 e he
      simp only [Bool.and_eq_true]
      rw [hs, ht]
      exact trans_ok h hAg hAk hS hI hJ
  · -- reduces
    unfold chkReduces
    rw [List.all_eq_true]
    intro e he
    rw [List.all_eq_true]
    intro act hact
    cases act with
    | shift t => rfl
    | accept => rfl
    | reduce p =>
      obtain ⟨i, I, hs, hI, item, hitem, hp, hcomp, hfin⟩ := hprov.1 e he _ hact
      have hgood := statesOK_good hS i I hI item hitem
      have hne : item.prod.head ≠ g'.start := by
        intro hh
        have hla := hgood.2 hh
        rw [hstart] at hfin
        simp [Item.isFinal, hh, hcomp, hla] at hfin
      simp only [Bool.and_eq_true, List.contains_iff_mem, List.any_eq_true, beq_iff_eq]
      refine ⟨hp ▸ mem_of_head_ne h hgood.1 hne, item, ?_, hp, ?_⟩
      · rw [hs, itemsAt_of_get hI]; exact hitem
      · rw [← hp]; simpa [Item.isComplete] using hcomp
  · -- accepts
    unfold chkAccepts
    rw [List.all_eq_true]
    intro e he
    rw [List.all_eq_true]
    intro act hact
    cases act with
    | shift t => rfl
    | reduce p => rfl
    | accept =>
      obtain ⟨i, I, hs, hI, ha, item, hitem, hfin⟩ := hprov.1 e he _ hact
      have hgood := statesOK_good hS i I hI item hitem
      rw [hstart] at hfin
      simp only [Item.isFinal, Bool.and_eq_true, beq_iff_eq, Item.isComplete] at hfin
      have hpe := eq_startProd h hgood.1 hfin.1.1
      simp only [Bool.and_eq_true, beq_iff_eq, List.any_eq_true]
      refine ⟨ha, item, ?_, hpe, ?_⟩
      · rw [hs, itemsAt_of_get hI]; exact hitem
      · rw [hfin.1.2, hpe]; rfl
  · -- state 0
    unfold chkInitial
    simp only [Bool.and_eq_true, List.all_eq_true, beq_iff_eq, List.mem_range, Bool.or_eq_true,
      Bool.not_eq_true', Bool.and_eq_false_iff, beq_eq_false_iff_ne, ne_eq]
    constructor
    · intro it hit
      have : itemsAt (buildStateMap g'.start C) 0 = (buildStateMap g'.start C).getD 0 [] := itemsAt_nat _ 0
      exact (hS.zero it (this ▸ hit)).2
    · intro i hi
      by_cases hi0 : i = 0
      · exact Or.inl hi0
      · right
        obtain ⟨I, hI⟩ : ∃ I, (buildStateMap g'.start C)[i]? = some I :=
          ⟨_, List.getElem?_eq_getElem hi⟩
        intro it hit
        rw [itemsAt_of_get hI] at hit
        have := (hS.others i I (by omega) hI it hit).2
        by_cases hh : it.prod.head = g'.start
        · exact Or.inr (fun hd => this ⟨hh, hd⟩)
        · exact Or.inl hh
  · -- the endmarker is never shifted
    unfold chkNoShiftEnd
    rw [List.all_eq_true]
    intro e he
    simp only [Bool.or_eq_true, Bool.not_eq_true', beq_eq_false_iff_ne, ne_eq, List.all_eq_true]
    by_cases hend : e.1.2 = endmarker
    · right
      intro act hact
      cases act with
      | reduce p => rfl
      | accept => rfl
      | shift t =>
        exfalso
        obtain ⟨i, I, _, hI, item, hitem, hd, _⟩ := hprov.1 e he _ hact
        have hgood := statesOK_good hS i I hI item hitem
        exact body_no_end h hgood.1 (hend ▸ dotSym_mem hd)
    · exact Or.inl hend
  · -- S′ is fresh
    unfold chkFresh
    simp only [Bool.and_eq_true, Bool.not_eq_true', List.contains_eq_mem, decide_eq_false_iff_not, List.all_eq_true,
      beq_eq_false_iff_ne, ne_eq]
    exact ⟨h.fresh, fun p hp => head_ne_of_mem h hp⟩

end

/-- the well-formedness `grammar.CFG.Verify` asks for (plus: the endmarker is not a terminal of the grammar) -/
structure ValidG (g : SGrammar) : Prop where
  startIn : g.start ∈ g.nonterms
  heads : ∀ p ∈ g.prods, p.head ∈ g.nonterms
  bodies : ∀ p ∈ g.prods, ∀ n, Sym.nonterm n ∈ p.body → n ∈ g.nonterms
  noEnd : ∀ p ∈ g.prods, Sym.term endmarker ∉ p.body

/-- executable version of `ValidG` -/
def validG (g : SGrammar) : Bool :=
  g.nonterms.contains g.start &&
  g.prods.all (fun p => g.nonterms.contains p.head &&
    p.body.all (fun s => match s with
      | .nonterm n => g.nonterms.contains n
      | .term t => t != endmarker))

theorem validG_sound {g : SGrammar} (hv : validG g = true) : ValidG g := by
  unfold validG at hv
  simp only [Bool.and_eq_true, List.contains_eq_mem, decide_eq_true_eq, List.all_eq_true] at hv
  obtain ⟨h1, h2⟩ := hv
  refine ⟨h1, fun p hp => (h2 p hp).1, ?_, ?_⟩
  · intro p hp n hn
    have := (h2 p hp).2 _ hn
    simpa using this
  · intro p hp hmem
    have := (h2 p hp).2 _ hmem
    simp at this

theorem augOK_of_augment {g g' : SGrammar} (hv : ValidG g) (ha : augment g = Outcome.ok g') : AugOK g g' := by
  unfold augment at ha
  cases hs : augStart g with
  | none => simp [hs] at ha
  | some s' =>
    simp only [hs, Outcome.ok.injEq] at ha
    subst ha
    refine ⟨rfl, ?_, hv.startIn, hv.heads, hv.bodies, hv.noEnd⟩
    unfold augStart at hs
    have := List.find?_some hs
    simpa using this

theorem soundOK_buildSLR {g : SGrammar} (hv : ValidG g) {fuel : Nat} {b : Built}
    (hb : buildSLR g fuel = Outcome.ok b) : soundOK g b = true := by
  unfold buildSLR at hb
  obtain ⟨g', hg', hb1⟩ := bind_eq_ok hb
  obtain ⟨C, hC, hb2⟩ := bind_eq_ok hb1
  obtain ⟨T, hT, hb3⟩ := bind_eq_ok hb2
  rw [← pure_eq_ok hb3]
  exact soundOK_of_fill (augOK_of_augment hv hg') (A := mkAuto g' false false fuel) rfl rfl hC _ hT

theorem soundOK_buildLR1 {g : SGrammar} (hv : ValidG g) {fuel : Nat} {b : Built}
    (hb : buildLR1 g fuel = Outcome.ok b) : soundOK g b = true := by
  unfold buildLR1 at hb
  obtain ⟨g', hg', hb1⟩ := bind_eq_ok hb
  obtain ⟨C, hC, hb2⟩ := bind_eq_ok hb1
  obtain ⟨T, hT, hb3⟩ := bind_eq_ok hb2
  rw [← pure_eq_ok hb3]
  exact soundOK_of_fill (augOK_of_augment hv hg') (A := mkAuto g' true false fuel) rfl rfl hC _ hT

end AlgoVerif.C11.Built
