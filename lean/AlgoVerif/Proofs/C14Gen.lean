import AlgoVerif.Generated.C14Gen
import AlgoVerif.Proofs.GoRt
import AlgoVerif.Model.C14S
/-!
# The GENERATED adjacency code of `graph/{graph,directed,undirected}.go` and the hand-written Model

`Generated/C14Gen.lean` is rewritten from /repo's source by `/verif/extract/go2lean` on every check run
(`bin/pre-C14`, which lists what is translated and what is skipped by name): the constructors, `AddEdge`, `V`, `E`,
`isVertexValid`, the degree accessors, `Directed.Reverse`, and the accessors of the result objects `Orders` and
`(Strongly)ConnectedComponents`.  The hand Model keeps a graph object as `GObj` (`Model/C14S.lean`): `n` and the edge
counter as `Nat`, adjacency as `Array (List Arc)` (an `Arc` also carries the edge, for the weighted types), the
in-degree table as `Array Nat`, and its `AddEdge` uses `Array.modify`, which cannot fail.  `ofD` / `ofU` read a `GObj` as
the generated `Directed` / `Undirected` structure (forgetting the edge stored in an `Arc`: the unweighted types have
none).  Every statement is an EQUALITY of outcomes, for every object whose slices have the lengths the constructor gave
them (`WFd`, `WFu`: the generated `AddEdge` indexes `ins` and `adj` and would panic otherwise; the lemmas show the
lengths are kept) and every argument — also invalid vertices.
-/
set_option linter.unusedSimpArgs false
namespace AlgoVerif.C14.Gen
open AlgoVerif AlgoVerif.Outcome AlgoVerif.C14 AlgoVerif.Generated

def ints (a : Array Nat) : Array Int := a.map Int.ofNat
/-- one adjacency list of the unweighted types: the neighbours -/
def nbrs (l : List Arc) : Array Int := (l.map fun x => (x.to : Int)).toArray
def adjOf (a : Array (List Arc)) : Array (Array Int) := a.map nbrs

/-- a directed graph object of the hand Model as the generated structure -/
def ofD (o : GObj) : Graph.Directed := ⟨(o.g.n : Int), (o.e : Int), ints o.ins, adjOf o.g.adj⟩
/-- an undirected graph object of the hand Model as the generated structure -/
def ofU (o : GObj) : Graph.Undirected := ⟨(o.g.n : Int), (o.e : Int), adjOf o.g.adj⟩

/-- the slices have the lengths `NewDirected` gave them -/
def WFd (o : GObj) : Prop := o.kind = .directed ∧ o.g.adj.size = o.g.n ∧ o.ins.size = o.g.n
def WFu (o : GObj) : Prop := o.kind = .undirected ∧ o.g.adj.size = o.g.n

@[simp] theorem ints_size (a : Array Nat) : (ints a).size = a.size := by simp [ints]
@[simp] theorem adjOf_size (a : Array (List Arc)) : (adjOf a).size = a.size := by simp [adjOf]

theorem idx_ints (a : Array Nat) (k : Nat) (h : k < a.size) : Go.idx (ints a) (k : Int) = .ok ((a[k] : Nat) : Int) := by
  have : k < (ints a).size := by simpa using h
  rw [Go.idx_nat this]; simp [ints]

theorem idx_adjOf (a : Array (List Arc)) (k : Nat) (h : k < a.size) : Go.idx (adjOf a) (k : Int) = .ok (nbrs a[k]) := by
  have : k < (adjOf a).size := by simpa using h
  rw [Go.idx_nat this]; simp [adjOf]

theorem setIdx_ints (a : Array Nat) (k : Nat) (h : k < a.size) (v : Nat) :
    Go.setIdx (ints a) (k : Int) (v : Int) = .ok (ints (a.set k v)) := by
  have : k < (ints a).size := by simpa using h
  rw [Go.setIdx_nat this]; simp [ints]

theorem setIdx_adjOf (a : Array (List Arc)) (k : Nat) (h : k < a.size) (l : List Arc) :
    Go.setIdx (adjOf a) (k : Int) (nbrs l) = .ok (adjOf (a.set k l)) := by
  have : k < (adjOf a).size := by simpa using h
  rw [Go.setIdx_nat this]; simp [adjOf]

theorem nbrs_push (l : List Arc) (x : Arc) : (nbrs l).push (x.to : Int) = nbrs (l ++ [x]) := by
  simp [nbrs]

theorem modify_eq_set {α : Type} (a : Array α) (k : Nat) (h : k < a.size) (f : α → α) : a.modify k f = a.set k (f a[k]) := by
  apply Array.ext (by simp)
  intro i h1 h2
  simp only [Array.getElem_modify, Array.getElem_set]
  split <;> simp_all

/-! ## Directed -/

theorem D_isVertexValid (o : GObj) (v : Int) : Graph.Directed.isVertexValid (ofD o) v = o.g.isVertexValid v := by
  rfl

theorem D_V (o : GObj) : Graph.Directed.V (ofD o) = o.V := rfl
theorem D_E (o : GObj) : Graph.Directed.E (ofD o) = o.E := rfl

theorem valid_nat {g : C14.Graph} {v : Int} (h : g.isVertexValid v = true) : ∃ k : Nat, v = (k : Int) ∧ k < g.n := by
  simp only [Graph.isVertexValid, Bool.and_eq_true, decide_eq_true_eq] at h
  exact ⟨v.toNat, by omega, by omega⟩

/-- `AddEdge(v, w)` on a well-formed directed object, for every pair of `int`s -/
theorem D_AddEdge (o : GObj) (hw : WFd o) (u v wt : Int) :
    Graph.Directed.AddEdge (ofD o) u v = .ok (ofD (o.addEdge u v wt)) ∧ WFd (o.addEdge u v wt) := by
  obtain ⟨hk, ha, hi⟩ := hw
  have hdir : o.kind.isDirected = true := by rw [hk]; rfl
  simp only [Graph.Directed.AddEdge, D_isVertexValid, GObj.addEdge]
  by_cases hv : (o.g.isVertexValid u && o.g.isVertexValid v) = true
  · obtain ⟨hu', hv'⟩ := Bool.and_eq_true_iff.1 hv
    obtain ⟨a, rfl, ha'⟩ := valid_nat hu'
    obtain ⟨b, rfl, hb'⟩ := valid_nat hv'
    simp only [hv, if_true, hdir, Graph.addEdgeDirected, Graph.addArc, Int.toNat_natCast]
    have e1 : (ofD o).ins = ints o.ins := rfl
    have e2 : (ofD o).adj = adjOf o.g.adj := rfl
    simp only [e1, e2, idx_ints o.ins b (by omega), Outcome.ok_bind]
    have hs : ((o.ins[b]'(by omega) : Nat) : Int) + 1 = ((o.ins[b]'(by omega) + 1 : Nat) : Int) := by omega
    rw [hs, setIdx_ints o.ins b (by omega)]
    simp only [Outcome.ok_bind, idx_adjOf o.g.adj a (by omega)]
    have hp : (nbrs (o.g.adj[a]'(by omega))).push (b : Int) =
        nbrs (o.g.adj[a]'(by omega) ++ [(⟨b, ⟨a, b, wt⟩⟩ : Arc)]) := nbrs_push _ ⟨b, ⟨a, b, wt⟩⟩
    rw [hp, setIdx_adjOf o.g.adj a (by omega)]
    refine ⟨?_, ?_⟩
    · simp only [Outcome.ok_bind, Outcome.pure_eq, ofD, modify_eq_set _ _ (show b < o.ins.size by omega),
        modify_eq_set _ _ (show a < o.g.adj.size by omega)]
      refine congrArg Outcome.ok ?_
      simp only [Graph.Directed.mk.injEq, true_and, and_true]
      first | done | omega
    · exact ⟨hk, by simpa using ha, by simpa using hi⟩
  · have hv' : (o.g.isVertexValid u && o.g.isVertexValid v) = false := by simpa using hv
    simp only [hv', Bool.false_eq_true, if_false, Outcome.pure_eq]
    exact ⟨trivial, hk, ha, hi⟩

theorem WFd_new (n : Nat) : WFd (GObj.new .directed n) := by
  simp [WFd, GObj.new, Graph.new, Kind.isDirected]

theorem ofD_new (n : Nat) :
    ofD (GObj.new .directed n) = ⟨(n : Int), 0, Array.replicate n 0, Array.replicate n #[]⟩ := by
  simp [ofD, GObj.new, Graph.new, Kind.isDirected, ints, adjOf, nbrs]

/-- `for i := range adj { adj[i] = make([]int, 0) }` on the freshly made `adj` -/
theorem D_new_loop1 (n : Nat) : ∀ (k i : Nat), i + k ≤ n →
    Graph.NewDirected.loop1 k (i : Int) (Array.replicate n (#[] : Array Int)) = .ok (Array.replicate n #[])
  | 0, _, _ => rfl
  | k+1, i, h => by
    have hi : i < (Array.replicate n (#[] : Array Int)).size := by simp; omega
    have hm : Go.make (0 : Int) 0 = .ok #[] := by simp [Go.make]
    simp only [Graph.NewDirected.loop1, hm, Outcome.ok_bind, Go.setIdx_nat hi]
    have hs : (Array.replicate n (#[] : Array Int)).set i #[] hi = Array.replicate n #[] := by
      apply Array.ext (by simp); intro j h1 h2; simp [Array.getElem_set]
    rw [hs]
    exact D_new_loop1 n k (i + 1) (by omega)

/-- the `edges ...[2]int` argument carrying the calls `es` -/
def edgesOf (es : List EdgeIn) : Array (Array Int) := (es.map fun e => #[e.u, e.v]).toArray

theorem foldl_WFd (es : List EdgeIn) : ∀ (o : GObj), WFd o → WFd (es.foldl (fun o e => o.addEdge e.u e.v e.w) o) := by
  induction es with
  | nil => intro o h; exact h
  | cons e es ih => intro o h; exact ih _ (D_AddEdge o h e.u e.v e.w).2

/-- `for _, e := range edges { g.AddEdge(e[0], e[1]) }` -/
theorem D_new_loop2 (es : List EdgeIn) : ∀ (k i : Nat) (o : GObj), WFd o → i + k = es.length →
    Graph.NewDirected.loop2 (edgesOf es) k (i : Int) (ofD o)
      = .ok (ofD ((es.drop i).foldl (fun o e => o.addEdge e.u e.v e.w) o))
  | 0, i, o, _, h => by
    rw [List.drop_of_length_le (by omega)]; rfl
  | k+1, i, o, hw, h => by
    have hi : i < (edgesOf es).size := by simp [edgesOf]; omega
    have hi' : i < es.length := by omega
    have he : (edgesOf es)[i] = #[es[i].u, es[i].v] := by simp [edgesOf]
    have h0 : Go.idx #[es[i].u, es[i].v] 0 = .ok es[i].u := by simp [Go.idx]
    have h1 : Go.idx #[es[i].u, es[i].v] 1 = .ok es[i].v := by simp [Go.idx]
    simp only [Graph.NewDirected.loop2, Go.idx_nat hi, he, Outcome.ok_bind, h0, h1,
      (D_AddEdge o hw es[i].u es[i].v es[i].w).1]
    rw [show ((i : Int) + 1) = ((i + 1 : Nat) : Int) by omega,
      D_new_loop2 es k (i + 1) _ (D_AddEdge o hw es[i].u es[i].v es[i].w).2 (by omega),
      List.drop_eq_getElem_cons hi']
    rfl

/-- `NewDirected(V, edges...)` for `V ≥ 0` is the hand Model's `GObj.build` -/
theorem D_New (n : Nat) (es : List EdgeIn) :
    Graph.NewDirected (n : Int) (edgesOf es) = .ok (ofD (GObj.build .directed n es)) ∧
      WFd (GObj.build .directed n es) := by
  refine ⟨?_, foldl_WFd es _ (WFd_new n)⟩
  simp only [Graph.NewDirected, Go.make_nat, Outcome.ok_bind, Array.size_replicate]
  have := D_new_loop1 n n 0 (by omega)
  simp only [Int.natCast_zero] at this
  rw [this]
  have h2 := D_new_loop2 es es.length 0 (GObj.new .directed n) (WFd_new n) (by omega)
  simp only [ofD_new, Int.natCast_zero, List.drop_zero] at h2
  simp only [Outcome.ok_bind, edgesOf, List.size_toArray, List.length_map] at h2 ⊢
  rw [h2]; rfl

/-- `NewDirected(V, …)` for `V < 0`: `make` panics -/
theorem D_New_neg (V : Int) (h : V < 0) (edges : Array (Array Int)) : Graph.NewDirected V edges = .panic := by
  simp [Graph.NewDirected, Go.make_neg _ h]

theorem D_InDegree (o : GObj) (v : Int) : Graph.Directed.InDegree (ofD o) v = o.inDegree v := by
  simp only [Graph.Directed.InDegree, D_isVertexValid, GObj.inDegree]
  by_cases hv : o.g.isVertexValid v = true
  · simp only [hv, Bool.not_true, Bool.false_eq_true, if_false, if_true]
    obtain ⟨k, rfl, -⟩ := valid_nat hv
    have e1 : (ofD o).ins = ints o.ins := rfl
    simp only [e1, Int.toNat_natCast]
    by_cases hk : k < o.ins.size
    · simp [idx_ints _ _ hk, hk]
    · rw [Go.idx_of_invalid (by simp; omega)]; simp [Array.getElem?_eq_none (by omega : o.ins.size ≤ k)]
  · simp [hv]

theorem D_OutDegree (o : GObj) (v : Int) : Graph.Directed.OutDegree (ofD o) v = o.outDegree v := by
  simp only [Graph.Directed.OutDegree, D_isVertexValid, GObj.outDegree]
  by_cases hv : o.g.isVertexValid v = true
  · simp only [hv, Bool.not_true, Bool.false_eq_true, if_false, if_true]
    obtain ⟨k, rfl, -⟩ := valid_nat hv
    have e1 : (ofD o).adj = adjOf o.g.adj := rfl
    simp only [e1, Int.toNat_natCast]
    by_cases hk : k < o.g.adj.size
    · simp [idx_adjOf _ _ hk, hk, nbrs]
    · rw [Go.idx_of_invalid (by simp; omega)]; simp [Array.getElem?_eq_none (by omega : o.g.adj.size ≤ k)]
  · simp [hv]

/-! ### `Reverse` -/

/-- `for _, w := range g.adj[v] { rev.AddEdge(w, v) }` -/
theorem D_rev_loop2 (fuel : Nat) (o : GObj) (v : Nat) (hv : v < o.g.adj.size) :
    ∀ (k i : Nat) (r : GObj), WFd r → i + k = o.g.adj[v].length →
    Graph.Directed.Reverse.loop2 fuel (ofD o) (v : Int) k (i : Int) (ofD r)
      = .ok (ofD (((o.g.adj[v].drop i).map fun x => (⟨x.to, v, x.e.w⟩ : EdgeIn)).foldl
          (fun o e => o.addEdge e.u e.v e.w) r))
  | 0, i, r, _, h => by
    rw [List.drop_of_length_le (by omega)]; rfl
  | k+1, i, r, hw, h => by
    have hi : i < o.g.adj[v].length := by omega
    have e1 : (ofD o).adj = adjOf o.g.adj := rfl
    have hi2 : i < (nbrs o.g.adj[v]).size := by simp [nbrs]; omega
    have hx : (nbrs o.g.adj[v])[i] = ((o.g.adj[v][i]).to : Int) := by simp [nbrs]
    simp only [Graph.Directed.Reverse.loop2, e1, idx_adjOf _ _ hv, Outcome.ok_bind, Go.idx_nat hi2, hx,
      (D_AddEdge r hw _ _ (o.g.adj[v][i]).e.w).1]
    rw [show ((i : Int) + 1) = ((i + 1 : Nat) : Int) by omega,
      D_rev_loop2 fuel o v hv k (i + 1) _ (D_AddEdge r hw _ _ (o.g.adj[v][i]).e.w).2 (by omega),
      List.drop_eq_getElem_cons hi]
    rfl

/-- the calls `Reverse()` makes for the vertices `v, v+1, …, v+m-1` -/
def flippedFrom (o : GObj) (v m : Nat) : List EdgeIn :=
  (List.range' v m).flatMap fun v => (o.g.adj.getD v []).map fun x => (⟨x.to, v, x.e.w⟩ : EdgeIn)

theorem flipped_eq (o : GObj) (h : o.kind = .directed) : o.flipped = flippedFrom o 0 o.g.n := by
  simp [GObj.flipped, flippedFrom, h, Kind.isWeighted, List.range_eq_range']

/-- `for v := 0; v < g.V(); v++ { … }` -/
theorem D_rev_loop1 (fuel : Nat) (o : GObj) (hw : WFd o) :
    ∀ (m v k : Nat) (r : GObj), WFd r → v + m = o.g.n → m + 1 ≤ k →
    Graph.Directed.Reverse.loop1 fuel (ofD o) k (v : Int) (ofD r)
      = .ok (ofD ((flippedFrom o v m).foldl (fun o e => o.addEdge e.u e.v e.w) r))
  | 0, v, k+1, r, _, h, _ => by
    have : ¬ ((v : Int) < (o.g.n : Int)) := by omega
    simp [Graph.Directed.Reverse.loop1, Graph.Directed.V, ofD, this, flippedFrom]
  | m+1, v, k+1, r, hr, h, hk => by
    have hlt : ((v : Int) < (o.g.n : Int)) := by omega
    have hv : v < o.g.adj.size := by have := hw.2.1; omega
    have e1 : (ofD o).adj = adjOf o.g.adj := rfl
    have e2 : (ofD o).v = (o.g.n : Int) := rfl
    simp only [Graph.Directed.Reverse.loop1, Graph.Directed.V, e1, e2, hlt, decide_true, Bool.not_true,
      Bool.false_eq_true, if_false, idx_adjOf _ _ hv, Outcome.ok_bind]
    have hsz : (nbrs o.g.adj[v]).size = o.g.adj[v].length := by simp [nbrs]
    have h2 := D_rev_loop2 fuel o v hv o.g.adj[v].length 0 r hr (by omega)
    simp only [Int.natCast_zero, List.drop_zero] at h2
    rw [hsz, h2]
    simp only [Outcome.ok_bind]
    rw [show ((v : Int) + 1) = ((v + 1 : Nat) : Int) by omega,
      D_rev_loop1 fuel o hw m (v + 1) k _ (foldl_WFd _ r hr) (by omega) (by omega)]
    simp only [flippedFrom, List.range'_succ, List.flatMap_cons, List.foldl_append]
    congr 4
    simp [Array.getD, hv]

/-- `Reverse()` on a well-formed directed object, with fuel for the `V+1` tests of its `for` loop:
the hand Model's `GObj.reverse` -/
theorem D_Reverse (fuel : Nat) (o : GObj) (hw : WFd o) (hf : o.g.n + 1 ≤ fuel) :
    Graph.Directed.Reverse fuel (ofD o) = .ok (ofD o.reverse) ∧ WFd o.reverse := by
  have hb : WFd (GObj.build .directed o.g.n o.flipped) := (D_New o.g.n o.flipped).2
  have hN := (D_New o.g.n []).1
  simp only [edgesOf, List.map_nil, GObj.build, List.foldl_nil] at hN
  have e2 : Graph.Directed.V (ofD o) = (o.g.n : Int) := rfl
  have h1 := D_rev_loop1 fuel o hw o.g.n 0 fuel (GObj.new .directed o.g.n) (WFd_new _) (by omega) hf
  simp only [Int.natCast_zero] at h1
  refine ⟨?_, by rw [GObj.reverse, hw.1]; exact hb⟩
  simp only [Graph.Directed.Reverse, e2, hN, Outcome.ok_bind, h1, Outcome.pure_eq, GObj.reverse, GObj.build,
    hw.1, flipped_eq o hw.1]

/-! ## Undirected -/

theorem U_isVertexValid (o : GObj) (v : Int) : Graph.Undirected.isVertexValid (ofU o) v = o.g.isVertexValid v := by
  rfl

theorem U_V (o : GObj) : Graph.Undirected.V (ofU o) = o.V := rfl
theorem U_E (o : GObj) : Graph.Undirected.E (ofU o) = o.E := rfl

/-- `AddEdge(v, w)` on a well-formed undirected object, for every pair of `int`s (also `v = w`) -/
theorem U_AddEdge (o : GObj) (hw : WFu o) (u v wt : Int) :
    Graph.Undirected.AddEdge (ofU o) u v = .ok (ofU (o.addEdge u v wt)) ∧ WFu (o.addEdge u v wt) := by
  obtain ⟨hk, ha⟩ := hw
  have hdir : o.kind.isDirected = false := by rw [hk]; rfl
  simp only [Graph.Undirected.AddEdge, U_isVertexValid, GObj.addEdge]
  by_cases hv : (o.g.isVertexValid u && o.g.isVertexValid v) = true
  · obtain ⟨hu', hv'⟩ := Bool.and_eq_true_iff.1 hv
    obtain ⟨a, rfl, ha'⟩ := valid_nat hu'
    obtain ⟨b, rfl, hb'⟩ := valid_nat hv'
    simp only [hv, if_true, hdir, Graph.addEdgeUndirected, Graph.addArc, Int.toNat_natCast, Bool.false_eq_true, if_false]
    have e2 : (ofU o).adj = adjOf o.g.adj := rfl
    simp only [e2, idx_adjOf o.g.adj a (by omega), Outcome.ok_bind]
    have hp : (nbrs (o.g.adj[a]'(by omega))).push (b : Int) =
        nbrs (o.g.adj[a]'(by omega) ++ [(⟨b, ⟨a, b, wt⟩⟩ : Arc)]) := nbrs_push _ ⟨b, ⟨a, b, wt⟩⟩
    rw [hp, setIdx_adjOf o.g.adj a (by omega)]
    simp only [Outcome.ok_bind]
    have hb2 : b < (o.g.adj.set a (o.g.adj[a]'(by omega) ++ [(⟨b, ⟨a, b, wt⟩⟩ : Arc)]) (by omega)).size := by
      simp; omega
    rw [idx_adjOf _ b hb2]
    simp only [Outcome.ok_bind]
    rw [nbrs_push _ (⟨a, ⟨a, b, wt⟩⟩ : Arc), setIdx_adjOf _ b hb2]
    refine ⟨?_, ?_⟩
    · simp only [Outcome.ok_bind, Outcome.pure_eq, ofU, modify_eq_set _ _ (show a < o.g.adj.size by omega),
        modify_eq_set _ _ hb2]
      refine congrArg Outcome.ok ?_
      simp only [Graph.Undirected.mk.injEq, true_and, and_true]
      first | done | omega
    · exact ⟨hk, by simpa using ha⟩
  · have hv' : (o.g.isVertexValid u && o.g.isVertexValid v) = false := by simpa using hv
    simp only [hv', Bool.false_eq_true, if_false, Outcome.pure_eq]
    exact ⟨trivial, hk, ha⟩

theorem WFu_new (n : Nat) : WFu (GObj.new .undirected n) := by
  simp [WFu, GObj.new, Graph.new]

theorem ofU_new (n : Nat) :
    ofU (GObj.new .undirected n) = ⟨(n : Int), 0, Array.replicate n #[]⟩ := by
  simp [ofU, GObj.new, Graph.new, adjOf, nbrs]

theorem U_new_loop1 (n : Nat) : ∀ (k i : Nat), i + k ≤ n →
    Graph.NewUndirected.loop1 k (i : Int) (Array.replicate n (#[] : Array Int)) = .ok (Array.replicate n #[])
  | 0, _, _ => rfl
  | k+1, i, h => by
    have hi : i < (Array.replicate n (#[] : Array Int)).size := by simp; omega
    have hm : Go.make (0 : Int) 0 = .ok #[] := by simp [Go.make]
    simp only [Graph.NewUndirected.loop1, hm, Outcome.ok_bind, Go.setIdx_nat hi]
    have hs : (Array.replicate n (#[] : Array Int)).set i #[] hi = Array.replicate n #[] := by
      apply Array.ext (by simp); intro j h1 h2; simp [Array.getElem_set]
    rw [hs]
    exact U_new_loop1 n k (i + 1) (by omega)

theorem foldl_WFu (es : List EdgeIn) : ∀ (o : GObj), WFu o → WFu (es.foldl (fun o e => o.addEdge e.u e.v e.w) o) := by
  induction es with
  | nil => intro o h; exact h
  | cons e es ih => intro o h; exact ih _ (U_AddEdge o h e.u e.v e.w).2

theorem U_new_loop2 (es : List EdgeIn) : ∀ (k i : Nat) (o : GObj), WFu o → i + k = es.length →
    Graph.NewUndirected.loop2 (edgesOf es) k (i : Int) (ofU o)
      = .ok (ofU ((es.drop i).foldl (fun o e => o.addEdge e.u e.v e.w) o))
  | 0, i, o, _, h => by
    rw [List.drop_of_length_le (by omega)]; rfl
  | k+1, i, o, hw, h => by
    have hi : i < (edgesOf es).size := by simp [edgesOf]; omega
    have hi' : i < es.length := by omega
    have he : (edgesOf es)[i] = #[es[i].u, es[i].v] := by simp [edgesOf]
    have h0 : Go.idx #[es[i].u, es[i].v] 0 = .ok es[i].u := by simp [Go.idx]
    have h1 : Go.idx #[es[i].u, es[i].v] 1 = .ok es[i].v := by simp [Go.idx]
    simp only [Graph.NewUndirected.loop2, Go.idx_nat hi, he, Outcome.ok_bind, h0, h1,
      (U_AddEdge o hw es[i].u es[i].v es[i].w).1]
    rw [show ((i : Int) + 1) = ((i + 1 : Nat) : Int) by omega,
      U_new_loop2 es k (i + 1) _ (U_AddEdge o hw es[i].u es[i].v es[i].w).2 (by omega),
      List.drop_eq_getElem_cons hi']
    rfl

/-- `NewUndirected(V, edges...)` for `V ≥ 0` is the hand Model's `GObj.build` -/
theorem U_New (n : Nat) (es : List EdgeIn) :
    Graph.NewUndirected (n : Int) (edgesOf es) = .ok (ofU (GObj.build .undirected n es)) ∧
      WFu (GObj.build .undirected n es) := by
  refine ⟨?_, foldl_WFu es _ (WFu_new n)⟩
  simp only [Graph.NewUndirected, Go.make_nat, Outcome.ok_bind, Array.size_replicate]
  have := U_new_loop1 n n 0 (by omega)
  simp only [Int.natCast_zero] at this
  rw [this]
  have h2 := U_new_loop2 es es.length 0 (GObj.new .undirected n) (WFu_new n) (by omega)
  simp only [ofU_new, Int.natCast_zero, List.drop_zero] at h2
  simp only [Outcome.ok_bind, edgesOf, List.size_toArray, List.length_map] at h2 ⊢
  rw [h2]; rfl

theorem U_New_neg (V : Int) (h : V < 0) (edges : Array (Array Int)) : Graph.NewUndirected V edges = .panic := by
  simp [Graph.NewUndirected, Go.make_neg _ h]

theorem U_Degree (o : GObj) (v : Int) : Graph.Undirected.Degree (ofU o) v = o.outDegree v := by
  simp only [Graph.Undirected.Degree, U_isVertexValid, GObj.outDegree]
  by_cases hv : o.g.isVertexValid v = true
  · simp only [hv, Bool.not_true, Bool.false_eq_true, if_false, if_true]
    obtain ⟨k, rfl, -⟩ := valid_nat hv
    have e1 : (ofU o).adj = adjOf o.g.adj := rfl
    simp only [e1, Int.toNat_natCast]
    by_cases hk : k < o.g.adj.size
    · simp [idx_adjOf _ _ hk, hk, nbrs]
    · rw [Go.idx_of_invalid (by simp; omega)]; simp [Array.getElem?_eq_none (by omega : o.g.adj.size ≤ k)]
  · simp [hv]

/-! ## Result objects: `Orders`, `ConnectedComponents`, `StronglyConnectedComponents` -/

def ofO (o : C14.Orders) : Graph.Orders := ⟨ints o.preRank, ints o.postRank, ints o.preOrder, ints o.postOrder⟩

theorem idx_ints_any (a : Array Nat) (v : Int) :
    Go.idx (ints a) v = if 0 ≤ v then (match a[v.toNat]? with | some d => .ok (d : Int) | none => .panic) else .panic := by
  by_cases h0 : 0 ≤ v
  · obtain ⟨k, rfl⟩ := Int.eq_ofNat_of_zero_le h0
    by_cases hk : k < a.size
    · simp [idx_ints _ _ hk, hk]
    · rw [Go.idx_of_invalid (by simp; omega)]; simp [Array.getElem?_eq_none (by omega : a.size ≤ k)]
  · rw [Go.idx_of_invalid (by omega)]; simp [h0]

/-- `PreRank(v)` is the read `o.preRank[v]` (a panic outside the table) -/
theorem O_PreRank (o : C14.Orders) (v : Int) : Graph.Orders.PreRank (ofO o) v =
    if 0 ≤ v then (match o.preRank[v.toNat]? with | some d => .ok (d : Int) | none => .panic) else .panic := by
  have e : (ofO o).preRank = ints o.preRank := rfl
  simp only [Graph.Orders.PreRank, e, idx_ints_any, Outcome.pure_eq, Outcome.bind_ok]

theorem O_PostRank (o : C14.Orders) (v : Int) : Graph.Orders.PostRank (ofO o) v =
    if 0 ≤ v then (match o.postRank[v.toNat]? with | some d => .ok (d : Int) | none => .panic) else .panic := by
  have e : (ofO o).postRank = ints o.postRank := rfl
  simp only [Graph.Orders.PostRank, e, idx_ints_any, Outcome.pure_eq, Outcome.bind_ok]

/-- `for i, v := range o.postOrder { revOrder[l-1-i] = v }` -/
theorem O_rpo_loop (o : Graph.Orders) : ∀ (k i : Nat) (r : Array Int), i + k = o.postOrder.size →
    r.size = o.postOrder.size → (∀ j, j < i → r[o.postOrder.size - 1 - j]? = o.postOrder[j]?) →
    ∃ r', Graph.Orders.ReversePostOrder.loop1 o (o.postOrder.size : Int) k (i : Int) r = .ok r' ∧
      r'.size = o.postOrder.size ∧ ∀ j, j < o.postOrder.size → r'[o.postOrder.size - 1 - j]? = o.postOrder[j]?
  | 0, i, r, h, hs, hinv => ⟨r, rfl, hs, fun j hj => hinv j (by omega)⟩
  | k+1, i, r, h, hs, hinv => by
    have hi : i < o.postOrder.size := by omega
    have hlt : o.postOrder.size - 1 - i < r.size := by omega
    -- whatever way the index `l-1-i` is written: it is this natural number
    simp only [Graph.Orders.ReversePostOrder.loop1, Go.idx_nat hi, Outcome.ok_bind, Go.setIdx]
    split
    next hx =>
      simp only [Outcome.ok_bind, show ((i : Int) + 1) = ((i + 1 : Nat) : Int) by omega]
      apply O_rpo_loop o k (i + 1) _ (by omega) (by simpa using hs)
      intro j hj
      by_cases hji : j = i
      · subst hji
        rw [Array.getElem?_set]
        rw [if_pos (by omega)]
        simp [hi]
      · rw [Array.getElem?_set_ne (by omega) (by omega)]
        exact hinv j (by omega)
    next hx => exact absurd (by omega) hx

/-- `ReversePostOrder()` is the hand Model's `reversePostOrder` -/
theorem O_ReversePostOrder (o : C14.Orders) :
    Graph.Orders.ReversePostOrder (ofO o) = .ok (o.reversePostOrder.map Int.ofNat).toArray := by
  have hm : Go.make (0 : Int) ((ofO o).postOrder.size : Int) = .ok (Array.replicate (ofO o).postOrder.size 0) :=
    Go.make_nat _ _
  obtain ⟨r', h1, h2, h3⟩ := O_rpo_loop (ofO o) (ofO o).postOrder.size 0 (Array.replicate (ofO o).postOrder.size 0)
    (by omega) (by simp) (by intro j hj; omega)
  simp only [Int.natCast_zero] at h1
  simp only [Graph.Orders.ReversePostOrder, hm, Outcome.ok_bind, h1, Outcome.pure_eq]
  congr 1
  have e : (ofO o).postOrder = ints o.postOrder := rfl
  rw [e] at h2 h3
  simp only [ints_size] at h2 h3
  apply Array.ext
  · simp [h2, Orders.reversePostOrder]
  · intro j hj1 hj2
    have := h3 (o.postOrder.size - 1 - j) (by omega)
    rw [show o.postOrder.size - 1 - (o.postOrder.size - 1 - j) = j by omega] at this
    have hj3 : o.postOrder.size - 1 - j < (ints o.postOrder).size := by simp; omega
    rw [Array.getElem?_eq_getElem hj1, Array.getElem?_eq_getElem hj3] at this
    rw [Option.some.inj this]
    simp [ints, Orders.reversePostOrder]

/-- the result of `Components()` of the hand Model as `[][]int` -/
def compsOf (a : Array (List Nat)) : Array (Array Int) := a.map fun l => (l.map Int.ofNat).toArray

def ofCC (c : Components) : Graph.ConnectedComponents := ⟨(c.count : Int), ints c.id⟩

theorem CC_loop1 (n : Nat) : ∀ (k i : Nat), i + k ≤ n →
    Graph.ConnectedComponents.Components.loop1 k (i : Int) (Array.replicate n (#[] : Array Int)) = .ok (Array.replicate n #[])
  | 0, _, _ => rfl
  | k+1, i, h => by
    have hi : i < (Array.replicate n (#[] : Array Int)).size := by simp; omega
    have hm : Go.make (0 : Int) 0 = .ok #[] := by simp [Go.make]
    simp only [Graph.ConnectedComponents.Components.loop1, hm, Outcome.ok_bind, Go.setIdx_nat hi]
    have hs : (Array.replicate n (#[] : Array Int)).set i #[] hi = Array.replicate n #[] := by
      apply Array.ext (by simp); intro j h1 h2; simp [Array.getElem_set]
    rw [hs]
    exact CC_loop1 n k (i + 1) (by omega)

/-- `for v, id := range c.id { comps[id] = append(comps[id], v) }` -/
theorem CC_loop2 (c : Components) : ∀ (k v : Nat) (comps : Array (List Nat)), v + k = c.id.size →
    Graph.ConnectedComponents.Components.loop2 (ofCC c) k (v : Int) (compsOf comps)
      = (Components.components.go ((List.range' v k).zip (c.id.toList.drop v)) comps).map compsOf
  | 0, v, comps, _ => by simp [Graph.ConnectedComponents.Components.loop2, Components.components.go]
  | k+1, v, comps, h => by
    have hv : v < c.id.size := by omega
    have e : (ofCC c).id = ints c.id := rfl
    have hd : c.id.toList.drop v = c.id[v] :: c.id.toList.drop (v + 1) := by
      rw [List.drop_eq_getElem_cons (by simpa using hv)]; simp
    simp only [Graph.ConnectedComponents.Components.loop2, e, idx_ints _ _ hv, Outcome.ok_bind, List.range'_succ, hd,
      List.zip_cons_cons, Components.components.go]
    by_cases hid : c.id[v] < comps.size
    · have h1 : c.id[v] < (compsOf comps).size := by simpa [compsOf] using hid
      have hx : ((compsOf comps)[c.id[v]]).push (v : Int) = (((comps[c.id[v]]) ++ [v]).map Int.ofNat).toArray := by
        simp [compsOf]
      have hy : (compsOf comps).set c.id[v] ((((comps[c.id[v]]) ++ [v]).map Int.ofNat).toArray) h1
          = compsOf (comps.modify c.id[v] (· ++ [v])) := by
        rw [modify_eq_set _ _ hid]; simp [compsOf]
      simp only [Go.idx_nat h1, Outcome.ok_bind, hx, Go.setIdx_nat h1, hy, hid, if_true]
      rw [show ((v : Int) + 1) = ((v + 1 : Nat) : Int) by omega]
      exact CC_loop2 c k (v + 1) _ (by omega)
    · rw [Go.idx_of_invalid (by simp [compsOf]; omega)]
      simp [hid]

/-- `Components()` is the hand Model's `Components.components`, panics included -/
theorem CC_Components (c : Components) :
    Graph.ConnectedComponents.Components (ofCC c) = c.components.map compsOf := by
  have e : (ofCC c).count = (c.count : Int) := rfl
  have e2 : (ofCC c).id = ints c.id := rfl
  have h1 := CC_loop1 c.count c.count 0 (by omega)
  simp only [Int.natCast_zero] at h1
  have h2 := CC_loop2 c c.id.size 0 (Array.replicate c.count []) (by omega)
  have hc : compsOf (Array.replicate c.count []) = Array.replicate c.count #[] := by simp [compsOf]
  simp only [Int.natCast_zero, hc, List.drop_zero] at h2
  simp only [Graph.ConnectedComponents.Components, e, e2, Go.make_nat, Outcome.ok_bind, Array.size_replicate, h1, ints_size, h2,
    Components.components, List.range_eq_range', Outcome.pure_eq]

/-- `ID(v)` is the read `c.id[v]` (a panic outside the table) -/
theorem CC_ID (c : Components) (v : Int) : Graph.ConnectedComponents.ID (ofCC c) v =
    if 0 ≤ v then (match c.id[v.toNat]? with | some d => .ok (d : Int) | none => .panic) else .panic := by
  have e : (ofCC c).id = ints c.id := rfl
  simp only [Graph.ConnectedComponents.ID, e, idx_ints_any, Outcome.pure_eq, Outcome.bind_ok]

/-- `IsConnected(v, w)` compares the two reads -/
theorem CC_IsConnected (c : Components) (v w : Nat) (hv : v < c.id.size) (hw : w < c.id.size) :
    Graph.ConnectedComponents.IsConnected (ofCC c) v w = .ok (c.id[v] == c.id[w]) := by
  have e : (ofCC c).id = ints c.id := rfl
  simp only [Graph.ConnectedComponents.IsConnected, e, idx_ints _ _ hv, idx_ints _ _ hw, Outcome.ok_bind, Outcome.pure_eq]
  congr 1; rw [Bool.eq_iff_iff]; simp only [beq_iff_eq]; omega

def ofSCC (c : Components) : Graph.StronglyConnectedComponents := ⟨(c.count : Int), ints c.id⟩

theorem SCC_loop1 (n : Nat) : ∀ (k i : Nat), i + k ≤ n →
    Graph.StronglyConnectedComponents.Components.loop1 k (i : Int) (Array.replicate n (#[] : Array Int)) = .ok (Array.replicate n #[])
  | 0, _, _ => rfl
  | k+1, i, h => by
    have hi : i < (Array.replicate n (#[] : Array Int)).size := by simp; omega
    have hm : Go.make (0 : Int) 0 = .ok #[] := by simp [Go.make]
    simp only [Graph.StronglyConnectedComponents.Components.loop1, hm, Outcome.ok_bind, Go.setIdx_nat hi]
    have hs : (Array.replicate n (#[] : Array Int)).set i #[] hi = Array.replicate n #[] := by
      apply Array.ext (by simp); intro j h1 h2; simp [Array.getElem_set]
    rw [hs]
    exact SCC_loop1 n k (i + 1) (by omega)

/-- `for v, id := range c.id { comps[id] = append(comps[id], v) }` -/
theorem SCC_loop2 (c : Components) : ∀ (k v : Nat) (comps : Array (List Nat)), v + k = c.id.size →
    Graph.StronglyConnectedComponents.Components.loop2 (ofSCC c) k (v : Int) (compsOf comps)
      = (Components.components.go ((List.range' v k).zip (c.id.toList.drop v)) comps).map compsOf
  | 0, v, comps, _ => by simp [Graph.StronglyConnectedComponents.Components.loop2, Components.components.go]
  | k+1, v, comps, h => by
    have hv : v < c.id.size := by omega
    have e : (ofSCC c).id = ints c.id := rfl
    have hd : c.id.toList.drop v = c.id[v] :: c.id.toList.drop (v + 1) := by
      rw [List.drop_eq_getElem_cons (by simpa using hv)]; simp
    simp only [Graph.StronglyConnectedComponents.Components.loop2, e, idx_ints _ _ hv, Outcome.ok_bind, List.range'_succ, hd,
      List.zip_cons_cons, Components.components.go]
    by_cases hid : c.id[v] < comps.size
    · have h1 : c.id[v] < (compsOf comps).size := by simpa [compsOf] using hid
      have hx : ((compsOf comps)[c.id[v]]).push (v : Int) = (((comps[c.id[v]]) ++ [v]).map Int.ofNat).toArray := by
        simp [compsOf]
      have hy : (compsOf comps).set c.id[v] ((((comps[c.id[v]]) ++ [v]).map Int.ofNat).toArray) h1
          = compsOf (comps.modify c.id[v] (· ++ [v])) := by
        rw [modify_eq_set _ _ hid]; simp [compsOf]
      simp only [Go.idx_nat h1, Outcome.ok_bind, hx, Go.setIdx_nat h1, hy, hid, if_true]
      rw [show ((v : Int) + 1) = ((v + 1 : Nat) : Int) by omega]
      exact SCC_loop2 c k (v + 1) _ (by omega)
    · rw [Go.idx_of_invalid (by simp [compsOf]; omega)]
      simp [hid]

/-- `Components()` is the hand Model's `Components.components`, panics included -/
theorem SCC_Components (c : Components) :
    Graph.StronglyConnectedComponents.Components (ofSCC c) = c.components.map compsOf := by
  have e : (ofSCC c).count = (c.count : Int) := rfl
  have e2 : (ofSCC c).id = ints c.id := rfl
  have h1 := SCC_loop1 c.count c.count 0 (by omega)
  simp only [Int.natCast_zero] at h1
  have h2 := SCC_loop2 c c.id.size 0 (Array.replicate c.count []) (by omega)
  have hc : compsOf (Array.replicate c.count []) = Array.replicate c.count #[] := by simp [compsOf]
  simp only [Int.natCast_zero, hc, List.drop_zero] at h2
  simp only [Graph.StronglyConnectedComponents.Components, e, e2, Go.make_nat, Outcome.ok_bind, Array.size_replicate, h1, ints_size, h2,
    Components.components, List.range_eq_range', Outcome.pure_eq]

/-- `ID(v)` is the read `c.id[v]` (a panic outside the table) -/
theorem SCC_ID (c : Components) (v : Int) : Graph.StronglyConnectedComponents.ID (ofSCC c) v =
    if 0 ≤ v then (match c.id[v.toNat]? with | some d => .ok (d : Int) | none => .panic) else .panic := by
  have e : (ofSCC c).id = ints c.id := rfl
  simp only [Graph.StronglyConnectedComponents.ID, e, idx_ints_any, Outcome.pure_eq, Outcome.bind_ok]

/-- `IsStronglyConnected(v, w)` compares the two reads -/
theorem SCC_IsStronglyConnected (c : Components) (v w : Nat) (hv : v < c.id.size) (hw : w < c.id.size) :
    Graph.StronglyConnectedComponents.IsStronglyConnected (ofSCC c) v w = .ok (c.id[v] == c.id[w]) := by
  have e : (ofSCC c).id = ints c.id := rfl
  simp only [Graph.StronglyConnectedComponents.IsStronglyConnected, e, idx_ints _ _ hv, idx_ints _ _ hw, Outcome.ok_bind, Outcome.pure_eq]
  congr 1; rw [Bool.eq_iff_iff]; simp only [beq_iff_eq]; omega


end AlgoVerif.C14.Gen
