import AlgoVerif.Proofs.C08LeftFactorLang
/-!
# LeftFactor, part 2: the Model's `lfHead` is a `Factoring` (or leaves the grammar alone)

* `groupsOf`: every group is non-empty and consists of `key ++ s = ` body of an `A`-production, and every
  `A`-production is in some group;
* the `foldlM` over the prefix groups draws pairwise different fresh names and adds exactly
  `A → key ++ [name]`, `name → s`;
* hence `lfHead g A` returns `g` itself or a grammar `g'` with `Factoring g g' A F`.
-/
namespace AlgoVerif.C08
open AlgoVerif AlgoVerif.Gram AlgoVerif.C08.Spec
open LF

namespace LF

theorem foldlM_nil {σ β : Type} (f : σ → β → Outcome σ) (s : σ) : List.foldlM f s [] = .ok s := rfl

theorem foldlM_cons {σ β : Type} (f : σ → β → Outcome σ) (s : σ) (b : β) (l : List β) :
    List.foldlM f s (b :: l) = (f s b >>= fun s' => List.foldlM f s' l) := rfl

theorem mem_prodsOf {ps : List SProd} {A : String} {p : SProd} : p ∈ prodsOf ps A ↔ p ∈ ps ∧ p.head = A := by
  simp [prodsOf]

theorem mem_insertBy {α : Type} (lt : α → α → Bool) (x y : α) : ∀ l : List α, y ∈ insertBy lt x l ↔ y = x ∨ y ∈ l
  | [] => by simp [insertBy]
  | z :: l => by
    simp only [insertBy]
    split
    · simp
    · simp only [List.mem_cons, mem_insertBy lt x y l]
      constructor
      · rintro (h | h | h)
        · exact .inr (.inl h)
        · exact .inl h
        · exact .inr (.inr h)
      · rintro (h | h | h)
        · exact .inr (.inl h)
        · exact .inl h
        · exact .inr (.inr h)

theorem mem_sortBy {α : Type} (lt : α → α → Bool) (l : List α) (y : α) : y ∈ sortBy lt l ↔ y ∈ l := by
  unfold sortBy
  have key : ∀ (l acc : List α), y ∈ l.foldl (fun acc x => insertBy lt x acc) acc ↔ y ∈ acc ∨ y ∈ l := by
    intro l
    induction l with
    | nil => intro acc; simp
    | cons x l ih =>
      intro acc
      simp only [List.foldl_cons, ih, mem_insertBy, List.mem_cons]
      constructor
      · rintro ((h | h) | h)
        · exact .inr (.inl h)
        · exact .inl h
        · exact .inr (.inr h)
      · rintro (h | h | h)
        · exact .inl (.inr h)
        · exact .inl (.inl h)
        · exact .inr h
  simpa using key l []

/-! ### zipping groups with their fresh names -/

theorem mem_zip_of_fst {α β : Type} : ∀ (l : List α) (ns : List β), ns.length = l.length → ∀ a ∈ l,
    ∃ b, (a, b) ∈ l.zip ns
  | [], _, _, a, ha => by cases ha
  | x :: l, [], h, _, _ => by simp at h
  | x :: l, n :: ns, h, a, ha => by
    rcases List.mem_cons.1 ha with rfl | ha
    · exact ⟨n, by simp⟩
    · obtain ⟨b, hb⟩ := mem_zip_of_fst l ns (by simpa using h) a ha
      exact ⟨b, by simp [hb]⟩

theorem mem_zip_of_snd {α β : Type} : ∀ (l : List α) (ns : List β), ns.length = l.length → ∀ b ∈ ns,
    ∃ a, (a, b) ∈ l.zip ns
  | _, [], _, b, hb => by cases hb
  | [], n :: ns, h, _, _ => by simp at h
  | x :: l, n :: ns, h, b, hb => by
    rcases List.mem_cons.1 hb with rfl | hb
    · exact ⟨x, by simp⟩
    · obtain ⟨a, ha⟩ := mem_zip_of_snd l ns (by simpa using h) b hb
      exact ⟨a, by simp [ha]⟩

theorem zip_snd_inj {α β : Type} : ∀ (l : List α) (ns : List β), ns.Nodup → ∀ x ∈ l.zip ns, ∀ y ∈ l.zip ns,
    x.2 = y.2 → x = y
  | [], _, _, x, hx, _, _, _ => by simp at hx
  | _ :: _, [], _, x, hx, _, _, _ => by simp at hx
  | a :: l, n :: ns, hnd, x, hx, y, hy, hxy => by
    have hnd' := List.nodup_cons.1 hnd
    simp only [List.zip_cons_cons, List.mem_cons] at hx hy
    rcases hx with rfl | hx <;> rcases hy with rfl | hy
    · rfl
    · have h2 := (List.of_mem_zip hy).2
      simp only at hxy
      rw [← hxy] at h2
      exact absurd h2 hnd'.1
    · have h2 := (List.of_mem_zip hx).2
      simp only at hxy
      rw [hxy] at h2
      exact absurd h2 hnd'.1
    · exact zip_snd_inj l ns hnd'.2 x hx y hy hxy

/-! ### `groupByCommonPrefix` -/

/-- one production folded into the groups -/
def gstep (gs : Groups) (p : SProd) : Groups :=
  let k := p.body.take 1
  let s := p.body.drop 1
  if gs.any (fun e => e.1 = k) then gs.map (fun e => if e.1 = k then (e.1, ins e.2 s) else e)
  else gs ++ [(k, [s])]

theorem groupsOf_eq (AP : List SProd) : groupsOf AP = AP.foldl gstep [] := rfl

/-- every group is non-empty and made of bodies of the productions -/
theorem groupsOf_sound (AP : List SProd) : ∀ e ∈ groupsOf AP, e.2 ≠ [] ∧ ∀ s ∈ e.2, ∃ p ∈ AP, p.body = e.1 ++ s := by
  rw [groupsOf_eq]
  refine foldl_inv (fun gs => ∀ e ∈ gs, e.2 ≠ [] ∧ ∀ s ∈ e.2, ∃ p ∈ AP, p.body = e.1 ++ s) gstep AP ?_ [] (by simp)
  intro gs p hp hgs e he
  have hbody : p.body = p.body.take 1 ++ p.body.drop 1 := (List.take_append_drop 1 p.body).symm
  unfold gstep at he
  simp only at he
  split at he
  · obtain ⟨e₀, he₀, rfl⟩ := List.mem_map.1 he
    obtain ⟨hne, hall⟩ := hgs e₀ he₀
    split
    · rename_i hk
      refine ⟨?_, ?_⟩
      · intro hnil
        simp only at hnil
        have hmem : p.body.drop 1 ∈ ins e₀.2 (p.body.drop 1) := mem_ins.2 (.inr rfl)
        rw [hnil] at hmem
        cases hmem
      · intro s hs
        rcases mem_ins.1 hs with hs | rfl
        · exact hall s hs
        · exact ⟨p, hp, by simp only; rw [hk]; exact hbody⟩
    · exact ⟨hne, hall⟩
  · rcases List.mem_append.1 he with he | he
    · exact hgs e he
    · simp at he
      subst he
      exact ⟨by simp, fun s hs => by simp at hs; subst hs; exact ⟨p, hp, by simpa using hbody⟩⟩

/-- a step keeps every suffix that is already in a group -/
theorem gstep_mono (gs : Groups) (p : SProd) : ∀ e ∈ gs, ∀ s ∈ e.2, ∃ e' ∈ gstep gs p, e'.1 = e.1 ∧ s ∈ e'.2 := by
  intro e he s hs
  unfold gstep
  simp only
  split
  · refine ⟨_, List.mem_map.2 ⟨e, he, rfl⟩, ?_⟩
    split
    · exact ⟨rfl, mem_ins.2 (.inl hs)⟩
    · exact ⟨rfl, hs⟩
  · exact ⟨e, List.mem_append_left _ he, rfl, hs⟩

theorem gstep_self (gs : Groups) (p : SProd) : ∃ e ∈ gstep gs p, e.1 = p.body.take 1 ∧ p.body.drop 1 ∈ e.2 := by
  unfold gstep
  simp only
  split
  · rename_i hany
    obtain ⟨e, he, hk⟩ := List.any_eq_true.1 hany
    have hk' : e.1 = p.body.take 1 := by simpa using hk
    refine ⟨_, List.mem_map.2 ⟨e, he, rfl⟩, ?_⟩
    simp only [hk', ↓reduceIte]
    exact ⟨trivial, mem_ins.2 (.inr rfl)⟩
  · exact ⟨_, List.mem_append_right _ (List.mem_singleton.2 rfl), rfl, by simp⟩

theorem foldl_gstep_mono : ∀ (l : List SProd) (gs : Groups), ∀ e ∈ gs, ∀ s ∈ e.2,
    ∃ e' ∈ l.foldl gstep gs, e'.1 = e.1 ∧ s ∈ e'.2
  | [], _, e, he, _, hs => ⟨e, he, rfl, hs⟩
  | p :: l, gs, e, he, s, hs => by
    obtain ⟨e₁, he₁, hk₁, hs₁⟩ := gstep_mono gs p e he s hs
    obtain ⟨e₂, he₂, hk₂, hs₂⟩ := foldl_gstep_mono l (gstep gs p) e₁ he₁ s hs₁
    exact ⟨e₂, he₂, hk₂.trans hk₁, hs₂⟩

theorem foldl_gstep_complete : ∀ (l : List SProd) (gs : Groups), ∀ p ∈ l,
    ∃ e ∈ l.foldl gstep gs, e.1 = p.body.take 1 ∧ p.body.drop 1 ∈ e.2
  | [], _, _, hp => by cases hp
  | q :: l, gs, p, hp => by
    rcases List.mem_cons.1 hp with rfl | hp
    · obtain ⟨e₁, he₁, hk₁, hs₁⟩ := gstep_self gs p
      obtain ⟨e₂, he₂, hk₂, hs₂⟩ := foldl_gstep_mono l (gstep gs p) e₁ he₁ _ hs₁
      exact ⟨e₂, he₂, hk₂.trans hk₁, hs₂⟩
    · exact foldl_gstep_complete l (gstep gs q) p hp

/-- every production is in some group -/
theorem groupsOf_complete (AP : List SProd) : ∀ p ∈ AP, ∃ e ∈ groupsOf AP, ∃ s ∈ e.2, p.body = e.1 ++ s := by
  intro p hp
  obtain ⟨e, he, hk, hs⟩ := foldl_gstep_complete AP [] p hp
  exact ⟨e, he, _, hs, by rw [hk]; exact (List.take_append_drop 1 p.body).symm⟩

/-! ### the fold over the prefix groups -/

/-- `Anew := AddNewNonTerminal(A, primes...)`, add `A → prefix Anew`, add `Anew → suffix` for every suffix -/
def lfStep (A : String) (g : G) (e : List SSym × List (List SSym)) : Outcome G := do
  let (g', A') ← addNew g A primes
  let ps := ins g'.prods { head := A, body := e.1 ++ [.nonterm A'] }
  pure { g' with prods := insAll ps (e.2.map (fun s => ({ head := A', body := s } : SProd))) }

theorem lfStep_spec {A : String} {g g1 : G} {e : List SSym × List (List SSym)} (h : lfStep A g e = .ok g1) :
    ∃ n, n ∉ g.nonterms ∧ g1.nonterms = g.nonterms ++ [n] ∧ g1.start = g.start ∧ g1.terms = g.terms ∧
      ∀ p, p ∈ g1.prods ↔ p ∈ g.prods ∨ p = ⟨A, e.1 ++ [Sym.nonterm n]⟩ ∨ ∃ s ∈ e.2, p = ⟨n, s⟩ := by
  unfold lfStep at h
  obtain ⟨⟨g', n⟩, hn, h'⟩ := bind_eq_ok h
  obtain ⟨hfresh, rfl⟩ := addNew_ok hn
  cases h'
  refine ⟨n, hfresh, rfl, rfl, rfl, fun p => ?_⟩
  simp only [mem_insAll, mem_ins, List.mem_map]
  constructor
  · rintro ((h | h) | ⟨s, hs, rfl⟩)
    · exact .inl h
    · exact .inr (.inl h)
    · exact .inr (.inr ⟨s, hs, rfl⟩)
  · rintro (h | h | ⟨s, hs, rfl⟩)
    · exact .inl (.inl h)
    · exact .inl (.inr h)
    · exact .inr ⟨s, hs, rfl⟩

theorem foldlM_lfStep (A : String) : ∀ (l : Groups) (g0 g1 : G), l.foldlM (lfStep A) g0 = .ok g1 →
    ∃ names : List String, names.length = l.length ∧ g1.nonterms = g0.nonterms ++ names ∧
      g1.start = g0.start ∧ g1.terms = g0.terms ∧ (∀ n ∈ names, n ∉ g0.nonterms) ∧ names.Nodup ∧
      ∀ p, p ∈ g1.prods ↔ p ∈ g0.prods ∨ ∃ en ∈ l.zip names,
        p = ⟨A, en.1.1 ++ [Sym.nonterm en.2]⟩ ∨ ∃ s ∈ en.1.2, p = ⟨en.2, s⟩
  | [], g0, g1, h => by
    cases h
    exact ⟨[], rfl, by simp, rfl, rfl, by simp, List.nodup_nil, by simp⟩
  | e :: l, g0, g1, h => by
    rw [foldlM_cons] at h
    obtain ⟨gm, hm, h'⟩ := bind_eq_ok h
    obtain ⟨n, hfresh, hnts, hst, htm, hpr⟩ := lfStep_spec hm
    obtain ⟨names, hlen, hnts', hst', htm', hfresh', hnd, hpr'⟩ := foldlM_lfStep A l gm g1 h'
    have hf : ∀ m ∈ names, m ∉ g0.nonterms ∧ m ≠ n := by
      intro m hm'
      have := hfresh' m hm'
      rw [hnts] at this
      simp only [List.mem_append, List.mem_singleton, not_or] at this
      exact this
    refine ⟨n :: names, by simp [hlen], by rw [hnts', hnts]; simp, hst'.trans hst, htm'.trans htm, ?_, ?_, ?_⟩
    · intro m hm'
      rcases List.mem_cons.1 hm' with rfl | hm'
      · exact hfresh
      · exact (hf m hm').1
    · exact List.nodup_cons.2 ⟨fun hmem => (hf n hmem).2 rfl, hnd⟩
    · intro p
      rw [hpr', hpr]
      simp only [List.zip_cons_cons, List.mem_cons, exists_eq_or_imp]
      constructor
      · rintro ((h | h | h) | h)
        · exact .inl h
        · exact .inr (.inl (.inl h))
        · exact .inr (.inl (.inr h))
        · exact .inr (.inr h)
      · rintro (h | (h | h) | h)
        · exact .inl (.inl h)
        · exact .inl (.inr (.inl h))
        · exact .inl (.inr (.inr h))
        · exact .inr h

/-- the alternatives with a unique first symbol are added back unchanged -/
theorem mem_altFold (A : String) : ∀ (ag : Groups) (ps : List SProd) (p : SProd),
    p ∈ ag.foldl (fun ps e => insAll ps (e.2.map (fun s => ({ head := A, body := e.1 ++ s } : SProd)))) ps ↔
      p ∈ ps ∨ ∃ e ∈ ag, ∃ s ∈ e.2, p = ⟨A, e.1 ++ s⟩
  | [], ps, p => by simp
  | e :: ag, ps, p => by
    simp only [List.foldl_cons, mem_altFold A ag, mem_insAll, List.mem_map, List.mem_cons, exists_eq_or_imp]
    constructor
    · rintro ((h | ⟨s, hs, rfl⟩) | h)
      · exact .inl h
      · exact .inr (.inl ⟨s, hs, rfl⟩)
      · exact .inr (.inr h)
    · rintro (h | ⟨s, hs, rfl⟩ | h)
      · exact .inl (.inl h)
      · exact .inl (.inr ⟨s, hs, rfl⟩)
      · exact .inr h

end LF

/-- one non-terminal of one pass of `LeftFactor`: nothing happens, or prefix groups are folded -/
theorem lfHead_spec {g g' : G} {A : String} {ch : Bool} (h : lfHead g A = .ok (g', ch)) (hw : WellFormed g) :
    g' = g ∨ ∃ F, Factoring g g' A F := by
  unfold lfHead at h
  simp only at h
  split at h
  · cases h; exact .inl rfl
  · rename_i hAP
    split at h
    · cases h; exact .inl rfl
    · right
      obtain ⟨g1, hfold, h'⟩ := bind_eq_ok h
      cases h'
      change List.foldlM (lfStep A) _ _ = .ok g1 at hfold
      -- abbreviations
      generalize hgs : groupsOf (prodsOf g.prods A) = gs at hfold
      have hsound := groupsOf_sound (prodsOf g.prods A)
      have hcomplete := groupsOf_complete (prodsOf g.prods A)
      rw [hgs] at hsound hcomplete
      generalize hl : sortBy (fun a b => bodyLt a.1 b.1) (gs.filter (fun e => e.2.length ≥ 2)) = l at hfold
      have hl_mem : ∀ e, e ∈ l ↔ e ∈ gs ∧ e.2.length ≥ 2 := by
        intro e
        rw [← hl, mem_sortBy, List.mem_filter]
        simp
      obtain ⟨names, hlen, hnts, hst, htm, hfresh, hnd, hpr⟩ := foldlM_lfStep A l _ g1 hfold
      simp only at hnts hst htm hfresh hpr
      -- `A` is declared: it has a production
      have hA : A ∈ g.nonterms := by
        cases hAPl : prodsOf g.prods A with
        | nil => simp [hAPl] at hAP
        | cons p _ =>
          have hp : p ∈ prodsOf g.prods A := by rw [hAPl]; exact List.mem_cons_self ..
          have := mem_prodsOf.1 hp
          exact this.2 ▸ (hw.2 p this.1).1
      have hold : ∀ e ∈ gs, ∀ s ∈ e.2, (⟨A, e.1 ++ s⟩ : SProd) ∈ g.prods := by
        intro e he s hs
        obtain ⟨p, hp, hb⟩ := (hsound e he).2 s hs
        have := mem_prodsOf.1 hp
        have hp' : p = ⟨A, e.1 ++ s⟩ := by
          cases p
          simp only at hb this
          simp [hb, this.2]
        exact hp' ▸ this.1
      refine ⟨(l.zip names).map (fun en => ⟨en.1.1, en.1.2, en.2⟩), ?_⟩
      have hF : ∀ e : FGroup, e ∈ (l.zip names).map (fun en => (⟨en.1.1, en.1.2, en.2⟩ : FGroup)) ↔
          ∃ en ∈ l.zip names, e = ⟨en.1.1, en.1.2, en.2⟩ := by
        intro e
        simp only [List.mem_map]
        exact ⟨fun ⟨en, h, he⟩ => ⟨en, h, he.symm⟩, fun ⟨en, h, he⟩ => ⟨en, h, he.symm⟩⟩
      refine ⟨hst, htm, ?_, hA, ?_, ?_, ?_, ?_, ?_, ?_, ?_⟩
      · -- nts
        intro n
        simp only [hnts, List.mem_append]
        constructor
        · rintro (h | h)
          · exact .inl h
          · obtain ⟨a, ha⟩ := mem_zip_of_snd l names hlen n h
            exact .inr ⟨_, (hF _).2 ⟨(a, n), ha, rfl⟩, rfl⟩
        · rintro (h | ⟨e, he, rfl⟩)
          · exact .inl h
          · obtain ⟨en, hen, rfl⟩ := (hF e).1 he
            exact .inr (List.of_mem_zip hen).2
      · -- fresh
        intro e he
        obtain ⟨en, hen, rfl⟩ := (hF e).1 he
        exact hfresh _ (List.of_mem_zip hen).2
      · -- inj
        intro e he e' he' hname
        obtain ⟨en, hen, rfl⟩ := (hF e).1 he
        obtain ⟨en', hen', rfl⟩ := (hF e').1 he'
        have := zip_snd_inj l names hnd en hen en' hen' hname
        rw [this]
      · -- nonempty
        intro e he
        obtain ⟨en, hen, rfl⟩ := (hF e).1 he
        have := (hl_mem en.1).1 (List.of_mem_zip hen).1
        exact (hsound en.1 this.1).1
      · -- old
        intro e he s hs
        obtain ⟨en, hen, rfl⟩ := (hF e).1 he
        have := (hl_mem en.1).1 (List.of_mem_zip hen).1
        exact hold en.1 this.1 s hs
      · -- new_prods
        intro p hp
        rcases (mem_altFold A _ _ p).1 hp with hp | ⟨e, he, s, hs, rfl⟩
        · rcases (hpr p).1 hp with hp | ⟨en, hen, rfl | ⟨s, hs, rfl⟩⟩
          · exact .inl (List.mem_filter.1 hp).1
          · exact .inr (.inl ⟨_, (hF _).2 ⟨en, hen, rfl⟩, rfl⟩)
          · exact .inr (.inr ⟨_, (hF _).2 ⟨en, hen, rfl⟩, s, hs, rfl⟩)
        · exact .inl (hold e (List.mem_filter.1 he).1 s hs)
      · -- present
        intro e he
        obtain ⟨en, hen, rfl⟩ := (hF e).1 he
        exact ⟨(mem_altFold A _ _ _).2 (.inl ((hpr _).2 (.inr ⟨en, hen, .inl rfl⟩))),
          fun s hs => (mem_altFold A _ _ _).2 (.inl ((hpr _).2 (.inr ⟨en, hen, .inr ⟨s, hs, rfl⟩⟩)))⟩
      · -- kept
        intro p hp
        by_cases hh : p.head = A
        · obtain ⟨e, he, s, hs, hb⟩ := hcomplete p (mem_prodsOf.2 ⟨hp, hh⟩)
          have hp' : p = ⟨A, e.1 ++ s⟩ := by
            cases p
            simp only at hb hh
            simp [hb, hh]
          have hlen1 : e.2.length ≥ 1 := by
            have := (hsound e he).1
            cases h2 : e.2 with
            | nil => exact absurd h2 this
            | cons _ _ => simp
          by_cases h2 : e.2.length ≥ 2
          · right
            obtain ⟨n, hn⟩ := mem_zip_of_fst l names hlen e ((hl_mem e).2 ⟨he, h2⟩)
            refine ⟨⟨e.1, e.2, n⟩, (hF _).2 ⟨(e, n), hn, rfl⟩, s, hs, hp', ?_, ?_⟩
            · exact (mem_altFold A _ _ _).2 (.inl ((hpr _).2 (.inr ⟨(e, n), hn, .inl rfl⟩)))
            · exact (mem_altFold A _ _ _).2 (.inl ((hpr _).2 (.inr ⟨(e, n), hn, .inr ⟨s, hs, rfl⟩⟩)))
          · left
            have h1 : e.2.length = 1 := by omega
            refine (mem_altFold A _ _ p).2 (.inr ⟨e, List.mem_filter.2 ⟨he, by simpa using h1⟩, s, hs, hp'⟩)
        · left
          exact (mem_altFold A _ _ p).2 (.inl ((hpr p).2 (.inl (List.mem_filter.2 ⟨hp, by simpa using hh⟩))))

end AlgoVerif.C08
