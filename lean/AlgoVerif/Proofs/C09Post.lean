import AlgoVerif.Proofs.C08Empty
/-!
# Post-conditions of the Model's results (C09): no ε-production, reachability, `EliminateCycles`
-/
namespace AlgoVerif.C08
open AlgoVerif AlgoVerif.Gram AlgoVerif.C08.Spec AlgoVerif.C09.Spec

/-! ## `EliminateEmptyProductions` -/

theorem elimEmpty_noEmpty {g g' : G} (h : elimEmpty g = .ok g') (hv : WellFormed g) :
    NoEmptyExceptFreshStart g g' := by
  obtain ⟨nul, hn, hcase⟩ := elimEmpty_ok h
  have hspec := emptyFreeProds_spec (g := g) (nullable_sound hn)
  rcases hcase with ⟨_, rfl⟩ | ⟨_, s', hf, rfl⟩
  · intro p hp hb
    exact absurd hb (hspec p (prune_prods_subset _ p hp)).1
  · have hne : g.start ≠ s' := fun e => hf (e ▸ hv.1)
    -- the productions before pruning: variants, S′ → S, S′ → ε
    have hshape : ∀ q ∈ ins (ins (emptyFreeProds nul g.prods) { head := s', body := [Sym.nonterm g.start] })
          ({ head := s', body := [] } : SProd),
        Sym.nonterm s' ∉ q.body ∧ (q.body = [] → q.head = s') := by
      intro q hq
      rcases mem_ins.mp hq with hq | rfl
      · rcases mem_ins.mp hq with hq | rfl
        · obtain ⟨hne', p, hp, _, _, hsub⟩ := hspec q hq
          exact ⟨fun hm => (WellFormed.fresh_not_in hv hf p hp).2 (hsub _ hm), fun hb => absurd hb hne'⟩
        · exact ⟨by simpa using fun e => hne e.symm, by simp⟩
      · exact ⟨by simp, fun _ => rfl⟩
    intro p hp hb
    have hp' := prune_prods_subset _ p hp
    refine ⟨?_, ?_, ?_⟩
    · rw [prune_start]; exact (hshape p hp').2 hb
    · rw [prune_start]; exact hf
    · intro q hq
      rw [prune_start]
      exact (hshape q (prune_prods_subset _ q hq)).1

/-! ## `EliminateUnreachableProductions` -/

/-- `Reach` in terms of a production list and a start symbol -/
theorem reachPass_reach {g : G} {r : List String} (hr : ∀ n ∈ r, Reach g n) : ∀ n ∈ reachPass g.prods r, Reach g n := by
  unfold reachPass
  refine foldl_inv (fun r => ∀ n ∈ r, Reach g n) _ g.prods ?_ r hr
  intro acc p hp hacc
  split
  · rename_i hh
    intro n hn
    rcases mem_insAll.mp hn with hn | hn
    · exact hacc n hn
    · exact Reach.step p n hp (hacc _ hh) (mem_bodyNTs.mp hn)
  · exact hacc

theorem reachable_exact {g : G} {r : List String} (h : reachable g = .ok r) : ∀ n, n ∈ r ↔ Reach g n := by
  obtain ⟨hstart, hclosed⟩ := reachable_spec h
  intro n
  constructor
  · unfold reachable at h
    refine iterFix_inv (reachPass g.prods) (fun r => ∀ n ∈ r, Reach g n) (fun _ => reachPass_reach) _ _ _ ?_ (ofOpt_ok h) n
    intro n hn
    simp at hn
    subst hn
    exact Reach.start
  · intro hn
    induction hn with
    | start => exact hstart
    | step p n hp _ hn ih => exact hclosed p hp ih n hn

theorem elimUnreachable_allReachable {g g' : G} (h : elimUnreachable g = .ok g') : AllReachable g' := by
  obtain ⟨r, hr, hs, hnt, hp, ht⟩ := elimUnreachable_ok h
  have hex := reachable_exact hr
  -- reachability in g transfers to g'
  have htr : ∀ n, Reach g n → Reach g' n := by
    intro n hn
    induction hn with
    | start => rw [← hs]; exact Reach.start
    | step p n hpp hh hn ih =>
      refine Reach.step p n ?_ ih hn
      rw [hp]
      exact List.mem_filter.mpr ⟨hpp, by simpa using (hex _).mpr hh⟩
  refine ⟨?_, ?_, ?_⟩
  · intro n hn
    rw [hnt] at hn
    exact htr n ((hex n).mp hn)
  · intro p hpp
    rw [hp] at hpp
    have := (List.mem_filter.mp hpp).2
    exact htr _ ((hex _).mp (by simpa using this))
  · intro t htm
    rw [ht] at htm
    have := (List.mem_filter.mp htm).2
    obtain ⟨p, hpp, hc⟩ := List.any_eq_true.mp this
    exact ⟨p, hp ▸ hpp, by simpa using hc⟩

theorem elimUnreachable_prods_subset {g g' : G} (h : elimUnreachable g = .ok g') : ∀ p ∈ g'.prods, p ∈ g.prods := by
  obtain ⟨r, _, _, _, hp, _⟩ := elimUnreachable_ok h
  intro p hpp
  rw [hp] at hpp
  exact (List.mem_filter.mp hpp).1

/-! ## `EliminateCycles` -/

theorem elimCycles_ok {g g' : G} (h : elimCycles g = .ok g') :
    ∃ g1 g2, elimEmpty g = .ok g1 ∧ elimSingle g1 = .ok g2 ∧ elimUnreachable g2 = .ok g' := by
  unfold elimCycles at h
  cases h1 : elimEmpty g with
  | ok g1 =>
    simp only [h1, bind, Outcome.bind] at h
    cases h2 : elimSingle g1 with
    | ok g2 =>
      simp only [h2] at h
      exact ⟨g1, g2, rfl, h2, h⟩
    | panic => simp [h2] at h
    | diverge => simp [h2] at h
  | panic => simp [h1, bind, Outcome.bind] at h
  | diverge => simp [h1, bind, Outcome.bind] at h

theorem elimCycles_sound {g g' : G} (h : elimCycles g = .ok g') (hv : WellFormed g) {w : List String}
    (hw : Language g' w) : Language g w := by
  obtain ⟨g1, g2, h1, h2, h3⟩ := elimCycles_ok h
  exact elimEmpty_sound h1 hv (elimSingle_sound h2 ((elimUnreachable_language h3 w).mp hw))

theorem elimCycles_noUnit {g g' : G} (h : elimCycles g = .ok g') : NoUnit g' := by
  obtain ⟨g1, g2, _, h2, h3⟩ := elimCycles_ok h
  intro p hp
  exact elimSingle_noUnit h2 p (elimUnreachable_prods_subset h3 p hp)

theorem elimCycles_allReachable {g g' : G} (h : elimCycles g = .ok g') : AllReachable g' := by
  obtain ⟨_, _, _, _, h3⟩ := elimCycles_ok h
  exact elimUnreachable_allReachable h3

end AlgoVerif.C08
