import AlgoVerif.Proofs.C10First
/-! `ComputeFOLLOW`: the table it returns is the least family closed under the FOLLOW rules (relative
to the FIRST function it is given), for every iteration order; when that FIRST function is exact and
every production head is reachable, this least family is "what can follow A in a sentential form". -/
set_option linter.unusedSectionVars false
namespace AlgoVerif.C10
open AlgoVerif AlgoVerif.Gram
variable {T N : Type} [DecidableEq T] [DecidableEq N]

/-- closed under the FOLLOW rules; `FS β a` / `ES β` say `a ∈ FIRST(β)` / `ε ∈ FIRST(β)` -/
def FollowClosed (g : Grammar T N) (FS : List (Sym T N) → T → Prop) (ES : List (Sym T N) → Prop)
    (Fo : N → T → Prop) (En : N → Prop) : Prop :=
  En g.start ∧
  ∀ p, p ∈ g.prods → ∀ (α : List (Sym T N)) (B : N) (β : List (Sym T N)),
    p.body = α ++ Sym.nonterm B :: β →
      (∀ a, FS β a → Fo B a) ∧ (ES β → (∀ a, Fo p.head a → Fo B a) ∧ (En p.head → En B))

theorem append_eq_split {α : Type} {x y l r : List α} {b : α} (h : x ++ y = l ++ b :: r) :
    (∃ x₂, x = l ++ b :: x₂ ∧ r = x₂ ++ y) ∨ (∃ y₁, l = x ++ y₁ ∧ y = y₁ ++ b :: r) := by
  rcases List.append_eq_append_iff.1 h with ⟨a', h1, h2⟩ | ⟨c', h1, h2⟩
  · exact Or.inr ⟨a', h1, h2⟩
  · cases c' with
    | nil =>
      simp at h1 h2
      exact Or.inr ⟨[], by simp [h1], by simp [h2]⟩
    | cons c c'' =>
      simp at h2
      obtain ⟨hc, hr⟩ := h2
      subst hc
      exact Or.inl ⟨c'', h1, hr⟩

/-! ### the spec side -/

theorem spec_first_unfold {g : Grammar T N} {p : GProd T N} (hp : p ∈ g.prods) (x v : List (Sym T N))
    {a : T} (h : Spec.First g (x ++ p.body ++ v) a) : Spec.First g (x ++ [Sym.nonterm p.head] ++ v) a := by
  obtain ⟨β, hβ⟩ := h
  exact ⟨β, (Derives.single (Step.mk x v p hp)).trans hβ⟩

theorem spec_eps_unfold {g : Grammar T N} {p : GProd T N} (hp : p ∈ g.prods) (x v : List (Sym T N))
    (h : Spec.Eps g (x ++ p.body ++ v)) : Spec.Eps g (x ++ [Sym.nonterm p.head] ++ v) :=
  (Derives.single (Step.mk x v p hp)).trans h

/-- every sentential form respects a closed family -/
theorem spec_follow_least_aux {g : Grammar T N} {Fo : N → T → Prop} {En : N → Prop}
    (hc : FollowClosed g (Spec.First g) (Spec.Eps g) Fo En) {γ : List (Sym T N)}
    (h : Derives g [Sym.nonterm g.start] γ) :
    ∀ (l : List (Sym T N)) (B : N) (ρ : List (Sym T N)), γ = l ++ Sym.nonterm B :: ρ →
      (∀ a, Spec.First g ρ a → Fo B a) ∧ (Spec.Eps g ρ → En B) := by
  induction h with
  | refl =>
    intro l B ρ e
    cases l with
    | nil =>
      simp at e
      obtain ⟨e1, e2⟩ := e
      subst e1; subst e2
      refine ⟨?_, fun _ => hc.1⟩
      intro a ⟨β, hβ⟩
      have := (Derives.of_terms (w := []) hβ)
      simp at this
    | cons c l => simp at e
  | @tail γ₀ γ₁ _ st ih =>
    intro l B ρ e
    obtain ⟨u, v, p, hp, hx, hy⟩ := step_iff.1 st
    subst hx; subst hy
    rw [List.append_assoc] at e
    rcases append_eq_split e with ⟨u₂, hu, hρ⟩ | ⟨y₁, hl, hy⟩
    · -- B sits in u: the old occurrence, the rest got rewritten
      subst hu; subst hρ
      obtain ⟨i1, i2⟩ := ih l B (u₂ ++ [Sym.nonterm p.head] ++ v) (by simp [List.append_assoc])
      constructor
      · intro a ha
        apply i1
        have := spec_first_unfold hp u₂ v (a := a) (by simpa [List.append_assoc] using ha)
        simpa [List.append_assoc] using this
      · intro ha
        apply i2
        have := spec_eps_unfold hp u₂ v (by simpa [List.append_assoc] using ha)
        simpa [List.append_assoc] using this
    · rcases append_eq_split hy with ⟨b₂, hb, hρ⟩ | ⟨v₁, hy1, hv⟩
      · -- B sits in the body of the production just applied
        subst hρ
        obtain ⟨c1, c2⟩ := hc.2 p hp y₁ B b₂ hb
        obtain ⟨i1, i2⟩ := ih u p.head v (by simp [List.append_assoc])
        constructor
        · intro a ⟨β, hβ⟩
          obtain ⟨γ₁, γ₂, hγ, d₁, d₂⟩ := Derives.split hβ
          cases γ₁ with
          | nil =>
            simp at hγ; subst hγ
            exact (c2 d₁).1 a (i1 a ⟨β, d₂⟩)
          | cons c γ₁' =>
            simp at hγ
            obtain ⟨hc1, _⟩ := hγ
            subst hc1
            exact c1 a ⟨γ₁', d₁⟩
        · intro ha
          obtain ⟨γ₁, γ₂, hγ, d₁, d₂⟩ := Derives.split ha
          obtain ⟨h1, h2⟩ := List.append_eq_nil_iff.1 hγ.symm
          subst h1; subst h2
          exact (c2 d₁).2 (i2 d₂)
      · -- B sits in v: untouched
        subst hv
        exact ih (u ++ [Sym.nonterm p.head] ++ v₁) B ρ (by simp [List.append_assoc])

theorem spec_follow_least {g : Grammar T N} {Fo : N → T → Prop} {En : N → Prop}
    (hc : FollowClosed g (Spec.First g) (Spec.Eps g) Fo En) (A : N) :
    (∀ a, Spec.Follow g A a → Fo A a) ∧ (Spec.FollowEnd g A → En A) := by
  constructor
  · intro a ⟨α, β, h⟩
    have := (spec_follow_least_aux hc h α A (Sym.term a :: β) (by simp)).1 a
    exact this ⟨β, Derives.refl _⟩
  · intro ⟨α, h⟩
    exact (spec_follow_least_aux hc h α A [] rfl).2 (Derives.refl _)

/-- the Spec's FOLLOW is closed when every production head occurs in a sentential form -/
theorem spec_follow_closed {g : Grammar T N}
    (hreach : ∀ p, p ∈ g.prods → ∃ x y, Derives g [Sym.nonterm g.start] (x ++ [Sym.nonterm p.head] ++ y)) :
    FollowClosed g (Spec.First g) (Spec.Eps g) (Spec.Follow g) (Spec.FollowEnd g) := by
  refine ⟨⟨[], Derives.refl _⟩, ?_⟩
  intro p hp α B β hb
  have hstep : ∀ x y, Derives g (x ++ [Sym.nonterm p.head] ++ y) (x ++ (α ++ Sym.nonterm B :: β) ++ y) := by
    intro x y
    have := Derives.single (Step.mk (g := g) x y p hp)
    rwa [hb] at this
  constructor
  · intro a ⟨β', hβ'⟩
    obtain ⟨x, y, hxy⟩ := hreach p hp
    refine ⟨x ++ α, β' ++ y, ?_⟩
    have h2 : Derives g (x ++ (α ++ Sym.nonterm B :: β) ++ y) (x ++ (α ++ Sym.nonterm B :: (Sym.term a :: β')) ++ y) := by
      have := ((hβ'.append_left (x ++ α ++ [Sym.nonterm B])).append_right y)
      simpa [List.append_assoc] using this
    have := (hxy.trans (hstep x y)).trans h2
    simpa [List.append_assoc] using this
  · intro hε
    have hβ : Derives g β [] := hε
    constructor
    · intro a ⟨x, y, hxy⟩
      refine ⟨x ++ α, y, ?_⟩
      have h1 := hstep x (Sym.term a :: y)
      have h2 : Derives g (x ++ (α ++ Sym.nonterm B :: β) ++ Sym.term a :: y) (x ++ (α ++ [Sym.nonterm B]) ++ Sym.term a :: y) := by
        have := ((hβ.append_left (x ++ α ++ [Sym.nonterm B])).append_right (Sym.term a :: y))
        simpa [List.append_assoc] using this
      have h0 : Derives g [Sym.nonterm g.start] (x ++ [Sym.nonterm p.head] ++ Sym.term a :: y) := by
        simpa [List.append_assoc] using hxy
      have := (h0.trans h1).trans h2
      simpa [List.append_assoc] using this
    · intro ⟨x, hx⟩
      refine ⟨x ++ α, ?_⟩
      have h1 := hstep x []
      have h2 : Derives g (x ++ (α ++ Sym.nonterm B :: β) ++ []) (x ++ (α ++ [Sym.nonterm B]) ++ []) := by
        have := ((hβ.append_left (x ++ α ++ [Sym.nonterm B])).append_right [])
        simpa [List.append_assoc] using this
      have h0 : Derives g [Sym.nonterm g.start] (x ++ [Sym.nonterm p.head] ++ []) := by
        simpa using hx
      have := (h0.trans h1).trans h2
      simpa [List.append_assoc] using this

/-! ### the model side -/

def Fot (fo : N → TEnd T) : N → T → Prop := fun n a => a ∈ (fo n).terms
def Ent (fo : N → TEnd T) : N → Prop := fun n => (fo n).endm = true

theorem TEnd.eta (x : TEnd T) : (⟨x.terms, x.endm⟩ : TEnd T) = x := rfl

theorem followBody_flag (first : List (Sym T N) → TE T) (A : N) (body : List (Sym T N)) (fo : N → TEnd T) :
    (followBody first A body fo true).2 = true := by
  induction body generalizing fo with
  | nil => rfl
  | cons s rest ih =>
    cases s with
    | term t => simp only [followBody]; exact ih _
    | nonterm B =>
      simp only [followBody, Bool.true_or]
      split
      · exact ih _
      · exact ih _

theorem followPass_flag (first : List (Sym T N) → TE T) (ps : List (GProd T N)) (fo : N → TEnd T) :
    (followPass first ps (fo, true)).2 = true := by
  induction ps generalizing fo with
  | nil => rfl
  | cons p ps ih =>
    simp only [followPass]
    have := followBody_flag first p.head p.body fo
    generalize followBody first p.head p.body fo true = r at this ⊢
    obtain ⟨a, b⟩ := r
    simp at this; subst this
    exact ih _

/-- what one occurrence `… B β` in a production of `A` asks of the table -/
def OccOK (first : List (Sym T N) → TE T) (fo : N → TEnd T) (A B : N) (β : List (Sym T N)) : Prop :=
  (∀ a, a ∈ (first β).terms → a ∈ (fo B).terms) ∧
  ((first β).eps = true → (∀ a, a ∈ (fo A).terms → a ∈ (fo B).terms) ∧ ((fo A).endm = true → (fo B).endm = true))

theorem followBody_quiet (first : List (Sym T N) → TE T) (A : N) :
    ∀ (body : List (Sym T N)) (fo : N → TEnd T) (r : (N → TEnd T) × Bool),
      followBody first A body fo false = r → r.2 = false →
      r.1 = fo ∧ ∀ (α : List (Sym T N)) (B : N) (β : List (Sym T N)),
        body = α ++ Sym.nonterm B :: β → OccOK first fo A B β := by
  intro body
  induction body with
  | nil =>
    intro fo r h _
    simp [followBody] at h; subst h
    refine ⟨rfl, ?_⟩
    intro α B β e; simp at e
  | cons s rest ih =>
    intro fo r h hr
    cases s with
    | term t =>
      simp only [followBody] at h
      obtain ⟨h1, h2⟩ := ih fo r h hr
      refine ⟨h1, ?_⟩
      intro α B β e
      cases α with
      | nil => simp at e
      | cons c α' =>
        simp at e
        exact h2 α' B β e.2
    | nonterm B₀ =>
      simp only [followBody, Bool.false_or] at h
      by_cases hlen : (union (fo B₀).terms (first rest).terms).length > (fo B₀).terms.length
      · simp only [hlen, decide_true] at h
        split at h
        · have := followBody_flag first A rest (upd (upd fo B₀ ⟨union (fo B₀).terms (first rest).terms, (fo B₀).endm⟩) B₀
            ⟨union (union (fo B₀).terms (first rest).terms)
              ((upd fo B₀ ⟨union (fo B₀).terms (first rest).terms, (fo B₀).endm⟩) A).terms,
             (fo B₀).endm || ((upd fo B₀ ⟨union (fo B₀).terms (first rest).terms, (fo B₀).endm⟩) A).endm⟩)
          simp only [Bool.true_or] at h
          rw [h] at this; rw [this] at hr; cases hr
        · have := followBody_flag first A rest (upd fo B₀ ⟨union (fo B₀).terms (first rest).terms, (fo B₀).endm⟩)
          rw [h] at this; rw [this] at hr; cases hr
      · have hsub := subset_of_union_length hlen
        have hu := union_eq_self_of_length hlen
        simp only [hlen, decide_false] at h
        rw [hu, TEnd.eta, upd_self] at h
        by_cases he : (first rest).eps = true
        · simp only [he, if_true, Bool.false_or] at h
          by_cases hlen2 : (union (fo B₀).terms (fo A).terms).length > (fo B₀).terms.length
          · simp only [hlen2, decide_true, Bool.true_or] at h
            have := followBody_flag first A rest (upd fo B₀ ⟨union (fo B₀).terms (fo A).terms, (fo B₀).endm || (fo A).endm⟩)
            rw [h] at this; rw [this] at hr; cases hr
          · have hsub2 := subset_of_union_length hlen2
            have hu2 := union_eq_self_of_length hlen2
            simp only [hlen2, decide_false, Bool.false_or] at h
            by_cases hend : ((fo A).endm && !(fo B₀).endm) = true
            · simp only [hend] at h
              have := followBody_flag first A rest (upd fo B₀ ⟨union (fo B₀).terms (fo A).terms, (fo B₀).endm || (fo A).endm⟩)
              rw [h] at this; rw [this] at hr; cases hr
            · have hend' : (fo A).endm = true → (fo B₀).endm = true := by
                intro h1
                cases h2 : (fo B₀).endm
                · simp [h1, h2] at hend
                · rfl
              have hor : ((fo B₀).endm || (fo A).endm) = (fo B₀).endm := by
                cases h1 : (fo A).endm
                · simp
                · simp [hend' h1]
              simp only [hend] at h
              rw [hu2, hor, TEnd.eta, upd_self] at h
              obtain ⟨h1, h2⟩ := ih fo r h hr
              refine ⟨h1, ?_⟩
              intro α B β e
              cases α with
              | nil =>
                simp at e
                obtain ⟨e1, e2⟩ := e
                subst e1; subst e2
                exact ⟨hsub, fun _ => ⟨hsub2, hend'⟩⟩
              | cons c α' =>
                simp at e
                exact h2 α' B β e.2
        · simp only [he] at h
          obtain ⟨h1, h2⟩ := ih fo r h hr
          refine ⟨h1, ?_⟩
          intro α B β e
          cases α with
          | nil =>
            simp at e
            obtain ⟨e1, e2⟩ := e
            subst e1; subst e2
            exact ⟨hsub, fun h => absurd h he⟩
          | cons c α' =>
            simp at e
            exact h2 α' B β e.2

theorem followPass_quiet {first : List (Sym T N) → TE T} {ps : List (GProd T N)} {fo : N → TEnd T}
    {r : (N → TEnd T) × Bool} (h : followPass first ps (fo, false) = r) (hr : r.2 = false) :
    r.1 = fo ∧ ∀ p, p ∈ ps → ∀ (α : List (Sym T N)) (B : N) (β : List (Sym T N)),
      p.body = α ++ Sym.nonterm B :: β → OccOK first fo p.head B β := by
  induction ps generalizing fo with
  | nil => simp [followPass] at h; subst h; exact ⟨rfl, by intro p hp; cases hp⟩
  | cons p ps ih =>
    simp only [followPass] at h
    generalize hq : followBody first p.head p.body fo false = q at h
    obtain ⟨fo1, f1⟩ := q
    cases f1 with
    | true =>
      have := followPass_flag first ps fo1
      rw [h] at this; rw [this] at hr; cases hr
    | false =>
      obtain ⟨e1, e2⟩ := followBody_quiet first p.head p.body fo _ hq rfl
      simp at e1; subst e1
      obtain ⟨h3, h4⟩ := ih h
      refine ⟨h3, ?_⟩
      intro q hq
      rcases List.mem_cons.1 hq with rfl | hq
      · exact e2
      · exact h4 q hq

/-- the table is below the family `(Fo, En)` -/
def BelowFo (fo : N → TEnd T) (Fo : N → T → Prop) (En : N → Prop) : Prop :=
  (∀ n a, a ∈ (fo n).terms → Fo n a) ∧ (∀ n, (fo n).endm = true → En n)

theorem BelowFo.upd {fo : N → TEnd T} {Fo : N → T → Prop} {En : N → Prop} (hb : BelowFo fo Fo En)
    {B : N} {ts : List T} {e : Bool} (h1 : ∀ a, a ∈ ts → Fo B a) (h2 : e = true → En B) :
    BelowFo (upd fo B ⟨ts, e⟩) Fo En := by
  constructor
  · intro n a ha
    unfold C10.upd at ha
    split at ha
    · rename_i hn; subst hn; exact h1 a ha
    · exact hb.1 n a ha
  · intro n hn
    unfold C10.upd at hn
    split at hn
    · rename_i hx; subst hx; exact h2 hn
    · exact hb.2 n hn

theorem followBody_sound {first : List (Sym T N) → TE T} {Fo : N → T → Prop} {En : N → Prop} (A : N) :
    ∀ (body : List (Sym T N)) (fo : N → TEnd T) (u : Bool), BelowFo fo Fo En →
      (∀ (α : List (Sym T N)) (B : N) (β : List (Sym T N)), body = α ++ Sym.nonterm B :: β →
        (∀ a, a ∈ (first β).terms → Fo B a) ∧
        ((first β).eps = true → (∀ a, Fo A a → Fo B a) ∧ (En A → En B))) →
      BelowFo (followBody first A body fo u).1 Fo En := by
  intro body
  induction body with
  | nil => intro fo u hb _; simpa [followBody] using hb
  | cons s rest ih =>
    intro fo u hb hocc
    have hocc' : ∀ (α : List (Sym T N)) (B : N) (β : List (Sym T N)), rest = α ++ Sym.nonterm B :: β →
        (∀ a, a ∈ (first β).terms → Fo B a) ∧
        ((first β).eps = true → (∀ a, Fo A a → Fo B a) ∧ (En A → En B)) := by
      intro α B β e
      exact hocc (s :: α) B β (by simp [e])
    cases s with
    | term t => simp only [followBody]; exact ih fo u hb hocc'
    | nonterm B₀ =>
      obtain ⟨o1, o2⟩ := hocc [] B₀ rest rfl
      simp only [followBody]
      have hb1 : BelowFo (upd fo B₀ ⟨union (fo B₀).terms (first rest).terms, (fo B₀).endm⟩) Fo En := by
        apply hb.upd
        · intro a ha
          rcases mem_union.1 ha with ha | ha
          · exact hb.1 _ a ha
          · exact o1 a ha
        · exact hb.2 _
      split
      · rename_i he
        obtain ⟨o3, o4⟩ := o2 he
        apply ih _ _ _ hocc'
        apply hb1.upd
        · intro a ha
          rcases mem_union.1 ha with ha | ha
          · rcases mem_union.1 ha with ha | ha
            · exact hb.1 _ a ha
            · exact o1 a ha
          · exact o3 a (hb1.1 A a ha)
        · intro h
          simp only [Bool.or_eq_true] at h
          rcases h with h | h
          · exact hb.2 _ h
          · exact o4 (hb1.2 A h)
      · exact ih _ _ hb1 hocc'

theorem followPass_sound {g : Grammar T N} {first : List (Sym T N) → TE T}
    {FS : List (Sym T N) → T → Prop} {ES : List (Sym T N) → Prop}
    (hF : ∀ β a, a ∈ (first β).terms → FS β a) (hE : ∀ β, (first β).eps = true → ES β)
    {Fo : N → T → Prop} {En : N → Prop} (hc : FollowClosed g FS ES Fo En)
    {ps : List (GProd T N)} (hps : ∀ p, p ∈ ps → p ∈ g.prods) {fo : N → TEnd T} {u : Bool}
    (hb : BelowFo fo Fo En) : BelowFo (followPass first ps (fo, u)).1 Fo En := by
  induction ps generalizing fo u with
  | nil => simpa [followPass] using hb
  | cons p ps ih =>
    simp only [followPass]
    have hp := hps p (List.mem_cons_self ..)
    have h1 : BelowFo (followBody first p.head p.body fo u).1 Fo En := by
      apply followBody_sound p.head p.body fo u hb
      intro α B β e
      obtain ⟨c1, c2⟩ := hc.2 p hp α B β e
      exact ⟨fun a ha => c1 a (hF β a ha), fun he => c2 (hE β he)⟩
    generalize followBody first p.head p.body fo u = r at h1 ⊢
    obtain ⟨a, b⟩ := r
    exact ih (fun q hq => hps q (List.mem_cons_of_mem _ hq)) h1

theorem followLoop_closed {g : Grammar T N} {o : IterOrder T N} (ho : o.Fair)
    {first : List (Sym T N) → TE T} :
    ∀ (fuel i : Nat) (fo R : N → TEnd T), followLoop g o first fuel i fo = .ok R →
      ∀ p, p ∈ g.prods → ∀ (α : List (Sym T N)) (B : N) (β : List (Sym T N)),
        p.body = α ++ Sym.nonterm B :: β → OccOK first R p.head B β := by
  intro fuel
  induction fuel with
  | zero => intro i fo R h; simp [followLoop] at h
  | succ fuel ih =>
    intro i fo R h
    simp only [followLoop] at h
    generalize hr : followPass first (passProds g o i) (fo, false) = r at h
    obtain ⟨fo', f⟩ := r
    cases f with
    | true => simp at h; exact ih _ _ _ h
    | false =>
      simp at h; subst h
      obtain ⟨e1, e2⟩ := followPass_quiet hr rfl
      simp at e1; subst e1
      intro p hp
      exact e2 p ((mem_passProds_iff ho i).2 hp)

/-- the endmarker stays in FOLLOW(S) -/
theorem followBody_keeps_end (first : List (Sym T N) → TE T) (A : N) (body : List (Sym T N))
    (fo : N → TEnd T) (u : Bool) (n : N) (h : (fo n).endm = true) :
    ((followBody first A body fo u).1 n).endm = true := by
  induction body generalizing fo u with
  | nil => simpa [followBody] using h
  | cons s rest ih =>
    cases s with
    | term t => simp only [followBody]; exact ih _ _ h
    | nonterm B =>
      simp only [followBody]
      have h1 : ((upd fo B ⟨union (fo B).terms (first rest).terms, (fo B).endm⟩) n).endm = true := by
        unfold upd; split
        · rename_i e; subst e; exact h
        · exact h
      split
      · apply ih
        by_cases e : n = B
        · subst e; rw [upd_same]; simp [h]
        · rw [upd_other _ _ e]; exact h1
      · exact ih _ _ h1

theorem followPass_keeps_end (first : List (Sym T N) → TE T) (ps : List (GProd T N))
    (fo : N → TEnd T) (u : Bool) (n : N) (h : (fo n).endm = true) :
    ((followPass first ps (fo, u)).1 n).endm = true := by
  induction ps generalizing fo u with
  | nil => simpa [followPass] using h
  | cons p ps ih =>
    simp only [followPass]
    have := followBody_keeps_end first p.head p.body fo u n h
    generalize followBody first p.head p.body fo u = r at this ⊢
    obtain ⟨a, b⟩ := r
    exact ih _ _ this

theorem followLoop_keeps_end {g : Grammar T N} {o : IterOrder T N} {first : List (Sym T N) → TE T} (n : N) :
    ∀ (fuel i : Nat) (fo R : N → TEnd T), (fo n).endm = true → followLoop g o first fuel i fo = .ok R →
      (R n).endm = true := by
  intro fuel
  induction fuel with
  | zero => intro i fo R _ h; simp [followLoop] at h
  | succ fuel ih =>
    intro i fo R h0 h
    simp only [followLoop] at h
    have hk := followPass_keeps_end first (passProds g o i) fo false n h0
    generalize followPass first (passProds g o i) (fo, false) = r at h hk
    obtain ⟨fo', f⟩ := r
    cases f with
    | true => simp at h; exact ih _ _ _ hk h
    | false => simp at h; subst h; exact hk

theorem followLoop_least {g : Grammar T N} {o : IterOrder T N} (ho : o.Fair)
    {first : List (Sym T N) → TE T} {FS : List (Sym T N) → T → Prop} {ES : List (Sym T N) → Prop}
    (hF : ∀ β a, a ∈ (first β).terms → FS β a) (hE : ∀ β, (first β).eps = true → ES β)
    {Fo : N → T → Prop} {En : N → Prop} (hc : FollowClosed g FS ES Fo En) :
    ∀ (fuel i : Nat) (fo R : N → TEnd T), BelowFo fo Fo En → followLoop g o first fuel i fo = .ok R →
      BelowFo R Fo En := by
  intro fuel
  induction fuel with
  | zero => intro i fo R _ h; simp [followLoop] at h
  | succ fuel ih =>
    intro i fo R hb h
    simp only [followLoop] at h
    have hs := followPass_sound hF hE hc (ps := passProds g o i)
      (fun p hp => (mem_passProds_iff ho i).1 hp) (u := false) hb
    generalize followPass first (passProds g o i) (fo, false) = r at h hs
    obtain ⟨fo', f⟩ := r
    cases f with
    | true => simp at h; exact ih _ _ _ hs h
    | false => simp at h; subst h; exact hs

/-- the answer of `ComputeFOLLOW` is closed (relative to the FIRST function it was given) … -/
theorem computeFollow_closed {g : Grammar T N} {o : IterOrder T N} (ho : o.Fair)
    {first : List (Sym T N) → TE T} {FS : List (Sym T N) → T → Prop} {ES : List (Sym T N) → Prop}
    (hF : ∀ β a, FS β a → a ∈ (first β).terms) (hE : ∀ β, ES β → (first β).eps = true)
    {R : N → TEnd T} (h : computeFollow g o first = .ok R) :
    FollowClosed g FS ES (Fot R) (Ent R) := by
  constructor
  · exact followLoop_keeps_end g.start _ _ _ _ (by simp [followInit]) h
  · intro p hp α B β e
    obtain ⟨o1, o2⟩ := followLoop_closed ho _ _ _ _ h p hp α B β e
    exact ⟨fun a ha => o1 a (hF β a ha), fun he => o2 (hE β he)⟩

/-- … and below every closed family -/
theorem computeFollow_least {g : Grammar T N} {o : IterOrder T N} (ho : o.Fair)
    {first : List (Sym T N) → TE T} {FS : List (Sym T N) → T → Prop} {ES : List (Sym T N) → Prop}
    (hF : ∀ β a, a ∈ (first β).terms → FS β a) (hE : ∀ β, (first β).eps = true → ES β)
    {Fo : N → T → Prop} {En : N → Prop} (hc : FollowClosed g FS ES Fo En)
    {R : N → TEnd T} (h : computeFollow g o first = .ok R) : BelowFo R Fo En := by
  apply followLoop_least ho hF hE hc _ _ _ _ _ h
  constructor
  · intro n a ha; simp [followInit] at ha
  · intro n hn
    simp [followInit] at hn
    subst hn; exact hc.1

end AlgoVerif.C10
