import AlgoVerif.Model.C07
/-!
# C07 — `Merge` / `MergeRec` in n log n, for the driver

The Model's `copyRange` (`copy(aux[lo:hi], a[lo:hi])`) is written as `Array.ofFn` over the whole slice — convenient
for the proofs, but every call costs `len(a)`, which makes the executable `mergeBU` / `mergeRec` quadratic
(a minute for 65 536 elements).  `copyRangeFast` writes the `hi - lo` elements in place; `mergeBUFast` /
`mergeRecFast` are the Model's functions with that one replacement, proved equal to them
(`mergeBUFast_eq`, `mergeRecFast_eq`), so what the driver prints is what the Model of the theorems computes.
The Model itself is untouched.  Core only (the driver imports this file).
-/
namespace AlgoVerif.C07

variable {α : Type}

/-- `for k := lo; k < lo + c; k++ { dst[k] = src[k] }` -/
def copyLoop (src : Array α) : Nat → Nat → Array α → Array α
  | 0, _, dst => dst
  | c + 1, k, dst => copyLoop src c (k + 1) (if h : k < src.size then dst.setIfInBounds k src[k] else dst)

theorem copyLoop_size (src : Array α) (c k : Nat) (dst : Array α) : (copyLoop src c k dst).size = dst.size := by
  induction c generalizing k dst with
  | zero => rfl
  | succ c ih => simp only [copyLoop]; rw [ih]; split <;> simp

theorem copyLoop_getElem (src : Array α) (c k : Nat) (dst : Array α) (hk : k + c ≤ src.size) (i : Nat)
    (h1 : i < (copyLoop src c k dst).size) (h2 : i < dst.size) :
    (copyLoop src c k dst)[i] = if h : k ≤ i ∧ i < k + c then src[i]'(by omega) else dst[i] := by
  induction c generalizing k dst with
  | zero => simp [copyLoop]; intro h; omega
  | succ c ih =>
    simp only [copyLoop]
    have hks : k < src.size := by omega
    simp only [hks, dite_true]
    rw [ih (k + 1) _ (by omega) (by simpa [copyLoop, hks] using h1) (by simpa using h2)]
    by_cases hik : i = k
    · subst hik
      have h3 : ¬ (i + 1 ≤ i ∧ i < i + 1 + c) := by omega
      have h4 : i ≤ i ∧ i < i + (c + 1) := by omega
      rw [dif_neg h3, dif_pos h4, Array.getElem_setIfInBounds h2]
      simp
    · by_cases hin : k + 1 ≤ i ∧ i < k + 1 + c
      · have : k ≤ i ∧ i < k + (c + 1) := by omega
        rw [dif_pos hin, dif_pos this]
      · have : ¬ (k ≤ i ∧ i < k + (c + 1)) := by omega
        have hki : ¬ k = i := fun h => hik h.symm
        rw [dif_neg hin, dif_neg this]
        exact Array.getElem_setIfInBounds_ne h2 hki

def copyRangeFast (dst src : Array α) (lo hi : Int) : Outcome (Array α) :=
  if 0 ≤ lo ∧ lo ≤ hi ∧ hi ≤ dst.size ∧ hi ≤ src.size then
    .ok (copyLoop src (hi - lo).toNat lo.toNat dst)
  else .panic

theorem copyRangeFast_eq (dst src : Array α) (lo hi : Int) : copyRangeFast dst src lo hi = copyRange dst src lo hi := by
  unfold copyRangeFast copyRange
  by_cases h0 : 0 ≤ lo ∧ lo ≤ hi ∧ hi ≤ dst.size ∧ hi ≤ src.size
  · simp only [h0, and_self, if_true, dite_true]
    congr 1
    apply Array.ext
    · simp [copyLoop_size]
    · intro i h1 h2
      have hd : i < dst.size := by simpa [copyLoop_size] using h1
      rw [copyLoop_getElem src _ _ dst (by omega) i h1 hd]
      simp only [Array.getElem_ofFn]
      by_cases hin : lo ≤ (i : Int) ∧ (i : Int) < hi
      · have : lo.toNat ≤ i ∧ i < lo.toNat + (hi - lo).toNat := by omega
        rw [dif_pos hin, dif_pos this]
      · have : ¬ (lo.toNat ≤ i ∧ i < lo.toNat + (hi - lo).toNat) := by omega
        rw [dif_neg hin, dif_neg this]
  · simp [h0]

/-- `merge` with the in-place copy -/
def mergeFast (cmp : α → α → Int) (a aux : Array α) (lo mid hi : Int) : Outcome (Array α × Array α) := do
  let aux ← copyRangeFast aux a lo (hi+1)
  let a ← mergeLoop cmp aux mid hi ((hi - lo).toNat + 2) lo lo (mid+1) a
  .ok (a, aux)

theorem mergeFast_eq (cmp : α → α → Int) (a aux : Array α) (lo mid hi : Int) :
    mergeFast cmp a aux lo mid hi = merge cmp a aux lo mid hi := by
  simp [mergeFast, merge, copyRangeFast_eq]

def mergePassFast (cmp : α → α → Int) (n sz : Int) : Nat → Int → Array α → Array α → Outcome (Array α × Array α)
  | 0, _, _, _ => .diverge
  | f+1, lo, a, aux =>
    if lo < n - sz then do
      let (a, aux) ← mergeFast cmp a aux lo (lo+sz-1) (imin (lo+sz+sz-1) (n-1))
      mergePassFast cmp n sz f (lo + (sz + sz)) a aux
    else .ok (a, aux)

theorem mergePassFast_eq (cmp : α → α → Int) (n sz : Int) (f : Nat) (lo : Int) (a aux : Array α) :
    mergePassFast cmp n sz f lo a aux = mergePass cmp n sz f lo a aux := by
  induction f generalizing lo a aux with
  | zero => rfl
  | succ f ih => simp only [mergePassFast, mergePass, mergeFast_eq, ih]

def mergeSizesFast (cmp : α → α → Int) (n : Int) : Nat → Int → Array α → Array α → Outcome (Array α × Array α)
  | 0, _, _, _ => .diverge
  | f+1, sz, a, aux =>
    if sz < n then do
      let (a, aux) ← mergePassFast cmp n sz (n.toNat + 1) 0 a aux
      mergeSizesFast cmp n f (sz + sz) a aux
    else .ok (a, aux)

theorem mergeSizesFast_eq (cmp : α → α → Int) (n : Int) (f : Nat) (sz : Int) (a aux : Array α) :
    mergeSizesFast cmp n f sz a aux = mergeSizes cmp n f sz a aux := by
  induction f generalizing sz a aux with
  | zero => rfl
  | succ f ih => simp only [mergeSizesFast, mergeSizes, mergePassFast_eq, ih]

def mergeBUFast (cmp : α → α → Int) (zero : α) (a : Array α) : Outcome (Array α) := do
  let n : Int := a.size
  let aux := Array.replicate a.size zero
  let (a, _) ← mergeSizesFast cmp n (a.size + 1) 1 a aux
  .ok a

theorem mergeBUFast_eq (cmp : α → α → Int) (zero : α) (a : Array α) : mergeBUFast cmp zero a = mergeBU cmp zero a := by
  simp only [mergeBUFast, mergeBU, mergeSizesFast_eq]

def mergeRecAuxFast (cmp : α → α → Int) : Nat → Array α → Array α → Int → Int → Outcome (Array α × Array α)
  | 0, _, _, _, _ => .diverge
  | f+1, a, aux, lo, hi =>
    if hi ≤ lo then .ok (a, aux)
    else do
      let mid := (lo + hi) / 2
      let (a, aux) ← mergeRecAuxFast cmp f a aux lo mid
      let (a, aux) ← mergeRecAuxFast cmp f a aux (mid+1) hi
      let x ← get a (mid+1)
      let y ← get a mid
      if cmp x y ≥ 0 then .ok (a, aux)
      else mergeFast cmp a aux lo mid hi

theorem mergeRecAuxFast_eq (cmp : α → α → Int) (f : Nat) (a aux : Array α) (lo hi : Int) :
    mergeRecAuxFast cmp f a aux lo hi = mergeRecAux cmp f a aux lo hi := by
  induction f generalizing a aux lo hi with
  | zero => rfl
  | succ f ih => simp only [mergeRecAuxFast, mergeRecAux, mergeFast_eq, ih]

def mergeRecFast (cmp : α → α → Int) (zero : α) (a : Array α) : Outcome (Array α) := do
  let n : Int := a.size
  let aux := Array.replicate a.size zero
  let (a, _) ← mergeRecAuxFast cmp (a.size + 1) a aux 0 (n-1)
  .ok a

theorem mergeRecFast_eq (cmp : α → α → Int) (zero : α) (a : Array α) : mergeRecFast cmp zero a = mergeRec cmp zero a := by
  simp only [mergeRecFast, mergeRec, mergeRecAuxFast_eq]

end AlgoVerif.C07
