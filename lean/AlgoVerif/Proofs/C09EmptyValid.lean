import AlgoVerif.Proofs.C09Valid
/-!
# The result of `EliminateEmptyProductions` passes `Verify()` — without assuming `L(G) ≠ ∅`

Everything the pruning step removes after ε-elimination is a nullable non-terminal: a non-nullable
non-terminal keeps the variant of one of its bodies that drops every nullable symbol, and that variant
mentions non-nullable non-terminals only.  So the start symbol keeps a production (if it is nullable, the
fresh start symbol has `S′ → ε`, which pruning never removes).
-/
namespace AlgoVerif.C08
open AlgoVerif AlgoVerif.Gram AlgoVerif.C08.Spec

/-- drop every nullable non-terminal -/
def minVar (nul : List String) (b : List SSym) : List SSym :=
  b.filter fun s => match s with
    | .nonterm n => decide (n ∉ nul)
    | .term _ => true

theorem minVar_variant (nul : List String) : ∀ b : List SSym, Variant nul b (minVar nul b) := by
  intro b
  induction b with
  | nil => exact Variant.nil
  | cons s b ih =>
    cases s with
    | term t => simpa [minVar] using Variant.keep (Sym.term t) ih
    | nonterm n =>
      by_cases hn : n ∈ nul
      · have : minVar nul (Sym.nonterm n :: b) = minVar nul b := by simp [minVar, hn]
        rw [this]; exact Variant.drop n hn ih
      · have : minVar nul (Sym.nonterm n :: b) = Sym.nonterm n :: minVar nul b := by simp [minVar, hn]
        rw [this]; exact Variant.keep _ ih

theorem minVar_ne_nil {nul : List String} : ∀ {b : List SSym}, bodyAllIn nul b = false → minVar nul b ≠ [] := by
  intro b
  induction b with
  | nil => intro h; simp [bodyAllIn] at h
  | cons s b ih =>
    intro h
    cases s with
    | term t => simp [minVar]
    | nonterm n =>
      by_cases hn : n ∈ nul
      · have hb : bodyAllIn nul b = false := by
          unfold bodyAllIn at h ⊢
          simpa [hn] using h
        have : minVar nul (Sym.nonterm n :: b) = minVar nul b := by simp [minVar, hn]
        rw [this]; exact ih hb
      · simp [minVar, hn]

theorem mem_minVar {nul : List String} {b : List SSym} {n : String} (h : Sym.nonterm n ∈ minVar nul b) :
    n ∉ nul ∧ Sym.nonterm n ∈ b := by
  unfold minVar at h
  obtain ⟨h1, h2⟩ := List.mem_filter.mp h
  exact ⟨by simpa using h2, h1⟩

/-- every non-nullable declared non-terminal has a production over non-nullable declared non-terminals -/
def KeepsNonNullable (g : G) (nul : List String) (gk : G) : Prop :=
  ∀ X ∈ g.nonterms, X ∉ nul → ∃ p ∈ gk.prods, p.head = X ∧ ∀ n, Sym.nonterm n ∈ p.body → n ∉ nul ∧ n ∈ g.nonterms

theorem pruneStep_keeps {g : G} {nul : List String} {gk gk' : G} (h : pruneStep gk = some gk')
    (hk : KeepsNonNullable g nul gk) : KeepsNonNullable g nul gk' := by
  obtain ⟨n, _, _, hnp, _, _, _, hp⟩ := pruneStep_spec h
  intro X hX hXn
  obtain ⟨p, hpk, hh, hb⟩ := hk X hX hXn
  refine ⟨p, ?_, hh, hb⟩
  rw [hp]
  refine List.mem_filter.mpr ⟨hpk, ?_⟩
  cases hc : p.body.contains (Sym.nonterm n) with
  | false => rfl
  | true =>
    exfalso
    have hm : Sym.nonterm n ∈ p.body := by simpa using hc
    obtain ⟨hnn, hng⟩ := hb n hm
    obtain ⟨q, hq, hqh, _⟩ := hk n hng hnn
    have : hasProd gk.prods n = true := hasProd_iff.mpr ⟨q, hq, hqh⟩
    rw [hnp] at this; cases this

theorem pruneN_keeps {g : G} {nul : List String} (k : Nat) : ∀ gk : G, KeepsNonNullable g nul gk →
    KeepsNonNullable g nul (pruneN k gk) := by
  induction k with
  | zero => intro gk h; exact h
  | succ k ih =>
    intro gk h
    simp only [pruneN]
    split
    · exact h
    · rename_i gk' hg'
      exact ih gk' (pruneStep_keeps hg' h)

theorem pruneN_keeps_nil (k : Nat) : ∀ (gk : G) (p : SProd), p ∈ gk.prods → p.body = [] → p ∈ (pruneN k gk).prods := by
  induction k with
  | zero => intro gk p hp _; exact hp
  | succ k ih =>
    intro gk p hp hb
    simp only [pruneN]
    split
    · exact hp
    · rename_i gk' hg'
      obtain ⟨n, _, _, _, _, _, _, hpr⟩ := pruneStep_spec hg'
      refine ih gk' p ?_ hb
      rw [hpr]
      exact List.mem_filter.mpr ⟨hp, by simp [hb]⟩

theorem emptyFree_keeps {g : G} {nul : List String} (hn : nullable g = .ok nul) (hv : Valid g) :
    ∀ X ∈ g.nonterms, X ∉ nul → ∃ p ∈ emptyFreeProds nul g.prods, p.head = X ∧
      ∀ n, Sym.nonterm n ∈ p.body → n ∉ nul ∧ n ∈ g.nonterms := by
  have hfix : nullablePass g.prods nul = nul := by
    unfold nullable at hn
    exact iterFix_fix _ _ _ _ (ofOpt_ok hn)
  intro X hX hXn
  obtain ⟨p, hp, hh⟩ := hv.2.1 X hX
  have hb : bodyAllIn nul p.body = false := by
    cases hc : bodyAllIn nul p.body with
    | false => rfl
    | true => exact absurd (hh ▸ nullablePass_closed hfix p hp hc) hXn
  have hne := minVar_ne_nil hb
  have hbody : p.body ≠ [] := (minVar_variant nul p.body).nonempty_body hne
  refine ⟨{ head := p.head, body := minVar nul p.body },
    mem_emptyFreeProds hp (mem_expandBody (minVar_variant nul p.body)) hne hbody, hh, ?_⟩
  intro n hn'
  obtain ⟨h1, h2⟩ := mem_minVar hn'
  exact ⟨h1, (hv.2.2 p hp).2 _ h2⟩

/-- well-formed + pruned + the start symbol has a production ⇒ valid -/
theorem valid_of_pruned_start {g : G} (hw : WellFormed g)
    (hdone : ∀ n ∈ g.nonterms, n ≠ g.start → hasProd g.prods n = true) (hs : ∃ p ∈ g.prods, p.head = g.start) :
    Valid g := by
  refine ⟨hw.1, ?_, hw.2⟩
  intro n hn
  by_cases hns : n = g.start
  · subst hns; exact hs
  · exact hasProd_iff.mp (hdone n hn hns)

theorem elimEmpty_valid' {g g' : G} (h : elimEmpty g = .ok g') (hv : Valid g) : Valid g' := by
  have hwf := elimEmpty_wf h hv.wellFormed
  obtain ⟨nul, hn, hcase⟩ := elimEmpty_ok h
  have hkeep0 := emptyFree_keeps hn hv
  rcases hcase with ⟨hs, rfl⟩ | ⟨_, s', _, rfl⟩
  · refine valid_of_pruned_start hwf (prune_done _) ?_
    have hk : KeepsNonNullable g nul ({ g with prods := emptyFreeProds nul g.prods } : G) := hkeep0
    obtain ⟨p, hp, hh, _⟩ := pruneN_keeps _ _ hk g.start hv.1 hs
    exact ⟨p, hp, by rw [prune_start]; exact hh⟩
  · refine valid_of_pruned_start hwf (prune_done _) ?_
    refine ⟨{ head := s', body := [] }, pruneN_keeps_nil _ _ _ (mem_ins.mpr (Or.inr rfl)) rfl, ?_⟩
    rw [prune_start]

end AlgoVerif.C08
