import AlgoVerif.Proofs.C14Dfs
/-!
# C14 proofs — the component loop (`ConnectedComponents`, second phase of Kosaraju)

`dfs_ids`: one traversal with the visitor `id[v] = count` gives `count` to exactly the newly visited vertices.
`compLoop_cc`: on a symmetric graph the loop over all vertices partitions them by reachability.
-/
namespace AlgoVerif.C14

theorem idVisitors_allTrue (c : Nat) : (idVisitors c).AllTrue :=
  ⟨fun _ _ => rfl, fun _ _ => rfl, fun _ _ _ _ => rfl⟩

/-- relation between the id table at entry (`st`) and later (`cur`) of a traversal labelling with `c` -/
structure IdStep (c : Nat) (n : Nat) (st cur : TState (Array Nat)) : Prop where
  size : cur.s.size = n
  old : ∀ x, Vis st.visited x → cur.s[x]? = st.s[x]?
  new : ∀ x, Vis cur.visited x → ¬ Vis st.visited x → cur.s[x]? = some c

theorem dfs_ids {g : Graph} (hg : g.WF) (c : Nat) :
    ∀ fuel v (st : TState (Array Nat)), st.s.size = g.n →
      st.visited.size = g.n → st.visited[v]? = some false → cntF st.visited ≤ fuel →
      ∃ st', dfs g (idVisitors c) fuel v st = .ok st' ∧ IdStep c g.n st st' ∧
        StdPost g v st.visited st'.visited := by
  apply dfs_rule g hg (idVisitors c) (idVisitors_allTrue c)
    (fun _ st => st.s.size = g.n)
    (fun _ st st' => IdStep c g.n st st')
    (fun _ st _ _ cur => IdStep c g.n st cur)
  · intro v st hpre hsize hunv
    have hvlt : v < st.s.size := by
      rw [hpre, ← hsize]
      by_cases hx : v < st.visited.size
      · exact hx
      · simp [Array.getElem?_eq_none (Nat.le_of_not_lt hx)] at hunv
    refine ⟨by show (st.s.set! v c).size = g.n; rw [size_set!]; exact hpre, ?_, ?_⟩
    · intro x hx
      have : v ≠ x := by intro e; subst e; exact not_vis_of_false hunv hx
      exact getElem?_set!_ne _ _ this
    · intro x hx hnx
      rcases vis_set.1 hx with ⟨rfl, _⟩ | h
      · exact getElem?_set!_self _ _ hvlt
      · exact absurd h hnx
  · intro v st done x rest cur hm _ _
    exact hm
  · intro v st done x rest cur hm hs hunv
    refine ⟨hm.size, ?_⟩
    intro cur' hp hstd
    refine ⟨hp.size, ?_, ?_⟩
    · intro y hy
      rw [hp.old y (hs.grows y hy)]
      exact hm.old y hy
    · intro y hy hny
      by_cases hc : Vis cur.visited y
      · rw [hp.old y hc]
        exact hm.new y hc hny
      · exact hp.new y hy hc
  · intro v st done cur hm _
    exact hm

/-- invariant of the component loop on a symmetric graph -/
structure CCInv (g : Graph) (a : Array Bool) (id : Array Nat) (c : Nat) : Prop where
  size : a.size = g.n
  idsize : id.size = g.n
  closed : ∀ x, Vis a x → ∀ y, g.HasArc x y → Vis a y
  lt : ∀ x, Vis a x → ∃ i, id[x]? = some i ∧ i < c
  used : ∀ i, i < c → ∃ x, Vis a x ∧ id[x]? = some i
  part : ∀ x y, Vis a x → Vis a y → (id[x]? = id[y]? ↔ Reach g.HasArc x y)

theorem compLoop_cc {g : Graph} (hg : g.WF) (hsym : g.Symmetric) :
    ∀ (vs : List Nat), (∀ v ∈ vs, v < g.n) → ∀ (st : TState (Array Nat)) (c : Nat),
      CCInv g st.visited st.s c →
      ∃ st' c', compLoop g vs st c = .ok (st', c') ∧ CCInv g st'.visited st'.s c' ∧
        (∀ x, Vis st.visited x → Vis st'.visited x) ∧ (∀ v ∈ vs, Vis st'.visited v) := by
  intro vs
  induction vs with
  | nil =>
    intro _ st c hinv
    exact ⟨st, c, rfl, hinv, fun _ h => h, by simp⟩
  | cons v vs ih =>
    intro hvs st c hinv
    have hvn : v < g.n := hvs v (by simp)
    have hvs' : ∀ w ∈ vs, w < g.n := fun w hw => hvs w (by simp [hw])
    have hvlt : v < st.visited.size := by rw [hinv.size]; exact hvn
    rcases vis_or_false hvlt with hvis | hunv
    · obtain ⟨st', c', h1, h2, h3, h4⟩ := ih hvs' st c hinv
      refine ⟨st', c', ?_, h2, h3, ?_⟩
      · unfold compLoop
        have : st.visited[v]? = some true := hvis
        rw [this]; exact h1
      · intro w hw
        rcases List.mem_cons.1 hw with rfl | h
        · exact h3 _ hvis
        · exact h4 w h
    · have hcnt : cntF st.visited ≤ g.n + 1 := by
        have := cntF_le_size st.visited
        rw [hinv.size] at this; omega
      obtain ⟨st1, hd, hid, hstd⟩ := dfs_ids hg c (g.n + 1) v st hinv.idsize hinv.size hunv hcnt
      -- the new vertices are exactly the class of v
      have hnew_reach : ∀ x, Vis st1.visited x → ¬ Vis st.visited x → Reach g.HasArc v x :=
        fun x hx hnx => (hstd.reach x hx hnx).of_white
      have hold_closed : ∀ x y, Vis st.visited x → Reach g.HasArc x y → Vis st.visited y :=
        fun x y hx hr => Reach.closed (S := Vis st.visited) (fun p q hp e => hinv.closed p hp q e) hr hx
      have hinv1 : CCInv g st1.visited st1.s (c + 1) :=
        { size := hstd.size
          idsize := hid.size
          closed := by
            intro x hx y hy
            by_cases hox : Vis st.visited x
            · exact hstd.grows y (hinv.closed x hox y hy)
            · exact hstd.closed x hx hox y hy
          lt := by
            intro x hx
            by_cases hox : Vis st.visited x
            · obtain ⟨i, hi, hlt⟩ := hinv.lt x hox
              exact ⟨i, by rw [hid.old x hox]; exact hi, by omega⟩
            · exact ⟨c, hid.new x hx hox, by omega⟩
          used := by
            intro i hi
            by_cases hic : i = c
            · subst hic
              exact ⟨v, hstd.self, hid.new v hstd.self (not_vis_of_false hunv)⟩
            · obtain ⟨x, hx, hxi⟩ := hinv.used i (by omega)
              exact ⟨x, hstd.grows x hx, by rw [hid.old x hx]; exact hxi⟩
          part := by
            intro x y hx hy
            by_cases hox : Vis st.visited x <;> by_cases hoy : Vis st.visited y
            · rw [hid.old x hox, hid.old y hoy]
              exact hinv.part x y hox hoy
            · -- x old, y new
              obtain ⟨i, hi, hlt⟩ := hinv.lt x hox
              rw [hid.old x hox, hi, hid.new y hy hoy]
              constructor
              · intro h; simp at h; omega
              · intro hr; exact absurd (hold_closed x y hox hr) hoy
            · obtain ⟨i, hi, hlt⟩ := hinv.lt y hoy
              rw [hid.old y hoy, hi, hid.new x hx hox]
              constructor
              · intro h; simp at h; omega
              · intro hr
                exact absurd (hold_closed y x hoy (hr.symm hsym)) hox
            · rw [hid.new x hx hox, hid.new y hy hoy]
              simp only [true_iff]
              exact ((hnew_reach x hx hox).symm hsym).trans (hnew_reach y hy hoy) }
      obtain ⟨st', c', h1, h2, h3, h4⟩ := ih hvs' st1 (c + 1) hinv1
      refine ⟨st', c', ?_, h2, fun x hx => h3 x (hstd.grows x hx), ?_⟩
      · unfold compLoop
        rw [hunv]
        simp only [hd]
        exact h1
      · intro w hw
        rcases List.mem_cons.1 hw with rfl | h
        · exact h3 _ hstd.self
        · exact h4 w h

/-- **ConnectedComponents** on a symmetric well-formed graph -/
theorem cc_spec {g : Graph} (hg : g.WF) (hsym : g.Symmetric) :
    ∃ cc, g.connectedComponents = .ok cc ∧ cc.id.size = g.n ∧
      (∀ x, x < g.n → ∃ i, cc.id[x]? = some i ∧ i < cc.count) ∧
      (∀ i, i < cc.count → ∃ x, x < g.n ∧ cc.id[x]? = some i) ∧
      (∀ x y, x < g.n → y < g.n → (cc.id[x]? = cc.id[y]? ↔ Reach g.HasArc x y)) := by
  have hinv0 : CCInv g (Array.replicate g.n false) (Array.replicate g.n 0) 0 :=
    { size := by simp
      idsize := by simp
      closed := fun x hx => absurd hx vis_replicate_false
      lt := fun x hx => absurd hx vis_replicate_false
      used := fun i hi => absurd hi (Nat.not_lt_zero i)
      part := fun x _ hx => absurd hx vis_replicate_false }
  obtain ⟨st, c, h1, h2, _, h4⟩ :=
    compLoop_cc hg hsym (List.range g.n) (fun v hv => List.mem_range.1 hv)
      ⟨Array.replicate g.n false, Array.replicate g.n 0⟩ 0 hinv0
  have hall : ∀ x, x < g.n → Vis st.visited x := fun x hx => h4 x (List.mem_range.2 hx)
  refine ⟨⟨c, st.s⟩, ?_, h2.idsize, ?_, ?_, ?_⟩
  · simp only [Graph.connectedComponents, components, h1]
  · intro x hx; exact h2.lt x (hall x hx)
  · intro i hi
    obtain ⟨x, hx, hxi⟩ := h2.used i hi
    exact ⟨x, by rw [← h2.size]; exact vis_lt hx, hxi⟩
  · intro x y hx hy; exact h2.part x y (hall x hx) (hall y hy)

end AlgoVerif.C14
