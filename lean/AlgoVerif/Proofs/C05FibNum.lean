import AlgoVerif.Model.C05Fibonacci
/-!
# C05 helper: Fibonacci / Lucas numbers and the Model's integer `⌊log_φ n⌋`

Only what the index-safety of `consolidate` needs: a tree whose root has degree `d` has at least `fib (d+2)`
nodes, and `fib (d+2) ≤ n` implies `d ≤ logPhi n`, i.e. `d < maxDegree n`.
-/
namespace AlgoVerif.C05

def fib : Nat → Nat
  | 0 => 0
  | 1 => 1
  | n + 2 => fib n + fib (n + 1)

def luc : Nat → Nat
  | 0 => 2
  | 1 => 1
  | n + 2 => luc n + luc (n + 1)

theorem fib_add_two (n : Nat) : fib (n + 2) = fib n + fib (n + 1) := by rw [fib]
theorem luc_add_two (n : Nat) : luc (n + 2) = luc n + luc (n + 1) := by rw [luc]

theorem fib_pos : ∀ n, 1 ≤ n → 1 ≤ fib n
  | 0, h => by omega
  | 1, _ => by simp [fib]
  | n + 2, _ => by
    have := fib_pos (n + 1) (by omega)
    rw [fib_add_two]; omega

theorem fib_mono_succ : ∀ n, fib n ≤ fib (n + 1)
  | 0 => by simp [fib]
  | 1 => by simp [fib]
  | n + 2 => by
    have e1 : fib (n + 3) = fib (n + 1) + fib (n + 2) := fib_add_two (n + 1)
    show fib (n + 2) ≤ fib (n + 3)
    omega

theorem fib_mono {a b : Nat} (h : a ≤ b) : fib a ≤ fib b := by
  induction h with
  | refl => exact Nat.le_refl _
  | step _ ih => exact Nat.le_trans ih (fib_mono_succ _)

theorem le_fib_add_two : ∀ d, d + 1 ≤ fib (d + 2)
  | 0 => by simp [fib]
  | 1 => by simp [fib]
  | d + 2 => by
    have h1 : d + 1 ≤ fib (d + 2) := le_fib_add_two d
    have h2 : d + 2 ≤ fib (d + 3) := le_fib_add_two (d + 1)
    have e : fib (d + 4) = fib (d + 2) + fib (d + 3) := fib_add_two (d + 2)
    show d + 3 ≤ fib (d + 4)
    omega

/-- `L_(j+2) + F_j = F_(j+4)` -/
theorem luc_add_fib : ∀ j, luc (j + 2) + fib j = fib (j + 4)
  | 0 => by simp [luc, fib]
  | 1 => by simp [luc, fib]
  | j + 2 => by
    have h1 : luc (j + 2) + fib j = fib (j + 4) := luc_add_fib j
    have h2 : luc (j + 3) + fib (j + 1) = fib (j + 5) := luc_add_fib (j + 1)
    have e1 : luc (j + 4) = luc (j + 2) + luc (j + 3) := luc_add_two (j + 2)
    have e2 : fib (j + 2) = fib j + fib (j + 1) := fib_add_two j
    have e3 : fib (j + 6) = fib (j + 4) + fib (j + 5) := fib_add_two (j + 4)
    show luc (j + 4) + fib (j + 2) = fib (j + 6)
    omega

/-- the test the loop performs for exponent `j ≥ 1` succeeds whenever `fib (j+2) ≤ n` -/
theorem luc_test (j : Nat) (hj : 1 ≤ j) : luc j + (if j % 2 = 0 then 0 else 1) ≤ fib (j + 2) := by
  match j, hj with
  | 1, _ => simp [luc, fib]
  | j + 2, _ =>
    have h : luc (j + 2) + fib j = fib (j + 4) := luc_add_fib j
    show luc (j + 2) + (if (j + 2) % 2 = 0 then 0 else 1) ≤ fib (j + 4)
    split
    · omega
    · rename_i hodd
      have : 1 ≤ fib j := fib_pos j (by omega)
      omega

theorem logPhiLoop_ge : ∀ fuel k lk lk1 n, k ≤ logPhiLoop fuel k lk lk1 n
  | 0, k, _, _, _ => by simp [logPhiLoop]
  | fuel + 1, k, lk, lk1, n => by
    simp only [logPhiLoop]
    generalize (if (k + 1) % 2 = 0 then decide (lk1 ≤ n) else decide (lk1 + 1 ≤ n)) = b
    cases b
    · simp
    · have := logPhiLoop_ge fuel (k + 1) lk1 (lk + lk1) n
      simp only [if_true]; omega

theorem logPhiLoop_reach : ∀ fuel k d n, k ≤ d → d ≤ k + fuel → fib (d + 2) ≤ n →
    d ≤ logPhiLoop fuel k (luc k) (luc (k + 1)) n
  | 0, k, d, n, h1, h2, _ => by simp [logPhiLoop]; omega
  | fuel + 1, k, d, n, h1, h2, hn => by
    by_cases hkd : k = d
    · subst hkd; exact logPhiLoop_ge _ _ _ _ _
    · simp only [logPhiLoop]
      have ht : luc (k + 1) + (if (k + 1) % 2 = 0 then 0 else 1) ≤ fib (k + 3) := luc_test (k + 1) (by omega)
      have hm : fib (k + 3) ≤ fib (d + 2) := fib_mono (by omega)
      have hle : (if (k + 1) % 2 = 0 then decide (luc (k + 1) ≤ n) else decide (luc (k + 1) + 1 ≤ n)) = true := by
        split
        · rename_i he; simp [he] at ht; simp; omega
        · rename_i he; simp [he] at ht; simp; omega
      rw [if_pos hle]
      have e : luc k + luc (k + 1) = luc (k + 1 + 1) := (luc_add_two k).symm
      rw [e]
      exact logPhiLoop_reach fuel (k + 1) d n (by omega) (by omega) hn

/-- a root of degree `d` in a heap of `n ≥ fib (d+2)` nodes fits into the `roots` table of `consolidate` -/
theorem degree_lt_maxDegree {d n : Nat} (h : fib (d + 2) ≤ n) : d < logPhi n + 1 := by
  have hd := le_fib_add_two d
  have := logPhiLoop_reach n 0 d n (by omega) (by omega) h
  unfold logPhi
  simp only [luc] at this
  omega

end AlgoVerif.C05
