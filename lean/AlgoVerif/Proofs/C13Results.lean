import AlgoVerif.Proofs.C13IsoNFA
import AlgoVerif.Proofs.C13CombineMap
import AlgoVerif.Proofs.C13Concat
/-! C13: the results of the operations are again well-formed (so that `Accept` of a result decides its
language and results can be fed to further operations), and `Accept` versions of the language theorems. -/
namespace AlgoVerif.C13
open AlgoVerif AlgoVerif.C13.Spec

/-- everything the theorems about DFAs ask of a DFA: key-sorted tables, `-1` not used as a state,
sorted final set, no `E`-labelled transition -/
structure DFA.Good (d : DFA) : Prop where
  wf : d.WF
  proper : d.Proper
  fin : SSorted d.final
  noEps : d.NoEps

/-! ### automata built through the API -/

theorem DFA.Good_new (s : Int) (f : List Int) (hf : (-1 : Int) ∉ f) : (DFA.new s f).Good :=
  ⟨DFA.WF_new _ _, ⟨by simpa [DFA.new] using hf, fun a => by simp [DFA.δ, DFA.new, aget]⟩, ssorted_mkSet _,
   fun s => by simp [DFA.δ, DFA.new, aget]⟩

theorem DFA.Good_add {d : DFA} (h : d.Good) (s a t : Int) (hs : s ≠ -1) (ha : a ≠ E) : (d.add s a t).Good := by
  refine ⟨DFA.WF_add h.wf _ _ _, ⟨h.proper.1, ?_⟩, h.fin, ?_⟩
  · intro b
    rw [DFA.δ_add]
    have : ¬ ((-1 : Int) = s ∧ b = a) := fun hh => hs hh.1.symm
    simp only [this, if_false]
    exact h.proper.2 b
  · intro x
    rw [DFA.δ_add]
    have : ¬ (x = s ∧ E = a) := fun hh => ha hh.2.symm
    simp only [this, if_false]
    exact h.noEps x

/-! ### NFA results are well-formed -/

theorem copyInner_wf (id : Nat) (ss : Int) (es : List (Int × List Int)) (m : SM) (dst : NFA) (h : dst.WF) :
    (copyInner id ss es m dst).2.WF := by
  induction es generalizing m dst with
  | nil => exact h
  | cons e es ih => simp only [copyInner, List.foldl_cons]; exact ih _ _ (NFA.WF_add h _ _ _)

theorem copyTransL_wf (id : Nat) (tr : List (Int × List (Int × List Int))) (m : SM) (dst : NFA) (h : dst.WF) :
    (copyTransL id tr m dst).2.WF := by
  induction tr generalizing m dst with
  | nil => exact h
  | cons st tr ih => simp only [copyTransL, List.foldl_cons]; exact ih _ _ (copyInner_wf _ _ _ _ _ h)

theorem finalsFold_wf (id : Nat) (fin : List Int) (m : SM) (u : NFA) (h : u.WF) : (finalsFold id fin m u).2.WF := by
  induction fin generalizing m u with
  | nil => exact h
  | cons f fin ih => simp only [finalsFold, List.foldl_cons]; exact ih _ _ (NFA.WF_add h _ _ _)

theorem finalsFold2_wf (id : Nat) (ss : Int) (fin : List Int) (m : SM) (u : NFA) (h : u.WF) :
    (finalsFold2 id ss fin m u).2.WF := by
  induction fin generalizing m u with
  | nil => exact h
  | cons f fin ih =>
    simp only [finalsFold2, List.foldl_cons]; exact ih _ _ (NFA.WF_add (NFA.WF_add h _ _ _) _ _ _)

theorem unionStep_wf (acc : SM × NFA) (id : Nat) (nfa : NFA) (h : acc.2.WF) : (unionStep acc id nfa).2.WF := by
  have hstep : unionStep acc id nfa = finalsFold id nfa.final ((copyTransL id nfa.trans acc.1 acc.2).1.get id nfa.start).1
    ((copyTransL id nfa.trans acc.1 acc.2).2.add 0 E [((copyTransL id nfa.trans acc.1 acc.2).1.get id nfa.start).2]) := rfl
  rw [hstep]
  exact finalsFold_wf _ _ _ _ (NFA.WF_add (copyTransL_wf _ _ _ _ h) _ _ _)

theorem NFA.union_WF (nfas : List NFA) : (NFA.union nfas).WF := by
  simp only [NFA.union]
  suffices h : ∀ (k : Nat) (acc : SM × NFA), acc.2.WF → (foldlIdx unionStep acc nfas k).2.WF from h 0 _ (NFA.WF_new _ _)
  induction nfas with
  | nil => intro k acc h; exact h
  | cons n nfas ih => intro k acc h; simp only [foldlIdx]; exact ih _ _ (unionStep_wf acc k n h)

theorem NFA.star_WF (n : NFA) : n.star.WF := by
  have hstar : n.star = (finalsFold2 0 ((copyTransL 0 n.trans (SM.new 1) (NFA.new 0 [1])).1.get 0 n.start).2 n.final
    ((copyTransL 0 n.trans (SM.new 1) (NFA.new 0 [1])).1.get 0 n.start).1
    (((copyTransL 0 n.trans (SM.new 1) (NFA.new 0 [1])).2.add 0 E
      [((copyTransL 0 n.trans (SM.new 1) (NFA.new 0 [1])).1.get 0 n.start).2]).add 0 E [1])).2 := rfl
  rw [hstar]
  exact finalsFold2_wf _ _ _ _ _ (NFA.WF_add (NFA.WF_add (copyTransL_wf _ _ _ _ (NFA.WF_new _ _)) _ _ _) _ _ _)

theorem foldl_add_sources_wf (sp : List Int) (a : Int) (nx : List Int) (C : NFA) (h : C.WF) :
    (sp.foldl (fun c s => c.add s a nx) C).WF := by
  induction sp generalizing C with
  | nil => exact h
  | cons s sp ih => simp only [List.foldl_cons]; exact ih _ (NFA.WF_add h _ _ _)

theorem concatInner_wf (id : Nat) (sp : List Int) (es : List (Int × List Int)) (m : SM) (C : NFA) (h : C.WF) :
    (concatInner id sp es m C).2.WF := by
  induction es generalizing m C with
  | nil => exact h
  | cons e es ih => simp only [concatInner, List.foldl_cons]; exact ih _ _ (foldl_add_sources_wf _ _ _ _ h)

theorem concatTransL_wf (id : Nat) (startN : Int) (extra : List Int) (tr : List (Int × List (Int × List Int)))
    (m : SM) (C : NFA) (h : C.WF) : (concatTransL id startN extra tr m C).2.WF := by
  induction tr generalizing m C with
  | nil => exact h
  | cons st tr ih => simp only [concatTransL, List.foldl_cons]; exact ih _ _ (concatInner_wf _ _ _ _ _ h)

theorem NFA.concat_WF (nfas : List NFA) : (NFA.concat nfas).WF := by
  have hc : ∀ r : ConcatSt, ({ r.nfa with final := mkSet r.final } : NFA).WF ↔ r.nfa.WF := fun r => Iff.rfl
  show ({ (foldlIdx concatStep ⟨SM.new 0, NFA.new 0 [0], [0]⟩ nfas).nfa with
    final := mkSet (foldlIdx concatStep ⟨SM.new 0, NFA.new 0 [0], [0]⟩ nfas).final } : NFA).WF
  rw [hc]
  suffices h : ∀ (k : Nat) (acc : ConcatSt), acc.nfa.WF → (foldlIdx concatStep acc nfas k).nfa.WF from
    h 0 _ (NFA.WF_new _ _)
  induction nfas with
  | nil => intro k acc h; exact h
  | cons n nfas ih =>
    intro k acc h
    simp only [foldlIdx]
    apply ih
    rw [concatStep_eq]
    exact concatTransL_wf _ _ _ _ _ _ h

theorem NFA.clone_WF (n : NFA) : n.clone.WF := by
  rw [n.clone_eq]
  exact NFA.WF_foldl_add (entries n.trans) (fun e => e) _ (by simp [NFA.WF, ASorted])

/-! ### DFA results are good -/

theorem ssorted_foldlIdx_sins {α : Type} (p : α → Bool) (q : List α) (k : Nat) (acc : List Int) (h : SSorted acc) :
    SSorted (foldlIdx (fun acc i S => if p S then sins (i : Int) acc else acc) acc q k) := by
  induction q generalizing k acc with
  | nil => exact h
  | cons S q ih =>
    simp only [foldlIdx]
    apply ih
    split
    · exact ssorted_sins h
    · exact h

theorem NFA.toDFA_good (n : NFA) (d : DFA) (h : n.toDFA = .ok d) : d.Good := by
  simp only [NFA.toDFA] at h
  cases hs : n.subsets with
  | panic => simp [hs] at h
  | diverge => simp [hs] at h
  | ok r =>
    simp [hs] at h; subst h
    obtain ⟨rwf, rpr, _, rfin, _, _, _, hinv⟩ := n.subsets_facts r hs
    refine ⟨rwf, rpr, ?_, ?_⟩
    · rw [rfin]
      exact ssorted_foldlIdx_sins (fun S => n.final.any (fun f => S.contains f)) r.1 0 [] (by simp [SSorted])
    · intro s
      cases hd : r.2.δ s E with
      | none => rfl
      | some j =>
        obtain ⟨_, _, _, _, _, _, _, _, _, g6, _⟩ := hinv.sound _ _ _ hd
        exact absurd rfl ((n.mem_symbols_iff E).1 g6).1

theorem sorted_foldl_sins_map (f : Int → Int) (l acc : List Int) (h : SSorted acc) :
    SSorted (l.foldl (fun acc y => sins (f y) acc) acc) := by
  induction l generalizing acc with
  | nil => exact h
  | cons y l ih => simp only [List.foldl_cons]; exact ih _ (ssorted_sins h)

theorem DFA.minimize_good (d d' : DFA) (hg : d.Good) (h : d.minimize = .ok d') : d'.Good := by
  have hwf := hg.wf
  simp only [DFA.minimize, DFA.minimizePartition] at h
  cases hl : refineLoop d d.minimizeFuel d.initPartition with
  | panic => simp [hl] at h
  | diverge => simp [hl] at h
  | ok P =>
    simp only [hl] at h; injection h with h; subst h
    obtain ⟨hP, he⟩ := refineLoop_spec d hwf _ _ P hl (d.initPartition_pinv hg.fin)
    have hs := stable_of_exit d hwf P hP he
    obtain ⟨_, ffin, _, _, fsound, fwf⟩ := buildMin_facts d hwf P hs
    refine ⟨fwf, ⟨?_, ?_⟩, ?_, ?_⟩
    · intro hm
      obtain ⟨f, hf, hfe⟩ := (ffin (-1)).1 hm
      exact hs.cover f (d.mem_states_of f (Or.inr (Or.inl hf))) hfe
    · intro a
      cases hd : (buildMin d P).δ (-1) a with
      | none => rfl
      | some r' =>
        obtain ⟨G, hG, hr, _⟩ := fsound _ _ _ hd
        have := (hP.wf.rng G hG).1; omega
    · rw [buildMin_eq, (DFA.ofEntries_start_final _ _ _).2]
      exact sorted_foldl_sins_map _ _ _ (by simp [SSorted])
    · intro s
      cases hd : (buildMin d P).δ s E with
      | none => rfl
      | some r' =>
        obtain ⟨G, _, _, t, ht, _⟩ := fsound _ _ _ hd
        rw [hg.noEps] at ht; simp at ht

theorem DFA.elimDead_sub (d d' : DFA) (hwf : d.WF) (h : d.elimDead = .ok d') (s a t : Int)
    (hδ : d'.δ s a = some t) : d.δ s a = some t := by
  obtain ⟨vis, _, rfl⟩ := d.elimDead_eq d' h
  unfold DFA.ofEntries at hδ
  rcases DFA.fold_sound _ _ s a t hδ with h' | h'
  · simp [DFA.δ, aget] at h'
  · exact (mem_entries_DFA hwf _ _ _).1 (List.mem_filter.1 h').1

theorem DFA.elimDead_good (d d' : DFA) (hg : d.Good) (h : d.elimDead = .ok d') : d'.Good := by
  obtain ⟨e1, e2, _⟩ := d.elimDead_subrun d' hg.wf h
  have hwf' : d'.WF := by
    obtain ⟨vis, _, hc⟩ := d.elimDead_eq d' h
    rw [hc]; exact DFA.ofEntries_WF _ _ _
  refine ⟨hwf', ⟨by rw [e2]; exact hg.proper.1, ?_⟩, by rw [e2]; exact hg.fin, ?_⟩
  · intro a
    cases hd : d'.δ (-1) a with
    | none => rfl
    | some t => have := d.elimDead_sub d' hg.wf h _ _ _ hd; rw [hg.proper.2] at this; simp at this
  · intro s
    cases hd : d'.δ s E with
    | none => rfl
    | some t => have := d.elimDead_sub d' hg.wf h _ _ _ hd; rw [hg.noEps] at this; simp at this

theorem reindexInner_wf (ss : Int) (es : List (Int × Int)) (m : SM) (dfa : DFA) (h : dfa.WF) :
    (reindexInner ss es m dfa).2.WF := by
  induction es generalizing m dfa with
  | nil => exact h
  | cons e es ih => simp only [reindexInner, List.foldl_cons]; exact ih _ _ (DFA.WF_add h _ _ _)

theorem reindexL_wf (tr : List (Int × List (Int × Int))) (m : SM) (dfa : DFA) (h : dfa.WF) : (reindexL tr m dfa).2.WF := by
  induction tr generalizing m dfa with
  | nil => exact h
  | cons st tr ih => simp only [reindexL, List.foldl_cons]; exact ih _ _ (reindexInner_wf _ _ _ _ h)

theorem reindexFinals_sorted (fin : List Int) (m : SM) (acc : List Int) (h : SSorted acc) :
    SSorted (reindexFinals fin m acc).2 := by
  induction fin generalizing m acc with
  | nil => exact h
  | cons f fin ih => simp only [reindexFinals, List.foldl_cons]; exact ih _ _ (ssorted_sins h)

/-- renumbering a well-formed DFA without `E`-edges along a state manager whose numbers are `≥ 0` -/
theorem reindexWith_good (d : DFA) (hwf : d.WF) (hne : d.NoEps) (m : SM) (hm : m.Inv (-1)) : (reindexWith d m).2.Good := by
  obtain ⟨_, k2, _, hfin, _, _⟩ := reindexWith_facts d hwf m (-1) hm
  -- where the entries of the new table come from
  have hsound : ∀ x a y, (reindexWith d m).2.δ x a = some y →
      ∃ s t, (s, a, t) ∈ entries d.trans ∧ (reindexWith d m).1.find 0 s = some x := by
    intro x a y h
    rw [reindexWith_eq] at h ⊢
    obtain ⟨g1, g2, g3⟩ := SM.get_spec m (-1) hm 0 d.start
    obtain ⟨f1, f2, f3, f4⟩ := reindexFinals_spec d.final (m.get 0 d.start).1 [] (-1) g2
    obtain ⟨_, _, _, _, _, k6, _⟩ := reindexL_spec d.trans (reindexFinals d.final (m.get 0 d.start).1 []).1
      ⟨(m.get 0 d.start).2, (reindexFinals d.final (m.get 0 d.start).1 []).2, []⟩ (-1) f2
    rcases k6 x a y h with h' | ⟨s, t, h1, h2, _⟩
    · simp [DFA.δ, aget] at h'
    · exact ⟨s, t, h1, h2⟩
  refine ⟨?_, ⟨?_, ?_⟩, ?_, ?_⟩
  · rw [reindexWith_eq]; exact reindexL_wf _ _ _ (by simp [DFA.WF, ASorted])
  · intro hm1
    obtain ⟨f, _, hf⟩ := (hfin (-1)).1 hm1
    have := (SM.find_range k2 hf).1; omega
  · intro a
    cases hd : (reindexWith d m).2.δ (-1) a with
    | none => rfl
    | some y =>
      obtain ⟨s, t, _, h2⟩ := hsound _ _ _ hd
      have := (SM.find_range k2 h2).1; omega
  · have : (reindexWith d m).2.final = (reindexFinals d.final (m.get 0 d.start).1 []).2 := by
      rw [reindexWith_eq]
      exact (reindexL_spec d.trans _ _ (-1) ((reindexFinals_spec d.final (m.get 0 d.start).1 [] (-1)
        (SM.get_spec m (-1) hm 0 d.start).2.1).2.1)).2.2.2.1
    rw [this]
    exact reindexFinals_sorted _ _ _ (by simp [SSorted])
  · intro x
    cases hd : (reindexWith d m).2.δ x E with
    | none => rfl
    | some y =>
      obtain ⟨s, t, h1, _⟩ := hsound _ _ _ hd
      have := (mem_entries_DFA hwf _ _ _).1 h1
      rw [hne] at this; simp at this

theorem DFA.reindex_good (d d' : DFA) (hg : d.Good) (h : d.reindex = .ok d') : d'.Good := by
  simp only [DFA.reindex] at h
  cases hb : d.bfsNumbering with
  | panic => simp [hb] at h
  | diverge => simp [hb] at h
  | ok m =>
    simp only [hb] at h; injection h with h; subst h
    exact reindexWith_good d hg.wf hg.noEps m (d.bfsNumbering_inv m hb)

theorem combineDFA_good (ds : List DFA) (D : DFA) (fm : List (List Int)) (h : combineDFA ds = .ok (D, fm)) : D.Good := by
  simp only [combineDFA] at h
  generalize foldlIdx combineStep ((SM.new 1, NFA.new 0 [1]), []) (ds.map DFA.toNFA) 0 = u at h
  cases hs : u.1.2.subsets with
  | panic => simp [hs] at h
  | diverge => simp [hs] at h
  | ok r =>
    simp only [hs] at h
    have hrg : r.2.Good := u.1.2.toDFA_good r.2 (by simp [NFA.toDFA, hs])
    cases he : r.2.elimDead with
    | panic => simp [he] at h
    | diverge => simp [he] at h
    | ok combined =>
      simp only [he] at h
      have hcg := r.2.elimDead_good combined hrg he
      cases hb : combined.bfsNumbering with
      | panic => simp [hb] at h
      | diverge => simp [hb] at h
      | ok m =>
        simp only [hb] at h
        injection h with h
        injection h with h1 _
        rw [← h1]
        exact reindexWith_good combined hcg.wf hcg.noEps m (combined.bfsNumbering_inv m hb)

theorem DFA.clone_good (d : DFA) (hg : d.Good) : d.clone.Good := by
  have hsf := DFA.start_foldl_add (entries d.trans) ⟨d.start, d.final, []⟩
  rw [← d.clone_eq] at hsf
  have hδ : d.clone.δ = d.δ := by funext s a; exact DFA.clone_δ hg.wf s a
  refine ⟨?_, ⟨by rw [hsf.2]; exact hg.proper.1, fun a => by rw [hδ]; exact hg.proper.2 a⟩, by rw [hsf.2]; exact hg.fin,
    fun s => by rw [hδ]; exact hg.noEps s⟩
  have := DFA.ofEntries_WF d.start d.final (entries d.trans)
  rw [DFA.ofEntries, ← d.clone_eq] at this
  exact this

/-! ### `Accept` on both sides -/

/-- the words an NFA's `Accept` says yes to -/
def NFA.acceptsL (n : NFA) : Lang := fun w => n.accept w = .ok true

theorem NFA.accept_iff_lang (n : NFA) (w : Word) : n.accept w = .ok true ↔ n.lang w := by
  obtain ⟨b, hb, hl⟩ := n.accept_spec w
  rw [hb]
  constructor
  · intro h; injection h with h; exact hl.1 h
  · intro h; rw [hl.2 h]

theorem NFA.acceptsL_eq (n : NFA) : n.acceptsL = n.lang := by
  funext w; exact propext (n.accept_iff_lang w)

theorem DFA.accept_iff_lang (d : DFA) (hg : d.Good) (w : Word) : d.accept w = true ↔ d.lang w :=
  d.accept_spec hg.proper w

end AlgoVerif.C13
