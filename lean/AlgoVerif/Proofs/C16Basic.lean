import AlgoVerif.Model.C16
/-!
# C16 helper lemmas, part 1: laws of the callbacks, well-formed set objects, linear search

Everything is stated modulo an equivalence `R` on the elements and a domain `dom` on which the callbacks
behave (`R = Eq`, `dom = True` for a set of plain values; `R` = "same members", `dom` = "well-formed set
object" for the sets of sets that `Powerset` and `Partitions` build).
-/
namespace AlgoVerif.C16
variable {α : Type} {σ : Type}

/-! ### Outcome monad -/

@[simp] theorem ok_bind {β γ} (a : β) (f : β → Outcome γ) : (Outcome.ok a >>= f) = f a := rfl
@[simp] theorem panic_bind {β γ} (f : β → Outcome γ) : ((Outcome.panic : Outcome β) >>= f) = .panic := rfl
@[simp] theorem diverge_bind {β γ} (f : β → Outcome γ) : ((Outcome.diverge : Outcome β) >>= f) = .diverge := rfl
@[simp] theorem pure_eq_ok {β} (a : β) : (pure a : Outcome β) = .ok a := rfl

/-! ### laws -/

/-- `v` is in the list, modulo `R` -/
def MemR (R : α → α → Prop) (v : α) (l : List α) : Prop := ∃ y ∈ l, R y v

@[simp] theorem memR_eq (v : α) (l : List α) : MemR Eq v l ↔ v ∈ l := by
  simp [MemR]

@[simp] theorem memR_nil (R : α → α → Prop) (v : α) : ¬ MemR R v [] := by simp [MemR]

theorem memR_cons {R : α → α → Prop} {v a : α} {l : List α} : MemR R v (a :: l) ↔ R a v ∨ MemR R v l := by
  simp [MemR]

theorem memR_append {R : α → α → Prop} {v : α} {l₁ l₂ : List α} :
    MemR R v (l₁ ++ l₂) ↔ MemR R v l₁ ∨ MemR R v l₂ := by
  simp only [MemR, List.mem_append]
  constructor
  · rintro ⟨y, hy | hy, h⟩
    · exact .inl ⟨y, hy, h⟩
    · exact .inr ⟨y, hy, h⟩
  · rintro (⟨y, hy, h⟩ | ⟨y, hy, h⟩)
    · exact ⟨y, .inl hy, h⟩
    · exact ⟨y, .inr hy, h⟩

theorem MemR.congr {R : α → α → Prop} (hR : Equivalence R) {v w : α} {l : List α} (h : R v w) :
    MemR R v l ↔ MemR R w l :=
  ⟨fun ⟨y, hy, hyv⟩ => ⟨y, hy, hR.trans hyv h⟩, fun ⟨y, hy, hyw⟩ => ⟨y, hy, hR.trans hyw (hR.symm h)⟩⟩

/-- the `equal` callback decides `R` on `dom` -/
def EqLaw (dom : α → Prop) (R : α → α → Prop) (equal : EqualFunc α) : Prop :=
  ∀ a b, dom a → dom b → ∃ r, equal a b = .ok r ∧ (r = true ↔ R a b)

/-- the `compare` callback is a total order modulo `R` on `dom`: it returns (without panicking) the sign
function `c`, `c a b = 0` exactly for `R`-equivalent elements, it is antisymmetric and `<` is transitive -/
def CmpLaw (dom : α → Prop) (R : α → α → Prop) (compare : CompareFunc α) : Prop :=
  ∃ c : α → α → Int,
    (∀ a b, dom a → dom b → compare a b = .ok (c a b)) ∧
    (∀ a b, c a b = 0 ↔ R a b) ∧
    (∀ a b, c a b < 0 ↔ 0 < c b a) ∧
    (∀ a b d, c a b < 0 → c b d < 0 → c a d < 0)

/-- strictly ascending for `compare` -/
def SortedBy (compare : CompareFunc α) (l : List α) : Prop :=
  l.Pairwise (fun a b => ∃ c, compare a b = .ok c ∧ c < 0)

def ImplLaw (dom : α → Prop) (R : α → α → Prop) : Impl α → Prop
  | .unordered equal => EqLaw dom R equal
  | .stable equal => EqLaw dom R equal
  | .sorted compare => CmpLaw dom R compare

/-- representation invariant of a set object -/
structure WF (dom : α → Prop) (R : α → α → Prop) (s : MSet α) : Prop where
  mem_dom : ∀ x ∈ s.members, dom x
  nodup : s.members.Pairwise (fun a b => ¬ R a b)
  law : ImplLaw dom R s.impl
  sorted : ∀ compare, s.impl = .sorted compare → SortedBy compare s.members

/-- a set of plain values: the callbacks decide `=` everywhere -/
abbrev WF0 (s : MSet α) : Prop := WF (fun _ => True) Eq s

theorem eq_equivalence : Equivalence (@Eq α) := ⟨fun _ => rfl, fun h => h.symm, fun h₁ h₂ => h₁.trans h₂⟩

theorem WF0.nodup' {s : MSet α} (h : WF0 s) : s.members.Nodup := h.nodup

/-! ### linear search -/

theorem linFind_not_mem {dom : α → Prop} {R : α → α → Prop} {equal : EqualFunc α} (hl : EqLaw dom R equal)
    {v : α} (hv : dom v) : ∀ (l : List α) (i : Int), (∀ x ∈ l, dom x) → ¬ MemR R v l →
      linFind equal v l i = .ok (-1)
  | [], _, _, _ => rfl
  | m :: ms, i, hd, hn => by
    obtain ⟨r, hr, hiff⟩ := hl m v (hd m (List.mem_cons_self ..)) hv
    have hnr : ¬ R m v := fun h => hn (memR_cons.2 (.inl h))
    have : r = false := by
      cases r with
      | false => rfl
      | true => exact absurd (hiff.1 rfl) hnr
    subst this
    simp only [linFind, hr, ok_bind]
    exact linFind_not_mem hl hv ms (i + 1) (fun x hx => hd x (List.mem_cons_of_mem _ hx))
      (fun h => hn (memR_cons.2 (.inr h)))

theorem linFind_mem {dom : α → Prop} {R : α → α → Prop} {equal : EqualFunc α} (hl : EqLaw dom R equal)
    {v : α} (hv : dom v) : ∀ (l₁ : List α) (m : α) (l₂ : List α) (i : Int),
      (∀ x ∈ l₁ ++ m :: l₂, dom x) → (∀ y ∈ l₁, ¬ R y v) → R m v →
      linFind equal v (l₁ ++ m :: l₂) i = .ok (i + l₁.length)
  | [], m, l₂, i, hd, _, hm => by
    obtain ⟨r, hr, hiff⟩ := hl m v (hd m (by simp)) hv
    have : r = true := hiff.2 hm
    subst this
    simp [linFind, hr]
  | a :: l₁, m, l₂, i, hd, hn, hm => by
    obtain ⟨r, hr, hiff⟩ := hl a v (hd a (by simp)) hv
    have : r = false := by
      cases r with
      | false => rfl
      | true => exact absurd (hiff.1 rfl) (hn a (by simp))
    subst this
    have ih := linFind_mem hl hv l₁ m l₂ (i + 1) (fun x hx => hd x (by simp at hx ⊢; exact .inr hx))
      (fun y hy => hn y (by simp [hy])) hm
    simp only [List.cons_append, linFind, hr, ok_bind]
    simp only [Bool.false_eq_true, ↓reduceIte, ih, List.length_cons]
    congr 1
    omega

/-- first match: a list either has no `R`-match for `v` or splits at its first one -/
theorem first_match_split (R : α → α → Prop) (v : α) : ∀ l : List α,
    ¬ MemR R v l ∨ ∃ l₁ m l₂, l = l₁ ++ m :: l₂ ∧ (∀ y ∈ l₁, ¬ R y v) ∧ R m v
  | [] => .inl (by simp)
  | a :: l => by
    by_cases h : R a v
    · exact .inr ⟨[], a, l, rfl, by simp, h⟩
    · rcases first_match_split R v l with hn | ⟨l₁, m, l₂, rfl, h₁, h₂⟩
      · exact .inl (fun hm => (memR_cons.1 hm).elim h hn)
      · refine .inr ⟨a :: l₁, m, l₂, rfl, ?_, h₂⟩
        intro y hy
        rcases List.mem_cons.1 hy with rfl | hy
        · exact h
        · exact h₁ y hy

/-! ### counting modulo `R` (pigeonhole) -/

/-- every element of `l₁` has an `R`-match in `l₂` -/
def SubR (R : α → α → Prop) (l₁ l₂ : List α) : Prop := ∀ x ∈ l₁, MemR R x l₂

theorem subR_length {R : α → α → Prop} (hR : Equivalence R) : ∀ (l₁ l₂ : List α),
    l₁.Pairwise (fun a b => ¬ R a b) → l₂.Pairwise (fun a b => ¬ R a b) → SubR R l₁ l₂ →
    l₁.length ≤ l₂.length ∧ (l₁.length = l₂.length → SubR R l₂ l₁)
  | [], l₂, _, _, _ => by
    refine ⟨Nat.zero_le _, fun h => ?_⟩
    have : l₂ = [] := List.eq_nil_of_length_eq_zero h.symm
    subst this
    intro x hx
    cases hx
  | x :: l₁, l₂, h₁, h₂, hs => by
    obtain ⟨y, hy, hyx⟩ := hs x (List.mem_cons_self ..)
    obtain ⟨a, b, rfl⟩ := List.append_of_mem hy
    have h₁' := List.pairwise_cons.1 h₁
    have h₂' : (a ++ b).Pairwise (fun a b => ¬ R a b) := by
      have := List.pairwise_append.1 h₂
      refine List.pairwise_append.2 ⟨this.1, (List.pairwise_cons.1 this.2.1).2, ?_⟩
      intro u hu w hw
      exact this.2.2 u hu w (List.mem_cons_of_mem _ hw)
    have hy_ab : ∀ w ∈ a ++ b, ¬ R w y := by
      have := List.pairwise_append.1 h₂
      intro w hw hwy
      rcases List.mem_append.1 hw with hw | hw
      · exact this.2.2 w hw y (List.mem_cons_self ..) hwy
      · exact (List.pairwise_cons.1 this.2.1).1 w hw (hR.symm hwy)
    have hs' : SubR R l₁ (a ++ b) := by
      intro z hz
      obtain ⟨w, hw, hwz⟩ := hs z (List.mem_cons_of_mem _ hz)
      rcases List.mem_append.1 hw with hw | hw
      · exact ⟨w, List.mem_append_left _ hw, hwz⟩
      · rcases List.mem_cons.1 hw with rfl | hw
        · exact absurd (hR.trans (hR.symm hyx) hwz) (h₁'.1 z hz)
        · exact ⟨w, List.mem_append_right _ hw, hwz⟩
    obtain ⟨ih₁, ih₂⟩ := subR_length hR l₁ (a ++ b) h₁'.2 h₂' hs'
    simp only [List.length_cons, List.length_append] at ih₁ ih₂ ⊢
    refine ⟨by omega, fun hlen => ?_⟩
    have ih := ih₂ (by omega)
    intro w hw
    rcases List.mem_append.1 hw with hw | hw
    · obtain ⟨u, hu, huw⟩ := ih w (List.mem_append_left _ hw)
      exact ⟨u, List.mem_cons_of_mem _ hu, huw⟩
    · rcases List.mem_cons.1 hw with rfl | hw
      · exact ⟨x, List.mem_cons_self .., hR.symm hyx⟩
      · obtain ⟨u, hu, huw⟩ := ih w (List.mem_append_right _ hw)
        exact ⟨u, List.mem_cons_of_mem _ hu, huw⟩

end AlgoVerif.C16
