import AlgoVerif.Proofs.C08Cycles
/-!
# Macro expansion of fresh non-terminals, and invariants of `foldlM` in the `Outcome` monad

`Derives.expand`: if `e` maps every non-terminal to a string of symbols such that every production
`A → β` of `g'` becomes a derivation `e A ⇒* e*(β)` of `g`, then `e*` maps derivations of `g'` to derivations
of `g`.  This is the "fold a fresh non-terminal that has exactly one expansion" lemma: TERM (`aₙ ↦ a`) and
BIN (`Aᵢ ↦ Xᵢ₊₁ … Xₙ`) are instances.
-/
namespace AlgoVerif.Gram
variable {T N : Type}

def expSym (e : N → List (Sym T N)) : Sym T N → List (Sym T N)
  | .term t => [.term t]
  | .nonterm n => e n

def expand (e : N → List (Sym T N)) (l : List (Sym T N)) : List (Sym T N) := l.flatMap (expSym e)

theorem expand_append (e : N → List (Sym T N)) (a b : List (Sym T N)) :
    expand e (a ++ b) = expand e a ++ expand e b := by
  simp [expand]

theorem expand_cons (e : N → List (Sym T N)) (s : Sym T N) (b : List (Sym T N)) :
    expand e (s :: b) = expSym e s ++ expand e b := by
  simp [expand]

theorem expand_nil (e : N → List (Sym T N)) : expand e [] = [] := rfl

theorem expand_terms (e : N → List (Sym T N)) (w : List T) : expand e (w.map Sym.term) = w.map Sym.term := by
  induction w with
  | nil => rfl
  | cons a w ih => rw [List.map_cons, expand_cons, ih]; rfl

theorem Derives.expand {g g' : Grammar T N} (e : N → List (Sym T N))
    (h : ∀ p ∈ g'.prods, Derives g (e p.head) (expand e p.body))
    {α β} (d : Derives g' α β) : Derives g (Gram.expand e α) (Gram.expand e β) := by
  induction d with
  | refl => exact Derives.refl _
  | tail _ s ih =>
    refine ih.trans ?_
    cases s with
    | mk u v p hp =>
      have := ((h p hp).append_left (Gram.expand e u)).append_right (Gram.expand e v)
      simpa [expand_append, expand_cons, expand_nil, expSym, List.append_assoc] using this

/-- soundness from macro expansion -/
theorem Language.of_expand {g g' : Grammar T N} (e : N → List (Sym T N))
    (hs : e g'.start = [Sym.nonterm g.start])
    (h : ∀ p ∈ g'.prods, Derives g (e p.head) (expand e p.body))
    {w : List T} (hw : Language g' w) : Language g w := by
  have := Derives.expand e h hw
  rw [expand_terms] at this
  simpa [Language, expand, expSym, hs] using this

/-- if every non-terminal of `b` derives its expansion, `b` derives its expansion -/
theorem Derives.to_expand {g : Grammar T N} (e : N → List (Sym T N)) (b : List (Sym T N))
    (h : ∀ n, Sym.nonterm n ∈ b → Derives g [Sym.nonterm n] (e n)) : Derives g b (Gram.expand e b) := by
  induction b with
  | nil => exact Derives.refl _
  | cons s b ih =>
    rw [expand_cons]
    have hb := ih (fun n hn => h n (List.mem_cons_of_mem _ hn))
    have hs : Derives g [s] (expSym e s) := by
      cases s with
      | term t => exact Derives.refl _
      | nonterm n => exact h n (List.mem_cons_self ..)
    simpa using Derives.append hs hb

/-- every production of `g` is derivable in `g'` (same names) ⇒ `L(g) ⊆ L(g')` -/
theorem Language.of_derivable {g g' : Grammar T N} (hs : g'.start = g.start)
    (h : ∀ p ∈ g.prods, Derives g' [Sym.nonterm p.head] p.body) {w : List T} (hw : Language g w) :
    Language g' w := by
  have key : ∀ α β, Derives g α β → Derives g' α β := by
    intro α β d
    induction d with
    | refl => exact Derives.refl _
    | tail _ s ih =>
      refine ih.trans ?_
      cases s with
      | mk u v p hp =>
        have := ((h p hp).append_left u).append_right v
        simpa [List.append_assoc] using this
  unfold Language at hw ⊢
  rw [hs]
  exact key _ _ hw

end AlgoVerif.Gram

namespace AlgoVerif.C08
open AlgoVerif

/-- the name `AddNewNonTerminal` returns is the trimmed prefix followed by one of the suffixes -/
theorem addNew_form {g g1 : G} {pre n : String} {sufs : List String} (h : addNew g pre sufs = .ok (g1, n)) :
    ∃ s ∈ sufs, n = (sufs.foldl trimSuffix pre) ++ s := by
  unfold addNew at h
  split at h
  · rename_i m hm
    cases h
    unfold freshName at hm
    have := List.mem_of_find?_eq_some hm
    obtain ⟨s, hs, rfl⟩ := List.mem_map.mp this
    exact ⟨s, hs, rfl⟩
  · cases h

/-! ## `foldlM` in `Outcome` -/

theorem foldlM_nil {σ β : Type} (f : σ → β → Outcome σ) (s : σ) : List.foldlM f s [] = .ok s := rfl

theorem foldlM_cons {σ β : Type} (f : σ → β → Outcome σ) (s : σ) (b : β) (l : List β) :
    List.foldlM f s (b :: l) = (f s b).bind (fun s' => List.foldlM f s' l) := rfl

/-- invariant indexed by the processed prefix; conditional on the fold returning -/
theorem foldlM_inv_prefix {σ β : Type} (f : σ → β → Outcome σ) (P : List β → σ → Prop) :
    ∀ (l pre : List β) (s : σ), P pre s →
      (∀ pre' s b s', P pre' s → f s b = .ok s' → b ∈ l → P (pre' ++ [b]) s') →
      ∀ s', List.foldlM f s l = .ok s' → P (pre ++ l) s' := by
  intro l
  induction l with
  | nil =>
    intro pre s h _ s' hs
    rw [foldlM_nil] at hs
    cases hs
    simpa using h
  | cons b l ih =>
    intro pre s h hstep s' hs
    rw [foldlM_cons] at hs
    cases hb : f s b with
    | ok s1 =>
      rw [hb] at hs
      have := ih (pre ++ [b]) s1 (hstep pre s b s1 h hb (List.mem_cons_self ..))
        (fun pre' s b s' hp hf hm => hstep pre' s b s' hp hf (List.mem_cons_of_mem _ hm)) s' hs
      simpa [List.append_assoc] using this
    | panic => rw [hb] at hs; cases hs
    | diverge => rw [hb] at hs; cases hs

theorem foldlM_inv {σ β : Type} (f : σ → β → Outcome σ) (P : σ → Prop) (l : List β) (s : σ) (h : P s)
    (hstep : ∀ s b s', P s → f s b = .ok s' → b ∈ l → P s') :
    ∀ s', List.foldlM f s l = .ok s' → P s' :=
  foldlM_inv_prefix f (fun _ s => P s) l [] s h (fun _ s b s' hp hf hm => hstep s b s' hp hf hm)

/-- totality: if every step from a state satisfying `P` returns (in a state satisfying `P`), so does the fold -/
theorem foldlM_total {σ β : Type} (f : σ → β → Outcome σ) (P : σ → Prop) :
    ∀ (l : List β) (s : σ), P s → (∀ s b, P s → b ∈ l → ∃ s', f s b = .ok s' ∧ P s') →
      ∃ s', List.foldlM f s l = .ok s' ∧ P s' := by
  intro l
  induction l with
  | nil => intro s h _; exact ⟨s, rfl, h⟩
  | cons b l ih =>
    intro s h hstep
    obtain ⟨s1, h1, hp1⟩ := hstep s b h (List.mem_cons_self ..)
    obtain ⟨s', h2, hp2⟩ := ih s1 hp1 (fun s b hp hm => hstep s b hp (List.mem_cons_of_mem _ hm))
    refine ⟨s', ?_, hp2⟩
    rw [foldlM_cons, h1]
    exact h2

end AlgoVerif.C08
