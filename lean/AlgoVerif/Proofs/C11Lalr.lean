import AlgoVerif.Proofs.C11Valid
import AlgoVerif.Proofs.C11Check
/-!
# C11 — the LALR(1) construction of the Model: its kernels, and validity of the built table

Part 1: the kernel automata (`kernelAutomaton` with LR(0) / LR(1) items).
Part 2: `ComputeLALR1Kernels`: an item of `S′` only ever receives the endmarker as lookahead, the initial kernel item
keeps it, hence the kernels are `[S′ → •S, $]` and sets of `G′`-items none of which is `S′ → •S`.
-/
namespace AlgoVerif.C11.Built
open AlgoVerif AlgoVerif.Gram AlgoVerif.C11 AlgoVerif.C11.Spec

/-! ## kernel automata -/

section
variable {g g' : SGrammar} (h : AugOK g g') {A : Auto} (hAg : A.g = g') (hAk : A.kernel = true)
include h hAg hAk

theorem auto_closure_spec {I K : List Item} (hc : A.closure I = Outcome.ok K) (hI : ∀ i ∈ I, Good g' i) :
    (∀ it ∈ K, it ∈ I ∨ (Good g' it ∧ Fresh0 g' it)) ∧ (∀ i ∈ I, i ∈ K) ∧ (∀ it ∈ K, Good g' it) := by
  unfold Auto.closure at hc
  rw [hAg] at hc
  obtain ⟨h1, h2⟩ := closure_spec h A.nl A.fe A.fuel I K hc hI
  refine ⟨h1, h2, fun it hit => ?_⟩
  rcases h1 it hit with h3 | h3
  · exact hI it h3
  · exact h3.1

theorem kgoto_spec {I J : List Item} {X : Sy} (hg : A.goto I X = Outcome.ok J) :
    ∃ c, A.closure I = Outcome.ok c ∧ J = advance c X := by
  unfold Auto.goto at hg
  simp only [hAk, if_true] at hg
  obtain ⟨c, hc, hrest⟩ := bind_eq_ok hg
  exact ⟨c, hc, (pure_eq_ok hrest).symm⟩

theorem kgoto_other : GotoOther g' A := by
  intro I J X hg hI hne
  obtain ⟨c, hc, rfl⟩ := kgoto_spec h hAg hAk hg
  obtain ⟨_, _, hgood⟩ := auto_closure_spec h hAg hAk hc hI
  refine ⟨hne, fun it hit => ?_⟩
  obtain ⟨i0, hi0, _, rfl⟩ := mem_advance.mp hit
  exact ⟨good_next (hgood i0 hi0), by rintro ⟨_, hd⟩; simp [Item.next] at hd⟩

theorem kcanonical_spec {C : List (List Item)} (hc : A.canonical = Outcome.ok C) : Cinv g' A.initialItem C := by
  unfold Auto.canonical at hc
  obtain ⟨I0, hI0, hrest⟩ := bind_eq_ok hc
  simp only [hAk, if_true, Outcome.ok.injEq] at hI0
  subst hI0
  have hgood : Good g' A.initialItem := by
    rw [initialItem_eq h hAg]
    refine ⟨(mem_prods' h).mpr (Or.inr rfl), fun _ => ?_⟩
    by_cases hl : A.lr1 = true <;> simp [hl, laIsEnd]
  apply canonicalLoop_spec (kgoto_other h hAg hAk) A.initialItem A.fuel [[A.initialItem]] C _ hrest
  refine ⟨[A.initialItem], [], rfl, ⟨by simp, ?_⟩, by simp⟩
  intro it hit
  simp at hit
  subst hit
  refine ⟨hgood, ?_, fun hne => absurd rfl hne⟩
  rw [initialItem_eq h hAg]

end


/-! ## the lookahead table of `ComputeLALR1Kernels` -/

/-- the LR(0) kernel item a key `(state, index)` denotes -/
def itemAt (S0 : StateMap) (k : Key) : Option Item :=
  if k.1 < 0 ∨ k.2 < 0 then none else (S0.getD k.1.toNat [])[k.2.toNat]?

/-- an item of `S′` has no lookahead but the endmarker -/
def LasInv (g' : SGrammar) (S0 : StateMap) (las : LaTable) : Prop :=
  ∀ e ∈ las, ∀ it, itemAt S0 e.1 = some it → it.prod.head = g'.start → ∀ a ∈ e.2, a = endmarker

/-- lookaheads propagate into an item of `S′` only from an item of `S′` -/
def LinkInv (g' : SGrammar) (S0 : StateMap) (links : Links) : Prop :=
  ∀ l ∈ links, ∀ it, itemAt S0 l.2 = some it → it.prod.head = g'.start →
    ∃ it', itemAt S0 l.1 = some it' ∧ it'.prod.head = g'.start

/-- the initial kernel item has the endmarker -/
def HasEnd (las : LaTable) : Prop := ∃ ls, laGet las (0, 0) = some ls ∧ endmarker ∈ ls

theorem mem_laAdd {t : LaTable} {k : Key} {ls : List String} {e : Key × List String} (he : e ∈ laAdd t k ls) :
    e ∈ t ∨ (e.1 = k ∧ ∀ a ∈ e.2, (∃ e0 ∈ t, e0.1 = k ∧ a ∈ e0.2) ∨ a ∈ ls) := by
  unfold laAdd at he
  split at he
  · simp only [List.mem_map] at he
    obtain ⟨e0, he0, rfl⟩ := he
    by_cases hk : (e0.1 == k) = true
    · simp only [hk, if_true]
      have hkey : e0.1 = k := by simpa using hk
      right
      refine ⟨hkey, fun a ha => ?_⟩
      rcases mem_unionNew.mp ha with h1 | h1
      · exact Or.inl ⟨e0, he0, hkey, h1⟩
      · exact Or.inr h1
    · simp only [hk]
      exact Or.inl he0
  · rcases List.mem_append.mp he with h1 | h1
    · exact Or.inl h1
    · simp at h1
      subst h1
      right
      refine ⟨rfl, fun a ha => ?_⟩
      rcases mem_unionNew.mp ha with h1 | h1
      · simp at h1
      · exact Or.inr h1

theorem lasInv_laAdd {g' : SGrammar} {S0 : StateMap} {t : LaTable} {k : Key} {ls : List String}
    (ht : LasInv g' S0 t)
    (hk : ∀ it, itemAt S0 k = some it → it.prod.head = g'.start → ∀ a ∈ ls, a = endmarker) :
    LasInv g' S0 (laAdd t k ls) := by
  intro e he it hit hh a ha
  rcases mem_laAdd he with h1 | ⟨hkey, h2⟩
  · exact ht e h1 it hit hh a ha
  · rcases h2 a ha with ⟨e0, he0, hk0, ha0⟩ | h3
    · exact ht e0 he0 it (by rw [hk0, ← hkey]; exact hit) hh a ha0
    · exact hk it (by rw [← hkey]; exact hit) hh a h3

theorem lookup_map_mono {k k0 : Key} {ls : List String} {a : String} :
    ∀ (t : LaTable) (ls0 : List String), t.lookup k0 = some ls0 → a ∈ ls0 →
      ∃ ls1, (t.map fun e => if e.1 == k then (e.1, unionNew e.2 ls) else e).lookup k0 = some ls1 ∧ a ∈ ls1
  | [], ls0, h, _ => by simp [List.lookup] at h
  | (k1, v) :: t, ls0, h, ha => by
    rw [List.lookup_cons] at h
    simp only [List.map_cons]
    by_cases hk : (k1 == k) = true
    · simp only [hk, if_true]
      rw [List.lookup_cons]
      cases hk0 : (k0 == k1) with
      | true =>
        rw [hk0] at h
        simp only [Option.some.injEq] at h
        subst h
        exact ⟨_, rfl, mem_unionNew.mpr (Or.inl ha)⟩
      | false =>
        rw [hk0] at h
        exact lookup_map_mono t ls0 h ha
    · have hk' : (k1 == k) = false := by simpa using hk
      simp only [hk', Bool.false_eq_true, if_false]
      rw [List.lookup_cons]
      cases hk0 : (k0 == k1) with
      | true =>
        rw [hk0] at h
        simp only [Option.some.injEq] at h
        subst h
        exact ⟨_, rfl, ha⟩
      | false =>
        rw [hk0] at h
        exact lookup_map_mono t ls0 h ha

theorem lookup_append_left {k0 : Key} {x : Key × List String} :
    ∀ (t : LaTable) (ls0 : List String), t.lookup k0 = some ls0 → (t ++ [x]).lookup k0 = some ls0
  | [], _, h => by simp [List.lookup] at h
  | (k1, v) :: t, ls0, h => by
    rw [List.lookup_cons] at h
    simp only [List.cons_append]
    rw [List.lookup_cons]
    cases hk0 : (k0 == k1) with
    | true => rw [hk0] at h; exact h
    | false => rw [hk0] at h; exact lookup_append_left t ls0 h

theorem laGet_laAdd_mono {t : LaTable} {k k0 : Key} {ls ls0 : List String} {a : String}
    (hg : laGet t k0 = some ls0) (ha : a ∈ ls0) : ∃ ls1, laGet (laAdd t k ls) k0 = some ls1 ∧ a ∈ ls1 := by
  unfold laGet at hg ⊢
  unfold laAdd
  split
  · exact lookup_map_mono t ls0 hg ha
  · exact ⟨ls0, lookup_append_left t ls0 hg, ha⟩

theorem hasEnd_laAdd {t : LaTable} {k : Key} {ls : List String} (h : HasEnd t) : HasEnd (laAdd t k ls) := by
  obtain ⟨ls0, hg, ha⟩ := h
  exact laGet_laAdd_mono hg ha

theorem findItem_spec (K : List Item) (x : Item) :
    findItem K x = -1 ∨ ∃ n : Nat, findItem K x = (n : Int) ∧ K[n]? = some x := by
  unfold findItem
  cases hf : K.findIdx? (fun y => decide (y = x)) with
  | none => exact Or.inl rfl
  | some n =>
    obtain ⟨y, hy, hp⟩ := findIdx?_some _ K n hf
    have : y = x := by simpa using hp
    exact Or.inr ⟨n, rfl, this ▸ hy⟩

/-- the key computed by `lalrVisit` denotes the advanced item -/
theorem itemAt_target {S0 : StateMap} {toSet : Int} (hts : ¬ toSet < 0) {x it : Item}
    (hat : itemAt S0 (toSet, findItem (S0.getD toSet.toNat []) x) = some it) : it = x := by
  unfold itemAt at hat
  rcases findItem_spec (S0.getD toSet.toNat []) x with hneg | ⟨n, hn, hK⟩
  · rw [hneg] at hat; simp at hat
  · rw [hn] at hat
    have : ¬ (toSet < 0 ∨ ((n : Nat) : Int) < 0) := by omega
    simp only [this, if_false, Int.toNat_natCast] at hat
    rw [hK] at hat
    exact (Option.some.inj hat).symm


def LInv (g' : SGrammar) (S0 : StateMap) (acc : LaTable × Links) : Prop :=
  LasInv g' S0 acc.1 ∧ LinkInv g' S0 acc.2 ∧ HasEnd acc.1

theorem lalrVisit_inv {g' : SGrammar} {S0 : StateMap} {A0 : Auto} {I : List Item} {src : Key}
    {acc acc' : LaTable × Links} {j : Item} (item0 : Item) (hsrc : itemAt S0 src = some item0)
    (hj : j = { item0 with la := some endmarker } ∨ Fresh0 g' j)
    (hinv : LInv g' S0 acc) (hv : lalrVisit A0 S0 I src acc j = Outcome.ok acc') : LInv g' S0 acc' := by
  unfold lalrVisit at hv
  split at hv
  · rw [← pure_eq_ok hv]; exact hinv
  · rename_i X hd
    obtain ⟨nextI, _, hrest⟩ := bind_eq_ok hv
    simp only at hrest
    split at hrest
    · simp at hrest
    · rename_i hts
      split at hrest
      · rename_i a hla
        split at hrest
        · -- propagation link
          rename_i hae
          rw [← pure_eq_ok hrest]
          refine ⟨hinv.1, ?_, hinv.2.2⟩
          intro l hl it hit hh
          rcases List.mem_append.mp hl with h1 | h1
          · exact hinv.2.1 l h1 it hit hh
          · simp at h1
            subst h1
            have hit' := itemAt_target hts hit
            subst hit'
            rcases hj with rfl | hf
            · exact ⟨item0, hsrc, hh⟩
            · exact absurd hh hf.2
        · -- spontaneous lookahead
          rename_i hae
          rw [← pure_eq_ok hrest]
          refine ⟨lasInv_laAdd hinv.1 ?_, hinv.2.1, hasEnd_laAdd hinv.2.2⟩
          intro it hit hh
          have hit' := itemAt_target hts hit
          subst hit'
          rcases hj with rfl | hf
          · simp at hla; exact absurd hla.symm hae
          · exact absurd hh hf.2
      · rw [← pure_eq_ok hrest]; exact hinv

theorem itemAt_nat {S0 : StateMap} {s i : Nat} {I : List Item} {it : Item} (hI : S0[s]? = some I)
    (hit : I[i]? = some it) : itemAt S0 ((s : Int), (i : Int)) = some it := by
  unfold itemAt
  have : ¬ (((s : Nat) : Int) < 0 ∨ ((i : Nat) : Int) < 0) := by omega
  simp only [this, if_false, Int.toNat_natCast]
  simp [List.getD, hI, hit]

section
variable {g g' : SGrammar} (h : AugOK g g') {A0 A1 : Auto} (hA1g : A1.g = g') (hA1k : A1.kernel = true)
include h hA1g hA1k

theorem lalrState_inv {S0 : StateMap} {s : Nat} {I : List Item} (hI : S0[s]? = some I)
    (hgood : ∀ it ∈ I, it.prod ∈ g'.prods)
    {acc acc' : LaTable × Links} (hinv : LInv g' S0 acc)
    (hr : lalrState A0 A1 S0 acc (I, s) = Outcome.ok acc') : LInv g' S0 acc' := by
  unfold lalrState at hr
  refine foldlM_inv _ (LInv g' S0) _ acc acc' ?_ hinv hr
  intro b ii b' hii hb hstep
  have hget : I[ii.2]? = some ii.1 := List.mem_zipIdx_iff_getElem?.mp hii
  have hmem : ii.1 ∈ I := List.mem_of_getElem? hget
  obtain ⟨J, hJ, hrest⟩ := bind_eq_ok hstep
  have hseed : ∀ i ∈ [({ ii.1 with la := some endmarker } : Item)], Good g' i := by
    intro i hi
    simp at hi
    subst hi
    exact ⟨hgood ii.1 hmem, fun _ => by simp [laIsEnd]⟩
  obtain ⟨h1, _, _⟩ := auto_closure_spec h hA1g hA1k hJ hseed
  refine foldlM_inv _ (LInv g' S0) J b b' ?_ hb hrest
  intro c j c' hj hc hv
  apply lalrVisit_inv ii.1 (itemAt_nat hI hget) _ hc hv
  rcases h1 j hj with h2 | h2
  · simp at h2; exact Or.inl h2
  · exact Or.inr h2.2

end

theorem propagate_step_inv {g' : SGrammar} {S0 : StateMap} : ∀ (props : Links) (t : LaTable),
    LinkInv g' S0 props → LasInv g' S0 t → HasEnd t →
    let t' := props.foldl (fun t (x : Key × Key) =>
      match laGet t x.1 with
      | some ls => if ls.isEmpty then t else laAdd t x.2 ls
      | none => t) t
    LasInv g' S0 t' ∧ HasEnd t'
  | [], t, _, h1, h2 => ⟨h1, h2⟩
  | x :: props, t, hl, h1, h2 => by
    simp only [List.foldl_cons]
    have hl' : LinkInv g' S0 props := fun l hl' => hl l (List.mem_cons_of_mem _ hl')
    apply propagate_step_inv props _ hl'
    · cases hg : laGet t x.1 with
      | none => exact h1
      | some ls =>
        simp only
        split
        · exact h1
        · apply lasInv_laAdd h1
          intro it hit hh a ha
          obtain ⟨it', hit', hh'⟩ := hl x (by simp) it hit hh
          have hmem : (x.1, ls) ∈ t := by
            unfold laGet at hg
            exact AlgoVerif.C11.Sound.lookup_mem _ _ _ hg
          exact h1 _ hmem it' hit' hh' a ha
    · cases hg : laGet t x.1 with
      | none => exact h2
      | some ls =>
        simp only
        split
        · exact h2
        · exact hasEnd_laAdd h2

theorem propagate_inv {g' : SGrammar} {S0 : StateMap} (props : Links) (hl : LinkInv g' S0 props) :
    ∀ (fuel : Nat) (t t' : LaTable), LasInv g' S0 t → HasEnd t →
      propagate props fuel t = Outcome.ok t' → LasInv g' S0 t' ∧ HasEnd t'
  | 0, _, _, _, _, hp => by simp [propagate] at hp
  | fuel + 1, t, t', h1, h2, hp => by
    unfold propagate at hp
    simp only at hp
    split at hp
    · simp only [Outcome.ok.injEq] at hp
      subst hp
      exact ⟨h1, h2⟩
    · have := propagate_step_inv props t hl h1 h2
      exact propagate_inv props hl fuel _ t' this.1 this.2 hp


/-! ## the kernels `ComputeLALR1Kernels` returns -/

theorem mem_foldl_decorate (item : Item) : ∀ (ls : List String) (J : List Item) (it : Item),
    it ∈ ls.foldl (fun J a => addNew J { item with la := some a }) J ↔
      it ∈ J ∨ ∃ a ∈ ls, it = { item with la := some a } := by
  intro ls
  induction ls with
  | nil => intro J it; simp
  | cons a ls ih =>
    intro J it
    simp only [List.foldl_cons, ih, mem_addNew, List.mem_cons]
    constructor
    · rintro ((h1 | h1) | ⟨b, hb, h2⟩)
      · exact Or.inl h1
      · exact Or.inr ⟨a, Or.inl rfl, h1⟩
      · exact Or.inr ⟨b, Or.inr hb, h2⟩
    · rintro (h1 | ⟨b, (rfl | hb), h2⟩)
      · exact Or.inl (Or.inl h1)
      · exact Or.inl (Or.inr h2)
      · exact Or.inr ⟨b, hb, h2⟩

/-- every item of the kernel of LALR state `s` is an LR(0) kernel item of `S0[s]` with one of its lookaheads -/
theorem lalrKernelOf_spec {las : LaTable} {I : List Item} {s : Nat} {J : List Item}
    (hk : lalrKernelOf las (I, s) = Outcome.ok J) :
    ∀ it ∈ J, ∃ (item : Item) (i : Nat) (ls : List String) (a : String),
      I[i]? = some item ∧ laGet las ((s : Int), (i : Int)) = some ls ∧ a ∈ ls ∧ it = { item with la := some a } := by
  unfold lalrKernelOf at hk
  refine foldlM_inv _ (fun J => ∀ it ∈ J, ∃ (item : Item) (i : Nat) (ls : List String) (a : String),
      I[i]? = some item ∧ laGet las ((s : Int), (i : Int)) = some ls ∧ a ∈ ls ∧ it = { item with la := some a })
    _ [] J ?_ (by simp) hk
  intro b ii b' hii hb hstep
  have hget : I[ii.2]? = some ii.1 := List.mem_zipIdx_iff_getElem?.mp hii
  split at hstep
  · rename_i ls hls
    rw [← pure_eq_ok hstep]
    intro it hit
    rcases (mem_foldl_decorate ii.1 ls b it).mp hit with h1 | ⟨a, ha, rfl⟩
    · exact hb it h1
    · exact ⟨ii.1, ii.2, ls, a, hget, hls, ha, rfl⟩
  · simp at hstep

theorem canonicalLoop_head (A : Auto) : ∀ (fuel : Nat) (I0 : List Item) (r C' : List (List Item)),
    canonicalLoop A fuel (I0 :: r) = Outcome.ok C' → ∃ r', C' = I0 :: r'
  | 0, _, _, _, hc => by simp [canonicalLoop] at hc
  | fuel + 1, I0, r, C', hc => by
    unfold canonicalLoop at hc
    obtain ⟨new, _, hrest⟩ := bind_eq_ok hc
    split at hrest
    · exact ⟨r, (pure_eq_ok hrest).symm⟩
    · exact canonicalLoop_head A fuel I0 (r ++ new) C' (by simpa using hrest)

section
variable {g g' : SGrammar} (h : AugOK g g')
include h

/-- `ComputeLALR1Kernels`: the first kernel is `[S′ → •S, $]`, the others contain no `S′ → •S` -/
theorem lalrKernels_spec {fuel : Nat} {K1 : List (List Item)} (hk : lalrKernels g' fuel = Outcome.ok K1) :
    CinvK g' (mkAuto g' true true fuel).initialItem K1 := by
  unfold lalrKernels at hk
  obtain ⟨K0, hK0, hk1⟩ := bind_eq_ok hk
  obtain ⟨lp, hlp, hk2⟩ := bind_eq_ok hk1
  obtain ⟨las, hlas, hk3⟩ := bind_eq_ok hk2
  -- the LR(0) kernel collection and its state map
  have hA0g : (mkAuto g' false true fuel).g = g' := rfl
  have hA1g : (mkAuto g' true true fuel).g = g' := rfl
  have hC0 := kcanonical_spec h hA0g rfl hK0
  have hinit0Eq := initialItem_eq h hA0g
  have hinit1Eq := initialItem_eq h hA1g
  simp only [mkAuto, Bool.false_eq_true, if_false] at hinit0Eq
  simp only [mkAuto, if_true] at hinit1Eq
  have hinit0 : (mkAuto g' false true fuel).initialItem.isInitial g'.start = true := by
    rw [show (mkAuto g' false true fuel).initialItem = _ from hinit0Eq]
    simp [Item.isInitial, startProd, laIsEnd]
  -- the first set of the kernel collection is exactly [init0]
  obtain ⟨rest0, hK0eq⟩ : ∃ r, K0 = [(mkAuto g' false true fuel).initialItem] :: r := by
    unfold Auto.canonical at hK0
    obtain ⟨I0, hI0, hrest⟩ := bind_eq_ok hK0
    have : I0 = [(mkAuto g' false true fuel).initialItem] := by
      simpa [mkAuto] using hI0.symm
    subst this
    exact canonicalLoop_head _ _ _ _ _ hrest
  subst hK0eq
  obtain ⟨I0', rest0', hEq, h0, hr0⟩ := hC0
  simp only [List.cons.injEq] at hEq
  obtain ⟨rfl, rfl⟩ := hEq
  obtain ⟨hS0ok, tail0, hS0eq, htail0⟩ := stateMap_specK' hinit0 h0 (fun J hJ => (hr0 J hJ).2)
  have hsort1 : sortBy (cmpItem g'.start) [(mkAuto g' false true fuel).initialItem]
      = [(mkAuto g' false true fuel).initialItem] := by simp [sortBy, insertBy]
  rw [hsort1] at hS0eq
  obtain ⟨S0, hS0def⟩ : ∃ S0, buildStateMap g'.start ([(mkAuto g' false true fuel).initialItem] :: rest0) = S0 :=
    ⟨_, rfl⟩
  rw [hS0def] at hlp hk3 hS0ok hS0eq
  -- all LR(0) kernel items are productions of G′
  have hS0good : ∀ (s : Nat) (I : List Item), S0[s]? = some I → ∀ it ∈ I, it.prod ∈ g'.prods :=
    fun s I hI it hit => (statesOK_good hS0ok s I hI it hit).1
  -- lookahead invariants
  have hinv0 : LInv g' S0 ([((0, 0), [endmarker])], []) := by
    refine ⟨?_, by intro l hl; simp at hl, ⟨[endmarker], by simp [laGet, List.lookup], by simp⟩⟩
    intro e he it _ _ a ha
    simp at he
    subst he
    simpa using ha
  have hinv1 : LInv g' S0 lp := by
    refine foldlM_inv _ (LInv g' S0) _ _ lp ?_ hinv0 hlp
    intro b Is b' hIs hb hstep
    have hget : S0[Is.2]? = some Is.1 := List.mem_zipIdx_iff_getElem?.mp hIs
    exact lalrState_inv h hA1g rfl hget (hS0good _ _ hget) hb hstep
  obtain ⟨hlasInv, hlasEnd⟩ := propagate_inv lp.2 hinv1.2.1 fuel lp.1 las hinv1.1 hinv1.2.2 hlas
  -- the kernels
  rw [hS0eq, List.zipIdx_cons, List.foldlM_cons] at hk3
  obtain ⟨K1a, hK1a, hk4⟩ := bind_eq_ok hk3
  obtain ⟨J0, hJ0, hK1a'⟩ := bind_eq_ok hK1a
  have hK1aEq : K1a = [J0] := by
    have := pure_eq_ok hK1a'
    simpa [containsSet] using this.symm
  subst hK1aEq
  -- J0 is [S′ → •S, $]
  have hJ0spec := lalrKernelOf_spec hJ0
  obtain ⟨ls0, hls0, hend0⟩ := hlasEnd
  have hat0 : itemAt S0 (0, 0) = some (mkAuto g' false true fuel).initialItem := by
    have : S0[0]? = some [(mkAuto g' false true fuel).initialItem] := by rw [hS0eq]; simp
    exact itemAt_nat (s := 0) (i := 0) this (by simp)
  have hJ0all : ∀ it ∈ J0, it = (mkAuto g' true true fuel).initialItem := by
    intro it hit
    obtain ⟨item, i, ls, a, hget, hla, ha, rfl⟩ := hJ0spec it hit
    have hi0 : i = 0 ∧ item = (mkAuto g' false true fuel).initialItem := by
      cases i with
      | zero => simp at hget; exact ⟨rfl, hget.symm⟩
      | succ i => simp at hget
    obtain ⟨rfl, rfl⟩ := hi0
    have hmem : ((((0 : Nat) : Int), ((0 : Nat) : Int)), ls) ∈ las := by
      unfold laGet at hla
      exact AlgoVerif.C11.Sound.lookup_mem _ _ _ hla
    have hae : a = endmarker := by
      refine hlasInv _ hmem _ hat0 ?_ a ha
      rw [show (mkAuto g' false true fuel).initialItem = _ from hinit0Eq]; rfl
    subst hae
    rw [show (mkAuto g' true true fuel).initialItem = _ from hinit1Eq,
      show (mkAuto g' false true fuel).initialItem = _ from hinit0Eq]
  have hJ0mem : (mkAuto g' true true fuel).initialItem ∈ J0 := by
    -- unfold the one-item fold
    unfold lalrKernelOf at hJ0
    simp only [List.zipIdx_cons, List.zipIdx_nil, List.foldlM_cons, List.foldlM_nil] at hJ0
    have hls0' : laGet las (((0 : Nat) : Int), ((0 : Nat) : Int)) = some ls0 := hls0
    rw [hls0'] at hJ0
    obtain ⟨J, hJ, hrest⟩ := bind_eq_ok hJ0
    have hJ' := pure_eq_ok hJ
    have hrest' := pure_eq_ok hrest
    rw [← hrest', ← hJ']
    apply (mem_foldl_decorate _ ls0 [] _).mpr
    right
    refine ⟨endmarker, hend0, ?_⟩
    rw [show (mkAuto g' true true fuel).initialItem = _ from hinit1Eq,
      show (mkAuto g' false true fuel).initialItem = _ from hinit0Eq]
  have hgood1 : Good g' (mkAuto g' true true fuel).initialItem := by
    rw [show (mkAuto g' true true fuel).initialItem = _ from hinit1Eq]
    exact ⟨(mem_prods' h).mpr (Or.inr rfl), fun _ => by simp [laIsEnd]⟩
  have hInitType : InitType g' (mkAuto g' true true fuel).initialItem J0 := by
    refine ⟨hJ0mem, fun it hit => ?_⟩
    have := hJ0all it hit
    subst this
    refine ⟨hgood1, ?_, fun hne => absurd rfl hne⟩
    rw [show (mkAuto g' true true fuel).initialItem = _ from hinit1Eq]
  -- the remaining kernels
  have hfinal : ∃ rest, K1 = J0 :: rest ∧ ∀ J ∈ rest, OtherK g' J := by
    refine foldlM_inv _ (fun K => ∃ rest, K = J0 :: rest ∧ ∀ J ∈ rest, OtherK g' J) _ [J0] K1 ?_
      ⟨[], rfl, by simp⟩ hk4
    intro b Is b' hIs hb hstep
    obtain ⟨rest, rfl, hrest⟩ := hb
    obtain ⟨J, hJ, hstep'⟩ := bind_eq_ok hstep
    have hb' := pure_eq_ok hstep'
    split at hb'
    · exact ⟨rest, hb'.symm, hrest⟩
    · refine ⟨rest ++ [J], by rw [← hb']; simp, ?_⟩
      intro J' hJ'
      rcases List.mem_append.mp hJ' with h1 | h1
      · exact hrest J' h1
      · simp at h1
        subst h1
        -- (Is.1, Is.2) is a state s ≥ 1 of S0
        obtain ⟨hk1, hk2, hIs1⟩ := List.mem_zipIdx (x := Is.1) (i := Is.2) (by simpa using hIs)
        have hpos : 0 < Is.2 := by omega
        have hget : S0[Is.2]? = some Is.1 := by
          rw [hS0eq]
          have : Is.2 = (Is.2 - 1) + 1 := by omega
          rw [this, List.getElem?_cons_succ, hIs1]
          exact List.getElem?_eq_getElem (by omega)
        intro it hit
        obtain ⟨item, i, ls, a, hgi, hla, ha, rfl⟩ := lalrKernelOf_spec hJ it hit
        have hitem : item ∈ Is.1 := List.mem_of_getElem? hgi
        have hoth := hS0ok.others Is.2 Is.1 hpos hget item hitem
        refine ⟨⟨hoth.1.1, fun hh => ?_⟩, hoth.2⟩
        have hmem : ((((Is.2 : Nat) : Int), ((i : Nat) : Int)), ls) ∈ las := by
          unfold laGet at hla
          exact AlgoVerif.C11.Sound.lookup_mem _ _ _ hla
        have hae := hlasInv _ hmem item (itemAt_nat hget hgi) hh a ha
        show laIsEnd (some a) = true
        rw [hae]; simp [laIsEnd]
  obtain ⟨rest, hK1, hrest⟩ := hfinal
  exact ⟨J0, rest, hK1, hInitType, hrest⟩

end

end AlgoVerif.C11.Built
