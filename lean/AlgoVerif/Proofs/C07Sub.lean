import AlgoVerif.Model.C07Sub
import AlgoVerif.Spec.C07
/-!
# C07 — a sort applied to a sub-slice `a[lo:hi]`

`onSub_spec`: whatever relation `R` the sort establishes between its output and its input (sorted permutation for the
comparison sorts, equality with the reference sort for the radix sorts), the caller's array afterwards has the same
length, is unchanged before `lo` and from `hi` on, and its block `lo … hi-1` is `R`-related to the block it held.
-/
namespace AlgoVerif.C07

variable {α : Type}

theorem onSub_spec (R : Array α → Array α → Prop) (f : Array α → Outcome (Array α))
    (hf : ∀ x, ∃ y, f x = .ok y ∧ y.size = x.size ∧ R y x)
    (a : Array α) (lo hi : Nat) (h1 : lo ≤ hi) (h2 : hi ≤ a.size) :
    ∃ out, onSub f a lo hi = .ok out ∧ out.size = a.size ∧
      (∀ i, i < lo → out[i]? = a[i]?) ∧ (∀ i, hi ≤ i → out[i]? = a[i]?) ∧
      R (out.extract lo hi) (a.extract lo hi) := by
  obtain ⟨y, hy, hsz, hR⟩ := hf (a.extract lo hi)
  have hys : y.size = hi - lo := by rw [hsz]; simp; omega
  refine ⟨a.extract 0 lo ++ y ++ a.extract hi a.size, ?_, ?_, ?_, ?_, ?_⟩
  · have hc : (0 : Int) ≤ (lo : Int) ∧ (lo : Int) ≤ (hi : Int) ∧ (hi : Int) ≤ (a.size : Int) := by omega
    simp only [onSub, hc, and_self, if_true, Int.toNat_natCast]
    show (f (a.extract lo hi)).bind _ = _
    rw [hy]; rfl
  · simp [hys]; omega
  · intro i hi'
    have : i < (a.extract 0 lo ++ y).size := by simp; omega
    rw [Array.getElem?_append_left this, Array.getElem?_append_left (by simp; omega)]
    simp [Array.getElem?_extract]; omega
  · intro i hi'
    have hsz1 : (a.extract 0 lo ++ y).size = hi := by simp [hys]; omega
    rw [Array.getElem?_append_right (by omega), hsz1]
    simp [Array.getElem?_extract]
    by_cases hia : i < a.size
    · have : hi + (i - hi) = i := by omega
      simp [this]; omega
    · simp [Array.getElem?_eq_none (Nat.le_of_not_lt hia)]; omega
  · have e : (a.extract 0 lo ++ y ++ a.extract hi a.size).extract lo hi = y := by
      apply Array.ext
      · simp [hys]; omega
      · intro i h1' h2'
        have hi1 : i < hi - lo := by simpa [hys] using h2'
        simp only [Array.getElem_extract]
        have hsz0 : (a.extract 0 lo).size = lo := by simp; omega
        rw [Array.getElem_append_left (by simp [hys]; omega), Array.getElem_append_right (by omega)]
        simp [hsz0]
    rw [e]; exact hR

end AlgoVerif.C07
