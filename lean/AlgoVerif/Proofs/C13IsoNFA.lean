import AlgoVerif.Proofs.C13IsoDFA
/-! C13: `NFA.Isomorphic` (after the fix) is true for an NFA and its copy renamed by any injective map. -/
namespace AlgoVerif.C13
open AlgoVerif AlgoVerif.C13.Spec

/-- the NFA obtained by adding a list of entries to the empty table -/
def NFA.ofEntries (s : Int) (f : List Int) (L : List (Int × Int × List Int)) : NFA :=
  L.foldl (fun (acc : NFA) e => acc.add e.1 e.2.1 e.2.2) ⟨s, f, []⟩

/-- renaming the entries of an NFA table (as `Isomorphic` feeds them to `Add`) -/
def mapEN (f : Int → Int) (e : Int × Int × List Int) : Int × Int × List Int := (f e.1, e.2.1, e.2.2.map f)

theorem NFA.permuted_eq (n : NFA) (f : Int → Int) :
    n.permuted f = NFA.ofEntries (f n.start) (mkSet (n.final.map f)) ((entries n.trans).map (mapEN f)) := by
  simp only [NFA.permuted, NFA.ofEntries, NFA.new]
  have h := foldl_nested (γ := NFA) n.trans (fun acc s a nx => acc.add (f s) a (nx.map f)) ⟨f n.start, mkSet (n.final.map f), []⟩
  rw [h, List.foldl_map]
  rfl

theorem NFA.ofEntries_start_final (s : Int) (f : List Int) (L : List (Int × Int × List Int)) :
    (NFA.ofEntries s f L).start = s ∧ (NFA.ofEntries s f L).final = f :=
  NFA.start_foldl_add L (fun e => e) ⟨s, f, []⟩

theorem NFA.ofEntries_WF (s : Int) (f : List Int) (L : List (Int × Int × List Int)) : (NFA.ofEntries s f L).WF :=
  NFA.WF_foldl_add L (fun e => e) _ (by simp [NFA.WF, ASorted])

/-- adding entries with pairwise different, fresh keys -/
theorem NFA.fold_next (L : List (Int × Int × List Int)) (n0 : NFA)
    (hd : L.Pairwise (fun e e' => ¬ (e.1 = e'.1 ∧ e.2.1 = e'.2.1)))
    (hfresh : ∀ e ∈ L, n0.next e.1 e.2.1 = none) :
    (∀ x a nx, (x, a, nx) ∈ L → (L.foldl (fun (acc : NFA) e => acc.add e.1 e.2.1 e.2.2) n0).next x a = some (saddAll [] nx)) ∧
    (∀ x a, (∀ nx, (x, a, nx) ∉ L) → (L.foldl (fun (acc : NFA) e => acc.add e.1 e.2.1 e.2.2) n0).next x a = n0.next x a) := by
  induction L generalizing n0 with
  | nil => simp
  | cons e L ih =>
    obtain ⟨s1, a1, nx1⟩ := e
    simp only [List.pairwise_cons] at hd
    simp only [List.foldl_cons]
    have hn1 : ∀ x a, (n0.add s1 a1 nx1).next x a = if x = s1 ∧ a = a1 then some (saddAll [] nx1) else n0.next x a := by
      intro x a
      rw [NFA.next_add, hfresh (s1, a1, nx1) (by simp)]
      rfl
    obtain ⟨i1, i2⟩ := ih (n0.add s1 a1 nx1) hd.2 (by
      intro e he
      rw [hn1]
      have := hd.1 e he
      have hne : ¬ (e.1 = s1 ∧ e.2.1 = a1) := fun h => this ⟨h.1.symm, h.2.symm⟩
      simp only [hne, if_false]
      exact hfresh e (by simp [he]))
    refine ⟨?_, ?_⟩
    · intro x a nx hm
      simp only [List.mem_cons] at hm
      rcases hm with hm | hm
      · injection hm with e1 e2; injection e2 with e2 e3; subst e1; subst e2; subst e3
        rw [i2 x a (by
          intro nx' hm'
          exact hd.1 _ hm' ⟨rfl, rfl⟩), hn1]
        simp
      · exact i1 x a nx hm
    · intro x a hno
      rw [i2 x a (fun nx hm => hno nx (by simp [hm])), hn1]
      have : ¬ (x = s1 ∧ a = a1) := by
        rintro ⟨rfl, rfl⟩
        exact hno nx1 (by simp)
      simp [this]

theorem NFA.entry_states (n : NFA) {s a : Int} {nx : List Int} (h : (s, a, nx) ∈ entries n.trans) :
    s ∈ n.states ∧ ∀ t ∈ nx, t ∈ n.states := by
  simp only [entries, List.mem_flatMap, List.mem_map] at h
  obtain ⟨st, hst, e, he, heq⟩ := h
  simp at heq
  obtain ⟨rfl, rfl, rfl⟩ := heq
  exact ⟨n.mem_states_of _ (Or.inr (Or.inr ⟨st, hst, e, he, Or.inl rfl⟩)),
    fun t ht => n.mem_states_of _ (Or.inr (Or.inr ⟨st, hst, e, he, Or.inr ht⟩))⟩

theorem NFA.states_eq (n : NFA) : n.states =
    (entries n.trans).foldl (fun acc e => sunion (sins e.1 acc) e.2.2) (sunion (mkSet [n.start]) n.final) := by
  simp only [NFA.states]
  exact foldl_nested (γ := List Int) n.trans (fun acc s _ nx => sunion (sins s acc) nx) _

theorem NFA.mem_states_iff (n : NFA) (x : Int) :
    x ∈ n.states ↔ x = n.start ∨ x ∈ n.final ∨ ∃ s a nx, (s, a, nx) ∈ entries n.trans ∧ (x = s ∨ x ∈ nx) := by
  rw [n.states_eq]
  have gen : ∀ (L : List (Int × Int × List Int)) (acc : List Int),
      x ∈ L.foldl (fun acc e => sunion (sins e.1 acc) e.2.2) acc ↔
      (x ∈ acc ∨ ∃ s a nx, (s, a, nx) ∈ L ∧ (x = s ∨ x ∈ nx)) := by
    intro L
    induction L with
    | nil => intro acc; simp
    | cons e L ih =>
      intro acc
      simp only [List.foldl_cons]
      rw [ih]
      obtain ⟨s1, a1, nx1⟩ := e
      simp only [mem_sunion, mem_sins, List.mem_cons]
      constructor
      · rintro (((h | h) | h) | ⟨s, a, nx, hm, hx⟩)
        · right; exact ⟨s1, a1, nx1, Or.inl rfl, Or.inl h⟩
        · left; exact h
        · right; exact ⟨s1, a1, nx1, Or.inl rfl, Or.inr h⟩
        · right; exact ⟨s, a, nx, Or.inr hm, hx⟩
      · rintro (h | ⟨s, a, nx, hm | hm, hx⟩)
        · left; left; right; exact h
        · injection hm with e1 e2; injection e2 with e2 e3; subst e1; subst e3
          rcases hx with hx | hx
          · left; left; left; exact hx
          · left; right; exact hx
        · right; exact ⟨s, a, nx, hm, hx⟩
  rw [gen]; simp [or_assoc]

theorem NFA.states_sorted (n : NFA) : SSorted n.states := by
  rw [n.states_eq]
  have gen : ∀ (L : List (Int × Int × List Int)) (acc : List Int), SSorted acc →
      SSorted (L.foldl (fun acc e => sunion (sins e.1 acc) e.2.2) acc) := by
    intro L
    induction L with
    | nil => intro acc h; exact h
    | cons e L ih => intro acc h; simp only [List.foldl_cons]; exact ih _ (ssorted_saddAll (ssorted_sins h))
  exact gen _ _ (ssorted_saddAll (ssorted_mkSet _))

theorem NFA.symbols_eq (n : NFA) : n.symbols =
    (entries n.trans).foldl (fun acc e => if e.2.1 ≠ E then sins e.2.1 acc else acc) [] := by
  simp only [NFA.symbols]
  exact foldl_nested (γ := List Int) n.trans (fun acc _ a _ => if a ≠ E then sins a acc else acc) _

theorem NFA.mem_symbols_iff (n : NFA) (a : Int) : a ∈ n.symbols ↔ a ≠ E ∧ ∃ s nx, (s, a, nx) ∈ entries n.trans := by
  rw [n.symbols_eq]
  have gen : ∀ (L : List (Int × Int × List Int)) (acc : List Int),
      a ∈ L.foldl (fun acc e => if e.2.1 ≠ E then sins e.2.1 acc else acc) acc ↔
      (a ∈ acc ∨ (a ≠ E ∧ ∃ s nx, (s, a, nx) ∈ L)) := by
    intro L
    induction L with
    | nil => intro acc; simp
    | cons e L ih =>
      intro acc
      simp only [List.foldl_cons]
      rw [ih]
      obtain ⟨s1, a1, nx1⟩ := e
      simp only [List.mem_cons]
      by_cases ha1 : a1 = E
      · simp only [ha1, ne_eq, not_true_eq_false, if_false]
        constructor
        · rintro (h | ⟨h1, s, nx, h2⟩)
          · left; exact h
          · right; exact ⟨h1, s, nx, Or.inr h2⟩
        · rintro (h | ⟨h1, s, nx, h2 | h2⟩)
          · left; exact h
          · injection h2 with _ h2; injection h2 with h2 _; exact absurd h2 h1
          · right; exact ⟨h1, s, nx, h2⟩
      · simp only [ne_eq, ha1, not_false_eq_true, if_true, mem_sins]
        constructor
        · rintro ((h | h) | ⟨h1, s, nx, h2⟩)
          · right; exact ⟨by rw [h]; exact ha1, s1, nx1, Or.inl (by rw [h])⟩
          · left; exact h
          · right; exact ⟨h1, s, nx, Or.inr h2⟩
        · rintro (h | ⟨h1, s, nx, h2 | h2⟩)
          · left; right; exact h
          · injection h2 with _ h2; injection h2 with h2 _; left; left; exact h2
          · right; exact ⟨h1, s, nx, h2⟩
  rw [gen]; simp

theorem NFA.symbols_sorted (n : NFA) : SSorted n.symbols := by
  rw [n.symbols_eq]
  have gen : ∀ (L : List (Int × Int × List Int)) (acc : List Int), SSorted acc →
      SSorted (L.foldl (fun acc e => if e.2.1 ≠ E then sins e.2.1 acc else acc) acc) := by
    intro L
    induction L with
    | nil => intro acc h; exact h
    | cons e L ih =>
      intro acc h; simp only [List.foldl_cons]
      apply ih
      split
      · exact ssorted_sins h
      · exact h
  exact gen _ _ (by simp [SSorted])

theorem NFA.edges_eq (n : NFA) :
    n.trans.flatMap (fun st => st.2.flatMap (fun e => e.2.map (fun t => (st.1, t)))) =
      (entries n.trans).flatMap (fun e => e.2.2.map (fun t => (e.1, t))) := by
  simp only [entries]
  induction n.trans with
  | nil => rfl
  | cons st tr ih =>
    simp only [List.flatMap_cons, List.flatMap_append, ih]
    congr 1
    induction st.2 with
    | nil => rfl
    | cons e es ih2 => simp only [List.flatMap_cons, List.map_cons, ih2]

theorem NFA.sortedDegrees_eq (n : NFA) :
    n.sortedDegrees = sortInts (n.states.map (degOf ((entries n.trans).flatMap (fun e => e.2.2.map (fun t => (e.1, t)))))) := by
  simp only [NFA.sortedDegrees, n.edges_eq]; rfl

/-- `Isomorphic` is true for an NFA and its copy renamed by a map that is injective on the states -/
theorem NFA.isomorphic_permuted (n : NFA) (hwf : n.WF) (hfs : SSorted n.final)
    (hts : ∀ s a nx, (s, a, nx) ∈ entries n.trans → SSorted nx) (f : Int → Int)
    (hinj : ∀ s ∈ n.states, ∀ t ∈ n.states, f s = f t → s = t) :
    n.isomorphic (n.permuted f) = .ok true := by
  have hstart : n.start ∈ n.states := n.mem_states_of _ (Or.inl rfl)
  have hfinal : ∀ x ∈ n.final, x ∈ n.states := fun x hx => n.mem_states_of _ (Or.inr (Or.inl hx))
  generalize hrhs : n.permuted f = rhs
  have hrhs' : rhs = NFA.ofEntries (f n.start) (mkSet (n.final.map f)) ((entries n.trans).map (mapEN f)) := by
    rw [← hrhs, n.permuted_eq]
  have hsf := NFA.ofEntries_start_final (f n.start) (mkSet (n.final.map f)) ((entries n.trans).map (mapEN f))
  rw [← hrhs'] at hsf
  have hrwf : rhs.WF := by rw [hrhs']; exact NFA.ofEntries_WF _ _ _
  have hnd := entries_nodup n.trans hwf.1 hwf.2
  -- the entries of `n` are functional in their key
  have hefun : ∀ s a nx nx', (s, a, nx) ∈ entries n.trans → (s, a, nx') ∈ entries n.trans → nx = nx' := by
    intro s a nx nx' h1 h2
    have e1 := (mem_entries_NFA hwf _ _ _).1 h1
    have e2 := (mem_entries_NFA hwf _ _ _).1 h2
    rw [e1] at e2; injection e2
  -- the keys of the renamed entries are pairwise different
  have hkeys : ((entries n.trans).map (mapEN f)).Pairwise (fun e e' => ¬ (e.1 = e'.1 ∧ e.2.1 = e'.2.1)) := by
    rw [List.pairwise_map]
    apply (List.nodup_iff_pairwise_ne.1 hnd).imp_of_mem
    intro e1 e2 he1 he2 hne hk
    obtain ⟨s1, a1, nx1⟩ := e1
    obtain ⟨s2, a2, nx2⟩ := e2
    simp only [mapEN] at hk
    obtain ⟨h1, rfl⟩ := hk
    have := hinj s1 (n.entry_states he1).1 s2 (n.entry_states he2).1 h1
    subst this
    exact hne (by rw [hefun _ _ _ _ he1 he2])
  obtain ⟨hn1, hn2⟩ := NFA.fold_next ((entries n.trans).map (mapEN f)) ⟨f n.start, mkSet (n.final.map f), []⟩ hkeys
    (by intro e _; simp [NFA.next, aget])
  -- the table of the copy holds exactly the renamed entries, with sorted target sets
  have hent : ∀ x a T, (x, a, T) ∈ entries rhs.trans ↔
      (x, a, T) ∈ (entries n.trans).map (fun e => (f e.1, e.2.1, mkSet (e.2.2.map f))) := by
    intro x a T
    rw [mem_entries_NFA hrwf, hrhs']
    simp only [NFA.ofEntries, List.mem_map]
    constructor
    · intro h
      by_cases hex : ∃ nx, (x, a, nx) ∈ (entries n.trans).map (mapEN f)
      · obtain ⟨nx, hm⟩ := hex
        rw [hn1 x a nx hm] at h
        injection h with h
        obtain ⟨e, he, heq⟩ := List.mem_map.1 hm
        simp only [mapEN, Prod.mk.injEq] at heq
        obtain ⟨rfl, rfl, rfl⟩ := heq
        exact ⟨e, he, by rw [← h]; rfl⟩
      · rw [hn2 x a (fun nx hm => hex ⟨nx, hm⟩)] at h
        simp [NFA.next, aget] at h
    · rintro ⟨e, he, heq⟩
      simp only [Prod.mk.injEq] at heq
      obtain ⟨rfl, rfl, rfl⟩ := heq
      exact hn1 _ _ _ (List.mem_map.2 ⟨e, he, rfl⟩)
  have hmapnd : ((entries n.trans).map (fun e => (f e.1, e.2.1, mkSet (e.2.2.map f)))).Nodup := by
    apply nodup_map_of_injOn _ _ hnd
    intro e1 he1 e2 he2 he
    obtain ⟨s1, a1, nx1⟩ := e1
    obtain ⟨s2, a2, nx2⟩ := e2
    simp only [Prod.mk.injEq] at he
    obtain ⟨h1, rfl, _⟩ := he
    have := hinj s1 (n.entry_states he1).1 s2 (n.entry_states he2).1 h1
    subst this
    rw [hefun _ _ _ _ he1 he2]
  have hentperm : (entries rhs.trans).Perm ((entries n.trans).map (fun e => (f e.1, e.2.1, mkSet (e.2.2.map f)))) := by
    rw [List.perm_ext_iff_of_nodup (entries_nodup rhs.trans hrwf.1 hrwf.2) hmapnd]
    rintro ⟨x, a, T⟩; exact hent x a T
  -- its states are the images of the states
  have hstates : ∀ x, x ∈ rhs.states ↔ x ∈ n.states.map f := by
    intro x
    rw [rhs.mem_states_iff, hsf.1, hsf.2, List.mem_map]
    constructor
    · rintro (h | h | ⟨s, a, T, hm, hx⟩)
      · exact ⟨n.start, hstart, h.symm⟩
      · simp at h; obtain ⟨q, hq, rfl⟩ := h; exact ⟨q, hfinal q hq, rfl⟩
      · obtain ⟨e, he, heq⟩ := List.mem_map.1 ((hent s a T).1 hm)
        obtain ⟨s1, a1, nx1⟩ := e
        simp only [Prod.mk.injEq] at heq
        obtain ⟨rfl, rfl, rfl⟩ := heq
        rcases hx with rfl | hx
        · exact ⟨s1, (n.entry_states he).1, rfl⟩
        · simp at hx; obtain ⟨t, ht, rfl⟩ := hx
          exact ⟨t, (n.entry_states he).2 t ht, rfl⟩
    · rintro ⟨s, hs, rfl⟩
      rcases (n.mem_states_iff s).1 hs with h | h | ⟨s1, a, nx1, hm, hx⟩
      · left; rw [h]
      · right; left; simp; exact ⟨s, h, rfl⟩
      · right; right
        refine ⟨f s1, a, mkSet (nx1.map f), (hent _ _ _).2 (List.mem_map.2 ⟨(s1, a, nx1), hm, rfl⟩), ?_⟩
        rcases hx with rfl | hx
        · left; rfl
        · right; simp; exact ⟨s, hx, rfl⟩
  have hmapsnd : (n.states.map f).Nodup := nodup_map_of_injOn f _ (ssorted_nodup n.states_sorted) hinj
  have hstperm : (n.states.map f).Perm rhs.states := by
    rw [List.perm_ext_iff_of_nodup hmapsnd (ssorted_nodup rhs.states_sorted)]
    intro x; exact (hstates x).symm
  have c1 : n.final.length = rhs.final.length := by
    rw [hsf.2]
    have := (mkSet_perm (n.final.map f) (nodup_map_of_injOn f _ (ssorted_nodup hfs)
      (fun a ha b hb => hinj a (hfinal a ha) b (hfinal b hb)))).length_eq
    simp at this; omega
  have c2 : n.states.length = rhs.states.length := by
    have := hstperm.length_eq; simp at this; exact this
  have c3 : setEq n.symbols rhs.symbols = true := by
    have : n.symbols = rhs.symbols := by
      apply ssorted_ext n.symbols_sorted rhs.symbols_sorted
      intro a
      rw [n.mem_symbols_iff, rhs.mem_symbols_iff]
      constructor
      · rintro ⟨ha, s, nx, h⟩
        exact ⟨ha, f s, mkSet (nx.map f), (hent _ _ _).2 (List.mem_map.2 ⟨(s, a, nx), h, rfl⟩)⟩
      · rintro ⟨ha, x, T, h⟩
        obtain ⟨e, he, heq⟩ := List.mem_map.1 ((hent _ _ _).1 h)
        obtain ⟨s1, a1, nx1⟩ := e
        simp only [Prod.mk.injEq] at heq
        obtain ⟨_, rfl, _⟩ := heq
        exact ⟨ha, s1, nx1, he⟩
    rw [this]; exact setEq_refl _
  have c4 : degreesAgree n.sortedDegrees rhs.sortedDegrees = some true := by
    have : rhs.sortedDegrees = n.sortedDegrees := by
      rw [rhs.sortedDegrees_eq, n.sortedDegrees_eq]
      apply sortInts_perm
      have hedges : ((entries rhs.trans).flatMap (fun e => e.2.2.map (fun t => (e.1, t)))).Perm
          (((entries n.trans).flatMap (fun e => e.2.2.map (fun t => (e.1, t)))).map (fun p => (f p.1, f p.2))) := by
        refine (hentperm.flatMap_right _).trans ?_
        rw [List.flatMap_map, List.map_flatMap]
        apply flatMap_perm_pointwise
        rintro ⟨s1, a1, nx1⟩ he
        simp only [List.map_map]
        have hnx : (nx1.map f).Nodup := nodup_map_of_injOn f _ (ssorted_nodup (hts _ _ _ he))
          (fun a ha b hb => hinj a ((n.entry_states he).2 a ha) b ((n.entry_states he).2 b hb))
        have := (mkSet_perm _ hnx).map (fun t => (f s1, t))
        refine this.trans (List.Perm.of_eq ?_)
        simp only [List.map_map]; rfl
      refine (hstperm.symm.map _).trans ?_
      rw [List.map_map]
      apply List.Perm.of_eq
      apply List.map_congr_left
      intro s hs
      simp only [Function.comp]
      rw [degOf_perm _ _ hedges, degOf_map]
      intro p hp
      rw [List.mem_flatMap] at hp
      obtain ⟨e, he, hp⟩ := hp
      obtain ⟨s1, a1, nx1⟩ := e
      obtain ⟨t, ht, rfl⟩ := List.mem_map.1 hp
      have := n.entry_states he
      exact ⟨⟨fun h => hinj _ this.1 _ hs h, fun h => by rw [h]⟩,
        ⟨fun h => hinj _ (this.2 t ht) _ hs h, fun h => by rw [h]⟩⟩
    rw [this]; exact degreesAgree_refl _
  have c5 : rhs.states.isEmpty = false := by
    have : f n.start ∈ rhs.states := (hstates _).2 (List.mem_map.2 ⟨n.start, hstart, rfl⟩)
    cases h : rhs.states with
    | nil => rw [h] at this; simp at this
    | cons _ _ => rfl
  have hyield : (n.permuted (bij n.states (n.states.map f))).equal rhs = true := by
    have hcongr : n.permuted (bij n.states (n.states.map f)) = rhs := by
      rw [n.permuted_eq, hrhs']
      have hb : ∀ s ∈ n.states, bij n.states (n.states.map f) s = f s := fun s hs => bij_map n.states f s hs
      rw [hb n.start hstart]
      congr 1
      · congr 1
        apply List.map_congr_left
        intro x hx; exact hb x (hfinal x hx)
      · apply List.map_congr_left
        intro e he
        obtain ⟨s1, a1, nx1⟩ := e
        simp only [mapEN]
        rw [hb s1 (n.entry_states he).1]
        congr 2
        apply List.map_congr_left
        intro t ht; exact hb t ((n.entry_states he).2 t ht)
    rw [hcongr]
    simp only [NFA.equal, beq_self_eq_true, Bool.true_and, setEq_refl, Bool.and_eq_true, true_and]
    apply aEqual_refl _ _ hrwf.1
    intro kv hkv
    exact aEqual_refl _ _ (hrwf.2 kv hkv) (fun _ _ => setEq_refl _)
  simp only [NFA.isomorphic, c1, c2, c3, c4, c5]
  have hlen : rhs.states.length = 0 + (rhs.states.length - 1) + 1 := by
    cases h : rhs.states with
    | nil => rw [h] at c5; simp at c5
    | cons _ _ => simp
  have := genPerms_complete (fun perm => !(n.permuted (bij n.states perm)).equal rhs) (rhs.states.length - 1)
    rhs.states 0 (n.states.map f) hlen (ssorted_nodup rhs.states_sorted) hstperm (by simp) (by simp [hyield])
  simp [this]

instance (l : List Int) : Decidable (SSorted l) := by unfold SSorted; infer_instance

/-- a decidable way to establish the sorted-target-sets hypothesis for a concrete automaton -/
theorem targets_sorted_of_all (tr : List (Int × List (Int × List Int)))
    (h : (entries tr).all (fun e => decide (SSorted e.2.2)) = true) :
    ∀ s a nx, (s, a, nx) ∈ entries tr → SSorted nx := by
  intro s a nx hm
  rw [List.all_eq_true] at h
  simpa using h _ hm

end AlgoVerif.C13
