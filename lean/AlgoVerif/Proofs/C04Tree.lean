import AlgoVerif.Model.C04Run
/-!
# C04: trees shared by the binomial and the Fibonacci heap — nodes, heap order, `link`
-/
namespace AlgoVerif.C04
variable {K V : Type}

/-- two lists are permutations of each other when every element occurs equally often (decidable equality
is only needed for the counting and is supplied classically) -/
theorem perm_of_count {α : Type} (l₁ l₂ : List α)
    (h : ∀ [DecidableEq α] (a : α), l₁.count a = l₂.count a) : l₁.Perm l₂ := by
  classical
  exact List.perm_iff_count.mpr (fun a => h a)

/-- closes `l₁.Perm l₂` goals that hold by associativity/commutativity of `++`, `::` and `reverse` -/
macro "c04_perm" : tactic =>
  `(tactic| (apply AlgoVerif.C04.perm_of_count; intro _ x;
             simp only [List.append_eq, List.count_append, List.count_cons, List.count_nil, List.count_reverse, List.count_singleton]; omega))

namespace Tree

mutual
/-- the (key, value) pairs of a tree -/
def nodes : Tree K V → List (K × V)
  | .node k v _ cs => (k, v) :: nodesF cs
/-- the (key, value) pairs of a forest -/
def nodesF : List (Tree K V) → List (K × V)
  | [] => []
  | t :: ts => nodes t ++ nodesF ts
end

mutual
/-- heap order: every node's key is `cmp`-below-or-equal the keys of its children -/
def Ord (cmp : K → K → Int) : Tree K V → Prop
  | .node k _ _ cs => OrdF cmp k cs
/-- every tree of the list is heap ordered and its root is above-or-equal `k` -/
def OrdF (cmp : K → K → Int) (k : K) : List (Tree K V) → Prop
  | [] => True
  | t :: ts => cmp k t.key ≤ 0 ∧ Ord cmp t ∧ OrdF cmp k ts
end

@[simp] theorem nodesF_nil : nodesF ([] : List (Tree K V)) = [] := by simp [nodesF]
@[simp] theorem nodesF_cons (t : Tree K V) (ts : List (Tree K V)) : nodesF (t :: ts) = nodes t ++ nodesF ts := by
  simp [nodesF]

theorem nodes_eq (t : Tree K V) : nodes t = (t.key, t.val) :: nodesF t.children := by
  cases t; simp [nodes, key, val, children]

theorem nodesF_append (a b : List (Tree K V)) : nodesF (a ++ b) = nodesF a ++ nodesF b := by
  induction a with
  | nil => simp
  | cons t ts ih => simp [ih]

theorem nodesF_reverse (a : List (Tree K V)) : (nodesF a.reverse).Perm (nodesF a) := by
  induction a with
  | nil => simp
  | cons t ts ih =>
    rw [List.reverse_cons, nodesF_append, nodesF_cons, nodesF_cons, nodesF_nil, List.append_nil]
    exact (List.perm_append_comm).trans (List.Perm.append_left _ ih)

theorem nodes_ne_nil (t : Tree K V) : nodes t ≠ [] := by rw [nodes_eq]; simp

theorem nodesF_eq_nil (a : List (Tree K V)) : nodesF a = [] ↔ a = [] := by
  cases a with
  | nil => simp
  | cons t ts => simp [nodes_ne_nil]

theorem nodes_leaf (k : K) (v : V) : nodes (leaf k v) = [(k, v)] := by simp [leaf, nodes]

theorem nodes_link (c p : Tree K V) : (nodes (link c p)).Perm (nodes p ++ nodes c) := by
  cases p with
  | node k v d cs =>
    simp only [link, nodes, nodesF_cons, List.cons_append]
    exact (List.perm_cons _).mpr List.perm_append_comm

theorem key_link (c p : Tree K V) : (link c p).key = p.key := by cases p; rfl
theorem val_link (c p : Tree K V) : (link c p).val = p.val := by cases p; rfl
theorem deg_link (c p : Tree K V) : (link c p).deg = p.deg + 1 := by cases p; rfl

theorem Ord_leaf (cmp : K → K → Int) (k : K) (v : V) : Ord cmp (leaf k v) := by simp [leaf, Ord, OrdF]

theorem Ord_link {cmp : K → K → Int} (c p : Tree K V) (hc : Ord cmp c) (hp : Ord cmp p) (h : cmp p.key c.key ≤ 0) :
    Ord cmp (link c p) := by
  cases p with
  | node k v d cs =>
    simp only [link, Ord, OrdF]
    exact ⟨h, hc, hp⟩

/-- all trees of a forest are heap ordered -/
def OrdAll (cmp : K → K → Int) (ts : List (Tree K V)) : Prop := ∀ t ∈ ts, Ord cmp t

theorem OrdF_OrdAll {cmp : K → K → Int} (k : K) (cs : List (Tree K V)) (h : OrdF cmp k cs) : OrdAll cmp cs := by
  induction cs with
  | nil => intro t ht; cases ht
  | cons c cs ih =>
    simp only [OrdF] at h
    intro t ht
    rcases List.mem_cons.mp ht with rfl | ht
    · exact h.2.1
    · exact ih h.2.2 t ht

theorem Ord_children {cmp : K → K → Int} (t : Tree K V) (h : Ord cmp t) : OrdAll cmp t.children := by
  cases t with
  | node k v d cs => exact OrdF_OrdAll k cs h

mutual
theorem key_le_nodes {cmp : K → K → Int} (hc : LawfulCmp cmp) :
    ∀ (t : Tree K V), Ord cmp t → ∀ p ∈ nodes t, cmp t.key p.1 ≤ 0
  | .node k v d cs, h, p, hp => by
    simp only [nodes, List.mem_cons] at hp
    rcases hp with rfl | hp
    · exact hc.refl _
    · exact key_le_nodesF hc k cs h p hp
theorem key_le_nodesF {cmp : K → K → Int} (hc : LawfulCmp cmp) :
    ∀ (k : K) (cs : List (Tree K V)), OrdF cmp k cs → ∀ p ∈ nodesF cs, cmp k p.1 ≤ 0
  | _, [], _, p, hp => by simp at hp
  | k, t :: ts, h, p, hp => by
    simp only [OrdF] at h
    simp only [nodesF_cons, List.mem_append] at hp
    rcases hp with hp | hp
    · exact hc.trans _ _ _ h.1 (key_le_nodes hc t h.2.1 p hp)
    · exact key_le_nodesF hc k ts h.2.2 p hp
end

mutual
theorem any_eq (p : K → V → Bool) : ∀ (t : Tree K V), any p t = (nodes t).any (fun q => p q.1 q.2)
  | .node k v d cs => by simp [any, nodes, anyF_eq p cs]
theorem anyF_eq (p : K → V → Bool) : ∀ (ts : List (Tree K V)), anyF p ts = (nodesF ts).any (fun q => p q.1 q.2)
  | [] => by simp [anyF]
  | t :: ts => by simp [anyF, any_eq p t, anyF_eq p ts]
end

end Tree
open Tree

theorem OrdAll_nil (cmp : K → K → Int) : OrdAll cmp ([] : List (Tree K V)) := fun _ h => by cases h

theorem OrdAll_cons {cmp : K → K → Int} {t : Tree K V} {ts : List (Tree K V)} :
    OrdAll cmp (t :: ts) ↔ Ord cmp t ∧ OrdAll cmp ts := by
  constructor
  · intro h; exact ⟨h t (List.mem_cons_self), fun x hx => h x (List.mem_cons_of_mem _ hx)⟩
  · rintro ⟨h1, h2⟩ x hx
    rcases List.mem_cons.mp hx with rfl | hx
    · exact h1
    · exact h2 x hx

theorem OrdAll_append {cmp : K → K → Int} {a b : List (Tree K V)} :
    OrdAll cmp (a ++ b) ↔ OrdAll cmp a ∧ OrdAll cmp b := by
  constructor
  · intro h; exact ⟨fun x hx => h x (List.mem_append_left _ hx), fun x hx => h x (List.mem_append_right _ hx)⟩
  · rintro ⟨h1, h2⟩ x hx
    rcases List.mem_append.mp hx with hx | hx
    · exact h1 x hx
    · exact h2 x hx

theorem OrdAll_reverse {cmp : K → K → Int} {a : List (Tree K V)} (h : OrdAll cmp a) : OrdAll cmp a.reverse :=
  fun x hx => h x (List.mem_reverse.mp hx)

/-- the root `findExt` picks has an extremal key among all held entries -/
theorem ext_extremal {cmp : K → K → Int} (hc : LawfulCmp cmp) (head : List (Tree K V)) (hord : OrdAll cmp head)
    (e : Tree K V) (hmin : ∀ t ∈ head, cmp e.key t.key ≤ 0) : Extremal cmp (nodesF head) e.key := by
  intro p hp
  induction head with
  | nil => simp at hp
  | cons t ts ih =>
    rw [OrdAll_cons] at hord
    simp only [nodesF_cons, List.mem_append] at hp
    rcases hp with hp | hp
    · exact hc.trans _ _ _ (hmin t List.mem_cons_self) (key_le_nodes hc t hord.1 p hp)
    · exact ih hord.2 (fun x hx => hmin x (List.mem_cons_of_mem _ hx)) hp


end AlgoVerif.C04
