import AlgoVerif.Proofs.C11LalrClo
import AlgoVerif.Proofs.C11Lalr
import AlgoVerif.Proofs.C11BuiltCompleteFill
/-!
# C11 — the lookahead table of `ComputeLALR1Kernels` is complete

What the two loops of `ComputeLALR1Kernels` leave behind when they return (no assumption on the fuel):

* `lalrStates_done`: for every kernel item `k` (index `ki`) of every LR(0) state `s` and every item `j` of
  `J = CLOSURE({[k, $]})` with a symbol `X` after the dot: `FindItemSet(GOTO(Iₛ, X))` succeeded (state `n`), and the
  lookahead `b` of `j` was entered for the item `j.next` of state `n` (`b ≠ $`: spontaneous) or the link
  `(s, ki) → (n, j.next)` was recorded (`b = $`);
* `propagate_spec`: the table `propagate` returns contains the one it started from and is closed under the links (the
  loop stops only when a whole pass added nothing);
* every entry of the table is a non-empty set (`NE`).
-/
namespace AlgoVerif.C11.Lalr
open AlgoVerif AlgoVerif.Gram AlgoVerif.C11 AlgoVerif.C11.Spec AlgoVerif.C11.Built AlgoVerif.C11.BuiltComplete

/-! ## a fold that only adds: what each step establishes still holds at the end -/

theorem foldlM_done {α β} (f : β → α → Outcome β) (le : β → β → Prop)
    (hrefl : ∀ b, le b b) (htrans : ∀ a b c, le a b → le b c → le a c)
    (D : α → β → Prop) (hmono : ∀ a b b', le b b' → D a b → D a b') :
    ∀ (l : List α) (init r : β), (∀ b a b', a ∈ l → f b a = Outcome.ok b' → le b b' ∧ D a b') →
      l.foldlM f init = Outcome.ok r → le init r ∧ ∀ a ∈ l, D a r
  | [], init, r, _, h => by
    have : init = r := by simpa [List.foldlM, pure] using h
    subst this
    exact ⟨hrefl _, by simp⟩
  | a :: l, init, r, hstep, h => by
    rw [List.foldlM_cons] at h
    obtain ⟨b', hb', hrest⟩ := bind_eq_ok h
    obtain ⟨h1, h2⟩ := hstep init a b' (by simp) hb'
    obtain ⟨h3, h4⟩ := foldlM_done f le hrefl htrans D hmono l b' r
      (fun b a' b'' ha' => hstep b a' b'' (List.mem_cons_of_mem _ ha')) hrest
    refine ⟨htrans _ _ _ h1 h3, ?_⟩
    intro x hx
    rcases List.mem_cons.mp hx with rfl | hx'
    · exact hmono _ _ _ h3 h2
    · exact h4 x hx'

/-! ## the order on lookahead tables -/

/-- `t'` knows every lookahead `t` knows -/
def LaLe (t t' : LaTable) : Prop :=
  ∀ k ls a, laGet t k = some ls → a ∈ ls → ∃ ls', laGet t' k = some ls' ∧ a ∈ ls'

theorem laLe_refl (t : LaTable) : LaLe t t := fun _ ls a h ha => ⟨ls, h, ha⟩

theorem laLe_trans {a b c : LaTable} (h1 : LaLe a b) (h2 : LaLe b c) : LaLe a c := by
  intro k ls x h hx
  obtain ⟨ls', h', hx'⟩ := h1 k ls x h hx
  exact h2 k ls' x h' hx'

theorem laLe_laAdd (t : LaTable) (k : Key) (ls : List String) : LaLe t (laAdd t k ls) :=
  fun _ _ _ h ha => laGet_laAdd_mono h ha

theorem laGet_laAdd_self (t : LaTable) (k : Key) (ls : List String) :
    ∀ a ∈ ls, ∃ ls1, laGet (laAdd t k ls) k = some ls1 ∧ a ∈ ls1 := by
  intro a ha
  unfold laAdd laGet
  split
  · rename_i hany
    obtain ⟨v, hv⟩ := lookup_of_any k t hany
    rw [lookup_upd k (fun e2 => unionNew e2 ls) k t]
    simp only [beq_self_eq_true, if_true, hv, Option.map_some]
    exact ⟨_, rfl, mem_unionNew.mpr (Or.inr ha)⟩
  · rename_i hany
    simp only [Bool.not_eq_true] at hany
    have hnone := lookup_of_not_any k t hany
    rw [lookup_snoc, hnone]
    simp only [beq_self_eq_true, if_true]
    exact ⟨_, rfl, mem_unionNew.mpr (Or.inr ha)⟩

/-- the accumulator of the first loop only grows -/
def AccLe (acc acc' : LaTable × Links) : Prop := LaLe acc.1 acc'.1 ∧ ∀ l ∈ acc.2, l ∈ acc'.2

theorem accLe_refl (acc : LaTable × Links) : AccLe acc acc := ⟨laLe_refl _, fun _ h => h⟩

theorem accLe_trans (a b c : LaTable × Links) (h1 : AccLe a b) (h2 : AccLe b c) : AccLe a c :=
  ⟨laLe_trans h1.1 h2.1, fun l hl => h2.2 l (h1.2 l hl)⟩

/-! ## one visit -/

/-- what the visit of the closure item `j` of kernel item `(s, ki)` must have left in the accumulator -/
def VisitDone (A0 : Auto) (S0 : StateMap) (Is : List Item) (s ki : Nat) (acc : LaTable × Links) (j : Item) : Prop :=
  ∀ X, j.dotSym = some X → ∃ (nextI : List Item) (n : Nat), A0.goto Is X = Outcome.ok nextI ∧
    findItemSet S0 nextI = (n : Int) ∧
    ∀ b, j.la = some b →
      (b = endmarker →
        ((((s : Int), (ki : Int)), ((n : Int), findItem (S0.getD n []) j.next.core)) : Key × Key) ∈ acc.2) ∧
      (b ≠ endmarker → ∃ ls, laGet acc.1 ((n : Int), findItem (S0.getD n []) j.next.core) = some ls ∧ b ∈ ls)

theorem visitDone_mono {A0 : Auto} {S0 : StateMap} {Is : List Item} {s ki : Nat} (j : Item)
    (acc acc' : LaTable × Links) (hle : AccLe acc acc') (h : VisitDone A0 S0 Is s ki acc j) :
    VisitDone A0 S0 Is s ki acc' j := by
  intro X hd
  obtain ⟨nextI, n, hg, hn, hb⟩ := h X hd
  refine ⟨nextI, n, hg, hn, ?_⟩
  intro b hla
  obtain ⟨h1, h2⟩ := hb b hla
  refine ⟨fun he => hle.2 _ (h1 he), fun hne => ?_⟩
  obtain ⟨ls, hls, hbl⟩ := h2 hne
  exact hle.1 _ ls b hls hbl

theorem lalrVisit_done {A0 : Auto} {S0 : StateMap} {Is : List Item} {s ki : Nat} {acc acc' : LaTable × Links}
    {j : Item} (hv : lalrVisit A0 S0 Is ((s : Int), (ki : Int)) acc j = Outcome.ok acc') :
    AccLe acc acc' ∧ VisitDone A0 S0 Is s ki acc' j := by
  unfold lalrVisit at hv
  split at hv
  · rename_i hd
    rw [← pure_eq_ok hv]
    refine ⟨accLe_refl _, ?_⟩
    intro X hX
    rw [hd] at hX; cases hX
  · rename_i X hd
    obtain ⟨nextI, hgo, hrest⟩ := bind_eq_ok hv
    simp only at hrest
    split at hrest
    · simp at hrest
    · rename_i hts
      rcases findItemSet_spec S0 nextI with hneg | ⟨n, K, hn, _, _⟩
      · rw [hneg] at hts; exact absurd (by decide) hts
      · rw [hn] at hrest
        simp only [Int.toNat_natCast] at hrest
        split at hrest
        · rename_i a hla
          split at hrest
          · rename_i hae
            rw [← pure_eq_ok hrest]
            refine ⟨⟨laLe_refl _, fun l hl => List.mem_append_left _ hl⟩, ?_⟩
            intro X' hX'
            rw [hd] at hX'
            simp only [Option.some.injEq] at hX'
            subst hX'
            refine ⟨nextI, n, hgo, hn, ?_⟩
            intro b hb
            rw [hla] at hb
            simp only [Option.some.injEq] at hb
            subst hb
            exact ⟨fun _ => List.mem_append_right _ (by simp), fun hne => absurd hae hne⟩
          · rename_i hae
            rw [← pure_eq_ok hrest]
            refine ⟨⟨laLe_laAdd _ _ _, fun l hl => hl⟩, ?_⟩
            intro X' hX'
            rw [hd] at hX'
            simp only [Option.some.injEq] at hX'
            subst hX'
            refine ⟨nextI, n, hgo, hn, ?_⟩
            intro b hb
            rw [hla] at hb
            simp only [Option.some.injEq] at hb
            subst hb
            exact ⟨fun he => absurd he hae, fun _ => laGet_laAdd_self _ _ _ a (by simp)⟩
        · rename_i hla
          rw [← pure_eq_ok hrest]
          refine ⟨accLe_refl _, ?_⟩
          intro X' hX'
          rw [hd] at hX'
          simp only [Option.some.injEq] at hX'
          subst hX'
          refine ⟨nextI, n, hgo, hn, ?_⟩
          intro b hb
          rw [hla] at hb; cases hb

/-! ## one state, all states -/

/-- what the processing of kernel item `k` (index `ki`) of state `s` must have left -/
def KItemDone (A0 A1 : Auto) (S0 : StateMap) (Is : List Item) (s : Nat) (kk : Item × Nat) (acc : LaTable × Links) : Prop :=
  ∃ J, A1.closure [withLa kk.1 endmarker] = Outcome.ok J ∧ ∀ j ∈ J, VisitDone A0 S0 Is s kk.2 acc j

theorem lalrState_done {A0 A1 : Auto} {S0 : StateMap} {Is : List Item} {s : Nat} {acc acc' : LaTable × Links}
    (hr : lalrState A0 A1 S0 acc (Is, s) = Outcome.ok acc') :
    AccLe acc acc' ∧ ∀ kk ∈ Is.zipIdx, KItemDone A0 A1 S0 Is s kk acc' := by
  unfold lalrState at hr
  refine foldlM_done _ AccLe accLe_refl accLe_trans (KItemDone A0 A1 S0 Is s) ?_ _ acc acc' ?_ hr
  · intro kk b b' hle ⟨J, hJ, hall⟩
    exact ⟨J, hJ, fun j hj => visitDone_mono j b b' hle (hall j hj)⟩
  · intro b kk b' _ hstep
    obtain ⟨J, hJ, hrest⟩ := bind_eq_ok hstep
    obtain ⟨h1, h2⟩ := foldlM_done _ AccLe accLe_refl accLe_trans (fun j acc => VisitDone A0 S0 Is s kk.2 acc j)
      visitDone_mono J b b'
      (fun c j c' _ hv => lalrVisit_done hv) hrest
    exact ⟨h1, J, hJ, h2⟩

theorem lalrStates_done {A0 A1 : Auto} {S0 : StateMap} {init lp : LaTable × Links}
    (hlp : (S0.zipIdx).foldlM (lalrState A0 A1 S0) init = Outcome.ok lp) :
    AccLe init lp ∧ ∀ Is ∈ S0.zipIdx, ∀ kk ∈ Is.1.zipIdx, KItemDone A0 A1 S0 Is.1 Is.2 kk lp := by
  refine foldlM_done _ AccLe accLe_refl accLe_trans
    (fun (Is : List Item × Nat) acc => ∀ kk ∈ Is.1.zipIdx, KItemDone A0 A1 S0 Is.1 Is.2 kk acc) ?_ _ init lp ?_ hlp
  · intro Is b b' hle h kk hkk
    obtain ⟨J, hJ, hall⟩ := h kk hkk
    exact ⟨J, hJ, fun j hj => visitDone_mono j b b' hle (hall j hj)⟩
  · intro b Is b' _ hstep
    exact lalrState_done hstep

/-! ## the propagation loop -/

/-- one step of a propagation pass -/
def pstep (t : LaTable) (x : Key × Key) : LaTable :=
  match laGet t x.1 with
  | some ls => if ls.isEmpty then t else laAdd t x.2 ls
  | none => t

/-- the quantity the loop watches -/
def laM (t : LaTable) : Nat := laSize t + t.length

theorem laSize_eq (t : LaTable) : laSize t = (t.map (fun e => e.2.length)).sum := by
  unfold laSize
  suffices aux : ∀ (l : LaTable) (a : Nat), l.foldl (fun a e => a + e.2.length) a = a + (l.map (fun e => e.2.length)).sum by
    simpa using aux t 0
  intro l
  induction l with
  | nil => intro a; simp
  | cons e l ih => intro a; simp only [List.foldl_cons, ih, List.map_cons, List.sum_cons]; omega

theorem map_upd_size (k : Key) (ls : List String) : ∀ (t : LaTable),
    let t' := t.map fun e => if e.1 == k then (e.1, unionNew e.2 ls) else e
    (t.map (fun e => e.2.length)).sum ≤ (t'.map (fun e => e.2.length)).sum ∧
      ((t'.map (fun e => e.2.length)).sum = (t.map (fun e => e.2.length)).sum → t' = t)
  | [] => by simp
  | e :: t => by
    obtain ⟨h1, h2⟩ := map_upd_size k ls t
    simp only [List.map_cons, List.sum_cons] at h1 h2 ⊢
    by_cases hk : (e.1 == k) = true
    · simp only [hk, if_true]
      have hext := ext_unionNew ls e.2
      have hlen := hext.length_le
      refine ⟨by omega, ?_⟩
      intro heq
      have hl : (unionNew e.2 ls).length = e.2.length := by omega
      have := hext.eq_of_length hl
      rw [this, h2 (by omega)]
    · have hk' : (e.1 == k) = false := by simpa using hk
      simp only [hk', Bool.false_eq_true, if_false]
      refine ⟨by omega, ?_⟩
      intro heq
      rw [h2 (by omega)]

theorem laAdd_measure (t : LaTable) (k : Key) (ls : List String) :
    laM t ≤ laM (laAdd t k ls) ∧ (laM (laAdd t k ls) = laM t → laAdd t k ls = t) := by
  unfold laM laAdd
  split
  · have := map_upd_size k ls t
    simp only at this
    rw [laSize_eq, laSize_eq, List.length_map]
    refine ⟨by omega, ?_⟩
    intro heq
    exact this.2 (by omega)
  · rw [laSize_eq, laSize_eq]
    simp only [List.map_append, List.sum_append, List.length_append, List.length_cons, List.length_nil]
    refine ⟨by omega, ?_⟩
    intro heq
    omega

theorem pstep_measure (t : LaTable) (x : Key × Key) :
    laM t ≤ laM (pstep t x) ∧ (laM (pstep t x) = laM t → pstep t x = t) := by
  unfold pstep
  split
  · split
    · exact ⟨Nat.le_refl _, fun _ => rfl⟩
    · exact laAdd_measure _ _ _
  · exact ⟨Nat.le_refl _, fun _ => rfl⟩

theorem pstep_le (t : LaTable) (x : Key × Key) : LaLe t (pstep t x) := by
  unfold pstep
  split
  · split
    · exact laLe_refl _
    · exact laLe_laAdd _ _ _
  · exact laLe_refl _

theorem pass_measure : ∀ (props : Links) (t : LaTable),
    laM t ≤ laM (props.foldl pstep t) ∧ LaLe t (props.foldl pstep t) ∧
      (laM (props.foldl pstep t) = laM t → props.foldl pstep t = t ∧ ∀ x ∈ props, pstep t x = t)
  | [], t => ⟨Nat.le_refl _, laLe_refl _, fun _ => ⟨rfl, by simp⟩⟩
  | x :: props, t => by
    simp only [List.foldl_cons]
    obtain ⟨h1, h2⟩ := pstep_measure t x
    obtain ⟨h3, h4, h5⟩ := pass_measure props (pstep t x)
    refine ⟨by omega, laLe_trans (pstep_le t x) h4, ?_⟩
    intro heq
    have hx : pstep t x = t := h2 (by omega)
    rw [hx] at h5 heq ⊢
    obtain ⟨h6, h7⟩ := h5 heq
    refine ⟨h6, ?_⟩
    intro y hy
    rcases List.mem_cons.mp hy with rfl | hy'
    · exact hx
    · exact h7 y hy'

/-- the lookaheads of the source of a link are lookaheads of its target -/
def LinkSat (t : LaTable) (x : Key × Key) : Prop :=
  ∀ ls a, laGet t x.1 = some ls → a ∈ ls → ∃ ls', laGet t x.2 = some ls' ∧ a ∈ ls'

theorem linkSat_of_fix {t : LaTable} {x : Key × Key} (h : pstep t x = t) : LinkSat t x := by
  intro ls a hls ha
  unfold pstep at h
  rw [hls] at h
  simp only at h
  have hne : ls.isEmpty = false := by
    cases ls with
    | nil => simp at ha
    | cons _ _ => rfl
  rw [hne] at h
  simp only [Bool.false_eq_true, if_false] at h
  have := laGet_laAdd_self t x.2 ls a ha
  rw [h] at this
  exact this

theorem propagate_spec (props : Links) : ∀ (fuel : Nat) (t las : LaTable),
    propagate props fuel t = Outcome.ok las → LaLe t las ∧ ∀ x ∈ props, LinkSat las x
  | 0, _, _, hp => by simp [propagate] at hp
  | fuel + 1, t, las, hp => by
    unfold propagate at hp
    simp only at hp
    have hpass := pass_measure props t
    split at hp
    · rename_i hfix
      simp only [Outcome.ok.injEq] at hp
      subst hp
      have hM : laM (props.foldl pstep t) = laM t := by
        unfold laM
        have h1 : laSize (props.foldl pstep t) = laSize t := hfix.1
        have h2 : (props.foldl pstep t).length = t.length := hfix.2
        omega
      obtain ⟨_, hall⟩ := hpass.2.2 hM
      exact ⟨laLe_refl _, fun x hx => linkSat_of_fix (hall x hx)⟩
    · obtain ⟨h1, h2⟩ := propagate_spec props fuel _ las hp
      exact ⟨laLe_trans hpass.2.1 h1, h2⟩

/-! ## every entry is a non-empty set -/

def NE (t : LaTable) : Prop := ∀ e ∈ t, e.2 ≠ []

theorem ne_laAdd {t : LaTable} {k : Key} {ls : List String} (ht : NE t) (hls : ls ≠ []) : NE (laAdd t k ls) := by
  obtain ⟨a, ha⟩ := List.exists_mem_of_ne_nil _ hls
  intro e he
  unfold laAdd at he
  split at he
  · simp only [List.mem_map] at he
    obtain ⟨e0, he0, rfl⟩ := he
    by_cases hk : (e0.1 == k) = true
    · simp only [hk, if_true]
      intro hnil
      have : a ∈ unionNew e0.2 ls := mem_unionNew.mpr (Or.inr ha)
      rw [hnil] at this
      simp at this
    · simp only [hk]
      exact ht e0 he0
  · rcases List.mem_append.mp he with h1 | h1
    · exact ht e h1
    · simp only [List.mem_singleton] at h1
      subst h1
      intro hnil
      have : a ∈ unionNew [] ls := mem_unionNew.mpr (Or.inr ha)
      simp only at hnil
      rw [hnil] at this
      simp at this

theorem ne_lalrVisit {A0 : Auto} {S0 : StateMap} {I : List Item} {src : Key} {acc acc' : LaTable × Links} {j : Item}
    (h : NE acc.1) (hv : lalrVisit A0 S0 I src acc j = Outcome.ok acc') : NE acc'.1 := by
  unfold lalrVisit at hv
  split at hv
  · rw [← pure_eq_ok hv]; exact h
  · obtain ⟨nextI, _, hrest⟩ := bind_eq_ok hv
    simp only at hrest
    split at hrest
    · simp at hrest
    · split at hrest
      · split at hrest
        · rw [← pure_eq_ok hrest]; exact h
        · rw [← pure_eq_ok hrest]; exact ne_laAdd h (by simp)
      · rw [← pure_eq_ok hrest]; exact h

theorem ne_lalrState {A0 A1 : Auto} {S0 : StateMap} {acc acc' : LaTable × Links} {Is : List Item × Nat}
    (h : NE acc.1) (hr : lalrState A0 A1 S0 acc Is = Outcome.ok acc') : NE acc'.1 := by
  unfold lalrState at hr
  refine foldlM_inv _ (fun acc => NE acc.1) _ acc acc' ?_ h hr
  intro b ii b' _ hb hstep
  obtain ⟨J, _, hrest⟩ := bind_eq_ok hstep
  refine foldlM_inv _ (fun acc => NE acc.1) J b b' ?_ hb hrest
  intro c j c' _ hc hv
  exact ne_lalrVisit hc hv

theorem ne_pstep {t : LaTable} (h : NE t) (x : Key × Key) : NE (pstep t x) := by
  unfold pstep
  split
  · rename_i ls _
    split
    · exact h
    · rename_i hne
      apply ne_laAdd h
      intro he; rw [he] at hne; simp at hne
  · exact h

theorem ne_pass : ∀ (props : Links) (t : LaTable), NE t → NE (props.foldl pstep t)
  | [], _, h => h
  | x :: props, t, h => by
    simp only [List.foldl_cons]
    exact ne_pass props _ (ne_pstep h x)

theorem ne_propagate (props : Links) : ∀ (fuel : Nat) (t las : LaTable), NE t →
    propagate props fuel t = Outcome.ok las → NE las
  | 0, _, _, _, hp => by simp [propagate] at hp
  | fuel + 1, t, las, h, hp => by
    unfold propagate at hp
    simp only at hp
    split at hp
    · simp only [Outcome.ok.injEq] at hp
      subst hp
      exact h
    · exact ne_propagate props fuel _ las (ne_pass props t h) hp

end AlgoVerif.C11.Lalr
