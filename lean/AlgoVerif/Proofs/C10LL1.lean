import AlgoVerif.Proofs.C10Follow
/-! `IsLL1` versus the predictive parsing table: both read as statements about set membership. -/
set_option linter.unusedSectionVars false
namespace AlgoVerif.C10
open AlgoVerif AlgoVerif.Gram
variable {T N : Type} [DecidableEq T] [DecidableEq N]

/-! ### list facts -/

theorem length_gt_one_iff {α : Type} {l : List α} (hnd : l.Nodup) :
    l.length > 1 ↔ ∃ x y, x ∈ l ∧ y ∈ l ∧ x ≠ y := by
  constructor
  · intro h
    match l, hnd, h with
    | x :: y :: rest, hnd, _ =>
      refine ⟨x, y, by simp, by simp, ?_⟩
      have := (List.nodup_cons.1 hnd).1
      intro e; subst e; simp at this
  · rintro ⟨x, y, hx, hy, hne⟩
    match l, hx, hy with
    | [z], hx, hy =>
      simp at hx hy; subst hx; subst hy; exact absurd rfl hne
    | _ :: _ :: _, _, _ => simp

theorem mem_pairs {α : Type} {l : List α} {x y : α} (h : (x, y) ∈ pairs l) : x ∈ l ∧ y ∈ l := by
  induction l with
  | nil => simp [pairs] at h
  | cons z zs ih =>
    simp only [pairs, List.mem_append, List.mem_map] at h
    rcases h with ⟨w, hw, e⟩ | h
    · cases e; exact ⟨by simp, by simp [hw]⟩
    · obtain ⟨h1, h2⟩ := ih h
      exact ⟨by simp [h1], by simp [h2]⟩

theorem ne_of_mem_pairs {α : Type} {l : List α} (hnd : l.Nodup) {x y : α} (h : (x, y) ∈ pairs l) : x ≠ y := by
  induction l with
  | nil => simp [pairs] at h
  | cons z zs ih =>
    obtain ⟨hz, hzs⟩ := List.nodup_cons.1 hnd
    simp only [pairs, List.mem_append, List.mem_map] at h
    rcases h with ⟨w, hw, e⟩ | h
    · cases e; intro e; subst e; exact hz hw
    · exact ih hzs h

theorem mem_pairs_of_ne {α : Type} {l : List α} {x y : α} (hx : x ∈ l) (hy : y ∈ l) (hne : x ≠ y) :
    (x, y) ∈ pairs l ∨ (y, x) ∈ pairs l := by
  induction l with
  | nil => cases hx
  | cons z zs ih =>
    simp only [pairs, List.mem_append, List.mem_map]
    rcases List.mem_cons.1 hx with hxz | hxs
    · rcases List.mem_cons.1 hy with hyz | hys
      · exact absurd (hxz.trans hyz.symm) hne
      · exact Or.inl (Or.inl ⟨y, hys, by rw [hxz]⟩)
    · rcases List.mem_cons.1 hy with hyz | hys
      · exact Or.inr (Or.inl ⟨x, hxs, by rw [hyz]⟩)
      · rcases ih hxs hys with h | h
        · exact Or.inl (Or.inr h)
        · exact Or.inr (Or.inr h)

theorem inter_nonempty_iff {a b : List T} : (inter a b).isEmpty = false ↔ ∃ x, x ∈ a ∧ x ∈ b := by
  unfold inter
  constructor
  · intro h
    cases hf : a.filter (fun x => decide (x ∈ b)) with
    | nil => rw [hf] at h; simp at h
    | cons x rest =>
      have : x ∈ a.filter (fun x => decide (x ∈ b)) := by rw [hf]; simp
      obtain ⟨h1, h2⟩ := List.mem_filter.1 this
      exact ⟨x, h1, by simpa using h2⟩
  · rintro ⟨x, h1, h2⟩
    have : x ∈ a.filter (fun x => decide (x ∈ b)) := List.mem_filter.2 ⟨h1, by simpa using h2⟩
    cases hf : a.filter (fun x => decide (x ∈ b)) with
    | nil => rw [hf] at this; cases this
    | cons _ _ => rfl

/-! ### the table -/

def InCellP (fi : List (Sym T N) → TE T) (fo : N → TEnd T) (p : GProd T N) : Option T → Prop
  | some a => a ∈ (fi p.body).terms ∨ ((fi p.body).eps = true ∧ a ∈ (fo p.head).terms)
  | none => (fi p.body).eps = true ∧ (fo p.head).endm = true

theorem inCell_iff {fi : List (Sym T N) → TE T} {fo : N → TEnd T} {p : GProd T N} {col : Option T} :
    inCell fi fo p col = true ↔ InCellP fi fo p col := by
  cases col with
  | none => simp [inCell, InCellP]
  | some a => simp [inCell, InCellP]

theorem mem_cell {g : Grammar T N} {fi : List (Sym T N) → TE T} {fo : N → TEnd T} {A : N}
    {col : Option T} {p : GProd T N} :
    p ∈ cell g fi fo A col ↔ p ∈ g.prods ∧ p.head = A ∧ InCellP fi fo p col := by
  unfold cell
  rw [List.mem_filter]
  simp only [Bool.and_eq_true, decide_eq_true_eq, inCell_iff]

/-- some cell holds two different productions -/
def Conflict (g : Grammar T N) (fi : List (Sym T N) → TE T) (fo : N → TEnd T) : Prop :=
  ∃ p q col, p ∈ g.prods ∧ q ∈ g.prods ∧ p ≠ q ∧ p.head = q.head ∧ p.head ∈ g.nonterms ∧
    col ∈ columns g ∧ InCellP fi fo p col ∧ InCellP fi fo q col

theorem conflicts_ne_nil_iff {g : Grammar T N} (hnd : g.prods.Nodup) {fi : List (Sym T N) → TE T}
    {fo : N → TEnd T} : conflicts g fi fo ≠ [] ↔ Conflict g fi fo := by
  have hcellnd : ∀ A col, (cell g fi fo A col).Nodup := fun A col => hnd.filter _
  constructor
  · intro h
    obtain ⟨⟨A, col⟩, hm⟩ := List.exists_mem_of_ne_nil _ h
    unfold conflicts at hm
    obtain ⟨A', hA', hm⟩ := List.mem_flatMap.1 hm
    obtain ⟨col', hcol', hm⟩ := List.mem_filterMap.1 hm
    split at hm
    · rename_i hlen
      cases hm
      obtain ⟨p, q, hp, hq, hne⟩ := (length_gt_one_iff (hcellnd _ _)).1 hlen
      obtain ⟨p1, p2, p3⟩ := mem_cell.1 hp
      obtain ⟨q1, q2, q3⟩ := mem_cell.1 hq
      exact ⟨p, q, col, p1, q1, hne, p2.trans q2.symm, p2 ▸ hA', hcol', p3, q3⟩
    · cases hm
  · rintro ⟨p, q, col, hp, hq, hne, hh, hA, hcol, cp, cq⟩
    apply List.ne_nil_of_mem (a := (p.head, col))
    unfold conflicts
    apply List.mem_flatMap.2
    refine ⟨p.head, hA, ?_⟩
    apply List.mem_filterMap.2
    refine ⟨col, hcol, ?_⟩
    have hlen : (cell g fi fo p.head col).length > 1 := by
      apply (length_gt_one_iff (hcellnd _ _)).2
      exact ⟨p, q, mem_cell.2 ⟨hp, rfl, cp⟩, mem_cell.2 ⟨hq, hh.symm, cq⟩, hne⟩
    simp [hlen]

/-! ### `IsLL1` -/

/-- the three conditions `IsLL1` tests for a pair of alternatives of `A` -/
def PairBad (fi : List (Sym T N) → TE T) (fo : N → TEnd T) (A : N) (α β : List (Sym T N)) : Prop :=
  ((∃ a, a ∈ (fi α).terms ∧ a ∈ (fi β).terms) ∨ ((fi α).eps = true ∧ (fi β).eps = true)) ∨
  ((fi α).eps = true ∧ ∃ a, a ∈ (fi β).terms ∧ a ∈ (fo A).terms) ∨
  ((fi β).eps = true ∧ ∃ a, a ∈ (fi α).terms ∧ a ∈ (fo A).terms)

theorem PairBad.symm {fi : List (Sym T N) → TE T} {fo : N → TEnd T} {A : N} {α β : List (Sym T N)}
    (h : PairBad fi fo A α β) : PairBad fi fo A β α := by
  rcases h with (⟨a, h1, h2⟩ | ⟨h1, h2⟩) | h | h
  · exact Or.inl (Or.inl ⟨a, h2, h1⟩)
  · exact Or.inl (Or.inr ⟨h2, h1⟩)
  · exact Or.inr (Or.inr h)
  · exact Or.inr (Or.inl h)

theorem ll1Pair_ne_nil_iff {fi : List (Sym T N) → TE T} {fo : N → TEnd T} {A : N} {α β : List (Sym T N)} :
    ll1Pair fi fo A α β ≠ [] ↔ PairBad fi fo A α β := by
  unfold ll1Pair PairBad
  have e1 : ∀ x y : List T, (!(inter x y).isEmpty) = true ↔ ∃ a, a ∈ x ∧ a ∈ y := by
    intro x y
    rw [← inter_nonempty_iff]
    cases (inter x y).isEmpty <;> simp
  constructor
  · intro h
    by_cases c1 : (!(inter (fi α).terms (fi β).terms).isEmpty || ((fi α).eps && (fi β).eps)) = true
    · left
      simp only [Bool.or_eq_true, Bool.and_eq_true] at c1
      rcases c1 with c1 | c1
      · exact Or.inl ((e1 _ _).1 c1)
      · exact Or.inr c1
    · by_cases c2 : ((fi α).eps && !(inter (fi β).terms (fo A).terms).isEmpty) = true
      · right; left
        simp only [Bool.and_eq_true] at c2
        exact ⟨c2.1, (e1 _ _).1 c2.2⟩
      · by_cases c3 : ((fi β).eps && !(inter (fi α).terms (fo A).terms).isEmpty) = true
        · right; right
          simp only [Bool.and_eq_true] at c3
          exact ⟨c3.1, (e1 _ _).1 c3.2⟩
        · simp [c1, c2, c3] at h
  · intro h
    rcases h with (h | h) | h | h
    · have : (!(inter (fi α).terms (fi β).terms).isEmpty || ((fi α).eps && (fi β).eps)) = true := by
        simp only [Bool.or_eq_true]; exact Or.inl ((e1 _ _).2 h)
      simp [this]
    · have : (!(inter (fi α).terms (fi β).terms).isEmpty || ((fi α).eps && (fi β).eps)) = true := by
        simp only [Bool.or_eq_true, Bool.and_eq_true]; exact Or.inr h
      simp [this]
    · have : ((fi α).eps && !(inter (fi β).terms (fo A).terms).isEmpty) = true := by
        simp only [Bool.and_eq_true]; exact ⟨h.1, (e1 _ _).2 h.2⟩
      simp [this]
    · have : ((fi β).eps && !(inter (fi α).terms (fo A).terms).isEmpty) = true := by
        simp only [Bool.and_eq_true]; exact ⟨h.1, (e1 _ _).2 h.2⟩
      simp [this]

/-- two different alternatives of one non-terminal fail an LL(1) condition -/
def LL1Bad (g : Grammar T N) (fi : List (Sym T N) → TE T) (fo : N → TEnd T) : Prop :=
  ∃ p q, p ∈ g.prods ∧ q ∈ g.prods ∧ p ≠ q ∧ p.head = q.head ∧ PairBad fi fo p.head p.body q.body

theorem ll1Errors_ne_nil_iff {g : Grammar T N} (hnd : g.prods.Nodup) {fi : List (Sym T N) → TE T}
    {fo : N → TEnd T} : ll1Errors g fi fo ≠ [] ↔ LL1Bad g fi fo := by
  constructor
  · intro h
    obtain ⟨e, hm⟩ := List.exists_mem_of_ne_nil _ h
    unfold ll1Errors at hm
    obtain ⟨A, _, hm⟩ := List.mem_flatMap.1 hm
    obtain ⟨⟨p, q⟩, hpq, hm⟩ := List.mem_flatMap.1 hm
    have hbad : PairBad fi fo A p.body q.body := ll1Pair_ne_nil_iff.1 (List.ne_nil_of_mem hm)
    obtain ⟨hp, hq⟩ := mem_pairs hpq
    have hne := ne_of_mem_pairs (hnd.filter _) hpq
    obtain ⟨p1, p2⟩ := List.mem_filter.1 hp
    obtain ⟨q1, q2⟩ := List.mem_filter.1 hq
    simp at p2 q2
    exact ⟨p, q, p1, q1, hne, p2.trans q2.symm, p2 ▸ hbad⟩
  · rintro ⟨p, q, hp, hq, hne, hh, hbad⟩
    have hp' : p ∈ g.prods.filter (fun r => decide (r.head = p.head)) := List.mem_filter.2 ⟨hp, by simp⟩
    have hq' : q ∈ g.prods.filter (fun r => decide (r.head = p.head)) := List.mem_filter.2 ⟨hq, by simp [hh]⟩
    have hA : p.head ∈ headsOf g := mem_dedup.2 (List.mem_map.2 ⟨p, hp, rfl⟩)
    rcases mem_pairs_of_ne hp' hq' hne with hpair | hpair
    · obtain ⟨e, he⟩ := List.exists_mem_of_ne_nil _ (ll1Pair_ne_nil_iff.2 hbad)
      apply List.ne_nil_of_mem (a := e)
      unfold ll1Errors
      exact List.mem_flatMap.2 ⟨p.head, hA, List.mem_flatMap.2 ⟨(p, q), hpair, he⟩⟩
    · obtain ⟨e, he⟩ := List.exists_mem_of_ne_nil _ (ll1Pair_ne_nil_iff.2 hbad.symm)
      apply List.ne_nil_of_mem (a := e)
      unfold ll1Errors
      exact List.mem_flatMap.2 ⟨p.head, hA, List.mem_flatMap.2 ⟨(q, p), hpair, he⟩⟩

/-! ### the two analyses agree as sets -/

structure SameSets (fi fi' : List (Sym T N) → TE T) (fo fo' : N → TEnd T) : Prop where
  ft : ∀ α a, a ∈ (fi α).terms ↔ a ∈ (fi' α).terms
  fe : ∀ α, (fi α).eps = true ↔ (fi' α).eps = true
  ot : ∀ A a, a ∈ (fo A).terms ↔ a ∈ (fo' A).terms
  oe : ∀ A, (fo A).endm = true ↔ (fo' A).endm = true

theorem SameSets.inCellP {fi fi' : List (Sym T N) → TE T} {fo fo' : N → TEnd T}
    (h : SameSets fi fi' fo fo') {p : GProd T N} {col : Option T} :
    InCellP fi fo p col ↔ InCellP fi' fo' p col := by
  cases col with
  | none => simp only [InCellP, h.fe, h.oe]
  | some a => simp only [InCellP, h.ft, h.fe, h.ot]

theorem SameSets.conflict {g : Grammar T N} {fi fi' : List (Sym T N) → TE T} {fo fo' : N → TEnd T}
    (h : SameSets fi fi' fo fo') : Conflict g fi fo ↔ Conflict g fi' fo' := by
  unfold Conflict
  simp only [h.inCellP]

theorem SameSets.pairBad {fi fi' : List (Sym T N) → TE T} {fo fo' : N → TEnd T}
    (h : SameSets fi fi' fo fo') {A : N} {α β : List (Sym T N)} :
    PairBad fi fo A α β ↔ PairBad fi' fo' A α β := by
  simp only [PairBad, h.ft, h.fe, h.ot]

theorem SameSets.ll1Bad {g : Grammar T N} {fi fi' : List (Sym T N) → TE T} {fo fo' : N → TEnd T}
    (h : SameSets fi fi' fo fo') : LL1Bad g fi fo ↔ LL1Bad g fi' fo' := by
  unfold LL1Bad
  simp only [h.pairBad]

/-- a conflict always fails an LL(1) condition -/
theorem conflict_ll1Bad {g : Grammar T N} {fi : List (Sym T N) → TE T} {fo : N → TEnd T}
    (h : Conflict g fi fo) : LL1Bad g fi fo := by
  obtain ⟨p, q, col, hp, hq, hne, hh, _, _, cp, cq⟩ := h
  refine ⟨p, q, hp, hq, hne, hh, ?_⟩
  cases col with
  | none =>
    exact Or.inl (Or.inr ⟨cp.1, cq.1⟩)
  | some a =>
    rcases cp with cp | ⟨cp1, cp2⟩
    · rcases cq with cq | ⟨cq1, cq2⟩
      · exact Or.inl (Or.inl ⟨a, cp, cq⟩)
      · exact Or.inr (Or.inr ⟨cq1, a, cp, hh ▸ cq2⟩)
    · rcases cq with cq | ⟨cq1, cq2⟩
      · exact Or.inr (Or.inl ⟨cp1, a, cq, cp2⟩)
      · exact Or.inl (Or.inr ⟨cp1, cq1⟩)

/-! ### declared symbols, productive strings -/

theorem valid_prod {g : Grammar T N} (hv : validB g = true) {p : GProd T N} (hp : p ∈ g.prods) :
    p.head ∈ g.nonterms ∧ ∀ s, s ∈ p.body → symDeclared g s = true := by
  unfold validB at hv
  simp only [Bool.and_eq_true] at hv
  have := (List.all_eq_true.1 hv.2) p hp
  simp only [Bool.and_eq_true, decide_eq_true_eq] at this
  exact ⟨this.1, fun s hs => (List.all_eq_true.1 this.2) s hs⟩

theorem valid_start {g : Grammar T N} (hv : validB g = true) : g.start ∈ g.nonterms := by
  unfold validB at hv
  simp only [Bool.and_eq_true, decide_eq_true_eq] at hv
  exact hv.1.1.1

theorem derives_declared {g : Grammar T N} (hv : validB g = true) {α β : List (Sym T N)}
    (h : Derives g α β) (hα : ∀ s, s ∈ α → symDeclared g s = true) : ∀ s, s ∈ β → symDeclared g s = true := by
  induction h with
  | refl => exact hα
  | tail _ st ih =>
    obtain ⟨u, v, p, hp, hx, hy⟩ := step_iff.1 st
    subst hx; subst hy
    intro s hs
    simp only [List.mem_append] at hs
    rcases hs with (hs | hs) | hs
    · exact ih s (by simp [hs])
    · exact (valid_prod hv hp).2 s hs
    · exact ih s (by simp [hs])

theorem productive_string {g : Grammar T N} (hprod : Spec.AllProductive g) :
    ∀ (y : List (Sym T N)), (∀ s, s ∈ y → symDeclared g s = true) →
      ∃ w : List T, Derives g y (w.map Sym.term) := by
  intro y
  induction y with
  | nil => intro _; exact ⟨[], Derives.refl _⟩
  | cons s rest ih =>
    intro hd
    obtain ⟨w₂, h₂⟩ := ih fun s hs => hd s (List.mem_cons_of_mem _ hs)
    cases s with
    | term t =>
      refine ⟨t :: w₂, ?_⟩
      have := h₂.append_left [Sym.term t]
      simpa using this
    | nonterm A =>
      have hA : A ∈ g.nonterms := by
        have := hd (Sym.nonterm A) (List.mem_cons_self ..)
        simpa [symDeclared] using this
      obtain ⟨w₁, h₁⟩ := hprod A hA
      refine ⟨w₁ ++ w₂, ?_⟩
      have := Derives.append h₁ h₂
      simpa using this

/-- in a reduced grammar something (a terminal or the end) follows every declared non-terminal -/
theorem follow_nonempty {g : Grammar T N} (hv : validB g = true) (hreach : Spec.AllReachable g)
    (hprod : Spec.AllProductive g) {A : N} (hA : A ∈ g.nonterms) :
    Spec.FollowEnd g A ∨ ∃ a, a ∈ g.terms ∧ Spec.Follow g A a := by
  obtain ⟨x, y, hxy⟩ := hreach A hA
  have hdecl := derives_declared hv hxy (by
    intro s hs; simp at hs; subst hs; simpa [symDeclared] using valid_start hv)
  obtain ⟨w, hw⟩ := productive_string hprod y (fun s hs => hdecl s (by simp [hs]))
  have h2 : Derives g [Sym.nonterm g.start] (x ++ [Sym.nonterm A] ++ w.map Sym.term) :=
    hxy.trans (hw.append_left _)
  cases w with
  | nil => left; exact ⟨x, by simpa using h2⟩
  | cons a w' =>
    right
    have hdecl2 := derives_declared hv h2 (by
      intro s hs; simp at hs; subst hs; simpa [symDeclared] using valid_start hv)
    refine ⟨a, ?_, x, w'.map Sym.term, by simpa [List.append_assoc] using h2⟩
    have := hdecl2 (Sym.term a) (by simp)
    simpa [symDeclared] using this

end AlgoVerif.C10
