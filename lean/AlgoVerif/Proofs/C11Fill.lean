import AlgoVerif.Proofs.C11Built
/-!
# C11 — provenance of the entries of a table filled by `fillFull` (SLR and canonical LR(1))

Every action in `ACTION[i,a]` was put there by an item of state `i` (a shift: an item with `a` after the dot, to
`FindItemSet(GOTO(Iᵢ,a))`; a reduce: a complete item that is not `S′ → S•`; accept: on `$`, by the item `S′ → S•`), and
every `GOTO[i,A] = j` is `FindItemSet(GOTO(Iᵢ,A))`.
-/
namespace AlgoVerif.C11.Built
open AlgoVerif AlgoVerif.Gram AlgoVerif.C11 AlgoVerif.C11.Spec

def ActOK (A : Auto) (S : StateMap) (s : Int) (a : String) (act : Action) : Prop :=
  ∃ (i : Nat) (I : List Item), s = (i : Int) ∧ S[i]? = some I ∧
    match act with
    | .shift j => ∃ item ∈ I, item.dotSym = some (Sym.term a) ∧
        ∃ J, A.goto I (Sym.term a) = Outcome.ok J ∧ j = findItemSet S J
    | .reduce p => ∃ item ∈ I, item.prod = p ∧ item.isComplete = true ∧ item.isFinal A.g.start = false
    | .accept => a = endmarker ∧ ∃ item ∈ I, item.isFinal A.g.start = true

def GotoOK (A : Auto) (S : StateMap) (s : Int) (X : String) (t : Int) : Prop :=
  ∃ (i : Nat) (I : List Item), s = (i : Int) ∧ S[i]? = some I ∧
    ∃ J, A.goto I (Sym.nonterm X) = Outcome.ok J ∧ t = findItemSet S J

def TableProv (A : Auto) (S : StateMap) (T : Table) : Prop :=
  (∀ e ∈ T.actions, ∀ act ∈ e.2, ActOK A S e.1.1 e.1.2 act) ∧
  (∀ e ∈ T.gotos, GotoOK A S e.1.1 e.1.2 e.2)

theorem addAction_prov {A : Auto} {S : StateMap} {T : Table} {s : Int} {a : String} {act : Action}
    (hT : TableProv A S T) (hact : ActOK A S s a act) : TableProv A S (T.addAction s a act) := by
  unfold Table.addAction
  split
  · refine ⟨?_, hT.2⟩
    intro e he x hx
    simp only [List.mem_map] at he
    obtain ⟨e0, he0, rfl⟩ := he
    by_cases hk : (e0.1 == (s, a)) = true
    · simp only [hk, if_true] at hx ⊢
      have hkey : e0.1 = (s, a) := by simpa using hk
      rcases mem_addNew.mp hx with h1 | h1
      · exact hT.1 e0 he0 x h1
      · rw [h1, hkey]; exact hact
    · simp only [hk] at hx ⊢
      exact hT.1 e0 he0 x hx
  · refine ⟨?_, hT.2⟩
    intro e he x hx
    rcases List.mem_append.mp he with h1 | h1
    · exact hT.1 e h1 x hx
    · simp at h1
      subst h1
      simp at hx
      subst hx
      exact hact

theorem setGoto_prov {A : Auto} {S : StateMap} {T : Table} {s : Int} {X : String} {t : Int}
    (hT : TableProv A S T) (hg : GotoOK A S s X t) : TableProv A S (T.setGoto s X t) := by
  unfold Table.setGoto
  split
  · exact hT
  · split
    · refine ⟨hT.1, ?_⟩
      intro e he
      simp only [List.mem_map] at he
      obtain ⟨e0, he0, rfl⟩ := he
      by_cases hk : (e0.1 == (s, X)) = true
      · simp only [hk, if_true]
        have hkey : e0.1 = (s, X) := by simpa using hk
        rw [hkey]; exact hg
      · simp only [hk]
        exact hT.2 e0 he0
    · refine ⟨hT.1, ?_⟩
      intro e he
      rcases List.mem_append.mp he with h1 | h1
      · exact hT.2 e h1
      · simp at h1; subst h1; exact hg

theorem foldl_addAction_prov {A : Auto} {S : StateMap} {s : Int} {p : Pr}
    (hact : ∀ a, ActOK A S s a (Action.reduce p)) :
    ∀ (l : List String) (T : Table), TableProv A S T →
      TableProv A S (l.foldl (fun T a => T.addAction s a (Action.reduce p)) T)
  | [], T, hT => by simpa using hT
  | a :: l, T, hT => by
    simp only [List.foldl_cons]
    exact foldl_addAction_prov hact l _ (addAction_prov hT (hact a))

theorem itemReduce_prov {A : Auto} {S : StateMap} {T : Table} {i : Nat} {I : List Item} {item : Item}
    (reduceOn : Item → List String) (hT : TableProv A S T) (hI : S[i]? = some I) (hitem : item ∈ I) :
    TableProv A S (itemReduce A.g.start (i : Int) item reduceOn T) := by
  unfold itemReduce
  have h1 : TableProv A S (if (item.isComplete && !item.isFinal A.g.start) = true then
      (reduceOn item).foldl (fun T a => T.addAction (i : Int) a (Action.reduce item.prod)) T else T) := by
    split
    · rename_i hc
      simp only [Bool.and_eq_true, Bool.not_eq_true'] at hc
      exact foldl_addAction_prov (fun a => ⟨i, I, rfl, hI, item, hitem, rfl, hc.1, hc.2⟩) _ T hT
    · exact hT
  simp only
  split
  · rename_i hf
    exact addAction_prov h1 ⟨i, I, rfl, hI, rfl, item, hitem, hf⟩
  · exact h1

theorem itemActions_prov {A : Auto} {S : StateMap} {T T' : Table} {i : Nat} {I : List Item} {item : Item}
    (reduceOn : Item → List String) (hT : TableProv A S T) (hI : S[i]? = some I) (hitem : item ∈ I)
    (hr : itemActions A.g.start (i : Int) item
      (fun a => A.goto I (Sym.term a) >>= fun J => pure (findItemSet S J)) reduceOn T = Outcome.ok T') :
    TableProv A S T' := by
  unfold itemActions at hr
  obtain ⟨T1, hT1, hrest⟩ := bind_eq_ok hr
  rw [← pure_eq_ok hrest]
  apply itemReduce_prov reduceOn _ hI hitem
  unfold itemShift at hT1
  split at hT1
  · rename_i a hd
    obtain ⟨j, hj, hrest1⟩ := bind_eq_ok hT1
    obtain ⟨J, hJ, hrest2⟩ := bind_eq_ok hj
    rw [← pure_eq_ok hrest1]
    have hjeq : findItemSet S J = j := pure_eq_ok hrest2
    exact addAction_prov hT ⟨i, I, rfl, hI, item, hitem, hd, J, hJ, hjeq.symm⟩
  · rw [← pure_eq_ok hT1]; exact hT

theorem rows_prov (A : Auto) (S : StateMap) (reduceOn : Item → List String) :
    ∀ (l : List (List Item)) (i : Nat) (T T' : Table),
      (∀ k I, l[k]? = some I → S[i + k]? = some I) → TableProv A S T →
      fillFull.rows A S reduceOn l i T = Outcome.ok T' → TableProv A S T'
  | [], _, T, T', _, hT, hr => by
    unfold fillFull.rows at hr
    rw [← pure_eq_ok hr]; exact hT
  | I :: rest, i, T, T', hl, hT, hr => by
    unfold fillFull.rows at hr
    have hI : S[i]? = some I := by simpa using hl 0 I (by simp)
    obtain ⟨T1, hT1, hr1⟩ := bind_eq_ok hr
    obtain ⟨T2, hT2, hr2⟩ := bind_eq_ok hr1
    have hP1 : TableProv A S T1 := by
      refine foldlM_inv _ (TableProv A S) I T T1 ?_ hT hT1
      intro b item b' hitem hb hstep
      exact itemActions_prov reduceOn hb hI hitem hstep
    have hP2 : TableProv A S T2 := by
      refine foldlM_inv _ (TableProv A S) _ T1 T2 ?_ hP1 hT2
      intro b n b' _ hb hstep
      split at hstep
      · rw [← pure_eq_ok hstep]; exact hb
      · obtain ⟨J, hJ, hrest⟩ := bind_eq_ok hstep
        rw [← pure_eq_ok hrest]
        exact setGoto_prov hb ⟨i, I, rfl, hI, J, hJ, rfl⟩
    apply rows_prov A S reduceOn rest (i + 1) T2 T' _ hP2 hr2
    intro k I' hk
    have := hl (k + 1) I' (by simpa using hk)
    rw [show i + 1 + k = i + (k + 1) by omega]; exact this

theorem fillFull_prov (A : Auto) (S : StateMap) (reduceOn : Item → List String) (T : Table)
    (hr : fillFull A S reduceOn = Outcome.ok T) : TableProv A S T := by
  unfold fillFull at hr
  apply rows_prov A S reduceOn S 0 _ T _ _ hr
  · intro k I hk; simpa using hk
  · exact ⟨by simp, by simp⟩

end AlgoVerif.C11.Built
