import AlgoVerif.Proofs.C11LalrFill
/-!
# C11 — every LALR(1) table built by the Model passes the soundness validator
-/
namespace AlgoVerif.C11.Built
open AlgoVerif AlgoVerif.Gram AlgoVerif.C11 AlgoVerif.C11.Spec

theorem mem_coreOf {I : List Item} {y : Item} : y ∈ coreOf I ↔ ∃ it ∈ I, it.core = y := by
  unfold coreOf
  suffices aux : ∀ (l acc : List Item), y ∈ l.foldl (fun acc i => addNew acc i.core) acc ↔
      y ∈ acc ∨ ∃ it ∈ l, it.core = y by simpa using aux I []
  intro l
  induction l with
  | nil => intro acc; simp
  | cons x l ih =>
    intro acc
    simp only [List.foldl_cons, ih, mem_addNew, List.mem_cons]
    constructor
    · rintro ((h1 | h1) | ⟨it, hit, h2⟩)
      · exact Or.inl h1
      · exact Or.inr ⟨x, Or.inl rfl, h1.symm⟩
      · exact Or.inr ⟨it, Or.inr hit, h2⟩
    · rintro (h1 | ⟨it, (rfl | hit), h2⟩)
      · exact Or.inl (Or.inl h1)
      · exact Or.inl (Or.inr h2.symm)
      · exact Or.inr ⟨it, hit, h2⟩

theorem findSuperset_spec (S : StateMap) (J : List Item) :
    findSuperset S J = -1 ∨ ∃ (n : Nat) (K : List Item), findSuperset S J = (n : Int) ∧ S[n]? = some K ∧
      J ≠ [] ∧ (∀ x ∈ J, x ∈ K) ∧ (∀ y, y ∈ coreOf K ↔ y ∈ coreOf J) := by
  unfold findSuperset
  by_cases hJ : J.isEmpty = true
  · simp [hJ]
  · simp only [hJ, Bool.false_eq_true, if_false]
    cases hf : S.findIdx? (fun K => subsetOf J K && sameSet (coreOf K) (coreOf J)) with
    | none => exact Or.inl rfl
    | some n =>
      obtain ⟨K, hK, hp⟩ := findIdx?_some _ S n hf
      simp only [Bool.and_eq_true] at hp
      refine Or.inr ⟨n, K, rfl, hK, ?_, subsetOf_iff.mp hp.1, sameSet_iff.mp hp.2⟩
      intro he; rw [he] at hJ; simp at hJ

section
variable {g g' : SGrammar} (h : AugOK g g') {A : Auto} (hAg : A.g = g') (hAk : A.kernel = true)
include h hAg hAk

/-- the closures recorded by `rows`, as item sets -/
theorem itemsAt_rows {S cl : StateMap} (hrel : RowsRel A g'.start S cl) {i : Nat} {I c : List Item}
    (hI : S[i]? = some I) (hc : A.closure I = Outcome.ok c) (it : Item) :
    it ∈ itemsAt cl (i : Int) ↔ it ∈ c := by
  obtain ⟨c', hc', hcl⟩ := hrel.2 i I hI
  rw [hc] at hc'
  simp only [Outcome.ok.injEq] at hc'
  subst hc'
  rw [itemsAt_of_get hcl, mem_sortBy]

theorem trans_okL {S cl : StateMap} (hS : StatesOK g' S) (hrel : RowsRel A g'.start S cl)
    {i : Nat} {I c J : List Item} {X : Sy}
    (hI : S[i]? = some I) (hc : A.closure I = Outcome.ok c) (hg : A.goto I X = Outcome.ok J) :
    (findSuperset S J != 0) = true ∧
      (itemsAt cl (findSuperset S J)).all (itemJustified (itemsAt cl (i : Int)) X) = true := by
  obtain ⟨c', hc', hJ⟩ := kgoto_spec h hAg hAk hg
  rw [hc] at hc'
  simp only [Outcome.ok.injEq] at hc'
  subst hc'
  subst hJ
  rcases findSuperset_spec S (advance c X) with hneg | ⟨n, K, hn, hK, hne, hsub, hcore⟩
  · rw [hneg]; simp [itemsAt]
  · rw [hn]
    constructor
    · simp only [bne_iff_ne, ne_eq]
      intro h0
      have h0' : n = 0 := by omega
      subst h0'
      obtain ⟨x, hx⟩ := List.exists_mem_of_ne_nil _ hne
      obtain ⟨i0, _, _, rfl⟩ := mem_advance.mp hx
      have hK0 : S.getD 0 [] = K := by simp [List.getD, hK]
      have := (hS.zero _ (hK0 ▸ hsub _ hx)).2
      simp [Item.next] at this
    · rw [List.all_eq_true]
      intro it hit
      obtain ⟨cK, hcK, _⟩ := hrel.2 n K hK
      have hitc : it ∈ cK := (itemsAt_rows h hAg hAk hrel hK hcK it).mp hit
      obtain ⟨hcl1, _, _⟩ := auto_closure_spec h hAg hAk hcK (statesOK_good hS n K hK)
      unfold itemJustified
      rcases hcl1 it hitc with hitK | ⟨_, hf⟩
      · have : it.core ∈ coreOf (advance c X) := (hcore _).mp (mem_coreOf.mpr ⟨it, hitK, rfl⟩)
        obtain ⟨it', hit', hcoreEq⟩ := mem_coreOf.mp this
        obtain ⟨i0, hi0, hd, rfl⟩ := mem_advance.mp hit'
        have hprod : it.prod = i0.prod := by
          have := congrArg Item.prod hcoreEq; simpa [Item.core, Item.next] using this.symm
        have hdot : it.dot = i0.dot + 1 := by
          have := congrArg Item.dot hcoreEq; simpa [Item.core, Item.next] using this.symm
        simp only [Bool.or_eq_true, Bool.and_eq_true, beq_iff_eq, List.any_eq_true]
        right
        refine ⟨?_, i0, (itemsAt_rows h hAg hAk hrel hI hc i0).mpr hi0, hprod.symm, hdot.symm⟩
        rw [hprod, hdot]
        simpa [Item.dotSym] using hd
      · simp [hf.1]

end

theorem soundOK_buildLALR {g : SGrammar} (hv : ValidG g) {fuel : Nat} {b : Built}
    (hb : buildLALR g fuel = Outcome.ok b) : soundOK g b = true := by
  unfold buildLALR at hb
  obtain ⟨g', hg', hb1⟩ := bind_eq_ok hb
  obtain ⟨K, hK, hb2⟩ := bind_eq_ok hb1
  obtain ⟨⟨T, cl⟩, hrows, hb3⟩ := bind_eq_ok hb2
  have hbeq := pure_eq_ok hb3
  subst hbeq
  have h := augOK_of_augment hv hg'
  have hAg : (mkAuto g' true true fuel).g = g' := rfl
  have hAk : (mkAuto g' true true fuel).kernel = true := rfl
  have hstart : (mkAuto g' true true fuel).g.start = g'.start := rfl
  have hinitEq := initialItem_eq h hAg
  have hinit : (mkAuto g' true true fuel).initialItem.isInitial g'.start = true := by
    rw [hinitEq]; simp [mkAuto, Item.isInitial, startProd, laIsEnd]
  have hS := stateMap_specK hinit (lalrKernels_spec h hK)
  obtain ⟨hprov, cs, hcs, hrel⟩ := rowsL_spec g' _ hAg _ _ 0 _ [] T cl (by intro k I hk; simpa using hk)
    ⟨by simp, by simp⟩ hrows
  simp only [List.nil_append] at hcs
  subst hcs
  -- items of the recorded closures
  have hitems : ∀ (i : Nat) (I c : List Item), (buildStateMap g'.start K)[i]? = some I →
      (mkAuto g' true true fuel).closure I = Outcome.ok c →
      (∀ it ∈ c, it ∈ I ∨ (Good g' it ∧ Fresh0 g' it)) ∧ (∀ it ∈ c, Good g' it) := by
    intro i I c hI hc
    obtain ⟨h1, _, h3⟩ := auto_closure_spec h hAg hAk hc (statesOK_good hS i I hI)
    exact ⟨h1, h3⟩
  unfold soundOK soundChecks
  simp only [List.all_cons, List.all_nil, Bool.and_true, Bool.and_eq_true]
  refine ⟨?_, ?_, ?_, ?_, ?_, ?_⟩
  · -- transitions
    unfold chkTransitions
    rw [List.all_eq_true]
    intro tr htr
    unfold transitions at htr
    rcases List.mem_append.mp htr with h1 | h1
    · rw [List.mem_flatMap] at h1
      obtain ⟨e, he, h2⟩ := h1
      rw [List.mem_filterMap] at h2
      obtain ⟨act, hact, h3⟩ := h2
      cases act with
      | shift t =>
        simp only [Option.some.injEq] at h3
        subst h3
        obtain ⟨i, I, c, hs, hI, hc, item, _, _, J, hJ, ht⟩ := hprov.1 e he _ hact
        simp only [Bool.and_eq_true]
        rw [hs, ht]
        exact trans_okL h hAg hAk hS hrel hI hc hJ
      | reduce p => simp at h3
      | accept => simp at h3
    · rw [List.mem_map] at h1
      obtain ⟨e, he, rfl⟩ := h1
      obtain ⟨i, I, hs, hI, J, hJ, ht⟩ := hprov.2 e he
      obtain ⟨c, hc, _⟩ := hrel.2 i I hI
      simp only [Bool.and_eq_true]
      rw [hs, ht]
      exact trans_okL h hAg hAk hS hrel hI hc hJ
  · -- reduces
    unfold chkReduces
    rw [List.all_eq_true]
    intro e he
    rw [List.all_eq_true]
    intro act hact
    cases act with
    | shift t => rfl
    | accept => rfl
    | reduce p =>
      obtain ⟨i, I, c, hs, hI, hc, item, hitem, hp, hcomp, hfin⟩ := hprov.1 e he _ hact
      have hgood := (hitems i I c hI hc).2 item hitem
      have hne : item.prod.head ≠ g'.start := by
        intro hh
        have hla := hgood.2 hh
        rw [hstart] at hfin
        simp [Item.isFinal, hh, hcomp, hla] at hfin
      simp only [Bool.and_eq_true, List.contains_iff_mem, List.any_eq_true, beq_iff_eq]
      refine ⟨hp ▸ mem_of_head_ne h hgood.1 hne, item, ?_, hp, ?_⟩
      · rw [hs]; exact (itemsAt_rows h hAg hAk hrel hI hc item).mpr hitem
      · rw [← hp]; simpa [Item.isComplete] using hcomp
  · -- accepts
    unfold chkAccepts
    rw [List.all_eq_true]
    intro e he
    rw [List.all_eq_true]
    intro act hact
    cases act with
    | shift t => rfl
    | reduce p => rfl
    | accept =>
      obtain ⟨i, I, c, hs, hI, hc, ha, item, hitem, hfin⟩ := hprov.1 e he _ hact
      have hgood := (hitems i I c hI hc).2 item hitem
      rw [hstart] at hfin
      simp only [Item.isFinal, Bool.and_eq_true, beq_iff_eq, Item.isComplete] at hfin
      have hpe := eq_startProd h hgood.1 hfin.1.1
      simp only [Bool.and_eq_true, beq_iff_eq, List.any_eq_true]
      refine ⟨ha, item, ?_, hpe, ?_⟩
      · rw [hs]; exact (itemsAt_rows h hAg hAk hrel hI hc item).mpr hitem
      · rw [hfin.1.2, hpe]; rfl
  · -- state 0
    unfold chkInitial
    simp only [Bool.and_eq_true, List.all_eq_true, beq_iff_eq, List.mem_range, Bool.or_eq_true,
      Bool.not_eq_true', Bool.and_eq_false_iff, beq_eq_false_iff_ne, ne_eq]
    constructor
    · intro it hit
      obtain ⟨I0, hI0⟩ : ∃ I0, (buildStateMap g'.start K)[0]? = some I0 := by
        cases hS0 : buildStateMap g'.start K with
        | nil => exact absurd hS0 hS.ne
        | cons x xs => exact ⟨x, by simp⟩
      obtain ⟨c, hc, _⟩ := hrel.2 0 I0 hI0
      have hitc := (itemsAt_rows h hAg hAk hrel hI0 hc it).mp hit
      have hK0 : (buildStateMap g'.start K).getD 0 [] = I0 := by simp [List.getD, hI0]
      rcases (hitems 0 I0 c hI0 hc).1 it hitc with h1 | h1
      · exact (hS.zero it (hK0 ▸ h1)).2
      · exact h1.2.1
    · intro i hi
      by_cases hi0 : i = 0
      · exact Or.inl hi0
      · right
        have hi' : i < (buildStateMap g'.start K).length := by rw [← hrel.1]; exact hi
        obtain ⟨I, hI⟩ : ∃ I, (buildStateMap g'.start K)[i]? = some I := ⟨_, List.getElem?_eq_getElem hi'⟩
        obtain ⟨c, hc, _⟩ := hrel.2 i I hI
        intro it hit
        have hitc := (itemsAt_rows h hAg hAk hrel hI hc it).mp hit
        rcases (hitems i I c hI hc).1 it hitc with h1 | h1
        · have := (hS.others i I (by omega) hI it h1).2
          by_cases hh : it.prod.head = g'.start
          · exact Or.inr (fun hd => this ⟨hh, hd⟩)
          · exact Or.inl hh
        · exact Or.inl h1.2.2
  · -- the endmarker is never shifted
    unfold chkNoShiftEnd
    rw [List.all_eq_true]
    intro e he
    simp only [Bool.or_eq_true, Bool.not_eq_true', beq_eq_false_iff_ne, ne_eq, List.all_eq_true]
    by_cases hend : e.1.2 = endmarker
    · right
      intro act hact
      cases act with
      | reduce p => rfl
      | accept => rfl
      | shift t =>
        exfalso
        obtain ⟨i, I, c, _, hI, hc, item, hitem, hd, _⟩ := hprov.1 e he _ hact
        have hgood := (hitems i I c hI hc).2 item hitem
        exact body_no_end h hgood.1 (hend ▸ dotSym_mem hd)
    · exact Or.inl hend
  · -- S′ is fresh
    unfold chkFresh
    simp only [Bool.and_eq_true, Bool.not_eq_true', List.contains_eq_mem, decide_eq_false_iff_not, List.all_eq_true,
      beq_eq_false_iff_ne, ne_eq]
    exact ⟨h.fresh, fun p hp => head_ne_of_mem h hp⟩

end AlgoVerif.C11.Built
