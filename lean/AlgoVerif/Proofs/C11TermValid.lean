import AlgoVerif.Proofs.C11TermBase
/-!
# C11 — termination of the driver, part 2: witnessed valid items and the two pumping arguments

`TFrame`: a stack frame with its state, its accessing symbol and the derivation tree built for it.

`WV fr it z` ("witnessed valid"): the LR(1) item `it` is valid for the frames `fr`, with the terminal string `z` as a
witness for its lookahead — built bottom-up along the frames from `[S′ → •S, $]` by moving the dot over a frame and by
the CLOSURE rule, where the lookahead of a closure item is the first token of (the yield of a forest for the rest of the
parent's body) · (the parent's witness).  On a complete table such an item lies in the state on top of the frames
(`wv_items`), the driver started on `yield(fr) · yield(forest for the rest of it) · z` climbs the frames (`climb`), and
that input is a sentence (`wv_tree`), so the driver halts on it.

Two consequences, both by running the driver on a sentence:

* `no_eps_growth` (B): frames `π ≠ []` on top of `fr1` with empty yields that lead back to the state on top of `fr1`
  cannot carry a witnessed valid item — the driver would climb `π` again and again without reading a token;
* `no_two_trees` (A): a witnessed valid item with `B` after the dot excludes two different derivation trees of `B` with
  the same yield — the driver would come to the same control state with both of them.
-/
namespace AlgoVerif.C11.Term
open AlgoVerif AlgoVerif.Gram AlgoVerif.C11 AlgoVerif.C11.Spec AlgoVerif.C11.Complete

structure TFrame where
  state : Int
  sym : Sy
  tree : Tree

def statesF (fr : List TFrame) : List Int := fr.map (·.state)

def treesF (fr : List TFrame) : List Tree := fr.map (·.tree)

def topF : List TFrame → Int
  | [] => 0
  | f :: _ => f.state

/-- the input the frames were built from -/
def yieldF (fr : List TFrame) : List String := Tree.yieldL (treesF fr).reverse

/-- the number of productions emitted for the frames -/
def postLen (fr : List TFrame) : Nat := (fr.map fun f => (postT f.tree).length).sum

theorem yieldF_cons (f : TFrame) (fr : List TFrame) : yieldF (f :: fr) = yieldF fr ++ f.tree.yield := by
  simp [yieldF, treesF, Sound.yieldL_append, Tree.yieldL]

theorem yieldF_append (π fr : List TFrame) : yieldF (π ++ fr) = yieldF fr ++ yieldF π := by
  simp [yieldF, treesF, Sound.yieldL_append]

theorem peek_statesF (fr : List TFrame) (rest : List Int) (h : peekState rest = 0 ∨ fr ≠ []) :
    peekState (statesF fr ++ rest) = if fr = [] then peekState rest else topF fr := by
  cases fr with
  | nil => simp [statesF]
  | cons f fr => simp [statesF, peekState, topF]

theorem topF_append (π fr : List TFrame) : topF (π ++ fr) = if π = [] then topF fr else topF π := by
  cases π <;> simp [topF]

/-- the rest of the body of an item, from the dot on -/
def restOf (it : Item) : List Sy := it.prod.body.drop it.dot

theorem restOf_of_dotSym {it : Item} {X : Sy} (hd : it.dotSym = some X) : restOf it = X :: restOf it.next := by
  unfold Item.dotSym at hd
  unfold restOf Item.next
  simp only
  have hlt : it.dot < it.prod.body.length := by
    rcases Nat.lt_or_ge it.dot it.prod.body.length with h | h
    · exact h
    · rw [List.getElem?_eq_none h] at hd; cases hd
  rw [List.getElem?_eq_getElem hlt] at hd
  rw [List.drop_eq_getElem_cons hlt, Option.some.inj hd]

section
variable (g : SGrammar) (start' : String) (T : Tbl)

/-- witnessed valid items -/
inductive WV : List TFrame → Item → List String → Prop where
  | init : WV [] { prod := { head := start', body := [Sym.nonterm g.start] }, dot := 0, la := some endmarker } []
  | adv {fr : List TFrame} {j : Item} {z : List String} {f : TFrame} : WV fr j z → j.dotSym = some f.sym →
      derivesT g f.tree f.sym → Target T (topF fr) f.sym f.state → WV (f :: fr) j.next z
  | clo {fr : List TFrame} {it : Item} {z : List String} {B : String} {p : Pr} {kβ : List Tree} : WV fr it z →
      it.dotSym = some (Sym.nonterm B) → p ∈ g.prods → p.head = B → derivesL g kβ (restOf it.next) →
      WV fr { prod := p, dot := 0, la := some (look (Tree.yieldL kβ ++ z)) } (Tree.yieldL kβ ++ z)

end

section
variable {g : SGrammar} {start' : String} {nl : List String} {fe : Env} {items : Int → List Item} {T : Tbl}
  (hC : CompleteTable g start' nl fe items T)
include hC

theorem wv_items {fr : List TFrame} {it : Item} {z : List String} (h : WV g start' T fr it z) :
    it ∈ items (topF fr) ∧ it.la = some (look z) := by
  induction h with
  | init => exact ⟨hC.init, rfl⟩
  | @adv fr j z f _ hd _ htg ih =>
    obtain ⟨hj, hla⟩ := ih
    refine ⟨?_, hla⟩
    show j.next ∈ items f.state
    cases hX : f.sym with
    | term a =>
      rw [hX] at hd htg
      obtain ⟨t', hsh, hnext⟩ := hC.advT _ j a hj hd
      have := target_unique hC.conflictFree (X := Sym.term a) htg hsh
      rw [this]; exact hnext
    | nonterm A =>
      rw [hX] at hd htg
      obtain ⟨t', hgo, hnext⟩ := hC.advN _ j A hj hd
      have := target_unique hC.conflictFree (X := Sym.nonterm A) htg hgo
      rw [this]; exact hnext
  | @clo fr it z B p kβ _ hd hp hph hkβ ih =>
    obtain ⟨hit, hla⟩ := ih
    refine ⟨?_, rfl⟩
    apply hC.closed _ it B (look z) hit hd hla p hp hph
    have := look_sem hC.nullClosed hC.firstClosed hkβ z
    exact this

theorem wv_trees {fr : List TFrame} {it : Item} {z : List String} (h : WV g start' T fr it z) :
    ∀ f ∈ fr, derivesT g f.tree f.sym := by
  induction h with
  | init => intro f hf; simp at hf
  | adv _ _ hdt _ ih =>
    intro f' hf'
    rcases List.mem_cons.mp hf' with rfl | h'
    · exact hdt
    · exact ih f' h'
  | clo _ _ _ _ _ ih => exact ih

/-- the precondition of `proc_tree` for the frame on which the dot of `j` is moved -/
theorem wv_la_ok {fr : List TFrame} {j : Item} {z : List String} (h : WV g start' T fr j z) {ks : List Tree}
    (hks : derivesL g ks (restOf j.next)) (B : String) :
    ∃ a, j.la = some a ∧ look (Tree.yieldL ks ++ z) ∈ lookaheadsFor nl fe j a :=
  ⟨look z, (wv_items hC h).2, look_sem hC.nullClosed hC.firstClosed hks z⟩

/-- the driver climbs the frames -/
theorem climb {fr : List TFrame} {it : Item} {z : List String} (h : WV g start' T fr it z) :
    ∀ (π fr1 : List TFrame), fr = π ++ fr1 → ∀ ks, derivesL g ks (restOf it) →
      ∀ st : PState, peekState st.stack = topF fr1 → st.input = yieldF π ++ (Tree.yieldL ks ++ z) →
      ∃ st', Reaches T st st' ∧ st'.stack = statesF π ++ st.stack ∧ st'.input = Tree.yieldL ks ++ z ∧
        st'.out.length = st.out.length + postLen π := by
  induction h with
  | init =>
    intro π fr1 hfr ks _ st _ hin
    have : π = [] := by
      cases π with
      | nil => rfl
      | cons _ _ => simp at hfr
    subst this
    exact ⟨st, reaches_refl T st, by simp [statesF], by simpa [yieldF, treesF, Tree.yieldL] using hin, by simp [postLen]⟩
  | @adv fr0 j z f hwv hd hdt htg ih =>
    intro π fr1 hfr ks hks st hpeek hin
    cases π with
    | nil =>
      exact ⟨st, reaches_refl T st, by simp [statesF], by simpa [yieldF, treesF, Tree.yieldL] using hin, by simp [postLen]⟩
    | cons f' π0 =>
      simp only [List.cons_append, List.cons.injEq] at hfr
      obtain ⟨rfl, hfr0⟩ := hfr
      have hks' : derivesL g (f.tree :: ks) (restOf j) := by
        rw [restOf_of_dotSym hd]
        simp only [derivesL]
        exact ⟨f.sym, _, rfl, hdt, hks⟩
      have hin' : st.input = yieldF π0 ++ (Tree.yieldL (f.tree :: ks) ++ z) := by
        rw [hin, yieldF_cons]
        simp [Tree.yieldL, List.append_assoc]
      obtain ⟨st0, hr0, hstk0, hin0, hout0⟩ := ih π0 fr1 hfr0 (f.tree :: ks) hks' st hpeek hin'
      -- the state on top of st0 is the state on top of fr0
      have hpeek0 : peekState st0.stack = topF fr0 := by
        rw [hstk0, hfr0]
        cases π0 with
        | nil => simpa [statesF] using hpeek
        | cons f0 π1 => simp [statesF, peekState, topF]
      have hin0' : st0.input = f.tree.yield ++ (Tree.yieldL ks ++ z) := by
        rw [hin0]; simp [Tree.yieldL, List.append_assoc]
      have hj := (wv_items hC hwv).1
      obtain ⟨st1, s1, hr1, hstk1, _, hin1, hout1, _, htg1⟩ :=
        proc_tree_target hC f.tree f.sym st0 j (Tree.yieldL ks ++ z) hdt hin0' (by rw [hpeek0]; exact hj) hd
          (fun B _ => wv_la_ok hC hwv hks B)
      rw [hpeek0] at htg1
      have hs1 : s1 = f.state := target_unique hC.conflictFree htg1 htg
      refine ⟨st1, reaches_trans hr0 hr1, ?_, hin1, ?_⟩
      · rw [hstk1, hs1, hstk0]; simp [statesF]
      · rw [hout1]
        simp only [List.length_append, List.length_reverse, hout0, postLen, List.map_cons, List.sum_cons]
        omega
  | @clo fr0 it z B p kβ hwv hd hp hph hkβ ih =>
    intro π fr1 hfr ks hks st hpeek hin
    have hks' : derivesL g (Tree.node p ks :: kβ) (restOf it) := by
      rw [restOf_of_dotSym hd]
      simp only [derivesL]
      refine ⟨Sym.nonterm B, _, rfl, ?_, hkβ⟩
      simp only [derivesT]
      exact ⟨by rw [hph], hp, by simpa [restOf] using hks⟩
    have hin' : st.input = yieldF π ++ (Tree.yieldL (Tree.node p ks :: kβ) ++ z) := by
      rw [hin]; simp [Tree.yieldL, Tree.yield, List.append_assoc]
    obtain ⟨st', hr, hstk, hin'', hout⟩ := ih π fr1 hfr _ hks' st hpeek hin'
    exact ⟨st', hr, hstk, by rw [hin'']; simp [Tree.yieldL, Tree.yield, List.append_assoc], hout⟩

/-- the input the driver climbs on is a sentence -/
theorem wv_tree {fr : List TFrame} {it : Item} {z : List String} (h : WV g start' T fr it z) :
    ∀ ks, derivesL g ks (restOf it) →
      ∃ tS, derivesT g tS (Sym.nonterm g.start) ∧ tS.yield = yieldF fr ++ (Tree.yieldL ks ++ z) := by
  induction h with
  | init =>
    intro ks hks
    match ks, hks with
    | [t], hks =>
      simp only [restOf, List.drop_zero, derivesL] at hks
      obtain ⟨X, Xr, heq, ht, _⟩ := hks
      simp only [List.cons.injEq] at heq
      exact ⟨t, heq.1 ▸ ht, by simp [yieldF, treesF, Tree.yieldL]⟩
    | [], hks => simp [restOf, derivesL] at hks
    | _ :: _ :: _, hks =>
      simp only [restOf, List.drop_zero, derivesL] at hks
      obtain ⟨X, Xr, heq, _, X', Xr', heq', _⟩ := hks
      simp only [List.cons.injEq] at heq
      rw [← heq.2] at heq'
      simp at heq'
  | @adv fr0 j z f _ hd hdt _ ih =>
    intro ks hks
    have hks' : derivesL g (f.tree :: ks) (restOf j) := by
      rw [restOf_of_dotSym hd]
      simp only [derivesL]
      exact ⟨f.sym, _, rfl, hdt, hks⟩
    obtain ⟨tS, h1, h2⟩ := ih _ hks'
    exact ⟨tS, h1, by rw [h2, yieldF_cons]; simp [Tree.yieldL, List.append_assoc]⟩
  | @clo fr0 it z B p kβ _ hd hp hph hkβ ih =>
    intro ks hks
    have hks' : derivesL g (Tree.node p ks :: kβ) (restOf it) := by
      rw [restOf_of_dotSym hd]
      simp only [derivesL]
      refine ⟨Sym.nonterm B, _, rfl, ?_, hkβ⟩
      simp only [derivesT]
      exact ⟨by rw [hph], hp, by simpa [restOf] using hks⟩
    obtain ⟨tS, h1, h2⟩ := ih _ hks'
    exact ⟨tS, h1, by rw [h2]; simp [Tree.yieldL, Tree.yield, List.append_assoc]⟩

/-- the driver halts on the input it climbs on, and reaches the configuration on top of the frames -/
theorem wv_run {fr : List TFrame} {it : Item} {z : List String} (h : WV g start' T fr it z) {ks : List Tree}
    (hks : derivesL g ks (restOf it)) :
    ∃ st, Halts T st ∧ st.stack = statesF fr ++ [0] ∧ st.input = Tree.yieldL ks ++ z := by
  obtain ⟨tS, hS, hy⟩ := wv_tree hC h ks hks
  obtain ⟨fuel, hf⟩ := complete_tree hC tS hS
  have hH : Halts T (pinit tS.yield) := ⟨fuel, _, hf⟩
  obtain ⟨st', hr, hstk, hin, _⟩ := climb hC h fr [] (by simp) ks hks (pinit tS.yield) (by simp [pinit, peekState, topF])
    (by rw [hy]; simp [pinit])
  exact ⟨st', halts_of_reaches hH hr, by simpa [pinit] using hstk, hin⟩

omit hC in
/-- a derivation tree with an empty yield emits at least one production -/
theorem post_pos_of_eps {t : Tree} {X : Sy} (hd : derivesT g t X) (hy : t.yield = []) : 0 < (postT t).length := by
  cases t with
  | leaf a => simp [Tree.yield] at hy
  | nil => simp [derivesT] at hd
  | node p ks => simp [postT]

/-- (B) no growth by frames with empty yields that lead back to the same state -/
theorem no_eps_growth {π fr1 : List TFrame} {it : Item} {z : List String} (h : WV g start' T (π ++ fr1) it z)
    (hπ : π ≠ []) (htop : topF (π ++ fr1) = topF fr1) (heps : ∀ f ∈ π, f.tree.yield = [])
    (hrest : ∃ ks, derivesL g ks (restOf it)) : False := by
  obtain ⟨ks, hks⟩ := hrest
  obtain ⟨st2, hH, hstk2, hin2⟩ := wv_run hC h hks
  have hyπ : yieldF π = [] := by
    unfold yieldF treesF
    suffices aux : ∀ l : List TFrame, (∀ f ∈ l, f.tree.yield = []) → Tree.yieldL (l.map (·.tree)).reverse = [] from aux π heps
    intro l
    induction l with
    | nil => intro _; simp [Tree.yieldL]
    | cons f l ih =>
      intro hl
      simp only [List.map_cons, List.reverse_cons, Sound.yieldL_append, Tree.yieldL, List.append_nil]
      rw [ih (fun f' hf' => hl f' (List.mem_cons_of_mem _ hf')), hl f (by simp)]
      simp
  have hpost : 0 < postLen π := by
    cases π with
    | nil => exact absurd rfl hπ
    | cons f π0 =>
      have hdt := wv_trees hC h f (by simp)
      have := post_pos_of_eps hdt (heps f (by simp))
      simp only [postLen, List.map_cons, List.sum_cons]
      omega
  have hpeek2 : peekState st2.stack = topF fr1 := by
    rw [hstk2, ← htop]
    cases hfr : π ++ fr1 with
    | nil =>
      cases π with
      | nil => exact absurd rfl hπ
      | cons _ _ => simp at hfr
    | cons f0 r0 => simp [statesF, peekState, topF]
  -- pump
  have pump : ∀ n : Nat, ∃ st, Reaches T st2 st ∧ peekState st.stack = topF fr1 ∧ st.input = Tree.yieldL ks ++ z ∧
      st2.out.length + n ≤ st.out.length := by
    intro n
    induction n with
    | zero => exact ⟨st2, reaches_refl T st2, hpeek2, hin2, by omega⟩
    | succ n ih =>
      obtain ⟨st, hr, hpk, hin, hout⟩ := ih
      obtain ⟨st', hr', hstk', hin', hout'⟩ := climb hC h π fr1 rfl ks hks st hpk (by rw [hyπ, hin]; simp)
      refine ⟨st', reaches_trans hr hr', ?_, hin', by omega⟩
      rw [hstk', ← htop]
      cases π with
      | nil => exact absurd rfl hπ
      | cons f0 π0 => simp [statesF, peekState, topF]
  obtain ⟨B, hB⟩ := halts_out_bound hH
  obtain ⟨st, hr, _, _, hout⟩ := pump B
  have := hB st hr
  omega

/-- (A) no two derivation trees with the same yield for the symbol after the dot of a witnessed valid item -/
theorem no_two_trees {fr : List TFrame} {j : Item} {z : List String} (h : WV g start' T fr j z) {B : String}
    (hd : j.dotSym = some (Sym.nonterm B)) {u1 u2 : Tree} (h1 : derivesT g u1 (Sym.nonterm B))
    (h2 : derivesT g u2 (Sym.nonterm B)) (hy : u1.yield = u2.yield) (hne : u1 ≠ u2)
    (hrest : ∃ ks, derivesL g ks (restOf j.next)) : False := by
  obtain ⟨ks, hks⟩ := hrest
  have hks1 : derivesL g (u1 :: ks) (restOf j) := by
    rw [restOf_of_dotSym hd]
    simp only [derivesL]
    exact ⟨_, _, rfl, h1, hks⟩
  obtain ⟨c, hH, hstk, hin⟩ := wv_run hC h hks1
  have hpeek : peekState c.stack = topF fr := by
    rw [hstk]
    cases fr with
    | nil => simp [statesF, peekState, topF]
    | cons f0 r0 => simp [statesF, peekState, topF]
  have hj := (wv_items hC h).1
  have hin1 : c.input = u1.yield ++ (Tree.yieldL ks ++ z) := by
    rw [hin]; simp [Tree.yieldL, List.append_assoc]
  have hin2 : c.input = u2.yield ++ (Tree.yieldL ks ++ z) := by rw [← hy]; exact hin1
  obtain ⟨d1, s1, hr1, hstk1, _, hi1, _, hn1, ht1⟩ :=
    proc_tree_target hC u1 _ c j _ h1 hin1 (by rw [hpeek]; exact hj) hd (fun B' _ => wv_la_ok hC h hks B')
  obtain ⟨d2, s2, hr2, hstk2, _, hi2, _, hn2, ht2⟩ :=
    proc_tree_target hC u2 _ c j _ h2 hin2 (by rw [hpeek]; exact hj) hd (fun B' _ => wv_la_ok hC h hks B')
  have hs : s1 = s2 := target_unique hC.conflictFree ht1 ht2
  have hdne : d1 ≠ d2 := by
    intro he
    rw [he] at hn1
    rw [hn1] at hn2
    simp only [List.cons.injEq, and_true] at hn2
    exact hne hn2
  exact not_halts_of_two hr1 hr2 hdne ⟨by rw [hstk1, hstk2, hs], by rw [hi1, hi2]⟩ hH

end

end AlgoVerif.C11.Term
