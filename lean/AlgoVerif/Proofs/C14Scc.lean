import AlgoVerif.Proofs.C14Topo
import AlgoVerif.Proofs.C14Comp
import AlgoVerif.Proofs.C14Build
/-!
# C14 proofs — Kosaraju's strongly connected components

Phase 1 (`Orders(DFS)` on the reverse graph `h`, any graph): the post-order `P` lists every vertex once and
every entry `r` carries a record `Rec h P r`: `P = Pe ++ blk ++ r :: rest` where `blk` are the proper
descendants of `r` (all reachable from `r`) and from a vertex of `Pe` (finished before `r` was entered)
everything reachable is again in `Pe` — or the way there leads through a vertex outside `Pe ++ blk ++ [r]`.
Phase 2 (component loop on `g` in the order `P.reverse`): the visited set stays closed under the arcs of `g`;
the first unvisited vertex `r` of the order has all of `rest` visited, so by the record every unvisited
vertex that `r` reaches in `g` lies in `blk`, hence reaches `r` back: the new class is the strong
component of `r`.
-/
namespace AlgoVerif.C14

/-! ## phase 1 -/

def Rec (h : Graph) (P : List Nat) (r : Nat) : Prop :=
  ∃ Pe blk rest, P = Pe ++ blk ++ r :: rest ∧ (∀ y ∈ blk, Reach h.HasArc r y) ∧
    ∀ x ∈ Pe, ∀ z, Reach h.HasArc x z →
      z ∈ Pe ∨ ∃ a, a ∉ Pe ∧ a ∉ blk ∧ a ≠ r ∧ Reach h.HasArc x a

theorem Rec.append {h : Graph} {P : List Nat} {r : Nat} (hr : Rec h P r) (m : List Nat) : Rec h (P ++ m) r := by
  obtain ⟨Pe, blk, rest, rfl, h1, h2⟩ := hr
  exact ⟨Pe, blk, rest ++ m, by simp, h1, h2⟩

structure KInv (h : Graph) (st : TState Orders) : Prop where
  vis : ∀ x ∈ postL st, Vis st.visited x
  nodup : (postL st).Nodup
  closed : ∀ x ∈ postL st, ∀ y, h.HasArc x y → Vis st.visited y
  recs : ∀ r ∈ postL st, Rec h (postL st) r

/-- from a finished vertex everything reachable is finished, or the way leads through a vertex in progress -/
theorem KInv.reach {h : Graph} {st : TState Orders} (hk : KInv h st) {x z : Nat} (hx : x ∈ postL st)
    (hr : Reach h.HasArc x z) : z ∈ postL st ∨ ∃ a, InProg st a ∧ Reach h.HasArc x a := by
  induction hr with
  | refl => exact Or.inl hx
  | @tail p q hxp e ih =>
    rcases ih with hp | ⟨a, ha, hxa⟩
    · have hv := hk.closed p hp q e
      by_cases hq : q ∈ postL st
      · exact Or.inl hq
      · exact Or.inr ⟨q, ⟨hv, hq⟩, .tail hxp e⟩
    · exact Or.inr ⟨a, ha, hxa⟩

structure KMid (h : Graph) (v : Nat) (st : TState Orders) (cur : TState Orders) : Prop where
  inv : KInv h cur
  inv0 : KInv h st
  unv : ¬ Vis st.visited v
  prog : ∀ a, InProg cur a ↔ (InProg st a ∨ a = v)
  ext : ∃ m, postL cur = postL st ++ m

structure KPost (h : Graph) (v : Nat) (st st' : TState Orders) : Prop where
  inv : KInv h st'
  prog : ∀ a, InProg st' a ↔ InProg st a
  ext : ∃ blk, postL st' = postL st ++ blk ++ [v]

theorem dfs_kosaraju1 {h : Graph} (hh : h.WF) :
    ∀ fuel v (st : TState Orders), KInv h st →
      st.visited.size = h.n → st.visited[v]? = some false → cntF st.visited ≤ fuel →
      ∃ st', dfs h ordersVisitors fuel v st = .ok st' ∧ KPost h v st st' ∧
        StdPost h v st.visited st'.visited := by
  apply dfs_rule h hh ordersVisitors ordersVisitors_allTrue
    (fun _ st => KInv h st)
    (fun v st st' => KPost h v st st')
    (fun v st _ _ cur => KMid h v st cur)
  · -- enter
    intro v st hpre hsize hunv
    have hvlt : v < st.visited.size := by
      by_cases hx : v < st.visited.size
      · exact hx
      · simp [Array.getElem?_eq_none (Nat.le_of_not_lt hx)] at hunv
    have hnv := not_vis_of_false hunv
    have hpl : postL (⟨st.visited.set! v true, (callV ordersVisitors.pre v st.s).1⟩ : TState Orders) = postL st := rfl
    refine ⟨⟨?_, ?_, ?_, ?_⟩, hpre, hnv, ?_, ⟨[], by rw [hpl]; simp⟩⟩
    · intro x hx; rw [hpl] at hx; exact vis_set_of_vis (hpre.vis x hx)
    · rw [hpl]; exact hpre.nodup
    · intro x hx y hy; rw [hpl] at hx; exact vis_set_of_vis (hpre.closed x hx y hy)
    · intro r hr; rw [hpl] at hr ⊢; exact hpre.recs r hr
    · intro a
      unfold InProg
      rw [hpl]
      show (Vis (st.visited.set! v true) a ∧ a ∉ postL st) ↔ _
      rw [vis_set]
      constructor
      · rintro ⟨⟨rfl, _⟩ | h1, h2⟩
        · exact Or.inr rfl
        · exact Or.inl ⟨h1, h2⟩
      · rintro (⟨h1, h2⟩ | rfl)
        · exact ⟨Or.inr h1, h2⟩
        · exact ⟨Or.inl ⟨rfl, hvlt⟩, fun h => hnv (hpre.vis _ h)⟩
  · intro v st done x rest cur hm _ _
    exact hm
  · intro v st done x rest cur hm hs hunv
    have hce : (callE ordersVisitors.edge v x.to x.e.w cur.s).1 = cur.s := rfl
    rw [hce]
    refine ⟨hm.inv, ?_⟩
    intro cur' hp _
    obtain ⟨m1, hm1⟩ := hm.ext
    obtain ⟨blk, hb⟩ := hp.ext
    exact
      { inv := hp.inv
        inv0 := hm.inv0
        unv := hm.unv
        prog := fun a => (hp.prog a).trans (hm.prog a)
        ext := ⟨m1 ++ blk ++ [x.to], by rw [hb]; show postL cur ++ blk ++ [x.to] = _; rw [hm1]; simp⟩ }
  · -- exit
    intro v st done cur hm hs
    have hpl : postL (⟨cur.visited, (callV ordersVisitors.post v cur.s).1⟩ : TState Orders) = postL cur ++ [v] := by
      show (cur.s.postOrder.push v).toList = _
      simp [postL]
    have hvprog : InProg cur v := (hm.prog v).2 (Or.inr rfl)
    obtain ⟨m1, hm1⟩ := hm.ext
    have hnd : (postL cur ++ [v]).Nodup := by
      rw [List.nodup_append]
      refine ⟨hm.inv.nodup, by simp, ?_⟩
      intro a ha b hb
      have : b = v := by simpa using hb
      subst this
      intro e; subst e; exact hvprog.2 ha
    -- the vertices finished during this call were unvisited at entry
    have hm1_new : ∀ y ∈ m1, ¬ Vis st.visited y := by
      intro y hy hvis
      have hyc : y ∈ postL cur := by rw [hm1]; exact List.mem_append_right _ hy
      have hnd' := hm.inv.nodup
      rw [hm1, List.nodup_append] at hnd'
      have hyp : y ∉ postL st := fun h => hnd'.2.2 y h y hy rfl
      have : InProg cur y := (hm.prog y).2 (Or.inl ⟨hvis, hyp⟩)
      exact this.2 hyc
    have hrecv : Rec h (postL cur ++ [v]) v := by
      refine ⟨postL st, m1, [], by rw [hm1], ?_, ?_⟩
      · intro y hy
        have hyc : y ∈ postL cur := by rw [hm1]; exact List.mem_append_right _ hy
        exact (hs.reach y (hm.inv.vis y hyc) (hm1_new y hy)).of_white
      · intro x hx z hz
        rcases hm.inv0.reach hx hz with h1 | ⟨a, ha, hxa⟩
        · exact Or.inl h1
        · refine Or.inr ⟨a, ha.2, fun h => hm1_new a h ha.1, ?_, hxa⟩
          intro e; subst e; exact hm.unv ha.1
    refine ⟨⟨?_, ?_, ?_, ?_⟩, ?_, ⟨m1, by rw [hpl, hm1]⟩⟩
    · intro x hx
      rw [hpl] at hx
      rcases List.mem_append.1 hx with h1 | h1
      · exact hm.inv.vis x h1
      · have : x = v := by simpa using h1
        subst this; exact hvprog.1
    · rw [hpl]; exact hnd
    · intro x hx y hy
      rw [hpl] at hx
      rcases List.mem_append.1 hx with h1 | h1
      · exact hm.inv.closed x h1 y hy
      · have : x = v := by simpa using h1
        subst this
        obtain ⟨a, ha, rfl⟩ := hy
        rw [hs.adj] at ha
        exact hs.done a (by simpa using ha)
    · intro r hr
      rw [hpl] at hr ⊢
      rcases List.mem_append.1 hr with h1 | h1
      · exact (hm.inv.recs r h1).append [v]
      · have : r = v := by simpa using h1
        subst this; exact hrecv
    · intro a
      unfold InProg
      rw [hpl]
      show (Vis cur.visited a ∧ a ∉ postL cur ++ [v]) ↔ _
      have := hm.prog a
      unfold InProg at this
      constructor
      · rintro ⟨h1, h2⟩
        have h3 : a ∉ postL cur := fun h => h2 (List.mem_append_left _ h)
        have h4 : a ≠ v := fun e => h2 (by simp [e])
        rcases this.1 ⟨h1, h3⟩ with h | h
        · exact h
        · exact absurd h h4
      · intro h'
        have h5 := this.2 (Or.inl h')
        refine ⟨h5.1, ?_⟩
        intro h6
        rcases List.mem_append.1 h6 with h7 | h7
        · exact h5.2 h7
        · have : a = v := by simpa using h7
          subst this; exact hm.unv h'.1

theorem ordersLoop_kosaraju1 {h : Graph} (hh : h.WF) :
    ∀ vs, (∀ v ∈ vs, v < h.n) → ∀ st : TState Orders, st.visited.size = h.n → KInv h st →
      (∀ a, ¬ InProg st a) →
      ∃ st', ordersLoop h .dfs vs st = .ok st' ∧ st'.visited.size = h.n ∧ KInv h st' ∧
        (∀ a, ¬ InProg st' a) ∧ (∀ x, Vis st.visited x → Vis st'.visited x) ∧
        ∀ v ∈ vs, Vis st'.visited v := by
  intro vs
  induction vs with
  | nil =>
    intro _ st hsz hinv hnp
    exact ⟨st, rfl, hsz, hinv, hnp, fun _ h => h, by simp⟩
  | cons v vs ih =>
    intro hvs st hsz hinv hnp
    have hvn : v < h.n := hvs v (by simp)
    have hvs' : ∀ w ∈ vs, w < h.n := fun w hw => hvs w (by simp [hw])
    rcases vis_or_false (by rw [hsz]; exact hvn : v < st.visited.size) with h1 | h1
    · obtain ⟨st', k1, k2, k3, k4, k5, k6⟩ := ih hvs' st hsz hinv hnp
      refine ⟨st', ?_, k2, k3, k4, k5, ?_⟩
      · have : st.visited[v]? = some true := h1
        simp only [ordersLoop, this]; exact k1
      · intro w hw
        rcases List.mem_cons.1 hw with rfl | h'
        · exact k5 _ h1
        · exact k6 w h'
    · have hcnt : cntF st.visited ≤ h.n + 1 := by
        have := cntF_le_size st.visited
        rw [hsz] at this; omega
      obtain ⟨st1, hd, hp, hstd⟩ := dfs_kosaraju1 hh (h.n + 1) v st hinv hsz h1 hcnt
      have hnp1 : ∀ a, ¬ InProg st1 a := fun a ha => hnp a ((hp.prog a).1 ha)
      obtain ⟨st', k1, k2, k3, k4, k5, k6⟩ := ih hvs' st1 hstd.size hp.inv hnp1
      refine ⟨st', ?_, k2, k3, k4, fun x hx => k5 x (hstd.grows x hx), ?_⟩
      · simp only [ordersLoop, h1, traverse, hd]; exact k1
      · intro w hw
        rcases List.mem_cons.1 hw with rfl | h'
        · exact k5 _ hstd.self
        · exact k6 w h'

/-- phase 1: `Orders(DFS)` on any well-formed graph -/
theorem orders_dfs_records {h : Graph} (hh : h.WF) :
    ∃ o, h.orders .dfs = .ok o ∧ IsPermOfRange h.n o.postOrder.toList ∧
      ∀ r, r < h.n → Rec h o.postOrder.toList r := by
  let o0 : Orders := { preRank := Array.replicate h.n 0, postRank := Array.replicate h.n 0,
                       preOrder := #[], postOrder := #[] }
  let st0 : TState Orders := ⟨Array.replicate h.n false, o0⟩
  have hinv0 : KInv h st0 :=
    ⟨by intro x hx; simp [postL, st0, o0] at hx, by simp [postL, st0, o0],
     by intro x hx; simp [postL, st0, o0] at hx, by intro x hx; simp [postL, st0, o0] at hx⟩
  obtain ⟨st, h1, h2, h3, h4, _, h6⟩ :=
    ordersLoop_kosaraju1 hh (List.range h.n) (fun v hv => List.mem_range.1 hv) st0 (by simp [st0]) hinv0
      (fun a ha => vis_replicate_false ha.1)
  have hmem : ∀ v, v < h.n → v ∈ postL st := by
    intro v hv
    have hvis := h6 v (List.mem_range.2 hv)
    by_cases hx : v ∈ postL st
    · exact hx
    · exact absurd ⟨hvis, hx⟩ (h4 v)
  refine ⟨st.s, ?_, ⟨h3.nodup, ?_⟩, ?_⟩
  · simp only [Graph.orders]
    show (match ordersLoop h .dfs (List.range h.n) st0 with
      | .ok st => Outcome.ok st.s | .panic => .panic | .diverge => .diverge) = _
    rw [h1]
  · intro v
    exact ⟨fun hv => by rw [← h2]; exact vis_lt (h3.vis v hv), hmem v⟩
  · intro r hr
    exact h3.recs r (hmem r hr)

/-! ## phase 2 -/

/-- invariant of the component loop of Kosaraju's second phase -/
structure SccInv (g : Graph) (a : Array Bool) (id : Array Nat) (c : Nat) : Prop where
  size : a.size = g.n
  idsize : id.size = g.n
  closed : ∀ x, Vis a x → ∀ y, g.HasArc x y → Vis a y
  lt : ∀ x, Vis a x → ∃ i, id[x]? = some i ∧ i < c
  used : ∀ i, i < c → ∃ x, Vis a x ∧ id[x]? = some i
  part : ∀ x y, Vis a x → Vis a y → (id[x]? = id[y]? ↔ Reach g.HasArc x y ∧ Reach g.HasArc y x)

theorem compLoop_scc {g h : Graph} (hg : g.WF) (hh : h.WF) (hrev : ∀ a b, h.HasArc a b ↔ g.HasArc b a)
    (hn : h.n = g.n) (P : List Nat) (hperm : IsPermOfRange g.n P) (hrec : ∀ r, r < g.n → Rec h P r) :
    ∀ (vs pre : List Nat), P.reverse = pre ++ vs → ∀ (st : TState (Array Nat)) (c : Nat),
      SccInv g st.visited st.s c → (∀ x ∈ pre, Vis st.visited x) →
      ∃ st' c', compLoop g vs st c = .ok (st', c') ∧ SccInv g st'.visited st'.s c' ∧
        (∀ x ∈ P, Vis st'.visited x) := by
  have hrevR : ∀ {a b}, Reach h.HasArc a b → Reach g.HasArc b a := by
    intro a b hr
    have : Reach (fun p q => g.HasArc q p) a b := hr.mono (fun p q e => (hrev p q).1 e)
    exact Reach.reverse this
  intro vs
  induction vs with
  | nil =>
    intro pre hP st c hinv hpre
    refine ⟨st, c, rfl, hinv, ?_⟩
    intro x hx
    exact hpre x (by rw [List.append_nil] at hP; rw [← hP]; exact List.mem_reverse.2 hx)
  | cons v vs ih =>
    intro pre hP st c hinv hpre
    have hvP : v ∈ P := by
      have : v ∈ P.reverse := by rw [hP]; simp
      exact List.mem_reverse.1 this
    have hvn : v < g.n := (hperm.2 v).1 hvP
    have hP' : P.reverse = (pre ++ [v]) ++ vs := by rw [hP]; simp
    have hvlt : v < st.visited.size := by rw [hinv.size]; exact hvn
    rcases vis_or_false hvlt with hvis | hunv
    · obtain ⟨st', c', h1, h2, h3⟩ := ih (pre ++ [v]) hP' st c hinv (by
        intro x hx
        rcases List.mem_append.1 hx with h' | h'
        · exact hpre x h'
        · have : x = v := by simpa using h'
          subst this; exact hvis)
      refine ⟨st', c', ?_, h2, h3⟩
      unfold compLoop
      have : st.visited[v]? = some true := hvis
      rw [this]; exact h1
    · have hcnt : cntF st.visited ≤ g.n + 1 := by
        have := cntF_le_size st.visited
        rw [hinv.size] at this; omega
      obtain ⟨st1, hd, hid, hstd⟩ := dfs_ids hg c (g.n + 1) v st hinv.idsize hinv.size hunv hcnt
      have hnew_reach : ∀ x, Vis st1.visited x → ¬ Vis st.visited x → Reach g.HasArc v x :=
        fun x hx hnx => (hstd.reach x hx hnx).of_white
      have hold_closed : ∀ x y, Vis st.visited x → Reach g.HasArc x y → Vis st.visited y :=
        fun x y hx hr => Reach.closed (S := Vis st.visited) (fun p q hp e => hinv.closed p hp q e) hr hx
      -- the record of v: everything after v in P is visited
      obtain ⟨Pe, blk, rest, hPd, hblk, hPe⟩ := hrec v hvn
      have hrest : ∀ a ∈ rest, Vis st.visited a := by
        intro a ha
        apply hpre
        have h1 : P.reverse = rest.reverse ++ v :: (blk.reverse ++ Pe.reverse) := by rw [hPd]; simp
        -- `pre` is the part of `P.reverse` before (the unique) `v`
        have hnd : P.reverse.Nodup := nodup_reverse hperm.1
        have h2 : pre ++ v :: vs = rest.reverse ++ v :: (blk.reverse ++ Pe.reverse) := by rw [← hP, h1]
        have hv1 : v ∉ pre := by
          rw [hP, List.nodup_append] at hnd
          intro hv'; exact hnd.2.2 v hv' v (by simp) rfl
        have hv2 : v ∉ rest.reverse := by
          rw [h1, List.nodup_append] at hnd
          intro hv'; exact hnd.2.2 v hv' v (by simp) rfl
        have := append_cons_inj_of_not_mem hv1 hv2 h2
        rw [this.1]; exact List.mem_reverse.2 ha
      -- the new vertices reach v back
      have hnew_back : ∀ x, Vis st1.visited x → ¬ Vis st.visited x → Reach g.HasArc x v := by
        intro x hx hnx
        have hxv : Reach g.HasArc v x := hnew_reach x hx hnx
        have hxn : x < g.n := by rw [← hstd.size]; exact vis_lt hx
        have hxP : x ∈ P := (hperm.2 x).2 hxn
        rw [hPd] at hxP
        have hxh : Reach h.HasArc x v := Reach.reverse (hxv.mono (fun p q e => (hrev q p).2 e))
        rcases List.mem_append.1 hxP with hx1 | hx1
        · rcases List.mem_append.1 hx1 with hx2 | hx2
          · -- finished before v was entered: impossible
            exfalso
            rcases hPe x hx2 v hxh with hv' | ⟨a, ha1, ha2, ha3, hxa⟩
            · have hnd := hperm.1
              rw [hPd, List.append_assoc, List.nodup_append] at hnd
              exact hnd.2.2 v hv' v (by simp) rfl
            · have han : a < g.n := by
                rcases hxa with _ | ⟨_, e⟩
                · exact hxn
                · rw [← hn]; exact hh.arc_lt e
              have haP : a ∈ P := (hperm.2 a).2 han
              rw [hPd] at haP
              have har : a ∈ rest := by
                rcases List.mem_append.1 haP with h1 | h1
                · rcases List.mem_append.1 h1 with h2 | h2
                  · exact absurd h2 ha1
                  · exact absurd h2 ha2
                · rcases List.mem_cons.1 h1 with h2 | h2
                  · exact absurd h2 ha3
                  · exact h2
              exact hnx (hold_closed a x (hrest a har) (hrevR hxa))
          · exact hrevR (hblk x hx2)
        · rcases List.mem_cons.1 hx1 with rfl | hx2
          · exact .refl _
          · exact absurd (hrest x hx2) hnx
      have hinv1 : SccInv g st1.visited st1.s (c + 1) :=
        { size := hstd.size
          idsize := hid.size
          closed := by
            intro x hx y hy
            by_cases hox : Vis st.visited x
            · exact hstd.grows y (hinv.closed x hox y hy)
            · exact hstd.closed x hx hox y hy
          lt := by
            intro x hx
            by_cases hox : Vis st.visited x
            · obtain ⟨i, hi, hlt⟩ := hinv.lt x hox
              exact ⟨i, by rw [hid.old x hox]; exact hi, by omega⟩
            · exact ⟨c, hid.new x hx hox, by omega⟩
          used := by
            intro i hi
            by_cases hic : i = c
            · subst hic
              exact ⟨v, hstd.self, hid.new v hstd.self (not_vis_of_false hunv)⟩
            · obtain ⟨x, hx, hxi⟩ := hinv.used i (by omega)
              exact ⟨x, hstd.grows x hx, by rw [hid.old x hx]; exact hxi⟩
          part := by
            intro x y hx hy
            by_cases hox : Vis st.visited x <;> by_cases hoy : Vis st.visited y
            · rw [hid.old x hox, hid.old y hoy]
              exact hinv.part x y hox hoy
            · obtain ⟨i, hi, hlt⟩ := hinv.lt x hox
              rw [hid.old x hox, hi, hid.new y hy hoy]
              constructor
              · intro h'; simp at h'; omega
              · intro hr; exact absurd (hold_closed x y hox hr.1) hoy
            · obtain ⟨i, hi, hlt⟩ := hinv.lt y hoy
              rw [hid.old y hoy, hi, hid.new x hx hox]
              constructor
              · intro h'; simp at h'; omega
              · intro hr; exact absurd (hold_closed y x hoy hr.2) hox
            · rw [hid.new x hx hox, hid.new y hy hoy]
              simp only [true_iff]
              exact ⟨(hnew_back x hx hox).trans (hnew_reach y hy hoy),
                     (hnew_back y hy hoy).trans (hnew_reach x hx hox)⟩ }
      obtain ⟨st', c', h1, h2, h3⟩ := ih (pre ++ [v]) hP' st1 (c + 1) hinv1 (by
        intro x hx
        rcases List.mem_append.1 hx with h' | h'
        · exact hstd.grows x (hpre x h')
        · have : x = v := by simpa using h'
          subst this; exact hstd.self)
      refine ⟨st', c', ?_, h2, h3⟩
      unfold compLoop
      rw [hunv]
      simp only [hd]
      exact h1

/-- **StronglyConnectedComponents** (Kosaraju) on a well-formed graph -/
theorem scc_spec {g : Graph} (hg : g.WF) :
    ∃ cc, g.stronglyConnectedComponents = .ok cc ∧ cc.id.size = g.n ∧
      (∀ x, x < g.n → ∃ i, cc.id[x]? = some i ∧ i < cc.count) ∧
      (∀ i, i < cc.count → ∃ x, x < g.n ∧ cc.id[x]? = some i) ∧
      (∀ x y, x < g.n → y < g.n →
        (cc.id[x]? = cc.id[y]? ↔ Reach g.HasArc x y ∧ Reach g.HasArc y x)) := by
  obtain ⟨hh, hn, hrev⟩ := reverse_spec g hg
  obtain ⟨o, ho, hperm, hrec⟩ := orders_dfs_records hh
  rw [hn] at hperm hrec
  have hinv0 : SccInv g (Array.replicate g.n false) (Array.replicate g.n 0) 0 :=
    { size := by simp
      idsize := by simp
      closed := fun x hx => absurd hx vis_replicate_false
      lt := fun x hx => absurd hx vis_replicate_false
      used := fun i hi => absurd hi (Nat.not_lt_zero i)
      part := fun x _ hx => absurd hx vis_replicate_false }
  obtain ⟨st, c, h1, h2, h3⟩ :=
    compLoop_scc hg hh hrev hn o.postOrder.toList hperm hrec o.postOrder.toList.reverse [] (by simp)
      ⟨Array.replicate g.n false, Array.replicate g.n 0⟩ 0 hinv0 (by simp)
  have hall : ∀ x, x < g.n → Vis st.visited x := fun x hx => h3 x ((hperm.2 x).2 hx)
  refine ⟨⟨c, st.s⟩, ?_, h2.idsize, ?_, ?_, ?_⟩
  · simp only [Graph.stronglyConnectedComponents, ho, components, Orders.reversePostOrder, h1]
  · intro x hx; exact h2.lt x (hall x hx)
  · intro i hi
    obtain ⟨x, hx, hxi⟩ := h2.used i hi
    exact ⟨x, by rw [← h2.size]; exact vis_lt hx, hxi⟩
  · intro x y hx hy; exact h2.part x y (hall x hx) (hall y hy)

end AlgoVerif.C14
