import AlgoVerif.Proofs.C11BuiltCompleteFill
import AlgoVerif.Proofs.C11LalrFill
/-!
# C11 — the table fill of the LALR(1) construction leaves no entry out

The counterpart of `C11BuiltCompleteFill` for `buildLALR.rows`: the items of a row are those of `CLOSURE(I)` (the state
map holds kernels only) and the target of a transition is looked up with `findSuperset`.  The statements are generic
in the lookup function `find`.
-/
namespace AlgoVerif.C11.Lalr
open AlgoVerif AlgoVerif.Gram AlgoVerif.C11 AlgoVerif.C11.Spec AlgoVerif.C11.Built AlgoVerif.C11.BuiltComplete

/-- what item `it` of row `i` must have put into the table -/
def ItemDoneF (A : Auto) (find : List Item → Int) (start : String) (reduceOn : Item → List String) (i : Nat)
    (I : List Item) (it : Item) (T : Table) : Prop :=
  (∀ a, it.dotSym = some (Sym.term a) →
    ∃ J, A.goto I (Sym.term a) = Outcome.ok J ∧ Action.shift (find J) ∈ T.cell (i : Int) a) ∧
  (it.isComplete = true → it.isFinal start = false → ∀ a ∈ reduceOn it, Action.reduce it.prod ∈ T.cell (i : Int) a) ∧
  (it.isFinal start = true → Action.accept ∈ T.cell (i : Int) endmarker)

theorem itemDoneF_mono {A : Auto} {find : List Item → Int} {start : String} {reduceOn : Item → List String} {i : Nat}
    {I : List Item} {it : Item} {T T' : Table} (hm : ∀ s a act, act ∈ T.cell s a → act ∈ T'.cell s a)
    (h : ItemDoneF A find start reduceOn i I it T) : ItemDoneF A find start reduceOn i I it T' := by
  obtain ⟨h1, h2, h3⟩ := h
  refine ⟨?_, ?_, ?_⟩
  · intro a hd
    obtain ⟨J, hJ, hmem⟩ := h1 a hd
    exact ⟨J, hJ, hm _ _ _ hmem⟩
  · intro hc hf a ha
    exact hm _ _ _ (h2 hc hf a ha)
  · intro hf
    exact hm _ _ _ (h3 hf)

theorem itemActions_specF {A : Auto} {find : List Item → Int} {start : String} {reduceOn : Item → List String}
    {i : Nat} {I : List Item} {item : Item} {T T' : Table}
    (hr : itemActions start (i : Int) item
      (fun a => A.goto I (Sym.term a) >>= fun J => pure (find J)) reduceOn T = Outcome.ok T') :
    ActMono T T' ∧ ItemDoneF A find start reduceOn i I item T' := by
  unfold itemActions at hr
  obtain ⟨T1, hT1, hrest⟩ := bind_eq_ok hr
  rw [← pure_eq_ok hrest]
  obtain ⟨m2, r2, r3⟩ := itemReduce_spec start (i : Int) item reduceOn T1
  unfold itemShift at hT1
  split at hT1
  · rename_i a hd
    obtain ⟨j, hj, hrest1⟩ := bind_eq_ok hT1
    obtain ⟨J, hJ, hrest2⟩ := bind_eq_ok hj
    have hjeq : find J = j := pure_eq_ok hrest2
    have hT1eq : T.addAction (i : Int) a (Action.shift j) = T1 := pure_eq_ok hrest1
    refine ⟨actMono_trans (hT1eq ▸ actMono_addAction T _ _ _) m2, ?_, r2, r3⟩
    intro a' hd'
    rw [hd] at hd'
    simp only [Option.some.injEq, Sym.term.injEq] at hd'
    subst hd'
    refine ⟨J, hJ, m2.1 _ _ _ ?_⟩
    rw [← hT1eq, hjeq]
    exact mem_cell_addAction _ _ _ _
  · rename_i hnt
    have hT1eq : T = T1 := pure_eq_ok hT1
    subst hT1eq
    refine ⟨m2, ?_, r2, r3⟩
    intro a hd
    exact absurd hd (hnt a)

theorem items_fold_specF {A : Auto} {find : List Item → Int} {start : String} {reduceOn : Item → List String}
    {i : Nat} {I : List Item} :
    ∀ (l : List Item) (T T' : Table),
      l.foldlM (fun T item => itemActions start (i : Int) item
        (fun a => A.goto I (Sym.term a) >>= fun J => pure (find J)) reduceOn T) T = Outcome.ok T' →
      ActMono T T' ∧ ∀ it ∈ l, ItemDoneF A find start reduceOn i I it T'
  | [], T, T', h => by
    have : T = T' := by simpa [List.foldlM, pure] using h
    subst this
    exact ⟨actMono_refl T, by simp⟩
  | x :: l, T, T', h => by
    rw [List.foldlM_cons] at h
    obtain ⟨T1, hstep, hrest⟩ := bind_eq_ok h
    obtain ⟨m1, d1⟩ := itemActions_specF hstep
    obtain ⟨m2, d2⟩ := items_fold_specF l T1 T' hrest
    refine ⟨actMono_trans m1 m2, ?_⟩
    intro it hit
    rcases List.mem_cons.mp hit with rfl | hit'
    · exact itemDoneF_mono m2.1 d1
    · exact d2 it hit'

/-- the GOTO entry for non-terminal `n` of row `i` is there (whenever the lookup succeeds) -/
def GotoDoneF (A : Auto) (find : List Item → Int) (start : String) (i : Nat) (I : List Item) (n : String) (T : Table) :
    Prop :=
  n ≠ start → ∃ J, A.goto I (Sym.nonterm n) = Outcome.ok J ∧ (find J ≠ -1 → T.goto (i : Int) n = some (find J))

theorem gotos_fold_specF {A : Auto} {find : List Item → Int} {start : String} {i : Nat} {I : List Item} :
    ∀ (ns : List String) (T T' : Table),
      ns.foldlM (fun T n =>
        if n = start then pure T else do
          let J ← A.goto I (Sym.nonterm n)
          pure (T.setGoto (i : Int) n (find J))) T = Outcome.ok T' →
      T'.actions = T.actions ∧ (∀ (s : Int) m, s ≠ (i : Int) → T'.goto s m = T.goto s m) ∧
      (∀ m, T'.goto (i : Int) m = T.goto (i : Int) m ∨
        ∃ J, A.goto I (Sym.nonterm m) = Outcome.ok J ∧ T'.goto (i : Int) m = some (find J)) ∧
      ∀ n ∈ ns, GotoDoneF A find start i I n T'
  | [], T, T', h => by
    have : T = T' := by simpa [List.foldlM, pure] using h
    subst this
    exact ⟨rfl, fun _ _ _ => rfl, fun _ => Or.inl rfl, by simp⟩
  | n :: ns, T, T', h => by
    rw [List.foldlM_cons] at h
    obtain ⟨T1, hstep, hrest⟩ := bind_eq_ok h
    obtain ⟨a2, o2, r2, d2⟩ := gotos_fold_specF ns T1 T' hrest
    split at hstep
    · rename_i hn
      have hT1 : T = T1 := pure_eq_ok hstep
      subst hT1
      refine ⟨a2, o2, r2, ?_⟩
      intro m hm
      rcases List.mem_cons.mp hm with rfl | hm'
      · intro hne; exact absurd hn hne
      · exact d2 m hm'
    · obtain ⟨J, hJ, hrest1⟩ := bind_eq_ok hstep
      have hT1 : T.setGoto (i : Int) n (find J) = T1 := pure_eq_ok hrest1
      refine ⟨?_, ?_, ?_, ?_⟩
      · rw [a2, ← hT1, setGoto_actions]
      · intro s m hs
        rw [o2 s m hs, ← hT1, goto_setGoto]
        have : ¬ (s, m) = ((i : Int), n) := by
          intro he; simp only [Prod.mk.injEq] at he; exact hs he.1
        simp [this]
      · intro m
        rcases r2 m with h1 | h1
        · rw [h1, ← hT1, goto_setGoto]
          by_cases hc : find J ≠ -1 ∧ ((i : Int), m) = ((i : Int), n)
          · right
            simp only [Prod.mk.injEq, true_and] at hc
            rw [hc.2]
            exact ⟨J, hJ, by simp [hc.1]⟩
          · left
            rw [if_neg hc]
        · exact Or.inr h1
      · intro m hm
        rcases List.mem_cons.mp hm with rfl | hm'
        · intro _
          refine ⟨J, hJ, ?_⟩
          intro hfound
          rcases r2 m with h1 | ⟨J', hJ', h1⟩
          · rw [h1, ← hT1, goto_setGoto]
            simp [hfound]
          · rw [hJ] at hJ'
            simp only [Outcome.ok.injEq] at hJ'
            rw [h1, hJ']
        · exact d2 m hm'

/-- what row `i` (kernel `I`) must have put into the table -/
def RowDoneL (A : Auto) (find : List Item → Int) (start : String) (nonterms : List String)
    (reduceOn : Item → List String) (i : Nat) (I : List Item) (T : Table) : Prop :=
  ∃ c, A.closure I = Outcome.ok c ∧ (∀ it ∈ c, ItemDoneF A find start reduceOn i I it T) ∧
    ∀ n ∈ nonterms, GotoDoneF A find start i I n T

theorem rowDoneL_keep {A : Auto} {find : List Item → Int} {start : String} {nonterms : List String}
    {reduceOn : Item → List String} {i j : Nat} {I : List Item}
    {T T' : Table} (hij : i < j) (hk : RowKeep j T T') (h : RowDoneL A find start nonterms reduceOn i I T) :
    RowDoneL A find start nonterms reduceOn i I T' := by
  obtain ⟨c, hc, h1, h2⟩ := h
  refine ⟨c, hc, fun it hit => ?_, fun n hn => ?_⟩
  · exact itemDoneF_mono hk.1 (h1 it hit)
  · intro hne
    obtain ⟨J, hJ, hg⟩ := h2 n hn hne
    exact ⟨J, hJ, fun hf => by rw [hk.2 i n hij]; exact hg hf⟩

/-- the lookaheads an LR(1) item reduces on -/
def la1 (item : Item) : List String :=
  match item.la with
  | some a => [a]
  | none => []

theorem rowsL_done (g' : SGrammar) (A : Auto) (S : StateMap) :
    ∀ (l : List (List Item)) (i : Nat) (T : Table) (cl : List (List Item)) (T' : Table) (cl' : List (List Item)),
      buildLALR.rows g' A S l i T cl = Outcome.ok (T', cl') →
      RowKeep i T T' ∧ ∀ k I, l[k]? = some I →
        RowDoneL A (findSuperset S) g'.start g'.nonterms la1 (i + k) I T'
  | [], i, T, cl, T', cl', hr => by
    unfold buildLALR.rows at hr
    have := pure_eq_ok hr
    simp only [Prod.mk.injEq] at this
    obtain ⟨rfl, rfl⟩ := this
    exact ⟨⟨fun _ _ _ h => h, fun _ _ _ => rfl⟩, by intro k I hk; simp at hk⟩
  | I :: rest, i, T, cl, T', cl', hr => by
    unfold buildLALR.rows at hr
    obtain ⟨c, hc, hr0⟩ := bind_eq_ok hr
    obtain ⟨T1, hT1, hr1⟩ := bind_eq_ok hr0
    obtain ⟨T2, hT2, hr2⟩ := bind_eq_ok hr1
    obtain ⟨m1, d1⟩ := items_fold_specF (A := A) (find := findSuperset S) (start := g'.start) (reduceOn := la1)
      (i := i) (I := I) c T T1 hT1
    obtain ⟨a2, o2, _, d2⟩ := gotos_fold_specF (A := A) (find := findSuperset S) (start := g'.start) (i := i) (I := I)
      g'.nonterms T1 T2 hT2
    obtain ⟨k3, d3⟩ := rowsL_done g' A S rest (i + 1) T2 _ T' cl' hr2
    have hrow2 : RowDoneL A (findSuperset S) g'.start g'.nonterms la1 i I T2 := by
      refine ⟨c, hc, fun it hit => ?_, d2⟩
      exact itemDoneF_mono (fun s a act h => by rw [cell_of_actions_eq a2]; exact h) (d1 it hit)
    refine ⟨⟨?_, ?_⟩, ?_⟩
    · intro s a act h
      apply k3.1
      rw [cell_of_actions_eq a2]
      exact m1.1 _ _ _ h
    · intro k m hk
      rw [k3.2 k m (by omega), o2 (k : Int) m (by omega), goto_of_gotos_eq m1.2]
    · intro k I' hk
      cases k with
      | zero =>
        simp only [List.getElem?_cons_zero, Option.some.injEq] at hk
        subst hk
        exact rowDoneL_keep (Nat.lt_succ_self i) k3 hrow2
      | succ k =>
        simp only [List.getElem?_cons_succ] at hk
        have := d3 k I' hk
        rw [show i + (k + 1) = i + 1 + k by omega]
        exact this

end AlgoVerif.C11.Lalr
