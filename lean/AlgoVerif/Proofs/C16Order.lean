import AlgoVerif.Proofs.C16Algebra
import AlgoVerif.Proofs.C16Spec
/-!
# C16 helper lemmas: the stored order of the members, as sequences of the Spec
-/
namespace AlgoVerif.C16
open AlgoVerif.C16.Spec
variable {α : Type} {σ : Type} [DecidableEq α]

/-- `Add(vals...)` on `set`/`stable`: each new value goes to the end -/
theorem MSet.add_seq0 {s : MSet α} (h : WF0 s) (hl : s.impl.isSorted = false) (vs : List α) :
    ∃ s', s.add vs = .ok s' ∧ s'.members = Seq.insertAll s.members vs := by
  induction vs generalizing s with
  | nil => exact ⟨s, rfl, rfl⟩
  | cons v vs ih =>
    obtain ⟨s₁, h₁, hw₁, hi₁, _, hsame, _, happ⟩ := MSet.add1_spec0 h v
    obtain ⟨s₂, h₂, hm₂⟩ := ih hw₁ (by rw [hi₁]; exact hl)
    refine ⟨s₂, by simp [MSet.add, h₁, h₂], ?_⟩
    rw [hm₂]
    simp only [Seq.insertAll, List.foldl_cons]
    congr 1
    unfold Seq.insert
    split
    · rename_i hm; rw [hsame hm]
    · rename_i hm; exact happ hm hl

/-- `Remove(vals...)`: exactly the old member list without the values, whatever the implementation -/
theorem MSet.remove_seq0 {s : MSet α} (h : WF0 s) (vs : List α) :
    ∃ s', s.remove vs = .ok s' ∧ s'.members = FSet.eraseAll s.members vs := by
  obtain ⟨s', h₁, _, _, hm, hsub⟩ := MSet.remove_spec0 h vs
  refine ⟨s', h₁, sublist_ext h.nodup hsub FSet.eraseAll_sublist (fun x => ?_)⟩
  rw [hm, FSet.mem_eraseAll]

/-- `yields` are what ranging over `All()` of each operand gave: a permutation of its members, and
exactly its stored sequence unless the operand is an unordered set -/
inductive YieldsOf : List (List α) → List (MSet α) → Prop
  | nil : YieldsOf [] []
  | cons {y : List α} {u : MSet α} {ys : List (List α)} {us : List (MSet α)} :
      y.Perm u.members → (u.impl.isUnordered = false → y = u.members) → YieldsOf ys us → YieldsOf (y :: ys) (u :: us)

/-- `for m := range set.All() { t.Add(m) }` on `set`/`stable`: the values not yet present are appended
in the order they are yielded -/
theorem addEach_seq0 {t : MSet α} (h : WF0 t) (hl : t.impl.isSorted = false) (ms : List α) (hnd : ms.Nodup) :
    ∃ t', addEach t ms = .ok t' ∧ WF0 t' ∧ t'.impl = t.impl ∧ t'.members = FSet.union t.members ms := by
  induction ms generalizing t with
  | nil => exact ⟨t, rfl, h, rfl, by simp [FSet.union]⟩
  | cons m ms ih =>
    have hnd' := List.nodup_cons.1 hnd
    obtain ⟨t₁, h₁, hw₁, hi₁, _, hsame, _, happ⟩ := MSet.add1_spec0 h m
    obtain ⟨t₂, h₂, hw₂, hi₂, hm₂⟩ := ih hw₁ (by rw [hi₁]; exact hl) hnd'.2
    refine ⟨t₂, by simp [addEach, MSet.add_singleton, h₁, h₂], hw₂, hi₂.trans hi₁, ?_⟩
    rw [hm₂]
    by_cases hm : m ∈ t.members
    · rw [hsame hm]
      simp [FSet.union, List.filter_cons, hm]
    · rw [happ hm hl]
      simp only [FSet.union, List.filter_cons, hm, not_false_eq_true, decide_true, ↓reduceIte,
        List.append_assoc, List.cons_append, List.nil_append]
      congr 2
      apply List.filter_congr
      intro x hx
      have : x ≠ m := fun h' => hnd'.1 (h' ▸ hx)
      simp [this]

theorem unionLoop_seq0 {sh : Shuffle σ} (hsh : ShLaw sh) {t : MSet α} (h : WF0 t) (hl : t.impl.isSorted = false)
    (sets : List (MSet α)) (hsets : ∀ u ∈ sets, WF0 u) (g : σ) :
    ∃ t' g' yields, unionLoop sh t sets g = .ok (t', g') ∧ YieldsOf yields sets ∧
      t'.members = FSet.unionAll t.members yields := by
  induction sets generalizing t g with
  | nil => exact ⟨t, g, [], rfl, .nil, rfl⟩
  | cons u sets ih =>
    obtain ⟨ms, g₁, ha, hp, hord⟩ := MSet.all_spec hsh u g
    have hnd : ms.Nodup := hp.symm.nodup (hsets u (List.mem_cons_self ..)).nodup
    obtain ⟨t₁, h₁, hw₁, hi₁, hm₁⟩ := addEach_seq0 h hl ms hnd
    obtain ⟨t₂, g₂, ys, h₂, hy₂, hm₂⟩ := ih hw₁ (by rw [hi₁]; exact hl)
      (fun w hw => hsets w (List.mem_cons_of_mem _ hw)) g₁
    refine ⟨t₂, g₂, ms :: ys, by simp [unionLoop, ha, h₁, h₂], .cons hp (fun hu => (hord hu).1) hy₂, ?_⟩
    rw [hm₂, hm₁]
    rfl

/-- `Union` on a `set`/`stable` receiver: the receiver's sequence, then, operand by operand, the values
not yet present in the order the operand's `All()` yields them -/
theorem MSet.union_seq0 {sh : Shuffle σ} (hsh : ShLaw sh) {s : MSet α} (h : WF0 s) (hl : s.impl.isSorted = false)
    (sets : List (MSet α)) (hsets : ∀ u ∈ sets, WF0 u) (g : σ) :
    ∃ t g' yields, s.union sh sets g = .ok (t, g') ∧ YieldsOf yields sets ∧
      t.members = FSet.unionAll s.members yields :=
  unionLoop_seq0 hsh (t := s.clone) h hl sets hsets g

omit [DecidableEq α] in
theorem exists_mem_map_members (sets : List (MSet α)) (p : List α → Prop) :
    (∃ b ∈ sets.map (·.members), p b) ↔ ∃ u ∈ sets, p u.members := by
  constructor
  · rintro ⟨b, hb, hp⟩
    obtain ⟨u, hu, rfl⟩ := List.mem_map.1 hb
    exact ⟨u, hu, hp⟩
  · rintro ⟨u, hu, hp⟩
    exact ⟨u.members, List.mem_map.2 ⟨u, hu, rfl⟩, hp⟩

omit [DecidableEq α] in
theorem forall_mem_map_members (sets : List (MSet α)) (p : List α → Prop) :
    (∀ b ∈ sets.map (·.members), p b) ↔ ∀ u ∈ sets, p u.members := by
  constructor
  · intro h u hu
    exact h u.members (List.mem_map.2 ⟨u, hu, rfl⟩)
  · intro h b hb
    obtain ⟨u, hu, rfl⟩ := List.mem_map.1 hb
    exact h u hu

end AlgoVerif.C16
