import AlgoVerif.Proofs.C16Algebra
import AlgoVerif.Proofs.C16Spec
/-!
# C16 helper lemmas: the stored order of the members, as sequences of the Spec
-/
namespace AlgoVerif.C16
open AlgoVerif.C16.Spec
variable {α : Type} {σ : Type} [DecidableEq α]

/-- `Add(vals...)` on `set`/`stable`: each new value goes to the end -/
theorem MSet.add_seq0 {s : MSet α} (h : WF0 s) (hl : s.impl.isSorted = false) (vs : List α) :
    ∃ s', s.add vs = .ok s' ∧ s'.members = Seq.insertAll s.members vs := by
  induction vs generalizing s with
  | nil => exact ⟨s, rfl, rfl⟩
  | cons v vs ih =>
    obtain ⟨s₁, h₁, hw₁, hi₁, _, hsame, _, happ⟩ := MSet.add1_spec0 h v
    obtain ⟨s₂, h₂, hm₂⟩ := ih hw₁ (by rw [hi₁]; exact hl)
    refine ⟨s₂, by simp [MSet.add, h₁, h₂], ?_⟩
    rw [hm₂]
    simp only [Seq.insertAll, List.foldl_cons]
    congr 1
    unfold Seq.insert
    split
    · rename_i hm; rw [hsame hm]
    · rename_i hm; exact happ hm hl

/-- `Remove(vals...)`: exactly the old member list without the values, whatever the implementation -/
theorem MSet.remove_seq0 {s : MSet α} (h : WF0 s) (vs : List α) :
    ∃ s', s.remove vs = .ok s' ∧ s'.members = FSet.eraseAll s.members vs := by
  obtain ⟨s', h₁, _, _, hm, hsub⟩ := MSet.remove_spec0 h vs
  refine ⟨s', h₁, sublist_ext h.nodup hsub FSet.eraseAll_sublist (fun x => ?_)⟩
  rw [hm, FSet.mem_eraseAll]

omit [DecidableEq α] in
theorem exists_mem_map_members (sets : List (MSet α)) (p : List α → Prop) :
    (∃ b ∈ sets.map (·.members), p b) ↔ ∃ u ∈ sets, p u.members := by
  constructor
  · rintro ⟨b, hb, hp⟩
    obtain ⟨u, hu, rfl⟩ := List.mem_map.1 hb
    exact ⟨u, hu, hp⟩
  · rintro ⟨u, hu, hp⟩
    exact ⟨u.members, List.mem_map.2 ⟨u, hu, rfl⟩, hp⟩

omit [DecidableEq α] in
theorem forall_mem_map_members (sets : List (MSet α)) (p : List α → Prop) :
    (∀ b ∈ sets.map (·.members), p b) ↔ ∀ u ∈ sets, p u.members := by
  constructor
  · intro h u hu
    exact h u.members (List.mem_map.2 ⟨u, hu, rfl⟩)
  · intro h b hb
    obtain ⟨u, hu, rfl⟩ := List.mem_map.1 hb
    exact h u hu

end AlgoVerif.C16
