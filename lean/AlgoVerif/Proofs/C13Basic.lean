import AlgoVerif.Model.C13
import AlgoVerif.Spec.C13
/-! Helper lemmas for C13: sorted sets, association lists, the transition relations of the Model. -/
namespace AlgoVerif.C13
open AlgoVerif AlgoVerif.C13.Spec

/-! ### sorted sets -/

@[simp] theorem mem_sins {x y : Int} {l : List Int} : y ∈ sins x l ↔ y = x ∨ y ∈ l := by
  induction l with
  | nil => simp [sins]
  | cons z zs ih =>
    unfold sins
    split
    · simp
    · split
      · rename_i h; subst h; simp
      · simp [ih]; grind

@[simp] theorem mem_saddAll {y : Int} {xs s : List Int} : y ∈ saddAll s xs ↔ y ∈ s ∨ y ∈ xs := by
  induction xs generalizing s with
  | nil => simp [saddAll]
  | cons x xs ih =>
    simp only [saddAll, List.foldl_cons] at ih ⊢
    rw [ih]; simp; grind

@[simp] theorem mem_mkSet {y : Int} {xs : List Int} : y ∈ mkSet xs ↔ y ∈ xs := by simp [mkSet]

@[simp] theorem mem_sunion {y : Int} {a b : List Int} : y ∈ sunion a b ↔ y ∈ a ∨ y ∈ b := by simp [sunion]

@[simp] theorem mem_sdiff {y : Int} {a b : List Int} : y ∈ sdiff a b ↔ y ∈ a ∧ y ∉ b := by
  simp [sdiff]

/-- strictly increasing -/
def SSorted (l : List Int) : Prop := l.Pairwise (· < ·)

theorem ssorted_sins {x : Int} {l : List Int} (h : SSorted l) : SSorted (sins x l) := by
  induction l with
  | nil => simp [sins, SSorted]
  | cons z zs ih =>
    unfold sins
    simp only [SSorted, List.pairwise_cons] at h
    split
    · simp only [SSorted, List.pairwise_cons]
      refine ⟨?_, h⟩
      intro a ha; simp at ha; rcases ha with rfl | ha
      · assumption
      · have := h.1 a ha; omega
    · split
      · exact List.pairwise_cons.mpr h
      · simp only [SSorted, List.pairwise_cons]
        refine ⟨?_, ih h.2⟩
        intro a ha; simp at ha; rcases ha with rfl | ha
        · omega
        · exact h.1 a ha

theorem ssorted_saddAll {xs s : List Int} (h : SSorted s) : SSorted (saddAll s xs) := by
  induction xs generalizing s with
  | nil => simpa [saddAll]
  | cons x xs ih => simp only [saddAll, List.foldl_cons]; exact ih (ssorted_sins h)

theorem ssorted_mkSet (xs : List Int) : SSorted (mkSet xs) := ssorted_saddAll (by simp [SSorted])

theorem ssorted_nodup {l : List Int} (h : SSorted l) : l.Nodup := by
  unfold SSorted at h
  exact h.imp (fun hab => by omega)

/-- a strictly sorted list that is a subset of another is no longer -/
theorem ssorted_subset_length {a b : List Int} (ha : SSorted a) (hb : SSorted b)
    (hs : ∀ x ∈ a, x ∈ b) : a.length ≤ b.length := by
  induction b generalizing a with
  | nil => cases a with
    | nil => simp
    | cons x xs => exact absurd (hs x (by simp)) (by simp)
  | cons y b ih =>
    cases a with
    | nil => simp
    | cons x a' =>
      simp only [SSorted, List.pairwise_cons] at ha hb
      by_cases hxy : x = y
      · subst hxy
        have : a'.length ≤ b.length := ih ha.2 hb.2 (fun z hz => by
          have h1 := hs z (by simp [hz])
          have h2 := ha.1 z hz
          simp at h1; rcases h1 with rfl | h1
          · omega
          · exact h1)
        simp; omega
      · have hxb : x ∈ b := by
          have := hs x (by simp); simp at this; rcases this with h | h
          · exact absurd h hxy
          · exact h
        have hyx : y < x := hb.1 x hxb
        have : (x :: a').length ≤ b.length := ih (List.pairwise_cons.mpr ha) hb.2 (fun z hz => by
          have h1 := hs z hz
          simp at hz
          have : y < z := by
            rcases hz with rfl | hz
            · exact hyx
            · have := ha.1 z hz; omega
          simp at h1; rcases h1 with rfl | h1
          · omega
          · exact h1)
        simp at this ⊢; omega

/-- two strictly sorted lists with the same members are equal -/
theorem ssorted_ext {a b : List Int} (ha : SSorted a) (hb : SSorted b)
    (h : ∀ x, x ∈ a ↔ x ∈ b) : a = b := by
  induction a generalizing b with
  | nil => cases b with
    | nil => rfl
    | cons y b => exact absurd ((h y).2 (by simp)) (by simp)
  | cons x a ih =>
    cases b with
    | nil => exact absurd ((h x).1 (by simp)) (by simp)
    | cons y b =>
      simp only [SSorted, List.pairwise_cons] at ha hb
      have hxy : x = y := by
        have h1 := (h x).1 (by simp)
        have h2 := (h y).2 (by simp)
        simp at h1 h2
        rcases h1 with h1 | h1
        · exact h1
        · rcases h2 with h2 | h2
          · exact h2.symm
          · have := hb.1 x h1; have := ha.1 y h2; omega
      subst hxy
      congr 1
      apply ih ha.2 hb.2
      intro z
      have hz := h z
      simp at hz
      constructor
      · intro hza
        have := ha.1 z hza
        rcases hz.1 (Or.inr hza) with rfl | h'
        · omega
        · exact h'
      · intro hzb
        have := hb.1 z hzb
        rcases hz.2 (Or.inr hzb) with rfl | h'
        · omega
        · exact h'

/-- `setEq` on strictly sorted lists is equality -/
theorem setEq_iff {a b : List Int} (ha : SSorted a) (hb : SSorted b) : setEq a b = true ↔ a = b := by
  constructor
  · intro h
    simp [setEq] at h
    obtain ⟨hl, hs⟩ := h
    apply ssorted_ext ha hb
    intro x
    constructor
    · exact hs x
    · intro hxb
      -- a ⊆ b, |a| = |b|: if x ∈ b \ a then a ⊆ b.erase x, which is shorter
      by_cases hxa : x ∈ a
      · exact hxa
      · exfalso
        have hb' : SSorted (b.filter (· ≠ x)) := List.Pairwise.filter _ hb
        have hsub : ∀ z ∈ a, z ∈ b.filter (· ≠ x) := by
          intro z hz; simp; exact ⟨hs z hz, fun h => hxa (h ▸ hz)⟩
        have h1 := ssorted_subset_length ha hb' hsub
        have h2 : (b.filter (· ≠ x)).length < b.length := by
          have := List.length_filter_lt_length_iff_exists (p := (· ≠ x)) (l := b)
          apply this.2
          exact ⟨x, hxb, by simp⟩
        omega
  · rintro rfl
    simp [setEq]

theorem setEq_refl (a : List Int) : setEq a a = true := by simp [setEq]

/-! ### association lists -/

/-- keys strictly increasing -/
def ASorted {β : Type} (l : List (Int × β)) : Prop := (l.map (·.1)).Pairwise (· < ·)

theorem aget_aput_self {β : Type} (k : Int) (v : β) (l : List (Int × β)) : aget k (aput k v l) = some v := by
  induction l with
  | nil => simp [aput, aget]
  | cons p r ih =>
    obtain ⟨k', v'⟩ := p
    unfold aput
    split
    · simp [aget]
    · split
      · simp [aget]
      · rename_i h1 h2; simp [aget, h2, ih]

theorem aget_aput_ne {β : Type} {k k' : Int} (v : β) (l : List (Int × β)) (h : k' ≠ k) :
    aget k' (aput k v l) = aget k' l := by
  induction l with
  | nil => simp [aput, aget, h]
  | cons p r ih =>
    obtain ⟨k2, v2⟩ := p
    unfold aput
    split
    · simp [aget, h]
    · split
      · rename_i h1 h2; subst h2; simp [aget, h]
      · simp [aget, ih]

theorem aget_aput {β : Type} (k k' : Int) (v : β) (l : List (Int × β)) :
    aget k' (aput k v l) = if k' = k then some v else aget k' l := by
  split
  · rename_i h; subst h; exact aget_aput_self _ _ _
  · exact aget_aput_ne _ _ ‹_›

theorem asorted_aput {β : Type} {k : Int} {v : β} {l : List (Int × β)} (h : ASorted l) : ASorted (aput k v l) := by
  induction l with
  | nil => simp [aput, ASorted]
  | cons p r ih =>
    obtain ⟨k', v'⟩ := p
    simp only [ASorted, List.map_cons, List.pairwise_cons] at h
    unfold aput
    split
    · simp only [ASorted, List.map_cons, List.pairwise_cons]
      refine ⟨?_, h⟩
      intro a ha; simp at ha; rcases ha with rfl | ⟨b, hb⟩
      · assumption
      · have := h.1 a (by simp; exact ⟨b, hb⟩); omega
    · split
      · rename_i h1 h2; subst h2
        simp only [ASorted, List.map_cons, List.pairwise_cons]; exact h
      · simp only [ASorted, List.map_cons, List.pairwise_cons]
        refine ⟨?_, ih h.2⟩
        intro a ha
        simp at ha
        obtain ⟨b, hb⟩ := ha
        -- keys of aput are k or keys of r
        have : a = k ∨ a ∈ r.map (·.1) := by
          clear ih h
          induction r with
          | nil => simp [aput] at hb; left; exact hb.1
          | cons q r ih2 =>
            obtain ⟨k3, v3⟩ := q
            unfold aput at hb
            split at hb
            · simp at hb; rcases hb with hb | hb | hb
              · left; exact hb.1
              · right; simp; left; exact hb.1
              · right; simp; right; exact ⟨b, hb⟩
            · split at hb
              · simp at hb; rcases hb with hb | hb
                · left; exact hb.1
                · right; simp; right; exact ⟨b, hb⟩
              · simp at hb; rcases hb with hb | hb
                · right; simp; left; exact hb.1
                · rcases ih2 hb with h' | h'
                  · left; exact h'
                  · right; simp at h' ⊢; right; exact h'
        rcases this with rfl | h'
        · omega
        · exact h.1 a h'

/-- in a key-sorted list, membership of a pair is `aget` -/
theorem mem_iff_aget {β : Type} {l : List (Int × β)} (h : ASorted l) (k : Int) (v : β) :
    (k, v) ∈ l ↔ aget k l = some v := by
  induction l with
  | nil => simp [aget]
  | cons p r ih =>
    obtain ⟨k', v'⟩ := p
    simp only [ASorted, List.map_cons, List.pairwise_cons] at h
    simp only [List.mem_cons, aget]
    split
    · rename_i hk; subst hk
      constructor
      · rintro (h1 | h1)
        · simp at h1; simp [h1]
        · have := h.1 k (by simp; exact ⟨v, h1⟩); omega
      · intro h1; simp at h1; left; simp [h1]
    · rename_i hk
      rw [← ih h.2]
      constructor
      · rintro (h1 | h1)
        · simp at h1; exact absurd h1.1 hk
        · exact h1
      · intro h1; right; exact h1

theorem aget_mem {β : Type} {l : List (Int × β)} {k : Int} {v : β} (h : aget k l = some v) : (k, v) ∈ l := by
  induction l with
  | nil => simp [aget] at h
  | cons p r ih =>
    obtain ⟨k', v'⟩ := p
    simp only [aget] at h
    split at h
    · rename_i hk; subst hk; simp at h; simp [h]
    · simp [ih h]

end AlgoVerif.C13
