import AlgoVerif.Proofs.C08LeftRecMain
import AlgoVerif.Proofs.C09EmptyValid
/-!
# The result of `EliminateLeftRecursion` passes `Verify()` when `L(G) ≠ ∅`

The result is `prune` of something well-formed (`elimLeftRec_wf`), so every declared non-terminal other than
the start symbol has a production (`prune_done`); the start symbol has one because the language is preserved
(`elimLeftRec_language`) and a sentence exists.
-/
namespace AlgoVerif.C08
open AlgoVerif AlgoVerif.Gram AlgoVerif.C08.Spec

theorem elimLeftRec_valid {g g' : G} (h : elimLeftRec g = .ok g') (hv : Valid g) (hl : ∃ w, Language g w) :
    Valid g' := by
  have hwf := elimLeftRec_wf h hv.wellFormed
  obtain ⟨w, hw⟩ := hl
  have hl' : ∃ w, Language g' w := ⟨w, (elimLeftRec_language h hv.wellFormed w).mpr hw⟩
  obtain ⟨g0, nts, g1, _, _, _, rfl⟩ := elimLeftRec_ok h
  exact valid_of_pruned hwf (prune_done _) hl'

end AlgoVerif.C08
