import AlgoVerif.Proofs.C09Valid
/-!
# Totality, part 1: the fixpoint loops never run out of fuel

`iterFix f fuel x` returns when `f` is inflationary for a measure bounded by `B` and `fuel > B - μ x`.
For the list-valued passes the measure is the length: the lists stay duplicate-free and inside a fixed
universe, so their length is bounded by the universe's (pigeonhole).
-/
namespace AlgoVerif.C08
open AlgoVerif AlgoVerif.Gram AlgoVerif.C08.Spec

theorem iterFix_total {α : Type} [DecidableEq α] (f : α → α) (μ : α → Nat) (B : Nat) (P : α → Prop)
    (hP : ∀ a, P a → P (f a)) (hμ : ∀ a, P a → μ a ≤ B) (hinc : ∀ a, P a → f a ≠ a → μ a < μ (f a)) :
    ∀ (n : Nat) (x : α), P x → B - μ x < n → ∃ y, iterFix f n x = some y := by
  intro n
  induction n with
  | zero => intro x _ h; omega
  | succ n ih =>
    intro x hx hn
    simp only [iterFix]
    by_cases hfx : f x = x
    · exact ⟨x, by simp [hfx]⟩
    · simp only [hfx, if_false]
      have h1 := hinc x hx hfx
      have h2 := hμ (f x) (hP x hx)
      exact ih (f x) (hP x hx) (by omega)

/-- pigeonhole: a duplicate-free list inside `m` is not longer than `m` -/
theorem nodup_subset_length {α : Type} [DecidableEq α] : ∀ (l m : List α), l.Nodup → (∀ x ∈ l, x ∈ m) → l.length ≤ m.length := by
  intro l
  induction l with
  | nil => intro m _ _; simp
  | cons a l ih =>
    intro m hnd hsub
    obtain ⟨ha, hl⟩ := List.nodup_cons.mp hnd
    have ham : a ∈ m := hsub a (List.mem_cons_self ..)
    have := ih (m.erase a) hl (by
      intro x hx
      have hxm := hsub x (List.mem_cons_of_mem _ hx)
      have hxa : x ≠ a := fun e => ha (e ▸ hx)
      exact (List.mem_erase_of_ne hxa).mpr hxm)
    rw [List.length_erase_of_mem ham] at this
    have : 0 < m.length := List.length_pos_of_mem ham
    simp only [List.length_cons]
    omega

theorem ins_nodup {α : Type} [DecidableEq α] {l : List α} (h : l.Nodup) (x : α) : (ins l x).Nodup := by
  unfold ins
  split
  · exact h
  · rename_i hx
    exact List.nodup_append.mpr ⟨h, by simp, by
      intro a ha b hb
      simp at hb
      subst hb
      exact fun e => hx (e ▸ ha)⟩

theorem insAll_nodup {α : Type} [DecidableEq α] {l : List α} (h : l.Nodup) (xs : List α) : (insAll l xs).Nodup := by
  unfold insAll
  induction xs generalizing l with
  | nil => exact h
  | cons x xs ih => exact ih (ins_nodup h x)

theorem prefix_ne_length {α : Type} {l l' : List α} (hp : l <+: l') (hne : l' ≠ l) : l.length < l'.length := by
  have := hp.length_le
  rcases Nat.lt_or_ge l.length l'.length with h | h
  · exact h
  · exact absurd (hp.eq_of_length (by omega)).symm hne

/-- a duplicate-free, universe-bounded, prefix-extending pass reaches its fixpoint within the fuel -/
theorem iterFix_list_total {α : Type} [DecidableEq α] (f : List α → List α) (U : List α)
    (hpre : ∀ l, l <+: f l) (hnd : ∀ l, l.Nodup → (f l).Nodup)
    (hsub : ∀ l, (∀ x ∈ l, x ∈ U) → ∀ x ∈ f l, x ∈ U)
    (x : List α) (hx : x.Nodup) (hxU : ∀ a ∈ x, a ∈ U) (n : Nat) (hn : U.length < n) :
    ∃ y, iterFix f n x = some y := by
  refine iterFix_total f List.length U.length (fun l => l.Nodup ∧ ∀ a ∈ l, a ∈ U) ?_ ?_ ?_ n x ⟨hx, hxU⟩ (by omega)
  · intro a ⟨h1, h2⟩; exact ⟨hnd a h1, hsub a h2⟩
  · intro a ⟨h1, h2⟩; exact nodup_subset_length a U h1 h2
  · intro a _ hne; exact prefix_ne_length (hpre a) hne

/-! ## `nullable` -/

theorem nullablePass_prefix (ps : List SProd) (nul : List String) : nul <+: nullablePass ps nul := by
  unfold nullablePass
  apply foldl_prefix
  intro l p
  split
  · exact List.prefix_refl _
  · split
    · exact List.prefix_append _ _
    · exact List.prefix_refl _

theorem nullable_total (g : G) : ∃ nul, nullable g = .ok nul := by
  unfold nullable
  have := iterFix_list_total (nullablePass g.prods) (g.prods.map (fun p => p.head))
    (nullablePass_prefix g.prods) ?_ ?_ [] List.nodup_nil (by intro a ha; cases ha) (g.prods.length + 2) (by simp)
  · obtain ⟨y, hy⟩ := this
    exact ⟨y, by rw [hy]; rfl⟩
  · intro l hl
    unfold nullablePass
    refine foldl_inv List.Nodup _ g.prods ?_ l hl
    intro acc p _ hacc
    split
    · exact hacc
    · split
      · rename_i hh _
        exact List.nodup_append.mpr ⟨hacc, by simp, by
          intro a ha b hb
          simp at hb
          subst hb
          exact fun e => hh (e ▸ ha)⟩
      · exact hacc
  · intro l hl
    unfold nullablePass
    refine foldl_inv (fun l => ∀ x ∈ l, x ∈ g.prods.map (fun p => p.head)) _ g.prods ?_ l hl
    intro acc p hp hacc
    split
    · exact hacc
    · split
      · intro x hx
        rcases List.mem_append.mp hx with hx | hx
        · exact hacc x hx
        · simp at hx; subst hx
          exact List.mem_map.mpr ⟨p, hp, rfl⟩
      · exact hacc

/-! ## `reachable` / `orderNT` -/

/-- the non-terminals a reachability pass over `ps` can add -/
def bodyUniverse (ps : List SProd) : List String := ps.flatMap (fun p => bodyNTs p.body)

theorem bodyNTs_length (b : List SSym) : (bodyNTs b).length ≤ b.length := by
  unfold bodyNTs
  exact List.length_filterMap_le _ _

theorem bodyUniverse_length (ps : List SProd) : ∀ a : Nat,
    a + (bodyUniverse ps).length ≤ ps.foldl (fun a p => a + p.body.length + 1) a := by
  induction ps with
  | nil => intro a; simp [bodyUniverse]
  | cons p ps ih =>
    intro a
    simp only [List.foldl_cons, bodyUniverse, List.flatMap_cons, List.length_append]
    have := ih (a + p.body.length + 1)
    have h2 := bodyNTs_length p.body
    unfold bodyUniverse at this
    omega

theorem reachLike_total (ps : List SProd) (start : String) (n : Nat) (hn : (bodyUniverse ps).length + 1 < n) :
    ∃ y, iterFix (reachPass ps) n [start] = some y := by
  refine iterFix_list_total (reachPass ps) (start :: bodyUniverse ps) (reachPass_prefix ps) ?_ ?_ [start]
    (by simp) (by intro a ha; simp at ha; subst ha; simp) n (by simpa using hn)
  · intro l hl
    unfold reachPass
    refine foldl_inv List.Nodup _ ps ?_ l hl
    intro acc p _ hacc
    split
    · exact insAll_nodup hacc _
    · exact hacc
  · intro l hl
    unfold reachPass
    refine foldl_inv (fun l => ∀ x ∈ l, x ∈ start :: bodyUniverse ps) _ ps ?_ l hl
    intro acc p hp hacc
    split
    · intro x hx
      rcases mem_insAll.mp hx with hx | hx
      · exact hacc x hx
      · exact List.mem_cons_of_mem _ (List.mem_flatMap.mpr ⟨p, hp, hx⟩)
    · exact hacc

theorem reachable_total (g : G) : ∃ r, reachable g = .ok r := by
  unfold reachable
  have hb : (bodyUniverse g.prods).length ≤ sizeOf g := by
    have := bodyUniverse_length g.prods 0
    simp only [Nat.zero_add] at this
    exact Nat.le_trans this (Nat.le_add_left _ _)
  obtain ⟨y, hy⟩ := reachLike_total g.prods g.start (sizeOf g + 2) (by omega)
  exact ⟨y, by rw [hy]; rfl⟩

theorem elimUnreachable_total (g : G) : ∃ g', elimUnreachable g = .ok g' := by
  obtain ⟨r, hr⟩ := reachable_total g
  unfold elimUnreachable
  rw [hr]
  exact ⟨_, rfl⟩

end AlgoVerif.C08
