import AlgoVerif.Proofs.C16Algebra
/-!
# C16 helper lemmas, part 5: `Powerset`

The power set is an unordered set of set objects whose `equal` callback is `Set.Equal`; its elements are
compared modulo "same members" (`SetEq`) and have to be well-formed set objects for that callback to
behave (`dom` = `WF0`).
-/
namespace AlgoVerif.C16
variable {α : Type} {σ : Type}

/-- same members -/
def SetEq (a b : MSet α) : Prop := ∀ x, x ∈ a.members ↔ x ∈ b.members

theorem setEq_equivalence : Equivalence (@SetEq α) :=
  ⟨fun _ _ => Iff.rfl, fun h x => (h x).symm, fun h₁ h₂ x => (h₁ x).trans (h₂ x)⟩

/-- `Set.Equal` decides `SetEq` on well-formed sets of plain values -/
theorem setEqFunc_law : EqLaw (WF0 (α := α)) SetEq setEqFunc := by
  intro a b ha hb
  exact MSet.equal_spec0 ha hb

/-- a well-formed set of sets of plain values -/
abbrev WF1 (PS : MSet (MSet α)) : Prop := WF WF0 SetEq PS

theorem wf1_new : WF1 (MSet.new (.unordered (setEqFunc (α := α)))) :=
  ⟨by simp [MSet.new], by simp [MSet.new], setEqFunc_law, fun c hc => by cases hc⟩

theorem wf0_cloneEmpty {s : MSet α} (h : WF0 s) : WF0 s.cloneEmpty :=
  ⟨by simp [MSet.cloneEmpty], by simp [MSet.cloneEmpty], h.law, fun c _ => by simp [MSet.cloneEmpty, SortedBy]⟩

/-- adding a set that is not yet there (modulo `SetEq`) to an unordered set of sets appends it -/
theorem add_new_unordered {PS : MSet (MSet α)} (h : WF1 PS) (himpl : PS.impl = .unordered setEqFunc)
    {T : MSet α} (hT : WF0 T) (hnew : ∀ Y ∈ PS.members, ¬ SetEq Y T) :
    ∃ PS', PS.add [T] = .ok PS' ∧ WF1 PS' ∧ PS'.impl = PS.impl ∧ PS'.members = PS.members ++ [T] := by
  obtain ⟨PS', h₁, hw, hi, hcase⟩ := MSet.add1_spec setEq_equivalence h hT
  refine ⟨PS', by rw [MSet.add_singleton]; exact h₁, hw, hi, ?_⟩
  rcases hcase with ⟨⟨Y, hY, hYT⟩, _⟩ | ⟨_, l₁, l₂, hs, hs', hl⟩
  · exact absurd hYT (hnew Y hY)
  · have : l₂ = [] := hl (by rw [himpl]; rfl)
    subst this
    rw [hs', hs]; simp

theorem powersetLoop_spec {sh : Shuffle σ} (hsh : ShLaw sh) {head : MSet α} (hh : WF0 head) {m0 : α}
    (hhm : ∀ x, x ∈ head.members ↔ x = m0) :
    ∀ (todo : List (MSet α)), (∀ T ∈ todo, WF0 T) → (∀ T ∈ todo, m0 ∉ T.members) →
      todo.Pairwise (fun a b => ¬ SetEq a b) →
    ∀ (PS : MSet (MSet α)), WF1 PS → PS.impl = .unordered setEqFunc →
      (∀ Y ∈ PS.members, ∀ T ∈ todo, ¬ SetEq Y T ∧ ¬ (∀ x, x ∈ Y.members ↔ x = m0 ∨ x ∈ T.members)) →
    ∀ g, ∃ PS' g', powersetLoop sh head PS todo g = .ok (PS', g') ∧ WF1 PS' ∧ PS'.impl = PS.impl ∧
      PS'.members.length = PS.members.length + 2 * todo.length ∧
      (∀ Y ∈ PS.members, Y ∈ PS'.members) ∧
      (∀ T ∈ todo, T ∈ PS'.members ∧ ∃ U ∈ PS'.members, ∀ x, x ∈ U.members ↔ x = m0 ∨ x ∈ T.members) ∧
      (∀ Y ∈ PS'.members, Y ∈ PS.members ∨ ∃ T ∈ todo, Y = T ∨ ∀ x, x ∈ Y.members ↔ x = m0 ∨ x ∈ T.members)
  | [], _, _, _, PS, hPS, _, _, g =>
    ⟨PS, g, rfl, hPS, rfl, by simp, fun _ h => h, by simp, fun Y hY => .inl hY⟩
  | T :: rest, hwf, hm0, hpw, PS, hPS, himpl, hfresh, g => by
    have hT : WF0 T := hwf T (List.mem_cons_self ..)
    have hm0T : m0 ∉ T.members := hm0 T (List.mem_cons_self ..)
    have hpw' := List.pairwise_cons.1 hpw
    -- PS.Add(subset)
    obtain ⟨PS₁, h₁, hw₁, hi₁, hmem₁⟩ := add_new_unordered hPS himpl hT
      (fun Y hY => (hfresh Y hY T (List.mem_cons_self ..)).1)
    -- head.Union(subset)
    obtain ⟨u, g₁, hu, hwu, _, hmu, _⟩ := MSet.union_spec0 hsh hh [T] g
    have hmu' : ∀ x, x ∈ u.members ↔ x = m0 ∨ x ∈ T.members := by
      intro x; rw [hmu, hhm]; simp
    -- PS.Add(head.Union(subset))
    obtain ⟨PS₂, h₂, hw₂, hi₂, hmem₂⟩ := add_new_unordered hw₁ (hi₁.trans himpl) hwu (by
      intro Y hY hYu
      rw [hmem₁] at hY
      rcases List.mem_append.1 hY with hY | hY
      · exact (hfresh Y hY T (List.mem_cons_self ..)).2 (fun x => (hYu x).trans (hmu' x))
      · simp at hY; subst hY
        exact hm0T ((hYu m0).2 ((hmu' m0).2 (.inl rfl))))
    have hmem₂' : PS₂.members = PS.members ++ [T, u] := by rw [hmem₂, hmem₁]; simp
    obtain ⟨PS', g', h', hw', hi', hlen', hkeep', hall', hfrom'⟩ :=
      powersetLoop_spec hsh hh hhm rest (fun T' hT' => hwf T' (List.mem_cons_of_mem _ hT'))
        (fun T' hT' => hm0 T' (List.mem_cons_of_mem _ hT')) hpw'.2 PS₂ hw₂ ((hi₂.trans hi₁).trans himpl) (by
          intro Y hY T' hT'
          have hm0T' : m0 ∉ T'.members := hm0 T' (List.mem_cons_of_mem _ hT')
          rw [hmem₂'] at hY
          rcases List.mem_append.1 hY with hY | hY
          · exact hfresh Y hY T' (List.mem_cons_of_mem _ hT')
          · simp at hY
            rcases hY with rfl | rfl
            · exact ⟨hpw'.1 T' hT', fun h => hm0T ((h m0).2 (.inl rfl))⟩
            · refine ⟨fun h => hm0T' ((h m0).1 ((hmu' m0).2 (.inl rfl))), fun h => hpw'.1 T' hT' ?_⟩
              intro x
              have hx := (hmu' x).symm.trans (h x)
              constructor
              · intro hxT
                rcases hx.1 (.inr hxT) with rfl | hxT'
                · exact absurd hxT hm0T
                · exact hxT'
              · intro hxT'
                rcases hx.2 (.inr hxT') with rfl | hxT
                · exact absurd hxT' hm0T'
                · exact hxT) g₁
    refine ⟨PS', g', ?_, hw', hi'.trans ((hi₂.trans hi₁)), ?_, ?_, ?_, ?_⟩
    · simp [powersetLoop, h₁, hu, h₂, h']
    · rw [hlen', hmem₂']; simp only [List.length_append, List.length_cons, List.length_nil]; omega
    · intro Y hY; exact hkeep' Y (by rw [hmem₂']; exact List.mem_append_left _ hY)
    · intro T' hT'
      rcases List.mem_cons.1 hT' with rfl | hT'
      · exact ⟨hkeep' _ (by rw [hmem₂']; simp), u, hkeep' u (by rw [hmem₂']; simp), hmu'⟩
      · exact hall' T' hT'
    · intro Y hY
      rcases hfrom' Y hY with hY | ⟨T', hT', hY⟩
      · rw [hmem₂'] at hY
        rcases List.mem_append.1 hY with hY | hY
        · exact .inl hY
        · simp at hY
          rcases hY with rfl | rfl
          · exact .inr ⟨_, List.mem_cons_self .., .inl rfl⟩
          · exact .inr ⟨T, List.mem_cons_self .., .inr hmu'⟩
      · exact .inr ⟨T', List.mem_cons_of_mem _ hT', hY⟩

/-- what `Powerset(s)` has to return -/
structure PSpec (s : MSet α) (PS : MSet (MSet α)) : Prop where
  wf : WF1 PS
  impl : PS.impl = .unordered setEqFunc
  sound : ∀ T ∈ PS.members, ∀ x ∈ T.members, x ∈ s.members
  complete : ∀ p : α → Prop, ∃ T ∈ PS.members, ∀ x, x ∈ T.members ↔ x ∈ s.members ∧ p x
  card : PS.members.length = 2 ^ s.members.length

theorem eq_singleton_of_length_of_mem {l : List α} {a : α} (hl : l.length = 1) (ha : a ∈ l) : l = [a] := by
  match l, hl, ha with
  | [b], _, ha => simp at ha; rw [ha]

theorem powerset_spec {sh : Shuffle σ} (hsh : ShLaw sh) : ∀ (fuel : Nat) (s : MSet α), WF0 s → ∀ g,
    s.members.length < fuel → ∃ PS g', powerset sh fuel s g = .ok (PS, g') ∧ PSpec s PS
  | 0, _, _, _, hf => by omega
  | fuel + 1, s, hs, g, hf => by
    unfold powerset
    by_cases hsz : s.size = 0
    · have hnil : s.members = [] := by
        simp only [MSet.size] at hsz
        exact List.eq_nil_of_length_eq_zero (by omega)
      obtain ⟨PS, h₁, hw, hi, hmem⟩ := add_new_unordered wf1_new rfl (wf0_cloneEmpty hs) (by simp [MSet.new])
      refine ⟨PS, g, by simp [hsz, h₁], hw, hi, ?_, ?_, ?_⟩
      · intro T hT x hx
        rw [hmem] at hT; simp [MSet.new] at hT; subst hT
        simp [MSet.cloneEmpty] at hx
      · intro p
        refine ⟨s.cloneEmpty, by rw [hmem]; simp, fun x => ?_⟩
        simp [MSet.cloneEmpty, hnil]
      · rw [hmem, hnil]; simp [MSet.new]
    · obtain ⟨members, g₁, ha, hp, _⟩ := MSet.all_spec hsh s g
      have hlen := hp.length_eq
      cases members with
      | nil =>
        exfalso
        simp only [MSet.size] at hsz
        simp at hlen
        omega
      | cons m0 ms =>
        have hnd : (m0 :: ms).Nodup := hp.symm.nodup hs.nodup
        have hnd' := List.nodup_cons.1 hnd
        have hmem_s : ∀ x, x ∈ s.members ↔ x = m0 ∨ x ∈ ms := by
          intro x
          exact ⟨fun h => List.mem_cons.1 (hp.symm.subset h), fun h => hp.subset (List.mem_cons.2 h)⟩
        -- head.Add(members[0])
        obtain ⟨head, hh₁, hhw, _, hhm, _, hhlen, _⟩ := MSet.add1_spec0 (wf0_cloneEmpty hs) m0
        have hhm' : ∀ x, x ∈ head.members ↔ x = m0 := by
          intro x; rw [hhm]; simp [MSet.cloneEmpty]
        -- tail.Add(members[1:]...)
        obtain ⟨tail, ht₁, htw, _, htm⟩ := MSet.add_spec0 (wf0_cloneEmpty hs) ms
        have htm' : ∀ x, x ∈ tail.members ↔ x ∈ ms := by
          intro x; rw [htm]; simp [MSet.cloneEmpty]
        have htlen : tail.members.length = ms.length :=
          ((List.perm_ext_iff_of_nodup htw.nodup hnd'.2).2 htm').length_eq
        simp only [List.length_cons] at hlen
        -- Powerset(tail)
        obtain ⟨sub, g₂, hsub, hspec⟩ := powerset_spec hsh fuel tail htw g₁ (by omega)
        obtain ⟨subsets, g₃, hall, hperm, _⟩ := MSet.all_spec hsh sub g₂
        have hsubsets_wf : ∀ T ∈ subsets, WF0 T := fun T hT => hspec.wf.mem_dom T (hperm.subset hT)
        have hsubsets_m0 : ∀ T ∈ subsets, m0 ∉ T.members := by
          intro T hT hm
          exact hnd'.1 ((htm' m0).1 (hspec.sound T (hperm.subset hT) m0 hm))
        have hsubsets_pw : subsets.Pairwise (fun a b => ¬ SetEq a b) :=
          (hperm.pairwise_iff (fun h h' => h (setEq_equivalence.symm h'))).2 hspec.wf.nodup
        obtain ⟨PS, g₄, hloop, hw, hi, hlen', _, hall', hfrom'⟩ :=
          powersetLoop_spec hsh hhw hhm' subsets hsubsets_wf hsubsets_m0 hsubsets_pw
            (MSet.new (.unordered setEqFunc)) wf1_new rfl (by simp [MSet.new]) g₃
        refine ⟨PS, g₄, ?_, hw, hi, ?_, ?_, ?_⟩
        · simp only [hsz, ↓reduceIte, ha, ok_bind]
          simp only [MSet.add_singleton, hh₁, ht₁, hsub, hall, ok_bind]
          exact hloop
        · intro Y hY x hx
          rcases hfrom' Y hY with h | ⟨T, hT, rfl | hYT⟩
          · simp [MSet.new] at h
          · exact (hmem_s x).2 (.inr ((htm' x).1 (hspec.sound Y (hperm.subset hT) x hx)))
          · rcases (hYT x).1 hx with rfl | hxT
            · exact (hmem_s x).2 (.inl rfl)
            · exact (hmem_s x).2 (.inr ((htm' x).1 (hspec.sound T (hperm.subset hT) x hxT)))
        · intro p
          obtain ⟨T, hT, hTp⟩ := hspec.complete p
          have hT' : T ∈ subsets := hperm.symm.subset hT
          obtain ⟨hTPS, U, hU, hUm⟩ := hall' T hT'
          by_cases hp0 : p m0
          · refine ⟨U, hU, fun x => ?_⟩
            rw [hUm, hTp, hmem_s, htm']
            constructor
            · rintro (rfl | ⟨h, hpx⟩)
              · exact ⟨.inl rfl, hp0⟩
              · exact ⟨.inr h, hpx⟩
            · rintro ⟨rfl | h, hpx⟩
              · exact .inl rfl
              · exact .inr ⟨h, hpx⟩
          · refine ⟨T, hTPS, fun x => ?_⟩
            rw [hTp, hmem_s, htm']
            constructor
            · rintro ⟨h, hpx⟩; exact ⟨.inr h, hpx⟩
            · rintro ⟨rfl | h, hpx⟩
              · exact absurd hpx hp0
              · exact ⟨h, hpx⟩
        · rw [hlen', hperm.length_eq, hspec.card, htlen, ← hlen]
          simp [MSet.new, Nat.pow_succ]
          omega

end AlgoVerif.C16
