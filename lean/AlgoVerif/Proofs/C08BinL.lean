import AlgoVerif.Proofs.C08Bin
/-!
# BIN: the loops of `cnfBin`, language, well-formedness
-/
namespace AlgoVerif.C08
open AlgoVerif AlgoVerif.Gram AlgoVerif.C08.Spec

/-! ## sorting and deduplication keep the members -/

theorem mem_insertBy {α : Type} (lt : α → α → Bool) (x y : α) (l : List α) : y ∈ insertBy lt x l ↔ y = x ∨ y ∈ l := by
  induction l with
  | nil => simp [insertBy]
  | cons a l ih =>
    simp only [insertBy]
    split
    · simp
    · simp only [List.mem_cons, ih]
      constructor
      · rintro (h | h | h)
        · exact Or.inr (Or.inl h)
        · exact Or.inl h
        · exact Or.inr (Or.inr h)
      · rintro (h | h | h)
        · exact Or.inr (Or.inl h)
        · exact Or.inl h
        · exact Or.inr (Or.inr h)

theorem mem_sortBy {α : Type} (lt : α → α → Bool) (l : List α) (y : α) : y ∈ sortBy lt l ↔ y ∈ l := by
  unfold sortBy
  have : ∀ (l acc : List α), y ∈ l.foldl (fun acc x => insertBy lt x acc) acc ↔ y ∈ acc ∨ y ∈ l := by
    intro l
    induction l with
    | nil => intro acc; simp
    | cons a l ih =>
      intro acc
      simp only [List.foldl_cons, ih, mem_insertBy, List.mem_cons]
      constructor
      · rintro ((h | h) | h)
        · exact Or.inr (Or.inl h)
        · exact Or.inl h
        · exact Or.inr (Or.inr h)
      · rintro (h | h | h)
        · exact Or.inl (Or.inr h)
        · exact Or.inl (Or.inl h)
        · exact Or.inr h
  simpa using this l []

theorem mem_dedup {α : Type} [DecidableEq α] (l : List α) (y : α) : y ∈ dedup l ↔ y ∈ l := by
  unfold dedup
  rw [mem_insAll]
  simp

theorem mem_headsOf {ps : List SProd} {p : SProd} (h : p ∈ ps) : p.head ∈ headsOf ps := by
  unfold headsOf
  rw [mem_dedup]
  exact List.mem_map.mpr ⟨p, h, rfl⟩

/-! ## the loops -/

def binProdStep (A : String) (ng : G) (p : SProd) : Outcome G :=
  if isTerminalProd p || isBinary p || p.body.isEmpty || isSingle p then pure { ng with prods := ins ng.prods p }
  else binChain A (p.body.length + 1) A p.body ng

def binHeadStep (g : G) (ng : G) (A : String) : Outcome G :=
  (sortBy prodLt (prodsOf g.prods A)).foldlM (binProdStep A) ng

theorem cnfBin_eq (g : G) : cnfBin g = (headsOf g.prods).foldlM (binHeadStep g) ({ g with prods := [] } : G) := rfl

/-- the image of an original production -/
def BinImg (g ng : G) (defs : Defs) (p : SProd) : Prop :=
  (binSkip p = true ∧ p ∈ ng.prods) ∨ (binSkip p = false ∧ HasLink g ng defs p.head p.body)

/-- invariant between productions: core, every recorded name has its link, the productions in `S` have images -/
def BinInv (g : G) (S : SProd → Prop) (ng : G) : Prop :=
  ∃ defs, BinCore g ng defs ∧ (∀ d ∈ defs, HasLink g ng defs d.1 d.2) ∧ ∀ p, S p → BinImg g ng defs p

theorem BinInv.weaken {g ng : G} {S S' : SProd → Prop} (h : BinInv g S ng) (hs : ∀ p, S' p → S p) : BinInv g S' ng := by
  obtain ⟨defs, h1, h2, h3⟩ := h
  exact ⟨defs, h1, h2, fun p hp => h3 p (hs p hp)⟩

theorem BinImg.mono {g ng ng' : G} {defs defs' : Defs} (hp : ∀ p ∈ ng.prods, p ∈ ng'.prods)
    (hs : ∀ d ∈ defs, d ∈ defs') {p : SProd} (h : BinImg g ng defs p) : BinImg g ng' defs' p := by
  rcases h with ⟨h1, h2⟩ | ⟨h1, h2⟩
  · exact Or.inl ⟨h1, hp p h2⟩
  · exact Or.inr ⟨h1, h2.mono hp hs⟩

theorem two_le_of_not_skip {p : SProd} (h : binSkip p = false) : 2 ≤ p.body.length := by
  unfold binSkip isTerminalProd isBinary isSingle at h
  match hb : p.body with
  | [] => rw [hb] at h; simp at h
  | [s] =>
    rw [hb] at h
    cases s <;> simp at h
  | _ :: _ :: _ => simp

theorem binProdStep_inv {g : G} (hw : WellFormed g) {S : SProd → Prop} {A : String} {ng ng' : G} {p : SProd}
    (h : BinInv g S ng) (hp : p ∈ g.prods) (hA : p.head = A) (hs : binProdStep A ng p = .ok ng') :
    BinInv g (fun q => S q ∨ q = p) ng' := by
  obtain ⟨defs, hc, hdone, himg⟩ := h
  unfold binProdStep at hs
  split at hs
  · rename_i hskip
    simp only [pure] at hs
    cases hs
    have hsub : ∀ q ∈ ng.prods, q ∈ ins ng.prods p := fun q hq => mem_ins.mpr (Or.inl hq)
    have hsk : binSkip p = true := hskip
    refine ⟨defs, ⟨hc.terms, hc.start, hc.nonterms, hc.freshg, hc.inj, hc.old, hc.form, ?_⟩, ?_, ?_⟩
    · intro q hq
      rcases mem_ins.mp hq with hq | rfl
      · exact hc.prods q hq
      · exact Or.inl ⟨hp, hsk⟩
    · intro d hd; exact (hdone d hd).mono hsub (fun _ h => h)
    · rintro q (hq | rfl)
      · exact (himg q hq).mono hsub (fun _ h => h)
      · exact Or.inl ⟨hsk, mem_ins.mpr (Or.inr rfl)⟩
  · rename_i hskip
    have hsk : binSkip p = false := by simpa [binSkip] using hskip
    have he : Exp g defs A p.body := Or.inl ⟨p, hp, hA, rfl, hsk⟩
    obtain ⟨defs', hc', hs', hp', hdone', hlink⟩ := binChain_spec hw A (p.body.length + 1) A p.body ng ng' defs hc he
      (fun s hs => ⟨p, hp, hsk, hs⟩) (two_le_of_not_skip hsk) (by omega) (fun d hd _ => hdone d hd) hs
    refine ⟨defs', hc', hdone', ?_⟩
    rintro q (hq | rfl)
    · exact (himg q hq).mono hp' hs'
    · exact Or.inr ⟨hsk, hA ▸ hlink⟩

theorem binHeadStep_inv {g : G} (hw : WellFormed g) {S : SProd → Prop} {A : String} {ng ng' : G}
    (h : BinInv g S ng) (hs : binHeadStep g ng A = .ok ng') :
    BinInv g (fun q => S q ∨ (q ∈ g.prods ∧ q.head = A)) ng' := by
  unfold binHeadStep at hs
  have hmem : ∀ q, q ∈ sortBy prodLt (prodsOf g.prods A) ↔ (q ∈ g.prods ∧ q.head = A) := by
    intro q
    rw [mem_sortBy]
    unfold prodsOf
    simp [List.mem_filter]
  have := foldlM_inv_prefix (binProdStep A) (fun pre ng => BinInv g (fun q => S q ∨ q ∈ pre) ng)
    (sortBy prodLt (prodsOf g.prods A)) [] ng (h.weaken (by rintro q (hq | hq); exact hq; cases hq))
    (fun pre' s b s' hP hf hm => by
      have hb := (hmem b).mp hm
      refine (binProdStep_inv hw hP hb.1 hb.2 hf).weaken ?_
      rintro q (hq | hq)
      · exact Or.inl (Or.inl hq)
      · rcases List.mem_append.mp hq with hq | hq
        · exact Or.inl (Or.inr hq)
        · simp at hq; exact Or.inr hq) ng' hs
  simp only [List.nil_append] at this
  refine this.weaken ?_
  rintro q (hq | hq)
  · exact Or.inl hq
  · exact Or.inr ((hmem q).mpr hq)

/-- what `cnfBin` returns -/
theorem cnfBin_spec {g g' : G} (hw : WellFormed g) (h : cnfBin g = .ok g') :
    ∃ defs, BinCore g g' defs ∧ (∀ d ∈ defs, HasLink g g' defs d.1 d.2) ∧ ∀ p ∈ g.prods, BinImg g g' defs p := by
  rw [cnfBin_eq] at h
  have h0 : BinInv g (fun q => q ∈ g.prods ∧ q.head ∈ ([] : List String)) ({ g with prods := [] } : G) :=
    ⟨[], { terms := rfl, start := rfl, nonterms := (by simp), freshg := (by intro d hd; cases hd),
           inj := (by intro d hd; cases hd), old := (by intro d hd; cases hd), form := (by intro d hd; cases hd), prods := (by intro p hp; cases hp) },
      (by intro d hd; cases hd), (by rintro p ⟨_, hp⟩; cases hp)⟩
  have := foldlM_inv_prefix (binHeadStep g) (fun pre ng => BinInv g (fun q => q ∈ g.prods ∧ q.head ∈ pre) ng)
    (headsOf g.prods) [] _ h0
    (fun pre' s b s' hP hf _ => by
      refine (binHeadStep_inv hw hP hf).weaken ?_
      rintro q ⟨hq, hh⟩
      rcases List.mem_append.mp hh with hh | hh
      · exact Or.inl ⟨hq, hh⟩
      · simp at hh; exact Or.inr ⟨hq, hh⟩) g' h
  simp only [List.nil_append] at this
  obtain ⟨defs, h1, h2, h3⟩ := this
  exact ⟨defs, h1, h2, fun p hp => h3 p ⟨hp, mem_headsOf hp⟩⟩

/-! ## language -/

/-- what a non-terminal of the BIN result stands for -/
def binExp (defs : Defs) (n : String) : List SSym :=
  match defs.find? (fun d => d.1 = n) with
  | some d => d.2
  | none => [Sym.nonterm n]

theorem binExp_def {g ng : G} {defs : Defs} (h : BinCore g ng defs) {d : String × List SSym} (hd : d ∈ defs) :
    binExp defs d.1 = d.2 := by
  unfold binExp
  cases hf : defs.find? (fun d' => d'.1 = d.1) with
  | none =>
    have := List.find?_eq_none.mp hf d hd
    simp at this
  | some d' =>
    have h1 := List.find?_some hf
    have h2 := List.mem_of_find?_eq_some hf
    have : d' = d := h.inj d' h2 d hd (by simpa using h1)
    rw [this]

theorem binExp_old {g ng : G} {defs : Defs} (h : BinCore g ng defs) {m : String} (hm : m ∈ g.nonterms) :
    binExp defs m = [Sym.nonterm m] := by
  unfold binExp
  cases hf : defs.find? (fun d' => d'.1 = m) with
  | none => rfl
  | some d' =>
    have h1 := List.find?_some hf
    have h2 := List.mem_of_find?_eq_some hf
    have h3 : d'.1 = m := by simpa using h1
    exact absurd (h3 ▸ hm) (h.freshg d' h2)

/-- a symbol whose non-terminal name (if any) is declared in `g` -/
def DeclSym (g : G) (x : SSym) : Prop := ∀ m, x = Sym.nonterm m → m ∈ g.nonterms

theorem OldSym.decl {g : G} (hw : WellFormed g) {x : SSym} (hx : OldSym g x) : DeclSym g x := by
  obtain ⟨p, hp, _, hxp⟩ := hx
  intro m hm
  subst hm
  exact (hw.2 p hp).2 _ hxp

theorem expSym_old {g ng : G} {defs : Defs} (h : BinCore g ng defs) {x : SSym} (hx : DeclSym g x) :
    expSym (binExp defs) x = [x] := by
  cases x with
  | term t => rfl
  | nonterm m => exact binExp_old h (hx m rfl)

theorem expand_old {g ng : G} {defs : Defs} (h : BinCore g ng defs) :
    ∀ b : List SSym, (∀ s ∈ b, DeclSym g s) → expand (binExp defs) b = b := by
  intro b
  induction b with
  | nil => intro _; rfl
  | cons s b ih =>
    intro hb
    rw [expand_cons, ih (fun s hs => hb s (List.mem_cons_of_mem _ hs)), expSym_old h (hb s (List.mem_cons_self ..))]
    rfl

theorem expand_link {g ng : G} {defs : Defs} (h : BinCore g ng defs) (hw : WellFormed g) {b β : List SSym}
    (hl : LinkBody g defs b β) : expand (binExp defs) b = β := by
  rcases hl with ⟨x, hN, r, rfl, hmem, rfl, hx⟩ | ⟨x, y, rfl, rfl, hx, hy⟩
  · rw [expand_cons, expand_cons, expand_nil, expSym_old h (hx.decl hw)]
    have := binExp_def h hmem
    simp only at this
    simp [expSym, this]
  · exact expand_old h _ (by intro s hs; simp at hs; rcases hs with rfl | rfl; exact hx.decl hw; exact hy.decl hw)

/-- with every recorded name linked, whatever has a link derives what it stands for -/
theorem link_derives {g ng : G} {defs : Defs} (hdone : ∀ d ∈ defs, HasLink g ng defs d.1 d.2) :
    ∀ (n : Nat) (h : String) (β : List SSym), β.length ≤ n → HasLink g ng defs h β →
      Derives ng [Sym.nonterm h] β := by
  intro n
  induction n with
  | zero =>
    intro h β hlen hl
    obtain ⟨p', _, _, hb⟩ := hl
    rcases hb with ⟨x, hN, r, _, _, rfl, _⟩ | ⟨x, y, _, rfl, _, _⟩ <;> simp at hlen
  | succ n ih =>
    intro h β hlen hl
    obtain ⟨p', hp', hh, hb⟩ := hl
    have h1 : Derives ng [Sym.nonterm h] p'.body := hh ▸ Derives.of_prod hp'
    rcases hb with ⟨x, hN, r, hbody, hmem, rfl, _⟩ | ⟨x, y, hbody, rfl, _, _⟩
    · have h2 := ih hN r (by simp at hlen; omega) (hdone _ hmem)
      rw [hbody] at h1
      refine h1.trans ?_
      have := Derives.append (Derives.refl [x]) h2
      simpa using this
    · rw [hbody] at h1; exact h1

theorem cnfBin_language {g g' : G} (h : cnfBin g = .ok g') (hw : WellFormed g) (w : List String) :
    Language g' w ↔ Language g w := by
  obtain ⟨defs, hc, hdone, himg⟩ := cnfBin_spec hw h
  have hst : g'.start = g.start := hc.start
  constructor
  · intro hl
    refine Language.of_expand (g := g) (g' := g') (binExp defs) ?_ ?_ hl
    · rw [hst]; exact binExp_old hc hw.1
    · intro p' hp'
      rcases hc.prods p' hp' with ⟨hpg, _⟩ | ⟨β, he, hlb⟩
      · rw [binExp_old hc (hw.2 p' hpg).1,
          expand_old hc p'.body (fun s hs m hm => by subst hm; exact (hw.2 p' hpg).2 _ hs)]
        exact Derives.of_prod hpg
      · rw [expand_link hc hw hlb]
        rcases he with ⟨p, hp, hh, hb, _⟩ | hd
        · rw [← hh, binExp_old hc (hw.2 p hp).1, ← hb]
          exact Derives.of_prod hp
        · have := binExp_def hc hd
          simp only at this
          rw [this]
          exact Derives.refl _
  · intro hl
    refine Language.of_derivable (g := g) (g' := g') hst ?_ hl
    intro p hp
    rcases himg p hp with ⟨_, hmem⟩ | ⟨_, hlink⟩
    · exact Derives.of_prod hmem
    · exact link_derives hdone p.body.length p.head p.body (Nat.le_refl _) hlink

theorem cnfBin_wf {g g' : G} (h : cnfBin g = .ok g') (hw : WellFormed g) : WellFormed g' := by
  obtain ⟨defs, hc, _, _⟩ := cnfBin_spec hw h
  have hold : ∀ m, m ∈ g.nonterms → m ∈ g'.nonterms := fun m hm => by
    rw [hc.nonterms]; exact List.mem_append.mpr (Or.inl hm)
  have hnew : ∀ d ∈ defs, d.1 ∈ g'.nonterms := fun d hd => by
    rw [hc.nonterms]; exact List.mem_append.mpr (Or.inr (List.mem_map.mpr ⟨d, hd, rfl⟩))
  have hsym : ∀ x, (∃ p ∈ g.prods, x ∈ p.body) → SymDeclared g' x := by
    rintro x ⟨p, hp, hx⟩
    have := (hw.2 p hp).2 x hx
    cases x with
    | term t => unfold SymDeclared at this ⊢; rw [hc.terms]; exact this
    | nonterm m => unfold SymDeclared at this ⊢; exact hold m this
  refine ⟨by rw [hc.start]; exact hold _ hw.1, ?_⟩
  intro p' hp'
  rcases hc.prods p' hp' with ⟨hpg, _⟩ | ⟨β, he, hlb⟩
  · exact ⟨hold _ (hw.2 p' hpg).1, fun s hs => hsym s ⟨p', hpg, hs⟩⟩
  · refine ⟨?_, ?_⟩
    · rcases he with ⟨p, hp, hh, _, _⟩ | hd
      · rw [← hh]; exact hold _ (hw.2 p hp).1
      · exact hnew _ hd
    · intro s hs
      rcases hlb with ⟨x, hN, r, hb, hmem, _, hx⟩ | ⟨x, y, hb, _, hx, hy⟩
      · rw [hb] at hs
        simp at hs
        rcases hs with rfl | rfl
        · obtain ⟨p, hp, _, hxp⟩ := hx; exact hsym _ ⟨p, hp, hxp⟩
        · exact hnew _ hmem
      · rw [hb] at hs
        simp at hs
        rcases hs with rfl | rfl
        · obtain ⟨p, hp, _, hxp⟩ := hx; exact hsym _ ⟨p, hp, hxp⟩
        · obtain ⟨p, hp, _, hxp⟩ := hy; exact hsym _ ⟨p, hp, hxp⟩

end AlgoVerif.C08
