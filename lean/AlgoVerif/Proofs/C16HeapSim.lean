import AlgoVerif.Proofs.C16HeapMachine
/-!
# C16 helper lemmas: every operation of the heap machine simulates the functional one and keeps ownership
-/
namespace AlgoVerif.C16.Hp
open AlgoVerif AlgoVerif.C16
variable {α : Type} {σ : Type}

theorem below_of_ext_below {H H₁ H' : Heap α} (he : Ext H H₁) (hb : Below H.size H₁ H') : Below H.size H H' :=
  ⟨Nat.le_trans he.1 hb.1, fun c hc => (hb.2 c hc).trans (he.2 c hc)⟩

/-- the operands of a set-algebra call, seen from the store after the clone was made -/
theorem operands_after {H H₁ : Heap α} {regs sets : List (Obj α)} (hown : Own H regs) (hsets : ∀ u ∈ sets, u ∈ regs)
    (he : Ext H H₁) :
    sets.map (Obj.abs H₁) = sets.map (Obj.abs H) ∧ ∀ u ∈ sets, Valid H₁ u ∧ u.buf < H.size := by
  refine ⟨List.map_congr_left (fun u hu => ?_), fun u hu => ?_⟩
  · have := ((hown.1 u (hsets u hu)).ext he).2
    simp [Obj.abs, this]
  · exact ⟨((hown.1 u (hsets u hu)).ext he).1, (hown.1 u (hsets u hu)).1⟩

theorem union_sim (sh : Shuffle σ) (grow : Nat → Nat) {H : Heap α} {regs sets : List (Obj α)} {s : Obj α}
    (hown : Own H regs) (hsets : ∀ u ∈ sets, u ∈ regs) {g g' : σ} {r : MSet α}
    (h : (s.abs H).union sh (sets.map (Obj.abs H)) g = .ok (r, g')) :
    ∃ H' t, union sh grow H s sets g = .ok (H', t, g') ∧ t.abs H' = r ∧ Valid H' t ∧ H.size ≤ t.buf ∧
      Below H.size H H' := by
  obtain ⟨hi, hview, hv, hbuf, hext⟩ := fresh_spec H s.impl (s.view H) []
  obtain ⟨hmap, hops⟩ := operands_after hown hsets hext
  have habs : (Obj.fresh H s.impl (s.view H) []).2.abs (Obj.fresh H s.impl (s.view H) []).1 = (s.abs H).clone := by
    simp [Obj.abs, hi, hview, MSet.clone]
  obtain ⟨H', t, e, ha, hvt, hbt, hbel⟩ := unionLoop_sim sh grow H.size sets _ _ g r g' hv (by omega)
    hext.1 hops (by rw [habs, hmap]; exact h)
  exact ⟨H', t, e, ha, hvt, hbt, below_of_ext_below hext hbel⟩

theorem difference_sim (sh : Shuffle σ) {H : Heap α} {regs sets : List (Obj α)} {s : Obj α}
    (hown : Own H regs) (hsets : ∀ u ∈ sets, u ∈ regs) {g g' : σ} {r : MSet α}
    (h : (s.abs H).difference sh (sets.map (Obj.abs H)) g = .ok (r, g')) :
    ∃ H' t, difference sh H s sets g = .ok (H', t, g') ∧ t.abs H' = r ∧ Valid H' t ∧ H.size ≤ t.buf ∧
      Below H.size H H' := by
  obtain ⟨hi, hview, hv, hbuf, hext⟩ := fresh_spec H s.impl (s.view H) []
  obtain ⟨hmap, hops⟩ := operands_after hown hsets hext
  have habs : (Obj.fresh H s.impl (s.view H) []).2.abs (Obj.fresh H s.impl (s.view H) []).1 = (s.abs H).clone := by
    simp [Obj.abs, hi, hview, MSet.clone]
  obtain ⟨H', t, e, ha, hvt, hbt, hbel⟩ := diffLoop_sim sh H.size sets _ _ g r g' hv (by omega)
    hext.1 hops (by rw [habs, hmap]; exact h)
  exact ⟨H', t, e, ha, hvt, hbt, below_of_ext_below hext hbel⟩

theorem intersection_sim (grow : Nat → Nat) {H : Heap α} {regs sets : List (Obj α)} {s : Obj α}
    (hown : Own H regs) (hsets : ∀ u ∈ sets, u ∈ regs) {r : MSet α}
    (h : (s.abs H).intersection (sets.map (Obj.abs H)) = .ok r) :
    ∃ H' t, intersection grow H s sets = .ok (H', t) ∧ t.abs H' = r ∧ Valid H' t ∧ H.size ≤ t.buf ∧
      Below H.size H H' := by
  obtain ⟨hi, hview, hv, hbuf, hext⟩ := fresh_spec H s.impl [] []
  obtain ⟨hmap, hops⟩ := operands_after hown hsets hext
  have habs : (Obj.fresh H s.impl [] []).2.abs (Obj.fresh H s.impl [] []).1 = (s.abs H).cloneEmpty := by
    simp [Obj.abs, hi, hview, MSet.cloneEmpty]
  obtain ⟨H', t, e, ha, hvt, hbt, hbel⟩ := interLoop_sim grow H.size sets (s.view H) _ _ r hv (by omega)
    hext.1 hops (by rw [habs, hmap]; exact h)
  exact ⟨H', t, e, ha, hvt, hbt, below_of_ext_below hext hbel⟩

theorem selectMatch_sim (grow : Nat → Nat) {H : Heap α} {s : Obj α} (p : α → Bool) {r : MSet α}
    (h : (s.abs H).selectMatch p = .ok r) :
    ∃ H' t, selectMatch grow H s p = .ok (H', t) ∧ t.abs H' = r ∧ Valid H' t ∧ H.size ≤ t.buf ∧
      Below H.size H H' := by
  obtain ⟨hi, hview, hv, hbuf, hext⟩ := fresh_spec H s.impl [] []
  have habs : (Obj.fresh H s.impl [] []).2.abs (Obj.fresh H s.impl [] []).1 = (s.abs H).cloneEmpty := by
    simp [Obj.abs, hi, hview, MSet.cloneEmpty]
  obtain ⟨H', t, e, ha, hvt, hbt, hbel⟩ := selectLoop_sim grow p H.size (s.view H) _ _ r hv (by omega)
    hext.1 (by rw [habs]; exact h)
  exact ⟨H', t, e, ha, hvt, hbt, below_of_ext_below hext hbel⟩

theorem partitionMatch_sim (grow : Nat → Nat) {H : Heap α} {s : Obj α} (p : α → Bool) {rt ru : MSet α}
    (h : (s.abs H).partitionMatch p = .ok (rt, ru)) :
    ∃ H' t u, partitionMatch grow H s p = .ok (H', t, u) ∧ t.abs H' = rt ∧ u.abs H' = ru ∧ Valid H' t ∧ Valid H' u ∧
      t.buf ≠ u.buf ∧ H.size ≤ t.buf ∧ H.size ≤ u.buf ∧ Below H.size H H' := by
  obtain ⟨hi₁, hview₁, hv₁, hbuf₁, hext₁⟩ := fresh_spec H s.impl [] []
  obtain ⟨hi₂, hview₂, hv₂, hbuf₂, hext₂⟩ := fresh_spec (Obj.fresh H s.impl [] []).1 s.impl [] []
  -- the first new object seen from the store after the second allocation
  obtain ⟨hv₁', hview₁'⟩ := hv₁.ext hext₂
  have hne : (Obj.fresh H s.impl [] []).2.buf ≠ (Obj.fresh (Obj.fresh H s.impl [] []).1 s.impl [] []).2.buf := by
    rw [hbuf₁, hbuf₂]
    have := hv₁.1
    rw [hbuf₁] at this
    omega
  have habs₁ : (Obj.fresh H s.impl [] []).2.abs (Obj.fresh (Obj.fresh H s.impl [] []).1 s.impl [] []).1 =
      (s.abs H).cloneEmpty := by
    simp [Obj.abs, hi₁, hview₁', hview₁, MSet.cloneEmpty]
  have habs₂ : (Obj.fresh (Obj.fresh H s.impl [] []).1 s.impl [] []).2.abs
      (Obj.fresh (Obj.fresh H s.impl [] []).1 s.impl [] []).1 = (s.abs H).cloneEmpty := by
    simp [Obj.abs, hi₂, hview₂, MSet.cloneEmpty]
  have hsz : H.size ≤ (Obj.fresh (Obj.fresh H s.impl [] []).1 s.impl [] []).1.size := Nat.le_trans hext₁.1 hext₂.1
  obtain ⟨H', t, u, e, ha, hb, hvt, hvu, hn, hbt, hbu, hbel⟩ := partitionLoop_sim grow p H.size (s.view H) _ _ _ rt ru
    hv₁' hv₂ hne (by omega) (by rw [hbuf₂]; exact hext₁.1) hsz (by rw [habs₁, habs₂]; exact h)
  exact ⟨H', t, u, e, ha, hb, hvt, hvu, hn, hbt, hbu, below_of_ext_below (hext₁.trans hext₂) hbel⟩

/-! ### the operations that only read leave the registers of the functional machine as they are -/

/-- the operations that only read -/
def IsReadOp : Op α → Prop
  | .contains .. | .size .. | .isEmpty .. | .all .. | .equal .. | .subset .. | .superset ..
  | .anyMatch .. | .allMatch .. | .firstMatch .. => True
  | _ => False

theorem stepOp_regs_of_read (sh : Shuffle σ) (st : RegState α σ) (op : Op α) (hop : IsReadOp op)
    {r : RegState α σ} {obs : Obs α} (h : C16.stepOp sh st op = .ok (r, obs)) : r.1 = st.1 := by
  cases op <;> simp only [IsReadOp] at hop <;> simp only [C16.stepOp] at h
  all_goals
    repeat' split at h
    all_goals
      first
        | (cases h; rfl)
        | (obtain ⟨x, _, h'⟩ := bind_eq_ok h; cases h'; rfl)

theorem mk_eq {s' : MSet α} {impl : Impl α} (h : s'.impl = impl) : (⟨impl, s'.members⟩ : MSet α) = s' := by
  cases s'
  simp only at h
  simp [h]

theorem length_map_abs (H : Heap α) (regs : List (Obj α)) : (regs.map (Obj.abs H)).length = regs.length := by simp

/-- **one step**: what the functional machine does on the current views, the heap machine does on the
store — same observation, same views afterwards — and no two registers share an array afterwards -/
theorem stepOp_sim (sh : Shuffle σ) (grow : Nat → Nat) {regs : List (Obj α)} {H : Heap α} (hown : Own H regs) (g : σ)
    (op : Op α) {R' : List (MSet α)} {g' : σ} {obs : Obs α}
    (h : C16.stepOp sh (regs.map (Obj.abs H), g) op = .ok ((R', g'), obs)) :
    ∃ regs' H', stepOp sh grow (regs, H, g) op = .ok ((regs', H', g'), obs) ∧ regs'.map (Obj.abs H') = R' ∧
      Own H' regs' := by
  have hread : ∀ (hop : IsReadOp op),
      (do let (r, obs) ← C16.stepOp sh (regs.map (Obj.abs H), g) op
          return (((regs, H, r.2), obs) : State α σ × Obs α)) = .ok ((regs, H, g'), obs) ∧ regs.map (Obj.abs H) = R' := by
    intro hop
    have := stepOp_regs_of_read sh _ op hop h
    simp only at this
    exact ⟨by simp [h], this.symm⟩
  cases op with
  | contains i vs => obtain ⟨e, hr⟩ := hread trivial; exact ⟨regs, H, e, hr, hown⟩
  | size i => obtain ⟨e, hr⟩ := hread trivial; exact ⟨regs, H, e, hr, hown⟩
  | isEmpty i => obtain ⟨e, hr⟩ := hread trivial; exact ⟨regs, H, e, hr, hown⟩
  | all i => obtain ⟨e, hr⟩ := hread trivial; exact ⟨regs, H, e, hr, hown⟩
  | equal i j => obtain ⟨e, hr⟩ := hread trivial; exact ⟨regs, H, e, hr, hown⟩
  | subset i j => obtain ⟨e, hr⟩ := hread trivial; exact ⟨regs, H, e, hr, hown⟩
  | superset i j => obtain ⟨e, hr⟩ := hread trivial; exact ⟨regs, H, e, hr, hown⟩
  | anyMatch i p => obtain ⟨e, hr⟩ := hread trivial; exact ⟨regs, H, e, hr, hown⟩
  | allMatch i p => obtain ⟨e, hr⟩ := hread trivial; exact ⟨regs, H, e, hr, hown⟩
  | firstMatch i p => obtain ⟨e, hr⟩ := hread trivial; exact ⟨regs, H, e, hr, hown⟩
  | add i vs =>
    clear hread
    simp only [C16.stepOp, List.getElem?_map] at h
    simp only [stepOp]
    cases hi : regs[i]? with
    | none =>
      simp only [hi, Option.map_none] at h
      cases h
      exact ⟨regs, H, rfl, rfl, hown⟩
    | some o =>
      simp only [hi, Option.map_some] at h
      obtain ⟨s', hs, h'⟩ := bind_eq_ok h
      cases h'
      obtain ⟨H', o', e, tr⟩ := add_trans grow vs (hown.1 o (List.mem_of_getElem? hi)) hs
      obtain ⟨hown', hmap⟩ := own_mut hown hi tr
      refine ⟨regs.set i o', H', by simp [e], ?_, hown'⟩
      rw [hmap, mk_eq (show s'.impl = o.impl from add_impl vs hs)]
  | remove i vs =>
    clear hread
    simp only [C16.stepOp, List.getElem?_map] at h
    simp only [stepOp]
    cases hi : regs[i]? with
    | none =>
      simp only [hi, Option.map_none] at h
      cases h
      exact ⟨regs, H, rfl, rfl, hown⟩
    | some o =>
      simp only [hi, Option.map_some] at h
      obtain ⟨s', hs, h'⟩ := bind_eq_ok h
      cases h'
      obtain ⟨H', o', e, tr⟩ := remove_trans vs (hown.1 o (List.mem_of_getElem? hi)) hs
      obtain ⟨hown', hmap⟩ := own_mut hown hi tr
      refine ⟨regs.set i o', H', by simp [e], ?_, hown'⟩
      rw [hmap, mk_eq (show s'.impl = o.impl from remove_impl vs hs)]
  | removeAll i =>
    clear hread
    simp only [C16.stepOp, List.getElem?_map] at h
    simp only [stepOp]
    cases hi : regs[i]? with
    | none =>
      simp only [hi, Option.map_none] at h
      cases h
      exact ⟨regs, H, rfl, rfl, hown⟩
    | some o =>
      simp only [hi, Option.map_some] at h
      cases h
      obtain ⟨hi', hview, hv, hbuf, hext⟩ := fresh_spec H o.impl [] []
      obtain ⟨hown', hmap⟩ := own_new i hown (ext_below hext) hv (by rw [hbuf]; exact Nat.le_refl _)
      refine ⟨_, _, rfl, ?_, hown'⟩
      simp only [removeAll]
      rw [hmap]
      simp [Obj.abs, hi', hview, MSet.removeAll]
  | clone d i =>
    clear hread
    simp only [C16.stepOp, List.getElem?_map, List.length_map] at h
    simp only [stepOp]
    cases hi : regs[i]? with
    | none =>
      simp only [hi, Option.map_none] at h
      cases h
      exact ⟨regs, H, rfl, rfl, hown⟩
    | some o =>
      simp only [hi, Option.map_some] at h
      by_cases hd : d < regs.length
      · simp only [hd, ↓reduceIte] at h ⊢
        cases h
        obtain ⟨hi', hview, hv, hbuf, hext⟩ := fresh_spec H o.impl (o.view H) []
        obtain ⟨hown', hmap⟩ := own_new d hown (ext_below hext) hv (by rw [hbuf]; exact Nat.le_refl _)
        refine ⟨_, _, rfl, ?_, hown'⟩
        simp only [clone]
        rw [hmap]
        simp [Obj.abs, hi', hview, MSet.clone]
      · simp only [hd, ↓reduceIte] at h ⊢
        cases h
        exact ⟨regs, H, rfl, rfl, hown⟩
  | cloneEmpty d i =>
    clear hread
    simp only [C16.stepOp, List.getElem?_map, List.length_map] at h
    simp only [stepOp]
    cases hi : regs[i]? with
    | none =>
      simp only [hi, Option.map_none] at h
      cases h
      exact ⟨regs, H, rfl, rfl, hown⟩
    | some o =>
      simp only [hi, Option.map_some] at h
      by_cases hd : d < regs.length
      · simp only [hd, ↓reduceIte] at h ⊢
        cases h
        obtain ⟨hi', hview, hv, hbuf, hext⟩ := fresh_spec H o.impl [] []
        obtain ⟨hown', hmap⟩ := own_new d hown (ext_below hext) hv (by rw [hbuf]; exact Nat.le_refl _)
        refine ⟨_, _, rfl, ?_, hown'⟩
        simp only [cloneEmpty]
        rw [hmap]
        simp [Obj.abs, hi', hview, MSet.cloneEmpty]
      · simp only [hd, ↓reduceIte] at h ⊢
        cases h
        exact ⟨regs, H, rfl, rfl, hown⟩
  | new d impl =>
    clear hread
    simp only [C16.stepOp, List.length_map] at h
    simp only [stepOp]
    by_cases hd : d < regs.length
    · simp only [hd, ↓reduceIte] at h ⊢
      cases h
      obtain ⟨hi', hview, hv, hbuf, hext⟩ := fresh_spec H impl [] []
      obtain ⟨hown', hmap⟩ := own_new d hown (ext_below hext) hv (by rw [hbuf]; exact Nat.le_refl _)
      refine ⟨_, _, rfl, ?_, hown'⟩
      simp only [new]
      rw [hmap]
      simp [Obj.abs, hi', hview, MSet.new]
    · simp only [hd, ↓reduceIte] at h ⊢
      cases h
      exact ⟨regs, H, rfl, rfl, hown⟩
  | union d i js =>
    clear hread
    obtain ⟨hgr, hmem⟩ := getRegs_map H regs js
    simp only [C16.stepOp, List.getElem?_map, List.length_map, hgr] at h
    simp only [stepOp]
    cases hi : regs[i]? with
    | none =>
      simp only [hi, Option.map_none] at h
      cases h
      exact ⟨regs, H, rfl, rfl, hown⟩
    | some s =>
      cases hjs : getObjs regs js with
      | none =>
        simp only [hi, hjs, Option.map_some, Option.map_none] at h
        cases h
        exact ⟨regs, H, rfl, rfl, hown⟩
      | some sets =>
        simp only [hi, hjs, Option.map_some] at h
        by_cases hd : d < regs.length
        · simp only [hd, ↓reduceIte] at h ⊢
          obtain ⟨⟨r, g₁⟩, hu, h'⟩ := bind_eq_ok h
          cases h'
          obtain ⟨H', t, e, ha, hvt, hbt, hbel⟩ := union_sim sh grow hown (hmem sets hjs) hu
          obtain ⟨hown', hmap⟩ := own_new d hown hbel hvt hbt
          refine ⟨regs.set d t, H', ?_, by rw [hmap, ha], hown'⟩
          simp only [e, ok_bind, pure_eq_ok]
          rw [← ha]
          rfl
        · simp only [hd, ↓reduceIte] at h ⊢
          cases h
          exact ⟨regs, H, rfl, rfl, hown⟩
  | inter d i js =>
    clear hread
    obtain ⟨hgr, hmem⟩ := getRegs_map H regs js
    simp only [C16.stepOp, List.getElem?_map, List.length_map, hgr] at h
    simp only [stepOp]
    cases hi : regs[i]? with
    | none =>
      simp only [hi, Option.map_none] at h
      cases h
      exact ⟨regs, H, rfl, rfl, hown⟩
    | some s =>
      cases hjs : getObjs regs js with
      | none =>
        simp only [hi, hjs, Option.map_some, Option.map_none] at h
        cases h
        exact ⟨regs, H, rfl, rfl, hown⟩
      | some sets =>
        simp only [hi, hjs, Option.map_some] at h
        by_cases hd : d < regs.length
        · simp only [hd, ↓reduceIte] at h ⊢
          obtain ⟨r, hu, h'⟩ := bind_eq_ok h
          cases h'
          obtain ⟨H', t, e, ha, hvt, hbt, hbel⟩ := intersection_sim grow hown (hmem sets hjs) hu
          obtain ⟨hown', hmap⟩ := own_new d hown hbel hvt hbt
          refine ⟨regs.set d t, H', ?_, by rw [hmap, ha], hown'⟩
          simp only [e, ok_bind, pure_eq_ok]
          rw [← ha]
          rfl
        · simp only [hd, ↓reduceIte] at h ⊢
          cases h
          exact ⟨regs, H, rfl, rfl, hown⟩
  | diff d i js =>
    clear hread
    obtain ⟨hgr, hmem⟩ := getRegs_map H regs js
    simp only [C16.stepOp, List.getElem?_map, List.length_map, hgr] at h
    simp only [stepOp]
    cases hi : regs[i]? with
    | none =>
      simp only [hi, Option.map_none] at h
      cases h
      exact ⟨regs, H, rfl, rfl, hown⟩
    | some s =>
      cases hjs : getObjs regs js with
      | none =>
        simp only [hi, hjs, Option.map_some, Option.map_none] at h
        cases h
        exact ⟨regs, H, rfl, rfl, hown⟩
      | some sets =>
        simp only [hi, hjs, Option.map_some] at h
        by_cases hd : d < regs.length
        · simp only [hd, ↓reduceIte] at h ⊢
          obtain ⟨⟨r, g₁⟩, hu, h'⟩ := bind_eq_ok h
          cases h'
          obtain ⟨H', t, e, ha, hvt, hbt, hbel⟩ := difference_sim sh hown (hmem sets hjs) hu
          obtain ⟨hown', hmap⟩ := own_new d hown hbel hvt hbt
          refine ⟨regs.set d t, H', ?_, by rw [hmap, ha], hown'⟩
          simp only [e, ok_bind, pure_eq_ok]
          rw [← ha]
          rfl
        · simp only [hd, ↓reduceIte] at h ⊢
          cases h
          exact ⟨regs, H, rfl, rfl, hown⟩
  | select d i p =>
    clear hread
    simp only [C16.stepOp, List.getElem?_map, List.length_map] at h
    simp only [stepOp]
    cases hi : regs[i]? with
    | none =>
      simp only [hi, Option.map_none] at h
      cases h
      exact ⟨regs, H, rfl, rfl, hown⟩
    | some s =>
      simp only [hi, Option.map_some] at h
      by_cases hd : d < regs.length
      · simp only [hd, ↓reduceIte] at h ⊢
        obtain ⟨r, hu, h'⟩ := bind_eq_ok h
        cases h'
        obtain ⟨H', t, e, ha, hvt, hbt, hbel⟩ := selectMatch_sim grow p hu
        obtain ⟨hown', hmap⟩ := own_new d hown hbel hvt hbt
        refine ⟨regs.set d t, H', ?_, by rw [hmap, ha], hown'⟩
        simp only [e, ok_bind, pure_eq_ok]
        rw [← ha]
        rfl
      · simp only [hd, ↓reduceIte] at h ⊢
        cases h
        exact ⟨regs, H, rfl, rfl, hown⟩
  | partitionM d e i p =>
    clear hread
    simp only [C16.stepOp, List.getElem?_map, List.length_map] at h
    simp only [stepOp]
    cases hi : regs[i]? with
    | none =>
      simp only [hi, Option.map_none] at h
      cases h
      exact ⟨regs, H, rfl, rfl, hown⟩
    | some s =>
      simp only [hi, Option.map_some] at h
      by_cases hd : d < regs.length ∧ e < regs.length
      · simp only [hd, and_self, ↓reduceIte] at h ⊢
        obtain ⟨⟨rt, ru⟩, hu, h'⟩ := bind_eq_ok h
        cases h'
        obtain ⟨H', t, u, e', ha, hb, hvt, hvu, hne, hbt, hbu, hbel⟩ := partitionMatch_sim grow p hu
        obtain ⟨hown₁, hmap₁⟩ := own_new d hown hbel hvt hbt
        have hunot : u.buf ∉ (regs.set d t).map (·.buf) := by
          intro hm
          obtain ⟨q, hq, hqb⟩ := List.mem_map.1 hm
          rcases List.mem_or_eq_of_mem_set hq with hq | rfl
          · have := (hown.1 q hq).1
            omega
          · exact hne hqb
        obtain ⟨hown₂, hmap₂⟩ := own_set e hown₁ hvu hunot
        refine ⟨(regs.set d t).set e u, H', ?_, by rw [hmap₂, hmap₁, ha, hb], hown₂⟩
        simp only [e', ok_bind, pure_eq_ok]
        rw [← ha, ← hb]
        rfl
      · simp only [hd, ↓reduceIte] at h ⊢
        cases h
        exact ⟨regs, H, rfl, rfl, hown⟩

/-- **every history** -/
theorem runOps_sim (sh : Shuffle σ) (grow : Nat → Nat) : ∀ (ops : List (Op α)) {regs : List (Obj α)} {H : Heap α}
    (_ : Own H regs) (g : σ) {R' : List (MSet α)} {g' : σ} {obs : List (Obs α)},
    C16.runOps sh ops (regs.map (Obj.abs H), g) = .ok ((R', g'), obs) →
    ∃ regs' H', runOps sh grow ops (regs, H, g) = .ok ((regs', H', g'), obs) ∧ regs'.map (Obj.abs H') = R' ∧
      Own H' regs'
  | [], regs, H, hown, g, R', g', obs, h => by
    cases h
    exact ⟨regs, H, rfl, rfl, hown⟩
  | op :: ops, regs, H, hown, g, R', g', obs, h => by
    simp only [C16.runOps] at h
    obtain ⟨⟨⟨R₁, g₁⟩, o⟩, h₁, h₂⟩ := bind_eq_ok h
    obtain ⟨⟨⟨R₂, g₂⟩, os⟩, h₃, h₄⟩ := bind_eq_ok h₂
    cases h₄
    obtain ⟨regs₁, H₁, e₁, hm₁, hown₁⟩ := stepOp_sim sh grow hown g op h₁
    subst hm₁
    obtain ⟨regs₂, H₂, e₂, hm₂, hown₂⟩ := runOps_sim sh grow ops hown₁ g₁ h₃
    exact ⟨regs₂, H₂, by simp [runOps, e₁, e₂], hm₂, hown₂⟩

/-! ### the initial state -/

theorem initRegs_spec : ∀ (impls : List (Impl α)) (k : Nat),
    (∀ o ∈ initRegs k impls, k ≤ o.buf ∧ o.buf < k + impls.length ∧ o.len = 0) ∧
    ((initRegs k impls).map (·.buf)).Nodup ∧ (initRegs k impls).map (·.impl) = impls
  | [], _ => ⟨by simp [initRegs], by simp [initRegs], rfl⟩
  | impl :: rest, k => by
    obtain ⟨h₁, h₂, h₃⟩ := initRegs_spec rest (k + 1)
    refine ⟨?_, ?_, by simp [initRegs, h₃]⟩
    · intro o ho
      simp only [initRegs, List.mem_cons] at ho
      rcases ho with rfl | ho
      · simp
      · have := h₁ o ho
        simp only [List.length_cons]
        omega
    · simp only [initRegs, List.map_cons]
      refine List.nodup_cons.2 ⟨?_, h₂⟩
      intro hm
      obtain ⟨o, ho, hb⟩ := List.mem_map.1 hm
      have := (h₁ o ho).1
      omega

theorem init_own (impls : List (Impl α)) : Own (initHeap impls) (initRegs 0 impls) := by
  obtain ⟨h₁, h₂, _⟩ := initRegs_spec impls 0
  refine ⟨fun o ho => ⟨?_, ?_⟩, h₂⟩
  · have := (h₁ o ho).2.1
    simpa [initHeap, Heap.size] using this
  · rw [(h₁ o ho).2.2]; exact Nat.zero_le _

theorem init_abs (impls : List (Impl α)) :
    (initRegs 0 impls).map (Obj.abs (initHeap impls)) = impls.map MSet.new := by
  obtain ⟨h₁, _, h₃⟩ := initRegs_spec impls 0
  have : (initRegs 0 impls).map (Obj.abs (initHeap impls)) = (initRegs 0 impls).map (fun o => MSet.new o.impl) := by
    apply List.map_congr_left
    intro o ho
    simp [Obj.abs, Obj.view, (h₁ o ho).2.2, MSet.new]
  have h₄ : impls.map MSet.new = ((initRegs 0 impls).map (·.impl)).map MSet.new := by rw [h₃]
  rw [this, h₄, List.map_map]
  rfl

end AlgoVerif.C16.Hp
