import AlgoVerif.Proofs.C18Core
/-!
# C18 — the block-chain stack refines a list

Invariant (DESIGN.md Appendix B, "Stack"): every block has `nodeSize` cells, all blocks below the
top are full, the top block holds cells `0 … topIndex` with `0 ≤ topIndex < nodeSize`, and there is
no top block exactly when the stack is empty (`topIndex = -1`).
-/
namespace AlgoVerif.C18
variable {α : Type}

/-- cells of the (full) blocks below the top block, top-most cell first -/
def Stack.below (rest : List (Array α)) : List α := rest.flatMap fun b => b.toList.reverse

/-- abstraction function: the live cells of the block chain, top of the stack first -/
def Stack.abs (s : Stack α) : List α :=
  match s.nodes with
  | [] => []
  | b :: rest => (b.toList.take (s.topIndex + 1).toNat).reverse ++ Stack.below rest

structure Stack.Inv (s : Stack α) : Prop where
  pos : 1 ≤ s.nodeSize
  blocks : ∀ b ∈ s.nodes, b.size = s.nodeSize
  top_nil : s.nodes = [] → s.topIndex = -1
  top_cons : s.nodes ≠ [] → 0 ≤ s.topIndex ∧ s.topIndex < s.nodeSize
  size : s.listSize = (Stack.abs s).length

theorem Stack.new_inv (B : Nat) (hB : 1 ≤ B) : (Stack.new B : Stack α).Inv := by
  constructor <;> simp [Stack.new, Stack.abs, hB]

theorem Stack.new_abs (B : Nat) : (Stack.new B : Stack α).abs = [] := rfl

theorem newBlock_toList (zero : α) (n : Nat) (h : 1 ≤ n) :
    (newBlock zero n).toList = zero :: List.replicate (n - 1) zero := by
  cases n with
  | zero => omega
  | succ n => simp [newBlock, List.replicate_succ]

theorem Stack.push_spec (zero : α) (s : Stack α) (v : α) (h : s.Inv) :
    ∃ s', s.push zero v = .ok s' ∧ s'.Inv ∧ s'.abs = v :: s.abs ∧ s'.nodeSize = s.nodeSize := by
  obtain ⟨hpos, hbl, hnil, hcons, hsz⟩ := h
  have h1 := newBlock_toList zero s.nodeSize hpos
  cases hn : s.nodes with
  | nil =>
    have ht := hnil hn
    have habs : s.abs = [] := by simp [Stack.abs, hn]
    simp only [Stack.push, hn, ht]
    simp [show 0 < s.nodeSize by omega]
    have habs' : Stack.abs (⟨s.nodeSize, s.listSize + 1, 0, [(newBlock zero s.nodeSize).setIfInBounds 0 v]⟩ : Stack α)
        = v :: s.abs := by
      rw [habs]; simp [Stack.abs, Stack.below, h1]
    refine ⟨⟨hpos, ?_, ?_, ?_, ?_⟩, habs'⟩
    · simp
    · simp
    · simp; omega
    · rw [habs']; simp [hsz]
  | cons b rest =>
    have ht := hcons (by simp [hn])
    have hb : b.size = s.nodeSize := hbl b (by simp [hn])
    have habs : s.abs = (b.toList.take (s.topIndex + 1).toNat).reverse ++ Stack.below rest := by
      simp [Stack.abs, hn]
    simp only [Stack.push, hn]
    by_cases hfull : s.topIndex + 1 = ↑s.nodeSize
    · simp [hfull, show 0 < s.nodeSize by omega]
      have habs' : Stack.abs (⟨s.nodeSize, s.listSize + 1, 0,
          (newBlock zero s.nodeSize).setIfInBounds 0 v :: b :: rest⟩ : Stack α) = v :: s.abs := by
        have h2 : List.take s.nodeSize b.toList = b.toList := List.take_of_length_le (by simp [hb])
        rw [habs]; simp [Stack.abs, Stack.below, h1, hfull, h2]
      refine ⟨⟨hpos, ?_, ?_, ?_, ?_⟩, habs'⟩
      · intro b' hb'
        simp at hb'
        rcases hb' with rfl | rfl | hb'
        · simp
        · exact hb
        · exact hbl _ (by simp [hn, hb'])
      · simp
      · simp; omega
      · rw [habs']; simp [hsz]
    · have hlt : (s.topIndex + 1).toNat < b.size := by omega
      simp [hfull, hlt, show 0 ≤ s.topIndex + 1 by omega]
      have habs' : Stack.abs (⟨s.nodeSize, s.listSize + 1, s.topIndex + 1,
          b.setIfInBounds (s.topIndex + 1).toNat v :: rest⟩ : Stack α) = v :: s.abs := by
        have h3 : (s.topIndex + 1 + 1).toNat = (s.topIndex + 1).toNat + 1 := by omega
        rw [habs]; simp [Stack.abs, h3, take_set_succ _ _ _ (show (s.topIndex + 1).toNat < b.toList.length by simpa using hlt)]
      refine ⟨⟨hpos, ?_, ?_, ?_, ?_⟩, habs'⟩
      · intro b' hb'
        simp at hb'
        rcases hb' with rfl | hb'
        · simp [hb]
        · exact hbl _ (by simp [hn, hb'])
      · simp
      · simp; omega
      · rw [habs']; simp [hsz]

theorem Stack.topCell_ok (s : Stack α) (b : Array α) (rest : List (Array α)) (hn : s.nodes = b :: rest)
    (h0 : 0 ≤ s.topIndex) (h1 : s.topIndex.toNat < b.size) :
    s.topCell = .ok (b.toList[s.topIndex.toNat]'(by simpa using h1)) := by
  simp [Stack.topCell, hn, h0, h1]

theorem Stack.abs_nonempty (s : Stack α) (h : s.Inv) (b : Array α) (rest : List (Array α)) (hn : s.nodes = b :: rest) :
    ∃ (hlt : s.topIndex.toNat < b.toList.length), 0 ≤ s.topIndex ∧ b.size = s.nodeSize ∧
      s.abs = b.toList[s.topIndex.toNat] :: ((b.toList.take s.topIndex.toNat).reverse ++ Stack.below rest) := by
  obtain ⟨hpos, hbl, hnil, hcons, hsz⟩ := h
  have ht := hcons (by simp [hn])
  have hb : b.size = s.nodeSize := hbl b (by simp [hn])
  have hlt : s.topIndex.toNat < b.toList.length := by simp; omega
  refine ⟨hlt, ht.1, hb, ?_⟩
  have h3 : (s.topIndex + 1).toNat = s.topIndex.toNat + 1 := by omega
  simp [Stack.abs, hn, h3, take_succ_getElem _ _ hlt]

theorem Stack.pop_spec (s : Stack α) (h : s.Inv) :
    ∃ s', s.pop = .ok (s', (Spec.S.pop s.abs).2) ∧ s'.Inv ∧ s'.abs = (Spec.S.pop s.abs).1 ∧
      s'.nodeSize = s.nodeSize := by
  cases hn : s.nodes with
  | nil =>
    have habs : s.abs = [] := by simp [Stack.abs, hn]
    have h0 : s.listSize = 0 := by rw [h.size, habs]; rfl
    exact ⟨s, by simp [Stack.pop, h0, habs, Spec.S.pop], h, by simp [habs, Spec.S.pop], rfl⟩
  | cons b rest =>
    obtain ⟨hlt, h0, hb, habs⟩ := Stack.abs_nonempty s h b rest hn
    obtain ⟨hpos, hbl, hnil, hcons, hsz⟩ := h
    have hne : s.listSize ≠ 0 := by rw [hsz, habs]; simp; omega
    have hcell := Stack.topCell_ok s b rest hn h0 (by simpa using hlt)
    simp only [Stack.pop, hne, if_false, hcell, habs, Spec.S.pop]
    by_cases hlast : s.topIndex - 1 = -1
    · simp only [hlast, if_true, hn, List.tail_cons]
      have ht0 : s.topIndex.toNat = 0 := by omega
      have hsz' : s.listSize - 1 = ↑(below rest).length := by
        rw [hsz, habs]; simp [ht0]
      cases hr : rest with
      | nil =>
        simp [ht0, Stack.below]
        have habs' : Stack.abs (⟨s.nodeSize, s.listSize - 1, -1, []⟩ : Stack α) = [] := rfl
        refine ⟨⟨hpos, by simp, by simp, by simp, ?_⟩, habs'⟩
        rw [habs', hsz', hr]; rfl
      | cons b2 rest2 =>
        simp [ht0]
        have hb2 : b2.size = s.nodeSize := hbl b2 (by simp [hn, hr])
        have habs' : Stack.abs (⟨s.nodeSize, s.listSize - 1, ↑s.nodeSize - 1, b2 :: rest2⟩ : Stack α)
            = below (b2 :: rest2) := by
          have h2 : List.take s.nodeSize b2.toList = b2.toList := List.take_of_length_le (by simp [hb2])
          simp [Stack.abs, Stack.below, h2]
        refine ⟨⟨hpos, ?_, by simp, ?_, ?_⟩, habs'⟩
        · intro b' hb'
          exact hbl b' (by rw [hn, hr]; exact List.mem_cons_of_mem _ hb')
        · simp; omega
        · rw [habs', ← hr]; exact hsz'
    · simp [hlast]
      have ht := hcons (by simp [hn])
      have habs' : Stack.abs (⟨s.nodeSize, s.listSize - 1, s.topIndex - 1, s.nodes⟩ : Stack α)
          = (List.take s.topIndex.toNat b.toList).reverse ++ below rest := by
        simp [Stack.abs, hn]
      refine ⟨⟨hpos, hbl, ?_, ?_, ?_⟩, habs'⟩
      · simp [hn]
      · simp; omega
      · rw [habs']; rw [hsz, habs]; simp

end AlgoVerif.C18
