import AlgoVerif.Proofs.C18Core
/-!
# C18 — the block-chain stack refines a list

Invariant (DESIGN.md Appendix B, "Stack"): every block has `nodeSize` cells, all blocks below the
top are full, the top block holds cells `0 … topIndex` with `0 ≤ topIndex < nodeSize`, and there is
no top block exactly when the stack is empty (`topIndex = -1`).
-/
namespace AlgoVerif.C18
variable {α : Type}

/-- cells of the (full) blocks below the top block, top-most cell first -/
def Stack.below (rest : List (Array α)) : List α := rest.flatMap fun b => b.toList.reverse

/-- abstraction function: the live cells of the block chain, top of the stack first -/
def Stack.abs (s : Stack α) : List α :=
  match s.nodes with
  | [] => []
  | b :: rest => (b.toList.take (s.topIndex + 1).toNat).reverse ++ Stack.below rest

structure Stack.Inv (s : Stack α) : Prop where
  pos : 1 ≤ s.nodeSize
  blocks : ∀ b ∈ s.nodes, b.size = s.nodeSize
  top_nil : s.nodes = [] → s.topIndex = -1
  top_cons : s.nodes ≠ [] → 0 ≤ s.topIndex ∧ s.topIndex < s.nodeSize
  size : s.listSize = (Stack.abs s).length

theorem Stack.new_inv (B : Nat) (hB : 1 ≤ B) : (Stack.new B : Stack α).Inv := by
  constructor <;> simp [Stack.new, Stack.abs, hB]

theorem Stack.new_abs (B : Nat) : (Stack.new B : Stack α).abs = [] := rfl

theorem Stack.push_spec (zero : α) (s : Stack α) (v : α) (h : s.Inv) :
    ∃ s', s.push zero v = .ok s' ∧ s'.Inv ∧ s'.abs = v :: s.abs ∧ s'.nodeSize = s.nodeSize := by
  obtain ⟨hpos, hbl, hnil, hcons, hsz⟩ := h
  have h1 := newBlock_toList zero s.nodeSize hpos
  cases hn : s.nodes with
  | nil =>
    have ht := hnil hn
    have habs : s.abs = [] := by simp [Stack.abs, hn]
    simp only [Stack.push, hn, ht]
    simp [show 0 < s.nodeSize by omega]
    have habs' : Stack.abs (⟨s.nodeSize, s.listSize + 1, 0, [(newBlock zero s.nodeSize).setIfInBounds 0 v]⟩ : Stack α)
        = v :: s.abs := by
      rw [habs]; simp [Stack.abs, Stack.below, h1]
    refine ⟨⟨hpos, ?_, ?_, ?_, ?_⟩, habs'⟩
    · simp
    · simp
    · simp; omega
    · rw [habs']; simp [hsz]
  | cons b rest =>
    have ht := hcons (by simp [hn])
    have hb : b.size = s.nodeSize := hbl b (by simp [hn])
    have habs : s.abs = (b.toList.take (s.topIndex + 1).toNat).reverse ++ Stack.below rest := by
      simp [Stack.abs, hn]
    simp only [Stack.push, hn]
    by_cases hfull : s.topIndex + 1 = ↑s.nodeSize
    · simp [hfull, show 0 < s.nodeSize by omega]
      have habs' : Stack.abs (⟨s.nodeSize, s.listSize + 1, 0,
          (newBlock zero s.nodeSize).setIfInBounds 0 v :: b :: rest⟩ : Stack α) = v :: s.abs := by
        have h2 : List.take s.nodeSize b.toList = b.toList := List.take_of_length_le (by simp [hb])
        rw [habs]; simp [Stack.abs, Stack.below, h1, hfull, h2]
      refine ⟨⟨hpos, ?_, ?_, ?_, ?_⟩, habs'⟩
      · intro b' hb'
        simp at hb'
        rcases hb' with rfl | rfl | hb'
        · simp
        · exact hb
        · exact hbl _ (by simp [hn, hb'])
      · simp
      · simp; omega
      · rw [habs']; simp [hsz]
    · have hlt : (s.topIndex + 1).toNat < b.size := by omega
      simp [hfull, hlt, show 0 ≤ s.topIndex + 1 by omega]
      have habs' : Stack.abs (⟨s.nodeSize, s.listSize + 1, s.topIndex + 1,
          b.setIfInBounds (s.topIndex + 1).toNat v :: rest⟩ : Stack α) = v :: s.abs := by
        have h3 : (s.topIndex + 1 + 1).toNat = (s.topIndex + 1).toNat + 1 := by omega
        rw [habs]; simp [Stack.abs, h3, take_set_succ _ _ _ (show (s.topIndex + 1).toNat < b.toList.length by simpa using hlt)]
      refine ⟨⟨hpos, ?_, ?_, ?_, ?_⟩, habs'⟩
      · intro b' hb'
        simp at hb'
        rcases hb' with rfl | hb'
        · simp [hb]
        · exact hbl _ (by simp [hn, hb'])
      · simp
      · simp; omega
      · rw [habs']; simp [hsz]

theorem Stack.topCell_ok (s : Stack α) (b : Array α) (rest : List (Array α)) (hn : s.nodes = b :: rest)
    (h0 : 0 ≤ s.topIndex) (h1 : s.topIndex.toNat < b.size) :
    s.topCell = .ok (b.toList[s.topIndex.toNat]'(by simpa using h1)) := by
  simp [Stack.topCell, hn, h0, h1]

theorem Stack.abs_nonempty (s : Stack α) (h : s.Inv) (b : Array α) (rest : List (Array α)) (hn : s.nodes = b :: rest) :
    ∃ (hlt : s.topIndex.toNat < b.toList.length), 0 ≤ s.topIndex ∧ b.size = s.nodeSize ∧
      s.abs = b.toList[s.topIndex.toNat] :: ((b.toList.take s.topIndex.toNat).reverse ++ Stack.below rest) := by
  obtain ⟨hpos, hbl, hnil, hcons, hsz⟩ := h
  have ht := hcons (by simp [hn])
  have hb : b.size = s.nodeSize := hbl b (by simp [hn])
  have hlt : s.topIndex.toNat < b.toList.length := by simp; omega
  refine ⟨hlt, ht.1, hb, ?_⟩
  have h3 : (s.topIndex + 1).toNat = s.topIndex.toNat + 1 := by omega
  simp [Stack.abs, hn, h3, take_succ_getElem _ _ hlt]

theorem Stack.pop_spec (s : Stack α) (h : s.Inv) :
    ∃ s', s.pop = .ok (s', (Spec.S.pop s.abs).2) ∧ s'.Inv ∧ s'.abs = (Spec.S.pop s.abs).1 ∧
      s'.nodeSize = s.nodeSize := by
  cases hn : s.nodes with
  | nil =>
    have habs : s.abs = [] := by simp [Stack.abs, hn]
    have h0 : s.listSize = 0 := by rw [h.size, habs]; rfl
    exact ⟨s, by simp [Stack.pop, h0, habs, Spec.S.pop], h, by simp [habs, Spec.S.pop], rfl⟩
  | cons b rest =>
    obtain ⟨hlt, h0, hb, habs⟩ := Stack.abs_nonempty s h b rest hn
    obtain ⟨hpos, hbl, hnil, hcons, hsz⟩ := h
    have hne : s.listSize ≠ 0 := by rw [hsz, habs]; simp; omega
    have hcell := Stack.topCell_ok s b rest hn h0 (by simpa using hlt)
    simp only [Stack.pop, hne, if_false, hcell, habs, Spec.S.pop]
    by_cases hlast : s.topIndex - 1 = -1
    · simp only [hlast, if_true, hn, List.tail_cons]
      have ht0 : s.topIndex.toNat = 0 := by omega
      have hsz' : s.listSize - 1 = ↑(below rest).length := by
        rw [hsz, habs]; simp [ht0]
      cases hr : rest with
      | nil =>
        simp [ht0, Stack.below]
        have habs' : Stack.abs (⟨s.nodeSize, s.listSize - 1, -1, []⟩ : Stack α) = [] := rfl
        refine ⟨⟨hpos, by simp, by simp, by simp, ?_⟩, habs'⟩
        rw [habs', hsz', hr]; rfl
      | cons b2 rest2 =>
        simp [ht0]
        have hb2 : b2.size = s.nodeSize := hbl b2 (by simp [hn, hr])
        have habs' : Stack.abs (⟨s.nodeSize, s.listSize - 1, ↑s.nodeSize - 1, b2 :: rest2⟩ : Stack α)
            = below (b2 :: rest2) := by
          have h2 : List.take s.nodeSize b2.toList = b2.toList := List.take_of_length_le (by simp [hb2])
          simp [Stack.abs, Stack.below, h2]
        refine ⟨⟨hpos, ?_, by simp, ?_, ?_⟩, habs'⟩
        · intro b' hb'
          exact hbl b' (by rw [hn, hr]; exact List.mem_cons_of_mem _ hb')
        · simp; omega
        · rw [habs', ← hr]; exact hsz'
    · simp [hlast]
      have ht := hcons (by simp [hn])
      have habs' : Stack.abs (⟨s.nodeSize, s.listSize - 1, s.topIndex - 1, s.nodes⟩ : Stack α)
          = (List.take s.topIndex.toNat b.toList).reverse ++ below rest := by
        simp [Stack.abs, hn]
      refine ⟨⟨hpos, hbl, ?_, ?_, ?_⟩, habs'⟩
      · simp [hn]
      · simp; omega
      · rw [habs']; rw [hsz, habs]; simp

theorem Stack.peek_spec (s : Stack α) (h : s.Inv) : s.peek = .ok (Spec.S.peek s.abs) := by
  cases hn : s.nodes with
  | nil =>
    have habs : s.abs = [] := by simp [Stack.abs, hn]
    have h0 : s.listSize = 0 := by rw [h.size, habs]; rfl
    simp [Stack.peek, h0, habs, Spec.S.peek]
  | cons b rest =>
    obtain ⟨hlt, h0, hb, habs⟩ := Stack.abs_nonempty s h b rest hn
    have hne : s.listSize ≠ 0 := by rw [h.size, habs]; simp; omega
    have hcell := Stack.topCell_ok s b rest hn h0 (by simpa using hlt)
    simp [Stack.peek, hne, hcell, habs, Spec.S.peek, Outcome.map]

theorem Stack.below_cons (b : Array α) (rest : List (Array α)) :
    Stack.below (b :: rest) = b.toList.reverse ++ Stack.below rest := by
  simp [Stack.below]

theorem Stack.containsLoop_spec (eq : α → α → Bool) (B : Nat) (v : α) :
    ∀ (fuel : Nat) (b : Array α) (rest : List (Array α)) (i : Int),
      b.size = B → (∀ b' ∈ rest, b'.size = B) → 0 ≤ i → i < B →
      i.toNat + 1 + (Stack.below rest).length + 1 ≤ fuel →
      Stack.containsLoop eq B v fuel (b :: rest) i =
        .ok (((b.toList.take (i + 1).toNat).reverse ++ Stack.below rest).any (fun x => eq x v)) := by
  intro fuel
  induction fuel with
  | zero => intro b rest i _ _ _ _ hf; omega
  | succ fuel ih =>
    intro b rest i hb hrest h0 hlt hf
    have hlt' : i.toNat < b.toList.length := by simp; omega
    have h3 : (i + 1).toNat = i.toNat + 1 := by omega
    have hsz : i.toNat < b.size := by omega
    obtain ⟨x, hget, hxl⟩ : ∃ x, b[i.toNat]? = some x ∧ b.toList[i.toNat]'hlt' = x :=
      ⟨b[i.toNat], by simp [hsz], by simp⟩
    rw [Stack.containsLoop]
    simp only [h0, hsz, and_self, if_true, hget]
    rw [h3, take_succ_getElem _ _ hlt', hxl]
    by_cases he : eq x v = true
    · simp [he]
    · simp only [he]
      by_cases hi : i - 1 < 0
      · have hi0 : i.toNat = 0 := by omega
        simp only [hi, if_true, hi0]
        cases hr : rest with
        | nil =>
          cases fuel with
          | zero => omega
          | succ f => simp [Stack.containsLoop, Stack.below, he]
        | cons b2 rest2 =>
          have hb2 : b2.size = B := hrest b2 (by simp [hr])
          rw [ih b2 rest2 (↑B - 1) hb2 (fun b' hb' => hrest b' (by simp [hr, hb'])) (by omega) (by omega)]
          · have h2 : List.take B b2.toList = b2.toList := List.take_of_length_le (by simp [hb2])
            simp [Stack.below_cons, h2, he]
          · rw [hr, Stack.below_cons] at hf
            simp at hf
            omega
      · simp only [hi, if_false]
        rw [ih b rest (i - 1) hb hrest (by omega) (by omega) (by omega)]
        simp [he]

theorem Stack.below_length (B : Nat) (rest : List (Array α)) (h : ∀ b ∈ rest, b.size = B) :
    (Stack.below rest).length = rest.length * B := by
  induction rest with
  | nil => simp [Stack.below]
  | cons b rest ih =>
    rw [Stack.below_cons, List.length_append, ih (fun b' hb' => h b' (by simp [hb'])), List.length_cons,
      Nat.succ_mul]
    simp [h b (by simp)]
    omega

theorem Stack.contains_spec (eq : α → α → Bool) (s : Stack α) (v : α) (h : s.Inv) :
    s.contains eq v = .ok (Spec.S.contains eq s.abs v) := by
  cases hn : s.nodes with
  | nil =>
    have habs : s.abs = [] := by simp [Stack.abs, hn]
    simp [Stack.contains, hn, habs, Spec.S.contains, Stack.containsLoop]
  | cons b rest =>
    obtain ⟨hpos, hbl, hnil, hcons, hsz⟩ := h
    have ht := hcons (by simp [hn])
    have hb : b.size = s.nodeSize := hbl b (by simp [hn])
    have hrest : ∀ b' ∈ rest, b'.size = s.nodeSize := fun b' hb' => hbl b' (by simp [hn, hb'])
    have hlen := Stack.below_length s.nodeSize rest hrest
    simp only [Stack.contains, hn]
    rw [Stack.containsLoop_spec eq s.nodeSize v _ b rest s.topIndex hb hrest ht.1 ht.2]
    · simp [Stack.abs, hn, Spec.S.contains]
    · rw [hlen]
      simp only [List.length_cons, Nat.add_mul, Nat.mul_add]
      omega

/-- the simulation relation: the invariant holds and the live cells are the Spec's list -/
def Stack.Rel (s : Stack α) (l : Spec.S α) : Prop := s.Inv ∧ s.abs = l

theorem Stack.step_refines (zero : α) (eq : α → α → Bool) (s : Stack α) (l : Spec.S α) (op : Op α)
    (h : Stack.Rel s l) :
    ∃ s', Stack.step zero eq s op = .ok (s', (Spec.S.step eq l op).2) ∧
      Stack.Rel s' (Spec.S.step eq l op).1 := by
  obtain ⟨hinv, rfl⟩ := h
  cases op with
  | add v =>
    obtain ⟨s', h1, h2, h3, _⟩ := Stack.push_spec zero s v hinv
    exact ⟨s', by simp [Stack.step, h1, Outcome.map, Spec.S.step], h2, by simp [Spec.S.step, Spec.S.push, h3]⟩
  | remove =>
    obtain ⟨s', h1, h2, h3, _⟩ := Stack.pop_spec s hinv
    exact ⟨s', by simp [Stack.step, h1, Outcome.map, Spec.S.step], h2, by simp [Spec.S.step, h3]⟩
  | peek =>
    exact ⟨s, by simp [Stack.step, Stack.peek_spec s hinv, Outcome.map, Spec.S.step], hinv, rfl⟩
  | contains v =>
    exact ⟨s, by simp [Stack.step, Stack.contains_spec eq s v hinv, Outcome.map, Spec.S.step], hinv, rfl⟩
  | size =>
    exact ⟨s, by simp [Stack.step, Stack.size, hinv.size, Spec.S.step, Spec.S.size], hinv, rfl⟩
  | isEmpty =>
    refine ⟨s, ?_, hinv, rfl⟩
    simp [Stack.step, Stack.isEmpty, hinv.size, Spec.S.step, Spec.S.isEmpty]
    cases s.abs <;> simp
    omega

theorem Stack.run_refines (zero : α) (eq : α → α → Bool) (B : Nat) (hB : 1 ≤ B) (ops : List (Op α)) :
    Stack.run zero eq (Stack.new B) ops = (Spec.S.run eq [] ops).map Outcome.ok :=
  runTrace_refines _ _ Stack.Rel (Stack.step_refines zero eq) ops _ _ ⟨Stack.new_inv B hB, Stack.new_abs B⟩

end AlgoVerif.C18
