import AlgoVerif.Proofs.C18Core
/-!
# C18 — the block-chain stack refines a list

Invariant (DESIGN.md Appendix B, "Stack"): every block has `nodeSize` cells, all blocks below the
top are full, the top block holds cells `0 … topIndex` with `0 ≤ topIndex < nodeSize`, and there is
no top block exactly when the stack is empty (`topIndex = -1`).
-/
namespace AlgoVerif.C18
variable {α : Type}

/-- cells of the (full) blocks below the top block, top-most cell first -/
def Stack.below (rest : List (Array α)) : List α := rest.flatMap fun b => b.toList.reverse

/-- abstraction function: the live cells of the block chain, top of the stack first -/
def Stack.abs (s : Stack α) : List α :=
  match s.nodes with
  | [] => []
  | b :: rest => (b.toList.take (s.topIndex + 1).toNat).reverse ++ Stack.below rest

structure Stack.Inv (s : Stack α) : Prop where
  pos : 1 ≤ s.nodeSize
  blocks : ∀ b ∈ s.nodes, b.size = s.nodeSize
  top_nil : s.nodes = [] → s.topIndex = -1
  top_cons : s.nodes ≠ [] → 0 ≤ s.topIndex ∧ s.topIndex < s.nodeSize
  size : s.listSize = (Stack.abs s).length

theorem Stack.new_inv (B : Nat) (hB : 1 ≤ B) : (Stack.new B : Stack α).Inv := by
  constructor <;> simp [Stack.new, Stack.abs, hB]

theorem Stack.new_abs (B : Nat) : (Stack.new B : Stack α).abs = [] := rfl

theorem newBlock_toList (zero : α) (n : Nat) (h : 1 ≤ n) :
    (newBlock zero n).toList = zero :: List.replicate (n - 1) zero := by
  cases n with
  | zero => omega
  | succ n => simp [newBlock, List.replicate_succ]

theorem Stack.push_spec (zero : α) (s : Stack α) (v : α) (h : s.Inv) :
    ∃ s', s.push zero v = .ok s' ∧ s'.Inv ∧ s'.abs = v :: s.abs ∧ s'.nodeSize = s.nodeSize := by
  obtain ⟨hpos, hbl, hnil, hcons, hsz⟩ := h
  have h1 := newBlock_toList zero s.nodeSize hpos
  cases hn : s.nodes with
  | nil =>
    have ht := hnil hn
    have habs : s.abs = [] := by simp [Stack.abs, hn]
    simp only [Stack.push, hn, ht]
    simp [show 0 < s.nodeSize by omega]
    have habs' : Stack.abs (⟨s.nodeSize, s.listSize + 1, 0, [(newBlock zero s.nodeSize).setIfInBounds 0 v]⟩ : Stack α)
        = v :: s.abs := by
      rw [habs]; simp [Stack.abs, Stack.below, h1]
    refine ⟨⟨hpos, ?_, ?_, ?_, ?_⟩, habs'⟩
    · simp
    · simp
    · simp; omega
    · rw [habs']; simp [hsz]
  | cons b rest =>
    have ht := hcons (by simp [hn])
    have hb : b.size = s.nodeSize := hbl b (by simp [hn])
    have habs : s.abs = (b.toList.take (s.topIndex + 1).toNat).reverse ++ Stack.below rest := by
      simp [Stack.abs, hn]
    simp only [Stack.push, hn]
    by_cases hfull : s.topIndex + 1 = ↑s.nodeSize
    · simp [hfull, show 0 < s.nodeSize by omega]
      have habs' : Stack.abs (⟨s.nodeSize, s.listSize + 1, 0,
          (newBlock zero s.nodeSize).setIfInBounds 0 v :: b :: rest⟩ : Stack α) = v :: s.abs := by
        have h2 : List.take s.nodeSize b.toList = b.toList := List.take_of_length_le (by simp [hb])
        rw [habs]; simp [Stack.abs, Stack.below, h1, hfull, h2]
      refine ⟨⟨hpos, ?_, ?_, ?_, ?_⟩, habs'⟩
      · intro b' hb'
        simp at hb'
        rcases hb' with rfl | rfl | hb'
        · simp
        · exact hb
        · exact hbl _ (by simp [hn, hb'])
      · simp
      · simp; omega
      · rw [habs']; simp [hsz]
    · have hlt : (s.topIndex + 1).toNat < b.size := by omega
      simp [hfull, hlt, show 0 ≤ s.topIndex + 1 by omega]
      have habs' : Stack.abs (⟨s.nodeSize, s.listSize + 1, s.topIndex + 1,
          b.setIfInBounds (s.topIndex + 1).toNat v :: rest⟩ : Stack α) = v :: s.abs := by
        have h3 : (s.topIndex + 1 + 1).toNat = (s.topIndex + 1).toNat + 1 := by omega
        rw [habs]; simp [Stack.abs, h3, take_set_succ _ _ _ (show (s.topIndex + 1).toNat < b.toList.length by simpa using hlt)]
      refine ⟨⟨hpos, ?_, ?_, ?_, ?_⟩, habs'⟩
      · intro b' hb'
        simp at hb'
        rcases hb' with rfl | hb'
        · simp [hb]
        · exact hbl _ (by simp [hn, hb'])
      · simp
      · simp; omega
      · rw [habs']; simp [hsz]

end AlgoVerif.C18
