import AlgoVerif.Proofs.C14Basic
/-!
# C14 proofs — a proof rule for the recursive `traverseDFS`

`dfs_rule`: for visitors that never answer `false`, a well-formed graph, and an unvisited start vertex
with enough fuel, `dfs` returns `ok`; the visited set grows exactly by vertices reachable from the start,
every newly visited vertex has all its successors visited on return; and any client invariant
(`Pre`/`Mid`/`Post`, about what the visitor closures mutate) that is preserved by the four kinds of steps
holds of the result.
-/
namespace AlgoVerif.C14

variable {σ : Type}

/-- an arc into a vertex that is unvisited in `a` -/
def WhiteArc (g : Graph) (a : Array Bool) (p q : Nat) : Prop := g.HasArc p q ∧ ¬ Vis a q

theorem WhiteArc.mono {g : Graph} {a c : Array Bool} (h : ∀ x, Vis a x → Vis c x) {p q : Nat}
    (w : WhiteArc g c p q) : WhiteArc g a p q := ⟨w.1, fun hq => w.2 (h q hq)⟩

theorem Reach.of_white {g : Graph} {a : Array Bool} {u v : Nat} (h : Reach (WhiteArc g a) u v) :
    Reach g.HasArc u v := h.mono (fun _ _ w => w.1)

/-- facts about the `visited` slice between entry (`a`) and return (`a'`) of `traverseDFS(v, …)` -/
structure StdPost (g : Graph) (v : Nat) (a a' : Array Bool) : Prop where
  size : a'.size = g.n
  grows : ∀ x, Vis a x → Vis a' x
  self : Vis a' v
  cnt : cntF a' < cntF a
  /-- every newly visited vertex is reached from `v` along arcs into vertices unvisited at entry -/
  reach : ∀ x, Vis a' x → ¬ Vis a x → Reach (WhiteArc g a) v x
  closed : ∀ x, Vis a' x → ¬ Vis a x → ∀ y, g.HasArc x y → Vis a' y

/-- the same inside the adjacency loop of `v`, after the arcs `done`, before `rest` -/
structure StdMid (g : Graph) (v : Nat) (a : Array Bool) (done rest : List Arc) (c : Array Bool) : Prop where
  adj : g.adj.getD v [] = done ++ rest
  size : c.size = g.n
  grows : ∀ x, Vis a x → Vis c x
  self : Vis c v
  cnt : cntF c < cntF a
  reach : ∀ x, Vis c x → ¬ Vis a x → Reach (WhiteArc g a) v x
  closed : ∀ x, Vis c x → ¬ Vis a x → x ≠ v → ∀ y, g.HasArc x y → Vis c y
  done : ∀ x ∈ done, Vis c x.to

section rule

variable (g : Graph) (hg : g.WF) (vis : Visitors σ) (hv : vis.AllTrue)
  (Pre : Nat → TState σ → Prop) (Post : Nat → TState σ → TState σ → Prop)
  (Mid : Nat → TState σ → List Arc → List Arc → TState σ → Prop)

include hg hv

/-- the loop part of the rule, given the rule for the recursive calls (`ih`) -/
theorem dfsLoop_rule (fuel : Nat) (v : Nat) (st : TState σ)
    (h_skip : ∀ done x rest cur, Mid v st done (x :: rest) cur →
        StdMid g v st.visited done (x :: rest) cur.visited → cur.visited[x.to]? = some true →
        Mid v st (done ++ [x]) rest cur)
    (h_call : ∀ done x rest cur, Mid v st done (x :: rest) cur →
        StdMid g v st.visited done (x :: rest) cur.visited → cur.visited[x.to]? = some false →
        Pre x.to ⟨cur.visited, (callE vis.edge v x.to x.e.w cur.s).1⟩ ∧
        ∀ cur', Post x.to ⟨cur.visited, (callE vis.edge v x.to x.e.w cur.s).1⟩ cur' →
          StdPost g x.to cur.visited cur'.visited → Mid v st (done ++ [x]) rest cur')
    (ih : ∀ w st0, Pre w st0 → st0.visited.size = g.n → st0.visited[w]? = some false →
        cntF st0.visited ≤ fuel →
        ∃ st', dfs g vis fuel w st0 = .ok st' ∧ Post w st0 st' ∧ StdPost g w st0.visited st'.visited)
    (hfuel : cntF st.visited ≤ fuel + 1) :
    ∀ rest done cur, Mid v st done rest cur → StdMid g v st.visited done rest cur.visited →
      ∃ cur', dfsLoop (dfs g vis fuel) vis v rest cur = .ok (cur', true) ∧
        Mid v st (done ++ rest) [] cur' ∧ StdMid g v st.visited (done ++ rest) [] cur'.visited := by
  intro rest
  induction rest with
  | nil =>
    intro done cur hm hs
    exact ⟨cur, by simp [dfsLoop], by simpa using hm, by simpa using hs⟩
  | cons x rest ihr =>
    intro done cur hm hs
    have hxmem : x ∈ g.adj.getD v [] := by rw [hs.adj]; simp
    have hxlt : x.to < cur.visited.size := by rw [hs.size]; exact hg.bound v x hxmem
    have harc : g.HasArc v x.to := Graph.HasArc.of_mem hxmem
    rcases vis_or_false hxlt with hvis | hunv
    · -- already visited: skip
      have hm' := h_skip done x rest cur hm hs hvis
      have hs' : StdMid g v st.visited (done ++ [x]) rest cur.visited :=
        { hs with
          adj := by rw [hs.adj]; simp
          done := by
            intro y hy
            rcases List.mem_append.1 hy with h | h
            · exact hs.done y h
            · have : y = x := by simpa using h
              subst this; exact hvis }
      obtain ⟨cur', h1, h2, h3⟩ := ihr (done ++ [x]) cur hm' hs'
      refine ⟨cur', ?_, by simpa using h2, by simpa using h3⟩
      unfold dfsLoop
      have : cur.visited[x.to]? = some true := hvis
      rw [this]; exact h1
    · -- unvisited: edge callback, recursive call
      obtain ⟨hpre, hcont⟩ := h_call done x rest cur hm hs hunv
      have hcnt : cntF cur.visited ≤ fuel := by have := hs.cnt; omega
      obtain ⟨st1, hd, hpost, hstd⟩ :=
        ih x.to ⟨cur.visited, (callE vis.edge v x.to x.e.w cur.s).1⟩ hpre hs.size hunv hcnt
      have hm' := hcont st1 hpost hstd
      have hs' : StdMid g v st.visited (done ++ [x]) rest st1.visited :=
        { adj := by rw [hs.adj]; simp
          size := hstd.size
          grows := fun y hy => hstd.grows y (hs.grows y hy)
          self := hstd.grows v hs.self
          cnt := by
            have h5 : cntF st1.visited < cntF cur.visited := hstd.cnt
            have := hs.cnt; omega
          reach := by
            intro y hy hny
            by_cases hc : Vis cur.visited y
            · exact hs.reach y hc hny
            · have hw : WhiteArc g st.visited v x.to :=
                ⟨harc, fun h => not_vis_of_false hunv (hs.grows _ h)⟩
              exact Reach.head hw ((hstd.reach y hy hc).mono (fun _ _ w => w.mono hs.grows))
          closed := by
            intro y hy hny hyv z hz
            by_cases hc : Vis cur.visited y
            · exact hstd.grows z (hs.closed y hc hny hyv z hz)
            · exact hstd.closed y hy hc z hz
          done := by
            intro y hy
            rcases List.mem_append.1 hy with h | h
            · exact hstd.grows _ (hs.done y h)
            · have : y = x := by simpa using h
              subst this; exact hstd.self }
      obtain ⟨cur', h1, h2, h3⟩ := ihr (done ++ [x]) st1 hm' hs'
      refine ⟨cur', ?_, by simpa using h2, by simpa using h3⟩
      unfold dfsLoop
      rw [hunv]
      simp only [hv.edge, if_true]
      rw [hd]; exact h1

/-- **The DFS rule.** -/
theorem dfs_rule
    (h_enter : ∀ v st, Pre v st → st.visited.size = g.n → st.visited[v]? = some false →
        Mid v st [] (g.adj.getD v []) ⟨st.visited.set! v true, (callV vis.pre v st.s).1⟩)
    (h_skip : ∀ v st done x rest cur, Mid v st done (x :: rest) cur →
        StdMid g v st.visited done (x :: rest) cur.visited → cur.visited[x.to]? = some true →
        Mid v st (done ++ [x]) rest cur)
    (h_call : ∀ v st done x rest cur, Mid v st done (x :: rest) cur →
        StdMid g v st.visited done (x :: rest) cur.visited → cur.visited[x.to]? = some false →
        Pre x.to ⟨cur.visited, (callE vis.edge v x.to x.e.w cur.s).1⟩ ∧
        ∀ cur', Post x.to ⟨cur.visited, (callE vis.edge v x.to x.e.w cur.s).1⟩ cur' →
          StdPost g x.to cur.visited cur'.visited → Mid v st (done ++ [x]) rest cur')
    (h_exit : ∀ v st done cur, Mid v st done [] cur → StdMid g v st.visited done [] cur.visited →
        Post v st ⟨cur.visited, (callV vis.post v cur.s).1⟩) :
    ∀ fuel v st, Pre v st → st.visited.size = g.n → st.visited[v]? = some false →
      cntF st.visited ≤ fuel →
      ∃ st', dfs g vis fuel v st = .ok st' ∧ Post v st st' ∧ StdPost g v st.visited st'.visited := by
  intro fuel
  induction fuel with
  | zero =>
    intro v st _ _ hunv hc
    exfalso
    have := cntF_set hunv
    omega
  | succ fuel ih =>
    intro v st hpre hsize hunv hc
    have hvlt : v < st.visited.size := by
      by_cases hx : v < st.visited.size
      · exact hx
      · simp [Array.getElem?_eq_none (Nat.le_of_not_lt hx)] at hunv
    have hvn : v < g.n := hsize ▸ hvlt
    have hm0 := h_enter v st hpre hsize hunv
    have hs0 : StdMid g v st.visited [] (g.adj.getD v []) (st.visited.set! v true) :=
      { adj := by simp
        size := by rw [size_set!]; exact hsize
        grows := fun x hx => vis_set_of_vis hx
        self := vis_set_self hvlt
        cnt := by have := cntF_set hunv; omega
        reach := by
          intro x hx hnx
          rcases vis_set.1 hx with ⟨rfl, _⟩ | h
          · exact .refl _
          · exact absurd h hnx
        closed := by
          intro x hx hnx hxv
          rcases vis_set.1 hx with ⟨rfl, _⟩ | h
          · exact absurd rfl hxv
          · exact absurd h hnx
        done := by simp }
    obtain ⟨cur', h1, h2, h3⟩ :=
      dfsLoop_rule g hg vis hv Pre Post Mid fuel v st (h_skip v st) (h_call v st) ih hc
        (g.adj.getD v []) [] ⟨st.visited.set! v true, (callV vis.pre v st.s).1⟩ hm0 hs0
    simp only [List.nil_append] at h2 h3
    have hpost := h_exit v st _ cur' h2 h3
    refine ⟨⟨cur'.visited, (callV vis.post v cur'.s).1⟩, ?_, hpost, ?_⟩
    · unfold dfs
      simp only [hvlt, if_true, hv.pre]
      rw [hg.adj_get hvn]
      simp only [h1]
    · exact
        { size := h3.size
          grows := h3.grows
          self := h3.self
          cnt := h3.cnt
          reach := h3.reach
          closed := by
            intro x hx hnx y hy
            by_cases hxv : x = v
            · subst hxv
              obtain ⟨a, ha, rfl⟩ := hy
              rw [h3.adj] at ha
              exact h3.done a (by simpa using ha)
            · exact h3.closed x hx hnx hxv y hy }

end rule

end AlgoVerif.C14
