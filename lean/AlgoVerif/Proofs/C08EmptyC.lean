import AlgoVerif.Proofs.C08SingleC
import AlgoVerif.Proofs.C08Empty
/-!
# `EliminateEmptyProductions`: completeness (`L(g) ⊆ L(g')`)
-/
namespace AlgoVerif.C08
open AlgoVerif AlgoVerif.Gram AlgoVerif.C08.Spec

/-! ## `nullable` is complete -/

/-- a fixpoint of `nullablePass` is closed under the productions -/
theorem nullablePass_closed {ps : List SProd} {nul : List String} (h : nullablePass ps nul = nul) :
    ∀ p ∈ ps, bodyAllIn nul p.body = true → p.head ∈ nul := by
  intro p hp hb
  have hpre : ∀ (l : List String) (p : SProd),
      l <+: (if p.head ∈ l then l else if bodyAllIn l p.body then l ++ [p.head] else l) := by
    intro l p
    split
    · exact List.prefix_refl _
    · split
      · exact List.prefix_append _ _
      · exact List.prefix_refl _
  have hstep := foldl_fix_of_prefix _ hpre ps nul h p hp
  by_cases hh : p.head ∈ nul
  · exact hh
  · simp only [hh, if_false, hb, if_true] at hstep
    have := congrArg List.length hstep
    simp at this

theorem derivesIn_nil_bodyAllIn {g : G} {nul : List String} {k : Nat}
    (ih : ∀ j ≤ k, ∀ X : String, DerivesIn g j [Sym.nonterm X] [] → X ∈ nul) :
    ∀ (β : List SSym), ∀ j ≤ k, DerivesIn g j β [] → bodyAllIn nul β = true := by
  intro β
  induction β with
  | nil => intro _ _ _; rfl
  | cons s β ihβ =>
    intro j hj d
    have d' : DerivesIn g j ([s] ++ β) [] := by simpa using d
    obtain ⟨γ₁, γ₂, n₁, n₂, hw, d₁, d₂, hn⟩ := d'.split
    have h1 : γ₁ = [] := by
      cases γ₁ with
      | nil => rfl
      | cons a l => simp at hw
    have h2 : γ₂ = [] := by
      cases γ₂ with
      | nil => rfl
      | cons a l => simp [h1] at hw
    subst h1 h2
    have hβ := ihβ n₂ (by omega) d₂
    unfold bodyAllIn at hβ ⊢
    simp only [List.all_cons, Bool.and_eq_true]
    refine ⟨?_, hβ⟩
    cases s with
    | term t => have := derivesIn_of_term d₁; simp at this
    | nonterm X => simpa using ih n₁ (by omega) X d₁

theorem nullable_complete {g : G} {nul : List String} (h : nullable g = .ok nul) :
    ∀ X : String, Derives g [Sym.nonterm X] [] → X ∈ nul := by
  unfold nullable at h
  have hfix := iterFix_fix _ _ _ _ (ofOpt_ok h)
  have key : ∀ k, ∀ X : String, DerivesIn g k [Sym.nonterm X] [] → X ∈ nul := by
    intro k
    induction k using Nat.strongRecOn with
    | _ k ih =>
      intro X d
      cases d with
      | @head k' _ β _ s d' =>
        obtain ⟨p, hp, hh, rfl⟩ := s.of_single
        have hb := derivesIn_nil_bodyAllIn (g := g) (nul := nul) (k := k')
          (fun j hj Y dY => ih j (by omega) Y dY) p.body k' (Nat.le_refl _) d'
        exact hh ▸ nullablePass_closed hfix p hp hb
  intro X d
  obtain ⟨k, dk⟩ := d.toDerivesIn
  exact key k X dk

/-! ## variants of a body -/

/-- `β` is `b` with some occurrences of nullable non-terminals dropped -/
inductive Variant (nul : List String) : List SSym → List SSym → Prop where
  | nil : Variant nul [] []
  | keep (s : SSym) {b β : List SSym} : Variant nul b β → Variant nul (s :: b) (s :: β)
  | drop (n : String) {b β : List SSym} : n ∈ nul → Variant nul b β → Variant nul (Sym.nonterm n :: b) β

theorem mem_expand_fold {nul : List String} {rest β₂ : List SSym} (hv : Variant nul rest β₂) :
    ∀ (bodies : List (List SSym)) (β₁ : List SSym), β₁ ∈ bodies →
      (β₁ ++ β₂) ∈ rest.foldl (expandStep nul) bodies := by
  induction hv with
  | nil => intro bodies β₁ h; simpa using h
  | @keep s b β _ ih =>
    intro bodies β₁ h
    simp only [List.foldl_cons]
    have : (β₁ ++ [s]) ∈ expandStep nul bodies s := by
      unfold expandStep
      refine List.mem_flatMap.mpr ⟨β₁, h, ?_⟩
      split
      · split <;> simp
      · simp
    have := ih _ _ this
    simpa [List.append_assoc] using this
  | @drop n b β hn _ ih =>
    intro bodies β₁ h
    simp only [List.foldl_cons]
    have : β₁ ∈ expandStep nul bodies (Sym.nonterm n) := by
      unfold expandStep
      refine List.mem_flatMap.mpr ⟨β₁, h, ?_⟩
      simp [hn]
    exact ih _ _ this

theorem mem_expandBody {nul : List String} {body β : List SSym} (hv : Variant nul body β) :
    β ∈ expandBody nul body := by
  rw [expandBody_eq]
  have := mem_expand_fold hv [[]] [] (by simp)
  simpa using this

theorem mem_emptyFreeProds {nul : List String} {ps : List SProd} {p : SProd} {β : List SSym}
    (hp : p ∈ ps) (hβ : β ∈ expandBody nul p.body) (hne : β ≠ []) (hbody : p.body ≠ []) :
    ({ head := p.head, body := β } : SProd) ∈ emptyFreeProds nul ps := by
  unfold emptyFreeProds
  have hpre2 : ∀ (p : SProd) (acc : List SProd) (β : List SSym),
      acc <+: (if β.isEmpty then acc else ins acc { head := p.head, body := β }) := by
    intro p acc β; split
    · exact List.prefix_refl _
    · exact ins_prefix _ _
  have hpre1 : ∀ (acc : List SProd) (p : SProd),
      acc <+: (if p.body.isEmpty then acc
        else (expandBody nul p.body).foldl (fun acc β => if β.isEmpty then acc else ins acc { head := p.head, body := β }) acc) := by
    intro acc p; split
    · exact List.prefix_refl _
    · exact foldl_prefix _ (hpre2 p) _ acc
  refine mem_foldl_of_step _ hpre1 ps hp ?_ []
  intro a
  have h1 : p.body.isEmpty = false := by
    cases hb : p.body with
    | nil => exact absurd hb hbody
    | cons _ _ => rfl
  simp only [h1]
  refine mem_foldl_of_step _ (hpre2 p) (expandBody nul p.body) hβ ?_ a
  intro a
  have h2 : β.isEmpty = false := by
    cases hb : β with
    | nil => exact absurd hb hne
    | cons _ _ => rfl
  simp only [h2]
  exact mem_ins.mpr (Or.inr rfl)

theorem Variant.nonempty_body {nul : List String} {b β : List SSym} (hv : Variant nul b β) (hne : β ≠ []) : b ≠ [] := by
  cases hv with
  | nil => exact absurd rfl hne
  | keep => simp
  | drop => simp

/-! ## completeness -/

/-- if every non-terminal derivation of at most `k` steps into a non-empty terminal string can be replayed
in `g0`, every derivation of at most `k` steps from a sentential form can be replayed from a variant of it -/
theorem derives_variant {g g0 : G} {nul : List String} {k : Nat}
    (hnul : ∀ X : String, Derives g [Sym.nonterm X] [] → X ∈ nul)
    (ih : ∀ j ≤ k, ∀ (X : String) (w : List String), w ≠ [] →
      DerivesIn g j [Sym.nonterm X] (w.map Sym.term) → Derives g0 [Sym.nonterm X] (w.map Sym.term)) :
    ∀ (β : List SSym), ∀ j ≤ k, ∀ w : List String, DerivesIn g j β (w.map Sym.term) →
      ∃ β', Variant nul β β' ∧ Derives g0 β' (w.map Sym.term) ∧ (w ≠ [] → β' ≠ []) := by
  intro β
  induction β with
  | nil =>
    intro j _ w d
    obtain ⟨h, _⟩ := derivesIn_of_nil d
    have hw : w = [] := by cases w <;> simp at h ⊢
    subst hw
    exact ⟨[], Variant.nil, Derives.refl _, fun h => absurd rfl h⟩
  | cons s β ihβ =>
    intro j hj w d
    have d' : DerivesIn g j ([s] ++ β) (w.map Sym.term) := by simpa using d
    obtain ⟨γ₁, γ₂, n₁, n₂, hw, d₁, d₂, hn⟩ := d'.split
    obtain ⟨w₁, w₂, rfl, hw₁, hw₂⟩ := List.map_eq_append_iff.mp hw
    subst hw₁ hw₂
    obtain ⟨β₂, hv₂, hd₂, hne₂⟩ := ihβ n₂ (by omega) w₂ d₂
    cases s with
    | term t =>
      have h1 := derivesIn_of_term d₁
      refine ⟨Sym.term t :: β₂, Variant.keep _ hv₂, ?_, fun _ => by simp⟩
      have := Derives.append (g := g0) (Derives.refl [Sym.term t]) hd₂
      rw [List.map_append, h1]
      simpa using this
    | nonterm X =>
      by_cases hw₁ : w₁ = []
      · subst hw₁
        have hX : X ∈ nul := hnul X (by simpa using d₁.toDerives)
        refine ⟨β₂, Variant.drop X hX hv₂, by simpa using hd₂, ?_⟩
        intro hne; exact hne₂ (by simpa using hne)
      · have hX := ih n₁ (by omega) X w₁ hw₁ d₁
        refine ⟨Sym.nonterm X :: β₂, Variant.keep _ hv₂, ?_, fun _ => by simp⟩
        have := Derives.append hX hd₂
        simpa using this

theorem emptyFree_complete_nonterm {g : G} {nul : List String} (hn : nullable g = .ok nul) :
    ∀ k, ∀ (A : String) (w : List String), w ≠ [] → DerivesIn g k [Sym.nonterm A] (w.map Sym.term) →
      Derives ({ g with prods := emptyFreeProds nul g.prods } : G) [Sym.nonterm A] (w.map Sym.term) := by
  have hnul := nullable_complete hn
  intro k
  induction k using Nat.strongRecOn with
  | _ k ih =>
    intro A w hw d
    generalize hγ : w.map Sym.term = γ at d
    cases d with
    | refl => cases w <;> simp at hγ
    | @head k' _ β _ s d' =>
      subst hγ
      obtain ⟨p, hp, hh, rfl⟩ := s.of_single
      obtain ⟨β', hv, hd, hne⟩ := derives_variant (g := g)
        (g0 := ({ g with prods := emptyFreeProds nul g.prods } : G)) (nul := nul) (k := k') hnul
        (fun j hj X w' hw' dX => ih j (by omega) X w' hw' dX) p.body k' (Nat.le_refl _) w d'
      have hmem : ({ head := p.head, body := β' } : SProd) ∈ emptyFreeProds nul g.prods :=
        mem_emptyFreeProds hp (mem_expandBody hv) (hne hw) (hv.nonempty_body (hne hw))
      have h1 : Derives ({ g with prods := emptyFreeProds nul g.prods } : G) [Sym.nonterm p.head] β' :=
        Derives.of_prod (g := ({ g with prods := emptyFreeProds nul g.prods } : G)) hmem
      exact hh ▸ h1.trans hd

theorem elimEmpty_complete {g g' : G} (h : elimEmpty g = .ok g') {w : List String}
    (hw : Language g w) : Language g' w := by
  obtain ⟨nul, hn, hcase⟩ := elimEmpty_ok h
  have hkey := emptyFree_complete_nonterm hn
  unfold Language at hw
  obtain ⟨k, dk⟩ := hw.toDerivesIn
  rcases hcase with ⟨hs, rfl⟩ | ⟨hs, s', _, rfl⟩
  · rw [prune_language]
    by_cases hw0 : w = []
    · subst hw0
      exact absurd (nullable_complete hn g.start (by simpa using hw)) hs
    · exact hkey k g.start w hw0 dk
  · rw [prune_language]
    unfold Language
    by_cases hw0 : w = []
    · subst hw0
      exact Derives.of_prod (p := { head := s', body := [] }) (mem_ins.mpr (Or.inr rfl))
    · have h1 := hkey k g.start w hw0 dk
      have h2 : Derives (T := String) (N := String)
          { terms := g.terms, nonterms := g.nonterms ++ [s'], start := s',
            prods := ins (ins (emptyFreeProds nul g.prods) { head := s', body := [Sym.nonterm g.start] })
                       { head := s', body := [] } }
          [Sym.nonterm s'] [Sym.nonterm g.start] :=
        Derives.of_prod (p := { head := s', body := [Sym.nonterm g.start] })
          (mem_ins.mpr (Or.inl (mem_ins.mpr (Or.inr rfl))))
      refine h2.trans (h1.mono ?_)
      intro p hp
      exact mem_ins.mpr (Or.inl (mem_ins.mpr (Or.inl hp)))

theorem elimEmpty_language {g g' : G} (h : elimEmpty g = .ok g') (hv : WellFormed g) (w : List String) :
    Language g' w ↔ Language g w :=
  ⟨elimEmpty_sound h hv, elimEmpty_complete h⟩

end AlgoVerif.C08
