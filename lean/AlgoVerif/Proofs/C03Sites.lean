import AlgoVerif.Model.C03
import AlgoVerif.Proofs.C02Chain
import AlgoVerif.Proofs.C02OA
import AlgoVerif.Proofs.C02LinDel
/-!
# C03: the constructor call sites of /repo (`Generated/C03CallSites.lean`) against `ValidOpts`

`ValidFor c o` is *exactly* the hypothesis on the options that `C03_quadratic`, `C03_double`, `C03_linear`,
`C03_chain` (and the C02 theorems) make — after the constructor's own defaulting of zero fields, which is part
of `OA.ValidOpts` / `Lin.ValidOpts` / `Chain.ValidOpts` (`effLF`, `cap = 0`).  It is decidable, so the validity of
the whole regenerated table is checked by `decide` (`C03_repo_callsites_valid` in `Props/C03.lean`).
-/
namespace AlgoVerif.C03
open AlgoVerif AlgoVerif.C02 AlgoVerif.Generated

instance (a b c d : LF) : Decidable (ValidLF a b c d) :=
  decidable_of_iff (0 < c.den ∧ 0 < d.den ∧ a.num * c.den ≤ c.num * a.den ∧ c.num * d.den < d.num * c.den ∧
      d.num * b.den ≤ b.num * d.den)
    ⟨fun ⟨h1, h2, h3, h4, h5⟩ => ⟨h1, h2, h3, h4, h5⟩, fun h => ⟨h.minDen, h.maxDen, h.minGe, h.lt, h.maxLe⟩⟩

instance (k : Kind) (o : Opts) : Decidable (OA.ValidOpts k o) := by unfold OA.ValidOpts; infer_instance
instance (o : Opts) : Decidable (Lin.ValidOpts o) := by unfold Lin.ValidOpts; infer_instance
instance (o : Opts) : Decidable (Chain.ValidOpts o) := by unfold Chain.ValidOpts; infer_instance

/-- the hypothesis of the C03 (and C02) theorem of the table the constructor builds -/
def ValidFor : C03Ctor → Opts → Prop
  | .quadratic, o => OA.ValidOpts .quad o
  | .double, o => OA.ValidOpts .dbl o
  | .linear, o => Lin.ValidOpts o
  | .chain, o => Chain.ValidOpts o

instance (c : C03Ctor) (o : Opts) : Decidable (ValidFor c o) := by
  cases c <;> (unfold ValidFor; infer_instance)

/-- default load-factor bounds of the table a constructor builds -/
def dminOf : C03Ctor → LF
  | .quadratic => Kind.quad.defMinLF
  | .double => Kind.dbl.defMinLF
  | .linear => lpMinLF
  | .chain => scMinLF
def dmaxOf : C03Ctor → LF
  | .quadratic => Kind.quad.defMaxLF
  | .double => Kind.dbl.defMaxLF
  | .linear => lpMaxLF
  | .chain => scMaxLF

/-- a call inside a method of the table's own struct that hands the receiver's bounds on to the new table
(`resize`, `SelectMatch`, `PartitionMatch`): capacity absent, or — in `resize` — the prime / power of two the
method computed (that call is the one `OA.resizeWith` / `Lin.resizeWith` / `Chain.resizeWith` model) -/
def Inherits (s : C03CallSite) : Prop :=
  s.internal = true ∧ s.minLF = .recvMin ∧ s.maxLF = .recvMax ∧ (s.cap = .dflt ∨ s.cap = .resizeArg)

instance (s : C03CallSite) : Decidable (Inherits s) := by unfold Inherits; infer_instance

/-- a call site is fine when its options are known statically and satisfy the hypothesis of the theorems, or
when it inherits the bounds of an existing table; a site with an `unknown` field is neither -/
def SiteValid (s : C03CallSite) : Prop :=
  match staticOpts s with
  | some o => ValidFor s.ctor o
  | none => Inherits s

instance (s : C03CallSite) : Decidable (SiteValid s) := by
  unfold SiteValid; cases staticOpts s <;> infer_instance

/-- bounds that satisfy `ValidLF` are not zero, so the constructor does not replace them by the defaults -/
theorem effLF_of_valid {dmin dmax a b : LF} (h : ValidLF dmin dmax a b) (h0 : dmin.num ≠ 0) :
    effLF a dmin = a ∧ effLF b dmax = b := by
  obtain ⟨h1, h2, h3, h4, h5⟩ := h
  have ha : a.num ≠ 0 := by
    intro hz
    rw [hz, Nat.zero_mul] at h3
    rcases Nat.mul_eq_zero.mp (Nat.le_zero.mp h3) with h | h <;> omega
  have hb : b.num ≠ 0 := by
    intro hz
    rw [hz, Nat.zero_mul] at h4
    omega
  simp [effLF, ha, hb]

/-- a new table that inherits the bounds of a table with valid bounds (and takes the default capacity) is built
with valid options -/
theorem inherits_valid (c : C03Ctor) (rmin rmax : LF) (hr : ValidLF (dminOf c) (dmaxOf c) rmin rmax) :
    ValidFor c ⟨0, rmin, rmax⟩ := by
  cases c
  · have h := effLF_of_valid hr (by decide)
    refine ⟨Or.inl rfl, ?_⟩
    show ValidLF _ _ (effLF rmin (dminOf .quadratic)) (effLF rmax (dmaxOf .quadratic))
    rw [h.1, h.2]; exact hr
  · have h := effLF_of_valid hr (by decide)
    refine ⟨Or.inl rfl, ?_⟩
    show ValidLF _ _ (effLF rmin (dminOf .double)) (effLF rmax (dmaxOf .double))
    rw [h.1, h.2]; exact hr
  · have h := effLF_of_valid hr (by decide)
    refine ⟨Or.inl rfl, ?_⟩
    show ValidLF _ _ (effLF rmin (dminOf .linear)) (effLF rmax (dmaxOf .linear))
    rw [h.1, h.2]; exact hr
  · have h := effLF_of_valid hr (by decide)
    refine ⟨Or.inl rfl, ?_⟩
    show ValidLF _ _ (effLF rmin (dminOf .chain)) (effLF rmax (dmaxOf .chain))
    rw [h.1, h.2]; exact hr

/-- what the C03 theorems conclude about a table built with options `o` (without the probe-count clause): the
constructor accepts the options, every history reaches a state, and any further operation returns -/
def Terminates : C03Ctor → Opts → Prop
  | .quadratic, o => ∀ (K V σ : Type) [DecidableEq K] (hash : K → UInt64) (sh : Shuffle σ), ShufflePerm sh →
      ∀ (eqVal : V → V → Bool) (g : σ) (ops : List (Op K V)) (op : Op K V),
      ∃ t0 : OATable K V, OA.new .quad o = .ok t0 ∧
        ∃ st r, reach (OA.impl sh hash eqVal) ⟨t0, t0, g⟩ ops = some st ∧ step (OA.impl sh hash eqVal) st op = .ok r
  | .double, o => ∀ (K V σ : Type) [DecidableEq K] (hash : K → UInt64) (sh : Shuffle σ), ShufflePerm sh →
      ∀ (eqVal : V → V → Bool) (g : σ) (ops : List (Op K V)) (op : Op K V),
      ∃ t0 : OATable K V, OA.new .dbl o = .ok t0 ∧
        ∃ st r, reach (OA.impl sh hash eqVal) ⟨t0, t0, g⟩ ops = some st ∧ step (OA.impl sh hash eqVal) st op = .ok r
  | .linear, o => ∀ (K V σ : Type) [DecidableEq K] (hash : K → UInt64) (sh : Shuffle σ), ShufflePerm sh →
      ∀ (eqVal : V → V → Bool) (g : σ) (ops : List (Op K V)) (op : Op K V),
      ∃ t0 : LinTable K V, Lin.new o = .ok t0 ∧
        ∃ st r, reach (Lin.impl sh hash eqVal) ⟨t0, t0, g⟩ ops = some st ∧ step (Lin.impl sh hash eqVal) st op = .ok r
  | .chain, o => ∀ (K V σ : Type) [DecidableEq K] (hash : K → UInt64) (sh : Shuffle σ), ShufflePerm sh →
      ∀ (eqVal : V → V → Bool) (g : σ) (ops : List (Op K V)) (op : Op K V),
      ∃ t0 : ChainTable K V, Chain.new o = .ok t0 ∧
        ∃ st r, reach (Chain.impl sh hash eqVal) ⟨t0, t0, g⟩ ops = some st ∧ step (Chain.impl sh hash eqVal) st op = .ok r

end AlgoVerif.C03
