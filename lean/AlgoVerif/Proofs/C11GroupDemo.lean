import AlgoVerif.Proofs.C11GroupMain
import AlgoVerif.Proofs.C11Demo
/-!
# C11 — whole-expression grouping: the resolved tables of `E → E + E | E * E | E ^ E | id` pass the validator
(kernel-evaluated), hence their parsers compute `Spec.climb` on EVERY token string
-/
namespace AlgoVerif.C11.Group
open AlgoVerif AlgoVerif.Gram AlgoVerif.C11 AlgoVerif.C11.Spec AlgoVerif.C11.Demo

/-- the table `BuildParsingTable(G, precedences)` returns when every conflict is resolved -/
def resolvedTable (k : Kind) (g : SGrammar) (ls : List Level) (fuel : Nat) : Option Table :=
  match build k g fuel with
  | .ok b =>
    match resolveAll ls (fun _ _ acts => acts) b.table with
    | .ok (T, .table) => some T
    | _ => none
  | _ => none

set_option maxRecDepth 1000000 in
theorem gExpr_opTable :
    (match resolvedTable .slr gExpr exprLevels 60 with | some T => opTableOK ["+", "*", "^"] exprLevels T | none => false) = true ∧
    (match resolvedTable .lalr gExpr exprLevels 60 with | some T => opTableOK ["+", "*", "^"] exprLevels T | none => false) = true ∧
    (match resolvedTable .lr1 gExpr exprLevels 60 with | some T => opTableOK ["+", "*", "^"] exprLevels T | none => false) = true := by
  decide

theorem exprLevels_for : LevelsFor ["+", "*", "^"] exprLevels := by
  apply levelsFor_of
  · intro o
    simp only [exprLevels, List.mem_cons, List.not_mem_nil, or_false, exists_eq_or_imp, exists_eq_left,
      Handle.term.injEq]
    constructor
    · rintro (h | h | h) <;> simp [h]
    · rintro (h | h | h) <;> simp [h]
  · intro l hl
    simp only [exprLevels, List.mem_cons, List.not_mem_nil, or_false] at hl
    rcases hl with rfl | rfl | rfl <;> decide
  · decide
  · decide

theorem gExpr_is_gOps : gExpr = gOps ["+", "*", "^"] := rfl

/-- for the operator grammar `E → E + E | E * E | E ^ E | id` with `^` right > `*` left > `+` left, the resolved SLR(1),
LALR(1) and LR(1) parsers of the Model accept a token string iff the precedence-climbing reference returns an expression,
and then return exactly its tree — for EVERY token string -/
theorem gExpr_groups (k : Kind) (T : Table) (hT : resolvedTable k gExpr exprLevels 60 = some T) (w : List String)
    (hw : endmarker ∉ w) :
    (∀ e, climb exprLevels w = some e → ∃ fuel π, parse T.toTbl fuel w = Outcome.ok (PResult.accept π (treeOf e))) ∧
    (climb exprLevels w = none → ∃ fuel pos, parse T.toTbl fuel w = Outcome.ok (PResult.reject pos)) := by
  have hok : opTableOK ["+", "*", "^"] exprLevels T = true := by
    have := gExpr_opTable
    cases k with
    | slr => have h1 := this.1; rw [hT] at h1; exact h1
    | lalr => have h1 := this.2.1; rw [hT] at h1; exact h1
    | lr1 => have h1 := this.2.2; rw [hT] at h1; exact h1
  obtain ⟨C⟩ := opTable_of_ok hok
  exact group_correct C exprLevels_for (by decide) w hw

end AlgoVerif.C11.Group
