import AlgoVerif.Proofs.C11CompleteSLR
/-!
# C11 — the executable SLR completeness validator implies `CompleteTable0`
-/
namespace AlgoVerif.C11.Complete
open AlgoVerif AlgoVerif.Gram AlgoVerif.C11 AlgoVerif.C11.Spec

theorem followClosedBody_spec {nl : List String} {fe fo : Env} {head : String} :
    ∀ (body pre : List Sy) (B : String) (σ : List Sy), followClosedBody nl fe fo head body = true →
      body = pre ++ Sym.nonterm B :: σ →
      (∀ c ∈ firstOfStr nl fe σ, c ∈ envGet fo B) ∧
      (σ.all (symNullable nl) = true → ∀ c ∈ envGet fo head, c ∈ envGet fo B)
  | [], pre, B, σ, _, hb => by simp at hb
  | X :: rest, [], B, σ, h, hb => by
    simp only [List.nil_append, List.cons.injEq] at hb
    obtain ⟨rfl, rfl⟩ := hb
    simp only [followClosedBody, Bool.and_eq_true, List.all_eq_true, List.contains_eq_mem, decide_eq_true_eq,
      Bool.or_eq_true, Bool.not_eq_true'] at h
    refine ⟨h.1.1, fun hn c hc => ?_⟩
    rcases h.1.2 with h2 | h2
    · rw [List.all_eq_true] at hn
      have : (rest.all (symNullable nl)) = true := by rw [List.all_eq_true]; exact hn
      rw [this] at h2; cases h2
    · exact h2 c hc
  | X :: rest, Y :: pre, B, σ, h, hb => by
    simp only [List.cons_append, List.cons.injEq] at hb
    obtain ⟨rfl, hb'⟩ := hb
    have hrest : followClosedBody nl fe fo head rest = true := by
      cases X with
      | term a => simpa [followClosedBody] using h
      | nonterm C =>
        simp only [followClosedBody, Bool.and_eq_true] at h
        exact h.2
    exact followClosedBody_spec rest pre B σ hrest hb'

theorem completeTable0_of_check (g : SGrammar) (b : Built) (hv : completeSLROK g b = true) :
    ∃ nl fe fo, CompleteTable0 g b.start nl fe fo (itemsAt b.states) b.table.toTbl := by
  unfold completeSLROK at hv
  cases ha : augment g with
  | panic => simp [ha] at hv
  | diverge => simp [ha] at hv
  | ok g' =>
    simp only [ha, Bool.and_eq_true, beq_iff_eq] at hv
    obtain ⟨⟨⟨⟨⟨⟨⟨⟨⟨⟨⟨hstart, hnull⟩, hfirst⟩, hfollow⟩, hfs⟩, hinit⟩, hall⟩, hclosed⟩, hadv⟩, hred⟩, hcf⟩, hfresh⟩ := hv
    refine ⟨nullableOf g', firstEnv g' (nullableOf g'), followEnv g' (nullableOf g') (firstEnv g' (nullableOf g')), ?_⟩
    have hsub : ∀ p ∈ g.prods, p ∈ g'.prods := by
      intro p hp
      unfold augment at ha
      cases hs : augStart g with
      | none => simp [hs] at ha
      | some s' =>
        simp only [hs, Outcome.ok.injEq] at ha
        subst ha
        simp [Built.mem_dedupProds, hp]
    have hfreshP : ∀ p ∈ g.prods, p.head ≠ b.start := by
      unfold chkFresh at hfresh
      simp only [Bool.and_eq_true, Bool.not_eq_true', List.all_eq_true, beq_eq_false_iff_ne, ne_eq] at hfresh
      exact hfresh.2
    have hla : ∀ s it, it ∈ itemsAt b.states s → it.la = none := by
      intro s it hit
      obtain ⟨n, I, _, hI, heq⟩ := itemsAt_get hit
      simp only [List.all_eq_true] at hall
      have := hall I (List.mem_of_getElem? hI) it (heq ▸ hit)
      simpa using this
    refine ⟨?_, ?_, ?_, ?_, ?_, ?_, ?_, ?_, ?_, ?_, ?_, hfreshP⟩
    · simpa using hinit
    · -- closed
      intro s it B hit hdot p hp hhead
      obtain ⟨n, I, _, hI, heq⟩ := itemsAt_get hit
      unfold chkClosed at hclosed
      simp only [List.all_eq_true] at hclosed
      have := hclosed I (List.mem_of_getElem? hI) it (heq ▸ hit)
      simp only [hdot, hla s it hit, List.all_eq_true] at this
      have hp' : p ∈ prodsOf g' B := by
        simp [prodsOf, hsub p hp, hhead]
      have := this p hp'
      rw [heq]
      simpa using this
    · -- advance on a terminal
      intro s it a hit hdot
      obtain ⟨n, I, hs, hI, heq⟩ := itemsAt_get hit
      unfold chkAdvance at hadv
      simp only [List.all_eq_true] at hadv
      have := hadv (I, n) (List.mem_zipIdx_iff_getElem?.mpr hI) it (heq ▸ hit)
      simp only [hdot, List.any_eq_true] at this
      obtain ⟨act, hact, hok⟩ := this
      cases act with
      | shift t => exact ⟨t, by rw [hs]; exact hact, by simpa using hok⟩
      | reduce p => simp at hok
      | accept => simp at hok
    · -- advance on a non-terminal
      intro s it A hit hdot
      obtain ⟨n, I, hs, hI, heq⟩ := itemsAt_get hit
      unfold chkAdvance at hadv
      simp only [List.all_eq_true] at hadv
      have := hadv (I, n) (List.mem_zipIdx_iff_getElem?.mpr hI) it (heq ▸ hit)
      simp only [hdot] at this
      cases hg : b.table.goto (n : Int) A with
      | none => simp [hg] at this
      | some t =>
        simp only [hg] at this
        exact ⟨t, by rw [hs]; exact hg, by simpa using this⟩
    · -- reduce
      intro s it hit hcomp hhead a ha
      obtain ⟨n, I, hs, hI, heq⟩ := itemsAt_get hit
      unfold chkReduceComplete at hred
      simp only [List.all_eq_true] at hred
      have := hred (I, n) (List.mem_zipIdx_iff_getElem?.mpr hI) it (heq ▸ hit)
      have hh : (it.prod.head == b.start) = false := by simpa using hhead
      simp only [hcomp, if_true, hh, Bool.false_eq_true, if_false, hla s it hit, List.all_eq_true] at this
      rw [hs]
      show Action.reduce it.prod ∈ b.table.cell (n : Int) a
      simpa using this a ha
    · -- accept
      intro s it hit hcomp hhead
      obtain ⟨n, I, hs, hI, heq⟩ := itemsAt_get hit
      unfold chkReduceComplete at hred
      simp only [List.all_eq_true] at hred
      have := hred (I, n) (List.mem_zipIdx_iff_getElem?.mpr hI) it (heq ▸ hit)
      have hh : (it.prod.head == b.start) = true := by simpa using hhead
      simp only [hcomp, if_true, hh] at this
      rw [hs]
      show Action.accept ∈ b.table.cell (n : Int) endmarker
      simpa using this
    · exact fun s a => cell_len hcf s a
    · intro p hp hall'
      unfold chkNullClosed at hnull
      simp only [List.all_eq_true, Bool.or_eq_true, Bool.not_eq_true'] at hnull
      rcases hnull p (hsub p hp) with h1 | h1
      · rw [hall'] at h1; cases h1
      · simpa using h1
    · intro p hp c hc
      unfold chkFirstClosed at hfirst
      simp only [List.all_eq_true] at hfirst
      simpa using hfirst p (hsub p hp) c hc
    · -- FOLLOW closed
      intro p hp pre B σ hb
      unfold chkFollowClosed at hfollow
      rw [List.all_eq_true] at hfollow
      exact followClosedBody_spec p.body pre B σ (hfollow p (hsub p hp)) hb
    · simpa using hfs

end AlgoVerif.C11.Complete
