import AlgoVerif.Spec.C16
/-!
# C16 helper lemmas: counting a list by the value of a bounded function
-/
namespace AlgoVerif.C16
open AlgoVerif.C16.Spec

theorem sumTo_zero : ∀ N, sumTo (fun _ => 0) N = 0
  | 0 => rfl
  | N + 1 => by simp [sumTo, sumTo_zero N]

theorem sumTo_add (f g : Nat → Nat) : ∀ N, sumTo (fun k => f k + g k) N = sumTo f N + sumTo g N
  | 0 => rfl
  | N + 1 => by simp only [sumTo, sumTo_add f g N]; omega

theorem sumTo_indicator (v : Nat) : ∀ N, sumTo (fun k => if v = k then 1 else 0) N = if v < N then 1 else 0
  | 0 => by simp [sumTo]
  | N + 1 => by
    simp only [sumTo, sumTo_indicator v N]
    by_cases h₁ : v < N
    · have : ¬ v = N := by omega
      have h₂ : v < N + 1 := by omega
      simp [h₁, this, h₂]
    · by_cases h₂ : v = N
      · subst h₂; simp
      · have : ¬ v < N + 1 := by omega
        simp [h₁, h₂, this]

theorem sumTo_congr {f g : Nat → Nat} : ∀ N, (∀ k, k < N → f k = g k) → sumTo f N = sumTo g N
  | 0, _ => rfl
  | N + 1, h => by
    simp only [sumTo]
    rw [sumTo_congr N (fun k hk => h k (by omega)), h N (by omega)]

/-- a list is as long as the sum, over the possible values, of how often each value occurs -/
theorem length_eq_sumTo {β : Type} (f : β → Nat) (N : Nat) : ∀ (l : List β), (∀ a ∈ l, f a < N) →
    l.length = sumTo (fun k => l.countP (fun a => f a == k)) N
  | [], _ => by simp [sumTo_zero]
  | a :: l, h => by
    have ih := length_eq_sumTo f N l (fun b hb => h b (List.mem_cons_of_mem _ hb))
    have hc : ∀ k, (a :: l).countP (fun a => f a == k) =
        l.countP (fun a => f a == k) + (if f a = k then 1 else 0) := by
      intro k
      rw [List.countP_cons]
      simp
    simp only [hc, sumTo_add, sumTo_indicator, h a (List.mem_cons_self ..), ↓reduceIte, List.length_cons]
    omega

theorem countP_const {β : Type} (f : β → Nat) (m k : Nat) : ∀ (l : List β), (∀ a ∈ l, f a = m) →
    l.countP (fun a => f a == k) = if m = k then l.length else 0
  | [], _ => by simp
  | a :: l, h => by
    have ih := countP_const f m k l (fun b hb => h b (List.mem_cons_of_mem _ hb))
    rw [List.countP_cons, ih, h a (List.mem_cons_self ..)]
    by_cases hmk : m = k <;> simp [hmk]

end AlgoVerif.C16
