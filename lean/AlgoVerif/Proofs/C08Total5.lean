import AlgoVerif.Proofs.C08Total4
/-!
# Totality, part 5: `ChomskyNormalForm` returns a grammar for every valid hygienic grammar with a non-empty
language, unless BIN runs out of numeric suffixes
-/
namespace AlgoVerif.C08
open AlgoVerif AlgoVerif.Gram AlgoVerif.C08.Spec

/-- the shapes of the names a grammar in the CNF pipeline declares: hygienic, one exceptional name `x`
(the start symbol START introduced), or something followed by an alphabetic / numeric suffix -/
def NameShape (x : String) (n : String) : Prop :=
  hygienicName n = true ∨ n = x ∨ ∃ b s, s ∈ alphas ++ numerics ∧ n = b ++ s

theorem lastChar_alnum : ∀ s ∈ alphas ++ numerics,
    ∃ c, s.toList.getLast? = some c ∧ c ≠ '′' ∧ c ≠ '″' := by
  have h : (alphas ++ numerics).all (fun s => match s.toList.getLast? with
      | some c => c != '′' && c != '″'
      | none => false) = true := by decide
  intro s hs
  have := List.all_eq_true.mp h s hs
  cases hl : s.toList.getLast? with
  | none => rw [hl] at this; cases this
  | some c =>
    rw [hl] at this
    simp at this
    exact ⟨c, rfl, this.1, this.2⟩

/-- among names of these shapes some prime-suffixed candidate is free, whatever the base -/
theorem prime_candidate_free {x : String} {N : List String} (hN : ∀ n ∈ N, NameShape x n) :
    ∃ sx ∈ primes, ∀ base : String, base ++ sx ∉ N := by
  have key : ∀ (sx : String) (c : Char), sx ∈ primes → sx.toList.getLast? = some c → (c = '′' ∨ c = '″') →
      x.toList.getLast? ≠ some c → ∀ base : String, base ++ sx ∉ N := by
    intro sx c hsx hc hcc hx base hm
    have hlast : (base ++ sx).toList.getLast? = some c := getLast?_append_str base sx hc
    rcases hN _ hm with hh | he | ⟨b, s, hs, he⟩
    · rw [not_hyg_append base (primes_reserved sx hsx)] at hh; cases hh
    · rw [he] at hlast; exact hx hlast
    · obtain ⟨d, hd, hd1, hd2⟩ := lastChar_alnum s hs
      rw [he, getLast?_append_str b s hd] at hlast
      have : d = c := by simpa using hlast
      rcases hcc with rfl | rfl
      · exact hd1 this
      · exact hd2 this
  by_cases hx : x.toList.getLast? = some '′'
  · exact ⟨"″", by decide, key "″" '″' (by decide) (by decide) (Or.inr rfl) (by rw [hx]; decide)⟩
  · exact ⟨"′", by decide, key "′" '′' (by decide) (by decide) (Or.inl rfl) hx⟩

theorem cnf_total {g : G} (hv : Valid g) (hh : Hygienic g) (hl : ∃ w, Language g w)
    (hbin : ∀ g1 g2, cnfStart g = .ok g1 → cnfTerm g1 = .ok g2 → cnfBin g2 ≠ .panic) :
    ∃ g', cnf g = .ok g' := by
  obtain ⟨g1, h1⟩ := cnfStart_total hv hh
  have v1 := cnfStart_valid h1 hv
  obtain ⟨g2, h2⟩ := cnfTerm_total v1.wellFormed (cnfStart_alphaFree h1 hh)
  have v2 := cnfTerm_valid h2 v1
  obtain ⟨g3, h3⟩ : ∃ g3, cnfBin g2 = .ok g3 := by
    cases hb : cnfBin g2 with
    | ok g3 => exact ⟨g3, rfl⟩
    | panic => exact absurd hb (hbin g1 g2 h1 h2)
    | diverge => exact absurd hb (cnfBin_ne_diverge g2)
  have v3 := cnfBin_valid h3 v2
  obtain ⟨w, hw⟩ := hl
  have l3 : ∃ w, Language g3 w := ⟨w, by
    rw [cnfBin_language h3 v2.wellFormed, cnfTerm_language h2 v1.wellFormed, cnfStart_language h1 hv.wellFormed]
    exact hw⟩
  -- the names g3 declares
  obtain ⟨store, hct, _⟩ := cnfTerm_spec h2
  obtain ⟨defs, hcb, _, _⟩ := cnfBin_spec v2.wellFormed h3
  have hshape1 : ∃ x, ∀ n ∈ g1.nonterms, NameShape x n := by
    rcases cnfStart_ok h1 with rfl | ⟨s', _, rfl⟩
    · exact ⟨g1.start, fun n hn => Or.inl (hh.1 n hn)⟩
    · refine ⟨s', fun n hn => ?_⟩
      simp at hn
      rcases hn with hn | rfl
      · exact Or.inl (hh.1 n hn)
      · exact Or.inr (Or.inl rfl)
  obtain ⟨x, hx1⟩ := hshape1
  have hshape3 : ∀ n ∈ g3.nonterms, NameShape x n := by
    intro n hn
    rw [hcb.nonterms] at hn
    rcases List.mem_append.mp hn with hn | hn
    · have hnt2 : g2.nonterms = g1.nonterms ++ store.map (fun e => e.2) := hct.nonterms
      rw [hnt2] at hn
      rcases List.mem_append.mp hn with hn | hn
      · exact hx1 n hn
      · obtain ⟨e, he, rfl⟩ := List.mem_map.mp hn
        obtain ⟨s, hs, hf⟩ := hct.form e he
        exact Or.inr (Or.inr ⟨_, s, List.mem_append.mpr (Or.inl hs), hf⟩)
    · obtain ⟨d, hd, rfl⟩ := List.mem_map.mp hn
      obtain ⟨b, s, hs, hf⟩ := hcb.form d hd
      exact Or.inr (Or.inr ⟨b, s, List.mem_append.mpr (Or.inr hs), hf⟩)
  -- DEL
  obtain ⟨g4, h4⟩ : ∃ g4, elimEmpty g3 = .ok g4 := by
    obtain ⟨nul, hn⟩ := nullable_total g3
    unfold elimEmpty
    simp only [hn, bind, Outcome.bind]
    split
    · obtain ⟨sx, hsx, hfree⟩ := prime_candidate_free hshape3
      obtain ⟨r, hr⟩ := addNew_total_of_exists (g := { g3 with prods := emptyFreeProds nul g3.prods })
        (pre := g3.start) (sufs := primes) ⟨sx, hsx, hfree _⟩
      rw [hr]
      exact ⟨_, rfl⟩
    · exact ⟨_, rfl⟩
  have v4 := elimEmpty_valid h4 v3 l3
  obtain ⟨w3, hw3⟩ := l3
  obtain ⟨g5, h5⟩ := elimSingle_total v4
  obtain ⟨g6, h6⟩ := elimUnreachable_total g5
  unfold cnf
  simp only [h1, bind, Outcome.bind, h2, h3, h4, h5]
  exact ⟨g6, h6⟩

/-- "BIN does not run out of numeric suffixes", as a computable condition on the input of `ChomskyNormalForm`:
START, TERM, BIN on `g` do not end in `AddNewNonTerminal`'s panic -/
def binNamesSuffice (g : G) : Bool :=
  match ((cnfStart g).bind cnfTerm).bind cnfBin with
  | .panic => false
  | _ => true

theorem binNamesSuffice_spec {g : G} (h : binNamesSuffice g = true) :
    ∀ g1 g2, cnfStart g = .ok g1 → cnfTerm g1 = .ok g2 → cnfBin g2 ≠ .panic := by
  intro g1 g2 h1 h2 hp
  unfold binNamesSuffice at h
  simp [h1, h2, hp, Outcome.bind] at h

end AlgoVerif.C08
