import AlgoVerif.Proofs.C11LalrStates
import AlgoVerif.Proofs.C11CompleteSLRCheck
/-!
# C11 — every LALR(1) lookahead the Model computes lies in FOLLOW of the head of its item

(the inclusion behind "SLR(1) conflict-free ⇒ LALR(1) conflict-free").  `FOLLOW` is the Model's `followEnv` of the
augmented grammar; all that is used about it is that it is closed under the productions and that FOLLOW(S′) ∋ `$`
(`follow_closed`).

* `clo_follow_dummy`: in CLOSURE(`[k, $]`) a lookahead other than `$` lies in FOLLOW of the item's head, and where `$` is
  handed on, FOLLOW of the head of `k` is contained in FOLLOW of the item's head;
* `las_follow`: hence every entry of the finished lookahead table lies in FOLLOW of the head of its kernel item
  (spontaneous entries directly, propagated ones by induction over the passes);
* `clo_follow`: and so does every lookahead of an item of the closure of an LALR kernel.
-/
namespace AlgoVerif.C11.Lalr
open AlgoVerif AlgoVerif.Gram AlgoVerif.C11 AlgoVerif.C11.Spec AlgoVerif.C11.Built AlgoVerif.C11.BuiltComplete

theorem dotSym_split {it : Item} {X : Sy} (hd : it.dotSym = some X) :
    it.prod.body = it.prod.body.take it.dot ++ X :: it.prod.body.drop (it.dot + 1) := by
  unfold Item.dotSym at hd
  have hlt : it.dot < it.prod.body.length := by
    rcases Nat.lt_or_ge it.dot it.prod.body.length with h | h
    · exact h
    · rw [List.getElem?_eq_none h] at hd; cases hd
  have hget : it.prod.body[it.dot] = X := by
    rw [List.getElem?_eq_getElem hlt] at hd
    exact Option.some.inj hd
  conv => lhs; rw [← List.take_append_drop it.dot it.prod.body]
  congr 1
  rw [← hget]
  exact List.drop_eq_getElem_cons hlt

/-- a property of (kernel item, lookahead) pairs holds for every entry of the table -/
def LasP (P : Item → String → Prop) (S0 : StateMap) (t : LaTable) : Prop :=
  ∀ e ∈ t, ∀ it, itemAt S0 e.1 = some it → ∀ a ∈ e.2, P it a

theorem lasP_laAdd {P : Item → String → Prop} {S0 : StateMap} {t : LaTable} {k : Key} {ls : List String}
    (ht : LasP P S0 t) (hk : ∀ it, itemAt S0 k = some it → ∀ a ∈ ls, P it a) : LasP P S0 (laAdd t k ls) := by
  intro e he it hit a ha
  rcases mem_laAdd he with h1 | ⟨hkey, h2⟩
  · exact ht e h1 it hit a ha
  · rcases h2 a ha with ⟨e0, he0, hk0, ha0⟩ | h3
    · exact ht e0 he0 it (by rw [hk0, ← hkey]; exact hit) a ha0
    · exact hk it (by rw [← hkey]; exact hit) a h3

/-- a link hands lookaheads on to an item for which they are admissible too -/
def LinkP (P : Item → String → Prop) (S0 : StateMap) (links : Links) : Prop :=
  ∀ l ∈ links, ∀ it', itemAt S0 l.2 = some it' → ∃ it, itemAt S0 l.1 = some it ∧ ∀ a, P it a → P it' a

theorem pstep_lasP {P : Item → String → Prop} {S0 : StateMap} {t : LaTable} {x : Key × Key}
    (hx : ∀ it', itemAt S0 x.2 = some it' → ∃ it, itemAt S0 x.1 = some it ∧ ∀ a, P it a → P it' a)
    (ht : LasP P S0 t) : LasP P S0 (pstep t x) := by
  unfold pstep
  cases hg : laGet t x.1 with
  | none => exact ht
  | some ls =>
    simp only
    split
    · exact ht
    · apply lasP_laAdd ht
      intro it' hit' a ha
      obtain ⟨it, hit, himp⟩ := hx it' hit'
      have hmem : (x.1, ls) ∈ t := by
        unfold laGet at hg
        exact AlgoVerif.C11.Sound.lookup_mem _ _ _ hg
      exact himp a (ht _ hmem it hit a ha)

theorem pass_lasP {P : Item → String → Prop} {S0 : StateMap} : ∀ (props : Links) (t : LaTable),
    LinkP P S0 props → LasP P S0 t → LasP P S0 (props.foldl pstep t)
  | [], _, _, h => h
  | x :: props, t, hl, h => by
    simp only [List.foldl_cons]
    exact pass_lasP props _ (fun l hl' => hl l (List.mem_cons_of_mem _ hl')) (pstep_lasP (hl x (by simp)) h)

theorem propagate_lasP {P : Item → String → Prop} {S0 : StateMap} (props : Links) (hl : LinkP P S0 props) :
    ∀ (fuel : Nat) (t las : LaTable), LasP P S0 t → propagate props fuel t = Outcome.ok las → LasP P S0 las
  | 0, _, _, _, hp => by simp [propagate] at hp
  | fuel + 1, t, las, h, hp => by
    unfold propagate at hp
    simp only at hp
    split at hp
    · simp only [Outcome.ok.injEq] at hp
      subst hp
      exact h
    · exact propagate_lasP props hl fuel _ las (pass_lasP props t hl h) hp

section
variable {g g' : SGrammar} (hv : ValidG g) (ht : TermsListed g) (ha : augment g = Outcome.ok g')
include hv ht ha

/-- FOLLOW of the augmented grammar, as the Model computes it -/
def FO (g' : SGrammar) (B : String) : List String :=
  envGet (followEnv g' (nullableOf g') (firstEnv g' (nullableOf g'))) B

/-- the two closure properties of FOLLOW at an item with a non-terminal after the dot -/
theorem follow_at {it : Item} (hp : it.prod ∈ g'.prods) {B : String} (hd : it.dotSym = some (Sym.nonterm B)) :
    (∀ c ∈ firstOfStr (nullableOf g') (firstEnv g' (nullableOf g')) (it.prod.body.drop (it.dot + 1)), c ∈ FO g' B) ∧
    ((it.prod.body.drop (it.dot + 1)).all (symNullable (nullableOf g')) = true →
      ∀ c ∈ FO g' it.prod.head, c ∈ FO g' B) := by
  have hL := augListed hv ht ha
  obtain ⟨hfc, _⟩ := follow_closed g' hL.listed hL.endIn (nullableOf g') hL.bodies hL.startIn
  unfold chkFollowClosed at hfc
  rw [List.all_eq_true] at hfc
  exact Complete.followClosedBody_spec _ _ B _ (hfc it.prod hp) (dotSym_split hd)

theorem follow_start : endmarker ∈ FO g' g'.start := by
  have hL := augListed hv ht ha
  exact (follow_closed g' hL.listed hL.endIn (nullableOf g') hL.bodies hL.startIn).2

/-- lookaheads in CLOSURE(`[k, $]`) -/
theorem clo_follow_dummy {k : Item} (hk : k.prod ∈ g'.prods) {x : Item}
    (hx : Clo g' (nullableOf g') (firstEnv g' (nullableOf g')) (fun i => i = withLa k endmarker) x) :
    ∃ b, x.la = some b ∧ ((b ≠ endmarker ∧ b ∈ FO g' x.prod.head) ∨
      (b = endmarker ∧ ∀ d ∈ FO g' k.prod.head, d ∈ FO g' x.prod.head)) := by
  induction hx with
  | base hs =>
    subst hs
    exact ⟨endmarker, rfl, Or.inr ⟨rfl, fun d hd => hd⟩⟩
  | @step i j hi hj ih =>
    obtain ⟨c, hic, hQ⟩ := ih
    obtain ⟨B, p, hd, hp, hcase⟩ := mem_closureCands.mp hj
    have hiprod : i.prod ∈ g'.prods := clo_prod hv ht ha (fun z hz => by rw [hz]; exact hk) hi
    obtain ⟨hf1, hf2⟩ := follow_at hv ht ha hiprod hd
    have hph : p.head = B := (mem_prodsOf.mp hp).2
    rcases hcase with ⟨hnone, _⟩ | ⟨c', b, hla, hb, rfl⟩
    · rw [hnone] at hic; cases hic
    · rw [hic] at hla
      simp only [Option.some.injEq] at hla
      subst hla
      refine ⟨b, rfl, ?_⟩
      simp only [hph]
      rcases mem_lookaheadsFor.mp hb with hfirst | ⟨hnull, rfl⟩
      · left
        refine ⟨?_, hf1 b hfirst⟩
        intro he
        exact first_no_end hv ht ha hiprod _ (he ▸ hfirst)
      · rcases hQ with ⟨h1, h2⟩ | ⟨h1, h2⟩
        · exact Or.inl ⟨h1, hf2 hnull _ h2⟩
        · exact Or.inr ⟨h1, fun d hd' => hf2 hnull _ (h2 d hd')⟩

/-- lookaheads in the closure of LR(1) items whose lookaheads lie in FOLLOW of their heads -/
theorem clo_follow {seed : Item → Prop}
    (hs : ∀ i, seed i → i.prod ∈ g'.prods ∧ ∃ a, i.la = some a ∧ a ∈ FO g' i.prod.head) {x : Item}
    (hx : Clo g' (nullableOf g') (firstEnv g' (nullableOf g')) seed x) :
    ∃ b, x.la = some b ∧ b ∈ FO g' x.prod.head := by
  induction hx with
  | base h => exact (hs _ h).2
  | @step i j hi hj ih =>
    obtain ⟨c, hic, hQ⟩ := ih
    obtain ⟨B, p, hd, hp, hcase⟩ := mem_closureCands.mp hj
    have hiprod : i.prod ∈ g'.prods := clo_prod hv ht ha (fun z hz => (hs z hz).1) hi
    obtain ⟨hf1, hf2⟩ := follow_at hv ht ha hiprod hd
    have hph : p.head = B := (mem_prodsOf.mp hp).2
    rcases hcase with ⟨hnone, _⟩ | ⟨c', b, hla, hb, rfl⟩
    · rw [hnone] at hic; cases hic
    · rw [hic] at hla
      simp only [Option.some.injEq] at hla
      subst hla
      refine ⟨b, rfl, ?_⟩
      simp only [hph]
      rcases mem_lookaheadsFor.mp hb with hfirst | ⟨hnull, rfl⟩
      · exact hf1 b hfirst
      · exact hf2 hnull _ hQ

variable {fuel : Nat} {K1 : List (List Item)} (R : LalrRun g' fuel K1)

/-- the invariant of the first loop -/
def FInv (g' : SGrammar) (S0 : StateMap) (acc : LaTable × Links) : Prop :=
  LasP (fun it a => a ∈ FO g' it.prod.head) S0 acc.1 ∧ LinkP (fun it a => a ∈ FO g' it.prod.head) S0 acc.2

theorem lalrVisit_follow {S0 : StateMap} {A0 : Auto} {I : List Item} {s ki : Nat} {k : Item}
    (hsrc : itemAt S0 ((s : Int), (ki : Int)) = some k) (hk : k.prod ∈ g'.prods)
    {acc acc' : LaTable × Links} {j : Item}
    (hj : Clo g' (nullableOf g') (firstEnv g' (nullableOf g')) (fun i => i = withLa k endmarker) j)
    (hinv : FInv g' S0 acc) (hvis : lalrVisit A0 S0 I ((s : Int), (ki : Int)) acc j = Outcome.ok acc') :
    FInv g' S0 acc' := by
  obtain ⟨b, hjb, hQ⟩ := clo_follow_dummy hv ht ha hk hj
  unfold lalrVisit at hvis
  split at hvis
  · rw [← pure_eq_ok hvis]; exact hinv
  · rename_i X hd
    obtain ⟨nextI, _, hrest⟩ := bind_eq_ok hvis
    simp only at hrest
    split at hrest
    · simp at hrest
    · rename_i hts
      split at hrest
      · rename_i a hla
        have hab : a = b := by rw [hjb] at hla; exact (Option.some.inj hla).symm
        subst hab
        split at hrest
        · -- a propagation link
          rename_i hae
          rw [← pure_eq_ok hrest]
          refine ⟨hinv.1, ?_⟩
          intro l hl it' hit'
          rcases List.mem_append.mp hl with h1 | h1
          · exact hinv.2 l h1 it' hit'
          · simp only [List.mem_singleton] at h1
            subst h1
            have hit'' := itemAt_target hts hit'
            subst hit''
            refine ⟨k, hsrc, ?_⟩
            intro d hdk
            rcases hQ with ⟨h1, _⟩ | ⟨_, h2⟩
            · exact absurd hae h1
            · exact h2 d hdk
        · -- a spontaneous lookahead
          rename_i hae
          rw [← pure_eq_ok hrest]
          refine ⟨lasP_laAdd hinv.1 ?_, hinv.2⟩
          intro it hit c hc
          have hit' := itemAt_target hts hit
          subst hit'
          simp only [List.mem_singleton] at hc
          subst hc
          rcases hQ with ⟨_, h2⟩ | ⟨h1, _⟩
          · exact h2
          · exact absurd h1 hae
      · rw [← pure_eq_ok hrest]; exact hinv

theorem lalrState_follow {S0 : StateMap} {A0 : Auto} {s : Nat} {I : List Item} (hI : S0[s]? = some I)
    (hgood : ∀ it ∈ I, it.prod ∈ g'.prods)
    {acc acc' : LaTable × Links} (hinv : FInv g' S0 acc)
    (hr : lalrState A0 (mkAuto g' true true fuel) S0 acc (I, s) = Outcome.ok acc') : FInv g' S0 acc' := by
  unfold lalrState at hr
  refine foldlM_inv _ (FInv g' S0) _ acc acc' ?_ hinv hr
  intro b ii b' hii hb hstep
  have hget : I[ii.2]? = some ii.1 := List.mem_zipIdx_iff_getElem?.mp hii
  have hmem : ii.1 ∈ I := List.mem_of_getElem? hget
  obtain ⟨J, hJ, hrest⟩ := bind_eq_ok hstep
  replace hJ : closure g' (nullableOf g') (firstEnv g' (nullableOf g')) fuel [withLa ii.1 endmarker] = Outcome.ok J := hJ
  refine foldlM_inv _ (FInv g' S0) J b b' ?_ hb hrest
  intro c j c' hj hc hvis
  apply lalrVisit_follow hv ht ha (itemAt_nat hI hget) (hgood ii.1 hmem) _ hc hvis
  exact clo_mono (fun z hz => by simpa using hz) ((mem_closure_iff (g := g') hJ j).mp hj)

/-- every lookahead of a kernel item lies in FOLLOW of the item's head -/
theorem las_follow {s : Nat} {k : Item} {a : String} (hLA : LA R.S0 R.las s k a) : a ∈ FO g' k.prod.head := by
  have h := augOK_of_augment hv ha
  have hS0 := s0_ok hv ht ha R
  -- the initial table
  have hinit0Eq := initialItem_eq h (A := mkAuto g' false true fuel) rfl
  have h00 : itemAt R.S0 (0, 0) = some (mkAuto g' false true fuel).initialItem := by
    -- state 0 of the kernel state map is [S′ → •S]
    have hK0 := R.hK0
    unfold Auto.canonical at hK0
    obtain ⟨I0, hI0, hrest⟩ := bind_eq_ok hK0
    have hI0' : I0 = [(mkAuto g' false true fuel).initialItem] := by simpa [mkAuto] using hI0.symm
    subst hI0'
    obtain ⟨rest0, hK0eq⟩ := canonicalLoop_head _ _ _ _ _ hrest
    have hC0 := kcanonical_spec h (A := mkAuto g' false true fuel) rfl rfl R.hK0
    obtain ⟨I0', rest0', hEq, h0, hr0⟩ := hC0
    rw [hK0eq] at hEq
    simp only [List.cons.injEq] at hEq
    obtain ⟨rfl, rfl⟩ := hEq
    have hinit0 : (mkAuto g' false true fuel).initialItem.isInitial g'.start = true := by
      rw [hinit0Eq]; simp [mkAuto, Item.isInitial, startProd, laIsEnd]
    obtain ⟨_, tail0, hS0eq, _⟩ := stateMap_specK' hinit0 h0 (fun J hJ => (hr0 J hJ).2)
    have hsort1 : sortBy (cmpItem g'.start) [(mkAuto g' false true fuel).initialItem]
        = [(mkAuto g' false true fuel).initialItem] := by simp [sortBy, insertBy]
    rw [hsort1] at hS0eq
    have hget : R.S0[0]? = some [(mkAuto g' false true fuel).initialItem] := by
      unfold LalrRun.S0; rw [hK0eq, hS0eq]; simp
    exact itemAt_nat (s := 0) (i := 0) hget (by simp)
  have hinv0 : FInv g' R.S0 ([((0, 0), [endmarker])], []) := by
    refine ⟨?_, by intro l hl; simp at hl⟩
    intro e he it hit c hc
    simp only [List.mem_singleton] at he
    subst he
    simp only [List.mem_singleton] at hc
    subst hc
    rw [h00] at hit
    simp only [Option.some.injEq] at hit
    subst hit
    rw [hinit0Eq]
    exact follow_start hv ht ha
  have hinv1 : FInv g' R.S0 R.lp := by
    refine foldlM_inv _ (FInv g' R.S0) _ _ R.lp ?_ hinv0 R.hlp
    intro b Is b' hIs hb hstep
    have hget : R.S0[Is.2]? = some Is.1 := List.mem_zipIdx_iff_getElem?.mp hIs
    exact lalrState_follow hv ht ha hget (fun it hit => (statesOK_good hS0 _ _ hget it hit).1) hb hstep
  have hfin := propagate_lasP R.lp.2 hinv1.2 fuel R.lp.1 R.las hinv1.1 R.hlas
  obtain ⟨Is, i, ls, hIs, hki, hls, hals⟩ := hLA
  have hmem : ((((s : Int), (i : Int)) : Key), ls) ∈ R.las := by
    unfold laGet at hls
    exact AlgoVerif.C11.Sound.lookup_mem _ _ _ hls
  exact hfin _ hmem k (itemAt_nat hIs hki) a hals

end

end AlgoVerif.C11.Lalr
