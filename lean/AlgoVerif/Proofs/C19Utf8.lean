import AlgoVerif.Spec.C19
/-!
# C19 — the table-driven UTF-8 decoder of `Next` is UTF-8 decoding

`decodeRune` (Model) is compared with `refDecode`, a decoder written with ranges and `/`, `%` only, by cases
on the class of the lead byte (the classes are read off the regenerated table `first` by `decide` over the 256
byte values); `refDecode` is then shown to invert Lean core's `String.utf8EncodeChar` and to accept nothing else.
-/
namespace AlgoVerif.C19
open AlgoVerif AlgoVerif.Generated

/-! ## the regenerated tables, by class of lead byte -/

/-- `first[k]` by ranges of `k` -/
def cls (k : Nat) : Nat :=
  if k < 0x80 then 240 else if k < 0xC2 then 241 else if k < 0xE0 then 2 else if k = 0xE0 then 19
  else if k < 0xED then 3 else if k = 0xED then 35 else if k < 0xF0 then 3 else if k = 0xF0 then 52
  else if k < 0xF4 then 4 else if k = 0xF4 then 68 else 241

set_option maxRecDepth 100000 in
theorem first_eq_cls : ∀ k, k < 256 → (lexer_input_first[k]?.getD 0).toNat = cls k := by decide

theorem firstOf_eq_cls (b : UInt8) : firstOf b = cls b.toNat :=
  first_eq_cls b.toNat b.toNat_lt

theorem acceptOf_2 : acceptOf 2 = (128, 191) := by decide
theorem acceptOf_19 : acceptOf 19 = (160, 191) := by decide
theorem acceptOf_3 : acceptOf 3 = (128, 191) := by decide
theorem acceptOf_35 : acceptOf 35 = (128, 159) := by decide
theorem acceptOf_52 : acceptOf 52 = (144, 191) := by decide
theorem acceptOf_4 : acceptOf 4 = (128, 191) := by decide
theorem acceptOf_68 : acceptOf 68 = (128, 143) := by decide

/-! ## masks and shifts as arithmetic -/

set_option maxRecDepth 100000 in
theorem and31 : ∀ k, k < 256 → 192 ≤ k → k < 224 → k &&& 31 = k - 192 := by decide
set_option maxRecDepth 100000 in
theorem and15 : ∀ k, k < 256 → 224 ≤ k → k < 240 → k &&& 15 = k - 224 := by decide
set_option maxRecDepth 100000 in
theorem and7 : ∀ k, k < 256 → 240 ≤ k → k < 248 → k &&& 7 = k - 240 := by decide
set_option maxRecDepth 100000 in
theorem and63 : ∀ k, k < 256 → 128 ≤ k → k < 192 → k &&& 63 = k - 128 := by decide

theorem shl6_or (x y : Nat) (hy : y < 64) : x <<< 6 ||| y = x * 64 + y := by
  rw [← Nat.shiftLeft_add_eq_or_of_lt (i := 6) (by simpa using hy), Nat.shiftLeft_eq]

theorem shl12_or (x y : Nat) (hy : y < 4096) : x <<< 12 ||| y = x * 4096 + y := by
  rw [← Nat.shiftLeft_add_eq_or_of_lt (i := 12) (by simpa using hy), Nat.shiftLeft_eq]

theorem shl18_or (x y : Nat) (hy : y < 262144) : x <<< 18 ||| y = x * 262144 + y := by
  rw [← Nat.shiftLeft_add_eq_or_of_lt (i := 18) (by simpa using hy), Nat.shiftLeft_eq]

theorem asm2 (a b : Nat) (hb : b < 64) : a <<< 6 ||| b = a * 64 + b := shl6_or a b hb

theorem asm3 (a b c : Nat) (hb : b < 64) (hc : c < 64) :
    a <<< 12 ||| b <<< 6 ||| c = a * 4096 + b * 64 + c := by
  rw [Nat.or_assoc, shl6_or b c hc, shl12_or a _ (by omega)]; omega

theorem asm4 (a b c d : Nat) (hb : b < 64) (hc : c < 64) (hd : d < 64) :
    a <<< 18 ||| b <<< 12 ||| c <<< 6 ||| d = a * 262144 + b * 4096 + c * 64 + d := by
  rw [Nat.or_assoc, Nat.or_assoc, shl6_or c d hd, shl12_or b _ (by omega), shl18_or a _ (by omega)]; omega

/-! ## the reference decoder -/

/-- is `j` a continuation byte in `[lo, hi]` -/
def cont (lo hi : Nat) (b : UInt8) : Bool := lo ≤ b.toNat && b.toNat ≤ hi

/-- UTF-8 decoding of one rune by the book (Unicode Table 3-7), arithmetic only -/
def refDecode : List UInt8 → Dec
  | [] => .short
  | b0 :: bs =>
    let k := b0.toNat
    if k < 0x80 then .rune k 1
    else if k < 0xC2 then .invalid 1
    else if k < 0xE0 then
      match bs with
      | [] => .short
      | b1 :: _ =>
        if cont 0x80 0xBF b1 then .rune ((k - 0xC0) * 64 + (b1.toNat - 0x80)) 2 else .invalid 2
    else if k < 0xF0 then
      match bs with
      | [] => .short
      | b1 :: bs =>
        if cont (if k = 0xE0 then 0xA0 else 0x80) (if k = 0xED then 0x9F else 0xBF) b1 then
          match bs with
          | [] => .short
          | b2 :: _ =>
            if cont 0x80 0xBF b2 then
              .rune ((k - 0xE0) * 4096 + (b1.toNat - 0x80) * 64 + (b2.toNat - 0x80)) 3
            else .invalid 3
        else .invalid 2
    else if k < 0xF5 then
      match bs with
      | [] => .short
      | b1 :: bs =>
        if cont (if k = 0xF0 then 0x90 else 0x80) (if k = 0xF4 then 0x8F else 0xBF) b1 then
          match bs with
          | [] => .short
          | b2 :: bs =>
            if cont 0x80 0xBF b2 then
              match bs with
              | [] => .short
              | b3 :: _ =>
                if cont 0x80 0xBF b3 then
                  .rune ((k - 0xF0) * 262144 + (b1.toNat - 0x80) * 4096 + (b2.toNat - 0x80) * 64
                    + (b3.toNat - 0x80)) 4
                else .invalid 4
            else .invalid 3
        else .invalid 2
    else .invalid 1

/-! ## the table-driven decoder is the reference decoder -/

theorem dec2 (b0 b1 : UInt8) (h0 : 192 ≤ b0.toNat) (h0' : b0.toNat < 224) (h1 : 128 ≤ b1.toNat) (h1' : b1.toNat ≤ 191) :
    (b0.toNat &&& 31) <<< 6 ||| b1.toNat &&& 63 = (b0.toNat - 192) * 64 + (b1.toNat - 128) := by
  rw [and31 _ b0.toNat_lt h0 h0', and63 _ b1.toNat_lt h1 (by omega), asm2 _ _ (by omega)]

theorem dec3 (b0 b1 b2 : UInt8) (h0 : 224 ≤ b0.toNat) (h0' : b0.toNat < 240) (h1 : 128 ≤ b1.toNat) (h1' : b1.toNat ≤ 191)
    (h2 : 128 ≤ b2.toNat) (h2' : b2.toNat ≤ 191) :
    (b0.toNat &&& 15) <<< 12 ||| (b1.toNat &&& 63) <<< 6 ||| b2.toNat &&& 63
      = (b0.toNat - 224) * 4096 + (b1.toNat - 128) * 64 + (b2.toNat - 128) := by
  rw [and15 _ b0.toNat_lt h0 h0', and63 _ b1.toNat_lt h1 (by omega), and63 _ b2.toNat_lt h2 (by omega),
    asm3 _ _ _ (by omega) (by omega)]

theorem dec4 (b0 b1 b2 b3 : UInt8) (h0 : 240 ≤ b0.toNat) (h0' : b0.toNat < 248) (h1 : 128 ≤ b1.toNat) (h1' : b1.toNat ≤ 191)
    (h2 : 128 ≤ b2.toNat) (h2' : b2.toNat ≤ 191) (h3 : 128 ≤ b3.toNat) (h3' : b3.toNat ≤ 191) :
    (b0.toNat &&& 7) <<< 18 ||| (b1.toNat &&& 63) <<< 12 ||| (b2.toNat &&& 63) <<< 6 ||| b3.toNat &&& 63
      = (b0.toNat - 240) * 262144 + (b1.toNat - 128) * 4096 + (b2.toNat - 128) * 64 + (b3.toNat - 128) := by
  rw [and7 _ b0.toNat_lt h0 h0', and63 _ b1.toNat_lt h1 (by omega), and63 _ b2.toNat_lt h2 (by omega),
    and63 _ b3.toNat_lt h3 (by omega), asm4 _ _ _ _ (by omega) (by omega) (by omega)]

theorem decodeRune_eq_refDecode (bs : List UInt8) : decodeRune bs = refDecode bs := by
  match bs with
  | [] => rfl
  | b0 :: bs =>
    have hk := b0.toNat_lt
    by_cases h1 : b0.toNat < 0x80
    · simp [decodeRune, refDecode, firstOf_eq_cls, cls, h1, lexer_input_as, lexer_input_xx]
    by_cases h2 : b0.toNat < 0xC2
    · simp [decodeRune, refDecode, firstOf_eq_cls, cls, h1, h2, lexer_input_as, lexer_input_xx]
    by_cases h3 : b0.toNat < 0xE0
    · simp only [decodeRune, refDecode, firstOf_eq_cls, cls, h1, h2, h3, lexer_input_as, lexer_input_xx, if_true, if_false]
      cases bs with
      | nil => simp
      | cons b1 bs =>
        simp only [acceptOf_2, cont, lexer_input_mask2, lexer_input_maskx]
        by_cases c1 : 128 ≤ b1.toNat ∧ b1.toNat ≤ 191
        · have := dec2 b0 b1 (by omega) h3 c1.1 c1.2
          simp [c1.1, c1.2, this]
        · have : b1.toNat < 128 ∨ 191 < b1.toNat := by omega
          simp [this]; omega
    by_cases h4 : b0.toNat < 0xF0
    · -- three-byte classes: E0 (second byte A0..BF), ED (second byte 80..9F), the rest (80..BF)
      have key : ∀ (v lo hi : Nat), cls b0.toNat = v → v &&& 7 = 3 → ¬ v ≥ 240 → acceptOf v = (lo, hi) →
          lo = (if b0.toNat = 0xE0 then 0xA0 else 0x80) → hi = (if b0.toNat = 0xED then 0x9F else 0xBF) →
          128 ≤ lo → hi ≤ 191 → decodeRune (b0 :: bs) = refDecode (b0 :: bs) := by
        intro v lo hi hv hsz hge hacc hlo hhi hlo' hhi'
        simp only [decodeRune, refDecode, firstOf_eq_cls, hv, hsz, hacc, lexer_input_as]
        simp only [h1, h2, h3, h4, if_true, if_false, hge, ← hlo, ← hhi]
        cases bs with
        | nil => simp
        | cons b1 bs =>
          simp only [cont, lexer_input_mask3, lexer_input_maskx, lexer_input_locb, lexer_input_hicb]
          by_cases c1 : lo ≤ b1.toNat ∧ b1.toNat ≤ hi
          · have n1 : ¬ (b1.toNat < lo ∨ hi < b1.toNat) := by omega
            simp only [n1, c1.1, c1.2, if_false, decide_true, Bool.and_self, if_true]
            cases bs with
            | nil => simp
            | cons b2 bs =>
              by_cases c2 : 128 ≤ b2.toNat ∧ b2.toNat ≤ 191
              · have n2 : ¬ (b2.toNat < 128 ∨ 191 < b2.toNat) := by omega
                have := dec3 b0 b1 b2 (by omega) h4 (by omega) (by omega) c2.1 c2.2
                simp [n2, c2.1, c2.2, this]
              · have n2 : b2.toNat < 128 ∨ 191 < b2.toNat := by omega
                have n2' : ¬ (128 ≤ b2.toNat ∧ b2.toNat ≤ 191) := c2
                simp [n2]; omega
          · have n1 : b1.toNat < lo ∨ hi < b1.toNat := by omega
            simp [n1]; omega
      by_cases e0 : b0.toNat = 0xE0
      · exact key 19 160 191 (by simp [cls, e0]) (by decide) (by decide) acceptOf_19 (by simp [e0]) (by simp [e0]) (by decide) (by decide)
      by_cases ed : b0.toNat = 0xED
      · exact key 35 128 159 (by simp [cls, ed]) (by decide) (by decide) acceptOf_35 (by simp [ed]) (by simp [ed]) (by decide) (by decide)
      · exact key 3 128 191 (by simp [cls, h1, h2, h3, e0, ed, h4]) (by decide) (by decide) acceptOf_3 (by simp [e0]) (by simp [ed]) (by decide) (by decide)
    by_cases h5 : b0.toNat < 0xF5
    · -- four-byte classes: F0 (second byte 90..BF), F4 (second byte 80..8F), F1..F3 (80..BF)
      have key : ∀ (v lo hi : Nat), cls b0.toNat = v → v &&& 7 = 4 → ¬ v ≥ 240 → acceptOf v = (lo, hi) →
          lo = (if b0.toNat = 0xF0 then 0x90 else 0x80) → hi = (if b0.toNat = 0xF4 then 0x8F else 0xBF) →
          128 ≤ lo → hi ≤ 191 → decodeRune (b0 :: bs) = refDecode (b0 :: bs) := by
        intro v lo hi hv hsz hge hacc hlo hhi hlo' hhi'
        simp only [decodeRune, refDecode, firstOf_eq_cls, hv, hsz, hacc, lexer_input_as]
        simp only [h1, h2, h3, h4, h5, if_true, if_false, hge, ← hlo, ← hhi]
        cases bs with
        | nil => simp
        | cons b1 bs =>
          simp only [cont, lexer_input_mask4, lexer_input_maskx, lexer_input_locb, lexer_input_hicb]
          by_cases c1 : lo ≤ b1.toNat ∧ b1.toNat ≤ hi
          · have n1 : ¬ (b1.toNat < lo ∨ hi < b1.toNat) := by omega
            simp only [n1, c1.1, c1.2, if_false, decide_true, Bool.and_self, if_true]
            cases bs with
            | nil => simp
            | cons b2 bs =>
              by_cases c2 : 128 ≤ b2.toNat ∧ b2.toNat ≤ 191
              · have n2 : ¬ (b2.toNat < 128 ∨ 191 < b2.toNat) := by omega
                simp only [n2, c2.1, c2.2, if_false, decide_true, Bool.and_self, if_true]
                cases bs with
                | nil => simp
                | cons b3 bs =>
                  by_cases c3 : 128 ≤ b3.toNat ∧ b3.toNat ≤ 191
                  · have n3 : ¬ (b3.toNat < 128 ∨ 191 < b3.toNat) := by omega
                    have := dec4 b0 b1 b2 b3 (by omega) (by omega) (by omega) (by omega) c2.1 c2.2 c3.1 c3.2
                    simp [n3, c3.1, c3.2, this]
                  · have n3 : b3.toNat < 128 ∨ 191 < b3.toNat := by omega
                    simp [n3]; omega
              · have n2 : b2.toNat < 128 ∨ 191 < b2.toNat := by omega
                simp [n2]; omega
          · have n1 : b1.toNat < lo ∨ hi < b1.toNat := by omega
            simp [n1]; omega
      by_cases f0 : b0.toNat = 0xF0
      · exact key 52 144 191 (by simp [cls, f0]) (by decide) (by decide) acceptOf_52 (by simp [f0]) (by simp [f0]) (by decide) (by decide)
      by_cases f4 : b0.toNat = 0xF4
      · exact key 68 128 143 (by simp [cls, f4]) (by decide) (by decide) acceptOf_68 (by simp [f4]) (by simp [f4]) (by decide) (by decide)
      · have hcls : cls b0.toNat = 4 := by
          have a1 : b0.toNat ≠ 224 := by omega
          have a2 : ¬ b0.toNat < 237 := by omega
          have a3 : b0.toNat ≠ 237 := by omega
          have a4 : b0.toNat < 244 := by omega
          simp [cls, h1, h2, h3, h4, f0, a1, a2, a3, a4]
        exact key 4 128 191 hcls (by decide) (by decide) acceptOf_4 (by simp [f0]) (by simp [f4]) (by decide) (by decide)
    · have : cls b0.toNat = 241 := by
        have a1 : b0.toNat ≠ 224 := by omega
        have a2 : ¬ b0.toNat < 237 := by omega
        have a3 : b0.toNat ≠ 237 := by omega
        have a4 : ¬ b0.toNat < 244 := by omega
        have a5 : b0.toNat ≠ 240 := by omega
        have a6 : b0.toNat ≠ 244 := by omega
        simp [cls, h1, h2, h3, h4, a1, a2, a3, a4, a5, a6]
      simp [decodeRune, refDecode, firstOf_eq_cls, this, h1, h2, h3, h4, h5, lexer_input_as, lexer_input_xx]

/-! ## the reference decoder inverts `String.utf8EncodeChar` -/

theorem toNat_ofNat_lt (x : Nat) (h : x < 256) : (UInt8.ofNat x).toNat = x := by
  simp [UInt8.toNat_ofNat', Nat.mod_eq_of_lt h]

theorem cont_ofNat (lo hi x : Nat) (h : x < 256) (h1 : lo ≤ x) (h2 : x ≤ hi) :
    cont lo hi (UInt8.ofNat x) = true := by
  simp [cont, toNat_ofNat_lt x h, h1, h2]

set_option maxRecDepth 10000 in
theorem refDecode_encode (c : Char) (rest : List UInt8) :
    refDecode (String.utf8EncodeChar c ++ rest) = .rune c.toNat c.utf8Size := by
  have hv := c.valid
  simp only [UInt32.isValidChar, Nat.isValidChar] at hv
  simp only [String.utf8EncodeChar, Char.utf8Size, Char.toNat, UInt32.le_iff_toNat_le]
  have e1 : (UInt32.ofNatLT 127 Char.utf8Size._proof_1).toNat = 127 := rfl
  have e2 : (UInt32.ofNatLT 2047 Char.utf8Size._proof_2).toNat = 2047 := rfl
  have e3 : (UInt32.ofNatLT 65535 Char.utf8Size._proof_3).toNat = 65535 := rfl
  rw [e1, e2, e3]
  generalize c.val.toNat = v at *
  by_cases h1 : v ≤ 127
  · simp only [h1, if_true, List.cons_append, List.nil_append, refDecode, toNat_ofNat_lt v (by omega)]
    simp [show v < 128 by omega]
  by_cases h2 : v ≤ 2047
  · simp only [h1, h2, if_true, if_false, List.cons_append, List.nil_append, refDecode,
      toNat_ofNat_lt (v / 64 % 32 + 192) (by omega), toNat_ofNat_lt (v % 64 + 128) (by omega)]
    have a1 : ¬ v / 64 % 32 + 192 < 128 := by omega
    have a2 : ¬ v / 64 % 32 + 192 < 194 := by omega
    have a3 : v / 64 % 32 + 192 < 224 := by omega
    simp only [a1, a2, a3, if_true, if_false, cont_ofNat 128 191 (v % 64 + 128) (by omega) (by omega) (by omega)]
    congr 1; omega
  by_cases h3 : v ≤ 65535
  · simp only [h1, h2, h3, if_true, if_false, List.cons_append, List.nil_append, refDecode,
      toNat_ofNat_lt (v / 4096 % 16 + 224) (by omega), toNat_ofNat_lt (v / 64 % 64 + 128) (by omega),
      toNat_ofNat_lt (v % 64 + 128) (by omega)]
    have a1 : ¬ v / 4096 % 16 + 224 < 128 := by omega
    have a2 : ¬ v / 4096 % 16 + 224 < 194 := by omega
    have a3 : ¬ v / 4096 % 16 + 224 < 224 := by omega
    have a4 : v / 4096 % 16 + 224 < 240 := by omega
    simp only [a1, a2, a3, a4, if_true, if_false,
      cont_ofNat (if v / 4096 % 16 + 224 = 224 then 160 else 128) (if v / 4096 % 16 + 224 = 237 then 159 else 191) (v / 64 % 64 + 128) (by omega) (by split <;> omega) (by split <;> omega),
      cont_ofNat 128 191 (v % 64 + 128) (by omega) (by omega) (by omega)]
    congr 1; omega
  · simp only [h1, h2, h3, if_false, List.cons_append, List.nil_append, refDecode,
      toNat_ofNat_lt (v / 262144 % 8 + 240) (by omega), toNat_ofNat_lt (v / 4096 % 64 + 128) (by omega),
      toNat_ofNat_lt (v / 64 % 64 + 128) (by omega), toNat_ofNat_lt (v % 64 + 128) (by omega)]
    have a1 : ¬ v / 262144 % 8 + 240 < 128 := by omega
    have a2 : ¬ v / 262144 % 8 + 240 < 194 := by omega
    have a3 : ¬ v / 262144 % 8 + 240 < 224 := by omega
    have a4 : ¬ v / 262144 % 8 + 240 < 240 := by omega
    have a5 : v / 262144 % 8 + 240 < 245 := by omega
    simp only [a1, a2, a3, a4, a5, if_true, if_false,
      cont_ofNat (if v / 262144 % 8 + 240 = 240 then 144 else 128) (if v / 262144 % 8 + 240 = 244 then 143 else 191) (v / 4096 % 64 + 128) (by omega) (by split <;> omega) (by split <;> omega),
      cont_ofNat 128 191 (v / 64 % 64 + 128) (by omega) (by omega) (by omega),
      cont_ofNat 128 191 (v % 64 + 128) (by omega) (by omega) (by omega)]
    congr 1; omega

/-! ## the reference decoder accepts nothing but encodings of scalar values -/

theorem toNat_charOfNat (n : Nat) (h : n.isValidChar) : (Char.ofNat n).val.toNat = n := by
  simp [Char.ofNat, h, Char.ofNatAux]

theorem ofNat_eq (b : UInt8) (x : Nat) (h : x = b.toNat) : UInt8.ofNat x = b := by
  subst h; simp

theorem cont_true {lo hi : Nat} {b : UInt8} (h : cont lo hi b = true) : lo ≤ b.toNat ∧ b.toNat ≤ hi := by
  simpa [cont] using h

theorem refDecode_rune_inv (bs : List UInt8) (r k : Nat) (h : refDecode bs = .rune r k) :
    ∃ c rest, bs = String.utf8EncodeChar c ++ rest ∧ r = c.toNat ∧ k = c.utf8Size := by
  have e1 : (UInt32.ofNatLT 127 Char.utf8Size._proof_1).toNat = 127 := rfl
  have e2 : (UInt32.ofNatLT 2047 Char.utf8Size._proof_2).toNat = 2047 := rfl
  have e3 : (UInt32.ofNatLT 65535 Char.utf8Size._proof_3).toNat = 65535 := rfl
  -- it suffices to exhibit the scalar value and the bytes of its encoding
  suffices hs : ∃ rest, r.isValidChar ∧
      bs = (if r ≤ 127 then [UInt8.ofNat r]
        else if r ≤ 2047 then [UInt8.ofNat (r / 64 % 32 + 192), UInt8.ofNat (r % 64 + 128)]
        else if r ≤ 65535 then [UInt8.ofNat (r / 4096 % 16 + 224), UInt8.ofNat (r / 64 % 64 + 128), UInt8.ofNat (r % 64 + 128)]
        else [UInt8.ofNat (r / 262144 % 8 + 240), UInt8.ofNat (r / 4096 % 64 + 128), UInt8.ofNat (r / 64 % 64 + 128),
              UInt8.ofNat (r % 64 + 128)]) ++ rest ∧
      k = (if r ≤ 127 then 1 else if r ≤ 2047 then 2 else if r ≤ 65535 then 3 else 4) by
    obtain ⟨rest, hvalid, hbs, hk⟩ := hs
    refine ⟨Char.ofNat r, rest, ?_, ?_, ?_⟩
    · simp only [String.utf8EncodeChar, toNat_charOfNat r hvalid]; exact hbs
    · simp [Char.toNat, toNat_charOfNat r hvalid]
    · simp only [Char.utf8Size, UInt32.le_iff_toNat_le, e1, e2, e3, toNat_charOfNat r hvalid]; exact hk
  match bs, h with
  | [], h => simp [refDecode] at h
  | b0 :: bs, h =>
    have hb0 := b0.toNat_lt
    simp only [refDecode] at h
    by_cases h1 : b0.toNat < 0x80
    · simp only [h1, if_true, Dec.rune.injEq] at h
      obtain ⟨hr, hk⟩ := h
      subst hr hk
      refine ⟨bs, Or.inl (by omega), ?_, ?_⟩
      · simp [show b0.toNat ≤ 127 by omega]
      · simp [show b0.toNat ≤ 127 by omega]
    by_cases h2 : b0.toNat < 0xC2
    · simp [h1, h2] at h
    by_cases h3 : b0.toNat < 0xE0
    · simp only [h1, h2, h3, if_true, if_false] at h
      match bs, h with
      | [], h => simp at h
      | b1 :: bs, h =>
        by_cases c1 : cont 128 191 b1 = true
        · simp only [c1, if_true, Dec.rune.injEq] at h
          obtain ⟨hr, hk⟩ := h
          have := cont_true c1
          refine ⟨bs, Or.inl (by omega), ?_, ?_⟩
          · have a1 : ¬ r ≤ 127 := by omega
            have a2 : r ≤ 2047 := by omega
            simp only [a1, a2, if_true, if_false, List.cons_append, List.nil_append]
            rw [ofNat_eq b0 _ (by omega), ofNat_eq b1 _ (by omega)]
          · have a1 : ¬ r ≤ 127 := by omega
            have a2 : r ≤ 2047 := by omega
            simp [a1, a2, hk]
        · simp [c1] at h
    by_cases h4 : b0.toNat < 0xF0
    · simp only [h1, h2, h3, h4, if_true, if_false] at h
      match bs, h with
      | [], h => simp at h
      | b1 :: bs, h =>
        by_cases c1 : cont (if b0.toNat = 224 then 160 else 128) (if b0.toNat = 237 then 159 else 191) b1 = true
        · simp only [c1, if_true] at h
          match bs, h with
          | [], h => simp at h
          | b2 :: bs, h =>
            by_cases c2 : cont 128 191 b2 = true
            · simp only [c2, if_true, Dec.rune.injEq] at h
              obtain ⟨hr, hk⟩ := h
              have q1 := cont_true c1
              have q2 := cont_true c2
              have l1 : 128 ≤ b1.toNat ∧ b1.toNat ≤ 191 := by
                constructor
                · have := q1.1; split at this <;> omega
                · have := q1.2; split at this <;> omega
              have a2 : ¬ r ≤ 2047 := by
                have := q1.1; split at this <;> omega
              have a1 : ¬ r ≤ 127 := by omega
              have a3 : r ≤ 65535 := by omega
              refine ⟨bs, ?_, ?_, ?_⟩
              · have := q1.2
                split at this
                · exact Or.inl (by omega)
                · by_cases hlt : b0.toNat < 237
                  · exact Or.inl (by omega)
                  · exact Or.inr ⟨by omega, by omega⟩
              · simp only [a1, a2, a3, if_true, if_false, List.cons_append, List.nil_append]
                rw [ofNat_eq b0 _ (by omega), ofNat_eq b1 _ (by omega), ofNat_eq b2 _ (by omega)]
              · simp [a1, a2, a3, hk]
            · simp [c2] at h
        · simp [c1] at h
    by_cases h5 : b0.toNat < 0xF5
    · simp only [h1, h2, h3, h4, h5, if_true, if_false] at h
      match bs, h with
      | [], h => simp at h
      | b1 :: bs, h =>
        by_cases c1 : cont (if b0.toNat = 240 then 144 else 128) (if b0.toNat = 244 then 143 else 191) b1 = true
        · simp only [c1, if_true] at h
          match bs, h with
          | [], h => simp at h
          | b2 :: bs, h =>
            by_cases c2 : cont 128 191 b2 = true
            · simp only [c2, if_true] at h
              match bs, h with
              | [], h => simp at h
              | b3 :: bs, h =>
                by_cases c3 : cont 128 191 b3 = true
                · simp only [c3, if_true, Dec.rune.injEq] at h
                  obtain ⟨hr, hk⟩ := h
                  have q1 := cont_true c1
                  have q2 := cont_true c2
                  have q3 := cont_true c3
                  have l1 : 128 ≤ b1.toNat ∧ b1.toNat ≤ 191 := by
                    constructor
                    · have := q1.1; split at this <;> omega
                    · have := q1.2; split at this <;> omega
                  have a3 : ¬ r ≤ 65535 := by
                    have := q1.1; split at this <;> omega
                  have a1 : ¬ r ≤ 127 := by omega
                  have a2 : ¬ r ≤ 2047 := by omega
                  have a4 : r < 1114112 := by
                    have := q1.2; split at this <;> omega
                  refine ⟨bs, Or.inr ⟨by omega, a4⟩, ?_, ?_⟩
                  · simp only [a1, a2, a3, if_false, List.cons_append, List.nil_append]
                    rw [ofNat_eq b0 _ (by omega), ofNat_eq b1 _ (by omega), ofNat_eq b2 _ (by omega),
                      ofNat_eq b3 _ (by omega)]
                  · simp [a1, a2, a3, hk]
                · simp [c3] at h
            · simp [c2] at h
        · simp [c1] at h
    · simp [h1, h2, h3, h4, h5] at h

/-! ## summary for the Model's decoder -/

/-- the decoder of `Next` on the UTF-8 encoding of any scalar value (followed by anything) returns that value
and its length -/
theorem decodeRune_encode (c : Char) (rest : List UInt8) :
    decodeRune (String.utf8EncodeChar c ++ rest) = .rune c.toNat c.utf8Size := by
  rw [decodeRune_eq_refDecode, refDecode_encode]

/-- …and it returns a rune for nothing else -/
theorem decodeRune_eq_rune_iff (bs : List UInt8) (r k : Nat) :
    decodeRune bs = .rune r k ↔
      ∃ (c : Char) (rest : List UInt8), bs = String.utf8EncodeChar c ++ rest ∧ r = c.toNat ∧ k = c.utf8Size := by
  constructor
  · intro h; rw [decodeRune_eq_refDecode] at h; exact refDecode_rune_inv bs r k h
  · rintro ⟨c, rest, rfl, rfl, rfl⟩; exact decodeRune_encode c rest

end AlgoVerif.C19
