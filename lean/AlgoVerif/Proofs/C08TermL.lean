import AlgoVerif.Proofs.C08Term
/-!
# TERM preserves the language, well-formedness and validity; shape of the bodies
-/
namespace AlgoVerif.C08
open AlgoVerif AlgoVerif.Gram AlgoVerif.C08.Spec

/-- expansion of a non-terminal of the TERM result: `aₙ ↦ a`, everything else itself -/
def termExp (store : Store) (n : String) : List SSym :=
  match store.find? (fun e => e.2 = n) with
  | some e => [Sym.term e.1]
  | none => [Sym.nonterm n]

theorem termExp_store {g : G} {st : TermSt} (h : TermCore g st) {e : String × String} (he : e ∈ st.2) :
    termExp st.2 e.2 = [Sym.term e.1] := by
  unfold termExp
  cases hf : st.2.find? (fun e' => e'.2 = e.2) with
  | none =>
    have := List.find?_eq_none.mp hf e he
    simp at this
  | some e' =>
    have h1 := List.find?_some hf
    have h2 := List.mem_of_find?_eq_some hf
    have : e' = e := h.inj e' h2 e he (by simpa using h1)
    rw [this]

theorem termExp_old {store : Store} {m : String} (h : ∀ e ∈ store, e.2 ≠ m) : termExp store m = [Sym.nonterm m] := by
  unfold termExp
  cases hf : store.find? (fun e' => e'.2 = m) with
  | none => rfl
  | some e' =>
    have h1 := List.find?_some hf
    have h2 := List.mem_of_find?_eq_some hf
    exact absurd (by simpa using h1) (h e' h2)

theorem termExp_decl {g : G} {st : TermSt} (h : TermCore g st) {m : String} (hm : m ∈ g.nonterms) :
    termExp st.2 m = [Sym.nonterm m] :=
  termExp_old (fun e he hem => h.freshg e he (hem ▸ hm))

/-- expanding the replaced body gives the body back -/
theorem expand_replS {g : G} {st : TermSt} (h : TermCore g st) :
    ∀ (b : List SSym), (∀ m, Sym.nonterm m ∈ b → m ∈ g.nonterms) → AllLooked st.2 b →
      expand (termExp st.2) (b.map (replS st.2)) = b := by
  intro b
  induction b with
  | nil => intro _ _; rfl
  | cons s b ih =>
    intro hd hl
    rw [List.map_cons, expand_cons,
      ih (fun m hm => hd m (List.mem_cons_of_mem _ hm)) (fun t ht => hl t (List.mem_cons_of_mem _ ht))]
    cases s with
    | nonterm m =>
      simp [replS, expSym, termExp_decl h (hd m (List.mem_cons_self ..))]
    | term t =>
      obtain ⟨n, hn⟩ := hl t (List.mem_cons_self ..)
      have := termExp_store h (store_lookup_mem hn)
      simp only at this
      simp [replS, hn, expSym, this]

theorem cnfTerm_language {g g' : G} (h : cnfTerm g = .ok g') (hw : WellFormed g) (w : List String) :
    Language g' w ↔ Language g w := by
  obtain ⟨store, hc, him⟩ := cnfTerm_spec h
  obtain ⟨hstart, hdecl⟩ := hw
  have hbody : ∀ p ∈ g.prods, ∀ m, Sym.nonterm m ∈ p.body → m ∈ g.nonterms :=
    fun p hp m hm => (hdecl p hp).2 _ hm
  constructor
  · intro hl
    refine Language.of_expand (g := g) (g' := g') (termExp store) ?_ ?_ hl
    · have : g'.start = g.start := hc.start
      rw [this]; exact termExp_decl hc hstart
    · intro p' hp'
      rcases hc.prods p' hp' with ⟨hpg, ht⟩ | ⟨e, he, rfl⟩ | ⟨p, hp, _, rfl, hal⟩
      · rw [termExp_decl hc (hdecl p' hpg).1]
        have hb : expand (termExp store) p'.body = p'.body := by
          unfold isTerminalProd at ht
          split at ht
          · rename_i t hb; rw [hb]; rfl
          · cases ht
        rw [hb]
        exact Derives.of_prod hpg
      · have := termExp_store hc he
        simp only at this
        rw [this]
        exact Derives.refl _
      · simp only
        rw [termExp_decl hc (hdecl p hp).1, expand_replS hc p.body (hbody p hp) hal]
        exact Derives.of_prod hp
  · intro hl
    refine Language.of_derivable (g := g) (g' := g') hc.start ?_ hl
    intro p hp
    rcases him p hp with ⟨_, hmem⟩ | ⟨_, hmem, hal⟩
    · exact Derives.of_prod hmem
    · have h1 : Derives g' [Sym.nonterm p.head] (p.body.map (replS store)) :=
        Derives.of_prod (p := { head := p.head, body := p.body.map (replS store) }) hmem
      refine h1.trans ?_
      have h2 := Derives.to_expand (g := g') (termExp store) (p.body.map (replS store)) ?_
      · rwa [expand_replS hc p.body (hbody p hp) hal] at h2
      · intro n hn
        obtain ⟨s, hs, hsn⟩ := List.mem_map.mp hn
        cases s with
        | nonterm m =>
          simp [replS] at hsn
          subst hsn
          rw [termExp_decl hc (hbody p hp m hs)]
          exact Derives.refl _
        | term t =>
          obtain ⟨n', hn'⟩ := hal t hs
          simp [replS, hn'] at hsn
          subst hsn
          have hmem' := store_lookup_mem hn'
          have := termExp_store hc hmem'
          simp only at this
          rw [this]
          exact Derives.of_prod (p := { head := n', body := [Sym.term t] }) (hc.defs _ hmem')

/-- symbols of a replaced body -/
theorem mem_map_replS {store : Store} {b : List SSym} (hal : AllLooked store b) {s : SSym}
    (hs : s ∈ b.map (replS store)) :
    ∃ m, s = Sym.nonterm m ∧ (Sym.nonterm m ∈ b ∨ ∃ t, Sym.term t ∈ b ∧ store.lookup t = some m) := by
  obtain ⟨x, hx, rfl⟩ := List.mem_map.mp hs
  cases x with
  | nonterm m => exact ⟨m, rfl, Or.inl hx⟩
  | term t =>
    obtain ⟨n, hn⟩ := hal t hx
    exact ⟨n, by simp [replS, hn], Or.inr ⟨t, hx, hn⟩⟩

theorem cnfTerm_wf {g g' : G} (h : cnfTerm g = .ok g') (hw : WellFormed g) : WellFormed g' := by
  obtain ⟨store, hc, _⟩ := cnfTerm_spec h
  obtain ⟨hstart, hdecl⟩ := hw
  have hnt : g'.nonterms = g.nonterms ++ store.map (fun e => e.2) := hc.nonterms
  have hold : ∀ m, m ∈ g.nonterms → m ∈ g'.nonterms := fun m hm => by rw [hnt]; exact List.mem_append.mpr (Or.inl hm)
  have hnew : ∀ e ∈ store, e.2 ∈ g'.nonterms := hc.fresh
  have hst : g'.start = g.start := hc.start
  have htm : g'.terms = g.terms := hc.terms
  refine ⟨by rw [hst]; exact hold _ hstart, ?_⟩
  intro p' hp'
  rcases hc.prods p' hp' with ⟨hpg, _⟩ | ⟨e, he, rfl⟩ | ⟨p, hp, _, rfl, hal⟩
  · refine ⟨hold _ (hdecl p' hpg).1, fun s hs => ?_⟩
    have := (hdecl p' hpg).2 s hs
    cases s with
    | term t => unfold SymDeclared at this ⊢; rw [htm]; exact this
    | nonterm m => unfold SymDeclared at this ⊢; exact hold m this
  · refine ⟨hnew e he, fun s hs => ?_⟩
    simp at hs; subst hs
    unfold SymDeclared
    rw [htm]
    obtain ⟨p, hp, hocc⟩ := hc.keyOcc e he
    exact (hdecl p hp).2 _ hocc
  · refine ⟨hold _ (hdecl p hp).1, fun s hs => ?_⟩
    obtain ⟨m, rfl, hm⟩ := mem_map_replS hal hs
    unfold SymDeclared
    rcases hm with hm | ⟨t, _, hl⟩
    · exact hold m ((hdecl p hp).2 _ hm)
    · exact hnew _ (store_lookup_mem hl)

end AlgoVerif.C08
