import AlgoVerif.Proofs.C11LalrRows
import AlgoVerif.Proofs.C11CompleteCheck
import AlgoVerif.Proofs.C11BuiltCompleteSets
/-!
# C11 — conflicts of a built table, read off the item sets

A cell `ACTION[i, a]` of a table built by any of the three constructions has a conflict iff the items of row `i` ask for
two different *kinds* of action on `a` (a shift — all shifts of a cell have the same target —, a reduction by `p`, accept):

* `semCF_of_cf`: a conflict-free table whose rows are completely filled has conflict-free rows (`SemCF`);
* `cf_of_semCF`: a table all of whose entries come from items of its rows, with duplicate-free cells and one shift target
  per cell, is conflict-free if its rows are;
* the fills of the Model (`fillFull`, `buildLALR.rows`) satisfy both sets of premises.
-/
namespace AlgoVerif.C11.Lalr
open AlgoVerif AlgoVerif.Gram AlgoVerif.C11 AlgoVerif.C11.Spec AlgoVerif.C11.Built AlgoVerif.C11.BuiltComplete

/-- kinds of actions (shift targets dropped) -/
inductive AK where
  | shift
  | reduce (p : Pr)
  | accept
  deriving DecidableEq

def kindOf : Action → AK
  | .shift _ => .shift
  | .reduce p => .reduce p
  | .accept => .accept

/-- the items `c` of a row ask for an action of kind `k` on `a` -/
def HasAK (start : String) (reduceOn : Item → List String) (c : List Item) (a : String) : AK → Prop
  | .shift => ∃ it ∈ c, it.dotSym = some (Sym.term a)
  | .reduce p => ∃ it ∈ c, it.prod = p ∧ it.isComplete = true ∧ it.isFinal start = false ∧ a ∈ reduceOn it
  | .accept => a = endmarker ∧ ∃ it ∈ c, it.isFinal start = true

/-- the items `c` never ask for two kinds of action on one terminal -/
def SemCF (start : String) (reduceOn : Item → List String) (c : List Item) : Prop :=
  ∀ a k1 k2, HasAK start reduceOn c a k1 → HasAK start reduceOn c a k2 → k1 = k2

/-- every action the items `c` ask for is in row `i` -/
def RowFilled (start : String) (reduceOn : Item → List String) (T : Table) (i : Nat) (c : List Item) : Prop :=
  ∀ a k, HasAK start reduceOn c a k → ∃ act ∈ T.cell (i : Int) a, kindOf act = k

theorem semCF_of_cf {start : String} {reduceOn : Item → List String} {T : Table} {i : Nat} {c : List Item}
    (hcf : chkConflictFree T = true) (hf : RowFilled start reduceOn T i c) : SemCF start reduceOn c := by
  intro a k1 k2 h1 h2
  obtain ⟨x, hx, hkx⟩ := hf a k1 h1
  obtain ⟨y, hy, hky⟩ := hf a k2 h2
  have hlen := Complete.cell_len hcf (i : Int) a
  match hc : T.cell (i : Int) a, hlen, hx, hy with
  | [], _, hx, _ => simp at hx
  | [z], _, hx, hy =>
    simp only [List.mem_singleton] at hx hy
    rw [← hkx, ← hky, hx, hy]
  | _ :: _ :: _, hlen, _, _ => simp at hlen

/-- the provenance of an action: row `i` with items `c` asks for its kind; a shift goes to the target of `(i, a)` -/
def PAsem (start : String) (reduceOn : Item → List String) (Row : Nat → List Item → Prop)
    (Tgt : Nat → String → Int → Prop) (s : Int) (a : String) (act : Action) : Prop :=
  ∃ (i : Nat) (c : List Item), s = (i : Int) ∧ Row i c ∧ HasAK start reduceOn c a (kindOf act) ∧
    ∀ j, act = Action.shift j → Tgt i a j

def CellsNodup (T : Table) : Prop := ∀ e ∈ T.actions, e.2.Nodup

theorem cf_of_semCF {start : String} {reduceOn : Item → List String} {Row : Nat → List Item → Prop}
    {Tgt : Nat → String → Int → Prop} {T : Table}
    (hrowfun : ∀ i c c', Row i c → Row i c' → c = c')
    (htgtfun : ∀ i a j j', Tgt i a j → Tgt i a j' → j = j')
    (hsem : ∀ i c, Row i c → SemCF start reduceOn c)
    (hnd : CellsNodup T)
    (hprov : ∀ e ∈ T.actions, ∀ act ∈ e.2, PAsem start reduceOn Row Tgt e.1.1 e.1.2 act) :
    chkConflictFree T = true := by
  unfold chkConflictFree
  rw [List.all_eq_true]
  intro e he
  simp only [decide_eq_true_eq]
  match hacts : e.2 with
  | [] => simp
  | [_] => simp
  | x :: y :: rest =>
    exfalso
    have hnd' := hnd e he
    rw [hacts] at hnd'
    have hxy : x ≠ y := by
      intro h; subst h; simp at hnd'
    obtain ⟨i, c, hs, hrow, hkx, htx⟩ := hprov e he x (by rw [hacts]; simp)
    obtain ⟨i', c', hs', hrow', hky, hty⟩ := hprov e he y (by rw [hacts]; simp)
    have hii : i' = i := by rw [hs] at hs'; omega
    subst hii
    have hcc := hrowfun _ _ _ hrow hrow'
    subst hcc
    have hk := hsem _ _ hrow _ _ _ hkx hky
    cases x with
    | shift j =>
      cases y with
      | shift j' =>
        have := htgtfun _ _ _ _ (htx j rfl) (hty j' rfl)
        exact hxy (by rw [this])
      | reduce p => simp [kindOf] at hk
      | accept => simp [kindOf] at hk
    | reduce p =>
      cases y with
      | shift j' => simp [kindOf] at hk
      | reduce p' =>
        simp only [kindOf, AK.reduce.injEq] at hk
        exact hxy (by rw [hk])
      | accept => simp [kindOf] at hk
    | accept =>
      cases y with
      | shift j' => simp [kindOf] at hk
      | reduce p' => simp [kindOf] at hk
      | accept => exact hxy rfl

/-! ## invariants of the fills -/

theorem itemActions_inv {Inv : Table → Prop} {start : String} {i : Int} {item : Item}
    {shiftTo : String → Outcome Int} {reduceOn : Item → List String} {T T' : Table}
    (hr : itemActions start i item shiftTo reduceOn T = Outcome.ok T') (hT : Inv T)
    (hshift : ∀ a j T0, item.dotSym = some (Sym.term a) → shiftTo a = Outcome.ok j → Inv T0 →
      Inv (T0.addAction i a (Action.shift j)))
    (hred : ∀ a T0, item.isComplete = true → item.isFinal start = false → a ∈ reduceOn item → Inv T0 →
      Inv (T0.addAction i a (Action.reduce item.prod)))
    (hacc : ∀ T0, item.isFinal start = true → Inv T0 → Inv (T0.addAction i endmarker Action.accept)) : Inv T' := by
  unfold itemActions at hr
  obtain ⟨T1, hT1, hrest⟩ := bind_eq_ok hr
  rw [← pure_eq_ok hrest]
  have h1 : Inv T1 := by
    unfold itemShift at hT1
    split at hT1
    · rename_i a hd
      obtain ⟨j, hj, hrest1⟩ := bind_eq_ok hT1
      rw [← pure_eq_ok hrest1]
      exact hshift a j T hd hj hT
    · rw [← pure_eq_ok hT1]; exact hT
  unfold itemReduce
  have h2 : Inv (if (item.isComplete && !item.isFinal start) = true then
      (reduceOn item).foldl (fun T a => T.addAction i a (Action.reduce item.prod)) T1 else T1) := by
    split
    · rename_i hc
      simp only [Bool.and_eq_true, Bool.not_eq_true'] at hc
      suffices aux : ∀ (l : List String) (T0 : Table), (∀ a ∈ l, a ∈ reduceOn item) → Inv T0 →
          Inv (l.foldl (fun T a => T.addAction i a (Action.reduce item.prod)) T0) from aux _ _ (fun _ h => h) h1
      intro l
      induction l with
      | nil => intro T0 _ h0; exact h0
      | cons a l ih =>
        intro T0 hl h0
        simp only [List.foldl_cons]
        exact ih _ (fun b hb => hl b (List.mem_cons_of_mem _ hb)) (hred a T0 hc.1 hc.2 (hl a (by simp)) h0)
    · exact h1
  simp only
  split
  · rename_i hf
    exact hacc _ hf h2
  · exact h2

theorem fillFull_inv {Inv : Table → Prop} (A : Auto) (S : StateMap) (reduceOn : Item → List String) (T : Table)
    (hr : fillFull A S reduceOn = Outcome.ok T)
    (h0 : Inv { nstates := S.length, actions := [], gotos := [] })
    (hgoto : ∀ T0 s n t, Inv T0 → Inv (T0.setGoto s n t))
    (hshift : ∀ (i : Nat) I item a J T0, S[i]? = some I → item ∈ I → item.dotSym = some (Sym.term a) →
      A.goto I (Sym.term a) = Outcome.ok J → Inv T0 → Inv (T0.addAction (i : Int) a (Action.shift (findItemSet S J))))
    (hred : ∀ (i : Nat) I item a T0, S[i]? = some I → item ∈ I → item.isComplete = true →
      item.isFinal A.g.start = false → a ∈ reduceOn item → Inv T0 →
      Inv (T0.addAction (i : Int) a (Action.reduce item.prod)))
    (hacc : ∀ (i : Nat) I item T0, S[i]? = some I → item ∈ I → item.isFinal A.g.start = true → Inv T0 →
      Inv (T0.addAction (i : Int) endmarker Action.accept)) : Inv T := by
  unfold fillFull at hr
  suffices aux : ∀ (l : List (List Item)) (i : Nat) (T0 T' : Table), (∀ k I, l[k]? = some I → S[i + k]? = some I) →
      Inv T0 → fillFull.rows A S reduceOn l i T0 = Outcome.ok T' → Inv T' from
    aux S 0 _ T (by intro k I hk; simpa using hk) h0 hr
  intro l
  induction l with
  | nil =>
    intro i T0 T' _ hT hr
    unfold fillFull.rows at hr
    rw [← pure_eq_ok hr]; exact hT
  | cons I rest ih =>
    intro i T0 T' hl hT hr
    unfold fillFull.rows at hr
    have hI : S[i]? = some I := by simpa using hl 0 I (by simp)
    obtain ⟨T1, hT1, hr1⟩ := bind_eq_ok hr
    obtain ⟨T2, hT2, hr2⟩ := bind_eq_ok hr1
    have hP1 : Inv T1 := by
      refine foldlM_inv _ Inv I T0 T1 ?_ hT hT1
      intro b item b' hitem hb hstep
      refine itemActions_inv hstep hb ?_ ?_ ?_
      · intro a j Tx hd hj hTx
        obtain ⟨J, hJ, hrest⟩ := bind_eq_ok hj
        rw [← pure_eq_ok hrest]
        exact hshift i I item a J Tx hI hitem hd hJ hTx
      · intro a Tx hc hf ha hTx
        exact hred i I item a Tx hI hitem hc hf ha hTx
      · intro Tx hf hTx
        exact hacc i I item Tx hI hitem hf hTx
    have hP2 : Inv T2 := by
      refine foldlM_inv _ Inv _ T1 T2 ?_ hP1 hT2
      intro b n b' _ hb hstep
      split at hstep
      · rw [← pure_eq_ok hstep]; exact hb
      · obtain ⟨J, _, hrest⟩ := bind_eq_ok hstep
        rw [← pure_eq_ok hrest]
        exact hgoto _ _ _ _ hb
    apply ih (i + 1) T2 T' _ hP2 hr2
    intro k I' hk
    have := hl (k + 1) I' (by simpa using hk)
    rw [show i + 1 + k = i + (k + 1) by omega]; exact this

theorem lalrRows_inv {Inv : Table → Prop} (g' : SGrammar) (A : Auto) (S : StateMap) (T : Table) (cl : List (List Item))
    (hr : buildLALR.rows g' A S S 0 { nstates := S.length, actions := [], gotos := [] } [] = Outcome.ok (T, cl))
    (h0 : Inv { nstates := S.length, actions := [], gotos := [] })
    (hgoto : ∀ T0 s n t, Inv T0 → Inv (T0.setGoto s n t))
    (hshift : ∀ (i : Nat) I c item a J T0, S[i]? = some I → A.closure I = Outcome.ok c → item ∈ c →
      item.dotSym = some (Sym.term a) → A.goto I (Sym.term a) = Outcome.ok J → Inv T0 →
      Inv (T0.addAction (i : Int) a (Action.shift (findSuperset S J))))
    (hred : ∀ (i : Nat) I c item a T0, S[i]? = some I → A.closure I = Outcome.ok c → item ∈ c →
      item.isComplete = true → item.isFinal g'.start = false → a ∈ la1 item → Inv T0 →
      Inv (T0.addAction (i : Int) a (Action.reduce item.prod)))
    (hacc : ∀ (i : Nat) I c item T0, S[i]? = some I → A.closure I = Outcome.ok c → item ∈ c →
      item.isFinal g'.start = true → Inv T0 → Inv (T0.addAction (i : Int) endmarker Action.accept)) : Inv T := by
  suffices aux : ∀ (l : List (List Item)) (i : Nat) (T0 : Table) (cl0 : List (List Item)) (T' : Table)
      (cl' : List (List Item)), (∀ k I, l[k]? = some I → S[i + k]? = some I) →
      Inv T0 → buildLALR.rows g' A S l i T0 cl0 = Outcome.ok (T', cl') → Inv T' from
    aux S 0 _ [] T cl (by intro k I hk; simpa using hk) h0 hr
  intro l
  induction l with
  | nil =>
    intro i T0 cl0 T' cl' _ hT hr
    unfold buildLALR.rows at hr
    have := pure_eq_ok hr
    simp only [Prod.mk.injEq] at this
    rw [← this.1]; exact hT
  | cons I rest ih =>
    intro i T0 cl0 T' cl' hl hT hr
    unfold buildLALR.rows at hr
    have hI : S[i]? = some I := by simpa using hl 0 I (by simp)
    obtain ⟨c, hc, hr0⟩ := bind_eq_ok hr
    obtain ⟨T1, hT1, hr1⟩ := bind_eq_ok hr0
    obtain ⟨T2, hT2, hr2⟩ := bind_eq_ok hr1
    have hP1 : Inv T1 := by
      refine foldlM_inv _ Inv c T0 T1 ?_ hT hT1
      intro b item b' hitem hb hstep
      refine itemActions_inv hstep hb ?_ ?_ ?_
      · intro a j Tx hd hj hTx
        obtain ⟨J, hJ, hrest⟩ := bind_eq_ok hj
        rw [← pure_eq_ok hrest]
        exact hshift i I c item a J Tx hI hc hitem hd hJ hTx
      · intro a Tx hcm hf ha hTx
        exact hred i I c item a Tx hI hc hitem hcm hf ha hTx
      · intro Tx hf hTx
        exact hacc i I c item Tx hI hc hitem hf hTx
    have hP2 : Inv T2 := by
      refine foldlM_inv _ Inv _ T1 T2 ?_ hP1 hT2
      intro b n b' _ hb hstep
      split at hstep
      · rw [← pure_eq_ok hstep]; exact hb
      · obtain ⟨J, _, hrest⟩ := bind_eq_ok hstep
        rw [← pure_eq_ok hrest]
        exact hgoto _ _ _ _ hb
    apply ih (i + 1) T2 _ T' cl' _ hP2 hr2
    intro k I' hk
    have := hl (k + 1) I' (by simpa using hk)
    rw [show i + 1 + k = i + (k + 1) by omega]; exact this

/-! ## the two invariants -/

theorem cellsNodup_addAction {T : Table} (h : CellsNodup T) (s : Int) (a : String) (act : Action) :
    CellsNodup (T.addAction s a act) := by
  unfold Table.addAction
  split
  · intro e he
    simp only [List.mem_map] at he
    obtain ⟨e0, he0, rfl⟩ := he
    by_cases hk : (e0.1 == (s, a)) = true
    · simp only [hk, if_true]
      exact nodup_addNew (h e0 he0) act
    · simp only [hk]
      exact h e0 he0
  · intro e he
    rcases List.mem_append.mp he with h1 | h1
    · exact h e h1
    · simp only [List.mem_singleton] at h1
      subst h1
      simp

theorem cellsNodup_setGoto {T : Table} (h : CellsNodup T) (s : Int) (n : String) (t : Int) :
    CellsNodup (T.setGoto s n t) := by
  unfold CellsNodup
  rw [setGoto_actions]
  exact h

/-- all entries of the table have a provenance `PA` -/
def AllPA (PA : Int → String → Action → Prop) (T : Table) : Prop :=
  ∀ e ∈ T.actions, ∀ act ∈ e.2, PA e.1.1 e.1.2 act

theorem allPA_addAction {PA : Int → String → Action → Prop} {T : Table} {s : Int} {a : String} {act : Action}
    (hT : AllPA PA T) (hact : PA s a act) : AllPA PA (T.addAction s a act) :=
  (addAction_provG (PG := fun _ _ _ => True) ⟨hT, fun _ _ => trivial⟩ hact).1

theorem allPA_setGoto {PA : Int → String → Action → Prop} {T : Table} (hT : AllPA PA T) (s : Int) (n : String) (t : Int) :
    AllPA PA (T.setGoto s n t) := by
  unfold AllPA
  rw [setGoto_actions]
  exact hT

/-! ## `fillFull` (SLR, canonical LR(1)) -/

section
variable (A : Auto) (S : StateMap) (reduceOn : Item → List String) {T : Table}
  (hr : fillFull A S reduceOn = Outcome.ok T)
include hr

/-- rows of `fillFull`: the items of row `i` are the state `S[i]` -/
def RowFull (S : StateMap) (i : Nat) (c : List Item) : Prop := S[i]? = some c

/-- the shift target of row `i` on `a` -/
def TgtFull (A : Auto) (S : StateMap) (i : Nat) (a : String) (j : Int) : Prop :=
  ∃ I J, S[i]? = some I ∧ A.goto I (Sym.term a) = Outcome.ok J ∧ j = findItemSet S J

theorem fillFull_filled : ∀ i c, RowFull S i c → RowFilled A.g.start reduceOn T i c := by
  intro i c hrow a k hk
  have hdone := fillFull_spec A S reduceOn T hr i c hrow
  cases k with
  | shift =>
    obtain ⟨it, hit, hd⟩ := hk
    obtain ⟨J, _, hmem⟩ := (hdone.1 it hit).1 a hd
    exact ⟨_, hmem, rfl⟩
  | reduce p =>
    obtain ⟨it, hit, hp, hc, hf, ha⟩ := hk
    exact ⟨_, (hdone.1 it hit).2.1 hc hf a ha, by rw [← hp]; rfl⟩
  | accept =>
    obtain ⟨ha, it, hit, hf⟩ := hk
    subst ha
    exact ⟨_, (hdone.1 it hit).2.2 hf, rfl⟩

theorem fillFull_nodup : CellsNodup T := by
  refine fillFull_inv A S reduceOn T hr (by intro e he; simp at he) ?_ ?_ ?_ ?_
  · intro T0 s n t h; exact cellsNodup_setGoto h s n t
  · intro i I item a J T0 _ _ _ _ h; exact cellsNodup_addAction h _ _ _
  · intro i I item a T0 _ _ _ _ _ h; exact cellsNodup_addAction h _ _ _
  · intro i I item T0 _ _ _ h; exact cellsNodup_addAction h _ _ _

theorem fillFull_sem : AllPA (PAsem A.g.start reduceOn (RowFull S) (TgtFull A S)) T := by
  refine fillFull_inv A S reduceOn T hr (by intro e he; simp at he) ?_ ?_ ?_ ?_
  · intro T0 s n t h; exact allPA_setGoto h s n t
  · intro i I item a J T0 hI hitem hd hJ h
    refine allPA_addAction h ⟨i, I, rfl, hI, ⟨item, hitem, hd⟩, ?_⟩
    intro j hj
    simp only [Action.shift.injEq] at hj
    exact ⟨I, J, hI, hJ, hj.symm⟩
  · intro i I item a T0 hI hitem hc hf ha h
    refine allPA_addAction h ⟨i, I, rfl, hI, ⟨item, hitem, rfl, hc, hf, ha⟩, ?_⟩
    intro j hj; cases hj
  · intro i I item T0 hI hitem hf h
    refine allPA_addAction h ⟨i, I, rfl, hI, ⟨rfl, item, hitem, hf⟩, ?_⟩
    intro j hj; cases hj

end

theorem rowFull_fun (S : StateMap) : ∀ i c c', RowFull S i c → RowFull S i c' → c = c' := by
  intro i c c' h1 h2
  unfold RowFull at h1 h2
  rw [h1] at h2
  exact Option.some.inj h2

theorem tgtFull_fun (A : Auto) (S : StateMap) : ∀ i a j j', TgtFull A S i a j → TgtFull A S i a j' → j = j' := by
  rintro i a j j' ⟨I, J, hI, hJ, rfl⟩ ⟨I', J', hI', hJ', rfl⟩
  rw [hI] at hI'
  simp only [Option.some.injEq] at hI'
  subst hI'
  rw [hJ] at hJ'
  simp only [Outcome.ok.injEq] at hJ'
  rw [hJ']

/-! ## `buildLALR.rows` -/

/-- rows of the LALR fill: the items of row `i` are the closure of the kernel `S[i]` -/
def RowL (A : Auto) (S : StateMap) (i : Nat) (c : List Item) : Prop :=
  ∃ I, S[i]? = some I ∧ A.closure I = Outcome.ok c

def TgtL (A : Auto) (S : StateMap) (i : Nat) (a : String) (j : Int) : Prop :=
  ∃ I J, S[i]? = some I ∧ A.goto I (Sym.term a) = Outcome.ok J ∧ j = findSuperset S J

theorem rowL_fun (A : Auto) (S : StateMap) : ∀ i c c', RowL A S i c → RowL A S i c' → c = c' := by
  rintro i c c' ⟨I, hI, hc⟩ ⟨I', hI', hc'⟩
  rw [hI] at hI'
  simp only [Option.some.injEq] at hI'
  subst hI'
  rw [hc] at hc'
  exact Outcome.ok.inj hc'

theorem tgtL_fun (A : Auto) (S : StateMap) : ∀ i a j j', TgtL A S i a j → TgtL A S i a j' → j = j' := by
  rintro i a j j' ⟨I, J, hI, hJ, rfl⟩ ⟨I', J', hI', hJ', rfl⟩
  rw [hI] at hI'
  simp only [Option.some.injEq] at hI'
  subst hI'
  rw [hJ] at hJ'
  simp only [Outcome.ok.injEq] at hJ'
  rw [hJ']

section
variable (g' : SGrammar) (A : Auto) (S : StateMap) {T : Table} {cl : List (List Item)}
  (hr : buildLALR.rows g' A S S 0 { nstates := S.length, actions := [], gotos := [] } [] = Outcome.ok (T, cl))
include hr

theorem lalrRows_filled : ∀ i c, RowL A S i c → RowFilled g'.start la1 T i c := by
  rintro i c ⟨I, hI, hc⟩ a k hk
  obtain ⟨c', hc', hitems, _⟩ := (rowsL_done g' A S S 0 _ [] T cl hr).2 i I hI
  rw [Nat.zero_add] at hitems
  rw [hc] at hc'
  simp only [Outcome.ok.injEq] at hc'
  subst hc'
  cases k with
  | shift =>
    obtain ⟨it, hit, hd⟩ := hk
    obtain ⟨J, _, hmem⟩ := (hitems it hit).1 a hd
    exact ⟨_, hmem, rfl⟩
  | reduce p =>
    obtain ⟨it, hit, hp, hcm, hf, ha⟩ := hk
    exact ⟨_, (hitems it hit).2.1 hcm hf a ha, by rw [← hp]; rfl⟩
  | accept =>
    obtain ⟨ha, it, hit, hf⟩ := hk
    subst ha
    exact ⟨_, (hitems it hit).2.2 hf, rfl⟩

theorem lalrRows_nodup : CellsNodup T := by
  refine lalrRows_inv g' A S T cl hr (by intro e he; simp at he) ?_ ?_ ?_ ?_
  · intro T0 s n t h; exact cellsNodup_setGoto h s n t
  · intro i I c item a J T0 _ _ _ _ _ h; exact cellsNodup_addAction h _ _ _
  · intro i I c item a T0 _ _ _ _ _ _ h; exact cellsNodup_addAction h _ _ _
  · intro i I c item T0 _ _ _ _ h; exact cellsNodup_addAction h _ _ _

theorem lalrRows_sem : AllPA (PAsem g'.start la1 (RowL A S) (TgtL A S)) T := by
  refine lalrRows_inv g' A S T cl hr (by intro e he; simp at he) ?_ ?_ ?_ ?_
  · intro T0 s n t h; exact allPA_setGoto h s n t
  · intro i I c item a J T0 hI hc hitem hd hJ h
    refine allPA_addAction h ⟨i, c, rfl, ⟨I, hI, hc⟩, ⟨item, hitem, hd⟩, ?_⟩
    intro j hj
    simp only [Action.shift.injEq] at hj
    exact ⟨I, J, hI, hJ, hj.symm⟩
  · intro i I c item a T0 hI hc hitem hcm hf ha h
    refine allPA_addAction h ⟨i, c, rfl, ⟨I, hI, hc⟩, ⟨item, hitem, rfl, hcm, hf, ha⟩, ?_⟩
    intro j hj; cases hj
  · intro i I c item T0 hI hc hitem hf h
    refine allPA_addAction h ⟨i, c, rfl, ⟨I, hI, hc⟩, ⟨rfl, item, hitem, hf⟩, ?_⟩
    intro j hj; cases hj

end

end AlgoVerif.C11.Lalr
