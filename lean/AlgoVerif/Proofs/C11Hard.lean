import AlgoVerif.Model.C11
/-!
# C11 — lemmas for the statements added in the hardening round

* the new start symbol of `augment` (`augStart`, which now trims the primes the start symbol already ends in, as
  `AddNewNonTerminal` does);
* the driver on an input that ends in a token no table column exists for — the Model of "the lexer failed here"
  (`parsefail` of the line protocol).
-/
namespace AlgoVerif.C11.Hard
open AlgoVerif AlgoVerif.Gram AlgoVerif.C11

/-- the names `AddNewNonTerminal` tries, in order -/
def augCandidates (g : SGrammar) : List String := primeSuffixes.map (augBase g ++ ·)

theorem augStart_eq (g : SGrammar) : augStart g = (augCandidates g).find? (fun n => !(n ∈ g.nonterms)) := rfl

theorem augStart_some_iff (g : SGrammar) (s' : String) :
    augStart g = some s' ↔
      s' ∉ g.nonterms ∧ ∃ before after, augCandidates g = before ++ s' :: after ∧ ∀ n ∈ before, n ∈ g.nonterms := by
  rw [augStart_eq, List.find?_eq_some_iff_append]
  constructor
  · rintro ⟨h, as, bs, hl, hall⟩
    refine ⟨by simpa using h, as, bs, hl, ?_⟩
    intro n hn
    simpa using hall n hn
  · rintro ⟨h, as, bs, hl, hall⟩
    refine ⟨by simpa using h, as, bs, hl, ?_⟩
    intro n hn
    simpa using hall n hn

theorem augStart_none_iff (g : SGrammar) : augStart g = none ↔ ∀ n ∈ augCandidates g, n ∈ g.nonterms := by
  rw [augStart_eq, List.find?_eq_none]
  constructor
  · intro h n hn
    simpa using h n hn
  · intro h n hn
    simpa using h n hn

/-! ## the driver on an input whose last token has no column -/

/-- the driver's configuration while it works on `pre ++ [bad]`: what is left of the input is a suffix of `pre`
followed by `bad`, and the number of tokens shifted plus that suffix is `pre` -/
structure LexInv (pre : List String) (bad : String) (st : PState) : Prop where
  rest : ∃ r, st.input = r ++ [bad] ∧ endmarker ∉ r ∧ st.shifted + r.length = pre.length

theorem lexInv_init (pre : List String) (bad : String) (hpre : endmarker ∉ pre) :
    LexInv pre bad (pinit (pre ++ [bad])) :=
  ⟨⟨pre, rfl, hpre, by simp [pinit]⟩⟩

/-- one turn of the loop keeps the invariant, or ends in a reject at a position inside `pre ++ [bad]` -/
theorem pstep_lexInv {T : Tbl} {pre : List String} {bad : String}
    (hbad : ∀ s, T.cell s bad = [])
    (hacc : ∀ s a, Action.accept ∈ T.cell s a → a = endmarker)
    {st : PState} (hinv : LexInv pre bad st) :
    (∃ st', pstep T st = .inl st' ∧ LexInv pre bad st') ∨ (∃ i, pstep T st = .inr (.reject i) ∧ i ≤ pre.length) := by
  obtain ⟨r, hin, hend, hlen⟩ := hinv.rest
  have htok : st.tok = (r ++ [bad]).head (by simp) := by
    unfold PState.tok
    rw [hin]
    cases r <;> simp
  unfold pstep
  cases r with
  | nil =>
    -- the current token is `bad`: no entry
    have ht : st.tok = bad := by simpa using htok
    right
    refine ⟨st.shifted, ?_, by simp at hlen; omega⟩
    simp [ht, hbad]
  | cons x r' =>
    have ht : st.tok = x := by simpa using htok
    have hx : x ≠ endmarker := by
      intro h
      exact hend (by simp [h])
    simp only [ht]
    match hc : T.cell (peekState st.stack) x with
    | [] => right; exact ⟨st.shifted, by simp, by simp at hlen; omega⟩
    | [.shift t] =>
      left
      refine ⟨_, rfl, ⟨r', ?_, ?_, ?_⟩⟩
      · simp [hin]
      · intro h; exact hend (by simp [h])
      · simp at hlen ⊢; omega
    | [.reduce p] =>
      left
      exact ⟨_, rfl, ⟨x :: r', hin, hend, hlen⟩⟩
    | [.accept] =>
      exact absurd (hacc _ _ (by rw [hc]; simp)) hx
    | _ :: _ :: _ => right; exact ⟨st.shifted, by simp, by simp at hlen; omega⟩

theorem prun_lexInv {T : Tbl} {pre : List String} {bad : String}
    (hbad : ∀ s, T.cell s bad = [])
    (hacc : ∀ s a, Action.accept ∈ T.cell s a → a = endmarker)
    (fuel : Nat) {st : PState} (hinv : LexInv pre bad st) :
    prun T fuel st = .diverge ∨ ∃ i, prun T fuel st = .ok (.reject i) ∧ i ≤ pre.length := by
  induction fuel generalizing st with
  | zero => left; rfl
  | succ fuel ih =>
    unfold prun
    rcases pstep_lexInv hbad hacc hinv with ⟨st', hs, hinv'⟩ | ⟨i, hs, hi⟩
    · rw [hs]; exact ih hinv'
    · right; exact ⟨i, by rw [hs], hi⟩

end AlgoVerif.C11.Hard
