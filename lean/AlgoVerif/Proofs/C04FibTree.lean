import AlgoVerif.Proofs.C04Tree
/-!
# C04, Fibonacci heap: every tree is an (unordered) binomial tree, hence `2 ^ degree ≤ n`;
the integer `maxDegree` is above `log2 n`
-/
namespace AlgoVerif.C04
variable {K V : Type}
namespace Tree

mutual
/-- a tree whose root has `degree` children of degrees `degree-1, …, 0`, each again such a tree -/
def Binom : Tree K V → Prop
  | .node _ _ d cs => BinomF d cs
/-- the child list of a node of degree `d` -/
def BinomF : Nat → List (Tree K V) → Prop
  | 0, [] => True
  | d + 1, c :: cs => c.deg = d ∧ Binom c ∧ BinomF d cs
  | 0, _ :: _ => False
  | _ + 1, [] => False
end

theorem Binom_leaf (k : K) (v : V) : Binom (leaf k v) := by simp [leaf, Binom, BinomF]

theorem Binom_link (c p : Tree K V) (hc : Binom c) (hp : Binom p) (h : c.deg = p.deg) : Binom (link c p) := by
  cases p with
  | node k v d cs =>
    simp only [link, Binom, BinomF]
    exact ⟨h, hc, hp⟩

theorem BinomF_all : ∀ (d : Nat) (cs : List (Tree K V)), BinomF d cs → ∀ c ∈ cs, Binom c
  | 0, [], _, c, hc => by cases hc
  | d + 1, x :: cs, h, c, hc => by
    simp only [BinomF] at h
    rcases List.mem_cons.mp hc with rfl | hc
    · exact h.2.1
    · exact BinomF_all d cs h.2.2 c hc
  | 0, _ :: _, h, _, _ => by simp [BinomF] at h
  | _ + 1, [], h, _, _ => by simp [BinomF] at h

theorem Binom_children (t : Tree K V) (h : Binom t) : ∀ c ∈ t.children, Binom c := by
  cases t with
  | node k v d cs => exact BinomF_all d cs h

mutual
theorem Binom_size : ∀ (t : Tree K V), Binom t → (nodes t).length = 2 ^ t.deg
  | .node k v d cs, h => by
    have := BinomF_size d cs h
    simp only [nodes, List.length_cons, deg]
    omega
theorem BinomF_size : ∀ (d : Nat) (cs : List (Tree K V)), BinomF d cs → (nodesF cs).length + 1 = 2 ^ d
  | 0, [], _ => by simp
  | d + 1, c :: cs, h => by
    simp only [BinomF] at h
    have h1 := Binom_size c h.2.1
    have h2 := BinomF_size d cs h.2.2
    rw [h.1] at h1
    simp only [nodesF_cons, List.length_append, h1, Nat.pow_succ]
    omega
  | 0, _ :: _, h => by simp [BinomF] at h
  | _ + 1, [], h => by simp [BinomF] at h
end

end Tree

/-! ### `maxDegree` -/

/-- Lucas numbers -/
def lucas : Nat → Nat
  | 0 => 2
  | 1 => 1
  | n + 2 => lucas (n + 1) + lucas n

theorem lucas_succ_le_pow : ∀ k, 1 ≤ k → lucas k + 1 ≤ 2 ^ k ∧ lucas (k + 1) + 1 ≤ 2 ^ (k + 1)
  | 0, h => by omega
  | 1, _ => by simp [lucas]
  | k + 2, _ => by
    obtain ⟨h1, h2⟩ := lucas_succ_le_pow (k + 1) (by omega)
    have h2' : lucas (k + 2) + 1 ≤ 2 ^ (k + 2) := h2
    refine ⟨h2', ?_⟩
    have e1 : lucas (k + 2 + 1) = lucas (k + 2) + lucas (k + 1) := by rw [lucas]
    have e2 : 2 ^ (k + 2 + 1) = 2 * 2 ^ (k + 2) := by rw [Nat.pow_succ]; omega
    have e3 : 2 ^ (k + 2) = 2 * 2 ^ (k + 1) := by rw [Nat.pow_succ]; omega
    rw [e1, e2]
    omega

theorem phiPowLe_of_pow_le (k n : Nat) (hk : 1 ≤ k) (h : 2 ^ k ≤ n) : phiPowLe k (lucas k) n = true := by
  have := (lucas_succ_le_pow k hk).1
  unfold phiPowLe
  split <;> simp <;> omega

/-- the search loop does not stop before `d` when `2 ^ d ≤ n` -/
theorem logPhiLoop_ge (n d : Nat) (hd : 2 ^ d ≤ n) :
    ∀ (fuel k : Nat), 1 ≤ k → k ≤ d + 1 → d + 1 ≤ fuel + k → d ≤ logPhiLoop n fuel k (lucas k) (lucas (k - 1)) := by
  intro fuel
  induction fuel with
  | zero => intro k h1 h2 h3; simp only [logPhiLoop]; omega
  | succ fuel ih =>
    intro k h1 h2 h3
    unfold logPhiLoop
    by_cases hk : k ≤ d
    · have hpow : 2 ^ k ≤ n := Nat.le_trans (Nat.pow_le_pow_right (by omega) hk) hd
      rw [if_pos (phiPowLe_of_pow_le k n h1 hpow)]
      have hl : lucas k + lucas (k - 1) = lucas (k + 1) := by
        obtain ⟨j, rfl⟩ : ∃ j, k = j + 1 := ⟨k - 1, by omega⟩
        simp [lucas]
      rw [hl]
      have := ih (k + 1) (by omega) (by omega) (by omega)
      simpa using this
    · split
      · have hl : lucas k + lucas (k - 1) = lucas (k + 1) := by
          obtain ⟨j, rfl⟩ : ∃ j, k = j + 1 := ⟨k - 1, by omega⟩
          simp [lucas]
        rw [hl]
        have : k = d + 1 := by omega
        subst this
        -- already past d: the result only grows
        have hmono : ∀ (f j : Nat), d + 1 ≤ j → d ≤ logPhiLoop n f j (lucas j) (lucas (j - 1)) := by
          intro f
          induction f with
          | zero => intro j hj; simp only [logPhiLoop]; omega
          | succ f ihf =>
            intro j hj
            unfold logPhiLoop
            split
            · have hl' : lucas j + lucas (j - 1) = lucas (j + 1) := by
                obtain ⟨i, rfl⟩ : ∃ i, j = i + 1 := ⟨j - 1, by omega⟩
                simp [lucas]
              rw [hl']
              have := ihf (j + 1) (by omega)
              simpa using this
            · omega
        have := hmono fuel (d + 1 + 1) (by omega)
        simpa using this
      · omega

theorem lt_pow_self' (d : Nat) : d < 2 ^ d := Nat.lt_two_pow_self

/-- what index safety needs: a degree `d` with `2 ^ d ≤ n` is a valid index of `roots` -/
theorem deg_lt_maxDegree (n d : Nat) (hd : 2 ^ d ≤ n) : d < floorLogPhi n + 1 := by
  unfold floorLogPhi
  have hdn : d < n := Nat.lt_of_lt_of_le (lt_pow_self' d) hd
  have := logPhiLoop_ge n d hd (n + 1) 1 (Nat.le_refl _) (by omega) (by omega)
  have e : lucas (1 - 1) = 2 := rfl
  have e' : lucas 1 = 1 := rfl
  rw [e, e'] at this
  omega

end AlgoVerif.C04
