import AlgoVerif.Spec.C07
/-! # C07 — a concrete non-injective total preorder for the non-vacuity examples -/
namespace AlgoVerif.C07

/-- compare `key % 3` only (payload and most of the key are ignored) -/
def exCmp (a b : Int × Int) : Int := (a.1 % 3) - (b.1 % 3)

theorem exCmp_tp : TotalPreorder exCmp :=
  ⟨by intro a b; unfold exCmp; omega, by intro a b c; unfold exCmp; omega⟩

/-- `HasRank` is invariant under permutation of the list -/
theorem hasRank_of_perm {α : Type} {cmp : α → α → Int} {l l' : List α} (h : l.Perm l') {k : Nat} {v : α}
    (hr : HasRank cmp l k v) : HasRank cmp l' k v :=
  ⟨(h.mem_iff).1 hr.1, by rw [← h.countP_eq]; exact hr.2.1, by rw [← h.countP_eq]; exact hr.2.2⟩

end AlgoVerif.C07
