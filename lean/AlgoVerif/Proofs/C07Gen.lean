import AlgoVerif.Generated.C07Gen
import AlgoVerif.Proofs.GoRt
import AlgoVerif.Model.C07
/-!
# The GENERATED model of `sort/{insertion,selection,shell,heap,merge}.go` and the hand-written Model

`Generated/C07Gen.lean` is rewritten from /repo's source by `/verif/extract/go2lean` on every check run
(`bin/pre-C07`).  The hand Model (`Model/C07.lean`) gives every loop its own fuel (`len(a) + 1`, `n + 1`, …);
the generated definitions give the counted loops no fuel at all (they recurse on the trip count) and all other
loops the ONE fuel their caller supplies.  So the two are related by `x ≼ y` (`Proofs/GoRt.lean`): the hand
Model's outcome `x` is `diverge` (its fuel ran out — excluded by the `C07_*` theorems for total preorders), or the
generated definition, given at least the stated fuel, computes exactly `x`: same array, same panics.

Every loop lemma is an induction on the hand Model's fuel; the step is `outcome_auto` (case analysis on every test
and every bound read / store of both sides).
-/
set_option linter.unusedSectionVars false
set_option linter.unusedSimpArgs false
namespace AlgoVerif.C07.Gen
open AlgoVerif AlgoVerif.Outcome AlgoVerif.C07 AlgoVerif.Generated.Sort
variable {α : Type} [Inhabited α]

theorem get_eq (a : Array α) (i : Int) : C07.get a i = Go.idx a i := rfl
theorem set_eq (a : Array α) (i : Int) (v : α) : C07.set a i v = Go.setIdx a i v := rfl

@[simp] theorem idx_ne_diverge (s : Array α) (i : Int) : (Go.idx s i = .diverge) = False := by
  unfold Go.idx; split <;> simp
@[simp] theorem setIdx_ne_diverge (s : Array α) (i : Int) (v : α) : (Go.setIdx s i v = .diverge) = False := by
  unfold Go.setIdx; split <;> simp

/-- `a[i], a[j] = a[j], a[i]` as the translator spells it: read `a[j]`, read `a[i]`, store, store -/
theorem swap_eq (a : Array α) (i j : Int) :
    C07.swap a i j = (do
      let y ← Go.idx a j
      let x ← Go.idx a i
      let a1 ← Go.setIdx a i y
      Go.setIdx a1 j x) := by
  unfold C07.swap Go.idx Go.setIdx
  by_cases hi : 0 ≤ i ∧ i < a.size <;> by_cases hj : 0 ≤ j ∧ j < a.size <;> simp [hi, hj, Array.swap]

/-! ## insertion.go -/

theorem insertion_loop2 (cmp : α → α → Int) (F : Nat) : ∀ (f d : Nat) (j : Int) (a : Array α),
    insInner cmp f j a ≼ Insertion.loop2 F cmp (f + d) j a := by
  intro f
  induction f with
  | zero => intro d j a; simp [insInner]
  | succ f ih =>
    intro d j a
    rw [show f + 1 + d = (f + d) + 1 by omega]
    simp only [insInner, Insertion.loop2, get_eq, swap_eq]
    outcome_auto

theorem insertion_loop1 (cmp : α → α → Int) (n : Int) (d : Nat) : ∀ (f : Nat) (i : Int) (a : Array α),
    insLoop cmp n f i a ≼ Insertion.loop1 (n.toNat + 1 + d) cmp (n - i).toNat i a := by
  intro f
  induction f with
  | zero => intro i a; simp [insLoop]
  | succ f ih =>
    intro i a
    simp only [insLoop]
    split
    · rw [show (n - i).toNat = (n - (i + 1)).toNat + 1 by omega]
      simp only [Insertion.loop1]
      exact bind_le (insertion_loop2 cmp _ _ _ i a) (fun a' => ih (i + 1) a')
    · rw [show (n - i).toNat = 0 by omega]
      simp [Insertion.loop1]

/-- `Insertion` with any fuel `≥ len(a) + 1` -/
theorem insertion_le (cmp : α → α → Int) (a : Array α) (d : Nat) :
    insertion cmp a ≼ Insertion (a.size + 1 + d) a cmp := by
  have := insertion_loop1 cmp (a.size : Int) d (a.size + 1) 0 a
  simpa [insertion, Insertion] using this

/-! ## selection.go (counted loops only: the generated definition takes no fuel) -/

theorem selection_loop2 (cmp : α → α → Int) (a : Array α) (n : Int) : ∀ (f : Nat) (j m : Int),
    selMin cmp a n f j m ≼ Selection.loop2 a cmp (n - j).toNat j m := by
  intro f
  induction f with
  | zero => intro j m; simp [selMin]
  | succ f ih =>
    intro j m
    simp only [selMin]
    split
    · rw [show (n - j).toNat = (n - (j + 1)).toNat + 1 by omega]
      simp only [Selection.loop2, get_eq]
      outcome_auto
    · rw [show (n - j).toNat = 0 by omega]
      simp [Selection.loop2]

theorem selection_loop1 (cmp : α → α → Int) (n : Int) : ∀ (f : Nat) (i : Int) (a : Array α),
    selLoop cmp n f i a ≼ Selection.loop1 cmp n (n - i).toNat i a := by
  intro f
  induction f with
  | zero => intro i a; simp [selLoop]
  | succ f ih =>
    intro i a
    simp only [selLoop]
    split
    · rw [show (n - i).toNat = (n - (i + 1)).toNat + 1 by omega]
      simp only [Selection.loop1, swap_eq]
      have h2 := selection_loop2 cmp a n (n.toNat + 1) (i + 1) i
      outcome_auto
    · rw [show (n - i).toNat = 0 by omega]
      simp [Selection.loop1]

theorem selection_le (cmp : α → α → Int) (a : Array α) : selection cmp a ≼ Selection a cmp := by
  have := selection_loop1 cmp (a.size : Int) (a.size + 1) 0 a
  simpa [selection, Selection] using this

/-! ## shell.go -/

theorem shell_loop1 (F : Nat) (n : Int) (hn : 0 ≤ n) : ∀ (f d : Nat) (h : Int),
    shellGap n f h ≼ Shell.loop1 (T := α) F n (f + d) h := by
  intro f
  induction f with
  | zero => intro d h; simp [shellGap]
  | succ f ih =>
    intro d h
    rw [show f + 1 + d = (f + d) + 1 by omega]
    have e : Int.tdiv n 3 = n / 3 := Int.tdiv_eq_ediv_of_nonneg hn
    simp only [shellGap, Shell.loop1, e]
    outcome_auto

theorem shell_loop4 (cmp : α → α → Int) (F : Nat) (h : Int) : ∀ (f d : Nat) (j : Int) (a : Array α),
    shellIns cmp h f j a ≼ Shell.loop4 F cmp h (f + d) j a := by
  intro f
  induction f with
  | zero => intro d j a; simp [shellIns]
  | succ f ih =>
    intro d j a
    rw [show f + 1 + d = (f + d) + 1 by omega]
    simp only [shellIns, Shell.loop4, get_eq, swap_eq]
    outcome_auto

theorem shell_loop3 (cmp : α → α → Int) (h n : Int) (d : Nat) : ∀ (f : Nat) (i : Int) (a : Array α),
    shellPass cmp h n f i a ≼ Shell.loop3 (n.toNat + 1 + d) cmp h (n - i).toNat i a := by
  intro f
  induction f with
  | zero => intro i a; simp [shellPass]
  | succ f ih =>
    intro i a
    simp only [shellPass]
    split
    · rw [show (n - i).toNat = (n - (i + 1)).toNat + 1 by omega]
      simp only [Shell.loop3]
      exact bind_le (shell_loop4 cmp _ h _ _ i a) (fun a' => ih (i + 1) a')
    · rw [show (n - i).toNat = 0 by omega]
      simp [Shell.loop3]

theorem shell_loop2 (cmp : α → α → Int) (n : Int) (d : Nat) : ∀ (f e : Nat) (h : Int) (a : Array α),
    shellLoop cmp n f h a ≼ (Shell.loop2 (n.toNat + 1 + d) cmp n (f + e) a h).map Prod.fst := by
  intro f
  induction f with
  | zero => intro e h a; simp [shellLoop]
  | succ f ih =>
    intro e h a
    rw [show f + 1 + e = (f + e) + 1 by omega]
    simp only [shellLoop, Shell.loop2]
    split
    · rename_i hh
      have e3 : Int.tdiv h 3 = h / 3 := Int.tdiv_eq_ediv_of_nonneg (by omega)
      have hd : decide (h ≥ 1) = true := by simpa using hh
      simp only [hd, Bool.not_true, Bool.false_eq_true, if_false, e3, Outcome.map_bind]
      exact bind_le (shell_loop3 cmp h n d (n.toNat + 1) h a) (fun a' => ih e (h / 3) a')
    · rename_i hh
      have hd : decide (h ≥ 1) = false := by simpa using hh
      simp [hd]

/-- `Shell` with any fuel `≥ len(a) + 2` -/
theorem shell_le (cmp : α → α → Int) (a : Array α) (d : Nat) :
    shell cmp a ≼ Shell (a.size + 2 + d) a cmp := by
  obtain ⟨F, hF⟩ : ∃ F, F = a.size + 2 + d := ⟨_, rfl⟩
  have h1 := shell_loop1 (α := α) F (a.size : Int) (by omega) (a.size + 1) (1 + d) 1
  rw [show a.size + 1 + (1 + d) = F by omega] at h1
  have h2 := fun h => shell_loop2 cmp (a.size : Int) (1 + d) (a.size + 2) d h a
  simp only [Int.toNat_natCast, show a.size + 1 + (1 + d) = F by omega, show a.size + 2 + d = F by omega] at h2
  rw [← hF]
  simp only [shell, Shell]
  refine bind_le h1 fun h => ?_
  have := h2 h
  revert this
  cases Shell.loop2 F cmp (↑a.size) F a h <;> simp

/-! ## heap.go -/

theorem bind_eq_ok' {β γ : Type} {x : Outcome β} {f : β → Outcome γ} {b : γ} :
    (x >>= f) = .ok b ↔ ∃ a, x = .ok a ∧ f a = .ok b := by
  cases x <;> simp

theorem swap_size {a a' : Array α} {i j : Int} (h : C07.swap a i j = .ok a') : a'.size = a.size := by
  unfold C07.swap at h
  split at h
  · cases h; simp
  · cases h

/-- `sink` only swaps: the length is unchanged (the hand Model's fuel `len(a) + 1` is therefore the same number
at every call) -/
theorem sink_size (cmp : α → α → Int) (n : Int) : ∀ (f : Nat) (k : Int) (a a' : Array α),
    C07.sink cmp n f k a = .ok a' → a'.size = a.size := by
  intro f
  induction f with
  | zero => intro k a a' h; cases h
  | succ f ih =>
    intro k a a' h
    simp only [C07.sink] at h
    split at h
    · obtain ⟨j, -, h⟩ := bind_eq_ok'.1 h
      obtain ⟨x, -, h⟩ := bind_eq_ok'.1 h
      obtain ⟨y, -, h⟩ := bind_eq_ok'.1 h
      split at h
      · cases h; rfl
      · obtain ⟨a1, h1, h2⟩ := bind_eq_ok'.1 h
        rw [ih _ _ _ h2, swap_size h1]
    · cases h; rfl

theorem heap_sink_loop (cmp : α → α → Int) (n : Int) (F : Nat) : ∀ (f d : Nat) (k : Int) (a : Array α),
    C07.sink cmp n f k a ≼ (sink.loop1 F n cmp (f + d) a k).map Prod.fst := by
  intro f
  induction f with
  | zero => intro d k a; simp [C07.sink]
  | succ f ih =>
    intro d k a
    rw [show f + 1 + d = (f + d) + 1 by omega]
    simp only [C07.sink, sink.loop1, get_eq, swap_eq]
    outcome_auto

theorem heap_sink (cmp : α → α → Int) (n : Int) (f d : Nat) (k : Int) (a : Array α) :
    C07.sink cmp n f k a ≼ Generated.Sort.sink (f + d) a k n cmp := by
  have := heap_sink_loop cmp n (f + d) f d k a
  simp only [Generated.Sort.sink]
  revert this
  cases sink.loop1 (f + d) n cmp (f + d) a k <;> simp

/-- `for k := n / 2; k >= 1; k-- { sink(a, k, n, cmp) }` -/
theorem heap_loop1 (cmp : α → α → Int) (n : Int) (F : Nat) : ∀ (f : Nat) (k : Int) (a : Array α),
    a.size + 1 ≤ F → heapBuild cmp n f k a ≼ heap.loop1 F cmp n k.toNat k a := by
  intro f
  induction f with
  | zero => intro k a _; simp [heapBuild]
  | succ f ih =>
    intro k a hF
    simp only [heapBuild]
    split
    · rw [show k.toNat = (k - 1).toNat + 1 by omega]
      simp only [heap.loop1]
      obtain ⟨d, rfl⟩ : ∃ d, F = a.size + 1 + d := ⟨F - (a.size + 1), by omega⟩
      have hs := heap_sink cmp n (a.size + 1) d k a
      cases h1 : C07.sink cmp n (a.size + 1) k a with
      | ok a1 =>
        rw [h1] at hs
        simp only [ok_le] at hs
        simp only [hs, Outcome.ok_bind]
        exact ih (k - 1) a1 (by rw [sink_size cmp n _ _ _ _ h1]; omega)
      | panic => rw [h1] at hs; simp only [panic_le] at hs; simp [hs]
      | diverge => simp
    · rw [show k.toNat = 0 by omega]
      simp [heap.loop1]

theorem bind_le' {β γ : Type} {x x' : Outcome β} {f f' : β → Outcome γ} (hx : x ≼ x')
    (hf : ∀ a, x = .ok a → f a ≼ f' a) : (x >>= f) ≼ (x' >>= f') := by
  rcases hx with rfl | rfl
  · exact .inl rfl
  · cases x <;> simp_all

/-- the translator's four-step swap, followed by anything, is the Model's `swap` followed by it -/
theorem swap_bind {β : Type} (a : Array α) (i j : Int) (G : Array α → Outcome β) :
    (Go.idx a j >>= fun y => Go.idx a i >>= fun x => Go.setIdx a i y >>= fun b => Go.setIdx b j x >>= G) =
      (C07.swap a i j >>= G) := by
  rw [swap_eq]; simp only [Outcome.bind_assoc]

/-- `for n > 1 { a[1], a[n] = a[n], a[1]; n--; sink(a, 1, n, cmp) }` -/
theorem heap_loop2 (cmp : α → α → Int) (F : Nat) : ∀ (f d : Nat) (n : Int) (a : Array α),
    a.size + 1 ≤ F → heapDrain cmp f n a ≼ (heap.loop2 F cmp (f + d) a n).map Prod.fst := by
  intro f
  induction f with
  | zero => intro d n a _; simp [heapDrain]
  | succ f ih =>
    intro d n a hF
    rw [show f + 1 + d = (f + d) + 1 by omega]
    simp only [heapDrain, heap.loop2]
    split
    · rename_i hn
      have hd : decide (n > 1) = true := by simpa using hn
      simp only [hd, Bool.not_true, Bool.false_eq_true, if_false, Outcome.bind_assoc, Outcome.pure_eq,
        Outcome.ok_bind, Outcome.map_bind, swap_bind]
      refine bind_le' (le_refl _) fun a1 h1 => ?_
      have hs1 := swap_size h1
      obtain ⟨e, rfl⟩ : ∃ e, F = a1.size + 1 + e := ⟨F - (a1.size + 1), by omega⟩
      refine bind_le' (heap_sink cmp (n - 1) (a1.size + 1) e 1 a1) fun a2 h2 => ?_
      exact ih d (n - 1) a2 (by rw [sink_size cmp _ _ _ _ _ h2]; omega)
    · rename_i hn
      have hd : decide (n > 1) = false := by simpa using hn
      simp [hd]

theorem heapBuild_size (cmp : α → α → Int) (n : Int) : ∀ (f : Nat) (k : Int) (a a' : Array α),
    heapBuild cmp n f k a = .ok a' → a'.size = a.size := by
  intro f
  induction f with
  | zero => intro k a a' h; cases h
  | succ f ih =>
    intro k a a' h
    simp only [heapBuild] at h
    split at h
    · obtain ⟨a1, h1, h2⟩ := bind_eq_ok'.1 h
      rw [ih _ _ _ h2, sink_size cmp n _ _ _ _ h1]
    · cases h; rfl

theorem heapDrain_size (cmp : α → α → Int) : ∀ (f : Nat) (n : Int) (a a' : Array α),
    heapDrain cmp f n a = .ok a' → a'.size = a.size := by
  intro f
  induction f with
  | zero => intro n a a' h; cases h
  | succ f ih =>
    intro n a a' h
    simp only [heapDrain] at h
    split at h
    · obtain ⟨a1, h1, h⟩ := bind_eq_ok'.1 h
      obtain ⟨a2, h2, h3⟩ := bind_eq_ok'.1 h
      rw [ih _ _ _ h3, sink_size cmp _ _ _ _ _ h2, swap_size h1]
    · cases h; rfl

/-- `heap` (the 1-based core) on a slice that has its slot 0, with any fuel `≥ len(a) + 1` -/
theorem heapCore_le (cmp : α → α → Int) (a : Array α) (ha : 1 ≤ a.size) (d : Nat) :
    heapCore cmp a ≼ Generated.Sort.heap (a.size + 1 + d) a cmp := by
  have e : Int.tdiv ((a.size : Int) - 1) 2 = ((a.size : Int) - 1) / 2 := Int.tdiv_eq_ediv_of_nonneg (by omega)
  simp only [heapCore, Generated.Sort.heap, e, Outcome.pure_eq, Outcome.bind_assoc, Outcome.ok_bind,
    show ∀ k : Int, (k + 1 - 1).toNat = k.toNat from fun k => by omega]
  refine bind_le' (heap_loop1 cmp _ (a.size + 1 + d) (a.size + 1) _ a (by omega)) fun a1 h1 => ?_
  have hs := heapBuild_size cmp _ _ _ _ _ h1
  have := heap_loop2 cmp (a.size + 1 + d) (a1.size + 1) d ((a.size : Int) - 1) a1 (by omega)
  rw [hs] at this ⊢
  revert this
  cases heap.loop2 (a.size + 1 + d) cmp (a.size + 1 + d) a1 ((a.size : Int) - 1) <;> simp

theorem heapCore_size (cmp : α → α → Int) (a a' : Array α) (h : heapCore cmp a = .ok a') : a'.size = a.size := by
  simp only [heapCore] at h
  obtain ⟨a1, h1, h2⟩ := bind_eq_ok'.1 h
  rw [heapDrain_size cmp _ _ _ _ h2, heapBuild_size cmp _ _ _ _ _ h1]

theorem copy_eq_of_size {dst src : Array α} (h : src.size = dst.size) : Go.copy dst src = src := by
  apply Array.ext (by simp [Go.copy, h])
  intro i h1 h2
  simp [Go.copy, h2]

/-- `Heap` with any fuel `≥ len(a) + 2`; the zero value of `T` is the `default` of the `Inhabited` instance -/
theorem heap_le (cmp : α → α → Int) (zero : α) (a : Array α) (d : Nat) :
    C07.heap cmp zero a ≼ @Generated.Sort.Heap α ⟨zero⟩ (a.size + 2 + d) a cmp := by
  have hsz : (#[zero] ++ a).size = a.size + 1 := by simp; omega
  have := @heapCore_le α ⟨zero⟩ cmp (#[zero] ++ a) (by omega) d
  rw [hsz, show a.size + 1 + 1 + d = a.size + 2 + d by omega] at this
  simp only [C07.heap, Generated.Sort.Heap, Outcome.pure_eq, Outcome.bind_assoc, Outcome.ok_bind]
  refine bind_le' this fun a1 h1 => ?_
  have hs := heapCore_size cmp _ _ h1
  have hsl : Go.slice a1 1 (a1.size : Int) = .ok (a1.extract 1 a1.size) := by
    simp [Go.slice]; omega
  simp only [hsl, Outcome.ok_bind, ok_le, Outcome.ok.injEq]
  exact copy_eq_of_size (by simp; omega)

/-! ## merge.go -/

theorem min_eq (a b : Int) : Generated.Sort.min a b = imin a b := by
  by_cases h : a < b <;> simp [Generated.Sort.min, imin, h] <;> rfl

/-- the `for k := lo; k <= hi; k++ { switch … }` loop (counted: no fuel on the generated side) -/
theorem merge_loop1 (cmp : α → α → Int) (aux : Array α) (mid hi : Int) : ∀ (f : Nat) (k i j : Int) (a : Array α),
    mergeLoop cmp aux mid hi f k i j a ≼
      (merge.loop1 aux mid hi cmp (hi + 1 - k).toNat k a i j).map (fun r => r.1) := by
  intro f
  induction f with
  | zero => intro k i j a; simp [mergeLoop]
  | succ f ih =>
    intro k i j a
    simp only [mergeLoop]
    split
    · rw [show (hi + 1 - k).toNat = (hi + 1 - (k + 1)).toNat + 1 by omega]
      simp only [merge.loop1, get_eq, set_eq]
      outcome_auto
    · rw [show (hi + 1 - k).toNat = 0 by omega]
      simp [merge.loop1]

/-- `copy(aux[lo:hi], a[lo:hi])`: the Model's `copyRange` is the translator's slice-then-copy -/
theorem copyRange_eq (dst src : Array α) (lo hi : Int) :
    copyRange dst src lo hi = (Go.slice src lo hi >>= fun s => Go.copyInto dst lo hi s) := by
  unfold copyRange Go.slice Go.copyInto
  by_cases hS : 0 ≤ lo ∧ lo ≤ hi ∧ hi ≤ src.size
  · by_cases hD : 0 ≤ lo ∧ lo ≤ hi ∧ hi ≤ dst.size
    · have hC : 0 ≤ lo ∧ lo ≤ hi ∧ hi ≤ dst.size ∧ hi ≤ src.size := ⟨hS.1, hS.2.1, hD.2.2, hS.2.2⟩
      simp only [hS, hD, hC, and_self, dif_pos, if_true, Outcome.ok_bind, Outcome.ok.injEq]
      apply Array.ext (by simp)
      intro k h1 h2
      simp only [Array.size_ofFn] at h1
      simp only [Array.getElem_ofFn, Array.size_extract, Array.getElem_extract]
      by_cases hk : lo ≤ (k : Int) ∧ (k : Int) < hi
      · have : lo.toNat ≤ k ∧ k < hi.toNat ∧ k - lo.toNat < Min.min hi.toNat src.size - lo.toNat := by omega
        simp only [hk, this, and_self, dif_pos]
        congr 1; omega
      · have : ¬ (lo.toNat ≤ k ∧ k < hi.toNat ∧ k - lo.toNat < Min.min hi.toNat src.size - lo.toNat) := by omega
        simp only [hk, this, dif_neg, not_false_eq_true]
    · have hC : ¬ (0 ≤ lo ∧ lo ≤ hi ∧ hi ≤ dst.size ∧ hi ≤ src.size) := fun h => hD ⟨h.1, h.2.1, h.2.2.1⟩
      have hd : ¬ hi ≤ dst.size := fun h => hD ⟨hS.1, hS.2.1, h⟩
      simp [hS, hd]
  · have hC : ¬ (0 ≤ lo ∧ lo ≤ hi ∧ hi ≤ dst.size ∧ hi ≤ src.size) := fun h => hS ⟨h.1, h.2.1, h.2.2.2⟩
    simp [hS, hC]

/-- `merge` (no fuel on the generated side) -/
theorem merge_le (cmp : α → α → Int) (a aux : Array α) (lo mid hi : Int) :
    C07.merge cmp a aux lo mid hi ≼ Generated.Sort.merge a aux lo mid hi cmp := by
  simp only [C07.merge, Generated.Sort.merge, copyRange_eq, Outcome.bind_assoc, Outcome.pure_eq, Outcome.ok_bind]
  refine bind_le' (le_refl _) fun s _ => bind_le' (le_refl _) fun aux1 _ => ?_
  have := merge_loop1 cmp aux1 mid hi ((hi - lo).toNat + 2) lo lo (mid + 1) a
  revert this
  cases merge.loop1 aux1 mid hi cmp (hi + 1 - lo).toNat lo a lo (mid + 1) <;>
    cases mergeLoop cmp aux1 mid hi ((hi - lo).toNat + 2) lo lo (mid + 1) a <;> simp

/-- `for lo := 0; lo < n-sz; lo += sz + sz { merge(…) }` -/
theorem merge_loop2 (cmp : α → α → Int) (n sz : Int) (F : Nat) : ∀ (f d : Nat) (lo : Int) (a aux : Array α),
    mergePass cmp n sz f lo a aux ≼ Merge.loop2 F cmp n sz (f + d) lo a aux := by
  intro f
  induction f with
  | zero => intro d lo a aux; simp [mergePass]
  | succ f ih =>
    intro d lo a aux
    rw [show f + 1 + d = (f + d) + 1 by omega]
    simp only [mergePass, Merge.loop2, min_eq]
    split
    · rename_i h
      have hd : decide (lo < n - sz) = true := by simpa using h
      simp only [hd, Bool.not_true, Bool.false_eq_true, if_false, Outcome.bind_assoc, Outcome.pure_eq, Outcome.ok_bind]
      refine bind_le' (merge_le cmp a aux lo _ _) fun r _ => ?_
      obtain ⟨a1, aux1⟩ := r
      exact ih d _ a1 aux1
    · rename_i h
      have hd : decide (lo < n - sz) = false := by simpa using h
      simp [hd]

/-- `for sz := 1; sz < n; sz += sz { … }` -/
theorem merge_loop1' (cmp : α → α → Int) (n : Int) (d : Nat) : ∀ (f e : Nat) (sz : Int) (a aux : Array α),
    mergeSizes cmp n f sz a aux ≼ Merge.loop1 (n.toNat + 1 + d) cmp n (f + e) sz a aux := by
  intro f
  induction f with
  | zero => intro e sz a aux; simp [mergeSizes]
  | succ f ih =>
    intro e sz a aux
    rw [show f + 1 + e = (f + e) + 1 by omega]
    simp only [mergeSizes, Merge.loop1]
    split
    · rename_i h
      have hd : decide (sz < n) = true := by simpa using h
      simp only [hd, Bool.not_true, Bool.false_eq_true, if_false, Outcome.bind_assoc, Outcome.pure_eq, Outcome.ok_bind]
      refine bind_le' (merge_loop2 cmp n sz _ (n.toNat + 1) d 0 a aux) fun r _ => ?_
      obtain ⟨a1, aux1⟩ := r
      exact ih e _ a1 aux1
    · rename_i h
      have hd : decide (sz < n) = false := by simpa using h
      simp [hd]

/-- `Merge` (bottom-up) with any fuel `≥ len(a) + 1` -/
theorem mergeBU_le (cmp : α → α → Int) (zero : α) (a : Array α) (d : Nat) :
    mergeBU cmp zero a ≼ @Generated.Sort.Merge α ⟨zero⟩ (a.size + 1 + d) a cmp := by
  have := @merge_loop1' α ⟨zero⟩ cmp (a.size : Int) d (a.size + 1) d 1 a (Array.replicate a.size zero)
  simp only [Int.toNat_natCast] at this
  simp only [mergeBU, Generated.Sort.Merge, Go.make_nat, Outcome.pure_eq, Outcome.bind_assoc, Outcome.ok_bind]
  refine bind_le' this fun r _ => ?_
  obtain ⟨a1, aux1⟩ := r
  simp

/-- `mergeRec` (fuel = recursion depth on both sides).  `0 ≤ lo`: the hand Model writes `(lo + hi) / 2` with
Lean's flooring division, the generated definition with Go's truncating one; they agree on the non-negative
sums that occur. -/
theorem mergeRec_loop (cmp : α → α → Int) : ∀ (f d : Nat) (a aux : Array α) (lo hi : Int), 0 ≤ lo →
    mergeRecAux cmp f a aux lo hi ≼ Generated.Sort.mergeRec (f + d) a aux lo hi cmp := by
  intro f
  induction f with
  | zero => intro d a aux lo hi _; simp [mergeRecAux]
  | succ f ih =>
    intro d a aux lo hi hlo
    rw [show f + 1 + d = (f + d) + 1 by omega]
    simp only [mergeRecAux, Generated.Sort.mergeRec]
    split
    · rename_i h
      have hd : decide (hi ≤ lo) = true := by simpa using h
      simp [hd]
    · rename_i h
      have hd : decide (hi ≤ lo) = false := by simpa using h
      have e2 : Int.tdiv (lo + hi) 2 = (lo + hi) / 2 := Int.tdiv_eq_ediv_of_nonneg (by omega)
      simp only [hd, Bool.false_eq_true, if_false, Outcome.bind_assoc, Outcome.pure_eq, Outcome.ok_bind, e2, get_eq]
      refine bind_le' (ih d a aux lo _ hlo) fun r _ => ?_
      obtain ⟨a1, aux1⟩ := r
      refine bind_le' (ih d a1 aux1 _ hi (by omega)) fun r _ => ?_
      obtain ⟨a2, aux2⟩ := r
      simp only
      refine bind_le' (le_refl _) fun x _ => bind_le' (le_refl _) fun y _ => ?_
      by_cases hc : cmp x y ≥ 0
      · simp [hc]
      · have := merge_le cmp a2 aux2 lo ((lo + hi) / 2) hi
        revert this
        cases Generated.Sort.merge a2 aux2 lo ((lo + hi) / 2) hi cmp <;> simp [hc]

/-- `MergeRec` with any fuel `≥ len(a) + 1` -/
theorem mergeRec_le (cmp : α → α → Int) (zero : α) (a : Array α) (d : Nat) :
    C07.mergeRec cmp zero a ≼ @Generated.Sort.MergeRec α ⟨zero⟩ (a.size + 1 + d) a cmp := by
  have := @mergeRec_loop α ⟨zero⟩ cmp (a.size + 1) d a (Array.replicate a.size zero) 0 ((a.size : Int) - 1)
    (Int.le_refl 0)
  simp only [C07.mergeRec, Generated.Sort.MergeRec, Go.make_nat, Outcome.pure_eq, Outcome.bind_assoc, Outcome.ok_bind]
  refine bind_le' this fun r _ => ?_
  obtain ⟨a1, aux1⟩ := r
  simp

end AlgoVerif.C07.Gen
