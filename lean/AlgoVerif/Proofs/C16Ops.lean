import AlgoVerif.Proofs.C16Sorted
/-!
# C16 helper lemmas, part 3: find / Contains / Add / Remove / Equal on a well-formed set object
-/
namespace AlgoVerif.C16
variable {α : Type} {σ : Type}

def Impl.isSorted : Impl α → Bool
  | .sorted _ => true
  | _ => false

def Impl.isUnordered : Impl α → Bool
  | .unordered _ => true
  | _ => false

/-- `SortedBy` in terms of the sign function of the law -/
theorem sortedBy_iff {dom : α → Prop} {compare : CompareFunc α} {c : α → α → Int}
    (hc : ∀ a b, dom a → dom b → compare a b = .ok (c a b)) {l : List α} (hd : ∀ x ∈ l, dom x) :
    SortedBy compare l ↔ l.Pairwise (fun a b => c a b < 0) := by
  constructor
  · refine List.Pairwise.imp_of_mem ?_
    rintro a b ha hb ⟨c', h, hlt⟩
    rw [hc a b (hd a ha) (hd b hb)] at h
    cases h
    exact hlt
  · refine List.Pairwise.imp_of_mem ?_
    intro a b ha hb h
    exact ⟨_, hc a b (hd a ha) (hd b hb), h⟩

theorem split_at_index (l : List α) (k : Nat) (hk : k < l.length) :
    l = l.take k ++ l[k] :: l.drop (k + 1) ∧ (l.take k).length = k := by
  refine ⟨?_, by simp [List.length_take]; omega⟩
  rw [List.getElem_cons_drop, List.take_append_drop]

section
variable {dom : α → Prop} {R : α → α → Prop} (hR : Equivalence R)
include hR

/-- `find` returns `-1` exactly when no member matches, otherwise the position of a matching member -/
theorem MSet.find_spec {s : MSet α} (h : WF dom R s) {v : α} (hv : dom v) :
    (¬ MemR R v s.members ∧ s.find v = .ok (-1)) ∨
    (∃ l₁ m l₂, s.members = l₁ ++ m :: l₂ ∧ R m v ∧ s.find v = .ok (l₁.length : Int)) := by
  obtain ⟨impl, members⟩ := s
  have hlaw := h.law
  cases impl with
  | unordered equal =>
    rcases first_match_split R v members with hn | ⟨l₁, m, l₂, rfl, h₁, h₂⟩
    · exact .inl ⟨hn, linFind_not_mem hlaw hv members 0 h.mem_dom hn⟩
    · refine .inr ⟨l₁, m, l₂, rfl, h₂, ?_⟩
      have := linFind_mem hlaw hv l₁ m l₂ 0 h.mem_dom h₁ h₂
      simpa [MSet.find] using this
  | stable equal =>
    rcases first_match_split R v members with hn | ⟨l₁, m, l₂, rfl, h₁, h₂⟩
    · exact .inl ⟨hn, linFind_not_mem hlaw hv members 0 h.mem_dom hn⟩
    · refine .inr ⟨l₁, m, l₂, rfl, h₂, ?_⟩
      have := linFind_mem hlaw hv l₁ m l₂ 0 h.mem_dom h₁ h₂
      simpa [MSet.find] using this
  | sorted compare =>
    obtain ⟨c, hc, hc0, hanti, htrans⟩ := hlaw
    have hmd : ∀ x ∈ members, dom x := h.mem_dom
    have hs : members.Pairwise (fun a b => c a b < 0) := (sortedBy_iff hc hmd).1 (h.sorted compare rfl)
    rcases binFind_loop hc hanti htrans hs hmd hv (members.length + 1) 0 ((members.length : Int) - 1)
      (by omega) (by omega) (by omega) (by omega) (by intro k hk hk'; omega) (by intro k hk hk'; omega) with
      ⟨hf, hn⟩ | ⟨k, hk, hf, h0⟩
    · refine .inl ⟨?_, hf⟩
      rintro ⟨y, hy, hyv⟩
      exact hn y hy ((hc0 _ _).2 (hR.symm hyv))
    · obtain ⟨hsplit, hlen⟩ := split_at_index members k hk
      refine .inr ⟨members.take k, members[k], members.drop (k + 1), hsplit, hR.symm ((hc0 _ _).1 h0), ?_⟩
      simp only [MSet.find, hf, hlen]

/-- `Contains(vals...)` -/
theorem MSet.contains_spec {s : MSet α} (h : WF dom R s) : ∀ vs : List α, (∀ v ∈ vs, dom v) →
    ∃ r, s.contains vs = .ok r ∧ (r = true ↔ ∀ v ∈ vs, MemR R v s.members)
  | [], _ => ⟨true, rfl, by simp⟩
  | v :: vs, hd => by
    rcases MSet.find_spec hR h (hd v (List.mem_cons_self ..)) with ⟨hn, hf⟩ | ⟨l₁, m, l₂, hs, hm, hf⟩
    · refine ⟨false, ?_, ?_⟩
      · simp [MSet.contains, hf]
      · simp only [Bool.false_eq_true, false_iff]
        intro hall
        exact hn (hall v (List.mem_cons_self ..))
    · obtain ⟨r, hr, hiff⟩ := MSet.contains_spec h vs (fun w hw => hd w (List.mem_cons_of_mem _ hw))
      refine ⟨r, ?_, ?_⟩
      · have : ¬ ((l₁.length : Int) = -1) := by omega
        simp [MSet.contains, hf, this, hr]
      · rw [hiff]
        have hmem : MemR R v s.members := ⟨m, by rw [hs]; simp, hm⟩
        constructor
        · intro hall w hw
          rcases List.mem_cons.1 hw with rfl | hw
          · exact hmem
          · exact hall w hw
        · intro hall w hw
          exact hall w (List.mem_cons_of_mem _ hw)

theorem MSet.contains1_spec {s : MSet α} (h : WF dom R s) {v : α} (hv : dom v) :
    ∃ r, s.contains [v] = .ok r ∧ (r = true ↔ MemR R v s.members) := by
  obtain ⟨r, hr, hiff⟩ := MSet.contains_spec hR h [v] (by simpa using hv)
  exact ⟨r, hr, by simpa using hiff⟩

omit hR in
theorem pairwise_insert_mid {S : α → α → Prop} {l₁ l₂ : List α} {v : α} (h : (l₁ ++ l₂).Pairwise S)
    (h₁ : ∀ y ∈ l₁, S y v) (h₂ : ∀ y ∈ l₂, S v y) : (l₁ ++ v :: l₂).Pairwise S := by
  obtain ⟨p₁, p₂, p₁₂⟩ := List.pairwise_append.1 h
  refine List.pairwise_append.2 ⟨p₁, List.pairwise_cons.2 ⟨h₂, p₂⟩, ?_⟩
  intro a ha b hb
  rcases List.mem_cons.1 hb with rfl | hb
  · exact h₁ a ha
  · exact p₁₂ a ha b hb

/-- one round of `Add`: nothing happens when the value is already a member; otherwise it is put at the
end (`set`, `stable`) or at its place in the comparator order (`sorted`) -/
theorem MSet.add1_spec {s : MSet α} (h : WF dom R s) {v : α} (hv : dom v) :
    ∃ s', s.add1 v = .ok s' ∧ WF dom R s' ∧ s'.impl = s.impl ∧
      ((MemR R v s.members ∧ s' = s) ∨
       (¬ MemR R v s.members ∧ ∃ l₁ l₂, s.members = l₁ ++ l₂ ∧ s'.members = l₁ ++ v :: l₂ ∧
          (s.impl.isSorted = false → l₂ = []))) := by
  obtain ⟨impl, members⟩ := s
  cases impl with
  | unordered equal =>
    obtain ⟨r, hr, hiff⟩ := MSet.contains1_spec hR h hv
    cases r with
    | true => exact ⟨_, by simp [MSet.add1, hr], h, rfl, .inl ⟨hiff.1 rfl, rfl⟩⟩
    | false =>
      have hn : ¬ MemR R v members := fun hm => by simpa using hiff.2 hm
      refine ⟨⟨.unordered equal, members ++ [v]⟩, by simp [MSet.add1, hr], ?_, rfl,
        .inr ⟨hn, members, [], by simp, rfl, fun _ => rfl⟩⟩
      refine ⟨?_, ?_, h.law, ?_⟩
      · intro x hx
        rcases List.mem_append.1 hx with hx | hx
        · exact h.mem_dom x hx
        · simp at hx; subst hx; exact hv
      · have := pairwise_insert_mid (S := fun a b => ¬ R a b) (l₁ := members) (l₂ := []) (v := v)
          (by simpa using h.nodup) (fun y hy hyv => hn ⟨y, hy, hyv⟩) (by simp)
        simpa using this
      · intro compare hcmp; cases hcmp
  | stable equal =>
    obtain ⟨r, hr, hiff⟩ := MSet.contains1_spec hR h hv
    cases r with
    | true => exact ⟨_, by simp [MSet.add1, hr], h, rfl, .inl ⟨hiff.1 rfl, rfl⟩⟩
    | false =>
      have hn : ¬ MemR R v members := fun hm => by simpa using hiff.2 hm
      refine ⟨⟨.stable equal, members ++ [v]⟩, by simp [MSet.add1, hr], ?_, rfl,
        .inr ⟨hn, members, [], by simp, rfl, fun _ => rfl⟩⟩
      refine ⟨?_, ?_, h.law, ?_⟩
      · intro x hx
        rcases List.mem_append.1 hx with hx | hx
        · exact h.mem_dom x hx
        · simp at hx; subst hx; exact hv
      · have := pairwise_insert_mid (S := fun a b => ¬ R a b) (l₁ := members) (l₂ := []) (v := v)
          (by simpa using h.nodup) (fun y hy hyv => hn ⟨y, hy, hyv⟩) (by simp)
        simpa using this
      · intro compare hcmp; cases hcmp
  | sorted compare =>
    obtain ⟨c, hc, hc0, hanti, htrans⟩ := h.law
    have hmd : ∀ x ∈ members, dom x := h.mem_dom
    have hnd : members.Pairwise (fun a b => ¬ R a b) := h.nodup
    have hs : members.Pairwise (fun a b => c a b < 0) := (sortedBy_iff hc hmd).1 (h.sorted compare rfl)
    rcases binAddPos_loop hc hanti htrans hs hmd hv (members.length + 1) 0 ((members.length : Int) - 1)
      (by omega) (by omega) (by omega) (by omega) (by intro k hk hk'; omega) (by intro k hk hk'; omega) with
      ⟨hf, m, hm, h0⟩ | ⟨p, hp, hf, hlo, hhi⟩
    · refine ⟨⟨.sorted compare, members⟩, ?_, h, rfl, .inl ⟨⟨m, hm, hR.symm ((hc0 _ _).1 h0)⟩, rfl⟩⟩
      simp [MSet.add1, hf]
    · have hn : ¬ MemR R v members := by
        rintro ⟨y, hy, hyv⟩
        have h0 : c v y = 0 := (hc0 _ _).2 (hR.symm hyv)
        obtain ⟨k, hk, rfl⟩ := List.mem_iff_getElem.1 hy
        by_cases hkp : k < p
        · have := hlo k hk hkp; omega
        · have := hhi k hk (by omega); omega
      have hsplit : members = members.take p ++ members.drop p := (List.take_append_drop p members).symm
      have hbefore : ∀ y ∈ members.take p, c y v < 0 := by
        intro y hy
        obtain ⟨j, hj, rfl⟩ := List.mem_take_iff_getElem.1 hy
        have hj' : j < p ∧ j < members.length := by omega
        exact (hanti _ _).2 (hlo j hj'.2 hj'.1)
      have hafter : ∀ y ∈ members.drop p, c v y < 0 := by
        intro y hy
        obtain ⟨j, hj, rfl⟩ := List.mem_iff_getElem.1 hy
        rw [List.getElem_drop]
        exact hhi _ _ (by omega)
      refine ⟨⟨.sorted compare, members.take p ++ v :: members.drop p⟩, ?_, ?_, rfl,
        .inr ⟨hn, members.take p, members.drop p, hsplit, rfl, by simp [Impl.isSorted]⟩⟩
      · have : (0 : Int) ≤ p ∧ (p : Int) ≤ members.length := by omega
        simp [MSet.add1, hf, this]
      · have hdom' : ∀ x ∈ members.take p ++ v :: members.drop p, dom x := by
          intro x hx
          rcases List.mem_append.1 hx with hx | hx
          · exact hmd x (List.mem_of_mem_take hx)
          · rcases List.mem_cons.1 hx with rfl | hx
            · exact hv
            · exact hmd x (List.mem_of_mem_drop hx)
        refine ⟨hdom', ?_, h.law, ?_⟩
        · refine pairwise_insert_mid (by rw [← hsplit]; exact hnd) ?_ ?_
          · intro y hy hyv
            have := (hc0 _ _).2 hyv
            have := hbefore y hy
            omega
          · intro y hy hvy
            have := (hc0 _ _).2 hvy
            have := hafter y hy
            omega
        · intro compare' hcmp
          cases hcmp
          rw [sortedBy_iff hc hdom']
          exact pairwise_insert_mid (by rw [← hsplit]; exact hs) hbefore hafter

/-- one round of `Remove`: the matching member (if any) is cut out, the others keep their order -/
theorem MSet.remove1_spec {s : MSet α} (h : WF dom R s) {v : α} (hv : dom v) :
    ∃ s', s.remove1 v = .ok s' ∧ WF dom R s' ∧ s'.impl = s.impl ∧
      ((¬ MemR R v s.members ∧ s' = s) ∨
       (∃ l₁ m l₂, s.members = l₁ ++ m :: l₂ ∧ R m v ∧ s'.members = l₁ ++ l₂)) := by
  rcases MSet.find_spec hR h hv with ⟨hn, hf⟩ | ⟨l₁, m, l₂, hs, hm, hf⟩
  · exact ⟨s, by simp [MSet.remove1, hf], h, rfl, .inl ⟨hn, rfl⟩⟩
  · refine ⟨{ s with members := l₁ ++ l₂ }, ?_, ?_, rfl, .inr ⟨l₁, m, l₂, hs, hm, rfl⟩⟩
    · have h1 : ¬ ((l₁.length : Int) = -1) := by omega
      have h2 : (0 : Int) ≤ l₁.length ∧ (l₁.length : Int) + 1 ≤ s.members.length := by
        rw [hs]; simp only [List.length_append, List.length_cons]; omega
      simp only [MSet.remove1, hf, ok_bind, ne_eq, h1, not_false_eq_true, ↓reduceIte, h2, and_self]
      simp [hs]
    · have hsub : (l₁ ++ l₂).Sublist s.members := by
        rw [hs]
        exact List.Sublist.append (List.Sublist.refl _) (List.sublist_cons_self _ _)
      refine ⟨fun x hx => h.mem_dom x (hsub.subset hx), h.nodup.sublist hsub, h.law, ?_⟩
      intro compare hcmp
      exact (h.sorted compare hcmp).sublist hsub

end

/-! ### whole argument lists -/

section
variable {dom : α → Prop} {R : α → α → Prop} (hR : Equivalence R)
include hR

theorem MSet.add_wf {s : MSet α} (h : WF dom R s) : ∀ vs : List α, (∀ v ∈ vs, dom v) →
    ∃ s', s.add vs = .ok s' ∧ WF dom R s' ∧ s'.impl = s.impl := by
  intro vs
  induction vs generalizing s with
  | nil => intro _; exact ⟨s, rfl, h, rfl⟩
  | cons v vs ih =>
    intro hd
    obtain ⟨s₁, h₁, hw₁, hi₁, _⟩ := MSet.add1_spec hR h (hd v (List.mem_cons_self ..))
    obtain ⟨s₂, h₂, hw₂, hi₂⟩ := ih hw₁ (fun w hw => hd w (List.mem_cons_of_mem _ hw))
    exact ⟨s₂, by simp [MSet.add, h₁, h₂], hw₂, hi₂.trans hi₁⟩

theorem MSet.remove_wf {s : MSet α} (h : WF dom R s) : ∀ vs : List α, (∀ v ∈ vs, dom v) →
    ∃ s', s.remove vs = .ok s' ∧ WF dom R s' ∧ s'.impl = s.impl := by
  intro vs
  induction vs generalizing s with
  | nil => intro _; exact ⟨s, rfl, h, rfl⟩
  | cons v vs ih =>
    intro hd
    obtain ⟨s₁, h₁, hw₁, hi₁, _⟩ := MSet.remove1_spec hR h (hd v (List.mem_cons_self ..))
    obtain ⟨s₂, h₂, hw₂, hi₂⟩ := ih hw₁ (fun w hw => hd w (List.mem_cons_of_mem _ hw))
    exact ⟨s₂, by simp [MSet.remove, h₁, h₂], hw₂, hi₂.trans hi₁⟩

/-- `for _, m := range ms { if !rhs.Contains(m) { return false } }` -/
theorem containsEach_spec {rhs : MSet α} (h : WF dom R rhs) : ∀ ms : List α, (∀ v ∈ ms, dom v) →
    ∃ r, containsEach rhs ms = .ok r ∧ (r = true ↔ SubR R ms rhs.members)
  | [], _ => ⟨true, rfl, by simp [SubR]⟩
  | m :: ms, hd => by
    obtain ⟨r₁, hr₁, hiff₁⟩ := MSet.contains1_spec hR h (hd m (List.mem_cons_self ..))
    obtain ⟨r₂, hr₂, hiff₂⟩ := containsEach_spec h ms (fun w hw => hd w (List.mem_cons_of_mem _ hw))
    cases r₁ with
    | false =>
      refine ⟨false, by simp [containsEach, hr₁], ?_⟩
      simp only [Bool.false_eq_true, false_iff]
      intro hsub
      have := hiff₁.2 (hsub m (List.mem_cons_self ..))
      simp at this
    | true =>
      refine ⟨r₂, by simp [containsEach, hr₁, hr₂], ?_⟩
      rw [hiff₂]
      constructor
      · intro hsub w hw
        rcases List.mem_cons.1 hw with rfl | hw
        · exact hiff₁.1 rfl
        · exact hsub w hw
      · intro hsub w hw
        exact hsub w (List.mem_cons_of_mem _ hw)

/-- same members, modulo `R` -/
def SameR (R : α → α → Prop) (l₁ l₂ : List α) : Prop := SubR R l₁ l₂ ∧ SubR R l₂ l₁

/-- `Equal`: same size and every member of the receiver contained in the argument — which, for
duplicate-free member lists, is equality of the two sets (a counting argument) -/
theorem MSet.equal_spec {s rhs : MSet α} (hs : WF dom R s) (hr : WF dom R rhs) :
    ∃ r, s.equal rhs = .ok r ∧ (r = true ↔ SameR R s.members rhs.members) := by
  unfold MSet.equal MSet.size
  by_cases hlen : s.members.length = rhs.members.length
  · obtain ⟨r, hr', hiff⟩ := containsEach_spec hR hr s.members hs.mem_dom
    refine ⟨r, by simp [hlen, hr'], ?_⟩
    rw [hiff]
    constructor
    · intro hsub
      exact ⟨hsub, (subR_length hR _ _ hs.nodup hr.nodup hsub).2 hlen⟩
    · exact fun h => h.1
  · refine ⟨false, ?_, ?_⟩
    · have : ¬ ((s.members.length : Int) = rhs.members.length) := by omega
      simp [this]
    · simp only [Bool.false_eq_true, false_iff]
      rintro ⟨h₁, h₂⟩
      have a := (subR_length hR _ _ hs.nodup hr.nodup h₁).1
      have b := (subR_length hR _ _ hr.nodup hs.nodup h₂).1
      omega

end

end AlgoVerif.C16
