import AlgoVerif.Proofs.C08Total3
/-!
# Totality, part 4: TERM returns; BIN never diverges; `ChomskyNormalForm` returns unless BIN runs out of
numeric suffixes
-/
namespace AlgoVerif.C08
open AlgoVerif AlgoVerif.Gram AlgoVerif.C08.Spec

/-! ## strings -/

theorem append_single_cancel {a b : String} {c d : Char} (h : a.toList ++ [c] = b.toList ++ [d]) : a = b ∧ c = d := by
  have := List.append_inj' h rfl
  exact ⟨String.toList_inj.mp this.1, by simpa using this.2⟩

theorem getLast?_append_str (b s : String) {c : Char} (hs : s.toList.getLast? = some c) :
    (b ++ s).toList.getLast? = some c := by
  rw [String.toList_append, List.getLast?_append, hs]
  rfl

/-- no alphabetic suffix at the end of any declared name -/
def AlphaFree (g : G) : Prop :=
  (∀ n ∈ g.nonterms, ∀ s ∈ alphas, s.toList.isSuffixOf n.toList = false) ∧
  (∀ t ∈ g.terms, ∀ s ∈ alphas, s.toList.isSuffixOf t.toList = false)

theorem foldl_trim_free {n : String} :
    ∀ sufs : List String, (∀ s ∈ sufs, s.toList.isSuffixOf n.toList = false) → sufs.foldl trimSuffix n = n := by
  intro sufs
  induction sufs with
  | nil => intro _; rfl
  | cons s sufs ih =>
    intro h
    simp only [List.foldl_cons]
    rw [trimSuffix_of_not (h s (List.mem_cons_self ..))]
    exact ih (fun s hs => h s (List.mem_cons_of_mem _ hs))

theorem alphas_single : ∀ s ∈ alphas, ∃ c, s.toList = [c] := by
  have h : alphas.all (fun s => s.toList.length == 1) = true := by decide
  intro s hs
  have := List.all_eq_true.mp h s hs
  have hl : s.toList.length = 1 := by simpa using this
  match hx : s.toList, hl with
  | [c], _ => exact ⟨c, rfl⟩

/-! ## TERM returns -/

theorem termSymStep_total {g : G} (hw : WellFormed g) (hA : AlphaFree g) {acc : TermSt × List SSym} {sym : SSym}
    (hc : TermCore g acc.1) (hocc : ∃ p ∈ g.prods, sym ∈ p.body) :
    ∃ acc', termSymStep acc sym = .ok acc' ∧ TermCore g acc'.1 := by
  cases sym with
  | nonterm m => exact ⟨_, rfl, hc⟩
  | term t =>
    simp only [termSymStep]
    cases hl : acc.1.2.lookup t with
    | some n =>
      exact ⟨_, rfl, hc.add_prod (Or.inr (Or.inl ⟨(t, n), store_lookup_mem hl, rfl⟩))⟩
    | none =>
      obtain ⟨p, hp, hocc'⟩ := hocc
      have ht : t ∈ g.terms := (hw.2 p hp).2 _ hocc'
      have hbase : alphas.foldl trimSuffix t = t := foldl_trim_free alphas (hA.2 t ht)
      have hfree : ∃ s ∈ alphas, (alphas.foldl trimSuffix t) ++ s ∉ acc.1.1.nonterms := by
        refine ⟨"ₙ", by decide, ?_⟩
        rw [hbase, hc.nonterms]
        intro hm
        rcases List.mem_append.mp hm with hm | hm
        · -- a declared non-terminal of g ending in ₙ
          have := hA.1 _ hm "ₙ" (by decide)
          have h2 : ("ₙ" : String).toList.isSuffixOf (t ++ "ₙ").toList = true := by
            rw [String.toList_append, List.isSuffixOf_iff_suffix]; exact List.suffix_append _ _
          rw [h2] at this; cases this
        · -- a stored name e.1 ++ s with e.1 ≠ t
          obtain ⟨e, he, hen⟩ := List.mem_map.mp hm
          obtain ⟨s, hs, hform⟩ := hc.form e he
          obtain ⟨p', hp', hocc''⟩ := hc.keyOcc e he
          have het : e.1 ∈ g.terms := (hw.2 p' hp').2 _ hocc''
          rw [foldl_trim_free alphas (hA.2 e.1 het)] at hform
          obtain ⟨c, hc'⟩ := alphas_single s hs
          have heq : e.1.toList ++ [c] = t.toList ++ ['ₙ'] := by
            have := congrArg String.toList (hform.symm.trans hen)
            rw [String.toList_append, String.toList_append, hc'] at this
            exact this
          have := (append_single_cancel heq).1
          have hk := hc.keys e he
          rw [this, hl] at hk
          cases hk
      obtain ⟨r, hr⟩ := addNew_total_of_exists hfree
      obtain ⟨g1, n⟩ := r
      simp only [hr, bind, Outcome.bind, pure]
      exact ⟨_, rfl, (hc.extend hl hr ⟨p, hp, hocc'⟩).1⟩

theorem termBody_total {g : G} (hw : WellFormed g) (hA : AlphaFree g) {st : TermSt} {p : SProd}
    (hc : TermCore g st) (hp : p ∈ g.prods) : ∃ st', termBody p.head p.body st = .ok st' := by
  rw [termBody_eq]
  obtain ⟨r, hr, _⟩ := foldlM_total termSymStep (fun acc => TermCore g acc.1) p.body (st, []) hc
    (fun s b hs hb => termSymStep_total hw hA hs ⟨p, hp, hb⟩)
  rw [hr]
  exact ⟨_, rfl⟩

theorem cnfTerm_total {g : G} (hw : WellFormed g) (hA : AlphaFree g) : ∃ g', cnfTerm g = .ok g' := by
  rw [cnfTerm_eq]
  have h0 : ProdInv g [] (({ g with prods := [] } : G), []) :=
    ⟨{ terms := rfl, start := rfl, nonterms := (by simp),
       freshg := (by intro e he; cases he), keyOcc := (by intro e he; cases he), form := (by intro e he; cases he),
       inj := (by intro e he; cases he), keys := (by intro e he; cases he), defs := (by intro e he; cases he),
       prods := (by intro p hp; cases hp) }, (by intro p hp; cases hp)⟩
  obtain ⟨st, hst, _⟩ := foldlM_total termProdStep (fun st => TermCore g st) g.prods _ h0.1
    (fun s b hs hb => by
      have hex : ∃ s', termProdStep s b = .ok s' := by
        unfold termProdStep
        split
        · exact ⟨_, rfl⟩
        · exact termBody_total hw hA hs hb
      obtain ⟨s', hs'⟩ := hex
      exact ⟨s', hs', (termProdStep_inv (pre := []) ⟨hs, by intro p hp; cases hp⟩ hb hs').1⟩)
  rw [hst]
  exact ⟨_, rfl⟩

/-! ## BIN never diverges -/

theorem addNew_ne_diverge (g : G) (pre : String) (sufs : List String) : addNew g pre sufs ≠ .diverge := by
  unfold addNew
  split <;> simp

theorem foldlM_ne_diverge {σ β : Type} (f : σ → β → Outcome σ) (hf : ∀ s b, f s b ≠ .diverge) :
    ∀ (l : List β) (s : σ), List.foldlM f s l ≠ .diverge := by
  intro l
  induction l with
  | nil => intro s; simp [foldlM_nil]
  | cons b l ih =>
    intro s
    rw [foldlM_cons]
    cases hb : f s b with
    | ok s1 => exact ih s1
    | panic => simp [Outcome.bind]
    | diverge => exact absurd hb (hf s b)

theorem binChain_ne_diverge (A : String) : ∀ (fuel : Nat) (head : String) (rest : List SSym) (ng : G),
    binChain A fuel head rest ng ≠ .diverge := by
  intro fuel
  induction fuel with
  | zero => intro head rest ng; simp [binChain, pure]
  | succ fuel ih =>
    intro head rest ng
    match rest with
    | [] => simp [binChain, pure]
    | [_] => simp [binChain, pure]
    | [_, _] => simp [binChain, pure]
    | x :: y :: z :: r =>
      simp only [binChain]
      cases ha : addNew ng A numerics with
      | ok r' =>
        obtain ⟨g1, hN⟩ := r'
        simp only [bind, Outcome.bind]
        exact ih _ _ _
      | panic => simp [bind, Outcome.bind]
      | diverge => exact absurd ha (addNew_ne_diverge _ _ _)

theorem cnfBin_ne_diverge (g : G) : cnfBin g ≠ .diverge := by
  rw [cnfBin_eq]
  apply foldlM_ne_diverge
  intro ng A
  unfold binHeadStep
  apply foldlM_ne_diverge
  intro ng p
  unfold binProdStep
  split
  · simp [pure]
  · exact binChain_ne_diverge _ _ _ _ _

/-! ## `ChomskyNormalForm` returns -/

theorem hyg_alphaFree {g : G} (hh : Hygienic g) : AlphaFree g :=
  ⟨fun n hn s hs => hyg_not_suffix (hh.1 n hn) (alphas_reserved s hs),
   fun t ht s hs => hyg_not_suffix (hh.2.1 t ht) (alphas_reserved s hs)⟩

theorem single_suffix_snoc {c d : Char} {l : List Char} (h : [c].isSuffixOf (l ++ [d]) = true) : c = d := by
  rw [List.isSuffixOf_iff_suffix] at h
  obtain ⟨t, ht⟩ := h
  have := List.append_inj' ht rfl
  simpa using this.2

theorem cnfStart_alphaFree {g g' : G} (h : cnfStart g = .ok g') (hh : Hygienic g) : AlphaFree g' := by
  have hA := hyg_alphaFree hh
  unfold cnfStart at h
  split at h
  · cases hn : addNew g g.start primes with
    | ok r =>
      obtain ⟨g1, s'⟩ := r
      simp only [hn, bind, Outcome.bind, pure] at h
      cases h
      obtain ⟨s, hs, hform⟩ := addNew_form hn
      obtain ⟨_, rfl⟩ := addNew_ok hn
      refine ⟨?_, hA.2⟩
      intro n hn' a ha
      simp at hn'
      rcases hn' with hn' | rfl
      · exact hA.1 n hn' a ha
      · -- the new start symbol ends in a prime, not in an alphabetic suffix
        rw [hform]
        obtain ⟨c, hc⟩ := alphas_single a ha
        cases hsuf : a.toList.isSuffixOf ((primes.foldl trimSuffix g.start) ++ s).toList with
        | false => rfl
        | true =>
          exfalso
          have hp : primes.all (fun s => alphas.all (fun a => match s.toList.getLast?, a.toList with
              | some d, [c] => c != d
              | _, _ => false)) = true := by decide
          have h1 := List.all_eq_true.mp (List.all_eq_true.mp hp s hs) a ha
          rw [hc] at h1
          cases hl : s.toList.getLast? with
          | none => rw [hl] at h1; simp at h1
          | some d =>
            rw [hl] at h1
            have hd : c ≠ d := by simpa using h1
            obtain ⟨l, hl'⟩ := List.getLast?_eq_some_iff.mp hl
            rw [String.toList_append, hl', hc, ← List.append_assoc] at hsuf
            exact hd (single_suffix_snoc hsuf)
    | panic => simp [hn, bind, Outcome.bind] at h
    | diverge => simp [hn, bind, Outcome.bind] at h
  · cases h; exact hA

end AlgoVerif.C08
