import AlgoVerif.Proofs.C02Lists
/-!
# C02/C03 — generic refinement argument

If an implementation satisfies the per-operation specifications `Correct` with respect to an invariant
`Inv` and an abstraction `Live t k v` ("`t` holds the pair `(k, v)`"), then every history's trace agrees
with the Spec's (`sim`), and in particular no operation of any history panics or diverges.
-/
namespace AlgoVerif.C02
open Spec
variable {K V σ T : Type} [DecidableEq K]

/-- a shuffle really permutes `[0,n)` -/
def ShufflePerm (sh : Shuffle σ) : Prop := ∀ g n, (sh g n).1.Perm (List.range n)

/-- per-operation specification of an implementation; the specification of `Delete` is only required
(and only used) when `D` holds -/
structure CorrectD (D : Prop) (eqVal : V → V → Bool) (I : Impl K V σ T) (Inv : T → Prop) (Live : T → K → V → Prop) : Prop where
  func : ∀ t k v v', Inv t → Live t k v → Live t k v' → v = v'
  put : ∀ t g k v, Inv t → ∃ t' g', I.put t g k v = .ok (t', g') ∧ Inv t' ∧
    ∀ k' v', Live t' k' v' ↔ (k' = k ∧ v' = v) ∨ (k' ≠ k ∧ Live t k' v')
  get : ∀ t k, Inv t → ∃ o, I.get t k = .ok o ∧ ∀ v, o = some v ↔ Live t k v
  delete : D → ∀ t g k, Inv t → ∃ t' g' o, I.delete t g k = .ok (t', g', o) ∧ Inv t' ∧
    (∀ k' v', Live t' k' v' ↔ k' ≠ k ∧ Live t k' v') ∧ ∀ v, o = some v ↔ Live t k v
  deleteAll : ∀ t, Inv t → Inv (I.deleteAll t) ∧ ∀ k v, ¬ Live (I.deleteAll t) k v
  all : ∀ t g, Inv t → (I.all t g).1.Nodup ∧ ∀ k v, (k, v) ∈ (I.all t g).1 ↔ Live t k v
  size : ∀ t g, Inv t → I.size t = ((I.all t g).1.length : Int)
  equal : ∀ t1 t2 g, I.equal t1 t2 g = equalWith eqVal (I.get t1) (I.get t2) (I.all t1) (I.all t2) g

/-- default-or-tighter load-factor bounds: `dmin ≤ minLF < maxLF ≤ dmax` (as exact rationals) -/
structure ValidLF (dmin dmax minLF maxLF : LF) : Prop where
  minDen : 0 < minLF.den
  maxDen : 0 < maxLF.den
  minGe : dmin.num * minLF.den ≤ minLF.num * dmin.den
  lt : minLF.num * maxLF.den < maxLF.num * minLF.den
  maxLe : maxLF.num * dmax.den ≤ dmax.num * maxLF.den

/-- a zero load factor in `HashOpts` selects the default -/
def effLF (lf dflt : LF) : LF := if lf.num = 0 then dflt else lf

/-- re-inserting a listing with pairwise different keys: `P r` is a predicate on tables that still
has room for `r` insertions -/
theorem foldPut_spec (Live : T → K → V → Prop) (P : Nat → T → Prop)
    (putRec : T → σ → K → V → Outcome (T × σ))
    (hput : ∀ r t g k v, P (r + 1) t → ∃ t' g', putRec t g k v = .ok (t', g') ∧ P r t' ∧
      ∀ k' v', Live t' k' v' ↔ (k' = k ∧ v' = v) ∨ (k' ≠ k ∧ Live t k' v')) :
    ∀ (l : List (K × V)) (t : T) (g : σ), NodupKeys l → P l.length t →
      ∃ t' g', foldPut putRec l t g = .ok (t', g') ∧ P 0 t' ∧
        ∀ k v, Live t' k v ↔ ((k, v) ∈ l ∨ (Live t k v ∧ k ∉ l.map Prod.fst)) := by
  intro l
  induction l with
  | nil =>
    intro t g _ hP
    exact ⟨t, g, rfl, hP, by simp⟩
  | cons e r ih =>
    obtain ⟨k0, v0⟩ := e
    intro t g hnd hP
    have hnd' : k0 ∉ r.map Prod.fst ∧ NodupKeys r := by
      simpa [NodupKeys, List.nodup_cons] using hnd
    obtain ⟨t1, g1, h1, hP1, hL1⟩ := hput r.length t g k0 v0 hP
    obtain ⟨t2, g2, h2, hP2, hL2⟩ := ih t1 g1 hnd'.2 hP1
    refine ⟨t2, g2, by simp [foldPut, h1, h2], hP2, ?_⟩
    intro k v
    rw [hL2, hL1]
    simp only [List.mem_cons, Prod.mk.injEq, List.map_cons, not_or]
    constructor
    · rintro (h | ⟨(⟨rfl, rfl⟩ | ⟨hne, hl⟩), hk⟩)
      · exact Or.inl (Or.inr h)
      · exact Or.inl (Or.inl ⟨rfl, rfl⟩)
      · exact Or.inr ⟨hl, hne, hk⟩
    · rintro ((⟨rfl, rfl⟩ | h) | ⟨hl, hne, hk⟩)
      · exact Or.inr ⟨Or.inl ⟨rfl, rfl⟩, hnd'.1⟩
      · exact Or.inl h
      · exact Or.inr ⟨Or.inr ⟨hne, hl⟩, hk⟩

/-- per-operation specification of every operation -/
abbrev Correct (eqVal : V → V → Bool) (I : Impl K V σ T) (Inv : T → Prop) (Live : T → K → V → Prop) : Prop :=
  CorrectD True eqVal I Inv Live

/-- `op` is not a `Delete` -/
def Op.notDelete : Op K V → Prop
  | .delete _ _ => False
  | _ => True

/-- the refinement relation between a table and a Spec map -/
def Rel (Inv : T → Prop) (Live : T → K → V → Prop) (t : T) (s : Map K V) : Prop :=
  Inv t ∧ NodupKeys s ∧ ∀ k v, (k, v) ∈ s ↔ Live t k v

theorem allMatchGet_eq (eqVal : V → V → Bool) (get : K → Outcome (Option V)) (f : K → Option V)
    (hget : ∀ k, get k = .ok (f k)) (l : List (K × V)) :
    allMatchGet eqVal get l = .ok (l.all fun e => match f e.1 with
      | some v2 => eqVal e.2 v2
      | none => false) := by
  induction l with
  | nil => simp [allMatchGet]
  | cons e r ih =>
    obtain ⟨k, v⟩ := e
    unfold allMatchGet
    rw [hget k]
    cases hf : f k with
    | none => simp [hf]
    | some v2 =>
      by_cases he : eqVal v v2 = true
      · simp [hf, he, ih]
      · simp [hf, he]

section
variable {D : Prop} {eqVal : V → V → Bool} {I : Impl K V σ T} {Inv : T → Prop} {Live : T → K → V → Prop}

theorem Rel.get_eq (hC : CorrectD D eqVal I Inv Live) {t : T} {s : Map K V} (h : Rel Inv Live t s) (k : K) :
    I.get t k = .ok (Map.lookup s k) := by
  obtain ⟨o, ho, hspec⟩ := hC.get t k h.1
  rw [ho]
  congr 1
  cases o with
  | none =>
    symm
    rw [lookup_eq_none_iff]
    intro v hv
    have := (hspec v).2 ((h.2.2 k v).1 hv)
    cases this
  | some v =>
    symm
    rw [lookup_eq_some_iff h.2.1, h.2.2]
    exact (hspec v).1 rfl

theorem Rel.all_perm (hC : CorrectD D eqVal I Inv Live) {t : T} {s : Map K V} (h : Rel Inv Live t s) (g : σ) :
    (I.all t g).1.Perm s := by
  obtain ⟨hnd, hmem⟩ := hC.all t g h.1
  rw [List.perm_ext_iff_of_nodup hnd h.2.1.nodup]
  rintro ⟨k, v⟩
  rw [hmem, h.2.2]

theorem sub_eq (hC : CorrectD D eqVal I Inv Live) {t1 t2 : T} {s1 s2 : Map K V}
    (h1 : Rel Inv Live t1 s1) (h2 : Rel Inv Live t2 s2) (g : σ) :
    allMatchGet eqVal (I.get t2) (I.all t1 g).1 = .ok (Map.sub eqVal s1 s2) := by
  rw [allMatchGet_eq eqVal (I.get t2) (Map.lookup s2) (Rel.get_eq hC h2)]
  congr 1
  unfold Map.sub
  exact (Rel.all_perm hC h1 g).all_eq

theorem equal_eq (hC : CorrectD D eqVal I Inv Live) {t1 t2 : T} {s1 s2 : Map K V}
    (h1 : Rel Inv Live t1 s1) (h2 : Rel Inv Live t2 s2) (g : σ) :
    ∃ g', I.equal t1 t2 g = .ok (Map.equal eqVal s1 s2, g') := by
  rw [hC.equal]
  unfold equalWith Map.equal
  rw [sub_eq hC h1 h2 g]
  cases hb : Map.sub eqVal s1 s2 with
  | false => exact ⟨_, rfl⟩
  | true =>
    simp only
    rw [sub_eq hC h2 h1]
    exact ⟨(I.all t2 (I.all t1 g).2).2, by simp⟩

/-- one step of the Model is matched by one step of the Spec and re-establishes the relation -/
theorem step_sim (hC : CorrectD D eqVal I Inv Live) (st : State T σ) (ss : SState K V)
    (ha : Rel Inv Live st.a ss.a) (hb : Rel Inv Live st.b ss.b) (op : Op K V) (hD : D ∨ op.notDelete) :
    ∃ st' o, step I st op = .ok (st', o) ∧ OutEquiv o (Spec.step eqVal ss op).2 ∧
      Rel Inv Live st'.a (Spec.step eqVal ss op).1.a ∧ Rel Inv Live st'.b (Spec.step eqVal ss op).1.b := by
  have hsel : ∀ b, Rel Inv Live (st.sel b) (ss.sel b) := by
    intro b; cases b <;> simp [State.sel, SState.sel, ha, hb]
  have hupd : ∀ (b : Bool) (t : T) (g : σ) (m : Map K V), Rel Inv Live t m →
      Rel Inv Live (st.upd b t g).a (ss.upd b m).a ∧ Rel Inv Live (st.upd b t g).b (ss.upd b m).b := by
    intro b t g m h
    cases b <;> simp [State.upd, SState.upd, ha, hb, h]
  cases op with
  | put b k v =>
    obtain ⟨t', g', hp, hinv, hlive⟩ := hC.put (st.sel b) st.g k v (hsel b).1
    refine ⟨st.upd b t' g', .unit, by simp [step, hp], trivial, ?_⟩
    apply hupd
    refine ⟨hinv, nodupKeys_insert (hsel b).2.1 k v, ?_⟩
    intro k' v'
    rw [mem_insert, hlive, (hsel b).2.2]
  | get b k =>
    refine ⟨st, .val (Map.lookup (ss.sel b) k), ?_, rfl, ha, hb⟩
    simp [step, Rel.get_eq hC (hsel b) k]
  | delete b k =>
    have hD' : D := by
      rcases hD with h | h
      · exact h
      · exact absurd h (by simp [Op.notDelete])
    obtain ⟨t', g', o, hd, hinv, hlive, ho⟩ := hC.delete hD' (st.sel b) st.g k (hsel b).1
    have hg := Rel.get_eq hC (hsel b) k
    obtain ⟨o2, ho2, hspec2⟩ := hC.get (st.sel b) k (hsel b).1
    have hoo : o = Map.lookup (ss.sel b) k := by
      rw [ho2] at hg
      have : o2 = Map.lookup (ss.sel b) k := by injection hg
      rw [← this]
      cases o with
      | none =>
        cases o2 with
        | none => rfl
        | some v => exact absurd ((ho v).2 ((hspec2 v).1 rfl)) (by simp)
      | some v => exact ((hspec2 v).2 ((ho v).1 rfl)).symm
    refine ⟨st.upd b t' g', .val o, by simp [step, hd], ?_, ?_⟩
    · simp [Spec.step, OutEquiv, hoo]
    · apply hupd
      refine ⟨hinv, nodupKeys_erase (hsel b).2.1 k, ?_⟩
      intro k' v'
      rw [mem_erase, hlive, (hsel b).2.2]
  | deleteAll b =>
    obtain ⟨hinv, hnone⟩ := hC.deleteAll (st.sel b) (hsel b).1
    refine ⟨st.upd b (I.deleteAll (st.sel b)) st.g, .unit, by simp [step], trivial, ?_⟩
    apply hupd
    refine ⟨hinv, nodupKeys_nil, ?_⟩
    intro k v
    simp [hnone k v]
  | size b =>
    refine ⟨st, .int (I.size (st.sel b)), by simp [step], ?_, ha, hb⟩
    simp only [Spec.step, OutEquiv, Map.size]
    rw [hC.size _ st.g (hsel b).1, (Rel.all_perm hC (hsel b) st.g).length_eq]
  | isEmpty b =>
    refine ⟨st, .bool (I.size (st.sel b) == 0), by simp [step], ?_, ha, hb⟩
    simp only [Spec.step, OutEquiv, Map.size]
    rw [hC.size _ st.g (hsel b).1, (Rel.all_perm hC (hsel b) st.g).length_eq]
  | all b =>
    refine ⟨{ st with g := (I.all (st.sel b) st.g).2 }, .list (I.all (st.sel b) st.g).1, by simp [step], ?_, ha, hb⟩
    exact Rel.all_perm hC (hsel b) st.g
  | equal =>
    obtain ⟨g', he⟩ := equal_eq hC ha hb st.g
    refine ⟨{ st with g := g' }, .bool (Map.equal eqVal ss.a ss.b), by simp [step, he], rfl, ha, hb⟩

/-- **refinement**: every history's trace agrees with the Spec's -/
theorem sim (hC : CorrectD D eqVal I Inv Live) : ∀ (ops : List (Op K V)) (st : State T σ) (ss : SState K V),
    (D ∨ ∀ op ∈ ops, op.notDelete) →
    Rel Inv Live st.a ss.a → Rel Inv Live st.b ss.b → Agree (run I st ops) (Spec.run eqVal ss ops) := by
  intro ops
  induction ops with
  | nil => intro st ss _ _ _; simp [run, runTrace, Spec.run, Agree]
  | cons op ops ih =>
    intro st ss hD ha hb
    obtain ⟨st', o, hstep, hout, ha', hb'⟩ := step_sim hC st ss ha hb op
      (hD.imp id (fun h => h op (List.mem_cons_self ..)))
    simp only [run, runTrace, hstep, Spec.run, Agree]
    exact ⟨hout, ih st' _ (hD.imp id (fun h o ho => h o (List.mem_cons_of_mem _ ho))) ha' hb'⟩

/-- the state reached by a history (`none` if some operation failed) -/
def reach (I : Impl K V σ T) : State T σ → List (Op K V) → Option (State T σ)
  | s, [] => some s
  | s, op :: ops =>
    match step I s op with
    | .ok (s', _) => reach I s' ops
    | _ => none

/-- every history reaches a state, and the invariant holds there for both tables -/
theorem reach_inv (hC : CorrectD D eqVal I Inv Live) : ∀ (ops : List (Op K V)) (st : State T σ) (ss : SState K V),
    (D ∨ ∀ op ∈ ops, op.notDelete) →
    Rel Inv Live st.a ss.a → Rel Inv Live st.b ss.b →
    ∃ st', reach I st ops = some st' ∧ Inv st'.a ∧ Inv st'.b := by
  intro ops
  induction ops with
  | nil => intro st ss _ ha hb; exact ⟨st, rfl, ha.1, hb.1⟩
  | cons op ops ih =>
    intro st ss hD ha hb
    obtain ⟨st', o, hstep, _, ha', hb'⟩ := step_sim hC st ss ha hb op
      (hD.imp id (fun h => h op (List.mem_cons_self ..)))
    simp only [reach, hstep]
    exact ih st' _ (hD.imp id (fun h o ho => h o (List.mem_cons_of_mem _ ho))) ha' hb'

/-- after any history, one more operation neither panics nor diverges -/
theorem step_ok_of_reach (hC : CorrectD D eqVal I Inv Live) (ops : List (Op K V)) (st : State T σ) (ss : SState K V)
    (ha : Rel Inv Live st.a ss.a) (hb : Rel Inv Live st.b ss.b) (op : Op K V)
    (hD : D ∨ ((∀ o ∈ ops, o.notDelete) ∧ op.notDelete)) :
    ∃ st' r, reach I st ops = some st' ∧ step I st' op = .ok r := by
  have : ∀ (ops : List (Op K V)) (st : State T σ) (ss : SState K V), (D ∨ ∀ o ∈ ops, o.notDelete) →
      Rel Inv Live st.a ss.a → Rel Inv Live st.b ss.b →
      ∃ (st' : State T σ) (ss' : SState K V), reach I st ops = some st' ∧ Rel Inv Live st'.a ss'.a ∧ Rel Inv Live st'.b ss'.b := by
    intro ops
    induction ops with
    | nil => intro st ss _ ha hb; exact ⟨st, ss, rfl, ha, hb⟩
    | cons op ops ih =>
      intro st ss hD ha hb
      obtain ⟨st', o, hstep, _, ha', hb'⟩ := step_sim hC st ss ha hb op
        (hD.imp id (fun h => h op (List.mem_cons_self ..)))
      simp only [reach, hstep]
      exact ih st' _ (hD.imp id (fun h o ho => h o (List.mem_cons_of_mem _ ho))) ha' hb'
  obtain ⟨st', ss', hr, ha', hb'⟩ := this ops st ss (hD.imp id (fun h => h.1)) ha hb
  obtain ⟨st'', o, hstep, _⟩ := step_sim hC st' ss' ha' hb' op (hD.imp id (fun h => h.2))
  exact ⟨st', (st'', o), hr, hstep⟩

end
end AlgoVerif.C02
