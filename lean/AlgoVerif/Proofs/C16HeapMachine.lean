import AlgoVerif.Proofs.C16Heap
/-!
# C16 helper lemmas: the heap register machine keeps set objects apart and simulates the functional one

`Own H regs`: every register holds a valid slice header and **no two registers share an array**.
`stepOp_sim`: from such a state, whatever the functional machine `C16.stepOp` does on the current views,
the heap machine `Hp.stepOp` does too — same observation, same views afterwards — and `Own` holds again.
-/
namespace AlgoVerif.C16.Hp
open AlgoVerif AlgoVerif.C16
variable {α : Type} {σ : Type}

/-! ### lists -/

theorem nodup_getElem?_ne {β : Type} : ∀ {l : List β}, l.Nodup → ∀ {i j : Nat} {a b : β},
    l[i]? = some a → l[j]? = some b → i ≠ j → a ≠ b
  | [], _, i, _, _, _, hi, _, _ => by simp at hi
  | x :: l, h, i, j, a, b, hi, hj, hij => by
    have h' := List.nodup_cons.1 h
    cases i with
    | zero =>
      cases j with
      | zero => exact absurd rfl hij
      | succ j =>
        simp at hi hj
        subst hi
        intro e
        exact h'.1 (e ▸ List.mem_of_getElem? hj)
    | succ i =>
      cases j with
      | zero =>
        simp at hi hj
        subst hj
        intro e
        exact h'.1 (e ▸ List.mem_of_getElem? hi)
      | succ j =>
        simp at hi hj
        exact nodup_getElem?_ne h'.2 hi hj (by omega)

theorem nodup_set {β : Type} : ∀ {l : List β} (i : Nat) {x : β}, l.Nodup → x ∉ l → (l.set i x).Nodup
  | [], _, _, _, _ => by simp
  | y :: l, i, x, h, hx => by
    have h' := List.nodup_cons.1 h
    cases i with
    | zero =>
      simp only [List.set_cons_zero]
      exact List.nodup_cons.2 ⟨fun hm => hx (List.mem_cons_of_mem _ hm), h'.2⟩
    | succ i =>
      simp only [List.set_cons_succ]
      refine List.nodup_cons.2 ⟨?_, nodup_set i h'.2 (fun hm => hx (List.mem_cons_of_mem _ hm))⟩
      intro hm
      rcases List.mem_or_eq_of_mem_set hm with hm | hm
      · exact h'.1 hm
      · exact hx (hm ▸ List.mem_cons_self ..)

theorem set_same {β : Type} : ∀ {l : List β} {i : Nat} {a : β}, l[i]? = some a → l.set i a = l
  | [], _, _, h => by simp at h
  | x :: l, 0, a, h => by simp at h; simp [h]
  | x :: l, i + 1, a, h => by simp at h; simp [set_same h]

/-! ### ownership -/

/-- every register holds a valid slice header, and no two registers share an array -/
def Own (H : Heap α) (regs : List (Obj α)) : Prop :=
  (∀ o ∈ regs, Valid H o) ∧ (regs.map (·.buf)).Nodup

theorem getElem?_set_cases {β : Type} {l : List β} {i j : Nat} {a p : β} (hi : i < l.length)
    (h : (l.set i a)[j]? = some p) : (j = i ∧ p = a) ∨ (j ≠ i ∧ l[j]? = some p) := by
  by_cases hji : j = i
  · subst hji
    rw [List.getElem?_set_self hi] at h
    cases h
    exact .inl ⟨rfl, rfl⟩
  · rw [List.getElem?_set_ne (fun e => hji e.symm)] at h
    exact .inr ⟨hji, h⟩

theorem lt_of_getElem? {β : Type} {l : List β} {i : Nat} {a : β} (h : l[i]? = some a) : i < l.length :=
  (List.getElem?_eq_some_iff.1 h).1

/-- a mutation of the object in register `i` -/
theorem own_mut {H H' : Heap α} {regs : List (Obj α)} {i : Nat} {o o' : Obj α} {m' : List α} (hown : Own H regs)
    (hi : regs[i]? = some o) (ht : Trans H H' o o' m') :
    Own H' (regs.set i o') ∧ (regs.set i o').map (Obj.abs H') = (regs.map (Obj.abs H)).set i ⟨o.impl, m'⟩ := by
  have hilt := lt_of_getElem? hi
  have hother : ∀ j p, regs[j]? = some p → j ≠ i → Valid H' p ∧ p.view H' = p.view H ∧ p.buf ≠ o'.buf := by
    intro j p hj hji
    have hne : p.buf ≠ o.buf :=
      nodup_getElem?_ne hown.2 (by rw [List.getElem?_map, hj]; rfl) (by rw [List.getElem?_map, hi]; rfl) hji
    exact ht.other (hown.1 p (List.mem_of_getElem? hj)) hne
  refine ⟨⟨?_, ?_⟩, ?_⟩
  · intro p hp
    obtain ⟨j, hj⟩ := List.getElem?_of_mem hp
    rcases getElem?_set_cases hilt hj with ⟨_, rfl⟩ | ⟨hji, hj'⟩
    · exact ht.valid
    · exact (hother j p hj' hji).1
  · rw [List.map_set]
    rcases ht.buf with hb | hb
    · rw [hb, set_same (by rw [List.getElem?_map, hi]; rfl)]
      exact hown.2
    · refine nodup_set i hown.2 ?_
      intro hm
      obtain ⟨p, hp, hpb⟩ := List.mem_map.1 hm
      have := (hown.1 p hp).1
      omega
  · apply List.ext_getElem?
    intro j
    rw [List.getElem?_map]
    by_cases hji : j = i
    · subst hji
      rw [List.getElem?_set_self hilt, List.getElem?_set_self (by simpa using hilt)]
      simp [ht.abs]
    · rw [List.getElem?_set_ne (fun e => hji e.symm), List.getElem?_set_ne (fun e => hji e.symm), List.getElem?_map]
      cases hj : regs[j]? with
      | none => rfl
      | some p =>
        have := (hother j p hj hji).2.1
        simp [Obj.abs, this]

/-- the store grew without touching anything that existed: the registers are as they were -/
theorem own_below {H H' : Heap α} {regs : List (Obj α)} (hown : Own H regs) (h : Below H.size H H') :
    Own H' regs ∧ regs.map (Obj.abs H') = regs.map (Obj.abs H) :=
  ⟨⟨fun o ho => ((hown.1 o ho).below (hown.1 o ho).1 h).1, hown.2⟩,
    List.map_congr_left (fun o ho => ((hown.1 o ho).below (hown.1 o ho).1 h).2)⟩

/-- a register receives an object whose array no register uses -/
theorem own_set {H : Heap α} {regs : List (Obj α)} (d : Nat) {t : Obj α} (hown : Own H regs) (hv : Valid H t)
    (hb : t.buf ∉ regs.map (·.buf)) :
    Own H (regs.set d t) ∧ (regs.set d t).map (Obj.abs H) = (regs.map (Obj.abs H)).set d (t.abs H) := by
  refine ⟨⟨?_, ?_⟩, List.map_set⟩
  · intro p hp
    rcases List.mem_or_eq_of_mem_set hp with hp | rfl
    · exact hown.1 p hp
    · exact hv
  · rw [List.map_set]
    exact nodup_set d hown.2 hb

theorem not_mem_bufs_of_ge {H : Heap α} {regs : List (Obj α)} (hown : Own H regs) {b : Nat} (hb : H.size ≤ b) :
    b ∉ regs.map (·.buf) := by
  intro hm
  obtain ⟨p, hp, hpb⟩ := List.mem_map.1 hm
  have := (hown.1 p hp).1
  omega

/-- a new object is put into register `d` after the store grew above what existed -/
theorem own_new {H H' : Heap α} {regs : List (Obj α)} (d : Nat) {t : Obj α} (hown : Own H regs)
    (h : Below H.size H H') (hv : Valid H' t) (hb : H.size ≤ t.buf) :
    Own H' (regs.set d t) ∧ (regs.set d t).map (Obj.abs H') = (regs.map (Obj.abs H)).set d (t.abs H') := by
  obtain ⟨hown', hmap⟩ := own_below hown h
  obtain ⟨h₁, h₂⟩ := own_set d hown' hv (not_mem_bufs_of_ge hown hb)
  exact ⟨h₁, by rw [h₂, hmap]⟩

theorem ext_below {H H' : Heap α} (h : Ext H H') : Below H.size H H' := ⟨h.1, h.2⟩

/-! ### operands -/

theorem getRegs_map (H : Heap α) (regs : List (Obj α)) : ∀ js : List Nat,
    C16.getRegs (regs.map (Obj.abs H)) js = (getObjs regs js).map (List.map (Obj.abs H)) ∧
    ∀ sets, getObjs regs js = some sets → ∀ u ∈ sets, u ∈ regs
  | [] => ⟨rfl, fun sets h u hu => by cases h; cases hu⟩
  | j :: js => by
    obtain ⟨ih₁, ih₂⟩ := getRegs_map H regs js
    simp only [C16.getRegs, getObjs, List.getElem?_map, ih₁]
    cases hj : regs[j]? with
    | none => exact ⟨rfl, fun sets h => by cases h⟩
    | some o =>
      cases hjs : getObjs regs js with
      | none => exact ⟨rfl, fun sets h => by cases h⟩
      | some ss =>
        refine ⟨rfl, fun sets h u hu => ?_⟩
        cases h
        rcases List.mem_cons.1 hu with rfl | hu
        · exact List.mem_of_getElem? hj
        · exact ih₂ ss hjs u hu

end AlgoVerif.C16.Hp
