import AlgoVerif.Generated.C04Gen
import AlgoVerif.Proofs.GoRt
import AlgoVerif.Model.C04
/-!
# The GENERATED model of `heap/binary.go` and the hand-written Model of the binary heap

`Generated/C04Gen.lean` is rewritten from /repo's source by `/verif/extract/go2lean` on every check run
(`bin/pre-C04`).  The hand Model (`Model/C04.lean`, `Binary.*`) keeps `n` and all indices as `Nat`, a cell
`*generic.KeyValue` as `Option (K × V)`, and gives each loop its own fuel; the generated definitions use `Int`, the
generated record `KeyValue K V`, recursion on the trip count for the counted loops and the caller's fuel for the
others.  `toM` reads the generated structure as the Model's; every lemma is for states with `0 ≤ h.n`
(the Model cannot express a negative count).  Relation: `x ≼ y` of `Proofs/GoRt.lean` — the hand Model's outcome
is `diverge` (its fuel ran out), or the generated definition computes exactly the same outcome.
-/
set_option linter.unusedSectionVars false
set_option linter.unusedSimpArgs false
namespace AlgoVerif.C04.Gen
open AlgoVerif AlgoVerif.Outcome AlgoVerif.C04 AlgoVerif.Generated.Heap
variable {K V : Type} [Inhabited K] [Inhabited V]

/-- `*generic.KeyValue[K, V]` read as the Model's cell -/
def pair (kv : KeyValue K V) : K × V := (kv.Key, kv.Val)
def cell (c : Option (KeyValue K V)) : Cell K V := c.map pair
def cells (a : Array (Option (KeyValue K V))) : Array (Cell K V) := a.map cell
/-- the generated structure read as the hand Model's (`n` is a `Nat` there: the relation is for `0 ≤ h.n`) -/
def toM (h : binary K V) : Binary K V := ⟨h.n.toNat, cells h.heap⟩
/-- Go's `(K, V, bool)` results -/
def kvOpt (r : K × V × Bool) : Option (K × V) := if r.2.2 then some (r.1, r.2.1) else none

/-- the Model's `obind` is the monad's bind -/
theorem obind_eq {α β : Type} (x : Outcome α) (f : α → Outcome β) : obind x f = x >>= f := by
  cases x <;> rfl

@[simp] theorem cells_size (a : Array (Option (KeyValue K V))) : (cells a).size = a.size := by simp [cells]

/-- `h.heap[i].Key`: index check, then nil check -/
theorem deref_eq (a : Array (Option (KeyValue K V))) (i : Nat) :
    C04.deref (cells a) i = (Go.idx a (i : Int) >>= fun c => Go.deref c >>= fun kv => .ok (pair kv)) := by
  unfold C04.deref
  by_cases h : i < a.size
  · simp only [Go.idx_nat h, Outcome.ok_bind, cells]
    cases e : a[i] <;> simp [h, e, cell, Go.deref]
  · have : Go.idx a (i : Int) = .panic := Go.idx_of_invalid (by omega)
    simp [this, cells, h]

theorem Size_eq (h : binary K V) (hn : 0 ≤ h.n) : binary.Size h = ((toM h).n : Int) := by
  simp [binary.Size, toM, Int.toNat_of_nonneg hn]

theorem IsEmpty_eq (h : binary K V) (hn : 0 ≤ h.n) : binary.IsEmpty h = decide ((toM h).n = 0) := by
  simp only [binary.IsEmpty, toM]
  by_cases h0 : h.n = 0
  · simp [h0]
  · have : ¬ h.n.toNat = 0 := by omega
    simp [h0, this]

theorem NewBinary_eq (size : Nat) (cmp : K → K → Int) (eq : V → V → Bool) :
    (NewBinary (size : Int) cmp eq).map toM = .ok (Binary.new size) := by
  have : Go.make (none : Option (KeyValue K V)) ((size : Int) + 1) = .ok (Array.replicate (size + 1) none) := by
    have := Go.make_nat (none : Option (KeyValue K V)) (size + 1)
    simpa using this
  simp [NewBinary, this, toM, Binary.new, cells, cell]

theorem DeleteAll_eq (h : binary K V) : (binary.DeleteAll h).map toM = .ok (toM h).deleteAll := by
  simp [binary.DeleteAll, Go.make_nat, toM, Binary.deleteAll, cells, cell]

theorem Peek_eq (h : binary K V) (hn : 0 ≤ h.n) : (binary.Peek h).map kvOpt = (toM h).peek := by
  simp only [binary.Peek, Binary.peek, IsEmpty_eq h hn, obind_eq]
  by_cases h0 : (toM h).n = 0
  · simp [h0, kvOpt]
  · have hd := deref_eq h.heap 1
    simp only [toM] at h0 ⊢
    simp only [h0, decide_false, Bool.false_eq_true, if_false, hd]
    simp only [show ((1 : Nat) : Int) = 1 from rfl]
    outcome_auto [kvOpt, pair]

/-- what a `for … { if … { return true } }; return false` scan yields -/
def found : Go.Ctl Unit Bool → Bool
  | .ret b => b
  | .next _ => false

theorem ContainsKey_loop (h : binary K V) (key : K) (n : Nat) : ∀ (f k : Nat),
    Binary.scan (fun a => h.cmpKey a.1 key == 0) (cells h.heap) n f k ≼
      (binary.ContainsKey.loop1 h key (n + 1 - k) (k : Int)).map found := by
  intro f
  induction f with
  | zero => intro k; simp [Binary.scan]
  | succ f ih =>
    intro k
    simp only [Binary.scan]
    split
    · rw [show n + 1 - k = (n + 1 - (k + 1)) + 1 by omega]
      have := ih (k + 1)
      rw [show ((k + 1 : Nat) : Int) = (k : Int) + 1 by omega] at this
      simp only [binary.ContainsKey.loop1, obind_eq, deref_eq]
      outcome_auto [found, pair]
    · rw [show n + 1 - k = 0 by omega]
      simp [binary.ContainsKey.loop1, found]

theorem ContainsKey_le (h : binary K V) (hn : 0 ≤ h.n) (key : K) :
    (toM h).containsKey h.cmpKey key ≼ binary.ContainsKey h key := by
  have := ContainsKey_loop h key h.n.toNat (h.n.toNat + 1) 1
  simp only [Binary.containsKey, binary.ContainsKey, toM]
  rw [show (h.n + 1 - 1).toNat = h.n.toNat + 1 - 1 by omega]
  revert this
  simp only [show ((1 : Nat) : Int) = 1 from rfl]
  cases binary.ContainsKey.loop1 h key (h.n.toNat + 1 - 1) 1 with
  | ok c => cases c <;> simp [found]
  | panic => simp
  | diverge => simp

theorem ContainsValue_loop (h : binary K V) (val : V) (n : Nat) : ∀ (f k : Nat),
    Binary.scan (fun a => h.eqVal a.2 val) (cells h.heap) n f k ≼
      (binary.ContainsValue.loop1 h val (n + 1 - k) (k : Int)).map found := by
  intro f
  induction f with
  | zero => intro k; simp [Binary.scan]
  | succ f ih =>
    intro k
    simp only [Binary.scan]
    split
    · rw [show n + 1 - k = (n + 1 - (k + 1)) + 1 by omega]
      have := ih (k + 1)
      rw [show ((k + 1 : Nat) : Int) = (k : Int) + 1 by omega] at this
      simp only [binary.ContainsValue.loop1, obind_eq, deref_eq]
      outcome_auto [found, pair]
    · rw [show n + 1 - k = 0 by omega]
      simp [binary.ContainsValue.loop1, found]

theorem ContainsValue_le (h : binary K V) (hn : 0 ≤ h.n) (val : V) :
    (toM h).containsValue h.eqVal val ≼ binary.ContainsValue h val := by
  have := ContainsValue_loop h val h.n.toNat (h.n.toNat + 1) 1
  simp only [Binary.containsValue, binary.ContainsValue, toM]
  rw [show (h.n + 1 - 1).toNat = h.n.toNat + 1 - 1 by omega]
  revert this
  simp only [show ((1 : Nat) : Int) = 1 from rfl]
  cases binary.ContainsValue.loop1 h val (h.n.toNat + 1 - 1) 1 with
  | ok c => cases c <;> simp [found]
  | panic => simp
  | diverge => simp

/-! ### stores and `resize` -/

theorem setIdx_natCast (a : Array (Option (KeyValue K V))) (k : Nat) (v : Option (KeyValue K V)) :
    Go.setIdx a (k : Int) v = if k < a.size then .ok (a.setIfInBounds k v) else .panic := by
  by_cases h : k < a.size
  · simp [Go.setIdx_nat h, h, Array.setIfInBounds]
  · have : Go.setIdx a (k : Int) v = .panic := Go.setIdx_of_invalid (by omega)
    simp [this, h]

theorem cells_set_some (a : Array (Option (KeyValue K V))) (k : Nat) (kv : KeyValue K V) :
    (cells a).setIfInBounds k (some (pair kv)) = cells (a.setIfInBounds k (some kv)) := by
  by_cases h : k < a.size <;> simp [cells, cell, Array.setIfInBounds, h]

theorem cells_set_none (a : Array (Option (KeyValue K V))) (k : Nat) :
    (cells a).setIfInBounds k none = cells (a.setIfInBounds k none) := by
  by_cases h : k < a.size <;> simp [cells, cell, Array.setIfInBounds, h]

@[simp] theorem pair_fst (kv : KeyValue K V) : (pair kv).1 = kv.Key := rfl
@[simp] theorem pair_snd (kv : KeyValue K V) : (pair kv).2 = kv.Val := rfl

@[simp] theorem deref_eq_ok (c : Option (KeyValue K V)) (kv : KeyValue K V) :
    (Go.deref c = .ok kv) = (c = some kv) := by
  cases c <;> simp [Go.deref]

@[simp] theorem deref_ne_diverge (c : Option (KeyValue K V)) : (Go.deref c = .diverge) = False := by
  cases c <;> simp [Go.deref]

@[simp] theorem idx_ne_diverge {α : Type} (s : Array α) (i : Int) : (Go.idx s i = .diverge) = False := by
  unfold Go.idx; split <;> simp

theorem tdiv2 (k : Nat) : Int.tdiv (k : Int) 2 = ((k / 2 : Nat) : Int) := by
  rw [Int.tdiv_eq_ediv_of_nonneg (by omega)]; omega

/-- `for k = h.n; k > 1 && h.cmpKey(h.heap[k/2].Key, key) > 0; k /= 2 { h.heap[k] = h.heap[k/2] }` -/
theorem Insert_loop (cmp : K → K → Int) (eq : V → V → Bool) (n : Int) (key : K) (F : Nat) :
    ∀ (f d : Nat) (heap : Array (Option (KeyValue K V))) (k : Nat),
    (Binary.swim cmp key f (cells heap) k).map (fun r => (n, r.1, (r.2 : Int))) ≼
      (binary.Insert.loop1 F key (f + d) ⟨cmp, eq, n, heap⟩ (k : Int)).map (fun r => (r.1.n, cells r.1.heap, r.2)) := by
  intro f
  induction f with
  | zero => intro d heap k; simp [Binary.swim]
  | succ f ih =>
    intro d heap k
    rw [show f + 1 + d = (f + d) + 1 by omega]
    simp only [Binary.swim, binary.Insert.loop1, obind_eq, deref_eq, tdiv2, setIdx_natCast, cells_size, Go.deref]
    outcome_auto [cells_set_some]

theorem le_map_cases {α β γ : Type} {x : Outcome α} {y : Outcome β} {g : α → γ} {g' : β → γ}
    (h : x.map g ≼ y.map g') :
    x = .diverge ∨ (x = .panic ∧ y = .panic) ∨ ∃ a b, x = .ok a ∧ y = .ok b ∧ g a = g' b := by
  cases x <;> cases y <;> simp_all [Outcome.le, Outcome.map]

/-- `resize`: `newH := make([]*KeyValue, size); copy(newH, h.heap); h.heap = newH` -/
theorem cells_copy (a : Array (Option (KeyValue K V))) (size : Nat) :
    cells (Go.copy (Array.replicate size none) a) = resize (cells a) size := by
  apply Array.ext
  · simp [cells, Go.copy, resize]; omega
  · intro i h1 h2
    simp only [cells, Go.copy, Array.size_map, Array.size_ofFn, Array.size_replicate] at h1
    simp only [cells, Go.copy, resize, Array.getElem_map, Array.getElem_ofFn, Array.getElem_replicate,
      List.getElem_toArray]
    by_cases hi : i < a.size
    · rw [List.getElem_append_left (by simp; omega)]
      simp [hi]
    · rw [List.getElem_append_right (by simp; omega)]
      simp [hi, cell]

theorem resize_eq (cmp : K → K → Int) (eq : V → V → Bool) (n : Int) (heap : Array (Option (KeyValue K V)))
    (size : Nat) :
    binary.resize ⟨cmp, eq, n, heap⟩ (size : Int) = .ok ⟨cmp, eq, n, Go.copy (Array.replicate size none) heap⟩ := by
  simp [binary.resize, Go.make_nat]

/-- what follows the optional `resize` in `Insert` -/
theorem Insert_tail (cmp : K → K → Int) (eq : V → V → Bool) (m d : Nat) (heap1 : Array (Option (KeyValue K V)))
    (key : K) (val : V) :
    (Binary.swim cmp key (m + 1 + 1) (cells heap1) (m + 1) >>= fun r =>
        if r.2 < r.1.size then
          Outcome.ok ({ n := m + 1, heap := r.1.setIfInBounds r.2 (some (key, val)) } : Binary K V)
        else .panic) ≼
      (binary.Insert.loop1 (m + 2 + d) key (m + 2 + d) ⟨cmp, eq, (m : Int) + 1, heap1⟩ ((m : Int) + 1) >>= fun x =>
        Go.setIdx x.1.heap x.2 (some { Key := key, Val := val }) >>= fun t7 =>
          Outcome.ok (toM ({ cmpKey := x.1.cmpKey, eqVal := x.1.eqVal, n := x.1.n, heap := t7 } : binary K V))) := by
  have hL := Insert_loop cmp eq ((m : Int) + 1) key (m + 2 + d) (m + 2) d heap1 (m + 1)
  rw [show ((m + 1 : Nat) : Int) = (m : Int) + 1 by omega] at hL
  rcases le_map_cases hL with h | ⟨h1, h2⟩ | ⟨r, x, h1, h2, h3⟩
  · simp [show m + 1 + 1 = m + 2 by omega, h]
  · simp [show m + 1 + 1 = m + 2 by omega, h1, h2]
  · obtain ⟨rh, rk⟩ := r
    obtain ⟨xh, xk⟩ := x
    simp only [Prod.mk.injEq] at h3
    obtain ⟨e1, e2, e3⟩ := h3
    subst e2 e3
    have hp : (some (key, val) : Cell K V) = some (pair ({ Key := key, Val := val } : KeyValue K V)) := rfl
    simp only [show m + 1 + 1 = m + 2 by omega, h1, h2, Outcome.ok_bind, setIdx_natCast, cells_size, hp,
      cells_set_some]
    split
    · simp only [Outcome.ok_bind, ok_le, Outcome.ok.injEq, toM, ← e1]
      congr 1
    · simp

/-- `Insert` with any fuel `≥ h.n + 2` -/
theorem Insert_le (h : binary K V) (hn : 0 ≤ h.n) (key : K) (val : V) (d : Nat) :
    Binary.insert h.cmpKey (toM h) key val ≼ (binary.Insert (h.n.toNat + 2 + d) h key val).map toM := by
  obtain ⟨cmp, eq, n, heap⟩ := h
  simp only at hn
  obtain ⟨m, rfl⟩ : ∃ m : Nat, n = (m : Int) := ⟨n.toNat, by omega⟩
  simp only [Binary.insert, binary.Insert, toM, Int.toNat_natCast, obind_eq, cells_size]
  by_cases hc : m + 1 = heap.size
  · have e : ((m : Int) == ((heap.size : Int) - 1)) = true := by simp; omega
    have hr := resize_eq cmp eq (m : Int) heap (heap.size * 2)
    rw [Int.natCast_mul] at hr
    have hr' : binary.resize ⟨cmp, eq, (m : Int), heap⟩ ((heap.size : Int) * 2) = _ := hr
    have hc' : (m + 1 = heap.size) = True := eq_true hc
    simp only [hc', e, if_true, hr', Outcome.ok_bind, Outcome.map_bind, Outcome.pure_eq, Outcome.map_ok, ← cells_copy]
    exact Insert_tail cmp eq m d _ key val
  · have e : ((m : Int) == ((heap.size : Int) - 1)) = false := by simp; omega
    have hc' : (m + 1 = heap.size) = False := eq_false hc
    simp only [hc', e, if_false, Bool.false_eq_true, Outcome.map_bind, Outcome.pure_eq, Outcome.map_ok]
    exact Insert_tail cmp eq m d _ key val

/-! ### Delete -/

@[simp] theorem cell_some (kv : KeyValue K V) : cell (some kv) = some (pair kv) := rfl
@[simp] theorem cell_none : cell (none : Option (KeyValue K V)) = none := rfl

set_option maxHeartbeats 1000000 in
/-- the `for k, j = 1, 2; j <= h.n; k, j = j, 2*j { … }` loop of `Delete` (the final `j` is not used) -/
theorem Delete_loop (cmp : K → K → Int) (eq : V → V → Bool) (m : Nat) (kv : Option (KeyValue K V)) (F : Nat) :
    ∀ (f d : Nat) (heap : Array (Option (KeyValue K V))) (k j : Nat),
    (Binary.sink cmp (cell kv) m f (cells heap) k j).map (fun r => ((m : Int), r.1, (r.2 : Int))) ≼
      (binary.Delete.loop1 F kv (f + d) ⟨cmp, eq, (m : Int), heap⟩ (k : Int) (j : Int)).map
        (fun r => (r.1.n, cells r.1.heap, r.2.1)) := by
  intro f
  induction f with
  | zero => intro d heap k j; simp [Binary.sink]
  | succ f ih =>
    intro d heap k j
    rw [show f + 1 + d = (f + d) + 1 by omega]
    have ih1 : ∀ heap' : Array (Option (KeyValue K V)), _ := fun heap' => ih d heap' j (2 * j)
    have ih2 : ∀ heap' : Array (Option (KeyValue K V)), _ := fun heap' => ih d heap' (j + 1) (2 * (j + 1))
    simp only [Int.natCast_mul, show ((2 : Nat) : Int) = 2 from rfl] at ih1 ih2
    clear ih
    have e1 : ((j : Int) + 1) = ((j + 1 : Nat) : Int) := by omega
    simp only [Binary.sink, binary.Delete.loop1, obind_eq, e1, deref_eq, setIdx_natCast, cells_size, Go.deref]
    clear e1
    cases kv with
    | none =>
      simp only [cell_none] at ih1 ih2
      outcome_auto [cells_set_some, cell_none]
    | some q =>
      simp only [cell_some] at ih1 ih2
      outcome_auto [cells_set_some, cell_some]

theorem cells_set (a : Array (Option (KeyValue K V))) (k : Nat) (v : Option (KeyValue K V)) :
    cells (a.setIfInBounds k v) = (cells a).setIfInBounds k (cell v) := by
  by_cases h : k < a.size <;> simp [cells, Array.setIfInBounds, h]

theorem tdivN (k c : Nat) (_hc : 0 < c) : Int.tdiv (k : Int) (c : Int) = ((k / c : Nat) : Int) := by
  rw [Int.tdiv_eq_ediv_of_nonneg (by omega)]; simp

/-- `Delete` with any fuel `≥ h.n + 1`; Go's `(K, V, bool)` is read as the Model's `Option (K × V)` -/
theorem Delete_le (h : binary K V) (hn : 0 ≤ h.n) (d : Nat) :
    Binary.delete h.cmpKey (toM h) ≼
      (binary.Delete (h.n.toNat + 1 + d) h).map (fun r => (toM r.1, kvOpt r.2)) := by
  obtain ⟨cmp, eq, n, heap⟩ := h
  simp only at hn
  obtain ⟨m, rfl⟩ : ∃ m : Nat, n = (m : Int) := ⟨n.toNat, by omega⟩
  simp only [Binary.delete, binary.Delete, binary.IsEmpty, toM, Int.toNat_natCast, obind_eq]
  by_cases h0 : m = 0
  · subst h0; simp [toM, kvOpt]
  · have e0 : ((m : Int) == 0) = false := by simp; omega
    simp only [h0, if_false, e0, Bool.false_eq_true]
    by_cases h1 : 1 < heap.size
    · by_cases hm : m < heap.size
      · have i1 : Go.idx heap 1 = .ok heap[1] := Go.idx_nat (i := 1) h1
        have im : Go.idx heap (m : Int) = .ok heap[m] := Go.idx_nat hm
        have g1 : (cells heap)[1]? = some (cell heap[1]) := by simp [cells, h1]
        have gm : (cells heap)[m]? = some (cell heap[m]) := by simp [cells, hm]
        simp only [i1, im, g1, gm, Outcome.ok_bind, Outcome.map_bind]
        generalize heap[1] = ext
        generalize heap[m] = kv
        obtain ⟨n, rfl⟩ : ∃ n, m = n + 1 := ⟨m - 1, by omega⟩
        have hL := Delete_loop cmp eq n kv (n + 1 + 1 + d) (n + 2) d heap 1 2
        simp only [show ((1 : Nat) : Int) = 1 from rfl, show ((2 : Nat) : Int) = 2 from rfl] at hL
        simp only [show n + 1 - 1 = n by omega, show ((n + 1 : Nat) : Int) - 1 = (n : Int) by omega,
          show n + 2 + d = n + 1 + 1 + d by omega] at hL ⊢
        rcases le_map_cases hL with hd | ⟨hp1, hp2⟩ | ⟨r, x, hr, hx, hrel⟩
        · simp [hd]
        · simp [hp1, hp2]
        · obtain ⟨rh, rk⟩ := r
          obtain ⟨⟨c', e', n', heap2⟩, xk, xj⟩ := x
          simp only [Prod.mk.injEq] at hrel
          obtain ⟨en, eh, ek⟩ := hrel
          subst en eh ek
          have e1 : ((n : Int) + 1) = ((n + 1 : Nat) : Int) := by omega
          have e4 := tdivN heap2.size 4 (by omega)
          have e2 := tdivN heap2.size 2 (by omega)
          simp only [show ((4 : Nat) : Int) = 4 from rfl, show ((2 : Nat) : Int) = 2 from rfl] at e4 e2
          simp only [hr, hx, Outcome.ok_bind, e1, setIdx_natCast, cells_size, Array.size_setIfInBounds]
          by_cases hk : rk < heap2.size
          · simp only [hk, if_true, Outcome.ok_bind, Array.size_setIfInBounds]
            by_cases hn1 : n + 1 < heap2.size
            · simp only [hn1, if_true, Outcome.ok_bind, Array.size_setIfInBounds, e4, e2, resize_eq]
              by_cases hq : n < heap2.size / 4
              · have hq' : ((n : Int) < ((heap2.size / 4 : Nat) : Int)) := by omega
                simp only [hq, hq', decide_true, if_true, Outcome.ok_bind]
                cases ext with
                | none => simp [Go.deref, cell]
                | some p => simp [Go.deref, cell, kvOpt, pair, cells_copy, cells_set]
              · have hq' : ¬ ((n : Int) < ((heap2.size / 4 : Nat) : Int)) := by omega
                simp only [hq, hq', decide_false, Bool.false_eq_true, if_false, Outcome.pure_eq, Outcome.ok_bind]
                cases ext with
                | none => simp [Go.deref, cell]
                | some p => simp [Go.deref, cell, kvOpt, pair, cells_set]
            · simp [hn1]
          · simp [hk]
      · have im : Go.idx heap (m : Int) = .panic := Go.idx_of_invalid (by omega)
        have gm : (cells heap)[m]? = none := by simp [cells, hm]
        have i1 : Go.idx heap 1 = .ok heap[1] := Go.idx_nat (i := 1) h1
        simp [im, gm, i1]
    · have i1 : Go.idx heap 1 = .panic := Go.idx_of_invalid (by omega)
      have g1 : (cells heap)[1]? = none := by simp [cells]; omega
      simp [i1, g1]

end AlgoVerif.C04.Gen
