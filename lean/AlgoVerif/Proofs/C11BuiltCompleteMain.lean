import AlgoVerif.Proofs.C11BuiltCompleteFollow
import AlgoVerif.Proofs.C11BuiltCompleteAuto
import AlgoVerif.Proofs.C11BuiltCompleteFill
import AlgoVerif.Proofs.C11CompleteSLRCheck
import AlgoVerif.Proofs.C11Resolve
import AlgoVerif.Proofs.C11Demo
/-!
# C11 — every conflict-free table BUILT by the SLR(1) / canonical LR(1) constructions of the Model passes the
completeness validator, hence the driver on it accepts exactly `L(G)`

The missing link between the constructions (`Model/C11.lean`) and `C11_complete_validated` / `C11_exact_validated`:

* `built_complete_lr1`, `built_complete_slr`: `build k g fuel = .ok b`, `b.table` conflict-free ⇒ `completeOKFor k g b = true`
  (for every well-formed grammar whose bodies use listed terminals only; NO assumption on the fuel — the theorem is
  conditional on the builder returning `.ok`, i.e. on the fuelled loops of CLOSURE and of the collection having stopped
  because a pass added nothing; the loops of nullable/FIRST/FOLLOW choose their own fuel, which is shown to suffice);
* `C11_exact_lr1`, `C11_exact_slr`: on such a table, `parse` accepts `w` iff `w ∈ L(g)`;
* `C11_complete_lr1`, `C11_complete_slr`: … and the AST it returns is the derivation tree.
-/
namespace AlgoVerif.C11.BuiltComplete
open AlgoVerif AlgoVerif.Gram AlgoVerif.C11 AlgoVerif.C11.Spec AlgoVerif.C11.Built AlgoVerif.C11.Sound
  AlgoVerif.C11.Complete

/-- the terminals used in bodies are listed in `g.terms` (part of what `grammar.CFG.Verify` asks for; the Model's fuel
for FIRST/FOLLOW is computed from `g.terms`) -/
def TermsListed (g : SGrammar) : Prop := ∀ p ∈ g.prods, ∀ t, Sym.term t ∈ p.body → t ∈ g.terms

/-- executable version of `TermsListed` -/
def termsListed (g : SGrammar) : Bool :=
  g.prods.all fun p => p.body.all fun s => match s with
    | .term t => g.terms.contains t
    | .nonterm _ => true

theorem termsListed_sound {g : SGrammar} (h : termsListed g = true) : TermsListed g := by
  unfold termsListed at h
  simp only [List.all_eq_true] at h
  intro p hp t ht
  simpa using h p hp _ ht

/-! ## the augmented grammar is well formed -/

theorem augment_shape {g g' : SGrammar} (ha : augment g = Outcome.ok g') :
    g'.terms = addNew g.terms endmarker ∧ g'.nonterms = g.nonterms ++ [g'.start] := by
  unfold augment at ha
  cases hs : augStart g with
  | none => simp [hs] at ha
  | some s' =>
    simp only [hs, Outcome.ok.injEq] at ha
    subst ha
    exact ⟨rfl, rfl⟩

structure AugListed (g' : SGrammar) : Prop where
  listed : Listed g'
  bodies : ∀ p ∈ g'.prods, ∀ B, Sym.nonterm B ∈ p.body → B ∈ g'.nonterms
  startIn : g'.start ∈ g'.nonterms
  endIn : endmarker ∈ g'.terms

theorem augListed {g g' : SGrammar} (hv : ValidG g) (ht : TermsListed g) (ha : augment g = Outcome.ok g') :
    AugListed g' := by
  have h := augOK_of_augment hv ha
  obtain ⟨hT, hN⟩ := augment_shape ha
  refine ⟨⟨?_, ?_⟩, ?_, ?_, ?_⟩
  · intro p hp
    rw [hN]
    rcases (mem_prods' h).mp hp with h1 | h1
    · exact List.mem_append_left _ (hv.heads p h1)
    · rw [h1]; simp [startProd]
  · intro p hp t htm
    rw [hT]
    rcases (mem_prods' h).mp hp with h1 | h1
    · exact mem_addNew.mpr (Or.inl (ht p h1 t htm))
    · rw [h1] at htm; simp [startProd] at htm
  · intro p hp B hB
    rw [hN]
    rcases (mem_prods' h).mp hp with h1 | h1
    · exact List.mem_append_left _ (hv.bodies p h1 B hB)
    · rw [h1] at hB
      simp only [startProd, List.mem_singleton, Sym.nonterm.injEq] at hB
      exact List.mem_append_left _ (hB ▸ hv.startIn)
  · rw [hN]; simp
  · rw [hT]; exact mem_addNew.mpr (Or.inr rfl)

/-! ## the state map and the table of a complete-item-set construction -/

section
variable {g g' : SGrammar} (hv : ValidG g) (ht : TermsListed g) (ha : augment g = Outcome.ok g')
  {A : Auto} (hAg : A.g = g') (hAk : A.kernel = false)
  {Q : Item → Prop} (hQ : ItemProp A.g A.nl A.fe Q) (hQi : Q A.initialItem)
  {C : List (List Item)} (hc : A.canonical = Outcome.ok C)
include hv ha hAg hAk hc

omit ht in
/-- state 0 holds the initial item -/
theorem init_in_state0 : A.initialItem ∈ itemsAt (buildStateMap g'.start C) 0 := by
  have h := augOK_of_augment hv ha
  have hinitEq := initialItem_eq h hAg
  have hinit : A.initialItem.isInitial g'.start = true := by
    rw [hinitEq]
    by_cases hl : A.lr1 = true <;> simp [Item.isInitial, startProd, laIsEnd, hl]
  obtain ⟨I0, rest, rfl, h0, hr⟩ := cinvK_of_cinv (canonical_spec h hAg hAk hc)
  obtain ⟨_, tail, heq, _⟩ := stateMap_specK' hinit h0 hr
  have : itemsAt (buildStateMap g'.start (I0 :: rest)) 0 = (buildStateMap g'.start (I0 :: rest)).getD 0 [] :=
    itemsAt_nat _ 0
  rw [this, heq]
  simp only [List.getD_cons_zero]
  exact (mem_sortBy _ _ _).mpr h0.1

omit ht in
/-- every item of every state is a dotted production of `G′`, items of `S′` carry the endmarker -/
theorem states_good : ∀ (i : Nat) (I : List Item), (buildStateMap g'.start C)[i]? = some I → ∀ it ∈ I, Good g' it := by
  have h := augOK_of_augment hv ha
  have hinitEq := initialItem_eq h hAg
  have hinit : A.initialItem.isInitial g'.start = true := by
    rw [hinitEq]
    by_cases hl : A.lr1 = true <;> simp [Item.isInitial, startProd, laIsEnd, hl]
  exact statesOK_good (stateMap_spec hinit (canonical_spec h hAg hAk hc))

include hQ hQi

omit hv ha hAg in
theorem states_closed : chkClosed A.g A.nl A.fe (buildStateMap g'.start C) = true := by
  have hSC := statesComplete hAk hQ hQi hc g'.start
  unfold chkClosed
  rw [List.all_eq_true]
  intro I hI
  rw [List.all_eq_true]
  intro it hit
  have hcl := (hSC.setOK I hI).1 it hit
  cases hd : it.dotSym with
  | none => rfl
  | some X =>
    cases X with
    | term a => rfl
    | nonterm B =>
      simp only
      rw [List.all_eq_true]
      intro p hp
      have hmem : ∀ j, j ∈ (match it.la with
          | none => [({ prod := p, dot := 0, la := none } : Item)]
          | some a => (lookaheadsFor A.nl A.fe it a).map fun b => { prod := p, dot := 0, la := some b }) →
          j ∈ I := by
        intro j hj
        apply hcl j
        unfold closureCands
        rw [hd]
        simp only
        exact List.mem_flatMap.mpr ⟨p, hp, hj⟩
      cases hla : it.la with
      | none =>
        rw [hla] at hmem
        simpa using hmem _ (by simp)
      | some a =>
        rw [hla] at hmem
        simp only
        rw [List.all_eq_true]
        intro b hb
        simpa using hmem _ (List.mem_map.mpr ⟨b, hb, rfl⟩)

omit hv ha hAg in
theorem states_allQ : ∀ I ∈ buildStateMap g'.start C, ∀ it ∈ I, Q it :=
  fun I hI => ((statesComplete hAk hQ hQi hc g'.start).setOK I hI).2

variable (reduceOn : Item → List String) {T : Table}
  (hT : fillFull A (buildStateMap g'.start C) reduceOn = Outcome.ok T)
include ht hT

theorem table_advance : chkAdvance (buildStateMap g'.start C) T = true := by
  have h := augOK_of_augment hv ha
  have hL := augListed hv ht ha
  have hSC := statesComplete hAk hQ hQi hc g'.start
  have hgood := states_good hv ha hAg hAk hc
  have hrows := fillFull_spec A _ reduceOn T hT
  unfold chkAdvance
  rw [List.all_eq_true]
  rintro ⟨I, i⟩ hIi
  have hI : (buildStateMap g'.start C)[i]? = some I := List.mem_zipIdx_iff_getElem?.mp hIi
  have hImem : I ∈ buildStateMap g'.start C := List.mem_of_getElem? hI
  rw [List.all_eq_true]
  intro it hit
  have hrow := hrows i I hI
  have hg := hgood i I hI it hit
  cases hd : it.dotSym with
  | none => rfl
  | some X =>
    have hXbody := dotSym_mem hd
    cases X with
    | term a =>
      simp only
      obtain ⟨J, hJ, hmem⟩ := (hrow.1 it hit).1 a hd
      have hX : Sym.term a ∈ allSymbols A.g := by
        rw [hAg]
        unfold allSymbols
        exact List.mem_append_left _ (List.mem_map.mpr ⟨a, hL.listed.terms _ hg.1 a hXbody, rfl⟩)
      obtain ⟨n, K', hn, hK', hnext⟩ := hSC.found I hImem it hit _ hd hX J hJ
      rw [List.any_eq_true]
      refine ⟨_, hmem, ?_⟩
      simp only
      rw [hn, itemsAt_of_get hK']
      simpa using hnext
    | nonterm B =>
      simp only
      have hBN : B ∈ A.g.nonterms := by rw [hAg]; exact hL.bodies _ hg.1 B hXbody
      have hBne : B ≠ A.g.start := by rw [hAg]; exact body_nonterm_ne h hg.1 hXbody
      obtain ⟨J, hJ, hgo⟩ := hrow.2 B hBN hBne
      have hX : Sym.nonterm B ∈ allSymbols A.g := by
        unfold allSymbols
        exact List.mem_append_right _ (List.mem_map.mpr ⟨B, hBN, rfl⟩)
      obtain ⟨n, K', hn, hK', hnext⟩ := hSC.found I hImem it hit _ hd hX J hJ
      have := hgo (by rw [hn]; omega)
      rw [this]
      simp only
      rw [hn, itemsAt_of_get hK']
      simpa using hnext

omit ht in
theorem table_reduce (follow : String → List String)
    (hred : ∀ it, Q it → (match it.la with | some a => [a] | none => follow it.prod.head) = reduceOn it) :
    chkReduceComplete g'.start follow (buildStateMap g'.start C) T = true := by
  have hgood := states_good hv ha hAg hAk hc
  have hallQ := states_allQ (g' := g') hAk hQ hQi hc
  have hrows := fillFull_spec A _ reduceOn T hT
  unfold chkReduceComplete
  rw [List.all_eq_true]
  rintro ⟨I, i⟩ hIi
  have hI : (buildStateMap g'.start C)[i]? = some I := List.mem_zipIdx_iff_getElem?.mp hIi
  have hImem : I ∈ buildStateMap g'.start C := List.mem_of_getElem? hI
  rw [List.all_eq_true]
  intro it hit
  obtain ⟨_, hr2, hr3⟩ := (hrows i I hI).1 it hit
  have hg := hgood i I hI it hit
  rw [hAg] at hr2 hr3
  by_cases hcomp : it.isComplete = true
  · simp only [hcomp, if_true]
    by_cases hh : it.prod.head = g'.start
    · have hfin : it.isFinal g'.start = true := by
        simp [Item.isFinal, hh, hcomp, hg.2 hh]
      have hb : (it.prod.head == g'.start) = true := by simpa using hh
      simp only [hb, if_true]
      simpa using hr3 hfin
    · have hfin : it.isFinal g'.start = false := by
        simp [Item.isFinal, hh]
      have hb : (it.prod.head == g'.start) = false := by simpa using hh
      simp only [hb, Bool.false_eq_true, if_false]
      have hq := hred it (hallQ I hImem it hit)
      cases hla : it.la with
      | none =>
        rw [hla] at hq
        simp only at hq ⊢
        rw [hq, List.all_eq_true]
        intro a ha'
        simpa using hr2 hcomp hfin a ha'
      | some c =>
        rw [hla] at hq
        simp only at hq ⊢
        rw [hq, List.all_eq_true]
        intro a ha'
        simpa using hr2 hcomp hfin a ha'
  · simp [hcomp]

end

/-! ## the two builders -/

theorem chkFresh_of_aug {g g' : SGrammar} (h : AugOK g g') : chkFresh g g'.start = true := by
  unfold chkFresh
  simp only [Bool.and_eq_true, Bool.not_eq_true', List.contains_eq_mem, decide_eq_false_iff_not, List.all_eq_true,
    beq_eq_false_iff_ne, ne_eq]
  exact ⟨h.fresh, fun p hp => head_ne_of_mem h hp⟩

/-- every conflict-free table the canonical LR(1) construction of the Model returns passes the completeness validator -/
theorem built_complete_lr1 (g : SGrammar) (hv : ValidG g) (ht : TermsListed g) (fuel : Nat) (b : Built)
    (hb : buildLR1 g fuel = Outcome.ok b) (hcf : chkConflictFree b.table = true) : completeLR1OK g b = true := by
  unfold buildLR1 at hb
  obtain ⟨g', hg', hb1⟩ := bind_eq_ok hb
  obtain ⟨C, hC, hb2⟩ := bind_eq_ok hb1
  obtain ⟨T, hT, hb3⟩ := bind_eq_ok hb2
  have hbeq := pure_eq_ok hb3
  subst hbeq
  have h := augOK_of_augment hv hg'
  have hL := augListed hv ht hg'
  have hQ := itemProp_some g' (nullableOf g') (firstEnv g' (nullableOf g'))
  have hinitEq := initialItem_eq h (A := mkAuto g' true false fuel) rfl
  have hQi : (mkAuto g' true false fuel).initialItem.la.isSome = true := by rw [hinitEq]; rfl
  have h0 := init_in_state0 hv hg' (A := mkAuto g' true false fuel) rfl rfl hC
  have hall := states_allQ (g' := g') (A := mkAuto g' true false fuel) rfl hQ hQi hC
  have hcl := states_closed (g' := g') (A := mkAuto g' true false fuel) rfl hQ hQi hC
  have hadv := table_advance hv ht hg' (A := mkAuto g' true false fuel) rfl rfl hQ hQi hC _ hT
  have hred := table_reduce hv hg' (A := mkAuto g' true false fuel) rfl rfl hQ hQi hC _ hT (fun _ => [])
    (fun it _ => by cases it.la <;> rfl)
  unfold completeLR1OK
  rw [hg']
  simp only [Bool.and_eq_true, beq_iff_eq]
  refine ⟨⟨⟨⟨⟨⟨⟨⟨⟨trivial, ?_⟩, ?_⟩, ?_⟩, ?_⟩, hcl⟩, hadv⟩, hred⟩, hcf⟩, chkFresh_of_aug h⟩
  · exact nullable_closed g' hL.listed.heads
  · exact first_closed g' hL.listed _
  · unfold chkInitLR1
    rw [hinitEq] at h0
    simpa [startProd, mkAuto] using h0
  · unfold chkAllLR1
    rw [List.all_eq_true]
    intro I hI
    rw [List.all_eq_true]
    exact hall I hI

/-- every conflict-free table the SLR(1) construction of the Model returns passes the completeness validator -/
theorem built_complete_slr (g : SGrammar) (hv : ValidG g) (ht : TermsListed g) (fuel : Nat) (b : Built)
    (hb : buildSLR g fuel = Outcome.ok b) (hcf : chkConflictFree b.table = true) : completeSLROK g b = true := by
  unfold buildSLR at hb
  obtain ⟨g', hg', hb1⟩ := bind_eq_ok hb
  obtain ⟨C, hC, hb2⟩ := bind_eq_ok hb1
  obtain ⟨T, hT, hb3⟩ := bind_eq_ok hb2
  have hbeq := pure_eq_ok hb3
  subst hbeq
  have h := augOK_of_augment hv hg'
  have hL := augListed hv ht hg'
  have hQ := itemProp_none g' (nullableOf g') (firstEnv g' (nullableOf g'))
  have hinitEq := initialItem_eq h (A := mkAuto g' false false fuel) rfl
  have hQi : (mkAuto g' false false fuel).initialItem.la = none := by rw [hinitEq]; rfl
  have h0 := init_in_state0 hv hg' (A := mkAuto g' false false fuel) rfl rfl hC
  have hall := states_allQ (g' := g') (A := mkAuto g' false false fuel) rfl hQ hQi hC
  have hcl := states_closed (g' := g') (A := mkAuto g' false false fuel) rfl hQ hQi hC
  have hadv := table_advance hv ht hg' (A := mkAuto g' false false fuel) rfl rfl hQ hQi hC _ hT
  have hred := table_reduce hv hg' (A := mkAuto g' false false fuel) rfl rfl hQ hQi hC _ hT
    (envGet (followEnv g' (nullableOf g') (firstEnv g' (nullableOf g'))))
    (fun it hit => by have hit' : it.la = none := hit; rw [hit']; rfl)
  obtain ⟨hfc, hfe⟩ := follow_closed g' hL.listed hL.endIn (nullableOf g') hL.bodies hL.startIn
  -- FOLLOW(S) ∋ $ : from FOLLOW(S′) ∋ $ and the production S′ → S
  have hfs : endmarker ∈ envGet (followEnv g' (nullableOf g') (firstEnv g' (nullableOf g'))) g.start := by
    unfold chkFollowClosed at hfc
    rw [List.all_eq_true] at hfc
    have := hfc (startProd g g') ((mem_prods' h).mpr (Or.inr rfl))
    simp only [startProd, followClosedBody, List.all_nil, Bool.not_true, Bool.false_or, Bool.and_true,
      Bool.and_eq_true, List.all_eq_true, firstOfStr] at this
    simpa using this.2 endmarker hfe
  unfold completeSLROK
  rw [hg']
  simp only [Bool.and_eq_true, beq_iff_eq]
  refine ⟨⟨⟨⟨⟨⟨⟨⟨⟨⟨⟨trivial, ?_⟩, ?_⟩, hfc⟩, ?_⟩, ?_⟩, ?_⟩, hcl⟩, hadv⟩, hred⟩, hcf⟩, chkFresh_of_aug h⟩
  · exact nullable_closed g' hL.listed.heads
  · exact first_closed g' hL.listed _
  · simpa using hfs
  · rw [hinitEq] at h0
    simpa [startProd, mkAuto] using h0
  · rw [List.all_eq_true]
    intro I hI
    rw [List.all_eq_true]
    intro it hit
    simp [hall I hI it hit]

/-- `build k g fuel = .ok b` with a conflict-free table ⇒ the completeness validator accepts `b` (k = SLR, LR(1)) -/
theorem built_complete (k : Kind) (hk : k ≠ Kind.lalr) (g : SGrammar) (hv : ValidG g) (ht : TermsListed g) (fuel : Nat)
    (b : Built) (hb : build k g fuel = Outcome.ok b) (hcf : chkConflictFree b.table = true) :
    completeOKFor k g b = true := by
  cases k with
  | slr => exact built_complete_slr g hv ht fuel b hb hcf
  | lalr => exact absurd rfl hk
  | lr1 => exact built_complete_lr1 g hv ht fuel b hb hcf

/-! ## exactness -/

theorem derives_of_rderiv {g : SGrammar} : ∀ {π : List Pr} {α β : List Sy}, RDeriv g π α β → Derives g α β := by
  intro π α β hd
  induction hd with
  | nil α => exact Derives.refl α
  | cons u v p hp _ ih => exact (Derives.single (Step.mk u (v.map Sym.term) p hp)).trans ih

/-- completeness for the canonical LR(1) construction: every sentence is accepted, with its derivation tree as AST and
the tree's productions emitted bottom-up -/
theorem C11_complete_lr1 (g : SGrammar) (hv : ValidG g) (ht : TermsListed g) (fuel : Nat) (b : Built)
    (hb : build .lr1 g fuel = .ok b) (hcf : chkConflictFree b.table = true) (w : List String) (hw : Language g w) :
    ∃ fuel' t, derivesT g t (Sym.nonterm g.start) ∧ t.yield = w ∧
      parse b.table.toTbl fuel' w = .ok (.accept (postT t) t) := by
  obtain ⟨g', nl, fe, hC, _⟩ := completeTable_of_check g b (built_complete_lr1 g hv ht fuel b hb hcf)
  exact complete_language hC w hw

/-- completeness for the SLR(1) construction -/
theorem C11_complete_slr (g : SGrammar) (hv : ValidG g) (ht : TermsListed g) (fuel : Nat) (b : Built)
    (hb : build .slr g fuel = .ok b) (hcf : chkConflictFree b.table = true) (w : List String) (hw : Language g w) :
    ∃ fuel' t, derivesT g t (Sym.nonterm g.start) ∧ t.yield = w ∧
      parse b.table.toTbl fuel' w = .ok (.accept (postT t) t) := by
  obtain ⟨nl, fe, fo, hC⟩ := completeTable0_of_check g b (built_complete_slr g hv ht fuel b hb hcf)
  exact complete_language0 hC w hw

/-- "accepts exactly L(G)" for the canonical LR(1) construction of the Model: for EVERY well-formed grammar `g` (heads,
body symbols and the start symbol listed, no endmarker in a body), every amount of builder fuel with which `build`
returns a table at all, if that table has no conflict then for every token string `w` without the endmarker the driver
accepts `w` (for some, hence by `C11_parse_fuel_monotone` every larger, amount of fuel) iff `w ∈ L(g)`. -/
theorem C11_exact_lr1 (g : SGrammar) (hv : ValidG g) (ht : TermsListed g) (fuel : Nat) (b : Built)
    (hb : build .lr1 g fuel = .ok b) (hcf : chkConflictFree b.table = true) (w : List String) (hend : endmarker ∉ w) :
    Language g w ↔ ∃ fuel' π root, parse b.table.toTbl fuel' w = .ok (.accept π root) := by
  constructor
  · intro hw
    obtain ⟨f, t, _, _, hp⟩ := C11_complete_lr1 g hv ht fuel b hb hcf w hw
    exact ⟨f, _, _, hp⟩
  · rintro ⟨f, π, root, hp⟩
    have hs := parse_sound (soundTable_of_within g b b.table (soundOK_buildLR1 hv hb) (within_refl _)) w hend f π root hp
    exact derives_of_rderiv hs.1

/-- "accepts exactly L(G)" for the SLR(1) construction of the Model (same statement) -/
theorem C11_exact_slr (g : SGrammar) (hv : ValidG g) (ht : TermsListed g) (fuel : Nat) (b : Built)
    (hb : build .slr g fuel = .ok b) (hcf : chkConflictFree b.table = true) (w : List String) (hend : endmarker ∉ w) :
    Language g w ↔ ∃ fuel' π root, parse b.table.toTbl fuel' w = .ok (.accept π root) := by
  constructor
  · intro hw
    obtain ⟨f, t, _, _, hp⟩ := C11_complete_slr g hv ht fuel b hb hcf w hw
    exact ⟨f, _, _, hp⟩
  · rintro ⟨f, π, root, hp⟩
    have hs := parse_sound (soundTable_of_within g b b.table (soundOK_buildSLR hv hb) (within_refl _)) w hend f π root hp
    exact derives_of_rderiv hs.1

/-! ## a conflict-free table is what `ResolveConflicts` returns unchanged -/

theorem resolveCells_conflictFree (ls : List Level) (order : Int → String → List Action → List Action) :
    ∀ (es : List ((Int × String) × List Action)) (acc : Table × Verdict), (∀ e ∈ es, e.2.length ≤ 1) →
      resolveCells ls order es acc = Outcome.ok acc
  | [], acc, _ => rfl
  | e :: es, acc, h => by
    unfold resolveCells
    rw [if_pos (h e (by simp))]
    exact resolveCells_conflictFree ls order es acc (fun e' he' => h e' (List.mem_cons_of_mem _ he'))

/-- so `C11_exact_lr1` / `C11_exact_slr` speak about the very table the driver parses with after `ResolveConflicts`
(whatever the precedence levels and iteration orders are) -/
theorem resolveAll_conflictFree (ls : List Level) (order : Int → String → List Action → List Action) (T : Table)
    (hcf : chkConflictFree T = true) :
    resolveAll ls order T = Outcome.ok (T, if levelsOK ls then Verdict.table else Verdict.badPrecedences) := by
  unfold resolveAll
  by_cases hl : levelsOK ls = true
  · simp only [hl, Bool.not_true, Bool.false_eq_true, if_false, if_true]
    apply resolveCells_conflictFree
    unfold chkConflictFree at hcf
    rw [List.all_eq_true] at hcf
    intro e he
    simpa using hcf e he
  · simp [hl]

/-! ## the hypotheses are satisfiable -/

open AlgoVerif.C11.Demo

example : ValidG g17 ∧ TermsListed g17 := ⟨validG_sound (by decide), termsListed_sound (by decide)⟩
example : ValidG gAnBn ∧ TermsListed gAnBn := ⟨validG_sound (by decide), termsListed_sound (by decide)⟩

set_option maxRecDepth 1000000 in
/-- the canonical LR(1) builder returns a conflict-free table for `S → a S | a a a`, and the SLR(1) and LR(1) builders do
for `S → a S b | ε` (an ε-production, so nullable/FIRST/FOLLOW matter) -/
theorem built_conflict_free_witness :
    (match build .lr1 g17 40 with | .ok b => chkConflictFree b.table | _ => false) = true ∧
    (match build .slr gAnBn 40 with | .ok b => chkConflictFree b.table | _ => false) = true ∧
    (match build .lr1 gAnBn 40 with | .ok b => chkConflictFree b.table | _ => false) = true := by decide

/-- `C11_exact_slr` at work on `S → a S b | ε`: whatever table the builder returned with fuel 40 (it is conflict-free by
the witness above), the driver accepts `w` iff `w ∈ L(g)` -/
example (b : Built) (hb : build .slr gAnBn 40 = .ok b) (w : List String) (hend : endmarker ∉ w) :
    Language gAnBn w ↔ ∃ fuel' π root, parse b.table.toTbl fuel' w = .ok (.accept π root) := by
  have hcf : chkConflictFree b.table = true := by
    have := built_conflict_free_witness.2.1
    rw [hb] at this
    exact this
  exact C11_exact_slr gAnBn (validG_sound (by decide)) (termsListed_sound (by decide)) 40 b hb hcf w hend

example (b : Built) (hb : build .lr1 g17 40 = .ok b) (w : List String) (hend : endmarker ∉ w) :
    Language g17 w ↔ ∃ fuel' π root, parse b.table.toTbl fuel' w = .ok (.accept π root) := by
  have hcf : chkConflictFree b.table = true := by
    have := built_conflict_free_witness.1
    rw [hb] at this
    exact this
  exact C11_exact_lr1 g17 (validG_sound (by decide)) (termsListed_sound (by decide)) 40 b hb hcf w hend

end AlgoVerif.C11.BuiltComplete
