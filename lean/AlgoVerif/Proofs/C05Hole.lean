import AlgoVerif.Spec.C05
/-!
# C05 helper: heap order "with a hole", on an abstract key function `f : position → Option key`

No arrays here: `f` is the map position ↦ key of the binary heap, `m` the number of positions in use,
`tr i j` the transposition that `swap(i, j)` applies to positions.
-/
namespace AlgoVerif.C05.Hole
variable {K : Type} (cmp : K → K → Int)

def LeP (f : Nat → Option K) (a b : Nat) : Prop :=
  ∃ ka kb, f a = some ka ∧ f b = some kb ∧ cmp ka kb ≤ 0

/-- heap order on positions `1..m` -/
def Ord (f : Nat → Option K) (m : Nat) : Prop :=
  ∀ j, 2 ≤ j → j ≤ m → LeP cmp f (j / 2) j

/-- heap order except for the pairs that involve position `k`; the parent of `k` is before `k`'s children -/
def Hole (f : Nat → Option K) (m k : Nat) : Prop :=
  (∀ j, 2 ≤ j → j ≤ m → j ≠ k → j / 2 ≠ k → LeP cmp f (j / 2) j) ∧
  (∀ j, 2 ≤ j → j ≤ m → j / 2 = k → 2 ≤ k → LeP cmp f (k / 2) j)

/-- heap order except for the pairs (`k`, child of `k`) -/
def DownHole (f : Nat → Option K) (m k : Nat) : Prop :=
  (∀ j, 2 ≤ j → j ≤ m → j / 2 ≠ k → LeP cmp f (j / 2) j) ∧
  (∀ j, 2 ≤ j → j ≤ m → j / 2 = k → 2 ≤ k → LeP cmp f (k / 2) j)

def ChildOK (f : Nat → Option K) (m k : Nat) : Prop :=
  ∀ j, 2 ≤ j → j ≤ m → j / 2 = k → LeP cmp f k j

def tr (i j p : Nat) : Nat := if p = i then j else if p = j then i else p

variable {cmp}

theorem LeP.trans (hc : LawfulCmp cmp) {f : Nat → Option K} {a b c : Nat}
    (h1 : LeP cmp f a b) (h2 : LeP cmp f b c) : LeP cmp f a c := by
  obtain ⟨ka, kb, ha, hb, hab⟩ := h1
  obtain ⟨kb', kc, hb', hc', hbc⟩ := h2
  have : kb = kb' := by rw [hb] at hb'; exact Option.some.inj hb'
  subst this
  exact ⟨ka, kc, ha, hc', hc.trans _ _ _ hab hbc⟩

theorem cmp_refl (hc : LawfulCmp cmp) (a : K) : cmp a a ≤ 0 := by
  by_cases h : 0 ≤ cmp a a
  · exact hc.anti a a h
  · omega

theorem LeP.refl (hc : LawfulCmp cmp) {f : Nat → Option K} {a : Nat} {ka : K} (h : f a = some ka) :
    LeP cmp f a a := ⟨ka, ka, h, h, cmp_refl hc ka⟩

theorem LeP.congr {f g : Nat → Option K} {a b a' b' : Nat} (ha : g a' = f a) (hb : g b' = f b)
    (h : LeP cmp f a b) : LeP cmp g a' b' := by
  obtain ⟨ka, kb, h1, h2, h3⟩ := h
  exact ⟨ka, kb, by rw [ha, h1], by rw [hb, h2], h3⟩

theorem tr_left (i j : Nat) : tr i j i = j := by simp [tr]
theorem tr_right (i j : Nat) : tr i j j = i := by
  unfold tr; split <;> simp_all
theorem tr_other {i j p : Nat} (h1 : p ≠ i) (h2 : p ≠ j) : tr i j p = p := by simp [tr, h1, h2]

/-- one `promote` step: the entry at `k` is strictly before its parent; after the swap the hole is at `k/2` -/
theorem hole_up (hc : LawfulCmp cmp) {f g : Nat → Option K} {m k : Nat}
    (hg : ∀ p, g p = f (tr k (k / 2) p))
    (hk : 1 < k) (hkm : k ≤ m) (h : Hole cmp f m k) (hlt : LeP cmp f k (k / 2)) :
    Hole cmp g m (k / 2) := by
  obtain ⟨h1, h2⟩ := h
  have hk2 : k / 2 < k := by omega
  have gk : g k = f (k / 2) := by rw [hg, tr_left]
  have gk2 : g (k / 2) = f k := by rw [hg, tr_right]
  have gother : ∀ p, p ≠ k → p ≠ k / 2 → g p = f p := by
    intro p h1 h2; rw [hg, tr_other h1 h2]
  constructor
  · intro j hj2 hjm hjk hjk2
    by_cases hjk' : j = k
    · exact absurd (by rw [hjk']) hjk2
    by_cases hpk : j / 2 = k
    · -- child of k: g (j/2) = g k = f (k/2) ≤ f j = g j  (bridge)
      have := h2 j hj2 hjm hpk (by omega)
      rw [hpk]
      exact LeP.congr gk (gother j hjk' hjk) this
    · have := h1 j hj2 hjm hjk' hpk
      exact LeP.congr (gother _ hpk hjk2) (gother _ hjk' hjk) this
  · intro j hj2 hjm hjp hk22
    -- j is k or the sibling of k; k/4 ≤ k/2 ≤ …
    have hq : LeP cmp f (k / 2 / 2) (k / 2) := h1 (k / 2) hk22 (by omega) (by omega) (by omega)
    have gq : g (k / 2 / 2) = f (k / 2 / 2) := gother _ (by omega) (by omega)
    by_cases hjk : j = k
    · subst hjk
      exact LeP.congr gq gk hq
    · have hs : LeP cmp f (k / 2) j := by
        have := h1 j hj2 hjm hjk (by omega)
        rwa [hjp] at this
      exact LeP.congr gq (gother j hjk (by omega)) (LeP.trans hc hq hs)

theorem child_up (hc : LawfulCmp cmp) {f g : Nat → Option K} {m k : Nat}
    (hg : ∀ p, g p = f (tr k (k / 2) p))
    (hk : 1 < k) (hkm : k ≤ m) (h : Hole cmp f m k) (hlt : LeP cmp f k (k / 2)) :
    ChildOK cmp g m (k / 2) := by
  obtain ⟨h1, _⟩ := h
  have gk : g k = f (k / 2) := by rw [hg, tr_left]
  have gk2 : g (k / 2) = f k := by rw [hg, tr_right]
  have gother : ∀ p, p ≠ k → p ≠ k / 2 → g p = f p := by
    intro p h1 h2; rw [hg, tr_other h1 h2]
  intro j hj2 hjm hjp
  by_cases hjk : j = k
  · subst hjk
    exact LeP.congr gk2 gk hlt
  · have hs : LeP cmp f (k / 2) j := by
      have := h1 j hj2 hjm hjk (by omega)
      rwa [hjp] at this
    exact LeP.congr gk2 (gother j hjk (by omega)) (LeP.trans hc hlt hs)

/-- `promote` stops at `k` -/
theorem hole_stop {f : Nat → Option K} {m k : Nat} (h : Hole cmp f m k)
    (hp : k ≤ 1 ∨ LeP cmp f (k / 2) k) : DownHole cmp f m k := by
  obtain ⟨h1, h2⟩ := h
  refine ⟨?_, h2⟩
  intro j hj2 hjm hjp
  by_cases hjk : j = k
  · subst hjk
    rcases hp with hp | hp
    · omega
    · exact hp
  · exact h1 j hj2 hjm hjk hjp

/-- one `demote` step: `c` is the child of `k` that is before its sibling, and not after `k` -/
theorem down_step (hc : LawfulCmp cmp) {f g : Nat → Option K} {m k c : Nat}
    (hg : ∀ p, g p = f (tr k c p))
    (hk : 1 ≤ k) (hck : c / 2 = k) (hc2 : 2 ≤ c) (hcm : c ≤ m)
    (h : DownHole cmp f m k)
    (hsib : ∀ s, 2 ≤ s → s ≤ m → s / 2 = k → LeP cmp f c s)
    (hle : LeP cmp f c k) : DownHole cmp g m c := by
  obtain ⟨h1, h2⟩ := h
  have hkc : k < c := by omega
  have gk : g k = f c := by rw [hg, tr_left]
  have gc : g c = f k := by rw [hg, tr_right]
  have gother : ∀ p, p ≠ k → p ≠ c → g p = f p := by
    intro p h1 h2; rw [hg, tr_other h1 h2]
  constructor
  · intro j hj2 hjm hjp
    by_cases hjk : j / 2 = k
    · -- j is c or its sibling
      by_cases hjc : j = c
      · subst hjc; rw [hjk]; exact LeP.congr gk gc hle
      · rw [hjk]
        refine LeP.congr gk (gother j (by omega) hjc) (hsib j hj2 hjm hjk)
    · by_cases hjk' : j = k
      · -- pair (k/2, k): bridge
        subst hjk'
        have := h2 c hc2 hcm hck hj2
        refine LeP.congr (gother _ (by omega) (by omega)) gk this
      · have := h1 j hj2 hjm hjk
        refine LeP.congr (gother _ hjk (by omega)) (gother _ hjk' (by omega)) this
  · intro j hj2 hjm hjp _
    -- g (c/2) = g k = f c ≤ f j = g j
    rw [hck]
    have := h1 j hj2 hjm (by omega)
    rw [hjp] at this
    exact LeP.congr gk (gother j (by omega) (by omega)) this

/-- `demote` stops at `k`: no child, or `k` is before its children -/
theorem down_stop {f : Nat → Option K} {m k : Nat} (h : DownHole cmp f m k)
    (hch : ChildOK cmp f m k) : Ord cmp f m := by
  intro j hj2 hjm
  by_cases hjp : j / 2 = k
  · rw [hjp]; exact hch j hj2 hjm hjp
  · exact h.1 j hj2 hjm hjp

theorem ord_hole {f : Nat → Option K} {m k : Nat} (h : Ord cmp f m) (hc : LawfulCmp cmp) : Hole cmp f m k := by
  constructor
  · intro j hj2 hjm _ _; exact h j hj2 hjm
  · intro j hj2 hjm hjp hk2
    have h1 := h j hj2 hjm
    have h2 := h k hk2 (by omega)
    rw [hjp] at h1
    exact LeP.trans hc h2 h1

/-- the root is before every position -/
theorem ord_root (hc : LawfulCmp cmp) {f : Nat → Option K} {m : Nat} (h : Ord cmp f m) {k1 : K}
    (h1 : f 1 = some k1) : ∀ p, 1 ≤ p → p ≤ m → LeP cmp f 1 p := by
  intro p
  induction p using Nat.strongRecOn with
  | _ p ih =>
    intro hp1 hpm
    by_cases hp : p = 1
    · subst hp; exact LeP.refl hc h1
    · have := ih (p / 2) (by omega) (by omega) (by omega)
      exact LeP.trans hc this (h p (by omega) hpm)

end AlgoVerif.C05.Hole

namespace AlgoVerif.C05.Hole
variable {K : Type} {cmp : K → K → Int}

theorem ord_mono {f : Nat → Option K} {m m' : Nat} (h : Ord cmp f m) (hm : m' ≤ m) : Ord cmp f m' :=
  fun j hj2 hjm => h j hj2 (by omega)

theorem ord_congr {f g : Nat → Option K} {m : Nat} (hfg : ∀ q, 1 ≤ q → q ≤ m → g q = f q)
    (h : Ord cmp f m) : Ord cmp g m :=
  fun j hj2 hjm => LeP.congr (hfg _ (by omega) (by omega)) (hfg _ (by omega) hjm) (h j hj2 hjm)

theorem hole_congr {f g : Nat → Option K} {m k : Nat} (hfg : ∀ q, 1 ≤ q → q ≤ m → q ≠ k → g q = f q)
    (h : Hole cmp f m k) : Hole cmp g m k := by
  obtain ⟨h1, h2⟩ := h
  constructor
  · intro j hj2 hjm hjk hjp
    exact LeP.congr (hfg _ (by omega) (by omega) hjp) (hfg _ (by omega) hjm hjk) (h1 j hj2 hjm hjk hjp)
  · intro j hj2 hjm hjp hk2
    exact LeP.congr (hfg _ (by omega) (by omega) (by omega)) (hfg _ (by omega) hjm (by omega)) (h2 j hj2 hjm hjp hk2)

theorem downhole_congr {f g : Nat → Option K} {m k : Nat} (hfg : ∀ q, 1 ≤ q → q ≤ m → q ≠ k → g q = f q)
    (hk : k = 1 ∨ m < k) (h : DownHole cmp f m k) : DownHole cmp g m k := by
  obtain ⟨h1, h2⟩ := h
  constructor
  · intro j hj2 hjm hjp
    refine LeP.congr (hfg _ (by omega) (by omega) hjp) (hfg _ (by omega) hjm ?_) (h1 j hj2 hjm hjp)
    rcases hk with hk | hk <;> omega
  · intro j hj2 hjm hjp hk2
    rcases hk with hk | hk <;> omega

theorem ord_downhole (hc : LawfulCmp cmp) {f : Nat → Option K} {m k : Nat} (h : Ord cmp f m) :
    DownHole cmp f m k :=
  ⟨fun j hj2 hjm _ => h j hj2 hjm, (ord_hole (k := k) h hc).2⟩

end AlgoVerif.C05.Hole
