import AlgoVerif.Proofs.C13Min
import AlgoVerif.Proofs.C13Minimal
/-! C13: the partition-refinement loop of `Minimize`: whenever it returns, the partition is stable. -/
namespace AlgoVerif.C13
open AlgoVerif AlgoVerif.C13.Spec

/-! ### signatures (`BuildGroupTrans`) -/

/-- `Rep` as an option: `none` for "not in any group" -/
def repO (P : Partition) (t : Int) : Option Int := if P.rep t = -1 then none else some (P.rep t)

theorem buildGroupTrans_eq (P : Partition) (d : DFA) (G : List Int) :
    P.buildGroupTrans d G = G.foldl (fun gt s => aput s (sigOf P d s) gt) [] := rfl

theorem asorted_foldl_aput_sig (P : Partition) (l : List (Int × Int)) (acc : List (Int × Int)) (h : ASorted acc) :
    ASorted (l.foldl (fun gs e => if P.rep e.2 ≠ -1 then aput e.1 (P.rep e.2) gs else gs) acc) := by
  induction l generalizing acc with
  | nil => exact h
  | cons e l ih =>
    simp only [List.foldl_cons]
    apply ih
    split
    · exact asorted_aput h
    · exact h

theorem sigOf_sorted (P : Partition) (d : DFA) (s : Int) : ASorted (sigOf P d s) := by
  simp only [sigOf]
  cases aget s d.trans with
  | none => simp [ASorted]
  | some v => exact asorted_foldl_aput_sig P v [] (by simp [ASorted])

theorem aget_foldl_sig (P : Partition) (l : List (Int × Int)) (hl : ASorted l) (acc : List (Int × Int)) (a : Int) :
    aget a (l.foldl (fun gs e => if P.rep e.2 ≠ -1 then aput e.1 (P.rep e.2) gs else gs) acc) =
      match aget a l with
      | some t => (match repO P t with | some r => some r | none => aget a acc)
      | none => aget a acc := by
  induction l generalizing acc with
  | nil => simp [aget]
  | cons e l ih =>
    obtain ⟨b, t⟩ := e
    simp only [ASorted, List.map_cons, List.pairwise_cons] at hl
    simp only [List.foldl_cons]
    rw [ih hl.2]
    simp only [aget]
    by_cases hab : a = b
    · subst hab
      -- `a` does not occur later
      have hnone : aget a l = none := by
        cases hg : aget a l with
        | none => rfl
        | some t' =>
          have := hl.1 a (by simp; exact ⟨t', aget_mem hg⟩); omega
      simp only [hnone, if_true]
      simp only [repO]
      by_cases hr : P.rep t = -1
      · simp [hr]
      · simp [hr, aget_aput_self]
    · simp only [hab, if_false]
      cases aget a l with
      | none =>
        simp only
        split
        · exact aget_aput_ne _ _ hab
        · rfl
      | some t' =>
        simp only
        cases repO P t' with
        | some r => rfl
        | none =>
          simp only
          split
          · exact aget_aput_ne _ _ hab
          · rfl

theorem aget_sigOf (P : Partition) (d : DFA) (hwf : d.WF) (s a : Int) :
    aget a (sigOf P d s) = (d.δ s a).bind (repO P) := by
  simp only [sigOf, DFA.δ]
  cases hs : aget s d.trans with
  | none => simp [aget]
  | some v =>
    simp only
    rw [aget_foldl_sig P v (hwf.2 _ (aget_mem hs))]
    cases aget a v with
    | none => simp [aget]
    | some t => simp only [Option.bind_some]; cases repO P t <;> simp [aget]

/-- two states have the same signature with respect to `P` -/
def SigEq (P : Partition) (d : DFA) (s t : Int) : Prop := ∀ a, (d.δ s a).bind (repO P) = (d.δ t a).bind (repO P)

theorem aEqual_iff {σ τ : List (Int × Int)} (hσ : ASorted σ) (hτ : ASorted τ) :
    aEqual (fun (a b : Int) => a == b) σ τ = true ↔ ∀ a, aget a σ = aget a τ := by
  simp only [aEqual, Bool.and_eq_true, List.all_eq_true]
  constructor
  · rintro ⟨h1, h2⟩ a
    cases hs : aget a σ with
    | some v =>
      have := h1 _ (aget_mem hs)
      simp only at this
      cases ht : aget a τ with
      | none => rw [ht] at this; simp at this
      | some v' => rw [ht] at this; simp at this; rw [this]
    | none =>
      cases ht : aget a τ with
      | none => rfl
      | some v' =>
        have := h2 _ (aget_mem ht)
        simp only at this
        rw [hs] at this; simp at this
  · intro h
    constructor
    · intro kv hkv
      obtain ⟨k, v⟩ := kv
      have := (mem_iff_aget hσ k v).1 hkv
      simp only
      rw [← h k, this]; simp
    · intro kv hkv
      obtain ⟨k, v⟩ := kv
      have := (mem_iff_aget hτ k v).1 hkv
      simp only
      rw [h k, this]; simp

theorem sigEq_iff (P : Partition) (d : DFA) (hwf : d.WF) (s t : Int) :
    aEqual (fun (a b : Int) => a == b) (sigOf P d s) (sigOf P d t) = true ↔ SigEq P d s t := by
  rw [aEqual_iff (sigOf_sorted P d s) (sigOf_sorted P d t)]
  simp only [aget_sigOf P d hwf, SigEq]

/-! ### the pairs built for one group -/

theorem foldl_aput_facts {β : Type} (f : Int → β) (l : List Int) (acc : List (Int × β)) (hacc : ASorted acc) :
    ASorted (l.foldl (fun gt s => aput s (f s) gt) acc) ∧
    (∀ s ∈ l, aget s (l.foldl (fun gt s => aput s (f s) gt) acc) = some (f s)) ∧
    (∀ s, s ∉ l → aget s (l.foldl (fun gt s => aput s (f s) gt) acc) = aget s acc) := by
  induction l generalizing acc with
  | nil => simp; exact hacc
  | cons x l ih =>
    simp only [List.foldl_cons]
    obtain ⟨h1, h2, h3⟩ := ih (aput x (f x) acc) (asorted_aput hacc)
    refine ⟨h1, ?_, ?_⟩
    · intro s hs
      simp at hs
      by_cases hsl : s ∈ l
      · exact h2 s hsl
      · rcases hs with rfl | hs
        · rw [h3 s hsl, aget_aput_self]
        · exact absurd hs hsl
    · intro s hs
      simp at hs
      rw [h3 s hs.2, aget_aput_ne _ _ hs.1]

/-- the pairs of a group are exactly `(s, sigOf s)` for its members, with distinct keys -/
theorem pairs_facts (P : Partition) (d : DFA) (G : List Int) :
    ASorted (P.buildGroupTrans d G) ∧
    (∀ s σ, (s, σ) ∈ P.buildGroupTrans d G ↔ s ∈ G ∧ σ = sigOf P d s) := by
  rw [buildGroupTrans_eq]
  obtain ⟨h1, h2, h3⟩ := foldl_aput_facts (sigOf P d) G [] (by simp [ASorted])
  refine ⟨h1, ?_⟩
  intro s σ
  rw [mem_iff_aget h1]
  constructor
  · intro h
    by_cases hs : s ∈ G
    · rw [h2 s hs] at h; injection h with h; exact ⟨hs, h.symm⟩
    · rw [h3 s hs] at h; simp [aget] at h
  · rintro ⟨hs, rfl⟩; exact h2 s hs

/-! ### `collectSame` and `Partition.add` -/

theorem mem_collectSame (σ : List (Int × Int)) (rest : List (Int × List (Int × Int))) (H : List Int) (x : Int) :
    x ∈ collectSame σ rest H ↔ x ∈ H ∨ ∃ τ, (x, τ) ∈ rest ∧ aEqual (fun (a b : Int) => a == b) σ τ = true := by
  simp only [collectSame]
  induction rest generalizing H with
  | nil => simp
  | cons p rest ih =>
    simp only [List.foldl_cons]
    rw [ih]
    obtain ⟨t, τ⟩ := p
    simp only [List.mem_cons]
    by_cases hc : (aEqual (fun (a b : Int) => a == b) σ τ && !H.contains t) = true
    · simp only [hc, if_true, mem_sins]
      simp at hc
      constructor
      · rintro ((h | h) | ⟨τ', h1, h2⟩)
        · right; exact ⟨τ, Or.inl (by rw [h]), hc.1⟩
        · left; exact h
        · right; exact ⟨τ', Or.inr h1, h2⟩
      · rintro (h | ⟨τ', h1 | h1, h2⟩)
        · left; right; exact h
        · injection h1 with e1 e2; left; left; exact e1
        · right; exact ⟨τ', h1, h2⟩
    · simp only [hc]
      constructor
      · rintro (h | ⟨τ', h1, h2⟩)
        · left; exact h
        · right; exact ⟨τ', Or.inr h1, h2⟩
      · rintro (h | ⟨τ', h1 | h1, h2⟩)
        · left; exact h
        · injection h1 with e1 e2; subst e1; subst e2
          simp at hc
          left; simpa using hc h2
        · right; exact ⟨τ', h1, h2⟩

theorem collectSame_sorted (σ : List (Int × Int)) (rest : List (Int × List (Int × Int))) (H : List Int) (h : SSorted H) :
    SSorted (collectSame σ rest H) := by
  simp only [collectSame]
  induction rest generalizing H with
  | nil => exact h
  | cons p rest ih =>
    simp only [List.foldl_cons]
    apply ih
    split
    · exact ssorted_sins h
    · exact h

/-! ### well-formed partitions -/

structure PWF (P : Partition) : Prop where
  disj : P.groups.Pairwise (fun G H => ∀ x, x ∈ G.1 → x ∉ H.1)
  reps : (P.groups.map (·.2)).Pairwise (· < ·)
  rng : ∀ G ∈ P.groups, 0 ≤ G.2 ∧ G.2 < P.nextRep
  nn : 0 ≤ P.nextRep
  sorted : ∀ G ∈ P.groups, SSorted G.1

theorem rep_of_mem_aux (groups : List (List Int × Int))
    (hd : groups.Pairwise (fun G H => ∀ x, x ∈ G.1 → x ∉ H.1)) (G : List Int × Int) (hG : G ∈ groups)
    (s : Int) (hs : s ∈ G.1) : groups.find? (fun g => g.1.contains s) = some G := by
  induction groups with
  | nil => simp at hG
  | cons g groups ih =>
    simp only [List.pairwise_cons] at hd
    simp only [List.find?]
    by_cases hc : g.1.contains s = true
    · simp only [hc]
      simp at hG
      rcases hG with rfl | hG
      · rfl
      · exact absurd hs (hd.1 G hG s (by simpa using hc))
    · simp only [hc]
      simp at hG
      rcases hG with rfl | hG
      · exact absurd (by simpa using hs) hc
      · exact ih hd.2 hG

theorem PWF.rep_of_mem {P : Partition} (h : PWF P) {G : List Int × Int} (hG : G ∈ P.groups) {s : Int} (hs : s ∈ G.1) :
    P.rep s = G.2 := by
  simp only [Partition.rep, rep_of_mem_aux P.groups h.disj G hG s hs]

theorem rep_eq_neg_of_not_mem (P : Partition) (s : Int) (h : ∀ G ∈ P.groups, s ∉ G.1) : P.rep s = -1 := by
  have : P.groups.find? (fun g => g.1.contains s) = none := by
    rw [List.find?_eq_none]
    intro G hG; simpa using h G hG
  simp only [Partition.rep, this]

theorem rep_mem_of_ne (P : Partition) (s : Int) (h : P.rep s ≠ -1) : ∃ G ∈ P.groups, s ∈ G.1 ∧ P.rep s = G.2 := by
  unfold Partition.rep at h ⊢
  cases hf : P.groups.find? (fun g => g.1.contains s) with
  | none => rw [hf] at h; exact absurd rfl h
  | some g =>
    have := List.find?_some hf
    exact ⟨g, List.mem_of_find?_eq_some hf, by simpa using this, rfl⟩

theorem PWF.rep_ne {P : Partition} (h : PWF P) {G : List Int × Int} (hG : G ∈ P.groups) {s : Int} (hs : s ∈ G.1) :
    P.rep s ≠ -1 := by
  rw [h.rep_of_mem hG hs]; have := (h.rng G hG).1; omega

/-- two groups with the same representative are the same group -/
theorem PWF.rep_inj {P : Partition} (h : PWF P) {G H : List Int × Int} (hG : G ∈ P.groups) (hH : H ∈ P.groups)
    (e : G.2 = H.2) : G = H :=
  pairwise_lt_inj (·.2) P.groups h.reps hG hH e

theorem PWF.empty : PWF Partition.empty :=
  ⟨by simp [Partition.empty], by simp [Partition.empty], by simp [Partition.empty], by simp [Partition.empty],
   by simp [Partition.empty]⟩

theorem PWF.add {P : Partition} (h : PWF P) {H : List Int} (hH : SSorted H)
    (hdis : ∀ G ∈ P.groups, ∀ x ∈ G.1, x ∉ H) :
    PWF (P.add H) ∧ (∀ G ∈ (P.add H).groups, G ∈ P.groups ∨ G = (H, P.nextRep)) ∧
    (∀ G ∈ P.groups, G ∈ (P.add H).groups) ∧ (∀ x ∈ H, ∃ G ∈ (P.add H).groups, x ∈ G.1) ∧
    (P.add H).nextRep = P.nextRep + 1 := by
  by_cases hc : P.groups.any (fun g => setEq g.1 H) = true
  · have hadd : P.add H = ⟨P.groups, P.nextRep + 1⟩ := by simp only [Partition.add, hc, if_true]
    rw [hadd]
    refine ⟨⟨h.disj, h.reps, fun G hG => ⟨(h.rng G hG).1, ?_⟩, ?_, h.sorted⟩,
      fun G hG => Or.inl hG, fun G hG => hG, ?_, rfl⟩
    · show G.2 < P.nextRep + 1
      have := (h.rng G hG).2; omega
    · show 0 ≤ P.nextRep + 1
      have := h.nn; omega
    · intro x hx
      simp only [List.any_eq_true] at hc
      obtain ⟨g, hg, hgeq⟩ := hc
      have := (setEq_iff (h.sorted g hg) hH).1 hgeq
      exact ⟨g, hg, by rw [this]; exact hx⟩
  · have hadd : P.add H = ⟨P.groups ++ [(H, P.nextRep)], P.nextRep + 1⟩ := by
      simp only [Partition.add, hc]; rfl
    rw [hadd]
    refine ⟨⟨?_, ?_, ?_, ?_, ?_⟩, ?_, ?_, ?_, rfl⟩
    · show (P.groups ++ [(H, P.nextRep)]).Pairwise _
      rw [List.pairwise_append]
      refine ⟨h.disj, by simp, ?_⟩
      intro G hG K hK
      simp at hK; subst hK
      exact hdis G hG
    · show ((P.groups ++ [(H, P.nextRep)]).map (·.2)).Pairwise _
      simp only [List.map_append, List.map_cons, List.map_nil]
      rw [List.pairwise_append]
      refine ⟨h.reps, by simp, ?_⟩
      intro a ha b hb
      simp at hb; subst hb
      simp at ha
      obtain ⟨l, hl⟩ := ha
      exact (h.rng _ hl).2
    · intro G hG
      have hG' : G ∈ P.groups ∨ G = (H, P.nextRep) := by simpa using hG
      show 0 ≤ G.2 ∧ G.2 < P.nextRep + 1
      rcases hG' with hG' | rfl
      · have := h.rng G hG'; omega
      · have := h.nn; simp; omega
    · show 0 ≤ P.nextRep + 1
      have := h.nn; omega
    · intro G hG
      have hG' : G ∈ P.groups ∨ G = (H, P.nextRep) := by simpa using hG
      rcases hG' with hG' | rfl
      · exact h.sorted G hG'
      · exact hH
    · intro G hG; simpa using hG
    · intro G hG; show G ∈ P.groups ++ [(H, P.nextRep)]; simp [hG]
    · intro x hx; exact ⟨(H, P.nextRep), by show _ ∈ P.groups ++ [(H, P.nextRep)]; simp, hx⟩

/-! ### one group: `PartitionAndAddGroups` -/

theorem SigEq.symm {P : Partition} {d : DFA} {s t : Int} (h : SigEq P d s t) : SigEq P d t s := fun a => (h a).symm
theorem SigEq.trans {P : Partition} {d : DFA} {s t u : Int} (h1 : SigEq P d s t) (h2 : SigEq P d t u) : SigEq P d s u :=
  fun a => (h1 a).trans (h2 a)

/-- the partition under construction refines the already processed groups `done` of `P` -/
structure RInv (P : Partition) (d : DFA) (done : List (List Int × Int)) (Pn : Partition) : Prop where
  wf : PWF Pn
  inside : ∀ H ∈ Pn.groups, ∃ G ∈ done, ∀ x ∈ H.1, x ∈ G.1
  covered : ∀ G ∈ done, ∀ s ∈ G.1, ∃ H ∈ Pn.groups, s ∈ H.1
  sig : ∀ H ∈ Pn.groups, ∀ s ∈ H.1, ∀ t ∈ H.1, SigEq P d s t
  nr : Pn.nextRep = (Pn.groups.length : Int)
  ne : ∀ H ∈ Pn.groups, H.1 ≠ []
  /-- members of one old group with the same signature end up in the same new group -/
  sep : ∀ H ∈ Pn.groups, ∀ K ∈ Pn.groups, ∀ x ∈ H.1, ∀ y ∈ K.1, SigEq P d x y →
    (∃ G ∈ done, x ∈ G.1 ∧ y ∈ G.1) → H = K

/-- a group created while processing the group `G` -/
structure NewGrp (P : Partition) (d : DFA) (G : List Int) (pairs seen : List (Int × List (Int × Int))) (H : List Int) : Prop where
  sub : ∀ x ∈ H, x ∈ G
  seenMem : ∃ pr ∈ seen, pr.1 ∈ H
  closed : ∀ pr ∈ pairs.drop 1, (∃ s' ∈ H, SigEq P d s' pr.1) → pr.1 ∈ H

/-- invariant of the loop over the pairs of one group -/
structure IInv (P : Partition) (d : DFA) (done : List (List Int × Int)) (Pn : Partition) (G : List Int) (pairs seen : List (Int × List (Int × Int)))
    (p : Partition) : Prop where
  wf : PWF p
  old : ∀ H ∈ Pn.groups, H ∈ p.groups
  grp : ∀ H ∈ p.groups, H ∈ Pn.groups ∨ NewGrp P d G pairs seen H.1
  placed : ∀ pr ∈ seen, ∃ H ∈ p.groups, pr.1 ∈ H.1
  sig : ∀ H ∈ p.groups, ∀ s ∈ H.1, ∀ t ∈ H.1, SigEq P d s t
  nr : p.nextRep = (p.groups.length : Int)
  ne : ∀ H ∈ p.groups, H.1 ≠ []
  app : ∃ news, p.groups = Pn.groups ++ news ∧ (seen ≠ [] → news ≠ [])
  sep : ∀ H ∈ p.groups, ∀ K ∈ p.groups, ∀ x ∈ H.1, ∀ y ∈ K.1, SigEq P d x y →
    ((∃ G' ∈ done, x ∈ G'.1 ∧ y ∈ G'.1) ∨ (x ∈ G ∧ y ∈ G)) → H = K

theorem Partition.add_of_fresh (p : Partition) (H : List Int) (h : ∀ g ∈ p.groups, setEq g.1 H = false) :
    p.add H = ⟨p.groups ++ [(H, p.nextRep)], p.nextRep + 1⟩ := by
  have : p.groups.any (fun g => setEq g.1 H) = false := by
    rw [List.any_eq_false]; intro g hg; simp [h g hg]
  simp only [Partition.add, this]; rfl

theorem mem_drop_one_of_seen {α : Type} (seen rest : List α) (x : α) (h : seen ≠ []) :
    x ∈ (seen ++ x :: rest).drop 1 := by
  cases seen with
  | nil => exact absurd rfl h
  | cons a seen => simp

theorem paag_loop (P : Partition) (d : DFA) (hwf : d.WF) (done : List (List Int × Int)) (Pn : Partition)
    (hR : RInv P d done Pn) (G : List Int) (hGd : ∀ G' ∈ done, ∀ x ∈ G'.1, x ∉ G)
    (pairs : List (Int × List (Int × Int))) (hpairs : ∀ s σ, (s, σ) ∈ pairs → s ∈ G ∧ σ = sigOf P d s)
    (rest seen : List (Int × List (Int × Int))) (hsplit : pairs = seen ++ rest) (p : Partition)
    (hI : IInv P d done Pn G pairs seen p) :
    IInv P d done Pn G pairs pairs (rest.foldl (fun p pr =>
      if p.rep pr.1 = -1 then p.add (collectSame pr.2 (pairs.drop 1) (mkSet [pr.1])) else p) p) := by
  induction rest generalizing seen p with
  | nil => simp at hsplit; subst hsplit; simpa using hI
  | cons pr rest ih =>
    obtain ⟨s, σ⟩ := pr
    simp only [List.foldl_cons]
    have hsplit' : pairs = (seen ++ [(s, σ)]) ++ rest := by rw [hsplit]; simp
    apply ih (seen ++ [(s, σ)]) hsplit'
    have hsmem : (s, σ) ∈ pairs := by rw [hsplit]; simp
    obtain ⟨hsG, hσ⟩ := hpairs s σ hsmem
    -- growing `seen` keeps the "new group" property
    have hmono : ∀ H, NewGrp P d G pairs seen H → NewGrp P d G pairs (seen ++ [(s, σ)]) H := by
      intro H hN
      obtain ⟨pr0, h1, h2⟩ := hN.seenMem
      exact ⟨hN.sub, ⟨pr0, by simp [h1], h2⟩, hN.closed⟩
    by_cases hrep : p.rep s = -1
    · simp only [hrep, if_true]
      generalize hH' : collectSame σ (pairs.drop 1) (mkSet [s]) = H'
      have hmem : ∀ x, x ∈ H' ↔ x = s ∨ ∃ τ, (x, τ) ∈ pairs.drop 1 ∧ SigEq P d s x := by
        intro x
        rw [← hH', mem_collectSame]
        simp only [mem_mkSet, List.mem_cons, List.not_mem_nil, or_false]
        constructor
        · rintro (h | ⟨τ, h1, h2⟩)
          · left; exact h
          · right
            obtain ⟨_, hτ⟩ := hpairs x τ (List.mem_of_mem_drop h1)
            rw [hσ, hτ, sigEq_iff P d hwf] at h2
            exact ⟨τ, h1, h2⟩
        · rintro (h | ⟨τ, h1, h2⟩)
          · left; exact h
          · right
            obtain ⟨_, hτ⟩ := hpairs x τ (List.mem_of_mem_drop h1)
            exact ⟨τ, h1, by rw [hσ, hτ, sigEq_iff P d hwf]; exact h2⟩
      have hsig : ∀ x ∈ H', SigEq P d s x := by
        intro x hx
        rcases (hmem x).1 hx with rfl | ⟨_, _, h⟩
        · exact fun _ => rfl
        · exact h
      have hsubG : ∀ x ∈ H', x ∈ G := by
        intro x hx
        rcases (hmem x).1 hx with rfl | ⟨τ, h1, _⟩
        · exact hsG
        · exact (hpairs x τ (List.mem_of_mem_drop h1)).1
      have hH's : SSorted H' := by rw [← hH']; exact collectSame_sorted _ _ _ (ssorted_mkSet _)
      -- `s` is in no group yet
      have hsno : ∀ K ∈ p.groups, s ∉ K.1 := fun K hK hsK => hI.wf.rep_ne hK hsK hrep
      have hdis : ∀ K ∈ p.groups, ∀ x ∈ K.1, x ∉ H' := by
        intro K hK x hxK hxH
        rcases hI.grp K hK with hold | hnew
        · obtain ⟨G', hG', hsub⟩ := hR.inside K hold
          exact hGd G' hG' x (hsub x hxK) (hsubG x hxH)
        · -- a group made from an earlier pair: `s` would have been put into it
          obtain ⟨pr0, hpr0, _⟩ := hnew.seenMem
          have hne : seen ≠ [] := by intro h; rw [h] at hpr0; simp at hpr0
          have hsd : (s, σ) ∈ pairs.drop 1 := by rw [hsplit]; exact mem_drop_one_of_seen seen rest (s, σ) hne
          have : s ∈ K.1 := hnew.closed (s, σ) hsd ⟨x, hxK, (hsig x hxH).symm⟩
          exact hsno K hK this
      obtain ⟨a1, a2, a3, a4, _⟩ := hI.wf.add hH's hdis
      have hsH' : s ∈ H' := (hmem s).2 (Or.inl rfl)
      have hadd : p.add H' = ⟨p.groups ++ [(H', p.nextRep)], p.nextRep + 1⟩ := by
        apply Partition.add_of_fresh
        intro g hg
        cases hse : setEq g.1 H' with
        | false => rfl
        | true =>
          have := (setEq_iff (hI.wf.sorted g hg) hH's).1 hse
          exact absurd (this ▸ hsH') (hsno g hg)
      have hnewH : NewGrp P d G pairs (seen ++ [(s, σ)]) H' := by
        refine ⟨hsubG, ⟨(s, σ), by simp, (hmem s).2 (Or.inl rfl)⟩, ?_⟩
        intro pr hpr ⟨s', hs', hse⟩
        obtain ⟨x, τ⟩ := pr
        exact (hmem x).2 (Or.inr ⟨τ, hpr, (hsig s' hs').trans hse⟩)
      refine ⟨a1, fun H hH => a3 H (hI.old H hH), ?_, ?_, ?_, ?_, ?_, ?_, ?_⟩
      · intro H hH
        rcases a2 H hH with h | rfl
        · rcases hI.grp H h with h' | h'
          · left; exact h'
          · right; exact hmono _ h'
        · right; exact hnewH
      · intro pr hpr
        simp at hpr
        rcases hpr with hpr | rfl
        · obtain ⟨H, hH, hm⟩ := hI.placed pr hpr
          exact ⟨H, a3 H hH, hm⟩
        · exact a4 s ((hmem s).2 (Or.inl rfl))
      · intro H hH x hx y hy
        rcases a2 H hH with h | rfl
        · exact hI.sig H h x hx y hy
        · exact (hsig x hx).symm.trans (hsig y hy)
      · rw [hadd]; simp only [List.length_append, List.length_cons, List.length_nil]
        have := hI.nr; omega
      · intro H hH
        rcases a2 H hH with h | rfl
        · exact hI.ne H h
        · intro he; simp only at he; rw [he] at hsH'; simp at hsH'
      · obtain ⟨news, hn1, _⟩ := hI.app
        exact ⟨news ++ [(H', p.nextRep)], by rw [hadd]; simp [hn1], fun _ => by simp⟩
      · -- an existing group cannot hold a state with the signature of `s` from the same old group
        have hnew_old : ∀ K ∈ p.groups, ∀ x ∈ K.1, ∀ y ∈ H', SigEq P d x y →
            ((∃ G' ∈ done, x ∈ G'.1 ∧ y ∈ G'.1) ∨ (x ∈ G ∧ y ∈ G)) → False := by
          intro K hK x hx y hy hxy hsame
          have hyG := hsubG y hy
          have hxG : x ∈ G := by
            rcases hsame with ⟨G', hG', _, hyG'⟩ | ⟨h, _⟩
            · exact absurd hyG (hGd G' hG' y hyG')
            · exact h
          rcases hI.grp K hK with hold | hnew
          · obtain ⟨G', hG', hsub⟩ := hR.inside K hold
            exact hGd G' hG' x (hsub x hx) hxG
          · obtain ⟨pr0, hpr0, _⟩ := hnew.seenMem
            have hne : seen ≠ [] := by intro h; rw [h] at hpr0; simp at hpr0
            have hsd : (s, σ) ∈ pairs.drop 1 := by rw [hsplit]; exact mem_drop_one_of_seen seen rest (s, σ) hne
            exact hsno K hK (hnew.closed (s, σ) hsd ⟨x, hx, hxy.trans (hsig y hy).symm⟩)
        intro H hH K hK x hx y hy hxy hsame
        rcases a2 H hH with h1 | rfl <;> rcases a2 K hK with h2 | rfl
        · exact hI.sep H h1 K h2 x hx y hy hxy hsame
        · exact (hnew_old H h1 x hx y hy hxy hsame).elim
        · refine (hnew_old K h2 y hy x hx hxy.symm ?_).elim
          rcases hsame with ⟨G', hG', a, b⟩ | ⟨a, b⟩
          · exact Or.inl ⟨G', hG', b, a⟩
          · exact Or.inr ⟨b, a⟩
        · rfl
    · simp only [hrep, if_false]
      refine ⟨hI.wf, hI.old, ?_, ?_, hI.sig, hI.nr, hI.ne, ?_, hI.sep⟩
      rotate_left 2
      · obtain ⟨news, hn1, hn2⟩ := hI.app
        refine ⟨news, hn1, fun _ hnil => ?_⟩
        -- with no new group yet `s` would be in no group at all
        apply hrep
        apply rep_eq_neg_of_not_mem
        intro K hK hsK
        rw [hn1, hnil, List.append_nil] at hK
        obtain ⟨G', hG', hsub⟩ := hR.inside K hK
        exact hGd G' hG' s (hsub s hsK) hsG
      · intro H hH
        rcases hI.grp H hH with h' | h'
        · left; exact h'
        · right; exact hmono _ h'
      · intro pr hpr
        simp at hpr
        rcases hpr with hpr | rfl
        · exact hI.placed pr hpr
        · obtain ⟨K, hK, hsK, _⟩ := rep_mem_of_ne p s hrep
          exact ⟨K, hK, hsK⟩

theorem paag_spec (P : Partition) (d : DFA) (hwf : d.WF) (done : List (List Int × Int)) (Pn : Partition)
    (hR : RInv P d done Pn) (G : List Int × Int) (hGd : ∀ G' ∈ done, ∀ x ∈ G'.1, x ∉ G.1) (hGs : SSorted G.1) :
    RInv P d (done ++ [G]) (Pn.partitionAndAddGroups (P.buildGroupTrans d G.1)) ∧
    ∃ news, (Pn.partitionAndAddGroups (P.buildGroupTrans d G.1)).groups = Pn.groups ++ news ∧
      (G.1 ≠ [] → news ≠ []) ∧ (G.1 ≠ [] → news.length = 1 → ∀ H ∈ news, H.1 = G.1) := by
  obtain ⟨_, hp2⟩ := pairs_facts P d G.1
  have hpairs : ∀ s σ, (s, σ) ∈ P.buildGroupTrans d G.1 → s ∈ G.1 ∧ σ = sigOf P d s := fun s σ h => (hp2 s σ).1 h
  have h0 : IInv P d done Pn G.1 (P.buildGroupTrans d G.1) [] Pn :=
    ⟨hR.wf, fun H hH => hH, fun H hH => Or.inl hH, by simp, hR.sig, hR.nr, hR.ne, ⟨[], by simp, fun h => absurd rfl h⟩, by
      intro H hH K hK x hx y hy hxy hsame
      rcases hsame with h | ⟨hxG, _⟩
      · exact hR.sep H hH K hK x hx y hy hxy h
      · obtain ⟨G', hG', hsub⟩ := hR.inside H hH
        exact absurd hxG (hGd G' hG' x (hsub x hx))⟩
  have hI := paag_loop P d hwf done Pn hR G.1 hGd (P.buildGroupTrans d G.1) hpairs (P.buildGroupTrans d G.1) [] (by simp) Pn h0
  have heq : Pn.partitionAndAddGroups (P.buildGroupTrans d G.1) = (P.buildGroupTrans d G.1).foldl (fun p pr =>
      if p.rep pr.1 = -1 then p.add (collectSame pr.2 ((P.buildGroupTrans d G.1).drop 1) (mkSet [pr.1])) else p) Pn := rfl
  rw [heq]
  generalize (P.buildGroupTrans d G.1).foldl (fun p pr =>
      if p.rep pr.1 = -1 then p.add (collectSame pr.2 ((P.buildGroupTrans d G.1).drop 1) (mkSet [pr.1])) else p) Pn = res at hI
  have hplaced : ∀ s ∈ G.1, ∃ H ∈ res.groups, s ∈ H.1 :=
    fun s hs => hI.placed (s, sigOf P d s) ((hp2 s _).2 ⟨hs, rfl⟩)
  refine ⟨⟨hI.wf, ?_, ?_, hI.sig, hI.nr, hI.ne, ?_⟩, ?_⟩
  · intro H hH
    rcases hI.grp H hH with h | h
    · obtain ⟨G', hG', hs⟩ := hR.inside H h
      exact ⟨G', by simp [hG'], hs⟩
    · exact ⟨G, by simp, h.sub⟩
  · intro G' hG' s hs
    simp at hG'
    rcases hG' with hG' | rfl
    · obtain ⟨H, hH, hm⟩ := hR.covered G' hG' s hs
      exact ⟨H, hI.old H hH, hm⟩
    · exact hplaced s hs
  · intro H hH K hK x hx y hy hxy ⟨G', hG', a, b⟩
    apply hI.sep H hH K hK x hx y hy hxy
    simp at hG'
    rcases hG' with hG' | rfl
    · exact Or.inl ⟨G', hG', a, b⟩
    · exact Or.inr ⟨a, b⟩
  · obtain ⟨news, hn1, hn2⟩ := hI.app
    -- a member of `G` is in no group that was there before
    have hnotold : ∀ s ∈ G.1, ∀ K ∈ Pn.groups, s ∉ K.1 := by
      intro s hs K hK hsK
      obtain ⟨G', hG', hsub⟩ := hR.inside K hK
      exact hGd G' hG' s (hsub s hsK) hs
    refine ⟨news, hn1, ?_, ?_⟩
    · intro hne
      apply hn2
      intro hnil
      obtain ⟨x, hx⟩ := List.exists_mem_of_ne_nil _ hne
      have := (hp2 x (sigOf P d x)).2 ⟨hx, rfl⟩
      rw [hnil] at this; simp at this
    · intro hG1 hlen H hH
      have hHres : H ∈ res.groups := by rw [hn1]; simp [hH]
      have hall : ∀ s ∈ G.1, s ∈ H.1 := by
        intro s hs
        obtain ⟨K, hK, hsK⟩ := hplaced s hs
        rw [hn1, List.mem_append] at hK
        rcases hK with hK | hK
        · exact absurd hsK (hnotold s hs K hK)
        · match news, hlen, hH, hK with
          | [H0], _, hH, hK => simp at hH hK; rw [hH, ← hK]; exact hsK
      have hsub : ∀ x ∈ H.1, x ∈ G.1 := by
        rcases hI.grp H hHres with h | h
        · obtain ⟨z, hz⟩ := List.exists_mem_of_ne_nil _ hG1
          exact absurd (hall z hz) (hnotold z hz H h)
        · exact h.sub
      exact ssorted_ext (hI.wf.sorted H hHres) hGs (fun x => ⟨hsub x, hall x⟩)

/-! ### one round: `refine` -/

theorem refine_spec' (P : Partition) (d : DFA) (hwf : d.WF) (hP : PWF P) :
    RInv P d P.groups (refine d P) ∧
    ((∀ G ∈ P.groups, G.1 ≠ []) → P.groups.length ≤ (refine d P).groups.length ∧
      ((refine d P).groups.length = P.groups.length → (refine d P).groups.map (·.1) = P.groups.map (·.1))) := by
  have gen : ∀ (todo done : List (List Int × Int)) (Pn : Partition), P.groups = done ++ todo → RInv P d done Pn →
      RInv P d P.groups (todo.foldl (fun Pn G => Pn.partitionAndAddGroups (P.buildGroupTrans d G.1)) Pn) ∧
      ((∀ G ∈ todo, G.1 ≠ []) → ∃ newsAll,
        (todo.foldl (fun Pn G => Pn.partitionAndAddGroups (P.buildGroupTrans d G.1)) Pn).groups = Pn.groups ++ newsAll ∧
        todo.length ≤ newsAll.length ∧ (newsAll.length = todo.length → newsAll.map (·.1) = todo.map (·.1))) := by
    intro todo
    induction todo with
    | nil =>
      intro done Pn hs hR; simp at hs; rw [hs]
      exact ⟨by simpa using hR, fun _ => ⟨[], by simp, by simp, by simp⟩⟩
    | cons G todo ih =>
      intro done Pn hs hR
      simp only [List.foldl_cons]
      have hstep := paag_spec P d hwf done Pn hR G (by
        intro G' hG' x hx
        have hd := hP.disj
        rw [hs, List.pairwise_append] at hd
        exact hd.2.2 G' hG' G (by simp) x hx) (hP.sorted G (by rw [hs]; simp))
      obtain ⟨hR', news, hn1, hn2, hn3⟩ := hstep
      obtain ⟨hfin, hcnt⟩ := ih (done ++ [G]) _ (by rw [hs]; simp) hR'
      refine ⟨hfin, ?_⟩
      intro hne
      obtain ⟨rest, hr1, hr2, hr3⟩ := hcnt (fun G' hG' => hne G' (by simp [hG']))
      have hGne := hne G (by simp)
      have hnews := hn2 hGne
      have hpos : 1 ≤ news.length := by
        cases news with
        | nil => exact absurd rfl hnews
        | cons _ _ => simp
      refine ⟨news ++ rest, by rw [hr1, hn1]; simp, by simp; omega, ?_⟩
      intro hlen
      simp only [List.length_append, List.length_cons] at hlen
      have h1 : news.length = 1 := by omega
      have h2 : rest.length = todo.length := by omega
      simp only [List.map_append, List.map_cons]
      rw [hr3 h2]
      match news, h1, hn3 hGne h1 with
      | [H0], _, hH => simp [hH H0 (by simp)]
  have h0 : RInv P d [] Partition.empty := ⟨PWF.empty, by simp [Partition.empty], by simp, by simp [Partition.empty],
    by simp [Partition.empty], by simp [Partition.empty], by simp [Partition.empty]⟩
  obtain ⟨g1, g2⟩ := gen P.groups [] Partition.empty (by simp) h0
  refine ⟨g1, ?_⟩
  intro hne
  obtain ⟨newsAll, a1, a2, a3⟩ := g2 hne
  have hgr : (refine d P).groups = newsAll := by
    have : (refine d P).groups = Partition.empty.groups ++ newsAll := a1
    simpa [Partition.empty] using this
  rw [hgr]
  exact ⟨a2, a3⟩

theorem refine_spec (P : Partition) (d : DFA) (hwf : d.WF) (hP : PWF P) : RInv P d P.groups (refine d P) :=
  (refine_spec' P d hwf hP).1

/-- invariant of the refinement loop -/
structure PInv (d : DFA) (P : Partition) : Prop where
  wf : PWF P
  cover : ∀ s ∈ d.states, ∃ G ∈ P.groups, s ∈ G.1
  sub : ∀ G ∈ P.groups, ∀ s ∈ G.1, s ∈ d.states
  fin : ∀ G ∈ P.groups, ∀ s ∈ G.1, ∀ t ∈ G.1, (s ∈ d.final ↔ t ∈ d.final)

theorem refine_pinv (P : Partition) (d : DFA) (hwf : d.WF) (hP : PInv d P) : PInv d (refine d P) := by
  have hR := refine_spec P d hwf hP.wf
  refine ⟨hR.wf, ?_, ?_, ?_⟩
  · intro s hs
    obtain ⟨G, hG, hsG⟩ := hP.cover s hs
    exact hR.covered G hG s hsG
  · intro H hH s hs
    obtain ⟨G, hG, hsub⟩ := hR.inside H hH
    exact hP.sub G hG s (hsub s hs)
  · intro H hH s hs t ht
    obtain ⟨G, hG, hsub⟩ := hR.inside H hH
    exact hP.fin G hG s (hsub s hs) t (hsub t ht)

theorem refineLoop_spec (d : DFA) (hwf : d.WF) (fuel : Nat) (P P' : Partition) (h : refineLoop d fuel P = .ok P')
    (hP : PInv d P) : PInv d P' ∧ (refine d P').equal P' = true := by
  induction fuel generalizing P with
  | zero => simp [refineLoop] at h
  | succ fuel ih =>
    simp only [refineLoop] at h
    by_cases hc : (refine d P).equal P = true
    · simp only [hc, if_true] at h; injection h with h; subst h; exact ⟨hP, hc⟩
    · simp only [hc] at h
      exact ih (refine d P) h (refine_pinv P d hwf hP)

/-- two groups of a well-formed partition that share a member are the same group -/
theorem PWF.same_group {P : Partition} (h : PWF P) {G H : List Int × Int} (hG : G ∈ P.groups) (hH : H ∈ P.groups)
    {s : Int} (hs1 : s ∈ G.1) (hs2 : s ∈ H.1) : G = H :=
  h.rep_inj hG hH (by rw [← h.rep_of_mem hG hs1, h.rep_of_mem hH hs2])

/-- the partition the loop returns is stable -/
theorem stable_of_exit (d : DFA) (hwf : d.WF) (P : Partition) (hP : PInv d P) (he : (refine d P).equal P = true) :
    Stable d P := by
  have hR := refine_spec P d hwf hP.wf
  -- every group of `P` has a uniform signature
  have hsig : ∀ G ∈ P.groups, ∀ s ∈ G.1, ∀ t ∈ G.1, SigEq P d s t := by
    intro G hG s hs t ht
    obtain ⟨H, hH, hsH⟩ := hR.covered G hG s hs
    simp only [Partition.equal, Bool.and_eq_true, List.all_eq_true, List.any_eq_true] at he
    obtain ⟨K, hK, hKe⟩ := he.1.2 H hH
    have hKH : K.1 = H.1 := (setEq_iff (hP.wf.sorted K hK) (hR.wf.sorted H hH)).1 hKe
    have : K = G := hP.wf.same_group hK hG (by rw [hKH]; exact hsH) hs
    subst this
    exact hR.sig H hH s hsH t (by rw [← hKH]; exact ht)
  have hcov : ∀ s ∈ d.states, P.rep s ≠ -1 := by
    intro s hs
    obtain ⟨G, hG, hsG⟩ := hP.cover s hs
    exact hP.wf.rep_ne hG hsG
  refine ⟨hcov, ?_, ?_, ?_⟩
  · intro s hs t ht hr
    obtain ⟨G, hG, hsG⟩ := hP.cover s hs
    obtain ⟨H, hH, htH⟩ := hP.cover t ht
    have : G = H := hP.wf.rep_inj hG hH (by rw [← hP.wf.rep_of_mem hG hsG, ← hP.wf.rep_of_mem hH htH, hr])
    subst this
    exact hP.fin G hG s hsG t htH
  · intro s hs t ht hr a
    obtain ⟨G, hG, hsG⟩ := hP.cover s hs
    obtain ⟨H, hH, htH⟩ := hP.cover t ht
    have : G = H := hP.wf.rep_inj hG hH (by rw [← hP.wf.rep_of_mem hG hsG, ← hP.wf.rep_of_mem hH htH, hr])
    subst this
    have := hsig G hG s hsG t htH a
    -- the targets are states, hence in some group
    have conv : ∀ x, (d.δ x a).bind (repO P) = (d.δ x a).map P.rep := by
      intro x
      cases hx : d.δ x a with
      | none => rfl
      | some y =>
        have := hcov y (d.step_mem_states hwf hx).2
        simp [repO, this]
    rw [conv, conv] at this
    exact this
  · intro G hG
    cases hg : G.1 with
    | nil =>
      left
      refine ⟨rfl, ?_⟩
      intro s hs hr
      obtain ⟨G', hG', hsG'⟩ := hP.cover s hs
      have : G' = G := hP.wf.rep_inj hG' hG (by rw [← hP.wf.rep_of_mem hG' hsG', hr])
      subst this
      rw [hg] at hsG'; simp at hsG'
    | cons x xs =>
      right
      have hx : x ∈ G.1 := by rw [hg]; simp
      simp only [List.headD_cons]
      exact ⟨hP.sub G hG x hx, hP.wf.rep_of_mem hG hx⟩

/-! ### the initial partition and `Minimize` -/

theorem DFA.states_sorted (d : DFA) : SSorted d.states := by
  simp only [DFA.states]
  have inner : ∀ (s : Int) (l : List (Int × Int)) (acc : List Int), SSorted acc →
      SSorted (l.foldl (fun acc e => sins e.2 (sins s acc)) acc) := by
    intro s l
    induction l with
    | nil => intro acc h; exact h
    | cons e l ih => intro acc h; simp only [List.foldl_cons]; exact ih _ (ssorted_sins (ssorted_sins h))
  have outer : ∀ (l : List (Int × List (Int × Int))) (acc : List Int), SSorted acc →
      SSorted (l.foldl (fun acc st => st.2.foldl (fun acc e => sins e.2 (sins st.1 acc)) acc) acc) := by
    intro l
    induction l with
    | nil => intro acc h; exact h
    | cons st l ih => intro acc h; simp only [List.foldl_cons]; exact ih _ (inner _ _ _ h)
  exact outer _ _ (ssorted_saddAll (ssorted_mkSet _))

theorem DFA.initPartition_pinv (d : DFA) (hfs : SSorted d.final) : PInv d d.initPartition := by
  have hNF : SSorted (sdiff d.states d.final) := List.Pairwise.filter _ d.states_sorted
  obtain ⟨a1, a2, _, a4, _⟩ := PWF.empty.add hNF (by simp [Partition.empty])
  have hdis : ∀ G ∈ (Partition.empty.add (sdiff d.states d.final)).groups, ∀ x ∈ G.1, x ∉ d.final := by
    intro G hG x hx
    rcases a2 G hG with h | rfl
    · simp [Partition.empty] at h
    · exact ((mem_sdiff).1 hx).2
  obtain ⟨b1, b2, b3, b4, _⟩ := a1.add hfs hdis
  have hgrp : ∀ G ∈ d.initPartition.groups, G.1 = sdiff d.states d.final ∨ G.1 = d.final := by
    intro G hG
    rcases b2 G hG with h | rfl
    · rcases a2 G h with h' | rfl
      · simp [Partition.empty] at h'
      · left; rfl
    · right; rfl
  refine ⟨b1, ?_, ?_, ?_⟩
  · intro s hs
    by_cases hf : s ∈ d.final
    · exact b4 s hf
    · obtain ⟨G, hG, hsG⟩ := a4 s ((mem_sdiff).2 ⟨hs, hf⟩)
      exact ⟨G, b3 G hG, hsG⟩
  · intro G hG s hs
    rcases hgrp G hG with h | h
    · rw [h] at hs; exact ((mem_sdiff).1 hs).1
    · rw [h] at hs; exact d.mem_states_of s (Or.inr (Or.inl hs))
  · intro G hG s hs t ht
    rcases hgrp G hG with h | h
    · rw [h] at hs ht
      have h1 := ((mem_sdiff).1 hs).2; have h2 := ((mem_sdiff).1 ht).2
      constructor <;> intro hh
      · exact absurd hh h1
      · exact absurd hh h2
    · rw [h] at hs ht; exact ⟨fun _ => ht, fun _ => hs⟩

/-- whenever `Minimize` returns, the result accepts the same language -/
theorem DFA.minimize_lang (d d' : DFA) (hwf : d.WF) (hfs : SSorted d.final) (h : d.minimize = .ok d') (w : Word) :
    d'.lang w ↔ d.lang w := by
  simp only [DFA.minimize, DFA.minimizePartition] at h
  cases hl : refineLoop d d.minimizeFuel d.initPartition with
  | panic => simp [hl] at h
  | diverge => simp [hl] at h
  | ok P =>
    simp only [hl] at h; injection h with h; subst h
    obtain ⟨hP, he⟩ := refineLoop_spec d hwf _ _ P hl (d.initPartition_pinv hfs)
    exact buildMin_lang d hwf P (stable_of_exit d hwf P hP he) w

/-! ### termination of the refinement loop -/

/-- what `refine` produces: besides the invariant, no empty group and `nextRep` = number of groups -/
structure Fresh (d : DFA) (P : Partition) : Prop where
  pinv : PInv d P
  ne : ∀ G ∈ P.groups, G.1 ≠ []
  nr : P.nextRep = (P.groups.length : Int)

theorem refine_fresh (P : Partition) (d : DFA) (hwf : d.WF) (hP : PInv d P) : Fresh d (refine d P) :=
  ⟨refine_pinv P d hwf hP, (refine_spec P d hwf hP.wf).ne, (refine_spec P d hwf hP.wf).nr⟩

/-- disjoint non-empty groups of states: there are at most `|Q|` of them -/
theorem groups_le_states (d : DFA) (P : Partition) (hP : PInv d P) (hne : ∀ G ∈ P.groups, G.1 ≠ []) :
    P.groups.length ≤ d.states.length := by
  have := length_le_of_injOn (fun G : List Int × Int => G.1.headD 0) P.groups d.states ?_ ?_ ?_
  · exact this
  · -- the groups are pairwise different (they have different representatives)
    apply List.nodup_iff_pairwise_ne.2
    have := hP.wf.reps
    rw [List.pairwise_map] at this
    exact this.imp (fun h he => by rw [he] at h; omega)
  · intro G hG H hH he
    have hg : G.1.headD 0 ∈ G.1 := by
      cases hgl : G.1 with
      | nil => exact absurd hgl (hne G hG)
      | cons x xs => simp
    have hh : H.1.headD 0 ∈ H.1 := by
      cases hhl : H.1 with
      | nil => exact absurd hhl (hne H hH)
      | cons x xs => simp
    exact hP.wf.same_group hG hH hg (he ▸ hh)
  · intro G hG
    have hg : G.1.headD 0 ∈ G.1 := by
      cases hgl : G.1 with
      | nil => exact absurd hgl (hne G hG)
      | cons x xs => simp
    exact hP.sub G hG _ hg

theorem equal_of_same (Pn P : Partition) (h1 : Pn.groups.map (·.1) = P.groups.map (·.1)) (h2 : Pn.nextRep = P.nextRep) :
    Pn.equal P = true := by
  simp only [Partition.equal, Bool.and_eq_true, beq_iff_eq, List.all_eq_true, List.any_eq_true]
  refine ⟨⟨?_, ?_⟩, h2⟩
  · have := congrArg List.length h1; simpa using this
  · intro g hg
    have : g.1 ∈ P.groups.map (·.1) := by rw [← h1]; exact List.mem_map.2 ⟨g, hg, rfl⟩
    obtain ⟨h, hh, he⟩ := List.mem_map.1 this
    exact ⟨h, hh, by rw [he]; exact setEq_refl _⟩

theorem refineLoop_ok_fresh (d : DFA) (hwf : d.WF) (fuel : Nat) (P : Partition) (hF : Fresh d P)
    (hfuel : d.states.length - P.groups.length < fuel) : ∃ P', refineLoop d fuel P = .ok P' := by
  induction fuel generalizing P with
  | zero => omega
  | succ fuel ih =>
    simp only [refineLoop]
    by_cases hc : (refine d P).equal P = true
    · exact ⟨P, by simp [hc]⟩
    · simp only [hc]
      have hFn := refine_fresh P d hwf hF.pinv
      obtain ⟨_, hcnt⟩ := refine_spec' P d hwf hF.pinv.wf
      obtain ⟨hle, heq⟩ := hcnt hF.ne
      have hlt : P.groups.length < (refine d P).groups.length := by
        rcases Nat.lt_or_ge P.groups.length (refine d P).groups.length with h | h
        · exact h
        · exfalso
          have he : (refine d P).groups.length = P.groups.length := by omega
          apply hc
          apply equal_of_same _ _ (heq he)
          rw [hFn.nr, hF.nr, he]
      have hb := groups_le_states d (refine d P) hFn.pinv hFn.ne
      apply ih (refine d P) hFn
      omega

/-- the refinement loop returns within `|Q| + 2` rounds from any partition satisfying the invariant -/
theorem refineLoop_ok (d : DFA) (hwf : d.WF) (fuel : Nat) (P : Partition) (hP : PInv d P)
    (hfuel : d.states.length + 2 ≤ fuel) : ∃ P', refineLoop d fuel P = .ok P' := by
  cases fuel with
  | zero => omega
  | succ fuel =>
    simp only [refineLoop]
    by_cases hc : (refine d P).equal P = true
    · exact ⟨P, by simp [hc]⟩
    · simp only [hc]
      exact refineLoop_ok_fresh d hwf fuel (refine d P) (refine_fresh P d hwf hP) (by omega)

/-- `Minimize` always returns -/
theorem DFA.minimize_ok (d : DFA) (hwf : d.WF) (hfs : SSorted d.final) : ∃ d', d.minimize = .ok d' := by
  obtain ⟨P, hP⟩ := refineLoop_ok d hwf d.minimizeFuel d.initPartition (d.initPartition_pinv hfs)
    (by simp [DFA.minimizeFuel])
  exact ⟨buildMin d P, by simp only [DFA.minimize, DFA.minimizePartition, hP]⟩

end AlgoVerif.C13
