import AlgoVerif.Proofs.C08Total2
import AlgoVerif.Proofs.C09Cnf
/-!
# Totality, part 3: fresh names for hygienic grammars; ε-elimination, cycle elimination and START return
-/
namespace AlgoVerif.C08
open AlgoVerif AlgoVerif.Gram AlgoVerif.C08.Spec

/-! ## `AddNewNonTerminal` on hygienic names -/

theorem trimSuffix_of_not {p s : String} (h : s.toList.isSuffixOf p.toList = false) : trimSuffix p s = p := by
  unfold trimSuffix
  simp [h]

theorem hyg_not_suffix {n s : String} (hn : hygienicName n = true) (hs : s ∈ reservedSuffixes) :
    s.toList.isSuffixOf n.toList = false := by
  unfold hygienicName at hn
  have := List.all_eq_true.mp hn s hs
  simpa using this

theorem foldl_trim_hyg {n : String} (hn : hygienicName n = true) :
    ∀ sufs : List String, (∀ s ∈ sufs, s ∈ reservedSuffixes) → sufs.foldl trimSuffix n = n := by
  intro sufs
  induction sufs with
  | nil => intro _; rfl
  | cons s sufs ih =>
    intro h
    simp only [List.foldl_cons]
    rw [trimSuffix_of_not (hyg_not_suffix hn (h s (List.mem_cons_self ..)))]
    exact ih (fun s hs => h s (List.mem_cons_of_mem _ hs))

theorem not_hyg_append (n : String) {s : String} (hs : s ∈ reservedSuffixes) : hygienicName (n ++ s) = false := by
  unfold hygienicName
  rw [List.all_eq_false]
  refine ⟨s, hs, ?_⟩
  have : s.toList.isSuffixOf (n ++ s).toList = true := by
    rw [String.toList_append, List.isSuffixOf_iff_suffix]
    exact List.suffix_append _ _
  simp [this]

theorem freshName_some_of_exists {nonterms : List String} {pre : String} {sufs : List String}
    (h : ∃ s ∈ sufs, (sufs.foldl trimSuffix pre) ++ s ∉ nonterms) : ∃ n, freshName nonterms pre sufs = some n := by
  unfold freshName
  obtain ⟨s, hs, hfree⟩ := h
  have : (List.find? (fun n => decide (n ∉ nonterms)) (sufs.map fun s => (sufs.foldl trimSuffix pre) ++ s)).isSome = true :=
    List.find?_isSome.mpr ⟨_, List.mem_map.mpr ⟨s, hs, rfl⟩, by simpa using hfree⟩
  exact Option.isSome_iff_exists.mp this

theorem addNew_total_of_exists {g : G} {pre : String} {sufs : List String}
    (h : ∃ s ∈ sufs, (sufs.foldl trimSuffix pre) ++ s ∉ g.nonterms) : ∃ r, addNew g pre sufs = .ok r := by
  obtain ⟨n, hn⟩ := freshName_some_of_exists h
  unfold addNew
  rw [hn]
  exact ⟨_, rfl⟩

theorem primes_reserved : ∀ s ∈ primes, s ∈ reservedSuffixes := by
  intro s hs
  unfold reservedSuffixes
  exact List.mem_append.mpr (Or.inl (List.mem_append.mpr (Or.inl hs)))

theorem alphas_reserved : ∀ s ∈ alphas, s ∈ reservedSuffixes := by
  intro s hs
  unfold reservedSuffixes
  exact List.mem_append.mpr (Or.inl (List.mem_append.mpr (Or.inr hs)))

theorem numerics_reserved : ∀ s ∈ numerics, s ∈ reservedSuffixes := by
  intro s hs
  unfold reservedSuffixes
  exact List.mem_append.mpr (Or.inr hs)

/-- a fresh name for a hygienic base among hygienic names: the first suffix works -/
theorem addNew_total_hyg {g : G} {pre : String} (hpre : hygienicName pre = true)
    (hnt : ∀ m ∈ g.nonterms, hygienicName m = true) {sufs : List String} {s0 : String} (hs0 : s0 ∈ sufs)
    (hres : ∀ s ∈ sufs, s ∈ reservedSuffixes) : ∃ r, addNew g pre sufs = .ok r := by
  refine addNew_total_of_exists ⟨s0, hs0, ?_⟩
  rw [foldl_trim_hyg hpre sufs hres]
  intro hm
  have := hnt _ hm
  rw [not_hyg_append pre (hres s0 hs0)] at this
  cases this

/-! ## the transformations return -/

theorem elimEmpty_total {g : G} (hv : Valid g) (hh : Hygienic g) : ∃ g', elimEmpty g = .ok g' := by
  obtain ⟨nul, hn⟩ := nullable_total g
  unfold elimEmpty
  simp only [hn, bind, Outcome.bind]
  split
  · obtain ⟨r, hr⟩ := addNew_total_hyg (g := { g with prods := emptyFreeProds nul g.prods }) (pre := g.start)
      (hh.1 _ hv.1) hh.1 (s0 := "′") (by decide) primes_reserved
    rw [hr]
    exact ⟨_, rfl⟩
  · exact ⟨_, rfl⟩

theorem elimCycles_total {g : G} (hv : Valid g) (hh : Hygienic g) (hl : ∃ w, Language g w) :
    ∃ g', elimCycles g = .ok g' := by
  obtain ⟨g1, h1⟩ := elimEmpty_total hv hh
  have v1 := elimEmpty_valid h1 hv hl
  obtain ⟨g2, h2⟩ := elimSingle_total v1
  obtain ⟨g3, h3⟩ := elimUnreachable_total g2
  unfold elimCycles
  simp only [h1, bind, Outcome.bind, h2]
  exact ⟨g3, h3⟩

theorem cnfStart_total {g : G} (hv : Valid g) (hh : Hygienic g) : ∃ g', cnfStart g = .ok g' := by
  unfold cnfStart
  split
  · obtain ⟨r, hr⟩ := addNew_total_hyg (g := g) (pre := g.start) (hh.1 _ hv.1) hh.1 (s0 := "′") (by decide)
      primes_reserved
    simp only [hr, bind, Outcome.bind]
    exact ⟨_, rfl⟩
  · exact ⟨_, rfl⟩

end AlgoVerif.C08
