import AlgoVerif.Proofs.C11LalrStates
import AlgoVerif.Proofs.C11LalrRows
/-!
# C11 — every conflict-free table BUILT by the LALR(1) construction of the Model passes the completeness validator,
hence the driver on it accepts exactly `L(G)`

`built_complete_lalr`: `buildLALR g fuel = .ok b`, `b.table` conflict-free ⇒ `completeLR1OK g b = true`, for every
well-formed grammar whose non-terminals are all productive (`Productive g`: each derives a terminal string — without it
the patched `findSuperset`, which insists on equal cores, can fail to find the target of a transition; see the example in
`Props/C11.lean`).  No assumption on the fuel: the theorem is conditional on the builder returning `.ok`.

`C11_exact_lalr`, `C11_complete_lalr`: "accepts exactly L(G)" for the LALR(1) construction, without per-run validation.
-/
namespace AlgoVerif.C11.Lalr
open AlgoVerif AlgoVerif.Gram AlgoVerif.C11 AlgoVerif.C11.Spec AlgoVerif.C11.Built AlgoVerif.C11.BuiltComplete
  AlgoVerif.C11.Sound AlgoVerif.C11.Complete

theorem chkClosed_of {g : SGrammar} {nl : List String} {fe : Env} {S : StateMap}
    (h : ∀ I ∈ S, ClosedSet g nl fe I) : chkClosed g nl fe S = true := by
  unfold chkClosed
  rw [List.all_eq_true]
  intro I hI
  rw [List.all_eq_true]
  intro it hit
  have hcl := h I hI it hit
  cases hd : it.dotSym with
  | none => rfl
  | some X =>
    cases X with
    | term a => rfl
    | nonterm B =>
      simp only
      rw [List.all_eq_true]
      intro p hp
      have hmem : ∀ j, j ∈ (match it.la with
          | none => [({ prod := p, dot := 0, la := none } : Item)]
          | some a => (lookaheadsFor nl fe it a).map fun b => { prod := p, dot := 0, la := some b }) →
          j ∈ I := by
        intro j hj
        apply hcl j
        unfold closureCands
        rw [hd]
        simp only
        exact List.mem_flatMap.mpr ⟨p, hp, hj⟩
      cases hla : it.la with
      | none =>
        rw [hla] at hmem
        simpa using hmem _ (by simp)
      | some a =>
        rw [hla] at hmem
        simp only
        rw [List.all_eq_true]
        intro b hb
        simpa using hmem _ (List.mem_map.mpr ⟨b, hb, rfl⟩)

/-- every conflict-free table the LALR(1) construction of the Model returns passes the completeness validator -/
theorem built_complete_lalr (g : SGrammar) (hv : ValidG g) (ht : TermsListed g) (hprod : Productive g) (fuel : Nat)
    (b : Built) (hb : buildLALR g fuel = Outcome.ok b) (hcf : chkConflictFree b.table = true) :
    completeLR1OK g b = true := by
  unfold buildLALR at hb
  obtain ⟨g', hg', hb1⟩ := bind_eq_ok hb
  obtain ⟨K, hK, hb2⟩ := bind_eq_ok hb1
  obtain ⟨⟨T, cl⟩, hrows, hb3⟩ := bind_eq_ok hb2
  have hbeq := pure_eq_ok hb3
  subst hbeq
  simp only at hcf
  obtain ⟨R⟩ := lalrRun_of_ok hK
  have h := augOK_of_augment hv hg'
  have hL := augListed hv ht hg'
  have hAg : (mkAuto g' true true fuel).g = g' := rfl
  have hAk : (mkAuto g' true true fuel).kernel = true := rfl
  have hinitEq := initialItem_eq h hAg
  have hinit : (mkAuto g' true true fuel).initialItem.isInitial g'.start = true := by
    rw [hinitEq]; simp [mkAuto, Item.isInitial, startProd, laIsEnd]
  have hCK := lalrKernels_spec h hK
  have hS := stateMap_specK hinit hCK
  -- the recorded closures and the rows
  obtain ⟨_, cs, hcs, hrel⟩ := rowsL_spec g' _ hAg _ _ 0 _ [] T cl (by intro k I hk; simpa using hk)
    ⟨by simp, by simp⟩ hrows
  simp only [List.nil_append] at hcs
  subst hcs
  have hdone := (rowsL_done g' _ _ _ 0 _ [] T cl hrows).2
  -- a state of `cl` is the sorted closure of the kernel with the same number
  have hstate : ∀ (i : Nat) (Ic : List Item), cl[i]? = some Ic → ∃ I c, (buildStateMap g'.start K)[i]? = some I ∧
      (mkAuto g' true true fuel).closure I = Outcome.ok c ∧ Ic = sortBy (cmpItem g'.start) c := by
    intro i Ic hIc
    have hi : i < cl.length := by
      rcases Nat.lt_or_ge i cl.length with h1 | h1
      · exact h1
      · rw [List.getElem?_eq_none h1] at hIc; cases hIc
    rw [hrel.1] at hi
    obtain ⟨I, hI⟩ : ∃ I, (buildStateMap g'.start K)[i]? = some I := ⟨_, List.getElem?_eq_getElem hi⟩
    obtain ⟨c, hc, hcl⟩ := hrel.2 i I hI
    rw [hIc] at hcl
    exact ⟨I, c, hI, hc, Option.some.inj hcl⟩
  -- the items of a closure
  have hclo : ∀ (i : Nat) (I c : List Item), (buildStateMap g'.start K)[i]? = some I →
      (mkAuto g' true true fuel).closure I = Outcome.ok c →
      (∀ it ∈ c, Good g' it) ∧ (∀ it ∈ c, it.la.isSome = true) ∧
        ClosedSet g' (nullableOf g') (firstEnv g' (nullableOf g')) c ∧ (∀ x ∈ I, x ∈ c) := by
    intro i I c hI hc
    obtain ⟨_, _, hgood⟩ := auto_closure_spec h hAg hAk hc (statesOK_good hS i I hI)
    have hc' : closure g' (nullableOf g') (firstEnv g' (nullableOf g')) fuel I = Outcome.ok c := hc
    obtain ⟨hcl, hsub, _⟩ := closure_fix _ _ _ _ _ _ hc'
    refine ⟨hgood, ?_, hcl, hsub⟩
    apply closure_all (itemProp_some _ _ _) _ _ _ hc'
    intro x hx
    obtain ⟨K', hK', rfl⟩ := mem_buildStateMap.mp (List.mem_of_getElem? hI)
    obtain ⟨s, Is, hIs, hKs⟩ := kernels_src R K' hK'
    obtain ⟨k, a, _, rfl⟩ := (kernelOf_mem R hIs hKs x).mp ((mem_sortBy _ _ _).mp hx)
    rfl
  unfold completeLR1OK
  rw [hg']
  simp only [Bool.and_eq_true, beq_iff_eq]
  refine ⟨⟨⟨⟨⟨⟨⟨⟨⟨trivial, ?_⟩, ?_⟩, ?_⟩, ?_⟩, ?_⟩, ?_⟩, ?_⟩, hcf⟩, chkFresh_of_aug h⟩
  · exact nullable_closed g' hL.listed.heads
  · exact first_closed g' hL.listed _
  · -- the initial item is in state 0
    unfold chkInitLR1
    obtain ⟨J0, rest, hKeq, h0, hr⟩ := hCK
    subst hKeq
    obtain ⟨_, tail, hSeq, _⟩ := stateMap_specK' hinit h0 hr
    have hI0 : (buildStateMap g'.start (J0 :: rest))[0]? = some (sortBy (cmpItem g'.start) J0) := by
      rw [hSeq]; simp
    obtain ⟨c, hc, hcl⟩ := hrel.2 0 _ hI0
    have hmem : (mkAuto g' true true fuel).initialItem ∈ c :=
      (hclo 0 _ c hI0 hc).2.2.2 _ ((mem_sortBy _ _ _).mpr h0.1)
    have hitems : itemsAt cl ((0 : Nat) : Int) = sortBy (cmpItem g'.start) c := itemsAt_of_get hcl
    have : (mkAuto g' true true fuel).initialItem ∈ itemsAt cl 0 := by
      have h00 : ((0 : Nat) : Int) = 0 := rfl
      rw [← h00, hitems, mem_sortBy]; exact hmem
    rw [hinitEq] at this
    simpa [startProd, mkAuto] using this
  · -- all items are LR(1) items
    unfold chkAllLR1
    rw [List.all_eq_true]
    intro Ic hIc
    obtain ⟨i, hi⟩ := List.mem_iff_getElem?.mp hIc
    obtain ⟨I, c, hI, hc, rfl⟩ := hstate i Ic hi
    rw [List.all_eq_true]
    intro it hit
    exact (hclo i I c hI hc).2.1 it ((mem_sortBy _ _ _).mp hit)
  · -- the states are closed
    apply chkClosed_of
    intro Ic hIc
    obtain ⟨i, hi⟩ := List.mem_iff_getElem?.mp hIc
    obtain ⟨I, c, hI, hc, rfl⟩ := hstate i Ic hi
    exact closedSet_congr (fun x => (mem_sortBy _ c x).symm) (hclo i I c hI hc).2.2.1
  · -- a transition for every symbol after a dot
    unfold chkAdvance
    rw [List.all_eq_true]
    rintro ⟨Ic, i⟩ hIi
    have hi : cl[i]? = some Ic := List.mem_zipIdx_iff_getElem?.mp hIi
    obtain ⟨I, c, hI, hc, rfl⟩ := hstate i Ic hi
    rw [List.all_eq_true]
    intro it hit
    have hitc : it ∈ c := (mem_sortBy _ _ _).mp hit
    have hgood := (hclo i I c hI hc).1 it hitc
    obtain ⟨c', hc', hitems, hgotos⟩ := hdone i I hI
    rw [Nat.zero_add] at hitems hgotos
    rw [hc] at hc'
    simp only [Outcome.ok.injEq] at hc'
    subst hc'
    cases hd : it.dotSym with
    | none => rfl
    | some X =>
      obtain ⟨n, Kf, hn, hKf, hnext⟩ := superset_found hv ht hg' hprod R (List.mem_of_getElem? hI) hc hitc hd
      -- the closure recorded for state n holds it.next
      obtain ⟨cn, hcn, hcln⟩ := hrel.2 n Kf hKf
      have hnextIn : it.next ∈ itemsAt cl (n : Int) := by
        rw [itemsAt_of_get hcln, mem_sortBy]
        exact (hclo n Kf cn hKf hcn).2.2.2 _ hnext
      have hXbody := dotSym_mem hd
      cases X with
      | term a =>
        simp only
        obtain ⟨J, hJ, hmem⟩ := (hitems it hitc).1 a hd
        obtain ⟨c2, hc2, hJeq⟩ := kgoto_spec h hAg hAk hJ
        rw [hc] at hc2
        simp only [Outcome.ok.injEq] at hc2
        subst hc2
        subst hJeq
        rw [List.any_eq_true]
        refine ⟨_, hmem, ?_⟩
        simp only
        rw [hn]
        simpa using hnextIn
      | nonterm B =>
        simp only
        have hBN : B ∈ g'.nonterms := hL.bodies _ hgood.1 B hXbody
        have hBne : B ≠ g'.start := body_nonterm_ne h hgood.1 hXbody
        obtain ⟨J, hJ, hgo⟩ := hgotos B hBN hBne
        obtain ⟨c2, hc2, hJeq⟩ := kgoto_spec h hAg hAk hJ
        rw [hc] at hc2
        simp only [Outcome.ok.injEq] at hc2
        subst hc2
        subst hJeq
        have := hgo (by rw [hn]; omega)
        rw [this]
        simp only
        rw [hn]
        simpa using hnextIn
  · -- a reduce / accept action for every complete item
    unfold chkReduceComplete
    rw [List.all_eq_true]
    rintro ⟨Ic, i⟩ hIi
    have hi : cl[i]? = some Ic := List.mem_zipIdx_iff_getElem?.mp hIi
    obtain ⟨I, c, hI, hc, rfl⟩ := hstate i Ic hi
    rw [List.all_eq_true]
    intro it hit
    have hitc : it ∈ c := (mem_sortBy _ _ _).mp hit
    have hgood := (hclo i I c hI hc).1 it hitc
    obtain ⟨c', hc', hitems, _⟩ := hdone i I hI
    rw [Nat.zero_add] at hitems
    rw [hc] at hc'
    simp only [Outcome.ok.injEq] at hc'
    subst hc'
    obtain ⟨_, hr2, hr3⟩ := hitems it hitc
    by_cases hcomp : it.isComplete = true
    · simp only [hcomp, if_true]
      by_cases hh : it.prod.head = g'.start
      · have hfin : it.isFinal g'.start = true := by
          simp [Item.isFinal, hh, hcomp, hgood.2 hh]
        have hbq : (it.prod.head == g'.start) = true := by simpa using hh
        simp only [hbq, if_true]
        simpa using hr3 hfin
      · have hfin : it.isFinal g'.start = false := by
          simp [Item.isFinal, hh]
        have hbq : (it.prod.head == g'.start) = false := by simpa using hh
        simp only [hbq, Bool.false_eq_true, if_false]
        cases hla : it.la with
        | none => simp
        | some a =>
          simp only [List.all_cons, List.all_nil, Bool.and_true]
          have := hr2 hcomp hfin a (by simp [la1, hla])
          simpa using this
    · simp [hcomp]

/-- completeness for the LALR(1) construction: every sentence is accepted, with its derivation tree as AST and the
tree's productions emitted bottom-up -/
theorem C11_complete_lalr (g : SGrammar) (hv : ValidG g) (ht : TermsListed g) (hprod : Productive g) (fuel : Nat)
    (b : Built) (hb : build .lalr g fuel = .ok b) (hcf : chkConflictFree b.table = true) (w : List String)
    (hw : Language g w) :
    ∃ fuel' t, derivesT g t (Sym.nonterm g.start) ∧ t.yield = w ∧
      parse b.table.toTbl fuel' w = .ok (.accept (postT t) t) := by
  obtain ⟨g', nl, fe, hC, _⟩ := completeTable_of_check g b (built_complete_lalr g hv ht hprod fuel b hb hcf)
  exact complete_language hC w hw

/-- "accepts exactly L(G)" for the LALR(1) construction of the Model: for EVERY well-formed grammar `g` all of whose
non-terminals are productive, every amount of builder fuel with which `build` returns a table at all, if that table has
no conflict then for every token string `w` without the endmarker the driver accepts `w` iff `w ∈ L(g)`. -/
theorem C11_exact_lalr (g : SGrammar) (hv : ValidG g) (ht : TermsListed g) (hprod : Productive g) (fuel : Nat)
    (b : Built) (hb : build .lalr g fuel = .ok b) (hcf : chkConflictFree b.table = true) (w : List String)
    (hend : endmarker ∉ w) :
    Language g w ↔ ∃ fuel' π root, parse b.table.toTbl fuel' w = .ok (.accept π root) := by
  constructor
  · intro hw
    obtain ⟨f, t, _, _, hp⟩ := C11_complete_lalr g hv ht hprod fuel b hb hcf w hw
    exact ⟨f, _, _, hp⟩
  · rintro ⟨f, π, root, hp⟩
    have hs := parse_sound (soundTable_of_within g b b.table (soundOK_buildLALR hv hb) (within_refl _)) w hend f π root hp
    exact derives_of_rderiv hs.1

end AlgoVerif.C11.Lalr
