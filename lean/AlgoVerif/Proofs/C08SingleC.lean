import AlgoVerif.Proofs.C08Single
/-!
# `EliminateSingleProductions`: completeness (`L(g) ⊆ L(g')`)
-/
namespace AlgoVerif.C08
open AlgoVerif AlgoVerif.Gram AlgoVerif.C08.Spec

/-! ## folds that insert -/

/-- an element some step inserts whatever the accumulator is in the result of a fold of extending steps -/
theorem mem_foldl_of_step {α β : Type} (f : List α → β → List α) (hf : ∀ l b, l <+: f l b)
    {x : α} {b : β} : ∀ (bs : List β), b ∈ bs → (∀ a, x ∈ f a b) → ∀ a0, x ∈ bs.foldl f a0 := by
  intro bs
  induction bs with
  | nil => intro hb; cases hb
  | cons c bs ih =>
    intro hb hx a0
    simp only [List.foldl_cons]
    rcases List.mem_cons.mp hb with rfl | hb
    · exact (foldl_prefix f hf bs _).subset (hx a0)
    · exact ih hb hx _

/-! ## the closure as a relation -/

/-- `B` is in the closure set recorded for `A` -/
def InClosure (cl : Closure) (A B : String) : Prop := ∃ cA, cl.lookup A = some cA ∧ B ∈ cA

theorem lookup_some_mem {cl : Closure} {A : String} {cA : List String} (h : cl.lookup A = some cA) : (A, cA) ∈ cl := by
  induction cl with
  | nil => simp [List.lookup] at h
  | cons e cl ih =>
    obtain ⟨k, v⟩ := e
    simp only [List.lookup] at h
    split at h
    · rename_i heq
      have hk : A = k := by simpa using heq
      cases h
      exact hk ▸ List.mem_cons_self ..
    · exact List.mem_cons_of_mem _ (ih h)

theorem lookup_map_key {α : Type} (f : String → α) (l : List String) (A : String) (hA : A ∈ l) :
    (l.map (fun a => (a, f a))).lookup A = some (f A) := by
  induction l with
  | nil => cases hA
  | cons a l ih =>
    simp only [List.map_cons, List.lookup]
    by_cases h : A = a
    · subst h; simp
    · have : (A == a) = false := by simpa using h
      rw [this]
      rcases List.mem_cons.mp hA with h' | h'
      · exact absurd h' h
      · exact ih h'

theorem lookup_map_val (F : String → List String → List String) (cl : Closure) (A : String) :
    (cl.map (fun e => (e.1, F e.1 e.2))).lookup A = (cl.lookup A).map (F A) := by
  induction cl with
  | nil => simp [List.lookup]
  | cons e cl ih =>
    obtain ⟨k, v⟩ := e
    simp only [List.map_cons, List.lookup]
    by_cases h : A = k
    · subst h; simp
    · have : (A == k) = false := by simpa using h
      rw [this]
      exact ih

/-- the new closure set of `A` in one pass -/
def closureGrow (cl : Closure) (cA : List String) : List String :=
  cA.foldl (fun acc B => insAll acc ((cl.lookup B).getD [])) cA

theorem closurePass_eq (cl : Closure) : closurePass cl = cl.map (fun e => (e.1, closureGrow cl e.2)) := by
  unfold closurePass closureGrow
  apply List.map_congr_left
  intro e _
  rfl

theorem closureGrow_prefix (cl : Closure) (cA : List String) : cA <+: closureGrow cl cA := by
  unfold closureGrow
  exact foldl_prefix _ (fun l b => insAll_prefix _ l) cA cA

/-- reflexive on declared non-terminals and contains every unit step -/
def ClosureBase (g : G) (cl : Closure) : Prop :=
  ∀ A ∈ g.nonterms, ∃ cA, cl.lookup A = some cA ∧ A ∈ cA ∧ ∀ B, B ∈ unitTargets g.prods A → B ∈ cA

theorem closureInit_base (g : G) : ClosureBase g (closureInit g) := by
  intro A hA
  refine ⟨insAll [A] (unitTargets g.prods A), ?_, ?_, ?_⟩
  · unfold closureInit
    exact lookup_map_key (fun A => insAll [A] (unitTargets g.prods A)) g.nonterms A hA
  · exact mem_insAll.mpr (Or.inl (by simp))
  · intro B hB; exact mem_insAll.mpr (Or.inr hB)

theorem closurePass_base {g : G} {cl : Closure} (h : ClosureBase g cl) : ClosureBase g (closurePass cl) := by
  intro A hA
  obtain ⟨cA, h1, h2, h3⟩ := h A hA
  refine ⟨closureGrow cl cA, ?_, (closureGrow_prefix cl cA).subset h2, fun B hB => (closureGrow_prefix cl cA).subset (h3 B hB)⟩
  rw [closurePass_eq, lookup_map_val (fun _ c => closureGrow cl c), h1]
  rfl

/-- a fixpoint of `closurePass` is transitively closed -/
theorem closure_trans {cl : Closure} (hfix : closurePass cl = cl) {A B C : String}
    (hAB : InClosure cl A B) (hBC : InClosure cl B C) : InClosure cl A C := by
  obtain ⟨cA, hA, hB⟩ := hAB
  obtain ⟨cB, hB', hC⟩ := hBC
  refine ⟨cA, hA, ?_⟩
  have h1 : (closurePass cl).lookup A = some (closureGrow cl cA) := by
    rw [closurePass_eq, lookup_map_val (fun _ c => closureGrow cl c), hA]; rfl
  rw [hfix, hA] at h1
  have hgrow : closureGrow cl cA = cA := (Option.some.inj h1).symm
  unfold closureGrow at hgrow
  have hstep := foldl_fix_of_prefix (fun acc B => insAll acc ((cl.lookup B).getD []))
    (fun l b => insAll_prefix _ l) cA cA hgrow B hB
  have : C ∈ insAll cA ((cl.lookup B).getD []) := mem_insAll.mpr (Or.inr (by rw [hB']; exact hC))
  rwa [hstep] at this

theorem closureOf_spec {g : G} {cl : Closure} (h : closureOf g = .ok cl) :
    ClosureBase g cl ∧ closurePass cl = cl := by
  unfold closureOf at h
  have h' := ofOpt_ok h
  exact ⟨iterFix_inv closurePass (ClosureBase g) (fun _ => closurePass_base) _ _ _ (closureInit_base g) h',
    iterFix_fix _ _ _ _ h'⟩

theorem mem_unitTargets_of {ps : List SProd} {A B : String}
    (h : ({ head := A, body := [Sym.nonterm B] } : SProd) ∈ ps) : B ∈ unitTargets ps A := by
  unfold unitTargets
  exact List.mem_filterMap.mpr ⟨_, h, by simp⟩

/-- every `A → β` with `B` in the closure of `A` and `B → β ∈ P` not a unit production is built -/
theorem mem_singleProds {g : G} {cl : Closure} {A B : String} {p : SProd}
    (hAB : InClosure cl A B) (hp : p ∈ g.prods) (hh : p.head = B) (hs : isSingle p = false) :
    ({ head := A, body := p.body } : SProd) ∈ singleProds g cl := by
  obtain ⟨cA, hA, hB⟩ := hAB
  have he : (A, cA) ∈ cl := lookup_some_mem hA
  unfold singleProds
  -- the three nested folds only extend the accumulator
  have hpre3 : ∀ (e : String × List String) (acc : List SProd) (p : SProd),
      acc <+: (if isSingle p then acc else ins acc { head := e.1, body := p.body }) := by
    intro e acc p; split
    · exact List.prefix_refl _
    · exact ins_prefix _ _
  have hpre2 : ∀ (e : String × List String) (acc : List SProd) (B : String),
      acc <+: (prodsOf g.prods B).foldl (fun acc p => if isSingle p then acc else ins acc { head := e.1, body := p.body }) acc :=
    fun e acc B => foldl_prefix _ (hpre3 e) _ acc
  have hpre1 : ∀ (acc : List SProd) (e : String × List String),
      acc <+: e.2.foldl (fun acc B =>
        (prodsOf g.prods B).foldl (fun acc p => if isSingle p then acc else ins acc { head := e.1, body := p.body }) acc) acc :=
    fun acc e => foldl_prefix _ (hpre2 e) _ acc
  refine mem_foldl_of_step _ hpre1 cl he ?_ []
  intro a
  refine mem_foldl_of_step _ (hpre2 (A, cA)) cA hB ?_ a
  intro a
  refine mem_foldl_of_step _ (hpre3 (A, cA)) (prodsOf g.prods B) (List.mem_filter.mpr ⟨hp, by simpa using hh⟩) ?_ a
  intro a
  simp only [hs]
  exact mem_ins.mpr (Or.inr rfl)

/-! ## derivations of terminal strings, symbol by symbol -/

theorem derivesIn_of_nil {g : G} {k : Nat} {γ : List SSym} (d : DerivesIn g k [] γ) : γ = [] ∧ k = 0 := by
  cases d with
  | refl => exact ⟨rfl, rfl⟩
  | head s _ =>
    generalize hx : ([] : List SSym) = x at s
    cases s with
    | mk u v p hp => simp at hx

theorem derivesIn_of_term {g : G} {k : Nat} {t : String} {γ : List SSym} (d : DerivesIn g k [Sym.term t] γ) :
    γ = [Sym.term t] := by
  cases d with
  | refl => rfl
  | head s _ =>
    exact (Step.not_of_terms (w := [t]) (by simpa using s)).elim

/-- if every non-terminal derivation of at most `k` steps into a terminal string can be replayed in `g0`,
so can every derivation of at most `k` steps from a sentential form of declared symbols -/
theorem derives_form_of_nonterms {g g0 : G} {k : Nat}
    (ih : ∀ j ≤ k, ∀ (X : String) (w : List String), X ∈ g.nonterms →
      DerivesIn g j [Sym.nonterm X] (w.map Sym.term) → Derives g0 [Sym.nonterm X] (w.map Sym.term)) :
    ∀ (β : List SSym), (∀ n, Sym.nonterm n ∈ β → n ∈ g.nonterms) → ∀ j ≤ k, ∀ w : List String,
      DerivesIn g j β (w.map Sym.term) → Derives g0 β (w.map Sym.term) := by
  intro β
  induction β with
  | nil =>
    intro _ j _ w d
    obtain ⟨h, _⟩ := derivesIn_of_nil d
    rw [h]; exact Derives.refl _
  | cons s β ihβ =>
    intro hdecl j hj w d
    have d' : DerivesIn g j ([s] ++ β) (w.map Sym.term) := by simpa using d
    obtain ⟨γ₁, γ₂, n₁, n₂, hw, d₁, d₂, hn⟩ := d'.split
    obtain ⟨w₁, w₂, rfl, hw₁, hw₂⟩ := List.map_eq_append_iff.mp hw
    subst hw₁ hw₂
    have hβ : Derives g0 β (w₂.map Sym.term) :=
      ihβ (fun n hn => hdecl n (List.mem_cons_of_mem _ hn)) n₂ (by omega) w₂ d₂
    have hs : Derives g0 [s] (w₁.map Sym.term) := by
      cases s with
      | term t => rw [derivesIn_of_term d₁]; exact Derives.refl _
      | nonterm X => exact ih n₁ (by omega) X w₁ (hdecl X (List.mem_cons_self ..)) d₁
    have := Derives.append hs hβ
    simpa using this

/-! ## completeness -/

theorem isSingle_iff {p : SProd} : isSingle p = true ↔ ∃ B, p.body = [Sym.nonterm B] := by
  unfold isSingle
  split
  · rename_i b hb; exact ⟨fun _ => ⟨b, hb⟩, fun _ => rfl⟩
  · rename_i hne
    constructor
    · intro h; cases h
    · rintro ⟨B, hB⟩; exact (hne B hB).elim

theorem elimSingle_complete {g g' : G} (h : elimSingle g = .ok g') (hv : WellFormed g) {w : List String}
    (hw : Language g w) : Language g' w := by
  obtain ⟨cl, hc, rfl⟩ := elimSingle_ok h
  rw [prune_language]
  obtain ⟨hbase, hfix⟩ := closureOf_spec hc
  obtain ⟨hstart, hdecl⟩ := hv
  -- the grammar before pruning
  let g0 : G := { g with prods := singleProds g cl }
  have hrefl : ∀ A ∈ g.nonterms, InClosure cl A A := by
    intro A hA
    obtain ⟨cA, h1, h2, _⟩ := hbase A hA
    exact ⟨cA, h1, h2⟩
  have key : ∀ k, ∀ (A : String) (w : List String), A ∈ g.nonterms →
      DerivesIn g k [Sym.nonterm A] (w.map Sym.term) →
      ∀ A0, InClosure cl A0 A → Derives g0 [Sym.nonterm A0] (w.map Sym.term) := by
    intro k
    induction k using Nat.strongRecOn with
    | _ k ih =>
      intro A w hA d A0 hA0
      generalize hγ : w.map Sym.term = γ at d
      cases d with
      | refl => cases w <;> simp at hγ
      | @head k' _ β _ s d' =>
        subst hγ
        obtain ⟨p, hp, hh, rfl⟩ := s.of_single
        have hpd := hdecl p hp
        cases hs : isSingle p with
        | true =>
          obtain ⟨B, hB⟩ := isSingle_iff.mp hs
          have hBdecl : B ∈ g.nonterms := hpd.2 (Sym.nonterm B) (by rw [hB]; simp)
          rw [hB] at d'
          -- A → B is a unit step: B is in the closure of A, hence of A0
          obtain ⟨cA, h1, _, h3⟩ := hbase A hA
          have hpe : p = { head := A, body := [Sym.nonterm B] } := by cases p; simp_all
          have hAB : InClosure cl A B := ⟨cA, h1, h3 B (mem_unitTargets_of (hpe ▸ hp))⟩
          exact ih k' (by omega) B w hBdecl d' A0 (closure_trans hfix hA0 hAB)
        | false =>
          have hmem : ({ head := A0, body := p.body } : SProd) ∈ g0.prods := mem_singleProds hA0 hp hh hs
          have h1 : Derives g0 [Sym.nonterm A0] p.body := Derives.of_prod hmem
          refine h1.trans ?_
          refine derives_form_of_nonterms (g := g) (g0 := g0) (k := k') ?_ p.body (fun n hn => hpd.2 _ hn) k' (Nat.le_refl _) w d'
          intro j hj X w' hX dX
          exact ih j (by omega) X w' hX dX X (hrefl X hX)
  unfold Language at hw ⊢
  obtain ⟨k, dk⟩ := hw.toDerivesIn
  exact key k g.start w hstart dk g.start (hrefl _ hstart)

theorem elimSingle_language {g g' : G} (h : elimSingle g = .ok g') (hv : WellFormed g) (w : List String) :
    Language g' w ↔ Language g w :=
  ⟨elimSingle_sound h, elimSingle_complete h hv⟩

end AlgoVerif.C08
