import AlgoVerif.Proofs.C11TermBuilt
import AlgoVerif.Proofs.C11CompleteSLRCheck
/-!
# C11 — termination of the driver, part 5: SLR(1)

An SLR(1) table is read as a table over LR(1) items: state `s` holds `[it, a]` for every LR(0) item `it` of the state and
every `a` in FOLLOW of its head (`$` only, for the items of `S′`).  With these virtual item sets the SLR(1) table
satisfies the conditions of `CompleteTable` (closedness of FOLLOW under the productions is exactly closedness of the
virtual sets under CLOSURE), `SoundTable` and the top-down structure — provided no item of a state has an empty FOLLOW
set, which holds for the built tables of a grammar with productive non-terminals — so `Term.terminates` applies.
-/
namespace AlgoVerif.C11.Term
open AlgoVerif AlgoVerif.Gram AlgoVerif.C11 AlgoVerif.C11.Spec AlgoVerif.C11.Built AlgoVerif.C11.BuiltComplete
  AlgoVerif.C11.Complete AlgoVerif.C11.Sound AlgoVerif.C11.Lalr

/-- the lookaheads an SLR(1) table reduces (or accepts) the LR(0) item `it` on -/
def laSet (start' : String) (fo : Env) (it : Item) : List String :=
  if it.prod.head = start' then [endmarker] else envGet fo it.prod.head

/-- the virtual LR(1) item sets of an SLR(1) table -/
def virt (start' : String) (fo : Env) (items0 : Int → List Item) (s : Int) : List Item :=
  (items0 s).flatMap fun it => (laSet start' fo it).map (withLa it)

theorem mem_virt {start' : String} {fo : Env} {items0 : Int → List Item} {s : Int} {x : Item} :
    x ∈ virt start' fo items0 s ↔ ∃ it ∈ items0 s, ∃ a ∈ laSet start' fo it, x = withLa it a := by
  unfold virt
  simp only [List.mem_flatMap, List.mem_map]
  constructor
  · rintro ⟨it, hit, a, ha, rfl⟩; exact ⟨it, hit, a, ha, rfl⟩
  · rintro ⟨it, hit, a, ha, rfl⟩; exact ⟨it, hit, a, ha, rfl⟩

theorem laSet_congr {start' : String} {fo : Env} {i j : Item} (h : i.prod = j.prod) :
    laSet start' fo i = laSet start' fo j := by
  unfold laSet; rw [h]

section
variable {g : SGrammar} {start' : String} {nl : List String} {fe fo : Env} {items0 : Int → List Item} {T : Tbl}
  (hC0 : CompleteTable0 g start' nl fe fo items0 T)
  (hprods : ∀ s it, it ∈ items0 s → it.prod ∈ g.prods ∨ it.prod = { head := start', body := [Sym.nonterm g.start] })
include hC0

/-- FOLLOW-closedness, read as the CLOSURE rule for lookaheads -/
theorem laSet_child {i : Item} (hi : i.prod ∈ g.prods ∨ i.prod = { head := start', body := [Sym.nonterm g.start] })
    {B : String} (hd : i.dotSym = some (Sym.nonterm B)) {a b : String} (ha : a ∈ laSet start' fo i)
    (hb : b ∈ lookaheadsFor nl fe i a) {p : Pr} (hp : p ∈ g.prods) (hph : p.head = B) :
    b ∈ laSet start' fo { prod := p, dot := 0, la := none } := by
  have hne : p.head ≠ start' := hC0.fresh p hp
  have hBne : B ≠ start' := hph ▸ hne
  show b ∈ (if p.head = start' then [endmarker] else envGet fo p.head)
  rw [if_neg hne, hph]
  rcases hi with hi | hi
  · -- a production of g
    have hih : i.prod.head ≠ start' := hC0.fresh _ hi
    unfold laSet at ha
    simp only [hih, if_false] at ha
    obtain ⟨h1, h2⟩ := hC0.followClosed _ hi _ B _ (dotSym_split hd)
    rcases mem_lookaheadsFor.mp hb with hf | ⟨hn, rfl⟩
    · exact h1 b hf
    · exact h2 hn b ha
  · -- S′ → •S
    have hbody : i.prod.body = [Sym.nonterm g.start] := by rw [hi]
    have hdot0 : i.dot = 0 ∧ B = g.start := by
      unfold Item.dotSym at hd
      rw [hbody] at hd
      cases hdt : i.dot with
      | zero => rw [hdt] at hd; simp at hd; exact ⟨rfl, hd.symm⟩
      | succ n => rw [hdt] at hd; simp at hd
    have hih : i.prod.head = start' := by rw [hi]
    unfold laSet at ha
    simp only [hih, if_true, List.mem_singleton] at ha
    subst ha
    have : b = endmarker := by
      rcases mem_lookaheadsFor.mp hb with hf | ⟨_, rfl⟩
      · rw [hbody, hdot0.1] at hf; simp [firstOfStr] at hf
      · rfl
    rw [this, hdot0.2]
    exact hC0.followStart

include hprods

/-- the SLR(1) table is complete for its virtual LR(1) item sets -/
theorem completeTable_virt : CompleteTable g start' nl fe (virt start' fo items0) T := by
  refine ⟨?_, ?_, ?_, ?_, ?_, ?_, hC0.conflictFree, hC0.nullClosed, hC0.firstClosed, hC0.fresh⟩
  · apply mem_virt.mpr
    exact ⟨_, hC0.init, endmarker, by simp [laSet], rfl⟩
  · intro s it' B a hit' hdot hla p hp hhead b hb
    obtain ⟨it, hit, a0, ha0, rfl⟩ := mem_virt.mp hit'
    have haa : a = a0 := by simpa [withLa] using hla.symm
    subst haa
    apply mem_virt.mpr
    refine ⟨_, hC0.closed s it B hit hdot p hp hhead, b, ?_, rfl⟩
    exact laSet_child hC0 (hprods s it hit) hdot ha0 hb hp hhead
  · intro s it' a hit' hdot
    obtain ⟨it, hit, a0, ha0, rfl⟩ := mem_virt.mp hit'
    obtain ⟨t, hsh, hnext⟩ := hC0.advT s it a hit hdot
    refine ⟨t, hsh, mem_virt.mpr ⟨_, hnext, a0, ?_, rfl⟩⟩
    have : laSet start' fo it.next = laSet start' fo it := laSet_congr rfl
    rw [this]; exact ha0
  · intro s it' A hit' hdot
    obtain ⟨it, hit, a0, ha0, rfl⟩ := mem_virt.mp hit'
    obtain ⟨t, hgo, hnext⟩ := hC0.advN s it A hit hdot
    refine ⟨t, hgo, mem_virt.mpr ⟨_, hnext, a0, ?_, rfl⟩⟩
    have : laSet start' fo it.next = laSet start' fo it := laSet_congr rfl
    rw [this]; exact ha0
  · intro s it' a hit' hcomp hla hhead
    obtain ⟨it, hit, a0, ha0, rfl⟩ := mem_virt.mp hit'
    have haa : a = a0 := by simpa [withLa] using hla.symm
    subst haa
    have hh : it.prod.head ≠ start' := hhead
    unfold laSet at ha0
    simp only [hh, if_false] at ha0
    exact hC0.red s it hit hcomp hh a ha0
  · intro s it' hit' hcomp hhead
    obtain ⟨it, hit, a0, _, rfl⟩ := mem_virt.mp hit'
    exact hC0.acc s it hit hcomp hhead

omit hC0 hprods in
/-- … sound for them … -/
theorem soundTable_virt (hS0 : SoundTable g start' items0 T)
    (hne : ∀ s it, it ∈ items0 s → laSet start' fo it ≠ []) : SoundTable g start' (virt start' fo items0) T := by
  have hjust : ∀ s t X, (∀ it ∈ items0 t, Justified (items0 s) X it) →
      ∀ it' ∈ virt start' fo items0 t, Justified (virt start' fo items0 s) X it' := by
    intro s t X h it' hit'
    obtain ⟨it, hit, a0, ha0, rfl⟩ := mem_virt.mp hit'
    rcases h it hit with h0 | ⟨hX, j, hj, hjp, hjd⟩
    · exact Or.inl h0
    · refine Or.inr ⟨hX, withLa j a0, mem_virt.mpr ⟨j, hj, a0, ?_, rfl⟩, hjp, hjd⟩
      rw [laSet_congr hjp]; exact ha0
  refine ⟨?_, ?_, ?_, ?_, ?_, ?_, ?_⟩
  · intro s a t hsh
    obtain ⟨h1, h2, h3⟩ := hS0.shiftOK s a t hsh
    exact ⟨h1, h2, hjust s t _ h3⟩
  · intro s A t hgo
    obtain ⟨h1, h2⟩ := hS0.gotoOK s A t hgo
    exact ⟨h1, hjust s t _ h2⟩
  · intro s a p hrd
    obtain ⟨hp, j, hj, hjp, hjd⟩ := hS0.reduceOK s a p hrd
    obtain ⟨a0, ha0⟩ := List.exists_mem_of_ne_nil _ (hne s j hj)
    exact ⟨hp, withLa j a0, mem_virt.mpr ⟨j, hj, a0, ha0, rfl⟩, hjp, hjd⟩
  · intro s a hacc
    obtain ⟨ha, j, hj, hjp, hjd⟩ := hS0.acceptOK s a hacc
    obtain ⟨a0, ha0⟩ := List.exists_mem_of_ne_nil _ (hne s j hj)
    exact ⟨ha, withLa j a0, mem_virt.mpr ⟨j, hj, a0, ha0, rfl⟩, hjp, hjd⟩
  · intro it' hit'
    obtain ⟨it, hit, _, _, rfl⟩ := mem_virt.mp hit'
    exact hS0.init0 it hit
  · intro s it' hit' hh hd
    obtain ⟨it, hit, _, _, rfl⟩ := mem_virt.mp hit'
    exact hS0.initOnly s it hit hh hd
  · unfold virt; rw [hS0.noItems]; rfl

omit hC0 hprods in
/-- … and they have the top-down structure -/
theorem td_virt (hne : ∀ s it, it ∈ items0 s → laSet start' fo it ≠ []) {s : Int} {it : Item}
    (h : TD items0 start' s it) : ∀ a ∈ laSet start' fo it, TD (virt start' fo items0) start' s (withLa it a) := by
  induction h with
  | kernel hit hk =>
    intro a ha
    exact TD.kernel (mem_virt.mpr ⟨_, hit, a, ha, rfl⟩) hk
  | @clo it' it htd' hd hit hdot ih =>
    intro a ha
    obtain ⟨a', ha'⟩ := List.exists_mem_of_ne_nil _ (hne s it' (TD.mem htd'))
    exact TD.clo (ih a' ha') hd (mem_virt.mpr ⟨_, hit, a, ha, rfl⟩) hdot

end

/-! ## the built SLR(1) table -/

/-- the driver halts on every input on a conflict-free table built by the SLR(1) construction -/
theorem terminates_slr (g : SGrammar) (hv : ValidG g) (ht : TermsListed g) (hprod : Productive g) (fuel : Nat)
    (b : Built) (hb : buildSLR g fuel = Outcome.ok b) (hcf : chkConflictFree b.table = true) (w : List String)
    (hw : endmarker ∉ w) : ∃ fuel' r, parse b.table.toTbl fuel' w = Outcome.ok r := by
  obtain ⟨nl, fe, fo, hC0⟩ := completeTable0_of_check g b (built_complete_slr g hv ht fuel b hb hcf)
  have hS0 := soundTable_of_within g b b.table (soundOK_buildSLR hv hb) (within_refl _)
  unfold buildSLR at hb
  obtain ⟨g', hg', hb1⟩ := bind_eq_ok hb
  obtain ⟨C, hCc, hb2⟩ := bind_eq_ok hb1
  obtain ⟨T, hT, hb3⟩ := bind_eq_ok hb2
  have hbeq := pure_eq_ok hb3
  subst hbeq
  simp only at hC0 hS0
  have h := augOK_of_augment hv hg'
  have hinitEq := initialItem_eq h (A := mkAuto g' false false fuel) rfl
  have hgood := states_good hv hg' (A := mkAuto g' false false fuel) rfl rfl hCc
  have hkern := canonical_kernels (A := mkAuto g' false false fuel) rfl hCc (by rw [hinitEq]; rfl)
  have hstate : ∀ s it, it ∈ itemsAt (buildStateMap g'.start C) s →
      ∃ (i : Nat) (I : List Item), s = (i : Int) ∧ (buildStateMap g'.start C)[i]? = some I ∧ it ∈ I := by
    intro s it hit
    obtain ⟨n, I, hs, hI, heq⟩ := itemsAt_get hit
    exact ⟨n, I, hs, hI, heq ▸ hit⟩
  have hprods : ∀ s it, it ∈ itemsAt (buildStateMap g'.start C) s →
      it.prod ∈ g.prods ∨ it.prod = { head := g'.start, body := [Sym.nonterm g.start] } := by
    intro s it hit
    obtain ⟨i, I, rfl, hI, hitI⟩ := hstate s it hit
    exact prods_cases hv hg' (hgood i I hI it hitI).1
  -- FIRST(βa) is never empty, for the FIRST sets of the table
  have hlive : ∀ x : Item, x.prod ∈ g'.prods → LiveSuffix nl fe x := by
    intro x hx
    apply live_lookaheads
    intro X hX
    cases X with
    | term t => trivial
    | nonterm B =>
      have hB : B ∈ g.nonterms := by
        rcases (mem_prods' h).mp hx with h1 | h1
        · exact h.bodies _ h1 B hX
        · rw [h1] at hX
          simp only [startProd, List.mem_singleton, Sym.nonterm.injEq] at hX
          exact hX ▸ h.startIn
      obtain ⟨w', hw'⟩ := hprod B hB
      exact live_of_derives hC0.nullClosed hC0.firstClosed hw'
  -- no item of a set of the collection has an empty lookahead set
  have hneC : ∀ I ∈ C, ∀ it ∈ I, it.prod ∈ g'.prods ∧ it.la = none ∧ laSet g'.start fo it ≠ [] := by
    have hclo : ∀ (J I : List Item), closure g' (nullableOf g') (firstEnv g' (nullableOf g')) fuel J = Outcome.ok I →
        (∀ it ∈ J, it.prod ∈ g'.prods ∧ it.la = none ∧ laSet g'.start fo it ≠ []) →
        ∀ it ∈ I, it.prod ∈ g'.prods ∧ it.la = none ∧ laSet g'.start fo it ≠ [] := by
      intro J I hc hJ it hit
      have hcl := (mem_closure_iff hc it).mp hit
      induction hcl with
      | base hs => exact hJ _ hs
      | @step i j _ hj ih =>
        obtain ⟨hip, hin, hil⟩ := ih ((mem_closure_iff hc i).mpr ‹_›)
        obtain ⟨B, p, hd, hp, hcase⟩ := mem_closureCands.mp hj
        obtain ⟨hpm, hph⟩ := mem_prodsOf.mp hp
        rcases hcase with ⟨_, rfl⟩ | ⟨a, _, hla, _, _⟩
        · refine ⟨hpm, rfl, ?_⟩
          have hBne : B ≠ g'.start := body_nonterm_ne h hip (dotSym_mem hd)
          have hpg : p ∈ g.prods := mem_of_head_ne h hpm (by rw [hph]; exact hBne)
          obtain ⟨a, ha⟩ := List.exists_mem_of_ne_nil _ hil
          obtain ⟨b, hb⟩ := List.exists_mem_of_ne_nil _ (hlive i hip a)
          have := laSet_child hC0 (prods_cases hv hg' hip) hd ha hb hpg hph
          intro he; rw [he] at this; simp at this
        · rw [hin] at hla; cases hla
    have hCc' := hCc
    unfold Auto.canonical at hCc'
    obtain ⟨I0, hI0, hrest⟩ := bind_eq_ok hCc'
    replace hI0 : closure g' (nullableOf g') (firstEnv g' (nullableOf g')) fuel
        [(mkAuto g' false false fuel).initialItem] = Outcome.ok I0 := hI0
    refine canonicalLoop_all (fun I => ∀ it ∈ I, it.prod ∈ g'.prods ∧ it.la = none ∧ laSet g'.start fo it ≠ [])
      ?hgo _ _ _ ?hC hrest
    case hC =>
      intro I hI
      simp only [List.mem_singleton] at hI
      subst hI
      apply hclo _ _ hI0
      intro it hit
      simp only [List.mem_singleton] at hit
      subst hit
      rw [hinitEq]
      refine ⟨(mem_prods' h).mpr (Or.inr rfl), by simp [mkAuto], ?_⟩
      simp [laSet, startProd]
    case hgo =>
      intro I J X hI hg
      rw [goto_eq (A := mkAuto g' false false fuel) rfl] at hg
      apply hclo _ _ hg
      intro it hit
      obtain ⟨i0, hi0, _, rfl⟩ := mem_advance.mp hit
      obtain ⟨h1, h2, h3⟩ := hI i0 hi0
      have : laSet g'.start fo i0.next = laSet g'.start fo i0 := laSet_congr rfl
      exact ⟨h1, h2, by rw [this]; exact h3⟩
  have hne : ∀ s it, it ∈ itemsAt (buildStateMap g'.start C) s → laSet g'.start fo it ≠ [] := by
    intro s it hit
    obtain ⟨i, I, rfl, hI, hitI⟩ := hstate s it hit
    obtain ⟨I', hI', rfl⟩ := mem_buildStateMap.mp (List.mem_of_getElem? hI)
    exact (hneC I' hI' it ((mem_sortBy _ _ _).mp hitI)).2.2
  have htd0 : ∀ s it, it ∈ itemsAt (buildStateMap g'.start C) s → TD (itemsAt (buildStateMap g'.start C)) g'.start s it := by
    intro s it hit
    obtain ⟨i, I, rfl, hI, hitI⟩ := hstate s it hit
    obtain ⟨I', hI', rfl⟩ := mem_buildStateMap.mp (List.mem_of_getElem? hI)
    obtain ⟨J, hJ, hJk⟩ := hkern I' hI'
    exact td_of_closure hJ hJk (fun x => by rw [itemsAt_mem_iff hI, mem_sortBy]) it ((mem_sortBy _ _ _).mp hitI)
  apply terminates (g := g) (start' := g'.start) (nl := nl) (fe := fe)
    (items := virt g'.start fo (itemsAt (buildStateMap g'.start C)))
    ⟨completeTable_virt hC0 hprods, soundTable_virt hS0 hne, ?_, ?_, ?_, ?_⟩ w hw
  · intro s x hx
    obtain ⟨it, hit, a, ha, rfl⟩ := mem_virt.mp hx
    exact td_virt hne (htd0 s it hit) a ha
  · intro s x hx
    obtain ⟨it, hit, a, _, rfl⟩ := mem_virt.mp hx
    exact hprods s it hit
  · intro s x hx n
    obtain ⟨it, hit, a, _, rfl⟩ := mem_virt.mp hx
    obtain ⟨i, I, rfl, hI, hitI⟩ := hstate s it hit
    exact body_forest hv hg' hprod (hgood i I hI it hitI).1 n
  · refine ⟨(buildStateMap g'.start C).length, fun s hne' => itemsAt_bound _ s ?_⟩
    intro he
    apply hne'
    unfold virt; rw [he]; rfl

end AlgoVerif.C11.Term
