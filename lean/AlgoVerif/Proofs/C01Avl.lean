import AlgoVerif.Proofs.C01Bst
/-!
# C01: the AVL mutators refine the abstract map (and never dereference nil)
-/
namespace AlgoVerif.C01
open Tree
variable {K V : Type} {cmp : K → K → Int}

@[simp] theorem ht_nil : (Tree.nil : Tree K V).ht = 0 := rfl
@[simp] theorem ht_node (l : Tree K V) (k v s h c r) : (Tree.node l k v s h c r).ht = h := rfl

theorem avlBalance_ok (l : Tree K V) (k : K) (v : V) (s h : Nat) (c : Bool) (r : Tree K V) :
    ∃ n', avlBalance (.node l k v s h c r) = .ok n' ∧ n'.toList = l.toList ++ (k, v) :: r.toList ∧
      (SizeOK (.node l k v s h c r) → SizeOK n') := by
  unfold avlBalance
  simp only [balanceFactor, Outcome.ok_bind']
  by_cases h2 : (l.ht : Int) - r.ht = 2
  · rw [if_pos h2]
    cases l with
    | nil => rw [ht_nil] at h2; omega
    | node ll lk lv ls lh lc lr =>
      simp only [balanceFactor, Outcome.ok_bind']
      by_cases h1 : (ll.ht : Int) - lr.ht = -1
      · rw [if_pos h1]
        cases lr with
        | nil => rw [ht_nil] at h1; omega
        | node a bk bv bs bh bc b =>
          simp only [avlRotateLeft, avlRotateRight, Outcome.ok_bind']
          refine ⟨_, rfl, by simp, ?_⟩
          simp only [SizeOK, sz_node]
          grind
      · rw [if_neg h1]
        simp only [avlRotateRight, Outcome.ok_bind', Outcome.pure_eq']
        refine ⟨_, rfl, by simp, ?_⟩
        simp only [SizeOK, sz_node]
        grind
  · rw [if_neg h2]
    by_cases h3 : (l.ht : Int) - r.ht = -2
    · rw [if_pos h3]
      cases r with
      | nil => rw [ht_nil] at h3; omega
      | node rl rk rv rs rh rc rr =>
        simp only [balanceFactor, Outcome.ok_bind']
        by_cases h1 : (rl.ht : Int) - rr.ht = 1
        · rw [if_pos h1]
          cases rl with
          | nil => rw [ht_nil] at h1; omega
          | node a bk bv bs bh bc b =>
            simp only [avlRotateLeft, avlRotateRight, Outcome.ok_bind']
            refine ⟨_, rfl, by simp, ?_⟩
            simp only [SizeOK, sz_node]
            grind
        · rw [if_neg h1]
          simp only [avlRotateLeft, Outcome.ok_bind', Outcome.pure_eq']
          refine ⟨_, rfl, by simp, ?_⟩
          simp only [SizeOK, sz_node]
          grind
    · rw [if_neg h3]
      exact ⟨_, rfl, rfl, fun hs => hs⟩
theorem avlFix_balance_ok (l : Tree K V) (k : K) (v : V) (c : Bool) (r : Tree K V) :
    ∃ n', avlBalance (avlFix l k v c r) = .ok n' ∧ n'.toList = l.toList ++ (k, v) :: r.toList ∧
      (SizeOK l → SizeOK r → SizeOK n') := by
  obtain ⟨n', e, hl, hs⟩ := avlBalance_ok l k v (1 + l.sz + r.sz) (1 + max l.ht r.ht) c r
  exact ⟨n', e, hl, fun h1 h2 => hs ⟨rfl, h1, h2⟩⟩

theorem avlPut_ok (h : LawfulCmp cmp) (key : K) (val : V) : ∀ {t : Tree K V}, Spec.Sorted cmp t.toList →
    ∃ t', avlPut cmp t key val = .ok t' ∧ t'.toList = Spec.upsert cmp key val t.toList ∧
      (SizeOK t → SizeOK t')
  | .nil, _ => ⟨_, rfl, rfl, fun _ => ⟨rfl, trivial, trivial⟩⟩
  | .node l k v s hh c r, hs => by
    obtain ⟨hsl, hsr, hl, hr, -⟩ := sorted_node.1 hs
    simp only [avlPut, toList_node]
    split
    · rename_i hlt
      obtain ⟨l', e1, e2, e3⟩ := avlPut_ok h key val hsl
      obtain ⟨n', e4, e5, e6⟩ := avlFix_balance_ok l' k v c r
      refine ⟨n', by simp [e1, e4], ?_, fun hz => e6 (e3 hz.2.1) hz.2.2⟩
      rw [e5, e2, upsert_append_lt _ _ hlt]
    · rename_i hnlt
      have hL := ge_left h hl hnlt
      split
      · rename_i hgt
        obtain ⟨r', e1, e2, e3⟩ := avlPut_ok h key val hsr
        obtain ⟨n', e4, e5, e6⟩ := avlFix_balance_ok l k v c r'
        refine ⟨n', by simp [e1, e4], ?_, fun hz => e6 hz.2.1 (e3 hz.2.2)⟩
        rw [e5, e2, upsert_append_gt _ _ hL hgt]
      · rename_i hngt
        refine ⟨_, rfl, ?_, fun hz => hz⟩
        rw [toList_node, upsert_append_eq _ _ hL hnlt hngt]

theorem avlDeleteMin_ok : ∀ (l : Tree K V) (k : K) (v : V) (s hh : Nat) (c : Bool) (r : Tree K V),
    ∃ t' m, avlDeleteMin (.node l k v s hh c r) = .ok (t', m) ∧
      l.toList ++ (k, v) :: r.toList = m :: t'.toList ∧ (SizeOK l → SizeOK r → SizeOK t')
  | .nil, k, v, s, hh, c, r => ⟨r, (k, v), rfl, rfl, fun _ hr => hr⟩
  | .node ll lk lv ls lh lc lr, k, v, s, hh, c, r => by
    obtain ⟨l', m, e1, e2, e3⟩ := avlDeleteMin_ok ll lk lv ls lh lc lr
    obtain ⟨n', e4, e5, e6⟩ := avlFix_balance_ok l' k v c r
    refine ⟨n', m, ?_, ?_, fun hl hr => e6 (e3 hl.2.1 hl.2.2) hr⟩
    · rw [avlDeleteMin]; simp [e1, e4]
    · rw [e5, toList_node, e2]; rfl

theorem avlDeleteMax_ok : ∀ (r : Tree K V) (l : Tree K V) (k : K) (v : V) (s hh : Nat) (c : Bool),
    ∃ t' m, avlDeleteMax (.node l k v s hh c r) = .ok (t', m) ∧
      l.toList ++ (k, v) :: r.toList = t'.toList ++ [m] ∧ (SizeOK l → SizeOK r → SizeOK t')
  | .nil, l, k, v, s, hh, c => ⟨l, (k, v), rfl, rfl, fun hl _ => hl⟩
  | .node rl rk rv rs rh rc rr, l, k, v, s, hh, c => by
    obtain ⟨r', m, e1, e2, e3⟩ := avlDeleteMax_ok rr rl rk rv rs rh rc
    obtain ⟨n', e4, e5, e6⟩ := avlFix_balance_ok l k v c r'
    refine ⟨n', m, ?_, ?_, fun hl hr => e6 hl (e3 hr.2.1 hr.2.2)⟩
    · rw [avlDeleteMax]; simp [e1, e4]
    · rw [e5, toList_node, e2]; simp

theorem avlDelete_ok (h : LawfulCmp cmp) (key : K) : ∀ {t : Tree K V}, Spec.Sorted cmp t.toList →
    ∃ t', avlDelete cmp t key = .ok (t', get cmp t key) ∧ t'.toList = Spec.remove cmp key t.toList ∧
      (SizeOK t → SizeOK t')
  | .nil, _ => ⟨.nil, rfl, rfl, fun hz => hz⟩
  | .node l k v s hh c r, hs => by
    obtain ⟨hsl, hsr, hl, hr, -⟩ := sorted_node.1 hs
    simp only [avlDelete, get, toList_node]
    split
    · rename_i hlt
      obtain ⟨l', e1, e2, e3⟩ := avlDelete_ok h key hsl
      obtain ⟨n', e4, e5, e6⟩ := avlFix_balance_ok l' k v c r
      refine ⟨n', by simp [e1, e4], ?_, fun hz => e6 (e3 hz.2.1) hz.2.2⟩
      rw [e5, e2, remove_node_lt h hr hlt]
    · rename_i hnlt
      split
      · rename_i hgt
        obtain ⟨r', e1, e2, e3⟩ := avlDelete_ok h key hsr
        obtain ⟨n', e4, e5, e6⟩ := avlFix_balance_ok l k v c r'
        refine ⟨n', by simp [e1, e4], ?_, fun hz => e6 hz.2.1 (e3 hz.2.2)⟩
        rw [e5, e2, remove_node_gt h hl hgt]
      · rename_i hngt
        rw [remove_node_eq h hl hr hnlt hngt]
        cases l with
        | nil => exact ⟨r, rfl, by simp, fun hz => hz.2.2⟩
        | node ll lk lv ls lh lc lr =>
          cases r with
          | nil => exact ⟨_, rfl, by simp, fun hz => hz.2.1⟩
          | node rl rk rv rs rh rc rr =>
            obtain ⟨r', m, e1, e2, e3⟩ := avlDeleteMin_ok rl rk rv rs rh rc rr
            have hm : minOf rl rk rv = m := by
              have := head_minOf rl rk rv rr.toList
              rw [e2] at this
              simpa using this.symm
            obtain ⟨n', e4, e5, e6⟩ := avlFix_balance_ok (.node ll lk lv ls lh lc lr) m.1 m.2 false r'
            refine ⟨n', ?_, ?_, fun hz => e6 hz.2.1 (e3 hz.2.2.2.1 hz.2.2.2.2)⟩
            · simp [e1, hm, e4]
            · rw [e5, toList_node (l := rl), e2]

theorem avl_kindOK (h : LawfulCmp cmp) : KindOK (K := K) (V := V) .avl cmp (Inv cmp) where
  good_nil := inv_nil
  inv := fun _ ht => ht
  put := fun t k v ht => by
    obtain ⟨t', e1, e2, e3⟩ := avlPut_ok h k v ht.1
    exact ⟨t', e1, ⟨by rw [e2]; exact sorted_upsert h k v ht.1, e3 ht.2⟩, e2⟩
  delete := fun t k ht => by
    obtain ⟨t', e1, e2, e3⟩ := avlDelete_ok h k ht.1
    refine ⟨t', ?_, ⟨by rw [e2]; exact Sorted.filter _ ht.1, e3 ht.2⟩, e2⟩
    simp only [delete]; rw [e1, get_eq h k ht.1]
  deleteMin := fun t ht => by
    cases t with
    | nil => exact ⟨.nil, rfl, inv_nil, rfl⟩
    | node l k v s hh c r =>
      obtain ⟨t', m, e1, e2, e3⟩ := avlDeleteMin_ok l k v s hh c r
      refine ⟨t', ?_, ⟨?_, e3 ht.2.2.1 ht.2.2.2⟩, ?_⟩
      · simp [deleteMin, e1, Spec.first, e2]
      · have := Sorted.tail ht.1
        rw [toList_node, e2] at this
        exact this
      · rw [toList_node, e2]; rfl
  deleteMax := fun t ht => by
    cases t with
    | nil => exact ⟨.nil, rfl, inv_nil, rfl⟩
    | node l k v s hh c r =>
      obtain ⟨t', m, e1, e2, e3⟩ := avlDeleteMax_ok r l k v s hh c
      refine ⟨t', ?_, ⟨?_, e3 ht.2.2.1 ht.2.2.2⟩, ?_⟩
      · simp [deleteMax, e1, Spec.last, e2]
      · have := Sorted.dropLast ht.1
        rw [toList_node, e2, List.dropLast_concat] at this
        exact this
      · rw [toList_node, e2, List.dropLast_concat]

end AlgoVerif.C01
