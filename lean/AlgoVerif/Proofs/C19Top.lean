import AlgoVerif.Proofs.C19Refine
/-!
# C19 — from `New` on, and what the Spec's outputs mean

`runNew_refines`: `New` on the bytes of `cs` establishes `Rel` with the initial Spec state, so the whole trace of
a call sequence is the Spec's.  Spec-level facts: the three cursors always partition the source
(`final_partition`), the spans handed out by `Lexeme`/`Skip` concatenate to the flushed prefix (`spans_flatten`),
`run_append`.
-/
namespace AlgoVerif.C19
open AlgoVerif AlgoVerif.Generated

/-- the Spec state before any call: nothing flushed, nothing pending -/
def Spec.init (cs : List Char) : Spec.State := { flushed := [], pending := [], rest := cs, tail := [] }

theorem runNew_refines (cs : List Char) (hnul : ∀ c ∈ cs, c.toNat ≠ 0) (n : Nat) (hn : 0 < n)
    (script : List Answer) (tailEof : Bool) (hio : ∀ a ∈ script, a.flag ≠ .ioerr)
    (ops : List Op) (hkeep : Spec.Keeps n (Spec.init cs) ops) :
    runNew ⟨Spec.encode cs, script, tailEof⟩ n ops =
      if cs = [] then .failed .eof else .ran ((Spec.run (Spec.init cs) ops).map .ok) := by
  rcases new_spec (Spec.encode cs) script tailEof n hn hio with ⟨hS, hnew⟩ | ⟨hS, i, hnew, hinv, hfresh⟩
  · have : cs = [] := (encode_eq_nil_iff cs).mp hS
    subst this
    simp only [runNew, hnew, if_true]
  · have hne : cs ≠ [] := fun h => hS ((encode_eq_nil_iff cs).mpr h)
    simp only [runNew, hnew, hne, if_false]
    have hrel : Rel (Spec.encode cs) n i (Spec.init cs) 0 0 (min n (Spec.encode cs).length) 0 := {
      inv := hinv
      tail := Or.inl rfl
      src := by simp [Spec.init, Spec.encode]
      lex := ⟨Nat.le_refl _, by simp [Spec.init, Spec.encode], by simp [Spec.init, Spec.encode],
              by rw [hfresh.lexemeBegin]; simp [Spec.init, Spec.encode, idx]; omega⟩
      pos := by simp [Spec.init, Spec.encode]
      sizes := by rw [hfresh.runeSizes]; rfl
      offset := by rw [hfresh.offset]; rfl
      line := by rw [hfresh.line]; rfl
      column := by rw [hfresh.column]; rfl
      cols := by rw [hfresh.nextColumn, hfresh.lastColumns, hfresh.column]; rfl }
    rw [run_refines (nulFree_encode cs hnul) ops i _ _ _ _ _ hrel rfl hkeep]


/-- the Spec state before any call for a source whose well-formed runes `cs` are followed by the bytes `tail` -/
def Spec.initT (cs : List Char) (tail : List UInt8) : Spec.State :=
  { flushed := [], pending := [], rest := cs, tail := tail }

/-- `runNew_refines` for a source with an ill-formed tail: the trace agrees with the Spec up to and including the
first report of the ill-formed sequence. -/
theorem runNew_refines_upTo (cs : List Char) (tail : List UInt8) (k : Nat) (hbad : decodeRune tail = .invalid k)
    (hnul : NulFree (Spec.encode cs ++ tail)) (n : Nat) (hn : 0 < n)
    (script : List Answer) (tailEof : Bool) (hio : ∀ a ∈ script, a.flag ≠ .ioerr)
    (ops : List Op) (hkeep : Spec.Keeps n (Spec.initT cs tail) ops) :
    ∃ outs, runNew ⟨Spec.encode cs ++ tail, script, tailEof⟩ n ops = .ran outs ∧
      outs.take (upToInvalid (Spec.run (Spec.initT cs tail) ops)).length
        = (upToInvalid (Spec.run (Spec.initT cs tail) ops)).map .ok := by
  have hne : Spec.encode cs ++ tail ≠ [] := by
    intro h
    have : tail = [] := (List.append_eq_nil_iff.mp h).2
    rw [this] at hbad; simp [decodeRune] at hbad
  rcases new_spec (Spec.encode cs ++ tail) script tailEof n hn hio with ⟨hS, _⟩ | ⟨_, i, hnew, hinv, hfresh⟩
  · exact absurd hS hne
  · have hrel : Rel (Spec.encode cs ++ tail) n i (Spec.initT cs tail) 0 0
        (min n (Spec.encode cs ++ tail).length) 0 := {
      inv := hinv
      tail := Or.inr ⟨k, hbad⟩
      src := by simp [Spec.initT, Spec.encode]
      lex := ⟨Nat.le_refl _, by simp [Spec.initT, Spec.encode], by simp [Spec.initT, Spec.encode],
              by rw [hfresh.lexemeBegin]; simp [Spec.initT, Spec.encode, idx]; omega⟩
      pos := by simp [Spec.initT, Spec.encode]
      sizes := by rw [hfresh.runeSizes]; rfl
      offset := by rw [hfresh.offset]; rfl
      line := by rw [hfresh.line]; rfl
      column := by rw [hfresh.column]; rfl
      cols := by rw [hfresh.nextColumn, hfresh.lastColumns, hfresh.column]; rfl }
    exact ⟨i.run ops, by simp only [runNew, hnew], run_refines_upTo hnul ops i _ _ _ _ _ hrel hkeep⟩

/-! ## the Spec's own bookkeeping -/

theorem Spec.step_partition (s : Spec.State) (op : Op) :
    (Spec.step s op).1.flushed ++ (Spec.step s op).1.pending ++ (Spec.step s op).1.rest
      = s.flushed ++ s.pending ++ s.rest := by
  cases op with
  | next =>
    cases hr : s.rest with
    | nil => simp only [Spec.step, hr]; split <;> simp [hr]
    | cons c r => simp [Spec.step, hr]
  | retract =>
    simp only [Spec.step]
    rcases List.eq_nil_or_concat s.pending with hp | ⟨init, c, hp⟩
    · simp [hp]
    · rw [List.concat_eq_append] at hp; simp [hp]
  | lexeme => simp [Spec.step]
  | skip => simp [Spec.step]

theorem Spec.final_partition (s : Spec.State) (ops : List Op) :
    (Spec.final s ops).flushed ++ (Spec.final s ops).pending ++ (Spec.final s ops).rest
      = s.flushed ++ s.pending ++ s.rest := by
  induction ops generalizing s with
  | nil => rfl
  | cons op ops ih => simp only [Spec.final]; rw [ih, Spec.step_partition]

theorem Spec.spans_flatten (s : Spec.State) (ops : List Op) :
    Spec.encode s.flushed ++ (Spec.spans s ops).flatten = Spec.encode (Spec.final s ops).flushed := by
  induction ops generalizing s with
  | nil => simp [Spec.spans, Spec.final]
  | cons op ops ih =>
    cases op with
    | next =>
      simp only [Spec.spans, Spec.final]
      rw [← ih]
      congr 2
      cases hr : s.rest with
      | nil => simp only [Spec.step, hr]; split <;> rfl
      | cons c r => simp [Spec.step, hr]
    | retract =>
      simp only [Spec.spans, Spec.final]
      rw [← ih]
      congr 2
      cases hg : s.pending.getLast? <;> simp [Spec.step, hg]
    | lexeme =>
      simp only [Spec.spans, Spec.final, List.flatten_cons]
      rw [← ih]; simp [Spec.step, encode_append]
    | skip =>
      simp only [Spec.spans, Spec.final, List.flatten_cons]
      rw [← ih]; simp [Spec.step, encode_append]

theorem Spec.run_append (s : Spec.State) (a b : List Op) :
    Spec.run s (a ++ b) = Spec.run s a ++ Spec.run (Spec.final s a) b := by
  induction a generalizing s with
  | nil => rfl
  | cons op a ih => simp only [List.cons_append, Spec.run, Spec.final, ih]

end AlgoVerif.C19
