import AlgoVerif.Proofs.C06PDelT
import AlgoVerif.Proofs.C06PSim
/-!
# C06 — Patricia deletion: the store after `remove` represents the contracted tree
-/
namespace AlgoVerif.C06
variable {V : Type}
open BitString (xbit Small)
open PT

namespace Patricia

/-- the direction the deletion loops take at a node with bit position `bp` -/
def dirM (key : Option BitString) (goRight : Bool) (bp : Nat) : Bool :=
  match key with
  | some k => xbit k (bp - 1)
  | none => goRight

theorem dirM_bit (key : Option BitString) (goRight : Bool) {bp : Nat} (h : 0 < bp) :
    (match key with
      | some k => k.bit bp
      | none => (pure goRight : Outcome Bool)) = .ok (dirM key goRight bp) := by
  cases key with
  | none => rfl
  | some k => simp [dirM, BitString.bit_ok_of_pos k h]

/-! ## the two loops -/

theorem findLoop_rep {t : Patricia V} (key : Option BitString) (goRight : Bool) (T : PT V) :
    ∀ (b : Nat) (p : Option Nat) (rp r : Nat) (rn : PNode V) (f : Nat), Rep t b p T → t.nodes[r]? = some rn → rn.bp = b →
      above t b < f →
      findLoop t key goRight f (some rp) (some r) p =
        .ok (some (findEnd T rp r (dirM key goRight)).1, some (findEnd T rp r (dirM key goRight)).2.1,
             some (findEnd T rp r (dirM key goRight)).2.2) := by
  cases key with
  | none =>
    induction T with
    | leaf i k' v =>
      intro b p rp r rn f h hrn hb hf
      obtain ⟨hp, n, hn, hle, _, _⟩ := h
      subst hp
      cases f with
      | zero => omega
      | succ f =>
        have : ¬ rn.bp < n.bp := by omega
        simp [findLoop, node_some hrn, node_some hn, this, findEnd]
    | inner i bp l r' ihl ihr =>
      intro b p rp r rn f h hrn hb hf
      obtain ⟨hp, n, hn, hbp, hgt, hl, hr⟩ := h
      subst hp; subst hbp
      cases f with
      | zero => omega
      | succ f =>
        have hlt := above_lt hn hgt
        have : rn.bp < n.bp := by omega
        simp only [findLoop, node_some hrn, node_some hn, bind_ok, this, if_true, findEnd]
        simp only [pure_eq_ok, bind_ok]
        simp only [dirM] at ihl ihr ⊢
        cases goRight
        · simp only [Bool.false_eq_true, if_false]
          exact ihl n.bp n.left r i n f hl hn rfl (by omega)
        · simp only [if_true]
          exact ihr n.bp n.right r i n f hr hn rfl (by omega)
  | some k =>
    induction T with
    | leaf i k' v =>
      intro b p rp r rn f h hrn hb hf
      obtain ⟨hp, n, hn, hle, _, _⟩ := h
      subst hp
      cases f with
      | zero => omega
      | succ f =>
        have : ¬ rn.bp < n.bp := by omega
        simp [findLoop, node_some hrn, node_some hn, this, findEnd]
    | inner i bp l r' ihl ihr =>
      intro b p rp r rn f h hrn hb hf
      obtain ⟨hp, n, hn, hbp, hgt, hl, hr⟩ := h
      subst hp; subst hbp
      cases f with
      | zero => omega
      | succ f =>
        have hlt := above_lt hn hgt
        have : rn.bp < n.bp := by omega
        simp only [findLoop, node_some hrn, node_some hn, bind_ok, this, if_true, findEnd]
        rw [BitString.bit_ok_of_pos k (show 0 < n.bp by omega)]
        simp only [bind_ok]
        simp only [dirM] at ihl ihr ⊢
        by_cases hx : xbit k (n.bp - 1) = true
        · simp only [hx, if_true]
          exact ihr n.bp n.right r i n f hr hn rfl (by omega)
        · simp only [hx, if_false]
          exact ihl n.bp n.left r i n f hl hn rfl (by omega)

theorem parentLoop_rep {t : Patricia V} (key : Option BitString) (goRight : Bool) (nidx : Nat) (T : PT V) :
    ∀ (b : Nat) (p : Option Nat) (np : Nat) (f : Nat), Rep t b p T → (descendD T (dirM key goRight)).1 = nidx →
      above t b < f →
      parentLoop t key goRight (some nidx) f (some np) p = .ok (some (parentEnd T np nidx (dirM key goRight))) := by
  cases key with
  | none =>
    induction T with
    | leaf i k' v =>
      intro b p np f h hd hf
      obtain ⟨hp, _⟩ := h
      subst hp
      simp only [descendD] at hd
      subst hd
      cases f with
      | zero => omega
      | succ f => simp [parentLoop, parentEnd]
    | inner i bp l r ihl ihr =>
      intro b p np f h hd hf
      obtain ⟨hp, n, hn, hbp, hgt, hl, hr⟩ := h
      subst hp; subst hbp
      cases f with
      | zero => omega
      | succ f =>
        have hlt := above_lt hn hgt
        simp only [parentLoop, parentEnd]
        by_cases hin : i = nidx
        · simp [hin]
        · have : (some i != some nidx) = true := by simpa using hin
          simp only [this, if_true, hin, if_false, node_some hn, bind_ok]
          simp only [pure_eq_ok, bind_ok]
          simp only [descendD, dirM] at hd ihl ihr ⊢
          cases goRight
          · simp only [Bool.false_eq_true, if_false] at hd ⊢
            exact ihl n.bp n.left i f hl hd (by omega)
          · simp only [if_true] at hd ⊢
            exact ihr n.bp n.right i f hr hd (by omega)
  | some k =>
    induction T with
    | leaf i k' v =>
      intro b p np f h hd hf
      obtain ⟨hp, _⟩ := h
      subst hp
      simp only [descendD] at hd
      subst hd
      cases f with
      | zero => omega
      | succ f => simp [parentLoop, parentEnd]
    | inner i bp l r ihl ihr =>
      intro b p np f h hd hf
      obtain ⟨hp, n, hn, hbp, hgt, hl, hr⟩ := h
      subst hp; subst hbp
      cases f with
      | zero => omega
      | succ f =>
        have hlt := above_lt hn hgt
        simp only [parentLoop, parentEnd]
        by_cases hin : i = nidx
        · simp [hin]
        · have : (some i != some nidx) = true := by simpa using hin
          simp only [this, if_true, hin, if_false, node_some hn, bind_ok]
          rw [BitString.bit_ok_of_pos k (show 0 < n.bp by omega)]
          simp only [bind_ok]
          simp only [descendD, dirM] at hd ihl ihr ⊢
          by_cases hx : xbit k (n.bp - 1) = true
          · simp only [hx, if_true] at hd ⊢
            exact ihr n.bp n.right i f hr hd (by omega)
          · simp only [hx, if_false] at hd ⊢
            exact ihl n.bp n.left i f hl hd (by omega)

/-! ## redirecting one link -/

def setLink (t : Patricia V) (i : Nat) (sd : Bool) (ptr : Option Nat) : Patricia V :=
  if sd then t.setRight i ptr else t.setLeft i ptr

def relink (n : PNode V) (sd : Bool) (ptr : Option Nat) : PNode V :=
  if sd then { n with right := ptr } else { n with left := ptr }

theorem setLink_nodes (t : Patricia V) (i : Nat) (sd : Bool) (ptr : Option Nat) (j : Nat) :
    (setLink t i sd ptr).nodes[j]? = if i = j then (t.nodes[j]?).map (fun n => relink n sd ptr) else t.nodes[j]? := by
  cases sd <;> simp [setLink, relink, setLeft, setRight, Array.getElem?_modify]

theorem setLink_root (t : Patricia V) (i : Nat) (sd : Bool) (ptr : Option Nat) :
    (setLink t i sd ptr).root = t.root ∧ (setLink t i sd ptr).size = t.size := by
  cases sd <;> simp [setLink, setLeft, setRight]

@[simp] theorem relink_bp (n : PNode V) (sd : Bool) (ptr : Option Nat) : (relink n sd ptr).bp = n.bp := by
  cases sd <;> rfl
@[simp] theorem relink_key (n : PNode V) (sd : Bool) (ptr : Option Nat) : (relink n sd ptr).key = n.key := by
  cases sd <;> rfl
@[simp] theorem relink_val (n : PNode V) (sd : Bool) (ptr : Option Nat) : (relink n sd ptr).val = n.val := by
  cases sd <;> rfl

theorem frame_setLink (t : Patricia V) (i : Nat) (sd : Bool) (ptr : Option Nat) (X : PT V) (hi : i ∉ inners X) :
    Frame t (setLink t i sd ptr) X := by
  constructor
  · intro j hj n hn
    have : i ≠ j := fun h => hi (h ▸ hj)
    exact ⟨n, by rw [setLink_nodes]; simp [this, hn], rfl, rfl, rfl⟩
  · intro j _ n hn
    rw [setLink_nodes]
    by_cases h : i = j
    · simp only [h, if_true, hn, Option.map_some]
      exact ⟨_, rfl, by simp, by simp, by simp⟩
    · simp only [h, if_false]
      exact ⟨n, hn, rfl, rfl, rfl⟩

/-! ## `Rep` with the bit-position condition waived for the leaves of one node -/

def RepX (ex : Nat) (t : Patricia V) : Nat → Option Nat → PT V → Prop
  | b, p, .leaf i k v => p = some i ∧ ∃ n, t.nodes[i]? = some n ∧ (i = ex ∨ n.bp ≤ b) ∧ n.key = k ∧ n.val = v
  | b, p, .inner i bp l r =>
    p = some i ∧ ∃ n, t.nodes[i]? = some n ∧ n.bp = bp ∧ bp > b ∧ RepX ex t bp n.left l ∧ RepX ex t bp n.right r

theorem Rep.toX {t : Patricia V} (ex : Nat) {T : PT V} {b : Nat} {p : Option Nat} (h : Rep t b p T) : RepX ex t b p T := by
  induction T generalizing b p with
  | leaf i k v =>
    obtain ⟨hp, n, hn, hb, hk, hv⟩ := h
    exact ⟨hp, n, hn, .inr hb, hk, hv⟩
  | inner i bp l r ihl ihr =>
    obtain ⟨hp, n, hn, hbp, hb, hl, hr⟩ := h
    exact ⟨hp, n, hn, hbp, hb, ihl hl, ihr hr⟩

theorem RepX.toRep {t : Patricia V} {ex : Nat} {T : PT V} {b : Nat} {p : Option Nat} (h : RepX ex t b p T)
    (hex : ex ∉ leafIdx T) : Rep t b p T := by
  induction T generalizing b p with
  | leaf i k v =>
    obtain ⟨hp, n, hn, hb, hk, hv⟩ := h
    refine ⟨hp, n, hn, ?_, hk, hv⟩
    rcases hb with hb | hb
    · exact absurd (by simp [leafIdx, hb]) hex
    · exact hb
  | inner i bp l r ihl ihr =>
    obtain ⟨hp, n, hn, hbp, hb, hl, hr⟩ := h
    exact ⟨hp, n, hn, hbp, hb, ihl hl (fun h => hex (by simp [leafIdx, h])),
      ihr hr (fun h => hex (by simp [leafIdx, h]))⟩

/-- a store update that keeps inner nodes, and keeps key/value of leaves and lowers (or keeps) their bit position —
except for the waived node, whose new bit position is at most `b0` — turns `RepX` below `b0` into `Rep` -/
theorem RepX.settle {t t' : Patricia V} {ex : Nat} {T : PT V} {b : Nat} {p : Option Nat} (h : RepX ex t b p T) (b0 : Nat)
    (hb0 : b0 ≤ b)
    (hin : ∀ i ∈ inners T, ∀ n, t.nodes[i]? = some n →
      ∃ n', t'.nodes[i]? = some n' ∧ n'.bp = n.bp ∧ n'.left = n.left ∧ n'.right = n.right)
    (hlf : ∀ i ∈ leafIdx T, ∀ n, t.nodes[i]? = some n →
      ∃ n', t'.nodes[i]? = some n' ∧ n'.key = n.key ∧ n'.val = n.val ∧ (if i = ex then n'.bp ≤ b0 else n'.bp ≤ n.bp)) :
    Rep t' b p T := by
  induction T generalizing b p with
  | leaf i k v =>
    obtain ⟨hp, n, hn, hb, hk, hv⟩ := h
    obtain ⟨n', hn', h1, h2, h3⟩ := hlf i (by simp [leafIdx]) n hn
    refine ⟨hp, n', hn', ?_, by rw [h1, hk], by rw [h2, hv]⟩
    by_cases hie : i = ex
    · simp only [hie, if_true] at h3; omega
    · simp only [hie, if_false] at h3
      rcases hb with hb | hb
      · exact absurd hb hie
      · omega
  | inner i bp l r ihl ihr =>
    obtain ⟨hp, n, hn, hbp, hb, hl, hr⟩ := h
    obtain ⟨n', hn', h1, h2, h3⟩ := hin i (by simp [inners]) n hn
    refine ⟨hp, n', hn', by omega, hb, ?_, ?_⟩
    · rw [h2]
      exact ihl hl (by omega) (fun j hj => hin j (by simp [inners, hj])) (fun j hj => hlf j (by simp [leafIdx, hj]))
    · rw [h3]
      exact ihr hr (by omega) (fun j hj => hin j (by simp [inners, hj])) (fun j hj => hlf j (by simp [leafIdx, hj]))

theorem RepX.frame {t t' : Patricia V} {ex : Nat} {T : PT V} {b : Nat} {p : Option Nat} (h : RepX ex t b p T)
    (hf : Frame t t' T) : RepX ex t' b p T := by
  induction T generalizing b p with
  | leaf i k v =>
    obtain ⟨hp, n, hn, hb, hk, hv⟩ := h
    obtain ⟨n', hn', h1, h2, h3⟩ := hf.leaf i (by simp [leafIdx]) n hn
    exact ⟨hp, n', hn', by rcases hb with hb | hb; exact .inl hb; exact .inr (by omega), by rw [h2, hk], by rw [h3, hv]⟩
  | inner i bp l r ihl ihr =>
    obtain ⟨hp, n, hn, hbp, hb, hl, hr⟩ := h
    obtain ⟨n', hn', h1, h2, h3⟩ := hf.inner i (by simp [inners]) n hn
    exact ⟨hp, n', hn', by omega, hb, by rw [h2]; exact ihl hl hf.left, by rw [h3]; exact ihr hr hf.right⟩

/-- leaves that are not inner nodes of the tree they hang in point above it -/
def UpOK (t : Patricia V) (T : PT V) (b : Nat) : Prop :=
  ∀ x ∈ leafIdx T, x ∉ inners T → ∃ nd, t.nodes[x]? = some nd ∧ nd.bp ≤ b

theorem mem_leafIdx_of_mem_inners {T : PT V} (hs : SelfBelow T) {x : Nat} (hx : x ∈ inners T) : x ∈ leafIdx T := by
  induction T with
  | leaf => simp [inners] at hx
  | inner i bp l r ihl ihr =>
    obtain ⟨hi, hl, hr⟩ := hs
    simp only [inners, List.mem_cons, List.mem_append] at hx
    simp only [leafIdx, List.mem_append] at hi ⊢
    rcases hx with rfl | hx | hx
    · exact hi
    · exact .inl (ihl hl hx)
    · exact .inr (ihr hr hx)

theorem UpOK.children {t : Patricia V} {i bp : Nat} {l r : PT V} {b : Nat} {n : PNode V}
    (h : UpOK t (.inner i bp l r) b) (hn : t.nodes[i]? = some n) (hbp : n.bp = bp) (hb : b < bp)
    (hs : SelfBelow (.inner i bp l r)) (hnd : (leafIdx (.inner i bp l r)).Nodup) : UpOK t l bp ∧ UpOK t r bp := by
  obtain ⟨_, hsl, hsr⟩ := hs
  simp only [leafIdx, List.nodup_append] at hnd
  obtain ⟨_, _, hdis⟩ := hnd
  constructor
  · intro x hx hxl
    by_cases hxi : x = i
    · subst hxi; exact ⟨n, hn, by omega⟩
    · by_cases hxr : x ∈ inners r
      · exact absurd rfl (hdis x hx x (mem_leafIdx_of_mem_inners hsr hxr))
      · obtain ⟨nd, h1, h2⟩ := h x (by simp [leafIdx, hx]) (by simp [inners, hxi, hxl, hxr])
        exact ⟨nd, h1, by omega⟩
  · intro x hx hxr
    by_cases hxi : x = i
    · subst hxi; exact ⟨n, hn, by omega⟩
    · by_cases hxl : x ∈ inners l
      · exact absurd rfl (hdis x (mem_leafIdx_of_mem_inners hsl hxl) x hx)
      · obtain ⟨nd, h1, h2⟩ := h x (by simp [leafIdx, hx]) (by simp [inners, hxi, hxl, hxr])
        exact ⟨nd, h1, by omega⟩

/-- seen from a node with a smaller bit position a represented tree is still represented, except that a leaf
has to satisfy the stronger condition -/
theorem Rep.lowerX {t : Patricia V} (ex : Nat) {T : PT V} {b b' : Nat} {p : Option Nat} (h : Rep t b p T) (hbb : b' ≤ b)
    (hleaf : ∀ i k v, T = .leaf i k v → i = ex ∨ ∃ n, t.nodes[i]? = some n ∧ n.bp ≤ b') : RepX ex t b' p T := by
  cases T with
  | leaf i k v =>
    obtain ⟨hp, n, hn, _, hk, hv⟩ := h
    refine ⟨hp, n, hn, ?_, hk, hv⟩
    rcases hleaf i k v rfl with h1 | ⟨n', hn', h2⟩
    · exact .inl h1
    · rw [hn] at hn'; cases hn'; exact .inr h2
  | inner i bp l r =>
    obtain ⟨hp, n, hn, hbp, hb, hl, hr⟩ := h
    exact ⟨hp, n, hn, hbp, by omega, hl.toX ex, hr.toX ex⟩

/-- the store after the link found by `cutAt` has been redirected represents the contracted tree (the bit-position
condition being waived for threads to the contracted node, which `remove` is about to move) -/
theorem contract_rep {t : Patricia V} (dir : Nat → Bool) (T : PT V) :
    ∀ (b : Nat) (p : Option Nat) (pi : Nat) (pn : PNode V) (sd : Bool) (rp0 : Nat) (T1 : PT V),
      Rep t b p T → t.nodes[pi]? = some pn → pn.bp = b →
      UpOK t T b → SelfBelow T → (leafIdx T).Nodup → (inners T).Nodup → pi ∉ inners T →
      contract T dir = some T1 →
      RepX (findEnd T rp0 pi dir).2.1 (setLink t (cutAt T pi sd dir).1 (cutAt T pi sd dir).2.1 (some (cutAt T pi sd dir).2.2)) b
        (if (cutAt T pi sd dir).1 = pi then some (cutAt T pi sd dir).2.2 else p) T1 ∧
      (setLink t (cutAt T pi sd dir).1 (cutAt T pi sd dir).2.1 (some (cutAt T pi sd dir).2.2)).nodes[pi]? =
        some (if (cutAt T pi sd dir).1 = pi then relink pn sd (some (cutAt T pi sd dir).2.2) else pn) := by
  induction T with
  | leaf i k v => intro b p pi pn sd rp0 T1 _ _ _ _ _ _ _ _ hct; simp [contract] at hct
  | inner i bp l r ihl ihr =>
    intro b p pi pn sd rp0 T1 hT hpn hpb hup hsb hndl hndi hni hct
    have hT0 := hT
    obtain ⟨hp, n, hn, hbp, hb, hl, hr⟩ := hT
    subst hbp
    obtain ⟨hupl, hupr⟩ := hup.children hn rfl hb hsb hndl
    have hsb0 := hsb
    obtain ⟨hself, hsl, hsr⟩ := hsb
    have hndl0 := hndl
    simp only [leafIdx, List.nodup_append] at hndl
    obtain ⟨hnll, hnlr, _⟩ := hndl
    simp only [inners, List.nodup_cons, List.mem_append, List.nodup_append, not_or, List.mem_cons] at hndi hni
    obtain ⟨⟨hil, hir⟩, hnil, hnir, hdis⟩ := hndi
    -- the stopping case: the path child is a leaf, `other` is re-hung below `pi`
    have hstop : ∀ (other : PT V) (op : Option Nat), Rep t n.bp op other →
        (∀ x k v, other = .leaf x k v → x = i ∨ (x ∈ leafIdx (.inner i n.bp l r) ∧ x ∉ inners (.inner i n.bp l r))) →
        pi ∉ inners other →
        RepX i (setLink t pi sd (some (idx other))) b (some (idx other)) other ∧
        (setLink t pi sd (some (idx other))).nodes[pi]? = some (relink pn sd (some (idx other))) := by
      intro other op hother hleaf hnio
      constructor
      · have hop := hother.idx_eq
        rw [hop] at hother
        apply RepX.frame _ (frame_setLink t pi sd _ other hnio)
        apply hother.lowerX i (by omega)
        intro x k v hx
        rcases hleaf x k v hx with h1 | ⟨h1, h2⟩
        · exact .inl h1
        · exact .inr (hup x h1 h2)
      · rw [setLink_nodes]; simp [hpn]
    simp only [contract] at hct
    simp only [cutAt, findEnd]
    by_cases hd : dir n.bp = true
    case neg =>
      -- the path goes left
      simp only [hd, Bool.false_eq_true, if_false] at hct ⊢
      cases l with
      | leaf j k v =>
        simp only [contract] at hct
        cases hct
        simp only [if_true, findEnd]
        apply hstop r n.right hr
        · intro x k' v' hx
          subst hx
          by_cases hxi : x = i
          · exact .inl hxi
          · exact .inr ⟨by simp [leafIdx], by simp [inners, hxi]⟩
        · exact hni.2.2
      | inner j bp' l' r' =>
        have hsome : ∃ l1, contract (.inner j bp' l' r') dir = some l1 := by
          cases hc : contract (.inner j bp' l' r') dir with
          | none => obtain ⟨_, _, _, h⟩ := (contract_none_iff _ dir).mp hc; cases h
          | some l1 => exact ⟨l1, rfl⟩
        obtain ⟨l1, hl1⟩ := hsome
        rw [hl1] at hct
        cases hct
        obtain ⟨ih1, ih2⟩ := ihl n.bp n.left i n false pi l1 hl hn rfl hupl hsl hnll hnil hil hl1
        have hprev := cutAt_prev (.inner j bp' l' r') i false dir
        have hne : (cutAt (.inner j bp' l' r') i false dir).1 ≠ pi := by
          rcases hprev with h | h
          · rw [h.1]; exact fun e => hni.1 e.symm
          · exact fun e => hni.2.1 (e ▸ h)
        have hnotr : (cutAt (.inner j bp' l' r') i false dir).1 ∉ inners r := by
          rcases hprev with h | h
          · rw [h.1]; exact hir
          · exact fun e => hdis _ h _ e rfl
        simp only [hne, if_false]
        constructor
        · refine ⟨hp, _, ih2, ?_, hb, ?_, ?_⟩
          · split <;> simp
          · have : (if (cutAt (.inner j bp' l' r') i false dir).1 = i
                then relink n false (some (cutAt (.inner j bp' l' r') i false dir).2.2) else n).left
                = (if (cutAt (.inner j bp' l' r') i false dir).1 = i then some (cutAt (.inner j bp' l' r') i false dir).2.2 else n.left) := by
              split <;> simp [relink]
            rw [this]
            exact ih1
          · have h1 : (if (cutAt (.inner j bp' l' r') i false dir).1 = i
                then relink n false (some (cutAt (.inner j bp' l' r') i false dir).2.2) else n).right = n.right := by
              split <;> simp [relink]
            rw [h1]
            exact (hr.toX _).frame (frame_setLink t _ _ _ r hnotr)
        · rw [setLink_nodes]; simp [hne, hpn]
    case pos =>
      -- the path goes right
      simp only [hd, if_true] at hct ⊢
      cases r with
      | leaf j k v =>
        simp only [contract] at hct
        cases hct
        simp only [if_true, findEnd]
        apply hstop l n.left hl
        · intro x k' v' hx
          subst hx
          by_cases hxi : x = i
          · exact .inl hxi
          · exact .inr ⟨by simp [leafIdx], by simp [inners, hxi]⟩
        · exact hni.2.1
      | inner j bp' l' r' =>
        have hsome : ∃ r1, contract (.inner j bp' l' r') dir = some r1 := by
          cases hc : contract (.inner j bp' l' r') dir with
          | none => obtain ⟨_, _, _, h⟩ := (contract_none_iff _ dir).mp hc; cases h
          | some r1 => exact ⟨r1, rfl⟩
        obtain ⟨r1, hr1⟩ := hsome
        rw [hr1] at hct
        cases hct
        obtain ⟨ih1, ih2⟩ := ihr n.bp n.right i n true pi r1 hr hn rfl hupr hsr hnlr hnir hir hr1
        have hprev := cutAt_prev (.inner j bp' l' r') i true dir
        have hne : (cutAt (.inner j bp' l' r') i true dir).1 ≠ pi := by
          rcases hprev with h | h
          · rw [h.1]; exact fun e => hni.1 e.symm
          · exact fun e => hni.2.2 (e ▸ h)
        have hnotl : (cutAt (.inner j bp' l' r') i true dir).1 ∉ inners l := by
          rcases hprev with h | h
          · rw [h.1]; exact hil
          · exact fun e => hdis _ e _ h rfl
        simp only [hne, if_false]
        constructor
        · refine ⟨hp, _, ih2, ?_, hb, ?_, ?_⟩
          · split <;> simp
          · have h1 : (if (cutAt (.inner j bp' l' r') i true dir).1 = i
                then relink n true (some (cutAt (.inner j bp' l' r') i true dir).2.2) else n).left = n.left := by
              split <;> simp [relink]
            rw [h1]
            exact (hl.toX _).frame (frame_setLink t _ _ _ l hnotl)
          · have : (if (cutAt (.inner j bp' l' r') i true dir).1 = i
                then relink n true (some (cutAt (.inner j bp' l' r') i true dir).2.2) else n).right
                = (if (cutAt (.inner j bp' l' r') i true dir).1 = i then some (cutAt (.inner j bp' l' r') i true dir).2.2 else n.right) := by
              split <;> simp [relink]
            rw [this]
            exact ih1
        · rw [setLink_nodes]; simp [hne, hpn]

/-- the leaf a path ends at is the stored node -/
theorem Rep.descendD_node {t : Patricia V} {T : PT V} {b : Nat} {p : Option Nat} (h : Rep t b p T) (dir : Nat → Bool) :
    ∃ n, t.nodes[(descendD T dir).1]? = some n ∧ n.key = (descendD T dir).2.1 ∧ n.val = (descendD T dir).2.2 := by
  induction T generalizing b p with
  | leaf i k v =>
    obtain ⟨_, n, hn, _, hk, hv⟩ := h
    exact ⟨n, hn, hk, hv⟩
  | inner i bp l r ihl ihr =>
    obtain ⟨_, n, hn, _, _, hl, hr⟩ := h
    simp only [descendD]
    split
    · exact ihr hr
    · exact ihl hl

/-- what `remove` computes from the stored nodes agrees with `cutAt`: the other child `c` of the referrer, and the
side of the link that is redirected -/
theorem cut_store {t : Patricia V} (dir : Nat → Bool) (kn : Key) (T : PT V) :
    ∀ (b : Nat) (p : Option Nat) (pi : Nat) (sd : Bool) (rp0 : Nat), Rep t b p T → (∃ i bp l r, T = .inner i bp l r) →
      OnPath T dir kn →
      (∃ rrn, t.nodes[(findEnd T rp0 pi dir).2.1]? = some rrn ∧ 1 ≤ rrn.bp ∧
        (if xbit kn (rrn.bp - 1) then rrn.left else rrn.right) = some (cutAt T pi sd dir).2.2) ∧
      (((cutAt T pi sd dir).1 = pi ∧ (cutAt T pi sd dir).2.1 = sd) ∨
       ((cutAt T pi sd dir).1 ∈ inners T ∧ ∃ nd, t.nodes[(cutAt T pi sd dir).1]? = some nd ∧ 1 ≤ nd.bp ∧
          (cutAt T pi sd dir).2.1 = xbit kn (nd.bp - 1))) := by
  induction T with
  | leaf => intro _ _ _ _ _ _ hT; obtain ⟨_, _, _, _, h⟩ := hT; cases h
  | inner i bp l r ihl ihr =>
    intro b p pi sd rp0 h _ hop
    obtain ⟨hp, n, hn, hbp, hb, hl, hr⟩ := h
    subst hbp
    obtain ⟨hdk, hrest⟩ := hop
    simp only [cutAt, findEnd]
    by_cases hd : dir n.bp = true
    · simp only [hd, if_true] at hrest ⊢
      have hk : xbit kn (n.bp - 1) = true := by rw [← hdk]; exact hd
      cases r with
      | leaf j k v =>
        simp only [findEnd]
        exact ⟨⟨n, hn, by omega, by simp [hk, hl.idx_eq]⟩, .inl (by simp)⟩
      | inner j bp' l' r' =>
        obtain ⟨h1, h2⟩ := ihr n.bp n.right i true pi hr ⟨_, _, _, _, rfl⟩ hrest
        refine ⟨h1, .inr ?_⟩
        rcases h2 with ⟨e1, e2⟩ | ⟨e1, nd, e2, e3, e4⟩
        · refine ⟨by rw [e1]; simp [inners], n, by rw [e1]; exact hn, by omega, by rw [e2, hk]⟩
        · refine ⟨?_, nd, e2, e3, e4⟩
          have : (cutAt (.inner j bp' l' r') i true dir).1 ∈ inners l ++ inners (.inner j bp' l' r') :=
            List.mem_append.mpr (.inr e1)
          simp only [inners, List.mem_cons]
          exact .inr this
    · simp only [hd, Bool.false_eq_true, if_false] at hrest ⊢
      have hk : xbit kn (n.bp - 1) = false := by
        rw [← hdk]; simpa using hd
      cases l with
      | leaf j k v =>
        simp only [findEnd]
        exact ⟨⟨n, hn, by omega, by simp [hk, hr.idx_eq]⟩, .inl (by simp)⟩
      | inner j bp' l' r' =>
        obtain ⟨h1, h2⟩ := ihl n.bp n.left i false pi hl ⟨_, _, _, _, rfl⟩ hrest
        refine ⟨h1, .inr ?_⟩
        rcases h2 with ⟨e1, e2⟩ | ⟨e1, nd, e2, e3, e4⟩
        · refine ⟨by rw [e1]; simp [inners], n, by rw [e1]; exact hn, by omega, by rw [e2, hk]⟩
        · refine ⟨?_, nd, e2, e3, e4⟩
          have : (cutAt (.inner j bp' l' r') i false dir).1 ∈ inners (.inner j bp' l' r') ++ inners r :=
            List.mem_append.mpr (.inl e1)
          simp only [inners, List.mem_cons]
          exact .inr this

end Patricia
end AlgoVerif.C06
