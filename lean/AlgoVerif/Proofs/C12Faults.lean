import AlgoVerif.Model.C10Ext
import AlgoVerif.Proofs.C12Sound
/-!
Helper lemmas for C12: `Parse` with a failing lexer / failing callbacks (`parseRunF`) against the run in which
nothing fails, and that run against `parseLoop`.
-/
namespace AlgoVerif.C10
open AlgoVerif AlgoVerif.Gram

set_option linter.unusedSectionVars false

section
variable {T N : Type} [DecidableEq T] [DecidableEq N]

/-- the answer of `Parse` (`parseLoop`) read off a run of `parseRunF` -/
def toPResult (evs : List (Event T N)) (r : List (Event T N) × Ending) : Outcome (PResult T N) :=
  match r.2 with
  | .accept => .ok (.accept (evs.reverse ++ r.1))
  | .reject why => .ok (.reject why)
  | .fail _ => .panic

/-- with a lexer and callbacks that never fail, `parseRunF` is `parseLoop` (and never ends in `fail`) -/
theorem parseRunF_none (M : N → Option T → List (GProd T N)) :
    ∀ (fuel : Nat) (stack : List (Sym T N)) (input : List T) (pos np : Nat) (evs : List (Event T N)),
      parseLoop M fuel stack input pos evs
        = (parseRunF M none none none fuel stack input pos np).bind (toPResult evs) := by
  intro fuel
  induction fuel with
  | zero => intro stack input pos np evs; rfl
  | succ fuel ih =>
    intro stack input pos np evs
    match stack, input with
    | [], [] => simp [parseLoop, parseRunF, Outcome.bind, toPResult]
    | [], _ :: _ => simp [parseLoop, parseRunF, Outcome.bind, toPResult]
    | .term t :: stack, [] => simp [parseLoop, parseRunF, Outcome.bind, toPResult]
    | .term t :: stack, a :: rest =>
      by_cases hta : t = a
      · subst hta
        simp only [parseLoop, parseRunF, if_true]
        rw [ih stack rest (pos + 1) np (.tok t pos :: evs)]
        simp only [reduceCtorEq, if_false]
        cases parseRunF M none none none fuel stack rest (pos + 1) np with
        | ok r =>
          obtain ⟨E, e⟩ := r
          cases e <;> simp [Outcome.bind, Outcome.map, toPResult]
        | panic => rfl
        | diverge => rfl
      · simp [parseLoop, parseRunF, hta, Outcome.bind, toPResult]
    | .nonterm A :: stack, input =>
      simp only [parseLoop, parseRunF]
      match M A input.head? with
      | [] => simp [Outcome.bind, toPResult]
      | [p] =>
        simp only [reduceCtorEq, if_false]
        rw [ih (p.body ++ stack) input pos (np + 1) (.prod p :: evs)]
        cases parseRunF M none none none fuel (p.body ++ stack) input pos (np + 1) with
        | ok r =>
          obtain ⟨E, e⟩ := r
          cases e <;> simp [Outcome.bind, Outcome.map, toPResult]
        | panic => rfl
        | diverge => rfl
      | _ :: _ :: _ => rfl

/-- the run in which nothing fails never ends in `fail` -/
theorem parseRunF_none_ne_fail (M : N → Option T → List (GProd T N)) :
    ∀ (fuel : Nat) (stack : List (Sym T N)) (input : List T) (pos np : Nat) (E : List (Event T N)) (f : Fault),
      parseRunF M none none none fuel stack input pos np ≠ .ok (E, .fail f) := by
  intro fuel
  induction fuel with
  | zero => intro stack input pos np E f h; simp [parseRunF] at h
  | succ fuel ih =>
    intro stack input pos np E f h
    match stack, input with
    | [], [] => simp [parseRunF] at h
    | [], _ :: _ => simp [parseRunF] at h
    | .term t :: stack, [] => simp [parseRunF] at h
    | .term t :: stack, a :: rest =>
      by_cases hta : t = a
      · subst hta
        simp only [parseRunF, if_true, reduceCtorEq, if_false] at h
        cases hr : parseRunF M none none none fuel stack rest (pos + 1) np with
        | ok r =>
          rw [hr] at h
          simp only [Outcome.map, Outcome.ok.injEq, Prod.mk.injEq] at h
          obtain ⟨E', e'⟩ := r
          exact ih stack rest (pos + 1) np E' f (by rw [hr]; simp at h; rw [h.2])
        | panic => rw [hr] at h; simp [Outcome.map] at h
        | diverge => rw [hr] at h; simp [Outcome.map] at h
      · simp [parseRunF, hta] at h
    | .nonterm A :: stack, input =>
      simp only [parseRunF] at h
      match hM : M A input.head? with
      | [] => rw [hM] at h; simp at h
      | [p] =>
        rw [hM] at h
        simp only [reduceCtorEq, if_false] at h
        cases hr : parseRunF M none none none fuel (p.body ++ stack) input pos (np + 1) with
        | ok r =>
          rw [hr] at h
          simp only [Outcome.map, Outcome.ok.injEq, Prod.mk.injEq] at h
          obtain ⟨E', e'⟩ := r
          exact ih (p.body ++ stack) input pos (np + 1) E' f (by rw [hr]; simp at h; rw [h.2])
        | panic => rw [hr] at h; simp [Outcome.map] at h
        | diverge => rw [hr] at h; simp [Outcome.map] at h
      | _ :: _ :: _ => rw [hM] at h; simp at h

/-- **The run with faults is the run without, cut at the first call that fails.** -/
theorem parseRunF_cut (M : N → Option T → List (GProd T N)) (lf tf pf : Option Nat) :
    ∀ (fuel : Nat) (stack : List (Sym T N)) (input : List T) (pos np : Nat) (E : List (Event T N)) (e : Ending),
      parseRunF M none none none fuel stack input pos np = .ok (E, e) →
      parseRunF M lf tf pf fuel stack input pos np = .ok (cutEvents lf tf pf np E e) := by
  intro fuel
  induction fuel with
  | zero => intro stack input pos np E e h; simp [parseRunF] at h
  | succ fuel ih =>
    intro stack input pos np E e h
    match stack, input with
    | [], [] =>
      simp only [parseRunF, Outcome.ok.injEq, Prod.mk.injEq] at h
      obtain ⟨rfl, rfl⟩ := h
      simp [parseRunF, cutEvents]
    | [], _ :: _ =>
      simp only [parseRunF, Outcome.ok.injEq, Prod.mk.injEq] at h
      obtain ⟨rfl, rfl⟩ := h
      simp [parseRunF, cutEvents]
    | .term t :: stack, [] =>
      simp only [parseRunF, Outcome.ok.injEq, Prod.mk.injEq] at h
      obtain ⟨rfl, rfl⟩ := h
      simp [parseRunF, cutEvents]
    | .term t :: stack, a :: rest =>
      by_cases hta : t = a
      · subst hta
        simp only [parseRunF, if_true, reduceCtorEq, if_false] at h
        cases hr : parseRunF M none none none fuel stack rest (pos + 1) np with
        | ok r =>
          rw [hr] at h
          obtain ⟨E', e'⟩ := r
          simp only [Outcome.map, Outcome.ok.injEq, Prod.mk.injEq] at h
          obtain ⟨rfl, rfl⟩ := h
          have := ih stack rest (pos + 1) np E' e' hr
          simp only [parseRunF, if_true, cutEvents]
          by_cases h1 : tf = some pos
          · simp [h1]
          · by_cases h2 : lf = some (pos + 1)
            · simp [h1, h2]
            · simp [h1, h2, this, Outcome.map]
        | panic => rw [hr] at h; simp [Outcome.map] at h
        | diverge => rw [hr] at h; simp [Outcome.map] at h
      · simp only [parseRunF, hta, if_false, Outcome.ok.injEq, Prod.mk.injEq] at h
        obtain ⟨rfl, rfl⟩ := h
        simp [parseRunF, hta, cutEvents]
    | .nonterm A :: stack, input =>
      simp only [parseRunF] at h ⊢
      match hM : M A input.head? with
      | [] =>
        rw [hM] at h
        simp only [Outcome.ok.injEq, Prod.mk.injEq] at h
        obtain ⟨rfl, rfl⟩ := h
        simp [cutEvents]
      | [p] =>
        rw [hM] at h
        simp only [reduceCtorEq, if_false] at h
        cases hr : parseRunF M none none none fuel (p.body ++ stack) input pos (np + 1) with
        | ok r =>
          rw [hr] at h
          obtain ⟨E', e'⟩ := r
          simp only [Outcome.map, Outcome.ok.injEq, Prod.mk.injEq] at h
          obtain ⟨rfl, rfl⟩ := h
          have := ih (p.body ++ stack) input pos (np + 1) E' e' hr
          simp only [cutEvents]
          by_cases h1 : pf = some np
          · simp [h1]
          · simp [h1, this, Outcome.map]
        | panic => rw [hr] at h; simp [Outcome.map] at h
        | diverge => rw [hr] at h; simp [Outcome.map] at h
      | _ :: _ :: _ => rw [hM] at h; simp at h

/-- a cut that ends in `accept` or `reject` cut nothing -/
theorem cutEvents_not_fail (lf tf pf : Option Nat) :
    ∀ (E : List (Event T N)) (np : Nat) (e : Ending),
      (∀ f, (cutEvents lf tf pf np E e).2 ≠ .fail f) → cutEvents lf tf pf np E e = (E, e) := by
  intro E
  induction E with
  | nil => intro np e _; rfl
  | cons x es ih =>
    intro np e h
    cases x with
    | tok t pos =>
      simp only [cutEvents] at h ⊢
      by_cases h1 : tf = some pos
      · simp [h1] at h
      · by_cases h2 : lf = some (pos + 1)
        · simp [h1, h2] at h
        · simp only [h1, h2, if_false] at h ⊢
          rw [ih np e h]
    | prod p =>
      simp only [cutEvents] at h ⊢
      by_cases h1 : pf = some np
      · simp [h1] at h
      · simp only [h1, if_false] at h ⊢
        rw [ih (np + 1) e h]

/-- what is emitted under faults is a prefix of what is emitted without -/
theorem cutEvents_prefix (lf tf pf : Option Nat) :
    ∀ (E : List (Event T N)) (np : Nat) (e : Ending), (cutEvents lf tf pf np E e).1 <+: E := by
  intro E
  induction E with
  | nil => intro np e; simp [cutEvents]
  | cons x es ih =>
    intro np e
    cases x with
    | tok t pos =>
      simp only [cutEvents]
      by_cases h1 : tf = some pos
      · simp [h1]
      · by_cases h2 : lf = some (pos + 1)
        · simp [h1, h2]
        · simp only [h1, h2, if_false]
          exact List.prefix_cons_inj _ |>.2 (ih np e)
    | prod p =>
      simp only [cutEvents]
      by_cases h1 : pf = some np
      · simp [h1]
      · simp only [h1, if_false]
        exact List.prefix_cons_inj _ |>.2 (ih (np + 1) e)

/-- only the token callback fails, at position `j`: the cut is in front of the first token event with that position -/
theorem cutEvents_token (j : Nat) (t : T) :
    ∀ (E₁ : List (Event T N)) (E₂ : List (Event T N)) (np : Nat) (e : Ending),
      (∀ t' p, Event.tok t' p ∈ E₁ → p ≠ j) →
      cutEvents none (some j) none np (E₁ ++ .tok t j :: E₂) e = (E₁, .fail (.token j)) := by
  intro E₁
  induction E₁ with
  | nil => intro E₂ np e _; simp [cutEvents]
  | cons x es ih =>
    intro E₂ np e h
    cases x with
    | tok t' p =>
      have hp : p ≠ j := h t' p (by simp)
      have hp' : ¬ (some j = some p) := by simpa using fun h' => hp h'.symm
      simp only [List.cons_append, cutEvents, hp', reduceCtorEq, if_false]
      rw [ih E₂ np e (fun t'' p' hm => h t'' p' (List.mem_cons_of_mem _ hm))]
    | prod q =>
      simp only [List.cons_append, cutEvents, reduceCtorEq, if_false]
      rw [ih E₂ (np + 1) e (fun t'' p' hm => h t'' p' (List.mem_cons_of_mem _ hm))]

/-- only the production callback fails, at its call number `k`: the cut is in front of production event number `k` -/
theorem cutEvents_prod (k : Nat) (q : GProd T N) :
    ∀ (E₁ : List (Event T N)) (E₂ : List (Event T N)) (np : Nat) (e : Ending),
      np + (eventProds E₁).length = k →
      cutEvents none none (some k) np (E₁ ++ .prod q :: E₂) e = (E₁, .fail .prod) := by
  intro E₁
  induction E₁ with
  | nil => intro E₂ np e h; simp [eventProds] at h; simp [cutEvents, h]
  | cons x es ih =>
    intro E₂ np e h
    cases x with
    | tok t' p =>
      simp only [eventProds] at h
      simp only [List.cons_append, cutEvents, reduceCtorEq, if_false]
      rw [ih E₂ np e h]
    | prod q' =>
      simp only [eventProds, List.length_cons] at h
      have hk : ¬ (some k = some np) := by
        intro h'
        injection h' with h'
        omega
      simp only [List.cons_append, cutEvents, hk, if_false]
      rw [ih E₂ (np + 1) e (by omega)]

/-- only the lexer fails, at its call number `j + 1`: the cut is right behind the token event with position `j` -/
theorem cutEvents_lexer (j : Nat) (t : T) :
    ∀ (E₁ : List (Event T N)) (E₂ : List (Event T N)) (np : Nat) (e : Ending),
      (∀ t' p, Event.tok t' p ∈ E₁ → p ≠ j) →
      cutEvents (some (j + 1)) none none np (E₁ ++ .tok t j :: E₂) e = (E₁ ++ [.tok t j], .fail .lexer) := by
  intro E₁
  induction E₁ with
  | nil => intro E₂ np e _; simp [cutEvents]
  | cons x es ih =>
    intro E₂ np e h
    cases x with
    | tok t' p =>
      have hp : p ≠ j := h t' p (by simp)
      have hp' : ¬ (some (j + 1) = some (p + 1)) := by
        intro h'
        injection h' with h'
        omega
      simp only [List.cons_append, cutEvents, hp', reduceCtorEq, if_false]
      rw [ih E₂ np e (fun t'' p' hm => h t'' p' (List.mem_cons_of_mem _ hm))]
    | prod q =>
      simp only [List.cons_append, cutEvents, reduceCtorEq, if_false]
      rw [ih E₂ (np + 1) e (fun t'' p' hm => h t'' p' (List.mem_cons_of_mem _ hm))]

end

end AlgoVerif.C10
