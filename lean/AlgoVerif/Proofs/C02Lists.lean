import AlgoVerif.Model.C02Run
import Mathlib.Data.List.Perm.Subperm
import Mathlib.Data.List.Nodup
/-!
# C02/C03 — counting slots, pigeonhole, and facts about the Spec map
-/
namespace AlgoVerif.C02

/-! ### counting the indices below `n` that satisfy `P` -/

def cnt (P : Nat → Bool) (n : Nat) : Nat := (List.range n).countP P

theorem cnt_zero (P : Nat → Bool) : cnt P 0 = 0 := by simp [cnt]

theorem cnt_succ (P : Nat → Bool) (n : Nat) : cnt P (n + 1) = cnt P n + (if P n then 1 else 0) := by
  simp [cnt, List.range_succ, List.countP_append, List.countP_cons]

theorem cnt_le (P : Nat → Bool) (n : Nat) : cnt P n ≤ n := by
  have := List.countP_le_length (p := P) (l := List.range n)
  simpa [cnt] using this

theorem cnt_congr {P Q : Nat → Bool} {n : Nat} (h : ∀ i, i < n → P i = Q i) : cnt P n = cnt Q n := by
  induction n with
  | zero => simp [cnt_zero]
  | succ n ih =>
    rw [cnt_succ, cnt_succ, ih (fun i hi => h i (by omega)), h n (by omega)]

theorem cnt_mono {P Q : Nat → Bool} {n : Nat} (h : ∀ i, i < n → P i = true → Q i = true) : cnt P n ≤ cnt Q n := by
  induction n with
  | zero => simp [cnt_zero]
  | succ n ih =>
    rw [cnt_succ, cnt_succ]
    have := ih (fun i hi => h i (by omega))
    have h2 := h n (by omega)
    by_cases hp : P n = true
    · simp [hp, h2 hp]; omega
    · simp [hp]; omega

theorem cnt_false {P : Nat → Bool} {n : Nat} (h : ∀ i, i < n → P i = false) : cnt P n = 0 := by
  induction n with
  | zero => simp [cnt_zero]
  | succ n ih => rw [cnt_succ, ih (fun i hi => h i (by omega)), h n (by omega)]; simp

/-- `Q` differs from `P` only at `idx`, where it turns from false to true -/
theorem cnt_flip_true {P Q : Nat → Bool} {n idx : Nat} (hidx : idx < n) (hp : P idx = false) (hq : Q idx = true)
    (hrest : ∀ i, i ≠ idx → Q i = P i) : cnt Q n = cnt P n + 1 := by
  induction n with
  | zero => omega
  | succ n ih =>
    rw [cnt_succ, cnt_succ]
    by_cases h : idx = n
    · subst h
      rw [cnt_congr (P := Q) (Q := P) (fun i hi => hrest i (by omega))]
      simp [hp, hq]
    · rw [ih (by omega), hrest n (by omega)]
      omega

/-- `Q` differs from `P` only at `idx`, where it turns from true to false -/
theorem cnt_flip_false {P Q : Nat → Bool} {n idx : Nat} (hidx : idx < n) (hp : P idx = true) (hq : Q idx = false)
    (hrest : ∀ i, i ≠ idx → Q i = P i) : cnt Q n + 1 = cnt P n := by
  have := cnt_flip_true (P := Q) (Q := P) hidx hq hp (fun i hi => (hrest i hi).symm)
  omega

/-- pigeonhole: `c` pairwise different indices below `n` that satisfy `P` -/
theorem pigeonhole (P : Nat → Bool) (f : Nat → Nat) (c n : Nat) (hlt : ∀ i, i < c → f i < n)
    (hinj : ∀ i j, i < j → j < c → f i ≠ f j) (hP : ∀ i, i < c → P (f i) = true) : c ≤ cnt P n := by
  have hnd : ((List.range c).map f).Nodup := by
    rw [List.nodup_map_iff_inj_on (List.nodup_range)]
    intro i hi j hj hij
    simp only [List.mem_range] at hi hj
    by_contra hne
    rcases Nat.lt_or_gt_of_ne hne with h | h
    · exact hinj i j h hj hij
    · exact hinj j i h hi hij.symm
  have hsub : (List.range c).map f ⊆ (List.range n).filter P := by
    intro x hx
    simp only [List.mem_map, List.mem_range] at hx
    obtain ⟨i, hi, rfl⟩ := hx
    simp only [List.mem_filter, List.mem_range]
    exact ⟨hlt i hi, hP i hi⟩
  have := (List.subperm_of_subset hnd hsub).length_le
  simpa [cnt, List.countP_eq_length_filter] using this

theorem length_filterMap_range {α : Type} (f : Nat → Option α) (n : Nat) :
    ((List.range n).filterMap f).length = cnt (fun i => (f i).isSome) n := by
  induction n with
  | zero => simp [cnt_zero]
  | succ n ih =>
    rw [List.range_succ, List.filterMap_append, List.length_append, ih, cnt_succ]
    cases h : f n <;> simp [h]

/-! ### the Spec map -/
namespace Spec
variable {K V : Type} [DecidableEq K]

def NodupKeys (s : Map K V) : Prop := (s.map Prod.fst).Nodup

theorem nodupKeys_nil : NodupKeys ([] : Map K V) := by simp [NodupKeys]

theorem NodupKeys.nodup {s : Map K V} (h : NodupKeys s) : s.Nodup := List.Nodup.of_map _ h

theorem mem_erase {s : Map K V} {k k' : K} {v' : V} : (k', v') ∈ Map.erase s k ↔ k' ≠ k ∧ (k', v') ∈ s := by
  simp [Map.erase, List.mem_filter, and_comm]

theorem mem_insert {s : Map K V} {k k' : K} {v v' : V} :
    (k', v') ∈ Map.insert s k v ↔ (k' = k ∧ v' = v) ∨ (k' ≠ k ∧ (k', v') ∈ s) := by
  simp [Map.insert, mem_erase]

theorem nodupKeys_erase {s : Map K V} (h : NodupKeys s) (k : K) : NodupKeys (Map.erase s k) := by
  unfold NodupKeys Map.erase
  exact (List.Nodup.sublist (List.Sublist.map _ List.filter_sublist) h)

theorem nodupKeys_insert {s : Map K V} (h : NodupKeys s) (k : K) (v : V) : NodupKeys (Map.insert s k v) := by
  unfold Map.insert NodupKeys
  rw [List.map_cons, List.nodup_cons]
  refine ⟨?_, nodupKeys_erase h k⟩
  intro hm
  rw [List.mem_map] at hm
  obtain ⟨⟨k', v'⟩, hmem, hk⟩ := hm
  exact (mem_erase.1 hmem).1 hk

theorem lookup_eq_some_iff {s : Map K V} (hs : NodupKeys s) {k : K} {v : V} :
    Map.lookup s k = some v ↔ (k, v) ∈ s := by
  induction s with
  | nil => simp [Map.lookup]
  | cons e r ih =>
    obtain ⟨k', v'⟩ := e
    have hs' : k' ∉ r.map Prod.fst ∧ NodupKeys r := by
      simpa [NodupKeys, List.nodup_cons] using hs
    unfold Map.lookup
    by_cases hk : k' = k
    · subst hk
      simp only [if_true, List.mem_cons, Prod.mk.injEq, true_and]
      constructor
      · intro h; left; exact (Option.some.inj h).symm
      · rintro (h | h)
        · rw [h]
        · exact absurd (List.mem_map_of_mem (f := Prod.fst) h) hs'.1
    · simp only [hk, if_false, List.mem_cons, Prod.mk.injEq]
      rw [ih hs'.2]
      constructor
      · intro h; right; exact h
      · rintro (⟨h, _⟩ | h)
        · exact absurd h.symm hk
        · exact h

theorem lookup_eq_none_iff {s : Map K V} {k : K} : Map.lookup s k = none ↔ ∀ v, (k, v) ∉ s := by
  induction s with
  | nil => simp [Map.lookup]
  | cons e r ih =>
    obtain ⟨k', v'⟩ := e
    unfold Map.lookup
    by_cases hk : k' = k
    · subst hk
      simp only [if_true, List.mem_cons, Prod.mk.injEq, true_and]
      constructor
      · intro h; cases h
      · intro h; exact absurd (Or.inl rfl) (h v')
    · simp only [hk, if_false, List.mem_cons, Prod.mk.injEq, ih]
      constructor
      · intro h v hv
        rcases hv with ⟨h1, _⟩ | h1
        · exact hk h1.symm
        · exact h v h1
      · intro h v hv
        exact h v (Or.inr hv)

end Spec
end AlgoVerif.C02
