import AlgoVerif.Proofs.C17Forest
/-!
The invariant shared by quick-union and weighted quick-union, and the behaviour of the modelled
`Find` / `Union` / `IsConnected` under it.
-/
namespace AlgoVerif.C17
open AlgoVerif.C17.Spec

/-- what holds of the parent array `a` and the counter `cnt` after the history `us` -/
structure QUInv (n : Nat) (us : List (Int × Int)) (a : Array Int) (cnt : Int) : Prop where
  forest : Forest n a cnt
  repr : ∃ rt : Int → Int, Represents n us rt ∧ ∀ i, Valid n i → Reaches n a i (rt i)
  merges : cnt + numMerges n us = n

theorem QUInv.init (n : Nat) : QUInv n [] (iota n) n where
  forest := Forest.iota n
  repr := by
    refine ⟨id, ⟨fun _ h => h, fun _ _ => rfl, ?_⟩, fun i hi => .root hi (par_iota hi)⟩
    intro i j hi hj
    constructor
    · intro h; have : i = j := h; subst this; exact .refl hi
    · intro h
      show i = j
      induction h with
      | refl => rfl
      | pair hm => simp at hm
      | symm _ ih => exact (ih hj hi).symm
      | trans h1 h2 ih1 ih2 => exact (ih1 hi h1.valid_left.2).trans (ih2 h1.valid_left.2 hj)
  merges := by simp [numMerges, mergesAfter]

theorem Represents.congr {n us us' rt} (R : Represents n us rt)
    (h : ∀ i j, Conn n us i j ↔ Conn n us' i j) : Represents n us' rt :=
  ⟨R.valid, R.idem, fun i j hi hj => (R.conn i j hi hj).trans (h i j)⟩

/-- a `Union` call that returns early -/
theorem QUInv.skip {n us a cnt p q} (I : QUInv n us a cnt)
    (h : ¬ (Valid n p ∧ Valid n q) ∨ Conn n us p q) : QUInv n (us ++ [(p, q)]) a cnt where
  forest := I.forest
  repr := by
    obtain ⟨rt, R, hre⟩ := I.repr
    exact ⟨rt, R.skip h, hre⟩
  merges := by rw [numMerges_skip h]; exact I.merges

/-- `root[rp] = rq` where `rp`, `rq` are the different roots of `p`, `q` -/
theorem QUInv.link {n us a cnt p q rp rq} (I : QUInv n us a cnt)
    (hp : Reaches n a p rp) (hq : Reaches n a q rq) (hne : rp ≠ rq) :
    QUInv n (us ++ [(p, q)]) (a.setIfInBounds rp.toNat rq) (cnt - 1) := by
  obtain ⟨rt, R, hre⟩ := I.repr
  have hvp := hp.valid_left
  have hvq := hq.valid_left
  have hrp : rt p = rp := (hre p hvp).unique hp
  have hrq : rt q = rq := (hre q hvq).unique hq
  have hnc : ¬ Conn n us p q := fun h => hne (by rw [← hrp, ← hrq]; exact (R.conn p q hvp hvq).2 h)
  refine ⟨I.forest.link hp.is_root.1 hp.is_root.2 hq.is_root.1 hq.is_root.2 hne, ?_, ?_⟩
  · refine ⟨_, R.merge hvp hvq, fun i hi => ?_⟩
    have := (hre i hi).link I.forest.size hp.is_root.1 hp.is_root.2 hq.is_root.1 hq.is_root.2 hne
    simpa [hrp, hrq] using this
  · rw [numMerges_merge hvp hvq hnc]; have := I.merges; omega

/-- the same with the link made in the other direction (weighted quick-union's `else` branch) -/
theorem QUInv.link_rev {n us a cnt p q rp rq} (I : QUInv n us a cnt)
    (hp : Reaches n a p rp) (hq : Reaches n a q rq) (hne : rp ≠ rq) :
    QUInv n (us ++ [(p, q)]) (a.setIfInBounds rq.toNat rp) (cnt - 1) := by
  have J := I.link hq hp (fun h => hne h.symm)
  obtain ⟨rt, R, hre⟩ := J.repr
  refine ⟨J.forest, ⟨rt, R.congr (fun i j => conn_snoc_swap), hre⟩, ?_⟩
  have hvp := hp.valid_left
  have hvq := hq.valid_left
  obtain ⟨rt0, R0, hre0⟩ := I.repr
  have hnc : ¬ Conn n us p q := fun h => hne (by
    rw [← (hre0 p hvp).unique hp, ← (hre0 q hvq).unique hq]; exact (R0.conn p q hvp hvq).2 h)
  rw [numMerges_merge hvp hvq hnc]; have := I.merges; omega

/-- the root `Find` computes, as a function (any representative function does) -/
theorem QUInv.findLoop_eq {n us a cnt i r} (I : QUInv n us a cnt) (h : Reaches n a i r) :
    findLoop a a.size i = .ok r := by
  rw [I.forest.size]; exact I.forest.findLoop_eq h

theorem isValid_iff {n : Nat} {a : Array Int} (hs : a.size = n) (i : Int) :
    ((decide (0 ≤ i) && decide (i < (a.size : Int))) = true) ↔ Valid n i := by
  simp [Valid, hs]

end AlgoVerif.C17
