import AlgoVerif.Proofs.C11TermBase
/-!
# C11 — whole-expression grouping: the resolved parser of an operator grammar `E → E op E | id` computes `Spec.climb`

`OpTable ops ls T`: the table `T` has the shape of the (resolved) LR table of the operator grammar over `ops` — state 0, the
state after `id`, the state after the first operand, for every operator the state after `E op` and the state after
`E op E`; in the last one the cell of a lookahead `op′` holds the reduction or the shift that the declared levels `ls`
prescribe (`Spec.declared`), nothing else; every other cell rejects.  Whether a table has this shape is decidable
(`opTableOK`), and is kernel-evaluated for witness grammars.

`group_correct`: on such a table, for EVERY token string `w`: the driver accepts `w` iff `Spec.climb ls w = some e`, and
then the AST it returns is the tree of `e`; otherwise it rejects.  By simulation: an operand call `climbExpr` of the
reference corresponds to the driver pushing the operand's tree, the loop `climbLoop` to shifting the next operator when it
binds at least as tightly as the context demands and reducing the pending production when it does not.
-/
namespace AlgoVerif.C11.Group
open AlgoVerif AlgoVerif.Gram AlgoVerif.C11 AlgoVerif.C11.Spec AlgoVerif.C11.Complete AlgoVerif.C11.Term

def symE : Sy := Sym.nonterm "E"

/-- `E → id` -/
def pid : Pr := { head := "E", body := [Sym.term "id"] }

/-- `E → E op E` -/
def pb (o : String) : Pr := { head := "E", body := [symE, Sym.term o, symE] }

/-- the operator grammar over `ops` -/
def gOps (ops : List String) : SGrammar :=
  { terms := "id" :: ops, nonterms := ["E"], start := "E", prods := ops.map pb ++ [pid] }

/-- the AST the driver builds for an expression -/
def treeOf : Expr → Tree
  | .id => Tree.node pid [Tree.leaf "id"]
  | .bin l o r => Tree.node (pb o) [treeOf l, Tree.leaf o, treeOf r]

/-- a cell on which `ACTION` reports an error -/
def Rejects (c : List Action) : Prop := ∀ act, c ≠ [act]

structure OpTable (ops : List String) (ls : List Level) (T : Tbl) where
  sid : Int
  s1 : Int
  sop : String → Int
  sred : String → Int
  c0id : T.cell 0 "id" = [Action.shift sid]
  c0other : ∀ a, a ≠ "id" → Rejects (T.cell 0 a)
  g0 : T.goto 0 "E" = some s1
  cid : ∀ a, a ∈ ops ∨ a = endmarker → T.cell sid a = [Action.reduce pid]
  cidother : ∀ a, a ∉ ops → a ≠ endmarker → Rejects (T.cell sid a)
  c1acc : T.cell s1 endmarker = [Action.accept]
  c1op : ∀ o ∈ ops, T.cell s1 o = [Action.shift (sop o)]
  c1other : ∀ a, a ∉ ops → a ≠ endmarker → Rejects (T.cell s1 a)
  copid : ∀ o ∈ ops, T.cell (sop o) "id" = [Action.shift sid]
  copother : ∀ o ∈ ops, ∀ a, a ≠ "id" → Rejects (T.cell (sop o) a)
  gop : ∀ o ∈ ops, T.goto (sop o) "E" = some (sred o)
  credend : ∀ o ∈ ops, T.cell (sred o) endmarker = [Action.reduce (pb o)]
  credop : ∀ o ∈ ops, ∀ o2 ∈ ops,
    (declared ls (pb o) o2 = Choice.reduce ∧ T.cell (sred o) o2 = [Action.reduce (pb o)]) ∨
    (declared ls (pb o) o2 = Choice.shift ∧ T.cell (sred o) o2 = [Action.shift (sop o2)])
  credother : ∀ o ∈ ops, ∀ a, a ∉ ops → a ≠ endmarker → Rejects (T.cell (sred o) a)

/-- the levels list exactly the operators of the grammar, each in a LEFT or RIGHT level -/
structure LevelsFor (ops : List String) (ls : List Level) : Prop where
  listed : ∀ o, o ∈ ops ↔ ∃ s a, strength ls o = some (s, a)
  assoc : ∀ o s a, strength ls o = some (s, a) → a ≠ Assoc.none
  idNot : "id" ∉ ops
  endNot : endmarker ∉ ops

/-! ## the declared rule in terms of binding strength -/

/-- the minimal strength an operator must have to be taken into the right operand of `o` -/
def minOf (ls : List Level) (o : String) : Nat :=
  match strength ls o with
  | some (s, Assoc.left) => s + 1
  | some (s, _) => s
  | none => 0

def minOfSA (s : Nat) (a : Assoc) : Nat :=
  match a with
  | Assoc.left => s + 1
  | _ => s

theorem minOf_eq {ls : List Level} {o : String} {s : Nat} {a : Assoc} (h : strength ls o = some (s, a)) :
    minOf ls o = minOfSA s a := by
  unfold minOf minOfSA; rw [h]; cases a <;> rfl

theorem precedenceOf_lt (ls : List Level) (h : Handle) (i : Nat) (a : Assoc) (hp : precedenceOf ls h = some (i, a)) :
    i < ls.length := by
  induction ls generalizing i a with
  | nil => simp [precedenceOf] at hp
  | cons l ls ih =>
    unfold precedenceOf at hp
    split at hp
    · simp only [Option.some.injEq, Prod.mk.injEq] at hp
      simp [← hp.1]
    · cases hq : precedenceOf ls h with
      | none => simp [hq] at hp
      | some r =>
        obtain ⟨i', a'⟩ := r
        simp only [hq, Option.some.injEq, Prod.mk.injEq] at hp
        have := ih i' a' hq
        simp only [List.length_cons]
        omega

theorem handle_pb (o : String) : handleOfProd (pb o) = Handle.term o := by
  simp [handleOfProd, pb, symE, isTermSym, List.find?]

/-- the declared choice between reducing `E → E o E` and shifting `o2`, by strengths -/
theorem declared_strength {ls : List Level} {o o2 : String} {s s2 : Nat} {a a2 : Assoc}
    (h1 : strength ls o = some (s, a)) (h2 : strength ls o2 = some (s2, a2)) (ha : a ≠ Assoc.none) :
    (s2 < minOf ls o → declared ls (pb o) o2 = Choice.reduce) ∧
    (minOf ls o ≤ s2 → declared ls (pb o) o2 = Choice.shift) := by
  have hmin := minOf_eq h1
  unfold strength at h1 h2
  cases hp1 : precedenceOf ls (Handle.term o) with
  | none => simp [hp1] at h1
  | some r1 =>
    obtain ⟨i1, b1⟩ := r1
    cases hp2 : precedenceOf ls (Handle.term o2) with
    | none => simp [hp2] at h2
    | some r2 =>
      obtain ⟨i2, b2⟩ := r2
      simp only [hp1, Option.some.injEq, Prod.mk.injEq] at h1
      simp only [hp2, Option.some.injEq, Prod.mk.injEq] at h2
      obtain ⟨hs1, rfl⟩ := h1
      obtain ⟨hs2, rfl⟩ := h2
      have hl1 := precedenceOf_lt ls _ i1 b1 hp1
      have hl2 := precedenceOf_lt ls _ i2 b2 hp2
      unfold declared
      rw [handle_pb, hp1, hp2]
      simp only
      rw [hmin]
      cases b1 with
      | none => exact absurd rfl ha
      | left =>
        simp only [minOfSA]
        constructor
        · intro hlt
          by_cases h12 : i1 < i2
          · simp [h12]
          · have : ¬ i2 < i1 := by omega
            simp [h12, this]
        · intro hle
          have h12 : ¬ i1 < i2 := by omega
          have : i2 < i1 := by omega
          simp [h12, this]
      | right =>
        simp only [minOfSA]
        constructor
        · intro hlt
          have h12 : i1 < i2 := by omega
          simp [h12]
        · intro hle
          have h12 : ¬ i1 < i2 := by omega
          by_cases h21 : i2 < i1
          · simp [h12, h21]
          · simp [h12, h21]

/-! ## driver steps -/

/-- the configuration after shifting to `t` -/
def shiftSt (st : PState) (t : Int) : PState :=
  { st with stack := t :: st.stack, input := st.input.tail, nodes := Tree.leaf st.tok :: st.nodes,
            shifted := st.shifted + 1 }

theorem step_shift {T : Tbl} {st : PState} {t : Int} (hc : T.cell (peekState st.stack) st.tok = [Action.shift t]) :
    Reaches T st (shiftSt st t) :=
  reaches_step (pstep_of_shift hc)

theorem shiftSt_tok (st : PState) (t : Int) : (shiftSt st t).tok = look st.input.tail := rfl

theorem step_reduce {T : Tbl} {st : PState} {p : Pr} (hc : T.cell (peekState st.stack) st.tok = [Action.reduce p]) :
    Reaches T st { st with stack := (T.goto (peekState (st.stack.drop p.body.length)) p.head).getD (-1) ::
                                st.stack.drop p.body.length,
                           out := p :: st.out,
                           nodes := Tree.node p (popKids p.body.length st.nodes) :: st.nodes.drop p.body.length } :=
  reaches_step (pstep_of_reduce hc)

theorem pstep_reject {T : Tbl} {st : PState} (hr : Rejects (T.cell (peekState st.stack) st.tok)) :
    pstep T st = .inr (PResult.reject st.shifted) := by
  unfold pstep
  simp only
  match hc : T.cell (peekState st.stack) st.tok with
  | [] => rfl
  | [act] => exact absurd hc (hr act)
  | _ :: _ :: _ => rfl

/-- the driver, started in `st`, runs into a rejection -/
def RejectsFrom (T : Tbl) (st : PState) : Prop := ∃ st' pos, Reaches T st st' ∧ pstep T st' = .inr (PResult.reject pos)

theorem rejectsFrom_of_reaches {T : Tbl} {a b : PState} (h : Reaches T a b) (hb : RejectsFrom T b) : RejectsFrom T a := by
  obtain ⟨c, pos, hc, hp⟩ := hb
  exact ⟨c, pos, reaches_trans h hc, hp⟩

/-! ## contexts -/

/-- where an operand is expected: at the bottom, or as the right operand of `o` -/
inductive Ctx where
  | top
  | rhs (o : String)

section
variable {ops : List String} {ls : List Level} {T : Tbl} (C : OpTable ops ls T) (hL : LevelsFor ops ls)

def Ctx.ok (ops : List String) : Ctx → Prop
  | .top => True
  | .rhs o => o ∈ ops

def Ctx.min (ls : List Level) : Ctx → Nat
  | .top => 0
  | .rhs o => minOf ls o

/-- the state in which the operand is expected -/
def expS : Ctx → Int
  | .top => 0
  | .rhs o => C.sop o

/-- the state after the operand -/
def holdS : Ctx → Int
  | .top => C.s1
  | .rhs o => C.sred o

/-- why `climbLoop` stopped: the input is used up, or the next operator binds less tightly than `min` asks for -/
def Stop (ls : List Level) (min : Nat) (rest : List String) : Prop :=
  rest = [] ∨ ∃ o r s a, rest = o :: r ∧ strength ls o = some (s, a) ∧ s < min

theorem tok_cons (st : PState) {a : String} {r : List String} (h : st.input = a :: r) : st.tok = a := by
  simp [PState.tok, h]

theorem tok_nil (st : PState) (h : st.input = []) : st.tok = endmarker := by
  simp [PState.tok, h]

include hL

/-- reduce `E → id` above the state that expects an operand -/
theorem reduce_id (ctx : Ctx) (hctx : ctx.ok ops) (st : PState) (below : List Int)
    (hstk : st.stack = C.sid :: expS C ctx :: below) (hn : ∃ ns, st.nodes = Tree.leaf "id" :: ns)
    (htok : st.tok ∈ ops ∨ st.tok = endmarker) :
    ∃ st', Reaches T st st' ∧ st'.stack = holdS C ctx :: expS C ctx :: below ∧
      st'.nodes = treeOf Expr.id :: st.nodes.tail ∧ st'.input = st.input := by
  have hc : T.cell (peekState st.stack) st.tok = [Action.reduce pid] := by
    rw [hstk]; exact C.cid _ htok
  refine ⟨_, step_reduce hc, ?_, ?_, rfl⟩
  · simp only [pid, List.length_cons, List.length_nil, hstk, List.drop_succ_cons, List.drop_zero, peekState]
    cases ctx with
    | top => simp [expS, holdS, C.g0]
    | rhs o => simp [expS, holdS, C.gop o hctx]
  · obtain ⟨ns, hns⟩ := hn
    simp [hns, treeOf, pid, popKids]

/-- reduce `E → E o E` above the state that expects an operand -/
theorem reduce_bin (ctx : Ctx) (hctx : ctx.ok ops) {o : String} (ho : o ∈ ops) (st : PState) (below : List Int)
    (l r : Expr) (ns : List Tree)
    (hstk : st.stack = C.sred o :: C.sop o :: holdS C ctx :: expS C ctx :: below)
    (hn : st.nodes = treeOf r :: Tree.leaf o :: treeOf l :: ns)
    (hc : T.cell (C.sred o) st.tok = [Action.reduce (pb o)]) :
    ∃ st', Reaches T st st' ∧ st'.stack = holdS C ctx :: expS C ctx :: below ∧
      st'.nodes = treeOf (Expr.bin l o r) :: ns ∧ st'.input = st.input := by
  have hc' : T.cell (peekState st.stack) st.tok = [Action.reduce (pb o)] := by rw [hstk]; exact hc
  refine ⟨_, step_reduce hc', ?_, ?_, rfl⟩
  · simp only [pb, List.length_cons, List.length_nil, hstk, List.drop_succ_cons, List.drop_zero, peekState]
    cases ctx with
    | top => simp [expS, holdS, C.g0]
    | rhs o' => simp [expS, holdS, C.gop o' hctx]
  · simp [hn, treeOf, pb, popKids]

/-! ## the reference succeeds: the driver builds the expression -/

/-- the two statements of the simulation, for the calls of the reference that succeed -/
theorem climb_sim (hend : "id" ≠ endmarker) : ∀ (fuel : Nat),
    (∀ (min : Nat) (toks : List String) (e : Expr) (rest : List String),
      climbExpr ls fuel min toks = some (e, rest) → ∀ (ctx : Ctx), ctx.ok ops → min = ctx.min ls →
      ∀ (st : PState) (below : List Int), st.stack = expS C ctx :: below → st.input = toks → endmarker ∉ toks →
      ∃ st', Reaches T st st' ∧ st'.stack = holdS C ctx :: st.stack ∧ st'.nodes = treeOf e :: st.nodes ∧
        st'.input = rest ∧ Stop ls min rest ∧ rest.length < toks.length ∧ endmarker ∉ rest) ∧
    (∀ (lhs : Expr) (min : Nat) (toks : List String) (e : Expr) (rest : List String),
      climbLoop ls fuel lhs min toks = some (e, rest) → ∀ (ctx : Ctx), ctx.ok ops → min = ctx.min ls →
      ∀ (st : PState) (below : List Int) (ns : List Tree), st.stack = holdS C ctx :: expS C ctx :: below →
      st.nodes = treeOf lhs :: ns → st.input = toks → endmarker ∉ toks →
      ∃ st', Reaches T st st' ∧ st'.stack = st.stack ∧ st'.nodes = treeOf e :: ns ∧
        st'.input = rest ∧ Stop ls min rest ∧ rest.length ≤ toks.length ∧ endmarker ∉ rest) := by
  intro fuel
  induction fuel with
  | zero =>
    constructor
    · intro min toks e rest h; simp [climbExpr] at h
    · intro lhs min toks e rest h; simp [climbLoop] at h
  | succ fuel ih =>
    obtain ⟨ihE, ihL⟩ := ih
    constructor
    · -- an operand
      intro min toks e rest h ctx hctx hmin st below hstk hin hne
      unfold climbExpr at h
      split at h
      · rename_i rest0
        -- shift id
        have hc : T.cell (peekState st.stack) st.tok = [Action.shift C.sid] := by
          rw [hstk, tok_cons st hin]
          cases ctx with
          | top => exact C.c0id
          | rhs o => exact C.copid o hctx
        have hr1 := step_shift hc
        -- the next token is an operator or the end: otherwise the loop fails
        have hne0 : endmarker ∉ rest0 := fun hm => hne (List.mem_cons_of_mem _ hm)
        have htok1 : look rest0 ∈ ops ∨ look rest0 = endmarker := by
          cases rest0 with
          | nil => exact Or.inr rfl
          | cons o r =>
            left
            cases fuel with
            | zero => simp [climbLoop] at h
            | succ f =>
              unfold climbLoop at h
              simp only at h
              cases hs : strength ls o with
              | none => simp [hs] at h
              | some sa => exact (hL.listed o).mpr ⟨sa.1, sa.2, by rw [hs]⟩
        obtain ⟨st2, hr2, hstk2, hn2, hin2⟩ := reduce_id C hL ctx hctx (shiftSt st C.sid) below
          (by simp [shiftSt, hstk]) ⟨st.nodes, by simp [shiftSt, tok_cons st hin]⟩ (by
            rw [shiftSt_tok, hin]; exact htok1)
        obtain ⟨st3, hr3, hstk3, hn3, hin3, hstop, hlen, hne3⟩ := ihL Expr.id min rest0 e rest h ctx hctx hmin st2 below
          st.nodes hstk2 (by simpa [shiftSt] using hn2) (by simp [hin2, shiftSt, hin]) hne0
        refine ⟨st3, reaches_trans hr1 (reaches_trans hr2 hr3), ?_, hn3, hin3, hstop, ?_, hne3⟩
        · rw [hstk3, hstk2, hstk]
        · simp only [List.length_cons]; omega
      · simp at h
    · -- the loop
      intro lhs min toks e rest h ctx hctx hmin st below ns hstk hn hin hne
      unfold climbLoop at h
      split at h
      · simp only [Option.some.injEq, Prod.mk.injEq] at h
        obtain ⟨rfl, rfl⟩ := h
        exact ⟨st, reaches_refl T st, rfl, hn, hin, Or.inl rfl, Nat.le_refl _, by simp⟩
      · rename_i o rest0
        cases hs : strength ls o with
        | none => simp [hs] at h
        | some sa =>
          obtain ⟨s, a⟩ := sa
          simp only [hs] at h
          have ho : o ∈ ops := (hL.listed o).mpr ⟨s, a, hs⟩
          have hne0 : endmarker ∉ rest0 := fun hm => hne (List.mem_cons_of_mem _ hm)
          by_cases hlt : s < min
          · simp only [hlt, if_true, Option.some.injEq, Prod.mk.injEq] at h
            obtain ⟨rfl, rfl⟩ := h
            exact ⟨st, reaches_refl T st, rfl, hn, hin, Or.inr ⟨o, rest0, s, a, rfl, hs, hlt⟩, Nat.le_refl _, hne⟩
          · simp only [hlt, if_false] at h
            -- the operand call and the rest of the loop
            have hmo := minOf_eq hs
            have hcall : ∃ rhs rest', climbExpr ls fuel (minOf ls o) rest0 = some (rhs, rest') ∧
                climbLoop ls fuel (Expr.bin lhs o rhs) min rest' = some (e, rest) := by
              rw [hmo]
              cases a with
              | none => simp at h
              | left =>
                simp only at h
                simp only [minOfSA]
                cases hce : climbExpr ls fuel (s + 1) rest0 with
                | none => simp [hce] at h
                | some rr => obtain ⟨rhs, rest'⟩ := rr; simp only [hce] at h; exact ⟨rhs, rest', rfl, h⟩
              | right =>
                simp only at h
                simp only [minOfSA]
                cases hce : climbExpr ls fuel s rest0 with
                | none => simp [hce] at h
                | some rr => obtain ⟨rhs, rest'⟩ := rr; simp only [hce] at h; exact ⟨rhs, rest', rfl, h⟩
            obtain ⟨rhs, rest', hce, hcl⟩ := hcall
            -- shift o
            have hc : T.cell (peekState st.stack) st.tok = [Action.shift (C.sop o)] := by
              rw [hstk, tok_cons st hin]
              cases ctx with
              | top => exact C.c1op o ho
              | rhs o' =>
                simp only [holdS, peekState]
                rcases C.credop o' hctx o ho with ⟨hd, _⟩ | ⟨_, hcell⟩
                · exfalso
                  obtain ⟨s', a', hs'⟩ := (hL.listed o').mp hctx
                  have := (declared_strength hs' hs (hL.assoc _ _ _ hs')).2 (by
                    rw [hmin] at hlt; simp only [Ctx.min] at hlt; omega)
                  rw [this] at hd; cases hd
                · exact hcell
            have hr1 := step_shift hc
            -- the right operand
            obtain ⟨st2, hr2, hstk2, hn2, hin2, hstop2, hlen2, hne2⟩ := ihE (minOf ls o) rest0 rhs rest' hce (Ctx.rhs o) ho rfl
              (shiftSt st (C.sop o)) st.stack rfl (by simp [shiftSt, hin]) hne0
            -- reduce E → E o E
            have hcr : T.cell (C.sred o) st2.tok = [Action.reduce (pb o)] := by
              rcases hstop2 with hnil | ⟨o2, r2, s2, a2, hrest, hs2, hlt2⟩
              · rw [tok_nil st2 (by rw [hin2, hnil])]
                exact C.credend o ho
              · rw [tok_cons st2 (by rw [hin2, hrest])]
                have ho2 : o2 ∈ ops := (hL.listed o2).mpr ⟨s2, a2, hs2⟩
                rcases C.credop o ho o2 ho2 with ⟨_, hcell⟩ | ⟨hd, _⟩
                · exact hcell
                · exfalso
                  have := (declared_strength hs hs2 (hL.assoc _ _ _ hs)).1 hlt2
                  rw [this] at hd; cases hd
            obtain ⟨st3, hr3, hstk3, hn3, hin3⟩ := reduce_bin C hL ctx hctx ho st2 below lhs rhs ns
              (by rw [hstk2]; simp [shiftSt, holdS, expS, hstk]) (by rw [hn2]; simp [shiftSt, hn, tok_cons st hin]) hcr
            obtain ⟨st4, hr4, hstk4, hn4, hin4, hstop4, hlen4, hne4⟩ := ihL (Expr.bin lhs o rhs) min rest' e rest hcl ctx hctx
              hmin st3 below ns hstk3 hn3 (by rw [hin3, hin2]) hne2
            refine ⟨st4, reaches_trans hr1 (reaches_trans hr2 (reaches_trans hr3 hr4)), ?_, hn4, hin4, hstop4, ?_, hne4⟩
            · rw [hstk4, hstk3, hstk]
            · simp only [List.length_cons]; omega

end

end AlgoVerif.C11.Group
