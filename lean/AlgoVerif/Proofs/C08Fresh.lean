import AlgoVerif.Proofs.C08Model
/-!
# Fresh non-terminals (`AddNewNonTerminal`), START, and derivable-production soundness
-/
namespace AlgoVerif.C08
open AlgoVerif AlgoVerif.Gram AlgoVerif.C08.Spec

theorem addNew_ok {g g1 : G} {pre n : String} {sufs : List String} (h : addNew g pre sufs = .ok (g1, n)) :
    n ∉ g.nonterms ∧ g1 = { g with nonterms := g.nonterms ++ [n] } := by
  unfold addNew at h
  split at h
  · rename_i m hm
    cases h
    have := List.find?_some hm
    exact ⟨by simpa using this, rfl⟩
  · cases h

/-- every production of `g'` is a derivation of `g` (same non-terminal names) ⇒ derivations transfer -/
theorem Derives.of_derivable_prods {g g' : G} (h : ∀ p ∈ g'.prods, Derives g [Sym.nonterm p.head] p.body)
    {α β : List SSym} (d : Derives g' α β) : Derives g α β := by
  have hid : ∀ b : List SSym, b.map (mapSym id) = b := fun b => map_mapSym_id id b (fun _ _ => rfl)
  have := Derives.simulate (g := g) (g' := g') id (by intro p hp; rw [hid]; exact h p hp) d
  rwa [hid, hid] at this

/-- in a valid grammar a name that is not a declared non-terminal occurs in no production -/
theorem WellFormed.fresh_not_in {g : G} (hv : WellFormed g) {s : String} (hs : s ∉ g.nonterms) :
    ∀ p ∈ g.prods, p.head ≠ s ∧ Sym.nonterm s ∉ p.body := by
  intro p hp
  obtain ⟨_, h3⟩ := hv
  obtain ⟨hh, hb⟩ := h3 p hp
  refine ⟨fun e => hs (e ▸ hh), fun hm => hs ?_⟩
  exact hb _ hm

/-- soundness of adding productions for a fresh head `s'` whose bodies are derivable from `S`, next to
productions that do not mention `s'` and are derivable in `g`: `L(g') ⊆ L(g)` when `g'.start = s'`,
`g.start = S`. -/
theorem Language.of_fresh_start {g g' : G} {s' : String}
    (hstart : g'.start = s')
    (hprods : ∀ p ∈ g'.prods, Sym.nonterm s' ∉ p.body ∧
        ((p.head ≠ s' ∧ Derives g [Sym.nonterm p.head] p.body) ∨
         (p.head = s' ∧ Derives g [Sym.nonterm g.start] p.body)))
    {w : List String} (hw : Language g' w) : Language g w := by
  let φ : String → String := fun n => if n = s' then g.start else n
  have hφ : ∀ b : List SSym, Sym.nonterm s' ∉ b → b.map (mapSym φ) = b := by
    intro b hb
    apply map_mapSym_id
    intro n hn
    have : n ≠ s' := fun e => hb (e ▸ hn)
    simp [φ, this]
  refine Language.of_simulation φ (by simp [φ, hstart]) ?_ hw
  intro p hp
  obtain ⟨hb, hcase⟩ := hprods p hp
  rw [hφ _ hb]
  rcases hcase with ⟨hh, hd⟩ | ⟨hh, hd⟩
  · simp only [φ, hh, if_false]
    exact hd
  · simp only [φ, hh, if_true]
    exact hd

theorem cnfStart_language {g g' : G} (h : cnfStart g = .ok g') (hv : WellFormed g) (w : List String) :
    Language g' w ↔ Language g w := by
  unfold cnfStart at h
  split at h
  · cases hn : addNew g g.start primes with
    | ok r =>
      obtain ⟨g1, s'⟩ := r
      simp only [hn, bind, Outcome.bind, pure] at h
      cases h
      obtain ⟨hfresh, rfl⟩ := addNew_ok hn
      have hne : g.start ≠ s' := fun e => hfresh (e ▸ hv.1)
      constructor
      · intro hw
        refine Language.of_fresh_start (g := g) rfl ?_ hw
        intro p hp
        rcases mem_ins.mp hp with hp | rfl
        · obtain ⟨h1, h2⟩ := WellFormed.fresh_not_in hv hfresh p hp
          exact ⟨h2, Or.inl ⟨h1, Derives.of_prod hp⟩⟩
        · refine ⟨?_, Or.inr ⟨rfl, Derives.refl _⟩⟩
          simp
          exact fun e => hne e.symm
      · intro hw
        unfold Language at hw ⊢
        have hsub : ∀ p ∈ g.prods, p ∈ ins g.prods { head := s', body := [Sym.nonterm g.start] } :=
          fun p hp => mem_ins.mpr (Or.inl hp)
        have h1 : Derives (T := String) (N := String)
            { terms := g.terms, nonterms := g.nonterms ++ [s'],
              prods := ins g.prods { head := s', body := [Sym.nonterm g.start] }, start := s' }
            [Sym.nonterm s'] [Sym.nonterm g.start] :=
          Derives.of_prod (p := { head := s', body := [Sym.nonterm g.start] }) (mem_ins.mpr (Or.inr rfl))
        exact h1.trans (hw.mono hsub)
    | panic => simp [hn, bind, Outcome.bind] at h
    | diverge => simp [hn, bind, Outcome.bind] at h
  · cases h
    exact Iff.rfl

end AlgoVerif.C08
