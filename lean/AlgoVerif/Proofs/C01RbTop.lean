import AlgoVerif.Proofs.C01RbDelete
/-!
# C01 / C15: the LLRB table as a whole (`Put`, `Delete`, `DeleteMin`, `DeleteMax` with their root
recolouring) refines the abstract map and keeps the tree a left-leaning red-black tree
-/
namespace AlgoVerif.C01
open Tree

variable {K V : Type} {cmp : K → K → Int}

theorem nodes_eq_length : ∀ t : Tree K V, t.nodes = t.toList.length
  | .nil => rfl
  | .node l k v s h c r => by
    simp only [nodes_node, toList_node, List.length_append, List.length_cons, nodes_eq_length l,
      nodes_eq_length r]
    omega

theorem reddenRoot_spec {t : Tree K V} (ht : LLRB t) (hn : t.isNil = false) :
    RB (reddenRoot t) ∧ ((reddenRoot t).isRed = true ∨ (reddenRoot t).lt.isRed = true) ∧
      (reddenRoot t).toList = t.toList ∧ (reddenRoot t).sz = t.sz ∧ (reddenRoot t).nodes = t.nodes ∧
      (SizeOK t → SizeOKc (reddenRoot t)) ∧ (reddenRoot t).rt.isRed = false ∧
      bh (reddenRoot t) = bh (reddenRoot t).lt + (if (reddenRoot t).isRed then 0 else 1) := by
  rcases t with _ | ⟨l, k, v, s, h, c, r⟩
  · simp at hn
  · obtain ⟨hrb, hblack⟩ := ht
    simp only [isRed_node] at hblack; subst hblack
    simp only [RB_node] at hrb
    cases hl : l.isRed <;> simp_all [reddenRoot, SizeOKc, SizeOK]

theorem blackenIfAny_spec (t : Tree K V) (h : RB t) :
    LLRB (blackenIfAny t) ∧ (blackenIfAny t).toList = t.toList ∧ (SizeOK t → SizeOK (blackenIfAny t)) := by
  rcases t with _ | ⟨l, k, v, s, hh, c, r⟩
  · exact ⟨llrb_nil, rfl, id⟩
  · simp only [RB_node] at h
    exact ⟨⟨by simp [blackenIfAny, h.1, h.2.2.1, h.2.2.2.1, h.2.2.2.2], rfl⟩, rfl, id⟩

theorem remove_of_get_none {key : K} {m : Spec.Map K V} (h : Spec.get cmp key m = none) :
    Spec.remove cmp key m = m := by
  unfold Spec.get at h
  simp only [Option.map_eq_none_iff] at h
  have := List.find?_eq_none.1 h
  exact List.filter_eq_self.2 (fun x hx => by simpa using this x hx)

theorem mem_of_get_some {key : K} {m : Spec.Map K V} {v : V} (h : Spec.get cmp key m = some v) :
    ∃ x ∈ m, cmp key x.1 = 0 := by
  unfold Spec.get at h
  simp only [Option.map_eq_some_iff] at h
  obtain ⟨x, hx, -⟩ := h
  exact ⟨x, List.mem_of_find?_eq_some hx, by simpa using List.find?_some hx⟩

/-- the invariant of the LLRB table -/
def GoodRB (cmp : K → K → Int) (t : Tree K V) : Prop := Inv cmp t ∧ LLRB t

theorem rbDeleteRoot_ok (h : LawfulCmp cmp) (key : K) {t : Tree K V} (ht : GoodRB cmp t) :
    ∃ t', rbDeleteRoot cmp t key = .ok (t', Spec.get cmp key t.toList) ∧ GoodRB cmp t' ∧
      t'.toList = Spec.remove cmp key t.toList := by
  obtain ⟨⟨hs, hz⟩, hl⟩ := ht
  rcases hn : t with _ | ⟨l, k, v, s, hh, c, r⟩
  · exact ⟨.nil, rfl, ⟨inv_nil, llrb_nil⟩, rfl⟩
  · rw [← hn]
    have hnn : t.isNil = false := by rw [hn]; rfl
    have hdef : rbDeleteRoot cmp t key =
        (match get cmp t key with
          | none => .ok (t, none)
          | some _ => do
            let t1 := reddenRoot t
            let (t', res) ← rbDelete cmp t1.sz t1 key
            pure (blackenIfAny t', res)) := by
      rw [hn]; rfl
    rw [hdef, get_eq h key hs]
    cases hg : Spec.get cmp key t.toList with
    | none =>
      refine ⟨t, rfl, ⟨⟨hs, hz⟩, hl⟩, ?_⟩
      rw [remove_of_get_none hg]
    | some val =>
      obtain ⟨a1, a2, a3, a4, a5, a6, a7, a8⟩ := reddenRoot_spec hl hnn
      have hfuel : (reddenRoot t).nodes ≤ (reddenRoot t).sz := by
        rw [a5, a4, sz_eq_length hz, nodes_eq_length]; exact Nat.le_refl _
      obtain ⟨out, e1, e2, e3, e4, e5, e6⟩ := rbDelete_ok h key (reddenRoot t).sz (reddenRoot t) hfuel
        (preR_of_RB a1 a2) (by rw [a3]; exact hs) (by rw [a3]; exact mem_of_get_some hg)
        (fun _ _ _ hrr => by rw [a7] at hrr; exact absurd hrr (by simp))
      obtain ⟨b1, b2, b3⟩ := blackenIfAny_spec out e4
      refine ⟨blackenIfAny out, ?_, ⟨⟨?_, b3 (e3 (a6 hz))⟩, b1⟩, ?_⟩
      · simp only [e1, Outcome.ok_bind', Outcome.pure_eq', a3, hg]
      · rw [b2, e2, a3]; exact Sorted.filter _ hs
      · rw [b2, e2, a3]

theorem rbDeleteMinRoot_ok {t : Tree K V} (ht : GoodRB cmp t) :
    ∃ t', rbDeleteMinRoot t = .ok (t', Spec.first t.toList) ∧ GoodRB cmp t' ∧ t'.toList = t.toList.tail := by
  obtain ⟨⟨hs, hz⟩, hl⟩ := ht
  rcases hn : t with _ | ⟨l, k, v, s, hh, c, r⟩
  · exact ⟨.nil, rfl, ⟨inv_nil, llrb_nil⟩, rfl⟩
  · rw [← hn]
    have hnn : t.isNil = false := by rw [hn]; rfl
    have hdef : rbDeleteMinRoot t =
        (do let t1 := reddenRoot t
            let (t', m) ← rbDeleteMin t1.sz t1
            pure (blackenIfAny t', some m)) := by
      rw [hn]; rfl
    rw [hdef]
    obtain ⟨a1, a2, a3, a4, a5, a6, a7, a8⟩ := reddenRoot_spec hl hnn
    have hfuel : (reddenRoot t).nodes ≤ (reddenRoot t).sz := by
      rw [a5, a4, sz_eq_length hz, nodes_eq_length]; exact Nat.le_refl _
    obtain ⟨out, m, e1, e2, e3, e4, e5, e6⟩ := rbDeleteMin_ok (reddenRoot t).sz (reddenRoot t) hfuel a1 a2
    obtain ⟨b1, b2, b3⟩ := blackenIfAny_spec out e4
    rw [a3] at e2
    refine ⟨blackenIfAny out, ?_, ⟨⟨?_, b3 (e3 (a6 hz))⟩, b1⟩, ?_⟩
    · simp only [e1, Outcome.ok_bind', Outcome.pure_eq', Spec.first, e2, List.head?_cons]
    · rw [b2]
      have := Sorted.tail hs
      rw [e2] at this
      exact this
    · rw [b2, e2]; rfl

theorem rbDeleteMaxRoot_ok {t : Tree K V} (ht : GoodRB cmp t) :
    ∃ t', rbDeleteMaxRoot t = .ok (t', Spec.last t.toList) ∧ GoodRB cmp t' ∧ t'.toList = t.toList.dropLast := by
  obtain ⟨⟨hs, hz⟩, hl⟩ := ht
  rcases hn : t with _ | ⟨l, k, v, s, hh, c, r⟩
  · exact ⟨.nil, rfl, ⟨inv_nil, llrb_nil⟩, rfl⟩
  · rw [← hn]
    have hnn : t.isNil = false := by rw [hn]; rfl
    have hdef : rbDeleteMaxRoot t =
        (do let t1 := reddenRoot t
            let (t', m) ← rbDeleteMax t1.sz t1
            pure (blackenIfAny t', some m)) := by
      rw [hn]; rfl
    rw [hdef]
    obtain ⟨a1, a2, a3, a4, a5, a6, a7, a8⟩ := reddenRoot_spec hl hnn
    have hfuel : (reddenRoot t).nodes ≤ (reddenRoot t).sz := by
      rw [a5, a4, sz_eq_length hz, nodes_eq_length]; exact Nat.le_refl _
    obtain ⟨out, m, e1, e2, e3, e4, e5, e6⟩ := rbDeleteMax_ok (reddenRoot t).sz (reddenRoot t) hfuel
      (preR_of_RB a1 a2)
    obtain ⟨b1, b2, b3⟩ := blackenIfAny_spec out e4
    rw [a3] at e2
    refine ⟨blackenIfAny out, ?_, ⟨⟨?_, b3 (e3 (a6 hz))⟩, b1⟩, ?_⟩
    · simp only [e1, Outcome.ok_bind', Outcome.pure_eq', Spec.last, e2, List.getLast?_concat]
    · rw [b2]
      have := Sorted.dropLast hs
      rw [e2, List.dropLast_concat] at this
      exact this
    · rw [b2, e2, List.dropLast_concat]

theorem rb_kindOK (h : LawfulCmp cmp) : KindOK (K := K) (V := V) .rb cmp (GoodRB cmp) where
  good_nil := ⟨inv_nil, llrb_nil⟩
  inv := fun _ ht => ht.1
  put := fun t k v ht => by
    obtain ⟨t', e1, e2, e3, e4⟩ := rbPutRoot_ok h k v ht.1.1
    exact ⟨t', e1, ⟨⟨by rw [e2]; exact sorted_upsert h k v ht.1.1, e3 ht.1.2⟩, e4 ht.2⟩, e2⟩
  delete := fun t k ht => rbDeleteRoot_ok h k ht
  deleteMin := fun t ht => rbDeleteMinRoot_ok ht
  deleteMax := fun t ht => rbDeleteMaxRoot_ok ht

end AlgoVerif.C01
