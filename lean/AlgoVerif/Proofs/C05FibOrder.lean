import AlgoVerif.Proofs.C05FibShape
import AlgoVerif.Proofs.C05Hole
/-!
# C05 helper: heap order of the indexed Fibonacci heap Model

`(parent id, child id)` pairs of child lists and root lists; `cutAndCascade`, `meld`, rotations only drop or
regroup pairs, `link` adds the pair it has just compared.
-/
namespace AlgoVerif.C05
open AlgoVerif.C05.Hole

namespace FT

def chainIds : FT → List Nat
  | nil => []
  | node id _ _ _ nx => id :: chainIds nx

def pairs : FT → List (Nat × Nat)
  | nil => []
  | node id _ _ c nx => (chainIds c).map (fun y => (id, y)) ++ (pairs c ++ pairs nx)

theorem mem_pairs_node {id : Nat} {d : Int} {m : Bool} {c nx : FT} {a b : Nat} :
    (a, b) ∈ pairs (node id d m c nx) ↔ (a = id ∧ b ∈ chainIds c) ∨ (a, b) ∈ pairs c ∨ (a, b) ∈ pairs nx := by
  simp only [pairs, List.mem_append, List.mem_map, Prod.mk.injEq]
  constructor
  · rintro (⟨y, hy, rfl, rfl⟩ | h | h)
    · exact Or.inl ⟨rfl, hy⟩
    · exact Or.inr (Or.inl h)
    · exact Or.inr (Or.inr h)
  · rintro (⟨rfl, hb⟩ | h | h)
    · exact Or.inl ⟨b, hb, rfl, rfl⟩
    · exact Or.inr (Or.inl h)
    · exact Or.inr (Or.inr h)

theorem chainIds_sub : ∀ (t : FT) (x : Nat), x ∈ chainIds t → x ∈ ids t
  | nil, _, h => by simp [chainIds] at h
  | node id d m c nx, x, h => by
    simp only [chainIds, List.mem_cons] at h
    simp only [ids, List.mem_cons, List.mem_append]
    rcases h with h | h
    · exact Or.inl h
    · exact Or.inr (Or.inr (chainIds_sub nx x h))

theorem pairs_mem_ids : ∀ (t : FT) (a b : Nat), (a, b) ∈ pairs t → a ∈ ids t ∧ b ∈ ids t
  | nil, _, _, h => by simp [pairs] at h
  | node id d m c nx, a, b, h => by
    simp only [ids, List.mem_cons, List.mem_append]
    rcases mem_pairs_node.mp h with ⟨rfl, hb⟩ | h | h
    · exact ⟨Or.inl rfl, Or.inr (Or.inl (chainIds_sub c b hb))⟩
    · have := pairs_mem_ids c a b h
      exact ⟨Or.inr (Or.inl this.1), Or.inr (Or.inl this.2)⟩
    · have := pairs_mem_ids nx a b h
      exact ⟨Or.inr (Or.inr this.1), Or.inr (Or.inr this.2)⟩

theorem chainIds_toList : ∀ t : FT, (toList t).map (·.id) = chainIds t
  | nil => rfl
  | node _ _ _ _ nx => by simp [toList, chainIds, chainIds_toList nx]

end FT

namespace FN
/-- the pairs of the tree rooted at `r` -/
def pairs (r : FN) : List (Nat × Nat) := (r.child.chainIds).map (fun y => (r.id, y)) ++ r.child.pairs

theorem mem_pairs {r : FN} {a b : Nat} :
    (a, b) ∈ pairs r ↔ (a = r.id ∧ b ∈ r.child.chainIds) ∨ (a, b) ∈ r.child.pairs := by
  simp only [pairs, List.mem_append, List.mem_map, Prod.mk.injEq]
  constructor
  · rintro (⟨y, hy, rfl, rfl⟩ | h)
    · exact Or.inl ⟨rfl, hy⟩
    · exact Or.inr h
  · rintro (⟨rfl, hb⟩ | h)
    · exact Or.inl ⟨b, hb, rfl, rfl⟩
    · exact Or.inr h

theorem pairs_mem_ids {r : FN} {a b : Nat} (h : (a, b) ∈ pairs r) : a ∈ ids r ∧ b ∈ r.child.ids := by
  rcases mem_pairs.mp h with ⟨rfl, hb⟩ | h
  · exact ⟨by simp [ids], FT.chainIds_sub _ _ hb⟩
  · have := FT.pairs_mem_ids _ _ _ h
    exact ⟨by simp [ids, this.1], this.2⟩
end FN

def rootsPairs (l : List FN) : List (Nat × Nat) := l.flatMap FN.pairs

theorem mem_rootsPairs {l : List FN} {p : Nat × Nat} : p ∈ rootsPairs l ↔ ∃ r, r ∈ l ∧ p ∈ FN.pairs r := by
  simp [rootsPairs]

theorem rootsPairs_cons (r : FN) (l : List FN) : rootsPairs (r :: l) = FN.pairs r ++ rootsPairs l := by
  simp [rootsPairs]

theorem rootsPairs_toList : ∀ (t : FT) (p : Nat × Nat), p ∈ rootsPairs (FT.toList t) ↔ p ∈ FT.pairs t
  | .nil, p => by simp [FT.toList, rootsPairs, FT.pairs]
  | .node id d m c nx, p => by
    obtain ⟨a, b⟩ := p
    rw [FT.toList, rootsPairs_cons, List.mem_append, rootsPairs_toList nx, FT.mem_pairs_node, FN.mem_pairs]
    simp only []
    constructor
    · rintro ((h | h) | h)
      · exact Or.inl h
      · exact Or.inr (Or.inl h)
      · exact Or.inr (Or.inr h)
    · rintro (h | h | h)
      · exact Or.inl (Or.inl h)
      · exact Or.inl (Or.inr h)
      · exact Or.inr h

theorem rootsPairs_mem_ids {l : List FN} {a b : Nat} (h : (a, b) ∈ rootsPairs l) :
    a ∈ rootsIds l ∧ b ∈ rootsIds l := by
  obtain ⟨r, hr, hp⟩ := mem_rootsPairs.mp h
  have := FN.pairs_mem_ids hp
  simp only [rootsIds, List.mem_flatMap]
  exact ⟨⟨r, hr, this.1⟩, ⟨r, hr, by simp [FN.ids, this.2]⟩⟩

namespace FT

theorem cutIn_chain (target : Nat) : ∀ (t t' : FT) (cuts : List FN) (b : Bool),
    cutIn target t = some (t', cuts, b) → ∀ x, x ∈ chainIds t' → x ∈ chainIds t
  | nil, _, _, _, h => by simp [cutIn] at h
  | node id d m c nx, t', cuts, b, h => by
    simp only [cutIn] at h
    intro x hx
    simp only [chainIds, List.mem_cons]
    split at h
    · cases h; exact Or.inr hx
    · split at h
      · split at h
        · split at h
          · cases h; simpa [chainIds] using hx
          · cases h; exact Or.inr hx
        · cases h; simpa [chainIds] using hx
      · split at h
        · rename_i nx' cuts' removed hn
          have ih := cutIn_chain target nx nx' cuts' removed hn
          cases h
          simp only [chainIds, List.mem_cons] at hx
          rcases hx with hx | hx
          · exact Or.inl hx
          · exact Or.inr (ih x hx)
        · cases h

/-- cutting only removes pairs -/
theorem cutIn_pairs (target : Nat) : ∀ (t t' : FT) (cuts : List FN) (b : Bool),
    cutIn target t = some (t', cuts, b) → ∀ p, (p ∈ pairs t' ∨ p ∈ rootsPairs cuts) → p ∈ pairs t
  | nil, _, _, _, h => by simp [cutIn] at h
  | node id d m c nx, t', cuts, b, h => by
    simp only [cutIn] at h
    rintro ⟨a, b'⟩ hp
    rw [mem_pairs_node]
    split at h
    · cases h
      rcases hp with hp | hp
      · exact Or.inr (Or.inr hp)
      · simp only [rootsPairs, List.flatMap_cons, List.flatMap_nil, List.append_nil] at hp
        rcases FN.mem_pairs.mp hp with h1 | h1
        · exact Or.inl h1
        · exact Or.inr (Or.inl h1)
    · split at h
      · rename_i c' cuts' removed hc
        have ih := cutIn_pairs target c c' cuts' removed hc
        have ihc := cutIn_chain target c c' cuts' removed hc
        split at h
        · split at h
          · cases h
            rcases hp with hp | hp
            · rcases mem_pairs_node.mp hp with ⟨ha, hb⟩ | h1 | h1
              · exact Or.inl ⟨ha, ihc _ hb⟩
              · exact Or.inr (Or.inl (ih _ (Or.inl h1)))
              · exact Or.inr (Or.inr h1)
            · exact Or.inr (Or.inl (ih _ (Or.inr hp)))
          · cases h
            rcases hp with hp | hp
            · exact Or.inr (Or.inr hp)
            · simp only [rootsPairs, List.flatMap_append, List.mem_append, List.flatMap_cons, List.flatMap_nil,
                List.append_nil] at hp
              rcases hp with hp | hp
              · exact Or.inr (Or.inl (ih _ (Or.inr hp)))
              · rcases FN.mem_pairs.mp hp with ⟨ha, hb⟩ | h1
                · exact Or.inl ⟨ha, ihc _ hb⟩
                · exact Or.inr (Or.inl (ih _ (Or.inl h1)))
        · cases h
          rcases hp with hp | hp
          · rcases mem_pairs_node.mp hp with ⟨ha, hb⟩ | h1 | h1
            · exact Or.inl ⟨ha, ihc _ hb⟩
            · exact Or.inr (Or.inl (ih _ (Or.inl h1)))
            · exact Or.inr (Or.inr h1)
          · exact Or.inr (Or.inl (ih _ (Or.inr hp)))
      · split at h
        · rename_i nx' cuts' removed hn
          have ih := cutIn_pairs target nx nx' cuts' removed hn
          cases h
          rcases hp with hp | hp
          · rcases mem_pairs_node.mp hp with h1 | h1 | h1
            · exact Or.inl h1
            · exact Or.inr (Or.inl h1)
            · exact Or.inr (Or.inr (ih _ (Or.inl h1)))
          · exact Or.inr (Or.inr (ih _ (Or.inr hp)))
        · cases h

end FT

namespace IFib
variable {K V : Type} {cmp : K → K → Int}

def kf (h : IFib K V) (id : Nat) : Option K := (h.cells[id]?).map (·.key)

theorem keyOf_eq (h : IFib K V) (id : Nat) :
    h.keyOf id = match kf h id with | some k => .ok k | none => .panic := by
  unfold keyOf kf
  cases h.cells[id]? <;> rfl

theorem kf_of_keyOf {h : IFib K V} {id : Nat} {k : K} (hk : h.keyOf id = .ok k) : kf h id = some k := by
  rw [keyOf_eq] at hk
  cases hx : kf h id with
  | none => rw [hx] at hk; cases hk
  | some k' => rw [hx] at hk; cases hk; rfl

theorem keyOf_of_kf {h : IFib K V} {id : Nat} {k : K} (hk : kf h id = some k) : h.keyOf id = .ok k := by
  rw [keyOf_eq, hk]

/-- heap order of the forest hanging off a root list -/
def HO (cmp : K → K → Int) (f : Nat → Option K) (l : List FN) : Prop :=
  ∀ a b, (a, b) ∈ rootsPairs l → LeP cmp f a b

/-- the entry root (`h.ext`) is before every node -/
def ExtAll (cmp : K → K → Int) (f : Nat → Option K) (l : List FN) : Prop :=
  ∀ e, l.head? = some e → ∀ y, y ∈ rootsIds l → LeP cmp f e.id y

theorem cutInRoots_pairs (target : Nat) : ∀ (l l' cuts : List FN), cutInRoots target l = some (l', cuts) →
    ∀ p, p ∈ rootsPairs (l' ++ cuts) → p ∈ rootsPairs l
  | [], _, _, h => by simp [cutInRoots] at h
  | r :: rs, l', cuts, h => by
    simp only [cutInRoots] at h
    rintro ⟨a, b⟩ hp
    split at h
    · cases h; simpa using hp
    · split at h
      · rename_i c' cuts' removed hc
        have ih := FT.cutIn_pairs target _ _ _ _ hc
        have ihc := FT.cutIn_chain target _ _ _ _ hc
        have key : ∀ r' : FN, r'.id = r.id → r'.child = c' → (a, b) ∈ rootsPairs (r' :: rs ++ cuts') →
            (a, b) ∈ rootsPairs (r :: rs) := by
          intro r' hid hch hp
          simp only [rootsPairs, List.flatMap_append, List.flatMap_cons, List.mem_append] at hp ⊢
          rcases hp with (hp | hp) | hp
          · left
            rcases FN.mem_pairs.mp hp with ⟨ha, hb⟩ | h1
            · exact FN.mem_pairs.mpr (Or.inl ⟨by rw [ha, hid], ihc _ (by rw [← hch]; exact hb)⟩)
            · exact FN.mem_pairs.mpr (Or.inr (ih _ (Or.inl (by rw [← hch]; exact h1))))
          · exact Or.inr hp
          · left
            exact FN.mem_pairs.mpr (Or.inr (ih _ (Or.inr hp)))
        split at h
        · cases h; exact key ⟨r.id, r.degree - 1, !r.mark, c'⟩ rfl rfl hp
        · cases h; exact key ⟨r.id, r.degree, r.mark, c'⟩ rfl rfl hp
      · split at h
        · rename_i rs' cuts' hrs
          have ih := cutInRoots_pairs target rs rs' cuts' hrs
          cases h
          simp only [List.cons_append, rootsPairs_cons, List.mem_append] at hp ⊢
          rcases hp with hp | hp
          · exact Or.inl hp
          · exact Or.inr (ih _ hp)
        · cases h

/-- with distinct ids, a root is nobody's child -/
theorem root_no_parent : ∀ (l : List FN), (rootsIds l).Nodup → ∀ x a, x ∈ topIds l → (a, x) ∉ rootsPairs l
  | [], _, _, _, h => by simp [topIds] at h
  | r :: rs, hnd, x, a, hx => by
    rw [rootsIds_cons] at hnd
    have hsplit := List.nodup_append.mp hnd
    have hr : (FN.ids r).Nodup := hsplit.1
    have hdisj : ∀ y, y ∈ FN.ids r → y ∉ rootsIds rs := fun y hy hs => hsplit.2.2 y hy y hs rfl
    have hrid : r.id ∉ r.child.ids := by
      simp only [FN.ids, List.nodup_cons] at hr; exact hr.1
    intro hp
    rw [rootsPairs_cons, List.mem_append] at hp
    simp only [topIds, List.map_cons, List.mem_cons] at hx
    rcases hp with hp | hp
    · have hxc := (FN.pairs_mem_ids hp).2
      rcases hx with hx | hx
      · exact hrid (hx ▸ hxc)
      · exact hdisj x (by simp [FN.ids, hxc]) (topIds_sub rs x hx)
    · rcases hx with hx | hx
      · exact hdisj x (by simp [FN.ids, hx]) (rootsPairs_mem_ids hp).2
      · exact root_no_parent rs hsplit.2.1 x a hx hp

theorem findRoot_pairs {l : List FN} {x : Nat} {xn : FN} (h : findRoot x l = some xn) :
    ∀ p, p ∈ FN.pairs xn → p ∈ rootsPairs l :=
  fun p hp => mem_rootsPairs.mpr ⟨xn, findRoot_mem l x xn h, hp⟩

theorem eraseRoot_pairs (l : List FN) (x : Nat) : ∀ p, p ∈ rootsPairs (eraseRoot x l) → p ∈ rootsPairs l := by
  intro p hp
  obtain ⟨r, hr, hpr⟩ := mem_rootsPairs.mp hp
  exact mem_rootsPairs.mpr ⟨r, eraseRoot_sub l x r hr, hpr⟩

theorem linkUnder_pairs (ch : FN) : ∀ (l : List FN) (y : Nat) (a b : Nat),
    (a, b) ∈ rootsPairs (linkUnder ch y l) → (a = y ∧ b = ch.id) ∨ (a, b) ∈ FN.pairs ch ∨ (a, b) ∈ rootsPairs l
  | [], _, _, _, h => by simp [linkUnder, rootsPairs] at h
  | r :: rs, y, a, b, h => by
    simp only [linkUnder] at h
    split at h
    · rename_i hid
      rw [rootsPairs_cons, List.mem_append] at h
      rw [rootsPairs_cons, List.mem_append]
      rcases h with h | h
      · rcases FN.mem_pairs.mp h with ⟨ha, hb⟩ | h1
        · simp only [FT.chainIds, List.mem_cons] at hb
          rcases hb with hb | hb
          · exact Or.inl ⟨by rw [ha]; exact hid, hb⟩
          · exact Or.inr (Or.inr (Or.inl (FN.mem_pairs.mpr (Or.inl ⟨ha, hb⟩))))
        · rcases FT.mem_pairs_node.mp h1 with ⟨ha, hb⟩ | h2 | h2
          · exact Or.inr (Or.inl (FN.mem_pairs.mpr (Or.inl ⟨ha, hb⟩)))
          · exact Or.inr (Or.inl (FN.mem_pairs.mpr (Or.inr h2)))
          · exact Or.inr (Or.inr (Or.inl (FN.mem_pairs.mpr (Or.inr h2))))
      · exact Or.inr (Or.inr (Or.inr h))
    · rw [rootsPairs_cons, List.mem_append] at h
      rw [rootsPairs_cons, List.mem_append]
      rcases h with h | h
      · exact Or.inr (Or.inr (Or.inl h))
      · rcases linkUnder_pairs ch rs y a b h with h1 | h1 | h1
        · exact Or.inl h1
        · exact Or.inr (Or.inl h1)
        · exact Or.inr (Or.inr (Or.inr h1))

theorem ho_perm {f : Nat → Option K} {l l' : List FN} (hp : l'.Perm l) (h : HO cmp f l) : HO cmp f l' := by
  intro a b hab
  obtain ⟨r, hr, hpr⟩ := mem_rootsPairs.mp hab
  exact h a b (mem_rootsPairs.mpr ⟨r, hp.mem_iff.mp hr, hpr⟩)

/-- every node is reached from a root of its list through ordered pairs -/
theorem ft_root (hc : LawfulCmp cmp) {f : Nat → Option K} : ∀ (t : FT),
    (∀ a b, (a, b) ∈ t.pairs → LeP cmp f a b) → (∀ y, y ∈ t.ids → ∃ k, f y = some k) →
    ∀ y, y ∈ t.ids → ∃ r, r ∈ t.chainIds ∧ LeP cmp f r y
  | .nil, _, _, y, hy => by simp [FT.ids] at hy
  | .node id d m c nx, ho, hf, y, hy => by
    simp only [FT.ids, List.mem_cons, List.mem_append] at hy
    rcases hy with rfl | hy | hy
    · obtain ⟨k, hk⟩ := hf y (by simp [FT.ids])
      exact ⟨y, by simp [FT.chainIds], LeP.refl hc hk⟩
    · obtain ⟨r, hr, hle⟩ := ft_root hc c (fun a b hab => ho a b (FT.mem_pairs_node.mpr (Or.inr (Or.inl hab))))
        (fun z hz => hf z (by simp [FT.ids, hz])) y hy
      refine ⟨id, by simp [FT.chainIds], LeP.trans hc ?_ hle⟩
      exact ho id r (FT.mem_pairs_node.mpr (Or.inl ⟨rfl, hr⟩))
    · obtain ⟨r, hr, hle⟩ := ft_root hc nx (fun a b hab => ho a b (FT.mem_pairs_node.mpr (Or.inr (Or.inr hab))))
        (fun z hz => hf z (by simp [FT.ids, hz])) y hy
      exact ⟨r, by simp [FT.chainIds, hr], hle⟩

theorem ho_root (hc : LawfulCmp cmp) {f : Nat → Option K} {l : List FN} (ho : HO cmp f l)
    (hf : ∀ y, y ∈ rootsIds l → ∃ k, f y = some k) :
    ∀ y, y ∈ rootsIds l → ∃ r, r ∈ topIds l ∧ LeP cmp f r y := by
  intro y hy
  simp only [rootsIds, List.mem_flatMap] at hy
  obtain ⟨r, hr, hyr⟩ := hy
  have hsub : ∀ z, z ∈ FN.ids r → z ∈ rootsIds l := fun z hz => by
    simp only [rootsIds, List.mem_flatMap]; exact ⟨r, hr, hz⟩
  have htop : r.id ∈ topIds l := by simp only [topIds, List.mem_map]; exact ⟨r, hr, rfl⟩
  simp only [FN.ids, List.mem_cons] at hyr
  rcases hyr with hyr | hyr
  · obtain ⟨k, hk⟩ := hf y (hsub y (by simp [FN.ids, hyr]))
    exact ⟨y, hyr ▸ htop, LeP.refl hc hk⟩
  · obtain ⟨c, hcm, hle⟩ := ft_root hc r.child
      (fun a b hab => ho a b (mem_rootsPairs.mpr ⟨r, hr, FN.mem_pairs.mpr (Or.inr hab)⟩))
      (fun z hz => hf z (hsub z (by simp [FN.ids, hz]))) y hyr
    refine ⟨r.id, htop, LeP.trans hc ?_ hle⟩
    exact ho r.id c (mem_rootsPairs.mpr ⟨r, hr, FN.mem_pairs.mpr (Or.inl ⟨rfl, hcm⟩)⟩)

end IFib
end AlgoVerif.C05
