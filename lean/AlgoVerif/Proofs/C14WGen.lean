import AlgoVerif.Generated.C14WGen
import AlgoVerif.Proofs.C14Gen
/-!
# The GENERATED adjacency code of `graph/{weighted_directed,weighted_undirected}.go` and the hand-written Model

`Generated/C14WGen.lean` is rewritten from /repo's source by `/verif/extract/go2lean` on every check run (`bin/pre-C14`):
the edge types with their accessors, the constructors, `AddEdge`, `V`, `E`, `isVertexValid`, the degree accessors, `Adj`,
`Edges` and `WeightedDirected.Reverse`.  Weights: the Go code only COPIES a `float64` weight (the translator refuses
every operator on the type, see `Go.F64`), the hand Model carries an `Int`; every statement below holds for EVERY map
`wOf : Int → Go.F64` from the hand Model's weights to float64 values — the adjacency code cannot tell.
`ofWD wOf o` / `ofWU wOf o` read a hand-Model object as the generated structure: an adjacency entry `x : Arc` becomes the
edge struct `⟨x.e.a, x.e.b, wOf x.e.w⟩` (the hand Model additionally stores the neighbour `x.to`, which the Go code
recomputes with `e.To()` / `e.Other(v)`; `WFwu` has the invariant that makes the two agree).
-/
set_option linter.unusedSimpArgs false
namespace AlgoVerif.C14.Gen
open AlgoVerif AlgoVerif.Outcome AlgoVerif.C14 AlgoVerif.Generated

section
variable {β : Type}

/-- adjacency lists of edge structs -/
def adjW (f : Arc → β) (a : Array (List Arc)) : Array (Array β) := a.map fun l => (l.map f).toArray

@[simp] theorem adjW_size (f : Arc → β) (a : Array (List Arc)) : (adjW f a).size = a.size := by simp [adjW]

theorem idx_adjW (f : Arc → β) (a : Array (List Arc)) (k : Nat) (h : k < a.size) :
    Go.idx (adjW f a) (k : Int) = .ok (a[k].map f).toArray := by
  have : k < (adjW f a).size := by simpa using h
  rw [Go.idx_nat this]; simp [adjW]

theorem setIdx_adjW (f : Arc → β) (a : Array (List Arc)) (k : Nat) (h : k < a.size) (l : List Arc) :
    Go.setIdx (adjW f a) (k : Int) (l.map f).toArray = .ok (adjW f (a.set k l)) := by
  have : k < (adjW f a).size := by simpa using h
  rw [Go.setIdx_nat this]; simp [adjW]

theorem push_adjW (f : Arc → β) (l : List Arc) (x : Arc) : ((l.map f).toArray).push (f x) = ((l ++ [x]).map f).toArray := by
  simp
end

variable (wOf : Int → Go.F64)

/-- a stored edge as `DirectedEdge{from, to, weight}` -/
def deE (e : Edge) : GraphW.DirectedEdge := ⟨(e.a : Int), (e.b : Int), wOf e.w⟩
def deOf (x : Arc) : GraphW.DirectedEdge := deE wOf x.e
/-- a stored edge as `UndirectedEdge{v, w, weight}` -/
def ueE (e : Edge) : GraphW.UndirectedEdge := ⟨(e.a : Int), (e.b : Int), wOf e.w⟩
def ueOf (x : Arc) : GraphW.UndirectedEdge := ueE wOf x.e

def ofWD (o : GObj) : GraphW.WeightedDirected := ⟨(o.g.n : Int), (o.e : Int), ints o.ins, adjW (deOf wOf) o.g.adj⟩
def ofWU (o : GObj) : GraphW.WeightedUndirected := ⟨(o.g.n : Int), (o.e : Int), adjW (ueOf wOf) o.g.adj⟩

def WFwd (o : GObj) : Prop := o.kind = .wdirected ∧ o.g.adj.size = o.g.n ∧ o.ins.size = o.g.n

/-- the `AddEdge` arguments: the edge structs of a call list -/
def dedgesOf (es : List EdgeIn) : Array GraphW.DirectedEdge := (es.map fun e => (⟨e.u, e.v, wOf e.w⟩ : GraphW.DirectedEdge)).toArray
def uedgesOf (es : List EdgeIn) : Array GraphW.UndirectedEdge := (es.map fun e => (⟨e.u, e.v, wOf e.w⟩ : GraphW.UndirectedEdge)).toArray

/-! ## WeightedDirected -/

theorem WD_isVertexValid (o : GObj) (v : Int) : GraphW.WeightedDirected.isVertexValid (ofWD wOf o) v = o.g.isVertexValid v := rfl
theorem WD_V (o : GObj) : GraphW.WeightedDirected.V (ofWD wOf o) = o.V := rfl
theorem WD_E (o : GObj) : GraphW.WeightedDirected.E (ofWD wOf o) = o.E := rfl

/-- `AddEdge(DirectedEdge{u, v, w})` on a well-formed object, for every pair of `int`s -/
theorem WD_AddEdge (o : GObj) (hw : WFwd o) (u v wt : Int) :
    GraphW.WeightedDirected.AddEdge (ofWD wOf o) ⟨u, v, wOf wt⟩ = .ok (ofWD wOf (o.addEdge u v wt)) ∧
      WFwd (o.addEdge u v wt) := by
  obtain ⟨hk, ha, hi⟩ := hw
  have hdir : o.kind.isDirected = true := by rw [hk]; rfl
  simp only [GraphW.WeightedDirected.AddEdge, GraphW.DirectedEdge.From, GraphW.DirectedEdge.To, WD_isVertexValid,
    GObj.addEdge, Outcome.pure_eq]
  by_cases hv : (o.g.isVertexValid u && o.g.isVertexValid v) = true
  · obtain ⟨hu', hv'⟩ := Bool.and_eq_true_iff.1 hv
    obtain ⟨a, rfl, ha'⟩ := valid_nat hu'
    obtain ⟨b, rfl, hb'⟩ := valid_nat hv'
    simp only [hv, if_true, hdir, Graph.addEdgeDirected, Graph.addArc, Int.toNat_natCast]
    have e1 : (ofWD wOf o).ins = ints o.ins := rfl
    have e2 : (ofWD wOf o).adj = adjW (deOf wOf) o.g.adj := rfl
    simp only [e1, e2, idx_ints o.ins b (by omega), Outcome.ok_bind]
    have hs : ((o.ins[b]'(by omega) : Nat) : Int) + 1 = ((o.ins[b]'(by omega) + 1 : Nat) : Int) := by omega
    rw [hs, setIdx_ints o.ins b (by omega)]
    simp only [Outcome.ok_bind, idx_adjW _ o.g.adj a (by omega)]
    have hp : (((o.g.adj[a]'(by omega)).map (deOf wOf)).toArray).push (⟨(a : Int), (b : Int), wOf wt⟩ : GraphW.DirectedEdge) =
        (((o.g.adj[a]'(by omega)) ++ [(⟨b, ⟨a, b, wt⟩⟩ : Arc)]).map (deOf wOf)).toArray :=
      push_adjW (deOf wOf) _ ⟨b, ⟨a, b, wt⟩⟩
    rw [hp, setIdx_adjW _ o.g.adj a (by omega)]
    refine ⟨?_, ?_⟩
    · simp only [Outcome.ok_bind, Outcome.pure_eq, ofWD, modify_eq_set _ _ (show b < o.ins.size by omega),
        modify_eq_set _ _ (show a < o.g.adj.size by omega)]
      refine congrArg Outcome.ok ?_
      simp only [GraphW.WeightedDirected.mk.injEq, true_and, and_true]
      first | done | omega
    · exact ⟨hk, by simpa using ha, by simpa using hi⟩
  · have hv' : (o.g.isVertexValid u && o.g.isVertexValid v) = false := by simpa using hv
    simp only [hv', Bool.false_eq_true, if_false]
    exact ⟨trivial, hk, ha, hi⟩

theorem WFwd_new (n : Nat) : WFwd (GObj.new .wdirected n) := by
  simp [WFwd, GObj.new, Graph.new, Kind.isDirected]

theorem ofWD_new (n : Nat) :
    ofWD wOf (GObj.new .wdirected n) = ⟨(n : Int), 0, Array.replicate n 0, Array.replicate n #[]⟩ := by
  simp [ofWD, GObj.new, Graph.new, Kind.isDirected, ints, adjW]

theorem WD_new_loop1 (n : Nat) : ∀ (k i : Nat), i + k ≤ n →
    GraphW.NewWeightedDirected.loop1 k (i : Int) (Array.replicate n (#[] : Array GraphW.DirectedEdge)) = .ok (Array.replicate n #[])
  | 0, _, _ => rfl
  | k+1, i, h => by
    have hi : i < (Array.replicate n (#[] : Array GraphW.DirectedEdge)).size := by simp; omega
    have hm : ∀ z : GraphW.DirectedEdge, Go.make z 0 = .ok #[] := by intro z; simp [Go.make]
    simp only [GraphW.NewWeightedDirected.loop1, hm, Outcome.ok_bind, Go.setIdx_nat hi]
    have hs : (Array.replicate n (#[] : Array GraphW.DirectedEdge)).set i #[] hi = Array.replicate n #[] := by
      apply Array.ext (by simp); intro j h1 h2; simp [Array.getElem_set]
    rw [hs]
    exact WD_new_loop1 n k (i + 1) (by omega)

theorem foldl_WFwd (es : List EdgeIn) : ∀ (o : GObj), WFwd o → WFwd (es.foldl (fun o e => o.addEdge e.u e.v e.w) o) := by
  induction es with
  | nil => intro o h; exact h
  | cons e es ih => intro o h; exact ih _ (WD_AddEdge (fun _ => Go.F64.zero) o h e.u e.v e.w).2

theorem WD_new_loop2 (es : List EdgeIn) : ∀ (k i : Nat) (o : GObj), WFwd o → i + k = es.length →
    GraphW.NewWeightedDirected.loop2 (dedgesOf wOf es) k (i : Int) (ofWD wOf o)
      = .ok (ofWD wOf ((es.drop i).foldl (fun o e => o.addEdge e.u e.v e.w) o))
  | 0, i, o, _, h => by
    rw [List.drop_of_length_le (by omega)]; rfl
  | k+1, i, o, hw, h => by
    have hi : i < (dedgesOf wOf es).size := by simp [dedgesOf]; omega
    have hi' : i < es.length := by omega
    have he : (dedgesOf wOf es)[i] = ⟨es[i].u, es[i].v, wOf es[i].w⟩ := by simp [dedgesOf]
    simp only [GraphW.NewWeightedDirected.loop2, Go.idx_nat hi, he, Outcome.ok_bind,
      (WD_AddEdge wOf o hw es[i].u es[i].v es[i].w).1]
    rw [show ((i : Int) + 1) = ((i + 1 : Nat) : Int) by omega,
      WD_new_loop2 es k (i + 1) _ (WD_AddEdge wOf o hw es[i].u es[i].v es[i].w).2 (by omega),
      List.drop_eq_getElem_cons hi']
    rfl

/-- `NewWeightedDirected(V, edges...)` for `V ≥ 0` is the hand Model's `GObj.build` -/
theorem WD_New (n : Nat) (es : List EdgeIn) :
    GraphW.NewWeightedDirected (n : Int) (dedgesOf wOf es) = .ok (ofWD wOf (GObj.build .wdirected n es)) ∧
      WFwd (GObj.build .wdirected n es) := by
  refine ⟨?_, foldl_WFwd es _ (WFwd_new n)⟩
  simp only [GraphW.NewWeightedDirected, Go.make_nat, Outcome.ok_bind, Array.size_replicate]
  have := WD_new_loop1 n n 0 (by omega)
  simp only [Int.natCast_zero] at this
  rw [this]
  have h2 := WD_new_loop2 wOf es es.length 0 (GObj.new .wdirected n) (WFwd_new n) (by omega)
  simp only [ofWD_new, Int.natCast_zero, List.drop_zero] at h2
  simp only [Outcome.ok_bind, dedgesOf, List.size_toArray, List.length_map] at h2 ⊢
  rw [h2]; rfl

theorem WD_New_neg (V : Int) (h : V < 0) (edges : Array GraphW.DirectedEdge) : GraphW.NewWeightedDirected V edges = .panic := by
  simp [GraphW.NewWeightedDirected, Go.make_neg _ h]

theorem WD_InDegree (o : GObj) (v : Int) : GraphW.WeightedDirected.InDegree (ofWD wOf o) v = o.inDegree v := by
  simp only [GraphW.WeightedDirected.InDegree, WD_isVertexValid, GObj.inDegree]
  by_cases hv : o.g.isVertexValid v = true
  · simp only [hv, Bool.not_true, Bool.false_eq_true, if_false, if_true]
    obtain ⟨k, rfl, -⟩ := valid_nat hv
    have e1 : (ofWD wOf o).ins = ints o.ins := rfl
    simp only [e1, Int.toNat_natCast]
    by_cases hk : k < o.ins.size
    · simp [idx_ints _ _ hk, hk]
    · rw [Go.idx_of_invalid (by simp; omega)]; simp [Array.getElem?_eq_none (by omega : o.ins.size ≤ k)]
  · simp [hv]

theorem WD_OutDegree (o : GObj) (v : Int) : GraphW.WeightedDirected.OutDegree (ofWD wOf o) v = o.outDegree v := by
  simp only [GraphW.WeightedDirected.OutDegree, WD_isVertexValid, GObj.outDegree]
  by_cases hv : o.g.isVertexValid v = true
  · simp only [hv, Bool.not_true, Bool.false_eq_true, if_false, if_true]
    obtain ⟨k, rfl, -⟩ := valid_nat hv
    have e1 : (ofWD wOf o).adj = adjW (deOf wOf) o.g.adj := rfl
    simp only [e1, Int.toNat_natCast]
    by_cases hk : k < o.g.adj.size
    · simp [idx_adjW _ _ _ hk, hk]
    · rw [Go.idx_of_invalid (by simp; omega)]; simp [Array.getElem?_eq_none (by omega : o.g.adj.size ≤ k)]
  · simp [hv]

/-- what `Adj(v)` of the hand Model (`none` = `nil`) is as a Go slice value -/
def sliceOf {β : Type} (f : Arc → β) : Option (List Arc) → Array β
  | none => #[]
  | some l => (l.map f).toArray

/-- `Adj(v)`: the value returned (the generated function's remark: it aliases the graph's list) -/
theorem WD_Adj (o : GObj) (v : Int) :
    GraphW.WeightedDirected.Adj (ofWD wOf o) v = (o.adjOf v).map (sliceOf (deOf wOf)) := by
  simp only [GraphW.WeightedDirected.Adj, WD_isVertexValid, GObj.adjOf]
  by_cases hv : o.g.isVertexValid v = true
  · simp only [hv, Bool.not_true, Bool.false_eq_true, if_false, if_true]
    obtain ⟨k, rfl, -⟩ := valid_nat hv
    have e1 : (ofWD wOf o).adj = adjW (deOf wOf) o.g.adj := rfl
    simp only [e1, Int.toNat_natCast]
    by_cases hk : k < o.g.adj.size
    · simp [idx_adjW _ _ _ hk, hk, sliceOf]
    · rw [Go.idx_of_invalid (by simp; omega)]; simp [Array.getElem?_eq_none (by omega : o.g.adj.size ≤ k)]
  · simp [hv, sliceOf]

/-- `for _, adjEdges := range g.adj { edges = append(edges, adjEdges...) }` -/
theorem WD_edges_loop (o : GObj) : ∀ (k i : Nat) (acc : Array GraphW.DirectedEdge), i + k = o.g.adj.size →
    GraphW.WeightedDirected.Edges.loop1 (ofWD wOf o) k (i : Int) acc
      = .ok (acc ++ ((o.g.adj.toList.drop i).flatMap fun l => l.map (deOf wOf)).toArray)
  | 0, i, acc, h => by
    rw [List.drop_of_length_le (by simp; omega)]; simp [GraphW.WeightedDirected.Edges.loop1]
  | k+1, i, acc, h => by
    have hi : i < o.g.adj.size := by omega
    have e1 : (ofWD wOf o).adj = adjW (deOf wOf) o.g.adj := rfl
    simp only [GraphW.WeightedDirected.Edges.loop1, e1, idx_adjW _ _ _ hi, Outcome.ok_bind]
    rw [List.drop_eq_getElem_cons (show i < o.g.adj.toList.length by simpa using hi),
      show ((i : Int) + 1) = ((i + 1 : Nat) : Int) by omega, WD_edges_loop o k (i + 1) _ (by omega)]
    simp [Array.append_assoc]

/-- `Edges()` of `*WeightedDirected` is the hand Model's `edges` -/
theorem WD_Edges (o : GObj) (hk : o.kind.isDirected = true) :
    GraphW.WeightedDirected.Edges (ofWD wOf o) = .ok (o.edges.map (deE wOf)).toArray := by
  have hm : ∀ z : GraphW.DirectedEdge, Go.make z 0 = .ok #[] := by intro z; simp [Go.make]
  have e1 : (ofWD wOf o).adj = adjW (deOf wOf) o.g.adj := rfl
  have := WD_edges_loop wOf o o.g.adj.size 0 #[] (by omega)
  simp only [Int.natCast_zero, List.drop_zero] at this
  simp only [GraphW.WeightedDirected.Edges, hm, Outcome.ok_bind, e1, adjW_size, this, Outcome.pure_eq, GObj.edges, hk, if_true]
  have hd : deOf wOf = fun x => deE wOf x.e := rfl
  simp [List.map_flatMap, hd, Function.comp_def]

/-! ### `Reverse` -/

theorem WD_rev_loop2 (fuel : Nat) (o : GObj) (v : Nat) (hv : v < o.g.adj.size) :
    ∀ (k i : Nat) (r : GObj), WFwd r → i + k = o.g.adj[v].length →
    GraphW.WeightedDirected.Reverse.loop2 fuel (ofWD wOf o) (v : Int) k (i : Int) (ofWD wOf r)
      = .ok (ofWD wOf (((o.g.adj[v].drop i).map fun x => (⟨x.e.b, x.e.a, x.e.w⟩ : EdgeIn)).foldl
          (fun o e => o.addEdge e.u e.v e.w) r))
  | 0, i, r, _, h => by
    rw [List.drop_of_length_le (by omega)]; rfl
  | k+1, i, r, hw, h => by
    have hi : i < o.g.adj[v].length := by omega
    have e1 : (ofWD wOf o).adj = adjW (deOf wOf) o.g.adj := rfl
    have hi2 : i < ((o.g.adj[v].map (deOf wOf)).toArray).size := by simp; omega
    have hx : ((o.g.adj[v].map (deOf wOf)).toArray)[i] = deOf wOf (o.g.adj[v][i]) := by simp
    simp only [GraphW.WeightedDirected.Reverse.loop2, e1, idx_adjW _ _ _ hv, Outcome.ok_bind, Go.idx_nat hi2, hx,
      GraphW.DirectedEdge.To, GraphW.DirectedEdge.From, GraphW.DirectedEdge.Weight, deOf, deE,
      (WD_AddEdge wOf r hw (o.g.adj[v][i]).e.b (o.g.adj[v][i]).e.a (o.g.adj[v][i]).e.w).1]
    rw [show ((i : Int) + 1) = ((i + 1 : Nat) : Int) by omega,
      WD_rev_loop2 fuel o v hv k (i + 1) _ (WD_AddEdge wOf r hw _ _ (o.g.adj[v][i]).e.w).2 (by omega),
      List.drop_eq_getElem_cons hi]
    rfl

def wflippedFrom (o : GObj) (v m : Nat) : List EdgeIn :=
  (List.range' v m).flatMap fun v => (o.g.adj.getD v []).map fun x => (⟨x.e.b, x.e.a, x.e.w⟩ : EdgeIn)

theorem wflipped_eq (o : GObj) (h : o.kind = .wdirected) : o.flipped = wflippedFrom o 0 o.g.n := by
  simp [GObj.flipped, wflippedFrom, h, Kind.isWeighted, List.range_eq_range']

theorem WD_rev_loop1 (fuel : Nat) (o : GObj) (hw : WFwd o) :
    ∀ (m v k : Nat) (r : GObj), WFwd r → v + m = o.g.n → m + 1 ≤ k →
    GraphW.WeightedDirected.Reverse.loop1 fuel (ofWD wOf o) k (v : Int) (ofWD wOf r)
      = .ok (ofWD wOf ((wflippedFrom o v m).foldl (fun o e => o.addEdge e.u e.v e.w) r))
  | 0, v, k+1, r, _, h, _ => by
    have : ¬ ((v : Int) < (o.g.n : Int)) := by omega
    simp [GraphW.WeightedDirected.Reverse.loop1, GraphW.WeightedDirected.V, ofWD, this, wflippedFrom]
  | m+1, v, k+1, r, hr, h, hk => by
    have hlt : ((v : Int) < (o.g.n : Int)) := by omega
    have hv : v < o.g.adj.size := by have := hw.2.1; omega
    have e1 : (ofWD wOf o).adj = adjW (deOf wOf) o.g.adj := rfl
    have e2 : (ofWD wOf o).v = (o.g.n : Int) := rfl
    simp only [GraphW.WeightedDirected.Reverse.loop1, GraphW.WeightedDirected.V, e1, e2, hlt, decide_true, Bool.not_true,
      Bool.false_eq_true, if_false, idx_adjW _ _ _ hv, Outcome.ok_bind]
    have hsz : ((o.g.adj[v].map (deOf wOf)).toArray).size = o.g.adj[v].length := by simp
    have h2 := WD_rev_loop2 wOf fuel o v hv o.g.adj[v].length 0 r hr (by omega)
    simp only [Int.natCast_zero, List.drop_zero] at h2
    rw [hsz, h2]
    simp only [Outcome.ok_bind]
    rw [show ((v : Int) + 1) = ((v + 1 : Nat) : Int) by omega,
      WD_rev_loop1 fuel o hw m (v + 1) k _ (foldl_WFwd _ r hr) (by omega) (by omega)]
    simp only [wflippedFrom, List.range'_succ, List.flatMap_cons, List.foldl_append]
    congr 4
    simp [Array.getD, hv]

/-- `Reverse()` of `*WeightedDirected`, with fuel for the `V+1` tests of its loop: the hand Model's `GObj.reverse` -/
theorem WD_Reverse (fuel : Nat) (o : GObj) (hw : WFwd o) (hf : o.g.n + 1 ≤ fuel) :
    GraphW.WeightedDirected.Reverse fuel (ofWD wOf o) = .ok (ofWD wOf o.reverse) ∧ WFwd o.reverse := by
  have hb : WFwd (GObj.build .wdirected o.g.n o.flipped) := (WD_New wOf o.g.n o.flipped).2
  have hN := (WD_New wOf o.g.n []).1
  simp only [dedgesOf, List.map_nil, GObj.build, List.foldl_nil] at hN
  have e2 : GraphW.WeightedDirected.V (ofWD wOf o) = (o.g.n : Int) := rfl
  have h1 := WD_rev_loop1 wOf fuel o hw o.g.n 0 fuel (GObj.new .wdirected o.g.n) (WFwd_new _) (by omega) hf
  simp only [Int.natCast_zero] at h1
  refine ⟨?_, by rw [GObj.reverse, hw.1]; exact hb⟩
  simp only [GraphW.WeightedDirected.Reverse, e2, hN, Outcome.ok_bind, h1, Outcome.pure_eq, GObj.reverse, GObj.build,
    hw.1, wflipped_eq o hw.1]

/-! ## WeightedUndirected -/

/-- an entry of `adj[v]` of an undirected object: `v` is one endpoint of the stored edge and the stored neighbour is
the other one — what makes the hand Model's `x.to` the Go code's `e.Other(v)` -/
def ArcOK (v : Nat) (x : Arc) : Prop := (x.e.a = v ∧ x.to = x.e.b) ∨ (x.e.b = v ∧ x.to = x.e.a)

def WFwu (o : GObj) : Prop :=
  o.kind = .wundirected ∧ o.g.adj.size = o.g.n ∧ ∀ (v : Nat) (h : v < o.g.adj.size), ∀ x ∈ o.g.adj[v], ArcOK v x

theorem WU_isVertexValid (o : GObj) (v : Int) : GraphW.WeightedUndirected.isVertexValid (ofWU wOf o) v = o.g.isVertexValid v := rfl
theorem WU_V (o : GObj) : GraphW.WeightedUndirected.V (ofWU wOf o) = o.V := rfl
theorem WU_E (o : GObj) : GraphW.WeightedUndirected.E (ofWU wOf o) = o.E := rfl

/-- `func (e UndirectedEdge) Other(v int) int`: the `switch` as a chain -/
theorem other_eq (e : GraphW.UndirectedEdge) (v : Int) :
    GraphW.UndirectedEdge.Other e v = if v = e.v then e.w else if v = e.w then e.v else -1 := by
  simp only [GraphW.UndirectedEdge.Other, Id.run, beq_iff_eq]
  split
  · rfl
  · split <;> rfl

/-- `e.Other(v)` for an entry of `adj[v]` is the neighbour the hand Model stores -/
theorem other_of_ok (v : Nat) (x : Arc) (h : ArcOK v x) : GraphW.UndirectedEdge.Other (ueOf wOf x) (v : Int) = (x.to : Int) := by
  simp only [other_eq, ueOf, ueE]
  rcases h with ⟨h1, h2⟩ | ⟨h1, h2⟩
  · simp [h1, h2]
  · by_cases hab : x.e.a = v
    · simp [hab, h2]; omega
    · have : ¬ ((v : Int) = (x.e.a : Int)) := by omega
      simp [this, h1, h2]

/-- `AddEdge(UndirectedEdge{u, v, w})` on a well-formed object, for every pair of `int`s (also `u = v`) -/
theorem WU_AddEdge (o : GObj) (hw : WFwu o) (u v wt : Int) :
    GraphW.WeightedUndirected.AddEdge (ofWU wOf o) ⟨u, v, wOf wt⟩ = .ok (ofWU wOf (o.addEdge u v wt)) ∧
      WFwu (o.addEdge u v wt) := by
  obtain ⟨hk, ha, hok⟩ := hw
  have hdir : o.kind.isDirected = false := by rw [hk]; rfl
  have hother : GraphW.UndirectedEdge.Other ⟨u, v, wOf wt⟩ u = v := by
    simp [other_eq]
  simp only [GraphW.WeightedUndirected.AddEdge, GraphW.UndirectedEdge.Either, hother, WU_isVertexValid,
    GObj.addEdge, Outcome.pure_eq]
  by_cases hv : (o.g.isVertexValid u && o.g.isVertexValid v) = true
  · obtain ⟨hu', hv'⟩ := Bool.and_eq_true_iff.1 hv
    obtain ⟨a, rfl, ha'⟩ := valid_nat hu'
    obtain ⟨b, rfl, hb'⟩ := valid_nat hv'
    simp only [hv, if_true, hdir, Graph.addEdgeUndirected, Graph.addArc, Int.toNat_natCast, Bool.false_eq_true, if_false]
    have e2 : (ofWU wOf o).adj = adjW (ueOf wOf) o.g.adj := rfl
    simp only [e2, idx_adjW _ o.g.adj a (by omega), Outcome.ok_bind]
    have hp : ∀ (l : List Arc) (t : Nat), ((l.map (ueOf wOf)).toArray).push (⟨(a : Int), (b : Int), wOf wt⟩ : GraphW.UndirectedEdge) =
        ((l ++ [(⟨t, ⟨a, b, wt⟩⟩ : Arc)]).map (ueOf wOf)).toArray := fun l t => push_adjW (ueOf wOf) l ⟨t, ⟨a, b, wt⟩⟩
    rw [hp _ b, setIdx_adjW _ o.g.adj a (by omega)]
    simp only [Outcome.ok_bind]
    have hb2 : b < (o.g.adj.set a (o.g.adj[a]'(by omega) ++ [(⟨b, ⟨a, b, wt⟩⟩ : Arc)]) (by omega)).size := by
      simp; omega
    rw [idx_adjW _ _ b hb2]
    simp only [Outcome.ok_bind]
    rw [hp _ a, setIdx_adjW _ _ b hb2]
    refine ⟨?_, hk, by simpa using ha, ?_⟩
    · simp only [Outcome.ok_bind, Outcome.pure_eq, ofWU, modify_eq_set _ _ (show a < o.g.adj.size by omega),
        modify_eq_set _ _ hb2]
      refine congrArg Outcome.ok ?_
      simp only [GraphW.WeightedUndirected.mk.injEq, true_and, and_true]
      first | done | omega
    · intro w hw x hx
      simp only [modify_eq_set _ _ (show a < o.g.adj.size by omega), modify_eq_set _ _ hb2] at hw hx
      have hw' : w < o.g.adj.size := by simpa using hw
      simp only [Array.getElem_set] at hx
      split at hx
      · next hbw =>
        subst hbw
        rcases List.mem_append.1 hx with hx | hx
        · split at hx
          · next haw =>
            subst haw
            rcases List.mem_append.1 hx with hx | hx
            · exact hok _ hw' x hx
            · simp only [List.mem_singleton] at hx; subst hx; exact .inl ⟨rfl, rfl⟩
          · exact hok _ hw' x hx
        · simp only [List.mem_singleton] at hx; subst hx; exact .inr ⟨rfl, rfl⟩
      · split at hx
        · next haw =>
          subst haw
          rcases List.mem_append.1 hx with hx | hx
          · exact hok _ hw' x hx
          · simp only [List.mem_singleton] at hx; subst hx; exact .inl ⟨rfl, rfl⟩
        · exact hok _ hw' x hx
  · have hv' : (o.g.isVertexValid u && o.g.isVertexValid v) = false := by simpa using hv
    simp only [hv', Bool.false_eq_true, if_false]
    exact ⟨trivial, hk, ha, hok⟩

theorem WFwu_new (n : Nat) : WFwu (GObj.new .wundirected n) := by
  refine ⟨rfl, by simp [GObj.new, Graph.new], ?_⟩
  intro v h x hx
  simp [GObj.new, Graph.new] at hx

theorem ofWU_new (n : Nat) :
    ofWU wOf (GObj.new .wundirected n) = ⟨(n : Int), 0, Array.replicate n #[]⟩ := by
  simp [ofWU, GObj.new, Graph.new, adjW]

theorem WU_new_loop1 (n : Nat) : ∀ (k i : Nat), i + k ≤ n →
    GraphW.NewWeightedUndirected.loop1 k (i : Int) (Array.replicate n (#[] : Array GraphW.UndirectedEdge)) = .ok (Array.replicate n #[])
  | 0, _, _ => rfl
  | k+1, i, h => by
    have hi : i < (Array.replicate n (#[] : Array GraphW.UndirectedEdge)).size := by simp; omega
    have hm : ∀ z : GraphW.UndirectedEdge, Go.make z 0 = .ok #[] := by intro z; simp [Go.make]
    simp only [GraphW.NewWeightedUndirected.loop1, hm, Outcome.ok_bind, Go.setIdx_nat hi]
    have hs : (Array.replicate n (#[] : Array GraphW.UndirectedEdge)).set i #[] hi = Array.replicate n #[] := by
      apply Array.ext (by simp); intro j h1 h2; simp [Array.getElem_set]
    rw [hs]
    exact WU_new_loop1 n k (i + 1) (by omega)

theorem foldl_WFwu (es : List EdgeIn) : ∀ (o : GObj), WFwu o → WFwu (es.foldl (fun o e => o.addEdge e.u e.v e.w) o) := by
  induction es with
  | nil => intro o h; exact h
  | cons e es ih => intro o h; exact ih _ (WU_AddEdge (fun _ => Go.F64.zero) o h e.u e.v e.w).2

theorem WU_new_loop2 (es : List EdgeIn) : ∀ (k i : Nat) (o : GObj), WFwu o → i + k = es.length →
    GraphW.NewWeightedUndirected.loop2 (uedgesOf wOf es) k (i : Int) (ofWU wOf o)
      = .ok (ofWU wOf ((es.drop i).foldl (fun o e => o.addEdge e.u e.v e.w) o))
  | 0, i, o, _, h => by
    rw [List.drop_of_length_le (by omega)]; rfl
  | k+1, i, o, hw, h => by
    have hi : i < (uedgesOf wOf es).size := by simp [uedgesOf]; omega
    have hi' : i < es.length := by omega
    have he : (uedgesOf wOf es)[i] = ⟨es[i].u, es[i].v, wOf es[i].w⟩ := by simp [uedgesOf]
    simp only [GraphW.NewWeightedUndirected.loop2, Go.idx_nat hi, he, Outcome.ok_bind,
      (WU_AddEdge wOf o hw es[i].u es[i].v es[i].w).1]
    rw [show ((i : Int) + 1) = ((i + 1 : Nat) : Int) by omega,
      WU_new_loop2 es k (i + 1) _ (WU_AddEdge wOf o hw es[i].u es[i].v es[i].w).2 (by omega),
      List.drop_eq_getElem_cons hi']
    rfl

/-- `NewWeightedUndirected(V, edges...)` for `V ≥ 0` is the hand Model's `GObj.build` -/
theorem WU_New (n : Nat) (es : List EdgeIn) :
    GraphW.NewWeightedUndirected (n : Int) (uedgesOf wOf es) = .ok (ofWU wOf (GObj.build .wundirected n es)) ∧
      WFwu (GObj.build .wundirected n es) := by
  refine ⟨?_, foldl_WFwu es _ (WFwu_new n)⟩
  simp only [GraphW.NewWeightedUndirected, Go.make_nat, Outcome.ok_bind, Array.size_replicate]
  have := WU_new_loop1 n n 0 (by omega)
  simp only [Int.natCast_zero] at this
  rw [this]
  have h2 := WU_new_loop2 wOf es es.length 0 (GObj.new .wundirected n) (WFwu_new n) (by omega)
  simp only [ofWU_new, Int.natCast_zero, List.drop_zero] at h2
  simp only [Outcome.ok_bind, uedgesOf, List.size_toArray, List.length_map] at h2 ⊢
  rw [h2]; rfl

theorem WU_New_neg (V : Int) (h : V < 0) (edges : Array GraphW.UndirectedEdge) : GraphW.NewWeightedUndirected V edges = .panic := by
  simp [GraphW.NewWeightedUndirected, Go.make_neg _ h]

theorem WU_Degree (o : GObj) (v : Int) : GraphW.WeightedUndirected.Degree (ofWU wOf o) v = o.outDegree v := by
  simp only [GraphW.WeightedUndirected.Degree, WU_isVertexValid, GObj.outDegree]
  by_cases hv : o.g.isVertexValid v = true
  · simp only [hv, Bool.not_true, Bool.false_eq_true, if_false, if_true]
    obtain ⟨k, rfl, -⟩ := valid_nat hv
    have e1 : (ofWU wOf o).adj = adjW (ueOf wOf) o.g.adj := rfl
    simp only [e1, Int.toNat_natCast]
    by_cases hk : k < o.g.adj.size
    · simp [idx_adjW _ _ _ hk, hk]
    · rw [Go.idx_of_invalid (by simp; omega)]; simp [Array.getElem?_eq_none (by omega : o.g.adj.size ≤ k)]
  · simp [hv]

theorem WU_Adj (o : GObj) (v : Int) :
    GraphW.WeightedUndirected.Adj (ofWU wOf o) v = (o.adjOf v).map (sliceOf (ueOf wOf)) := by
  simp only [GraphW.WeightedUndirected.Adj, WU_isVertexValid, GObj.adjOf]
  by_cases hv : o.g.isVertexValid v = true
  · simp only [hv, Bool.not_true, Bool.false_eq_true, if_false, if_true]
    obtain ⟨k, rfl, -⟩ := valid_nat hv
    have e1 : (ofWU wOf o).adj = adjW (ueOf wOf) o.g.adj := rfl
    simp only [e1, Int.toNat_natCast]
    by_cases hk : k < o.g.adj.size
    · simp [idx_adjW _ _ _ hk, hk, sliceOf]
    · rw [Go.idx_of_invalid (by simp; omega)]; simp [Array.getElem?_eq_none (by omega : o.g.adj.size ≤ k)]
  · simp [hv, sliceOf]

/-- `for _, e := range g.adj[v] { if e.Other(v) > v { edges = append(edges, e) } }` -/
theorem WU_edges_loop2 (o : GObj) (v : Nat) (hv : v < o.g.adj.size) (hok : ∀ x ∈ o.g.adj[v], ArcOK v x) :
    ∀ (k i : Nat) (acc : Array GraphW.UndirectedEdge), i + k = o.g.adj[v].length →
    GraphW.WeightedUndirected.Edges.loop2 (ofWU wOf o) (v : Int) k (i : Int) acc
      = .ok (acc ++ (((o.g.adj[v].drop i).filter fun x => decide (v < x.to)).map (ueOf wOf)).toArray)
  | 0, i, acc, h => by
    rw [List.drop_of_length_le (by omega)]; simp [GraphW.WeightedUndirected.Edges.loop2]
  | k+1, i, acc, h => by
    have hi : i < o.g.adj[v].length := by omega
    have e1 : (ofWU wOf o).adj = adjW (ueOf wOf) o.g.adj := rfl
    have hi2 : i < ((o.g.adj[v].map (ueOf wOf)).toArray).size := by simp; omega
    have hx : ((o.g.adj[v].map (ueOf wOf)).toArray)[i] = ueOf wOf (o.g.adj[v][i]) := by simp
    have hoth := other_of_ok wOf v (o.g.adj[v][i]) (hok _ (List.getElem_mem hi))
    simp only [GraphW.WeightedUndirected.Edges.loop2, e1, idx_adjW _ _ _ hv, Outcome.ok_bind, Go.idx_nat hi2, hx, hoth]
    rw [List.drop_eq_getElem_cons hi, show ((i : Int) + 1) = ((i + 1 : Nat) : Int) by omega]
    by_cases hlt : v < (o.g.adj[v][i]).to
    · have : ((o.g.adj[v][i]).to : Int) > (v : Int) := by omega
      simp only [this, decide_true, if_true, Outcome.ok_bind, Outcome.pure_eq]
      rw [WU_edges_loop2 o v hv hok k (i + 1) _ (by omega)]
      simp [hlt, List.filter_cons, -List.getElem_cons_drop]
    · have : ¬ ((o.g.adj[v][i]).to : Int) > (v : Int) := by omega
      simp only [this, decide_false, Bool.false_eq_true, if_false, Outcome.ok_bind, Outcome.pure_eq]
      rw [WU_edges_loop2 o v hv hok k (i + 1) _ (by omega)]
      simp [hlt, List.filter_cons, -List.getElem_cons_drop]

/-- `for v := range g.adj { … }` -/
theorem WU_edges_loop1 (o : GObj) (hok : ∀ (v : Nat) (h : v < o.g.adj.size), ∀ x ∈ o.g.adj[v], ArcOK v x) :
    ∀ (k v : Nat) (acc : Array GraphW.UndirectedEdge), v + k = o.g.adj.size →
    GraphW.WeightedUndirected.Edges.loop1 (ofWU wOf o) k (v : Int) acc
      = .ok (acc ++ ((List.range' v k).flatMap fun v =>
          ((o.g.adj.getD v []).filter fun x => decide (v < x.to)).map (ueOf wOf)).toArray)
  | 0, v, acc, h => by simp [GraphW.WeightedUndirected.Edges.loop1]
  | k+1, v, acc, h => by
    have hv : v < o.g.adj.size := by omega
    have e1 : (ofWU wOf o).adj = adjW (ueOf wOf) o.g.adj := rfl
    have hsz : ((o.g.adj[v].map (ueOf wOf)).toArray).size = o.g.adj[v].length := by simp
    have h2 := WU_edges_loop2 wOf o v hv (hok v hv) o.g.adj[v].length 0 acc (by omega)
    simp only [Int.natCast_zero, List.drop_zero] at h2
    simp only [GraphW.WeightedUndirected.Edges.loop1, e1, idx_adjW _ _ _ hv, Outcome.ok_bind, hsz, h2]
    rw [show ((v : Int) + 1) = ((v + 1 : Nat) : Int) by omega, WU_edges_loop1 o hok k (v + 1) _ (by omega)]
    simp [List.range'_succ, Array.getD, hv, Array.append_assoc]

/-- `Edges()` of `*WeightedUndirected` (every edge once: from its smaller endpoint; self-loops never) is the hand
Model's `edges` -/
theorem WU_Edges (o : GObj) (hw : WFwu o) :
    GraphW.WeightedUndirected.Edges (ofWU wOf o) = .ok (o.edges.map (ueE wOf)).toArray := by
  have hm : ∀ z : GraphW.UndirectedEdge, Go.make z 0 = .ok #[] := by intro z; simp [Go.make]
  have e1 : (ofWU wOf o).adj = adjW (ueOf wOf) o.g.adj := rfl
  have hdir : o.kind.isDirected = false := by rw [hw.1]; rfl
  have := WU_edges_loop1 wOf o hw.2.2 o.g.adj.size 0 #[] (by omega)
  simp only [Int.natCast_zero] at this
  simp only [GraphW.WeightedUndirected.Edges, hm, Outcome.ok_bind, e1, adjW_size, this, Outcome.pure_eq, GObj.edges, hdir,
    Bool.false_eq_true, if_false]
  have hd : ueOf wOf = fun x => ueE wOf x.e := rfl
  simp [List.map_flatMap, hd, Function.comp_def, List.range_eq_range']

end AlgoVerif.C14.Gen
