import AlgoVerif.Proofs.C08Total
import AlgoVerif.Proofs.C08EmptyC
/-!
# `nonEmptyB g = true ↔ ∃ w, Language g w`: the hypothesis `L(G) ≠ ∅` of the totality theorems is decidable
-/
namespace AlgoVerif.C08
open AlgoVerif AlgoVerif.Gram AlgoVerif.C08.Spec

theorem productivePass_prefix (ps : List SProd) (pr : List String) : pr <+: productivePass ps pr := by
  unfold productivePass
  apply foldl_prefix
  intro l p
  split
  · exact List.prefix_refl _
  · split
    · exact List.prefix_append _ _
    · exact List.prefix_refl _

theorem productive_total (g : G) : ∃ pr, productive g = some pr := by
  unfold productive
  refine iterFix_list_total (productivePass g.prods) (g.prods.map (fun p => p.head))
    (productivePass_prefix g.prods) ?_ ?_ [] List.nodup_nil (by intro a ha; cases ha) (g.prods.length + 2) (by simp)
  · intro l hl
    unfold productivePass
    refine foldl_inv List.Nodup _ g.prods ?_ l hl
    intro acc p _ hacc
    split
    · exact hacc
    · split
      · rename_i hh _
        exact List.nodup_append.mpr ⟨hacc, by simp, by
          intro a ha b hb
          simp at hb
          subst hb
          exact fun e => hh (e ▸ ha)⟩
      · exact hacc
  · intro l hl
    unfold productivePass
    refine foldl_inv (fun l => ∀ x ∈ l, x ∈ g.prods.map (fun p => p.head)) _ g.prods ?_ l hl
    intro acc p hp hacc
    split
    · exact hacc
    · split
      · intro x hx
        rcases List.mem_append.mp hx with hx | hx
        · exact hacc x hx
        · simp at hx; subst hx
          exact List.mem_map.mpr ⟨p, hp, rfl⟩
      · exact hacc

/-- every recorded non-terminal derives a terminal string -/
def ProdSound (g : G) (pr : List String) : Prop := ∀ n ∈ pr, ∃ w : List String, Derives g [Sym.nonterm n] (w.map Sym.term)

theorem bodyProductive_derives {g : G} {pr : List String} (hs : ProdSound g pr) :
    ∀ b : List SSym, bodyProductive pr b = true → ∃ w : List String, Derives g b (w.map Sym.term) := by
  intro b
  induction b with
  | nil => intro _; exact ⟨[], Derives.refl _⟩
  | cons s b ih =>
    intro h
    unfold bodyProductive at h
    simp only [List.all_cons, Bool.and_eq_true] at h
    obtain ⟨w₂, h₂⟩ := ih (by unfold bodyProductive; exact h.2)
    cases s with
    | term t =>
      refine ⟨t :: w₂, ?_⟩
      have := Derives.append (Derives.refl [Sym.term t]) h₂
      simpa using this
    | nonterm n =>
      obtain ⟨w₁, h₁⟩ := hs n (by simpa using h.1)
      refine ⟨w₁ ++ w₂, ?_⟩
      have := Derives.append h₁ h₂
      simpa using this

theorem productivePass_sound {g : G} {pr : List String} (hs : ProdSound g pr) : ProdSound g (productivePass g.prods pr) := by
  unfold productivePass
  refine foldl_inv (ProdSound g) _ g.prods ?_ pr hs
  intro acc p hp hacc
  split
  · exact hacc
  · split
    · rename_i hb
      intro n hn
      rcases List.mem_append.mp hn with hn | hn
      · exact hacc n hn
      · simp at hn; subst hn
        obtain ⟨w, hw⟩ := bodyProductive_derives hacc _ hb
        exact ⟨w, (Derives.of_prod hp).trans hw⟩
    · exact hacc

theorem productivePass_closed {ps : List SProd} {pr : List String} (h : productivePass ps pr = pr) :
    ∀ p ∈ ps, bodyProductive pr p.body = true → p.head ∈ pr := by
  intro p hp hb
  have hpre : ∀ (l : List String) (p : SProd),
      l <+: (if p.head ∈ l then l else if bodyProductive l p.body then l ++ [p.head] else l) := by
    intro l p
    split
    · exact List.prefix_refl _
    · split
      · exact List.prefix_append _ _
      · exact List.prefix_refl _
  have hstep := foldl_fix_of_prefix _ hpre ps pr h p hp
  by_cases hh : p.head ∈ pr
  · exact hh
  · simp only [hh, if_false, hb, if_true] at hstep
    have := congrArg List.length hstep
    simp at this

theorem derivesIn_bodyProductive {g : G} {pr : List String} {k : Nat}
    (ih : ∀ j ≤ k, ∀ (X : String) (w : List String), DerivesIn g j [Sym.nonterm X] (w.map Sym.term) → X ∈ pr) :
    ∀ (β : List SSym), ∀ j ≤ k, ∀ w : List String, DerivesIn g j β (w.map Sym.term) → bodyProductive pr β = true := by
  intro β
  induction β with
  | nil => intro _ _ _ _; rfl
  | cons s β ihβ =>
    intro j hj w d
    have d' : DerivesIn g j ([s] ++ β) (w.map Sym.term) := by simpa using d
    obtain ⟨γ₁, γ₂, n₁, n₂, hw, d₁, d₂, hn⟩ := d'.split
    obtain ⟨w₁, w₂, rfl, hw₁, hw₂⟩ := List.map_eq_append_iff.mp hw
    subst hw₁ hw₂
    have hβ := ihβ n₂ (by omega) w₂ d₂
    unfold bodyProductive at hβ ⊢
    simp only [List.all_cons, Bool.and_eq_true]
    refine ⟨?_, hβ⟩
    cases s with
    | term t => rfl
    | nonterm X => simpa using ih n₁ (by omega) X w₁ d₁

theorem nonEmptyB_iff (g : G) : nonEmptyB g = true ↔ ∃ w, Language g w := by
  obtain ⟨pr, hpr⟩ := productive_total g
  have hsound : ProdSound g pr := by
    unfold productive at hpr
    exact iterFix_inv _ (ProdSound g) (fun _ => productivePass_sound) _ _ _ (by intro n hn; cases hn) hpr
  have hfix : productivePass g.prods pr = pr := by
    unfold productive at hpr
    exact iterFix_fix _ _ _ _ hpr
  have hcomplete : ∀ k, ∀ (X : String) (w : List String), DerivesIn g k [Sym.nonterm X] (w.map Sym.term) → X ∈ pr := by
    intro k
    induction k using Nat.strongRecOn with
    | _ k ih =>
      intro X w d
      generalize hγ : w.map Sym.term = γ at d
      cases d with
      | refl => cases w <;> simp at hγ
      | @head k' _ β _ s d' =>
        subst hγ
        obtain ⟨p, hp, hh, rfl⟩ := s.of_single
        have hb := derivesIn_bodyProductive (g := g) (pr := pr) (k := k')
          (fun j hj Y w' dY => ih j (by omega) Y w' dY) p.body k' (Nat.le_refl _) w d'
        exact hh ▸ productivePass_closed hfix p hp hb
  unfold nonEmptyB
  rw [hpr]
  constructor
  · intro h
    exact hsound g.start (by simpa using h)
  · rintro ⟨w, hw⟩
    obtain ⟨k, dk⟩ := hw.toDerivesIn
    simpa using hcomplete k g.start w dk

end AlgoVerif.C08
